import NodisVerif.Proofs.C12Api
import NodisVerif.Proofs.C02
import NodisVerif.Proofs.C04Inv
/-
  C11-B / C12: the values written by the covered commands are well-formed and representable.
-/
namespace NodisVerif.Proofs.C11
open NodisVerif.Store NodisVerif.Codec NodisVerif.Spec.Persist
open NodisVerif.Proofs.AListLemmas NodisVerif.Proofs.AListLemmas2 NodisVerif.Proofs.C11AList

theorem good_str (b : Bytes) : Good (.str b) := ⟨trivial, trivial⟩
theorem good_strNil : Good .strNil := ⟨trivial, trivial⟩
theorem good_strVal (x : DsStr.S) : Good (Api.strVal x) := by cases x <;> exact ⟨trivial, trivial⟩
theorem good_emptyList : Good (.list DsList.empty) := ⟨rfl, by intro v hv; cases hv⟩
theorem good_emptyHash : Good (.hash []) := ⟨trivial, by intro p hp; cases hp⟩
theorem good_emptySet : Good (.set []) := ⟨trivial, by intro p hp; cases hp⟩

theorem inInt64_wrap64 (x : Int) : inInt64 (wrap64 x) = true := by
  unfold wrap64 inInt64 int64Min int64Max
  simp only [decide_eq_true_eq]
  have h1 : 0 ≤ x % 18446744073709551616 := Int.emod_nonneg _ (by decide)
  have h2 : x % 18446744073709551616 < 18446744073709551616 := Int.emod_lt_of_pos _ (by decide)
  split <;> omega

/-! ### lists -/

theorem good_push (left : Bool) (l : LList) (values : List Bytes) (h : Good (.list l))
    (hb : ∀ v ∈ values, v.length < 2 ^ 63) :
    Good (.list (if left then DsList.lpush l values else DsList.rpush l values)) := by
  obtain ⟨hw, hbd⟩ := h
  cases left with
  | true =>
    refine ⟨C02.lpush_wf l hw values, ?_⟩
    simp only [if_true, Bounded, C02.lpush_eq]
    intro v hv
    rcases List.mem_append.mp hv with h1 | h1
    · exact hb v (List.mem_reverse.mp h1)
    · exact hbd v h1
  | false =>
    refine ⟨C02.rpush_wf l hw values, ?_⟩
    simp only [Bool.false_eq_true, if_false, Bounded, C02.rpush_eq]
    intro v hv
    rcases List.mem_append.mp hv with h1 | h1
    · exact hbd v h1
    · exact hb v h1

theorem lpop_items_sub (l : LList) (count : Int) : ∀ v ∈ (DsList.lpop l count).1.items, v ∈ l.items := by
  unfold DsList.lpop
  split
  · exact fun _ a => a
  · simp only
    split
    · exact fun _ a => a
    · intro v hv; exact List.mem_of_mem_drop hv

theorem rpop_items_sub (l : LList) (count : Int) : ∀ v ∈ (DsList.rpop l count).1.items, v ∈ l.items := by
  unfold DsList.rpop
  split
  · exact fun _ a => a
  · simp only
    split
    · exact fun _ a => a
    · intro v hv; exact List.mem_of_mem_take hv

theorem good_pop (left : Bool) (l : LList) (count : Int) (h : Good (.list l)) :
    Good (.list (if left then DsList.lpop l count else DsList.rpop l count).1) := by
  obtain ⟨hw, hbd⟩ := h
  cases left with
  | true => exact ⟨C02.lpop_wf l hw count, fun v hv => hbd v (lpop_items_sub l count v hv)⟩
  | false => exact ⟨C02.rpop_wf l hw count, fun v hv => hbd v (rpop_items_sub l count v hv)⟩

/-! ### hashes and sets -/

theorem good_hset (h : AList Bytes) (f v : Bytes) (hg : Good (.hash h))
    (hb : f.length + v.length + 10 < 2 ^ 63) : Good (.hash (DsHash.hset h f v).1) := by
  obtain ⟨hw, hbd⟩ := hg
  refine ⟨set_preserves_sorted h hw f v, ?_⟩
  intro p hp
  rcases mem_set h f v p hp with rfl | h1
  · exact hb
  · exact hbd p h1

theorem good_hdel (fields : List Bytes) : ∀ (h : AList Bytes) (c : Int), Good (.hash h) →
    Good (.hash (fields.foldl (fun (acc : DsHash.H × Int) k =>
      if AList.contains acc.1 k then (AList.erase acc.1 k, acc.2 + 1) else acc) (h, c)).1) := by
  induction fields with
  | nil => intro h c hg; exact hg
  | cons k rest ih =>
    intro h c hg
    simp only [List.foldl_cons]
    split
    · apply ih
      obtain ⟨hw, hbd⟩ := hg
      exact ⟨erase_preserves_sorted h hw k, fun p hp => hbd p ((erase_sublist h k).subset hp)⟩
    · exact ih h c hg

theorem good_sadd (members : List Bytes) (hb : ∀ m ∈ members, m.length < 2 ^ 63) :
    ∀ (st : AList Unit) (c : Int), Good (.set st) → Good (.set (members.foldl (fun (acc : DsSet.S × Int) m =>
      if DsSet.mem acc.1 m then acc else (AList.set acc.1 m (), acc.2 + 1)) (st, c)).1) := by
  induction members with
  | nil => intro st c hg; exact hg
  | cons m rest ih =>
    intro st c hg
    simp only [List.foldl_cons]
    have hb' : ∀ m' ∈ rest, m'.length < 2 ^ 63 := fun m' hm' => hb m' (by simp [hm'])
    split
    · exact ih hb' st c hg
    · apply ih hb'
      obtain ⟨hw, hbd⟩ := hg
      refine ⟨set_preserves_sorted st hw m (), ?_⟩
      intro p hp
      rcases mem_set st m () p hp with rfl | h1
      · exact hb m (by simp)
      · exact hbd p h1

theorem good_srem (members : List Bytes) : ∀ (st : AList Unit) (c : Int), Good (.set st) →
    Good (.set (members.foldl (fun (acc : DsSet.S × Int) m =>
      if DsSet.mem acc.1 m then (AList.erase acc.1 m, acc.2 + 1) else acc) (st, c)).1) := by
  induction members with
  | nil => intro st c hg; exact hg
  | cons m rest ih =>
    intro st c hg
    simp only [List.foldl_cons]
    split
    · apply ih
      obtain ⟨hw, hbd⟩ := hg
      exact ⟨erase_preserves_sorted st hw m, fun p hp => hbd p ((erase_sublist st m).subset hp)⟩
    · exact ih st c hg

/-! ### sorted sets -/

theorem good_emptyZSet : Good (.zset DsZSet.empty) := by
  refine ⟨?_, by intro p hp; cases hp⟩
  exact (C04.wf_iff_inv _).mpr ⟨List.Pairwise.nil, (by intro p hp; cases hp), List.Pairwise.nil,
    (by intro s m; constructor <;> intro h <;> cases h)⟩

theorem good_zadd (z : ZSet) (m : Bytes) (sc : F64) (hg : Good (.zset z)) (hn : F64.isNaN sc = false)
    (hb : m.length + 8 < 2 ^ 63) : Good (.zset (DsZSet.zAdd z m sc).1) := by
  obtain ⟨hw, hbd⟩ := hg
  refine ⟨(C04.wf_iff_inv _).mpr (C04.inv_zAdd ((C04.wf_iff_inv z).mp hw) m sc hn), ?_⟩
  intro p hp
  have hdict : (DsZSet.zAdd z m sc).1.dict = z.dict ∨ (DsZSet.zAdd z m sc).1.dict = AList.set z.dict m sc := by
    unfold DsZSet.zAdd
    split
    · split
      · left; rfl
      · right; rfl
    · right; rfl
  rcases hdict with h1 | h1
  · rw [h1] at hp; exact hbd p hp
  · rw [h1] at hp
    rcases mem_set z.dict m sc p hp with rfl | h2
    · exact hb
    · exact hbd p h2

end NodisVerif.Proofs.C11
