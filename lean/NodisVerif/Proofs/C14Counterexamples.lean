import NodisVerif.Proofs.CodecLemmas
/-
  The four collection round-trip statements of C14 are FALSE without a bound on the length of
  the byte strings: a chunk of 2^63 bytes gets the length prefix PutVarint(2^63), i.e. the
  uvarint of 2^64, which `binary.Uvarint` rejects as an overflow (n = -10).
  A 2^63-byte list cannot be `#eval`uated, so the refutations are proved instead
  (for an arbitrary byte string of that length, instantiated with 2^63 zero bytes).
-/
namespace NodisVerif.Proofs.C14Counterexamples
open Varint Codec CodecLemmas AListLemmas

theorem putUvarint_two_pow_64 :
    putUvarint (2 ^ 64) = [128, 128, 128, 128, 128, 128, 128, 128, 128, 2] := by
  iterate 9 (rw [putUvarint, dif_neg (by decide)]; simp only [Nat.reducePow, Nat.reduceDiv, Nat.reduceMod, Nat.reduceAdd])
  rw [putUvarint, dif_pos (by decide)]
  rfl

theorem varint_overflow (rest : Bytes) :
    varint (putVarint (2 ^ 63) ++ rest) = (0, -10) := by
  have : zigzag (2 ^ 63) = 2 ^ 64 := by decide
  unfold putVarint
  rw [this, putUvarint_two_pow_64]
  simp [varint, uvarint, uvarintAux, unzigzag]

/-- any chunk of exactly 2^63 bytes -/
theorem varint_lenPrefixed_overflow (v rest : Bytes) (h : v.length = 2 ^ 63) :
    varint (lenPrefixed v ++ rest) = (0, -10) := by
  unfold lenPrefixed
  rw [h, List.append_assoc]
  exact varint_overflow _

theorem exists_bytes (n : Nat) : ∃ v : Bytes, v.length = n :=
  ⟨List.replicate n 0, List.length_replicate ..⟩

/-! ### list: the decoder fails (Go: slice bounds out of range) -/

theorem list_fail (v : Bytes) (hv : v.length = 2 ^ 63) :
    decodeEntry (encodeEntry (.list ⟨[v], 1⟩)) = none := by
  have e1 : ∀ l : LList, decodeEntry (encodeEntry (.list l))
      = (decodeList (encodeList l) DsList.empty ((encodeList l).length + 1)).map .list :=
    fun _ => rfl
  have e2 : encodeList ⟨[v], 1⟩ = lenPrefixed v ++ [] := by
    unfold encodeList
    rw [forEach_all]
    simp
  rw [e1, e2, decodeList.eq_3 _ _ _ (lenPrefixed_ne_nil _ _),
    varint_lenPrefixed_overflow _ _ hv]
  simp [slice?]

theorem list_roundtrip_false :
    ¬ ∀ l : LList, l.WF → decodeEntry (encodeEntry (.list l)) = some (.list l) := by
  intro H
  obtain ⟨v, hv⟩ := exists_bytes (2 ^ 63)
  have h := H ⟨[v], 1⟩ (by simp [LList.WF])
  rw [list_fail v hv] at h
  cases h

/-! ### set: the decoder fails -/

theorem set_fail (v : Bytes) (hv : v.length = 2 ^ 63) :
    decodeEntry (encodeEntry (.set [(v, ())])) = none := by
  have e1 : ∀ m : AList Unit, decodeEntry (encodeEntry (.set m))
      = (decodeSet (encodeSet m) [] ((encodeSet m).length + 1)).map .set := fun _ => rfl
  have e2 : encodeSet [(v, ())] = lenPrefixed v ++ [] := rfl
  rw [e1, e2, decodeSet.eq_3 _ _ _ (lenPrefixed_ne_nil _ _),
    varint_lenPrefixed_overflow _ _ hv]
  simp [from?, slice?]

theorem set_roundtrip_false :
    ¬ ∀ m : AList Unit, AList.Sorted m → decodeEntry (encodeEntry (.set m)) = some (.set m) := by
  intro H
  obtain ⟨v, hv⟩ := exists_bytes (2 ^ 63)
  have h := H [(v, ())] trivial
  rw [set_fail v hv] at h
  cases h

/-! ### hash: the decoder stops silently (n ≤ 0) and returns the empty hash -/

theorem putVarint_zero : putVarint 0 = [0] := by
  unfold putVarint
  have : zigzag 0 = 0 := by decide
  rw [this, putUvarint, dif_pos (by decide)]
  rfl

theorem hash_truncated (v : Bytes) (hv : v.length = 2 ^ 63 - 1) :
    decodeEntry (encodeEntry (.hash [([], v)])) = some (.hash []) := by
  have e1 : ∀ m : AList Bytes, decodeEntry (encodeEntry (.hash m))
      = (decodeHash (encodeHash m) [] ((encodeHash m).length + 1)).map .hash := fun _ => rfl
  have e2 : encodeHash [([], v)] = lenPrefixed (lenPrefixed [] ++ v) ++ [] := rfl
  have hl : (lenPrefixed [] ++ v).length = 2 ^ 63 := by
    rw [List.length_append, hv, lenPrefixed_length]
    simp [putVarint_zero]
  rw [e1, e2, decodeHash.eq_3 _ _ _ (lenPrefixed_ne_nil _ _),
    varint_lenPrefixed_overflow _ _ hl]
  simp

theorem hash_roundtrip_false :
    ¬ ∀ m : AList Bytes, AList.Sorted m → decodeEntry (encodeEntry (.hash m)) = some (.hash m) := by
  intro H
  obtain ⟨v, hv⟩ := exists_bytes (2 ^ 63 - 1)
  have h := H [([], v)] trivial
  rw [hash_truncated v hv] at h
  simp at h

/-! ### zset: same silent stop -/

theorem zset_truncated (v : Bytes) (hv : v.length = 2 ^ 63 - 8) :
    decodeEntry (encodeEntry (.zset ⟨[(v, 0)], [(0, v)]⟩)) = some (.zset DsZSet.empty) := by
  have e1 : ∀ z : ZSet, decodeEntry (encodeEntry (.zset z))
      = (decodeZSet (encodeZSet z) DsZSet.empty ((encodeZSet z).length + 1)).map .zset :=
    fun _ => rfl
  have e2 : encodeZSet ⟨[(v, 0)], [(0, v)]⟩ = lenPrefixed (u64le 0 ++ v) ++ [] := rfl
  have hl : (u64le 0 ++ v).length = 2 ^ 63 := by
    rw [List.length_append, hv, u64le_length]
  rw [e1, e2, decodeZSet.eq_3 _ _ _ (lenPrefixed_ne_nil _ _),
    varint_lenPrefixed_overflow _ _ hl]
  simp

theorem zset_wf (v : Bytes) : ZSet.WF ⟨[(v, 0)], [(0, v)]⟩ := by
  refine ⟨trivial, ?_, trivial, rfl, ?_⟩
  · intro m s hm
    simp only [List.mem_singleton, Prod.mk.injEq] at hm
    rw [hm.2]
    decide
  · intro m s hm
    simp only [List.mem_singleton, Prod.mk.injEq] at hm
    rw [hm.1, hm.2]
    simp [AList.get?]

theorem zset_roundtrip_false :
    ¬ ∀ z : ZSet, z.WF → decodeEntry (encodeEntry (.zset z)) = some (.zset z) := by
  intro H
  obtain ⟨v, hv⟩ := exists_bytes (2 ^ 63 - 8)
  have h := H _ (zset_wf v)
  rw [zset_truncated v hv] at h
  simp [DsZSet.empty] at h

end NodisVerif.Proofs.C14Counterexamples
