import NodisVerif.Proofs.C20Seq
/-
  C20: every record a call hands to the watchers names one of the call's key arguments.
-/
namespace NodisVerif.Proofs.C20
open NodisVerif NodisVerif.Store NodisVerif.Spec.Persist NodisVerif.Proofs.C11

variable {now : Int} {p r : MState}

/-- all records the transaction can emit name its key -/
def KeyedForm (f : TxForm) : Prop := ∀ v e, ∀ op ∈ Act.ops (f.dec v e), op.key = f.key

theorem ops_keyed {f : TxForm} (h : KeyedForm f) (L : Option (Val × Int)) : ∀ op ∈ f.ops L, op.key = f.key := by
  intro op hop
  unfold TxForm.ops at hop
  split at hop
  · exact h _ _ op hop
  · exact h _ _ op hop
  · cases hop

theorem form_keyed_raw {f : TxForm} (hf : f.OK) (hk : KeyedForm f) (hi : StoreInv p now)
    (hl : p.listeners = true) (hfd : p.feed = []) : ∀ op ∈ (f.run p now).1.feed.reverse, op.key = f.key := by
  rw [(form_raw hf hi hl hfd).1]; exact ops_keyed hk _

/-- the corrections of `Feed.emission` (SMOVE and CLEAR aside) keep the key of every record -/
theorem emission_keys {c : Feed.CallInfo} (h1 : c.method ≠ "SMove") (h2 : c.method ≠ "Clear") {P : Bytes → Prop}
    {raw : List FeedOp} (h : ∀ op ∈ raw, P op.key) (out : Out) : ∀ op ∈ Feed.emission c out raw, P op.key := by
  intro op hop
  unfold Feed.emission at hop
  split at hop
  · simp only [List.mem_map] at hop
    obtain ⟨o, ho, rfl⟩ := hop
    split <;> exact h o ho
  · simp only [beq_iff_eq, h1, if_false, h2] at hop
    split at hop
    · split at hop
      · cases hop
      · exact h op hop
    · split at hop
      · split at hop
        · cases hop
        · exact h op hop
      · split at hop
        · simp only [List.mem_map] at hop
          obtain ⟨o, ho, rfl⟩ := hop
          split <;> exact h o ho
        · exact h op hop

theorem keyed_strWrite (k : Bytes) (g : DsStr.S → Option (Option Val × Option Int × List FeedOp × Out))
    (fail : DsStr.S → Out) (hg : ∀ x q, g x = some q → ∀ op ∈ q.2.2.1, op.key = k) :
    ∀ v e, ∀ op ∈ Act.ops (decStrWrite g fail v e), op.key = k := by
  intro v e op hop
  have go : ∀ x : DsStr.S, op ∈ Act.ops (match g x with
      | some (v', e', ops, r) => Act.put v' e' ops r
      | none => Act.keep (fail x)) → op.key = k := by
    intro x hx
    cases hgx : g x with
    | none => rw [hgx] at hx; cases hx
    | some q => rw [hgx] at hx; exact hg x q hgx op hx
  cases v with
  | str b => exact go (some b) hop
  | strNil => exact go none hop
  | _ => cases hop

theorem keyed_strWrite' (f : TxForm) (g : DsStr.S → Option (Option Val × Option Int × List FeedOp × Out))
    (fail : DsStr.S → Out) (hdec : f.dec = decStrWrite g fail)
    (hg : ∀ x q, g x = some q → ∀ op ∈ q.2.2.1, op.key = f.key) : KeyedForm f := by
  intro v e op hop
  rw [hdec] at hop
  exact keyed_strWrite f.key g fail hg v e op hop

/-! ### the forms -/

theorem keyed_setF (k v : Bytes) (keep : Bool) : KeyedForm (setF now k v keep) := by
  intro w e op hop
  cases w <;> simp [setF, Cmd.form, decSet, decStrWrite, Act.ops] at hop <;> (subst hop; rfl)

theorem keyed_setXX (k v : Bytes) (keep : Bool) : KeyedForm ((Cmd.setXX k v keep).form now) := by
  intro w e op hop
  cases w <;> simp [Cmd.form, decSetXX, decStrWrite, Act.ops] at hop <;> (subst hop; rfl)

theorem keyed_getSet (k v : Bytes) : KeyedForm ((Cmd.getSet k v).form now) := by
  intro w e op hop
  cases w <;> simp [Cmd.form, decGetSet, decStrWrite, Act.ops] at hop <;> (subst hop; rfl)

theorem keyed_setEx (k v : Bytes) (e : Int) : KeyedForm (setExForm k v e) := by
  intro w e' op hop
  cases w <;> simp [setExForm, decSetEx, decStrWrite, Act.ops] at hop <;> (subst hop; rfl)

theorem keyed_append (k v : Bytes) : KeyedForm ((Cmd.append k v).form now) := by
  intro w e op hop
  cases w <;> simp [Cmd.form, decAppend, decStrWrite, Act.ops] at hop <;> (subst hop; rfl)

theorem keyed_setBit (k : Bytes) (o : Int) (b : Bool) : KeyedForm (setBitF k o b) := by
  intro w e op hop
  cases w <;> simp [setBitF, decSetBit, decStrWrite, Act.ops] at hop <;> (subst hop; rfl)

theorem keyed_addInt (k : Bytes) (d : Int) (neg : Bool) : KeyedForm ((Cmd.incrBy k d neg).form now) := by
  refine keyed_strWrite' _ (fun v => match (if neg then DsStr.decr v d else DsStr.incr v d) with
      | none => none
      | some (v', n) => some (some (Api.strVal v'), none, [Api.opSet k (formatInt n) false],
          .many [.int n, .err false])) (fun _ => .many [.int 0, .err true]) rfl ?_
  intro x q hq op hop
  try dsimp only at hq
  split at hq
  · cases hq
  · cases hq; simp at hop; subst hop; rfl

theorem keyed_setRange (k : Bytes) (o : Int) (v : Bytes) : KeyedForm (setRangeF k o v) := by
  refine keyed_strWrite' _ (fun s => match DsStr.setRange s o v with
      | none => none
      | some (v', n) => some (some (Api.strVal v'), none, [Api.opSet k (DsStr.bytes v') false], .int n))
    (fun _ => .panic) rfl ?_
  intro x q hq op hop
  try dsimp only at hq
  split at hq
  · cases hq
  · cases hq; simp at hop; subst hop; rfl

theorem keyed_incrByFloat (k : Bytes) (d : F64) : KeyedForm (incrByFloatF k d) := by
  refine keyed_strWrite' _ (fun v => match ibfCalc v d with
      | .inl (t, sum) => some (some (.str t), none, [Api.opSet k t false], .many [.f64 sum, .err false])
      | .inr _ => none)
    (fun v => match ibfCalc v d with | .inr o => o | .inl _ => .unit) rfl ?_
  intro x q hq op hop
  try dsimp only at hq
  split at hq
  · cases hq; simp at hop; subst hop; rfl
  · cases hq

theorem keyed_expF (nov : MState → Api.R) (k : Bytes) (ts : Int) (cond : Int → Bool) : KeyedForm (expF nov k ts cond) := by
  intro v e op hop
  simp only [expF, decExpire] at hop
  split at hop
  · simp [Act.ops] at hop; subst hop; rfl
  · cases hop

theorem keyed_persist (k : Bytes) : KeyedForm (persistF now k) := by
  intro v e op hop
  simp only [persistF, Cmd.form, decPersist] at hop
  split at hop
  · cases hop
  · simp [Act.ops] at hop; subst hop; rfl

theorem keyed_push (left : Bool) (k : Bytes) (vs : List Bytes) : KeyedForm ((Cmd.push left k vs).form now) := by
  intro v e op hop
  cases v <;> simp [Cmd.form, decPush, Act.ops] at hop
  subst hop; rfl

theorem keyed_listMut (f : LList → LList × List FeedOp × Out) (miss : Out) (nov : MState → Api.R) (k : Bytes)
    (hf : ∀ l, ∀ op ∈ (f l).2.1, op.key = k) : KeyedForm ⟨true, none, miss, nov, decListMut f, k⟩ := by
  intro v e op hop
  cases v with
  | list l =>
    simp only [decListMut] at hop
    split at hop <;> exact hf l op hop
  | _ => cases hop

theorem keyed_linsert (k pv d : Bytes) (b : Bool) : KeyedForm (linsertF k pv d b) := by
  intro v e op hop
  cases v <;> simp [linsertF, decLinsert, Act.ops] at hop
  subst hop; rfl

theorem keyed_pushX (left : Bool) (k d : Bytes) : KeyedForm (pushXF left k d) := by
  intro v e op hop
  cases v <;> simp [pushXF, decPushX, Act.ops] at hop
  subst hop; rfl

theorem keyed_lset (k : Bytes) (i : Int) (d : Bytes) : KeyedForm (lsetF k i d) := by
  intro v e op hop
  cases v with
  | list l =>
    simp only [lsetF, decLset] at hop
    split at hop
    · cases hop
    · simp [Act.ops] at hop; subst hop; rfl
  | _ => cases hop

theorem keyed_hset (k f v : Bytes) : KeyedForm ((Cmd.hset k f v).form now) := by
  intro v e op hop
  cases v <;> simp [Cmd.form, decHset, Act.ops] at hop
  subst hop; rfl

theorem keyed_hdel (k : Bytes) (fs : List Bytes) : KeyedForm ((Cmd.hdel k fs).form now) := by
  intro v e op hop
  cases v with
  | hash h =>
    simp only [Cmd.form, decHdel] at hop
    split at hop <;> (simp [Act.ops] at hop; subst hop; rfl)
  | _ => cases hop

theorem keyed_hincrby (k f : Bytes) (n : Int) : KeyedForm (hincrbyF k f n) := by
  intro v e op hop
  cases v with
  | hash h =>
    simp only [hincrbyF, decHincrby] at hop
    split at hop <;> (simp [Act.ops] at hop; subst hop; rfl)
  | _ => cases hop

theorem keyed_hsetnx (k f v : Bytes) : KeyedForm (hsetnxForm k f v) := by
  intro v e op hop
  cases v with
  | hash h =>
    simp only [hsetnxForm, decHsetnx] at hop
    split at hop
    · cases hop
    · simp [Act.ops] at hop; subst hop; rfl
  | _ => cases hop

theorem keyed_hmset (k : Bytes) (pairs : List (Bytes × Bytes)) : KeyedForm (hmsetF k pairs) := by
  intro v e op hop
  cases v with
  | hash h =>
    simp only [hmsetF, decHmset, Act.ops, List.mem_map] at hop
    obtain ⟨q, _, rfl⟩ := hop
    rfl
  | _ => cases hop

theorem keyed_sadd (k : Bytes) (ms : List Bytes) : KeyedForm ((Cmd.sadd k ms).form now) := by
  intro v e op hop
  cases v <;> simp [Cmd.form, decSadd, Act.ops] at hop
  subst hop; rfl

theorem keyed_srem (k : Bytes) (ms : List Bytes) : KeyedForm ((Cmd.srem k ms).form now) := by
  intro v e op hop
  cases v with
  | set st =>
    simp only [Cmd.form, decSrem] at hop
    split at hop <;> (simp [Act.ops] at hop; subst hop; rfl)
  | _ => cases hop

theorem keyed_spop (k : Bytes) (n : Int) (ch : List Bytes) : KeyedForm (spopF k n ch) := by
  intro v e op hop
  cases v with
  | set st =>
    simp only [spopF, decSpop] at hop
    split at hop
    · cases hop
    · split at hop <;> (simp [Act.ops] at hop; subst hop; rfl)
  | _ => cases hop

theorem keyed_zaddWith (f : ZSet → Bytes → F64 → ZSet × Int) (k m : Bytes) (sc : F64) :
    KeyedForm ⟨true, some (.zset DsZSet.empty), .unit, Cmd.pan, decZaddWith f k m sc, k⟩ := by
  intro v e op hop
  cases v <;> simp [decZaddWith, Act.ops] at hop
  subst hop; rfl

theorem keyed_zaddIf (cond : ZSet → Bool) (out : ZSet → Out) (no : Out) (k m : Bytes) (sc : F64) :
    KeyedForm (zaddIfF cond out no k m sc) := by
  intro v e op hop
  cases v with
  | zset z =>
    simp only [zaddIfF, decZaddIf] at hop
    split at hop
    · simp [Act.ops] at hop; subst hop; rfl
    · cases hop
  | _ => cases hop

/-! ### the raw records of every covered call -/

theorem del_keys (hs : Same now p r) (hl : p.listeners = true) (hfd : p.feed = []) (ks : List Bytes) :
    ∀ op ∈ (Api.del p now ks).1.feed.reverse, op.key ∈ ks := by
  rw [del_eq]
  obtain ⟨ops, r', f, _, _, k⟩ := del_fold (now := now) ks p r 0 hs hl
  have : (ks.foldl (delStep now) (p, 0)).1.feed = ops.reverse ++ p.feed := congrArg Prod.fst f
  simp only
  rw [this, hfd]
  simp only [List.append_nil, List.reverse_reverse]
  exact k

theorem setNX_keys (h : StoreInv p now) (hl : p.listeners = true) (hfd : p.feed = []) (k v : Bytes) (keep : Bool) :
    ∀ op ∈ (Api.setNX p now k v keep).1.feed.reverse, op.key = k := by
  cases hL : lookup p now k with
  | some cc =>
    obtain ⟨w, e⟩ := cc
    have ks := writeKey_spec h (Int.le_refl now) k none (fun _ hc => nomatch hc)
    have hfl := fl_writeKey p now k none
    obtain ⟨hok, _⟩ := ks.hit w e hL
    have heq : Api.setNX p now k v keep = ((writeKey p now k none).1, .bool false) := by
      unfold Api.setNX
      generalize writeKey p now k none = r0 at hok
      obtain ⟨s1, okk⟩ := r0
      simp only at hok; subst hok
      rfl
    rw [heq]
    simp only
    rw [show (writeKey p now k none).1.feed = p.feed from congrArg Prod.fst hfl, hfd]
    intro op hop; cases hop
  | none =>
    obtain ⟨_, _, _, a4, a5⟩ := publish_spec h k hL (.str []) (good_str [])
      (.put (some (.str v)) none [Api.opSet k v keep] (.bool true))
      ⟨(fun w hw => by cases hw; exact good_str _), (fun e he => by cases he)⟩ hl
    have heq : Api.setNX p now k v keep =
        runAct (newKeyWith (writeKey p now k none).1 k none (.str [])) k
          (.put (some (.str v)) none [Api.opSet k v keep] (.bool true)) := by
      unfold Api.setNX
      generalize writeKey p now k none = r0 at a5
      obtain ⟨s1, okk⟩ := r0
      simp only at a5; subst a5
      simp only [Bool.false_eq_true, if_false]
      cases keep
      · simp only [Bool.not_false, if_true, setExp_newKeyWith_zero]; rfl
      · rfl
    rw [heq, show (runAct (newKeyWith (writeKey p now k none).1 k none (.str [])) k
          (.put (some (.str v)) none [Api.opSet k v keep] (.bool true))).1.feed = _ from congrArg Prod.fst a4, hfd]
    intro op hop
    simp [Act.ops] at hop
    subst hop; rfl

/-- every raw record of a covered call names one of the call's key arguments -/
theorem call_raw_keys (c : Call) (hwf : c.WF) (hs : Same now p r) (hl : p.listeners = true) (hfd : p.feed = [])
    (hreg : ¬ c.Region (lookup p now)) :
    ∀ op ∈ (c.run p now).1.feed.reverse, op.key ∈ c.keys := by
  have hi := hs.invP
  have one : ∀ {k : Bytes} {raw : List FeedOp}, (∀ op ∈ raw, op.key = k) → ∀ op ∈ raw, op.key ∈ [k] :=
    fun h op hop => by rw [h op hop]; simp
  cases c with
  | del ks => exact del_keys hs hl hfd ks
  | unlink ks => exact del_keys hs hl hfd ks
  | expire k n =>
    show ∀ op ∈ (Api.expire p now k n).1.feed.reverse, op.key ∈ [k]
    by_cases h0 : n = 0
    · have : Api.expire p now k n = Api.del p now [k] := by unfold Api.expire; rw [if_pos h0]
      rw [this]; exact del_keys hs hl hfd [k]
    · rw [expire_eq p now k n h0]
      exact one (form_keyed_raw (expF_ok (fun s1 => (Api.applyExp s1 k (wrap64 (now + wrap64 (n * 1000))), .int 1)) k _
        (fun _ => true) (inInt64_wrap64 _)) (keyed_expF _ k _ _) hi hl hfd)
  | expirePX k n =>
    show ∀ op ∈ (Api.expirePX p now k n).1.feed.reverse, op.key ∈ [k]
    by_cases h0 : n = 0
    · have : Api.expirePX p now k n = Api.del p now [k] := by unfold Api.expirePX; rw [if_pos h0]
      rw [this]; exact del_keys hs hl hfd [k]
    · rw [expirePX_eq p now k n h0]
      exact one (form_keyed_raw (expF_ok (fun s1 => (Api.applyExp s1 k (wrap64 (now + n)), .int 1)) k _
        (fun _ => true) (inInt64_wrap64 _)) (keyed_expF _ k _ _) hi hl hfd)
  | expireNX k n =>
    show ∀ op ∈ (Api.expireNX p now k n).1.feed.reverse, op.key ∈ [k]
    rw [expireNX_eq]
    exact one (form_keyed_raw (expireCondForm_ok k _ _ (inInt64_wrap64 _)) (keyed_expF _ k _ _) hi hl hfd)
  | expireXX k n =>
    show ∀ op ∈ (Api.expireXX p now k n).1.feed.reverse, op.key ∈ [k]
    rw [expireXX_eq]
    exact one (form_keyed_raw (expireCondForm_ok k _ _ (inInt64_wrap64 _)) (keyed_expF _ k _ _) hi hl hfd)
  | expireLT k n =>
    show ∀ op ∈ (Api.expireLT p now k n).1.feed.reverse, op.key ∈ [k]
    rw [expireLT_eq]
    exact one (form_keyed_raw (expireCondForm_ok k _ _ (inInt64_wrap64 _)) (keyed_expF _ k _ _) hi hl hfd)
  | expireGT k n =>
    show ∀ op ∈ (Api.expireGT p now k n).1.feed.reverse, op.key ∈ [k]
    rw [expireGT_eq]
    exact one (form_keyed_raw (expireCondForm_ok k _ _ (inInt64_wrap64 _)) (keyed_expF _ k _ _) hi hl hfd)
  | expireAt k ts =>
    show ∀ op ∈ (Api.expireAt p now k ts).1.feed.reverse, op.key ∈ [k]
    rw [expireAt_eq]
    exact one (form_keyed_raw (expF_ok (fun s1 => (Api.applyExp s1 k ts, .int 1)) k ts (fun _ => true) hwf)
      (keyed_expF _ k _ _) hi hl hfd)
  | expireAtNX k ts =>
    show ∀ op ∈ (Api.expireAtNX p now k ts).1.feed.reverse, op.key ∈ [k]
    rw [expireAtNX_eq]
    exact one (form_keyed_raw (expireCondForm_ok k ts (fun e => decide (e = 0)) hwf) (keyed_expF _ k _ _) hi hl hfd)
  | expireAtXX k ts =>
    show ∀ op ∈ (Api.expireAtXX p now k ts).1.feed.reverse, op.key ∈ [k]
    rw [expireAtXX_eq]
    exact one (form_keyed_raw (expireCondForm_ok k ts (fun e => decide (e ≠ 0)) hwf) (keyed_expF _ k _ _) hi hl hfd)
  | expireAtLT k ts =>
    show ∀ op ∈ (Api.expireAtLT p now k ts).1.feed.reverse, op.key ∈ [k]
    rw [expireAtLT_eq]
    exact one (form_keyed_raw (expireCondForm_ok k ts _ hwf) (keyed_expF _ k _ _) hi hl hfd)
  | expireAtGT k ts =>
    show ∀ op ∈ (Api.expireAtGT p now k ts).1.feed.reverse, op.key ∈ [k]
    rw [expireAtGT_eq]
    exact one (form_keyed_raw (expireCondForm_ok k ts _ hwf) (keyed_expF _ k _ _) hi hl hfd)
  | rename a b =>
    show ∀ op ∈ (Api.rename p now a b).1.feed.reverse, op.key ∈ [a, b]
    have hfl := rename_fl hi hl a b
    rw [show (Api.rename p now a b).1.feed = _ from congrArg Prod.fst hfl, hfd]
    intro op hop
    split at hop
    · simp at hop; subst hop; simp
    · cases hop
  | persist k =>
    show ∀ op ∈ (Api.persist p now k).1.feed.reverse, op.key ∈ [k]
    rw [apiPersist_eq]
    exact one (form_keyed_raw (persistF_ok now k) (keyed_persist k) hi hl hfd)
  | clear => intro op hop; rw [show ((Call.clear).run p now).1.feed = p.feed from rfl, hfd] at hop; cases hop
  | hclear k => exact del_keys hs hl hfd [k]
  | zclear k => exact del_keys hs hl hfd [k]
  | set k v keep =>
    show ∀ op ∈ (Api.set p now k v keep).1.feed.reverse, op.key ∈ [k]
    rw [set_eq]; exact one (form_keyed_raw (setF_ok now k v keep) (keyed_setF k v keep) hi hl hfd)
  | getSet k v =>
    show ∀ op ∈ (Api.getSet p now k v).1.feed.reverse, op.key ∈ [k]
    rw [(getSet_raw hi hl hfd k v).1]; exact one (ops_keyed (keyed_getSet k v) _)
  | setEX k v n =>
    show ∀ op ∈ (Api.setEX p now k v n).1.feed.reverse, op.key ∈ [k]
    rw [setEX_eq]; exact one (form_keyed_raw (setExForm_ok k v _ (inInt64_wrap64 _)) (keyed_setEx k v _) hi hl hfd)
  | setPX k v n =>
    show ∀ op ∈ (Api.setPX p now k v n).1.feed.reverse, op.key ∈ [k]
    rw [setPX_eq]; exact one (form_keyed_raw (setExForm_ok k v _ (inInt64_wrap64 _)) (keyed_setEx k v _) hi hl hfd)
  | setNX k v keep => exact one (setNX_keys hi hl hfd k v keep)
  | setXX k v keep =>
    show ∀ op ∈ (Api.setXX p now k v keep).1.feed.reverse, op.key ∈ [k]
    rw [setXX_eq]
    exact one (form_keyed_raw (f := (Cmd.setXX k v keep).form now) (Cmd.ok (.setXX k v keep) now trivial)
      (keyed_setXX k v keep) hi hl hfd)
  | incr k =>
    show ∀ op ∈ (Api.addInt p now k 1 false false).1.feed.reverse, op.key ∈ [k]
    rw [addInt_eq]
    exact one (form_keyed_raw (f := (Cmd.incrBy k 1 false).form now) (Cmd.ok (.incrBy k 1 false) now trivial)
      (keyed_addInt k 1 false) hi hl hfd)
  | incrBy k n =>
    show ∀ op ∈ (Api.addInt p now k n false true).1.feed.reverse, op.key ∈ [k]
    rw [addInt_eq]
    exact one (form_keyed_raw (f := (Cmd.incrBy k n false).form now) (Cmd.ok (.incrBy k n false) now trivial)
      (keyed_addInt k n false) hi hl hfd)
  | decr k =>
    show ∀ op ∈ (Api.addInt p now k 1 true false).1.feed.reverse, op.key ∈ [k]
    rw [addInt_eq]
    exact one (form_keyed_raw (f := (Cmd.incrBy k 1 true).form now) (Cmd.ok (.incrBy k 1 true) now trivial)
      (keyed_addInt k 1 true) hi hl hfd)
  | decrBy k n =>
    show ∀ op ∈ (Api.addInt p now k n true false).1.feed.reverse, op.key ∈ [k]
    rw [addInt_eq]
    exact one (form_keyed_raw (f := (Cmd.incrBy k n true).form now) (Cmd.ok (.incrBy k n true) now trivial)
      (keyed_addInt k n true) hi hl hfd)
  | incrByFloat k d =>
    show ∀ op ∈ (Api.incrByFloat p now k d).1.feed.reverse, op.key ∈ [k]
    rw [incrByFloat_eq]; exact one (form_keyed_raw (incrByFloatF_ok k d) (keyed_incrByFloat k d) hi hl hfd)
  | setBit k o b =>
    show ∀ op ∈ (Api.setBit p now k o b).1.feed.reverse, op.key ∈ [k]
    rw [setBit_eq]; exact one (form_keyed_raw (setBitF_ok k o b) (keyed_setBit k o b) hi hl hfd)
  | append k v =>
    show ∀ op ∈ (Api.append p now k v).1.feed.reverse, op.key ∈ [k]
    rw [append_eq]
    exact one (form_keyed_raw (f := (Cmd.append k v).form now) (Cmd.ok (.append k v) now trivial)
      (keyed_append k v) hi hl hfd)
  | setRange k o v =>
    show ∀ op ∈ (Api.setRange p now k o v).1.feed.reverse, op.key ∈ [k]
    rw [setRange_eq]; exact one (form_keyed_raw (setRangeF_ok k o v) (keyed_setRange k o v) hi hl hfd)
  | mset kvs => exact mset_keys hs hl hfd kvs
  | lpush k vs =>
    show ∀ op ∈ (Api.push true p now k vs).1.feed.reverse, op.key ∈ [k]
    rw [push_eq]
    exact one (form_keyed_raw (f := (Cmd.push true k vs).form now) (Cmd.ok (.push true k vs) now hwf)
      (keyed_push true k vs) hi hl hfd)
  | rpush k vs =>
    show ∀ op ∈ (Api.push false p now k vs).1.feed.reverse, op.key ∈ [k]
    rw [push_eq]
    exact one (form_keyed_raw (f := (Cmd.push false k vs).form now) (Cmd.ok (.push false k vs) now hwf)
      (keyed_push false k vs) hi hl hfd)
  | lpop k n =>
    show ∀ op ∈ (Api.pop true p now k n).1.feed.reverse, op.key ∈ [k]
    rw [pop_eq]
    exact one (form_keyed_raw (f := (Cmd.pop true k n).form now) (Cmd.ok (.pop true k n) now trivial)
      (keyed_listMut _ _ _ k (fun l op hop => by simp [popF] at hop; subst hop; rfl)) hi hl hfd)
  | rpop k n =>
    show ∀ op ∈ (Api.pop false p now k n).1.feed.reverse, op.key ∈ [k]
    rw [pop_eq]
    exact one (form_keyed_raw (f := (Cmd.pop false k n).form now) (Cmd.ok (.pop false k n) now trivial)
      (keyed_listMut _ _ _ k (fun l op hop => by simp [popF] at hop; subst hop; rfl)) hi hl hfd)
  | linsert k pv d before =>
    show ∀ op ∈ (Api.linsert p now k pv d before).1.feed.reverse, op.key ∈ [k]
    rw [linsert_eq]; exact one (form_keyed_raw (linsertF_ok k pv d before hwf) (keyed_linsert k pv d before) hi hl hfd)
  | lpushX k d =>
    show ∀ op ∈ (Api.pushX true p now k d).1.feed.reverse, op.key ∈ [k]
    rw [pushX_eq]; exact one (form_keyed_raw (pushXF_ok true k d hwf) (keyed_pushX true k d) hi hl hfd)
  | rpushX k d =>
    show ∀ op ∈ (Api.pushX false p now k d).1.feed.reverse, op.key ∈ [k]
    rw [pushX_eq]; exact one (form_keyed_raw (pushXF_ok false k d hwf) (keyed_pushX false k d) hi hl hfd)
  | lrem k d n =>
    show ∀ op ∈ (Api.lrem p now k d n).1.feed.reverse, op.key ∈ [k]
    rw [show Api.lrem p now k d n = (lremF' k d n).run p now from lrem_eq p now k d n]
    exact one (form_keyed_raw (lremF'_ok k d n)
      (keyed_listMut _ _ _ k (fun l op hop => by simp [lremF] at hop; subst hop; rfl)) hi hl hfd)
  | lset k i d =>
    show ∀ op ∈ (Api.lset p now k i d).1.feed.reverse, op.key ∈ [k]
    rw [lset_eq]; exact one (form_keyed_raw (lsetF_ok k i d hwf) (keyed_lset k i d) hi hl hfd)
  | ltrim k a b =>
    show ∀ op ∈ (Api.ltrim p now k a b).1.feed.reverse, op.key ∈ [k]
    rw [show Api.ltrim p now k a b = (ltrimF' k a b).run p now from ltrim_eq p now k a b]
    exact one (form_keyed_raw (ltrimF'_ok k a b)
      (keyed_listMut _ _ _ k (fun l op hop => by simp [ltrimF] at hop; subst hop; rfl)) hi hl hfd)
  | hset k f v =>
    show ∀ op ∈ (Api.hset p now k f v).1.feed.reverse, op.key ∈ [k]
    rw [hset_eq]
    exact one (form_keyed_raw (f := (Cmd.hset k f v).form now) (Cmd.ok (.hset k f v) now hwf)
      (keyed_hset k f v) hi hl hfd)
  | hdel k fs =>
    show ∀ op ∈ (Api.hdel p now k fs).1.feed.reverse, op.key ∈ [k]
    rw [hdel_eq]
    exact one (form_keyed_raw (f := (Cmd.hdel k fs).form now) (Cmd.ok (.hdel k fs) now trivial)
      (keyed_hdel k fs) hi hl hfd)
  | hincrBy k f n =>
    show ∀ op ∈ (Api.hincrby p now k f n).1.feed.reverse, op.key ∈ [k]
    rw [hincrby_eq]; exact one (form_keyed_raw (hincrbyF_ok k f n hwf.1 hwf.2) (keyed_hincrby k f n) hi hl hfd)
  | hsetNX k f v =>
    show ∀ op ∈ (Api.hsetnx p now k f v).1.feed.reverse, op.key ∈ [k]
    rw [hsetnx_eq]; exact one (form_keyed_raw (hsetnxForm_ok k f v hwf) (keyed_hsetnx k f v) hi hl hfd)
  | hmset k pairs =>
    show ∀ op ∈ (Api.hmset p now k pairs).1.feed.reverse, op.key ∈ [k]
    rw [hmset_eq]; exact one (form_keyed_raw (hmsetF_ok k pairs hwf) (keyed_hmset k pairs) hi hl hfd)
  | sadd k ms =>
    show ∀ op ∈ (Api.sadd p now k ms).1.feed.reverse, op.key ∈ [k]
    rw [sadd_eq]
    exact one (form_keyed_raw (f := (Cmd.sadd k ms).form now) (Cmd.ok (.sadd k ms) now hwf)
      (keyed_sadd k ms) hi hl hfd)
  | srem k ms =>
    show ∀ op ∈ (Api.srem p now k ms).1.feed.reverse, op.key ∈ [k]
    rw [srem_eq]
    exact one (form_keyed_raw (f := (Cmd.srem k ms).form now) (Cmd.ok (.srem k ms) now trivial)
      (keyed_srem k ms) hi hl hfd)
  | spop k n choice =>
    show ∀ op ∈ (Api.spop p now k n choice).1.feed.reverse, op.key ∈ [k]
    rw [spop_eq]; exact one (form_keyed_raw (spopF_ok k n choice) (keyed_spop k n choice) hi hl hfd)
  | zadd k m sc =>
    show ∀ op ∈ (Api.zadd p now k m sc).1.feed.reverse, op.key ∈ [k]
    rw [zadd_eq]
    exact one (form_keyed_raw (f := (Cmd.zadd k m sc).form now) (Cmd.ok (.zadd k m sc) now hwf)
      (keyed_zaddWith _ k m sc) hi hl hfd)
  | zaddXX k m sc =>
    show ∀ op ∈ (Api.zaddXX p now k m sc).1.feed.reverse, op.key ∈ [k]
    rw [zaddXX_eq]; exact one (form_keyed_raw (zaddIfF_ok _ _ _ k m sc hwf.1 hwf.2) (keyed_zaddIf _ _ _ k m sc) hi hl hfd)
  | zaddNX k m sc =>
    show ∀ op ∈ (Api.zaddNX p now k m sc).1.feed.reverse, op.key ∈ [k]
    rw [zaddNX_eq]; exact one (form_keyed_raw (zaddNXForm_ok k m sc hwf.1 hwf.2) (keyed_zaddWith _ k m sc) hi hl hfd)
  | zaddLT k m sc =>
    show ∀ op ∈ (Api.zaddLT p now k m sc).1.feed.reverse, op.key ∈ [k]
    rw [show Api.zaddLT p now k m sc = _ from zaddCmp_eq DsZSet.zAddLT zAddLT_fst p now k m sc]
    exact one (form_keyed_raw (zaddIfF_ok _ _ _ k m sc hwf.1 hwf.2) (keyed_zaddIf _ _ _ k m sc) hi hl hfd)
  | zaddGT k m sc =>
    show ∀ op ∈ (Api.zaddGT p now k m sc).1.feed.reverse, op.key ∈ [k]
    rw [show Api.zaddGT p now k m sc = _ from zaddCmp_eq DsZSet.zAddGT zAddGT_fst p now k m sc]
    exact one (form_keyed_raw (zaddIfF_ok _ _ _ k m sc hwf.1 hwf.2) (keyed_zaddIf _ _ _ k m sc) hi hl hfd)
  | zrem k ms => exact one (zrem_main hs hl hfd (Call.zrem k ms).info rfl k ms hreg).2.2
  | zremRangeByRank k a b => exact one (zremRangeByRank_main hs hl hfd (Call.zremRangeByRank k a b).info rfl k a b hreg).2.2
  | zremRangeByScore k a b mode =>
    exact one (zremRangeByScore_main hs hl hfd (Call.zremRangeByScore k a b mode).info rfl k a b mode hreg).2.2
  | renameNX a b =>
    intro op hop
    rw [(renameNX_main hs hl hfd (Call.renameNX a b).info rfl a b).2.2 op hop]; simp [Call.keys]
  | smove src dst m =>
    obtain ⟨moves, _, _, _, f1⟩ := smove_spec hs.invP src dst m hwf
    have hfeed : (Api.smove p now src dst m).1.feed = _ := congrArg Prod.fst (f1 hl)
    intro op hop
    show op.key ∈ [src, dst]
    have hop' : op ∈ (Api.smove p now src dst m).1.feed.reverse := hop
    rw [hfeed, hfd] at hop'
    cases moves with
    | false => simp at hop'
    | true => simp at hop'; subst hop'; simp [opSAdd]
  | lpopRpush a b =>
    intro op hop
    rw [(rotate_main true hs hl hfd (Call.lpopRpush a b).info rfl a b).2.2 op hop]; simp [Call.keys]
  | rpopLpush a b =>
    intro op hop
    rw [(rotate_main false hs hl hfd (Call.rpopLpush a b).info rfl a b).2.2 op hop]; simp [Call.keys]
  | sdiffStore dst ks =>
    intro op hop
    rw [(sstore_main Api.sdiff sdiff_reader hs hl hfd (Call.sdiffStore dst ks).info rfl dst ks).2.2 op hop]
    simp [Call.keys]
  | sinterStore dst ks =>
    intro op hop
    rw [(sstore_main Api.sinter sinter_reader hs hl hfd (Call.sinterStore dst ks).info rfl dst ks).2.2 op hop]
    simp [Call.keys]
  | sunionStore dst ks =>
    intro op hop
    rw [(sstore_main Api.sunion sunion_reader hs hl hfd (Call.sunionStore dst ks).info rfl dst ks).2.2 op hop]
    simp [Call.keys]
  | zincrBy k m d =>
    exact one (zincrby_main hs hl hfd (Call.zincrBy k m d).info rfl k m d hwf hreg).2.2
  | hincrByFloat k f d =>
    exact one (hincrbyfloat_main hs hl hfd (Call.hincrByFloat k f d).info rfl k f d hwf hreg).2.2
  | zunionStore dst ks ws agg =>
    intro op hop
    rw [(zstore_main true hs hl hfd (Call.zunionStore dst ks ws agg).info (Or.inl rfl) dst ks ws agg rfl rfl rfl
      hreg).2.2 op hop]
    simp [Call.keys]
  | zinterStore dst ks ws agg =>
    intro op hop
    rw [(zstore_main false hs hl hfd (Call.zinterStore dst ks ws agg).info (Or.inr rfl) dst ks ws agg rfl rfl rfl
      hreg).2.2 op hop]
    simp [Call.keys]

/-- every record handed to a watcher by a covered call names one of the call's key arguments
    (CLEAR hands over one CLEAR record, which names no key) -/
theorem call_keys (c : Call) (hwf : c.WF) (hs : Same now p r) (hl : p.listeners = true) (hfd : p.feed = [])
    (hreg : ¬ c.Region (lookup p now)) (hc : c ≠ .clear) :
    ∀ op ∈ Feed.emission c.info (c.run p now).2 (c.run p now).1.feed.reverse, op.key ∈ c.keys := by
  by_cases hsm : ∃ a b m, c = .smove a b m
  · obtain ⟨a, b, m, rfl⟩ := hsm
    exact (smove_main hs hl hfd (Call.smove a b m).info rfl a b m rfl hwf).2.2
  · have h1 : c.info.method ≠ "SMove" := by
      cases c <;> first | exact absurd ⟨_, _, _, rfl⟩ hsm | simp [Call.info, Call.method]
    have h2 : c.info.method ≠ "Clear" := by
      cases c <;> first | exact absurd rfl hc | simp [Call.info, Call.method]
    exact emission_keys h1 h2 (P := fun k => k ∈ c.keys) (call_raw_keys c hwf hs hl hfd hreg) _

end NodisVerif.Proofs.C20
