import NodisVerif.Spec.Expire
import NodisVerif.Model.WF
import NodisVerif.Proofs.AListLemmas
import NodisVerif.Proofs.AListLemmas2
/-
  C10 helper lemmas, part 1: key-encoding injectivity (all integers), filtered sorted association
  lists, and how every store primitive acts on the observable view `Store.vis`.
-/
namespace NodisVerif.Proofs.C10
open NodisVerif Store
open NodisVerif.Proofs.AListLemmas NodisVerif.Proofs.AListLemmas2

/-! ### association-list frame lemmas (self-contained copies; Proofs/C02*.lean is being repaired) -/

theorem sorted_of_keys {V W : Type} : ∀ (a : AList V) (b : AList W), a.map (·.1) = b.map (·.1) →
    AList.Sorted a → AList.Sorted b := by
  intro a b h hs
  rw [sorted_iff_pairwise] at hs ⊢
  have h1 : (a.map (·.1)).Pairwise (fun x y => Bytes.lt x y = true) := by
    rw [List.pairwise_map]; exact hs
  rw [h, List.pairwise_map] at h1
  exact h1

theorem get?_none_of_gt {V : Type} (key : Bytes) : ∀ (m : AList V),
    (∀ p ∈ m, Bytes.lt key p.1 = true) → AList.get? m key = none := by
  intro m
  induction m with
  | nil => intro _; rfl
  | cons a rest ih =>
    intro h
    obtain ⟨k, w⟩ := a
    have hk : Bytes.lt key k = true := h (k, w) (by simp)
    have h1 : ¬ k = key := fun e => lt_ne _ _ hk e.symm
    simp only [AList.get?, h1, if_false]
    exact ih (fun p hp => h p (by simp [hp]))

/-! ### `Key.Encode` is injective on every (name, deadline) pair -/

theorem putUvarint_prefix_free : ∀ (n n' : Nat) (a b : Bytes),
    Varint.putUvarint n ++ a = Varint.putUvarint n' ++ b → n = n' ∧ a = b := by
  intro n
  induction n using Nat.strongRecOn with
  | _ n ih =>
    intro n' a b h
    rw [Varint.putUvarint] at h
    rw [Varint.putUvarint.eq_def n'] at h
    by_cases h1 : n < 128 <;> by_cases h2 : n' < 128
    · simp only [h1, h2, dite_true, List.cons_append, List.nil_append, List.cons.injEq] at h
      obtain ⟨e1, e2⟩ := h
      have := congrArg UInt8.toNat e1
      rw [UInt8.toNat_ofNat', UInt8.toNat_ofNat'] at this
      exact ⟨by omega, e2⟩
    · simp only [h1, h2, dite_true, dite_false, List.cons_append, List.nil_append, List.cons.injEq] at h
      have := congrArg UInt8.toNat h.1
      rw [UInt8.toNat_ofNat', UInt8.toNat_ofNat'] at this
      omega
    · simp only [h1, h2, dite_true, dite_false, List.cons_append, List.nil_append, List.cons.injEq] at h
      have := congrArg UInt8.toNat h.1
      rw [UInt8.toNat_ofNat', UInt8.toNat_ofNat'] at this
      omega
    · simp only [h1, h2, dite_false, List.cons_append, List.cons.injEq] at h
      obtain ⟨e1, e2⟩ := h
      have := congrArg UInt8.toNat e1
      rw [UInt8.toNat_ofNat', UInt8.toNat_ofNat'] at this
      obtain ⟨i1, i2⟩ := ih (n / 128) (by omega) (n' / 128) a b e2
      exact ⟨by omega, i2⟩

theorem zigzag_inj (x y : Int) (h : Varint.zigzag x = Varint.zigzag y) : x = y := by
  unfold Varint.zigzag at h
  split at h <;> split at h <;> omega

theorem encodeKey_inj (n1 n2 : Bytes) (e1 e2 : Int)
    (h : Codec.encodeKey n1 e1 = Codec.encodeKey n2 e2) : n1 = n2 ∧ e1 = e2 := by
  unfold Codec.encodeKey Varint.putVarint at h
  obtain ⟨a, b⟩ := putUvarint_prefix_free _ _ _ _ h
  exact ⟨b, zigzag_inj _ _ a⟩

theorem encodeKey_ne (n1 n2 : Bytes) (e1 e2 : Int) (h : n1 ≠ n2) :
    Codec.encodeKey n1 e1 ≠ Codec.encodeKey n2 e2 :=
  fun e => h (encodeKey_inj _ _ _ _ e).1

/-! ### filtering a sorted association list -/

variable {V : Type}

theorem sorted_filter (p : Bytes × V → Bool) (m : AList V) (hs : AList.Sorted m) :
    AList.Sorted (m.filter p) := by
  rw [sorted_iff_pairwise] at hs ⊢
  exact hs.sublist List.filter_sublist

theorem get?_filter (p : Bytes × V → Bool) : ∀ (m : AList V), AList.Sorted m → ∀ k,
    AList.get? (m.filter p) k = (AList.get? m k).filter fun v => p (k, v) := by
  intro m
  induction m with
  | nil => intro _ k; rfl
  | cons a rest ih =>
    intro hs k
    obtain ⟨ka, va⟩ := a
    obtain ⟨h1, h2⟩ := sorted_cons (ka, va) rest hs
    by_cases hk : ka = k
    · subst hk
      simp only [AList.get?, if_true, List.filter_cons]
      cases hp : p (ka, va) with
      | true => simp [AList.get?, Option.filter, hp]
      | false =>
        simp only [Bool.false_eq_true, if_false, Option.filter, hp]
        apply get?_none_of_gt
        intro q hq
        exact h2 q (List.mem_filter.mp hq).1
    · simp only [AList.get?, hk, if_false, List.filter_cons]
      cases hp : p (ka, va) with
      | true => simp only [if_true, AList.get?, hk, if_false]; exact ih h1 k
      | false => simp only [Bool.false_eq_true, if_false]; exact ih h1 k

theorem get?_mapv {W : Type} (f : Bytes → V → W) (key : Bytes) : ∀ (m : AList V),
    AList.get? (m.map fun p => (p.1, f p.1 p.2)) key = (AList.get? m key).map (f key) := by
  intro m
  induction m with
  | nil => rfl
  | cons a rest ih =>
    obtain ⟨k, w⟩ := a
    by_cases hk : k = key
    · subst hk; simp [AList.get?]
    · simp [AList.get?, hk, ih]

/-- two sorted lists whose lookups agree under a filter have the same filtered key sequence -/
theorem filter_keys_eq (p q : Bytes × V → Bool) (m m' : AList V) (hs : AList.Sorted m) (hs' : AList.Sorted m')
    (h : ∀ k, ((AList.get? m k).filter fun v => p (k, v)).isSome
            = ((AList.get? m' k).filter fun v => q (k, v)).isSome) :
    (m.filter p).map (·.1) = (m'.filter q).map (·.1) := by
  have e : (m.filter p).map (fun x => (x.1, ())) = (m'.filter q).map (fun x => (x.1, ())) := by
    apply ext_of_sorted
    · exact sorted_of_keys _ _ (by simp [List.map_map]) (sorted_filter p m hs)
    · exact sorted_of_keys _ _ (by simp [List.map_map]) (sorted_filter q m' hs')
    · intro k
      rw [get?_mapv (fun _ (_ : V) => ()) k, get?_mapv (fun _ (_ : V) => ()) k,
        get?_filter p m hs, get?_filter q m' hs']
      have := h k
      revert this
      cases (AList.get? m k).filter fun v => p (k, v) <;>
        cases (AList.get? m' k).filter fun v => q (k, v) <;> simp
  have := congrArg (List.map (·.1)) e
  rw [List.map_map, List.map_map] at this
  exact this

theorem get?_set_self (key : Bytes) (v : V) : ∀ (m : AList V),
    AList.get? (AList.set m key v) key = some v := fun m => AListLemmas2.get?_set_same m key v

theorem get?_set_other (key key' : Bytes) (v : V) (hne : key ≠ key') (m : AList V) :
    AList.get? (AList.set m key v) key' = AList.get? m key' :=
  AListLemmas2.get?_set_other m key v key' (fun e => hne e.symm)

theorem get?_erase_other (key key' : Bytes) (hne : key ≠ key') (m : AList V) :
    AList.get? (AList.erase m key) key' = AList.get? m key' :=
  AListLemmas2.get?_erase_other m key key' (fun e => hne e.symm)

theorem get?_erase_self (key : Bytes) (m : AList V) (hs : AList.Sorted m) :
    AList.get? (AList.erase m key) key = none := AListLemmas2.get?_erase_same m hs key

end NodisVerif.Proofs.C10
