import NodisVerif.Proofs.SkiplistUnlink
/-
  `removeNode` (Model/Skiplist.lean) unlinks a node of the chain: proof of the interface lemma `removeNode_spec`
  (Proofs/SkiplistSpecs.lean) under the name `removeNode_spec_proof`. (Imports only SkiplistUnlink, which imports
  only SkiplistInv.)
-/
namespace NodisVerif.Skiplist.Unlink
open NodisVerif.DsZSet (Item nodeLt)
open NodisVerif.Proofs.C04 (ILt)
open NodisVerif.Proofs.ZSetLemmas (Good)

/-- the last part of `removeNode`: `shrinkLevel` on the final heap, and the invariant of the result -/
theorem removeNode_finish {sl : SL} {A B : List Nat} {n : Nat} {update : List (Option Nat)}
    (hc : IsChain sl (A ++ n :: B)) (hupd : UpdateFor sl.heap sl.level (0 :: A) update)
    {hF : List Node} (hfr : Frame sl.heap hF)
    (hlv : ∀ x j, lvAt hF x j =
      if j < sl.level ∧ update[j]? = some (some x) then newLv sl.heap n x j else lvAt sl.heap x j)
    (hback : BackLinked hF none (A ++ B)) (t : Option Nat) (ht : t = (A ++ B).getLast?) :
    ∃ lvl, shrinkLevel hF sl.level = .ok lvl ∧ lvl ≤ sl.level ∧
      IsChain { heap := hF, tail := t, length := sl.length - 1, level := lvl } (A ++ B) := by
  have hsub : (A ++ B).Sublist (A ++ n :: B) :=
    List.Sublist.append (List.Sublist.refl A) (List.sublist_cons_self n B)
  have hmem : ∀ y ∈ A ++ B, y ∈ A ++ n :: B := fun y hy => hsub.subset hy
  have hlk : Linked hF (0 :: A ++ B) :=
    linked_remove (h := sl.heap) (level := sl.level) (n := n) (update := update)
      hc.nodup hc.linked hc.hle hupd hfr.ht hlv
  have hhead : ∀ j l, lvAt hF 0 j = some l → l.forward = (A ++ B).find? (above hF j) := by
    intro j l hl
    exact (linkOk_split hlk (P := []) (S := A ++ B) rfl j l hl).1
  have hh : ∀ j, j < maxLevel → ∃ l, lvAt hF 0 j = some l := by
    intro j hj
    exact (lvAt_isSome_iff hF 0 j).2 (by rw [hfr.ht, hc.header]; exact hj)
  obtain ⟨lvl, hrun, h1, h2, h3, h4⟩ := shrinkLevel_spec hF hh sl.level hc.levelLo hc.levelHi
  refine ⟨lvl, hrun, h2, ?_⟩
  have hle' : ∀ y ∈ A ++ B, height hF y ≤ lvl := by
    intro y hy
    have hyl : height hF y ≤ sl.level := by rw [hfr.ht]; exact hc.hle y (hmem y hy)
    have hyp : 1 ≤ height hF y := by rw [hfr.ht]; exact hc.hpos y (hmem y hy)
    by_cases hgt : height hF y ≤ lvl
    · exact hgt
    · exfalso
      obtain ⟨l, hl⟩ := hh (height hF y - 1) (by have := hc.levelHi; omega)
      have hnone := h4 (height hF y - 1) l (by omega) (by omega) hl
      rw [hhead _ l hl, List.find?_eq_none] at hnone
      exact hnone y hy (by simp [above]; omega)
  constructor
  · exact hc.nodup.sublist (List.Sublist.cons_cons 0 hsub)
  · intro y hy; show y < hF.length; rw [hfr.len]; exact hc.bound y (hmem y hy)
  · show (A ++ B).length + 1 ≤ hF.length
    rw [hfr.len]; have := hc.size; simp at this ⊢; omega
  · show height hF 0 = maxLevel; rw [hfr.ht]; exact hc.header
  · intro y hy; show 1 ≤ height hF y; rw [hfr.ht]; exact hc.hpos y (hmem y hy)
  · exact hle'
  · exact h1
  · exact Nat.le_trans h2 hc.levelHi
  · show lvl = 1 ∨ ∃ y ∈ A ++ B, height hF y = lvl
    rcases h3 with h3 | ⟨l, hl, hne⟩
    · exact Or.inl h3
    · right
      rw [hhead _ l hl] at hne
      cases hfd : (A ++ B).find? (above hF (lvl - 1)) with
      | none => exact absurd hfd hne
      | some y =>
        have hy := List.mem_of_find?_eq_some hfd
        have ha := List.find?_some hfd
        have := hle' y hy
        refine ⟨y, hy, ?_⟩
        simp [above] at ha; omega
  · exact hlk
  · exact hback
  · exact ht
  · show sl.length - 1 = ((A ++ B).length : Int)
    have := hc.length; simp at this ⊢; omega
  · show ((A ++ B).map (itemAt hF)).Pairwise ILt
    have : itemAt hF = itemAt sl.heap := funext hfr.item
    rw [this]
    exact hc.sorted.sublist (hsub.map _)
  · intro y hy; show Good (itemAt hF y); rw [hfr.item]; exact hc.good y (hmem y hy)

theorem backAt_eq_some {h : List Node} {n : Nat} {p : Option Nat} (hb : backAt h n = some p) :
    ∃ nd, h[n]? = some nd ∧ nd.backward = p := by
  unfold backAt at hb
  cases hn : h[n]? with
  | none => simp [hn] at hb
  | some nd => simp [hn] at hb; exact ⟨nd, rfl, hb⟩

end NodisVerif.Skiplist.Unlink

namespace NodisVerif.Skiplist
open NodisVerif.DsZSet (Item nodeLt)
open NodisVerif.Proofs.C04 (ILt)
open NodisVerif.Proofs.ZSetLemmas (Good)
open Unlink

/-- `removeNode(n, update)` for a node `n` of the chain with a correct `update[]` (the statement of `removeNode_spec`) -/
theorem removeNode_spec_proof {sl : SL} {c : List Nat} (hc : IsChain sl c) (A : List Nat) (n : Nat) (B : List Nat)
    (hsplit : c = A ++ n :: B) (update : List (Option Nat))
    (hupd : UpdateFor sl.heap sl.level (0 :: A) update) :
    ∃ sl', removeNode sl n update = .ok sl' ∧ IsChain sl' (A ++ B) ∧
      sl'.heap.length = sl.heap.length ∧ sl'.level ≤ sl.level ∧
      (∀ x, x ≠ n → itemAt sl'.heap x = itemAt sl.heap x) ∧
      (∀ x, height sl'.heap x = height sl.heap x) := by
  subst hsplit
  have hnd : (0 :: A ++ n :: B).Nodup := hc.nodup
  have hdisj := (List.nodup_append.1 hnd).2.2
  have hnZ : n ∉ 0 :: A := fun hx => hdisj n hx n (by simp) rfl
  have hlk : Linked sl.heap (0 :: A ++ n :: B) := hc.linked
  -- the loop
  have hloop : ∀ j, 0 ≤ j → j < 0 + sl.level → ∃ u l, update[j]? = some (some u) ∧ u ≠ n ∧
      lvAt sl.heap u j = some l ∧ (l.forward = some n → j < height sl.heap n) := by
    intro j _ hj
    obtain ⟨A', u, B', hs, hua, hB', hu⟩ := hupd j (by omega)
    obtain ⟨l, hl⟩ := (lvAt_isSome_iff sl.heap u j).2 (by simpa [above] using hua)
    refine ⟨u, l, hu, ?_, hl, ?_⟩
    · intro e; subst e; exact hnZ (by rw [hs]; simp)
    · intro hf
      have := (linkOk_split hlk (P := A') (x := u) (S := B' ++ n :: B) (by rw [hs]; simp) j l hl).1
      rw [hf] at this
      have := List.find?_some this.symm
      simpa [above] using this
  obtain ⟨h1, hrun1, hfr1, hback1, hlv1⟩ := unlinkLevels_spec n update sl.level 0 sl.heap hloop
  have hlv1' : ∀ x j, lvAt h1 x j =
      if j < sl.level ∧ update[j]? = some (some x) then newLv sl.heap n x j else lvAt sl.heap x j := by
    intro x j
    rw [hlv1]
    simp only [Nat.zero_le, true_and, Nat.zero_add]
  -- the node itself
  have hbk := (backLinked_append sl.heap A (n :: B) none).1 hc.back
  rw [backLinked_cons] at hbk
  obtain ⟨hbA, hbn, hbB⟩ := hbk
  obtain ⟨nd, hnd1, hndb⟩ := backAt_eq_some (by rw [hback1]; exact hbn : backAt h1 n = some (lastOr none A))
  have hn1 : 1 ≤ height sl.heap n := hc.hpos n (by simp)
  obtain ⟨l0, hl0⟩ := (lvAt_isSome_iff sl.heap n 0).2 (by omega)
  have hl0' : lvAt h1 n 0 = some l0 := by
    rw [hlv1', if_neg (fun c => hnZ (updateFor_mem hupd c.1 c.2))]; exact hl0
  have hl0f : l0.forward = B.find? (above sl.heap 0) :=
    (linkOk_split hlk (P := 0 :: A) (x := n) (S := B) rfl 0 l0 hl0).1
  cases B with
  | nil =>
    simp only [List.find?_nil] at hl0f
    obtain ⟨lvl, hrun, hle, hchain⟩ := removeNode_finish hc hupd hfr1 hlv1'
      (by
        rw [List.append_nil]
        exact backLinked_frame (fun x _ => hback1 x) none hbA)
      nd.backward (by rw [hndb, lastOr_none, List.append_nil])
    refine ⟨_, ?_, hchain, hfr1.len, hle, fun x _ => hfr1.item x, hfr1.ht⟩
    simp [removeNode, hrun1, (getNode_ok_iff h1 n nd).2 hnd1, getLevel_of_lvAt hl0', hl0f, hrun, bind, Except.bind,
      pure, Except.pure]
  | cons f B2 =>
    have hfa : above sl.heap 0 f = true := by
      have := hc.hpos f (by simp)
      simp [above]; omega
    simp only [List.find?_cons, hfa] at hl0f
    have hflt : f < h1.length := by rw [hfr1.len]; exact hc.bound f (by simp)
    obtain ⟨h2, hrun2, hfr2, hlv2, hback2⟩ := setBackward_spec nd.backward hflt
    have hfA : f ∉ A := fun hx => hdisj f (by simp [hx]) f (by simp) rfl
    have hfB2 : f ∉ B2 := by
      have := (List.nodup_append.1 hnd).2.1
      simp at this
      exact this.2.1
    rw [backLinked_cons] at hbB
    obtain ⟨lvl, hrun, hle, hchain⟩ := removeNode_finish hc hupd (hfr1.trans hfr2)
      (by intro x j; rw [hlv2, hlv1'])
      (by
        rw [backLinked_append, backLinked_cons]
        refine ⟨?_, ?_, ?_⟩
        · refine backLinked_frame (fun x hx => ?_) none hbA
          rw [hback2, if_neg (fun (e : x = f) => hfA (e ▸ hx)), hback1]
        · rw [hback2, if_pos rfl, hndb]
        · refine backLinked_frame (fun x hx => ?_) _ hbB.2
          rw [hback2, if_neg (fun (e : x = f) => hfB2 (e ▸ hx)), hback1])
      sl.tail (by rw [hc.tail]; simp [List.getLast?_append, List.getLast?_cons])
    refine ⟨_, ?_, hchain, (hfr1.trans hfr2).len, hle, fun x _ => (hfr1.trans hfr2).item x, (hfr1.trans hfr2).ht⟩
    simp [removeNode, hrun1, (getNode_ok_iff h1 n nd).2 hnd1, getLevel_of_lvAt hl0', hl0f, hrun2, hrun, bind,
      Except.bind, pure, Except.pure]

end NodisVerif.Skiplist
