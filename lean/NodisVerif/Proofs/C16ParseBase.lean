import NodisVerif.Spec.RespReply
import NodisVerif.Model.Resp
import NodisVerif.Proofs.C15Decimal
/-
  C16, reader side, part 1: decimal numbers, lines, bulk payloads, literal renderings.
-/
namespace NodisVerif.Proofs.C16Parse
open NodisVerif NodisVerif.Resp NodisVerif.Spec.RespReply NodisVerif.Proofs.C15

/-! ### decimal numbers: `parseDec (formatInt n) = some n` for every integer -/

theorem spec_isDigit_eq (b : UInt8) : Spec.RespReply.isDigit b = NodisVerif.isDigit b := by
  simp [Spec.RespReply.isDigit, NodisVerif.isDigit, Bool.decide_and]

theorem foldl_eq_digitsToNat (ds : Bytes) (acc : Nat) :
    ds.foldl (fun acc d => acc * 10 + (d.toNat - 48)) acc = digitsToNat ds acc := by
  induction ds generalizing acc with
  | nil => rfl
  | cons d t ih => simp only [List.foldl_cons, digitsToNat, ih]

theorem digitsVal_eq (ds : Bytes) : digitsVal ds = digitsToNat ds 0 := foldl_eq_digitsToNat ds 0

/-- the three facts about Go's/Lean's decimal rendering of naturals (proved, not assumed) -/
def DecimalOK : Prop :=
  ∀ n : Nat, (natDigits n).all NodisVerif.isDigit = true ∧ natDigits n ≠ [] ∧ digitsToNat (natDigits n) 0 = n

theorem decimalOK : DecimalOK := fun n =>
  ⟨by simpa using isDigit_natDigits n, natDigits_ne_nil n, digitsToNat_natDigits n⟩

theorem parseNat_natDigits (n : Nat) : parseNat (natDigits n) = some n := by
  obtain ⟨h1, h2, h3⟩ := decimalOK n
  have h1' : (natDigits n).all Spec.RespReply.isDigit = true := by
    rw [← h1]; congr 1; funext b; exact spec_isDigit_eq b
  unfold parseNat
  have : (natDigits n).isEmpty = false := by
    cases h : natDigits n with
    | nil => exact absurd h h2
    | cons _ _ => rfl
  simp only [this, h1', digitsVal_eq, h3]; simp

theorem natDigits_head_ne_minus (n : Nat) : ∀ d t, natDigits n = d :: t → d ≠ 45 := by
  intro d t h hd
  have := isDigit_natDigits n d (by rw [h]; simp)
  subst hd
  simp [NodisVerif.isDigit] at this

theorem parseDec_of_not_minus (ds : Bytes) (h : ∀ d t, ds = d :: t → d ≠ 45) :
    parseDec ds = (parseNat ds).map fun (n : Nat) => (n : Int) := by
  unfold parseDec
  split
  · rename_i ds'; exact absurd rfl (h 45 ds' rfl)
  · rfl

/-- the reader's decimal parser inverts `strconv.FormatInt` on every integer (unbounded) -/
theorem parseDec_formatInt (n : Int) : parseDec (formatInt n) = some n := by
  unfold formatInt
  split
  · rename_i h
    simp only [parseDec, parseNat_natDigits, Option.map_some]
    congr 1; omega
  · rename_i h
    rw [parseDec_of_not_minus _ (natDigits_head_ne_minus _), parseNat_natDigits]
    simp only [Option.map_some]; congr 1; omega

theorem formatInt_no_cr (n : Int) : (13 : UInt8) ∉ formatInt n := by
  have hd : ∀ m, (13 : UInt8) ∉ natDigits m := by
    intro m hm
    have := isDigit_natDigits m 13 hm
    simp [NodisVerif.isDigit] at this
  unfold formatInt
  split
  · simp only [List.mem_cons, not_or]; exact ⟨by decide, hd _⟩
  · exact hd _

/-! ### lines -/

theorem splitLine_append (l rest : Bytes) (h : (13 : UInt8) ∉ l) :
    splitLine (l ++ 13 :: 10 :: rest) = some (l, rest) := by
  induction l with
  | nil => simp [splitLine]
  | cons a t ih =>
    have ha : a ≠ 13 := fun e => h (by simp [e])
    have ht : (13 : UInt8) ∉ t := fun e => h (by simp [e])
    simp only [List.cons_append, splitLine, ha, false_and, if_false, ih ht]

theorem cleanLine_iff (l : Bytes) : cleanLine l = true ↔ (13 : UInt8) ∉ l ∧ (10 : UInt8) ∉ l := by
  unfold cleanLine
  induction l with
  | nil => simp
  | cons a t ih =>
    simp only [List.all_cons, Bool.and_eq_true, ih, List.mem_cons, not_or, bne_iff_ne, ne_eq]
    constructor
    · rintro ⟨⟨h1, h2⟩, h3, h4⟩; exact ⟨⟨fun e => h1 e.symm, h3⟩, fun e => h2 e.symm, h4⟩
    · rintro ⟨⟨h1, h3⟩, h2, h4⟩; exact ⟨⟨fun e => h1 e.symm, fun e => h2 e.symm⟩, h3, h4⟩

/-! ### bulk payloads: any bytes at all -/

theorem takeBulk_append (b rest : Bytes) :
    takeBulk b.length (b ++ 13 :: 10 :: rest) = some (b, rest) := by
  simp [takeBulk]

/-! ### literal renderings -/

theorem render_nullBulk : render .nullBulk = [36, 45, 49, 13, 10] := by
  show Bytes.ofString "$-1\r\n" = _
  rw [ofString_ascii _ (by decide)]; decide

theorem render_nullArr : render .nullArr = [42, 45, 49, 13, 10] := by
  show Bytes.ofString "*-1\r\n" = _
  rw [ofString_ascii _ (by decide)]; decide

theorem formatInt_neg_one : formatInt (-1) = [45, 49] := by
  have : natDigits 1 = [49] := by rw [natDigits_eq_map]; decide
  simp [formatInt, this]

/-- no error text contains CR or LF -/
theorem errText_clean (k : Nat) : cleanLine (errText k) = true := by
  unfold errText
  split <;> (rw [ofString_ascii _ (by decide)]; decide)

end NodisVerif.Proofs.C16Parse
