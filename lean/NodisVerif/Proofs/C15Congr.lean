import NodisVerif.Proofs.C15Flat
/-
  C15, part 1 (continued): congruence of every composite reader function w.r.t. `SEq`.
-/
namespace NodisVerif.Proofs.C15
open Resp RespReader

theorem readLine_congr : ∀ (fuel : Nat) {s t : RState}, SEq s t → REq (readLine s fuel) (readLine t fuel) := by
  intro fuel
  induction fuel with
  | zero => intro s t h; exact REq.err h
  | succ fuel ih =>
    intro s t h
    unfold readLine
    rcases (readByte_congr h).cases with ⟨a, p, q, e1, e2, hpq⟩ | ⟨e, p, q, e1, e2, hpq⟩ | ⟨e1, e2⟩
    · simp only [e1, e2]
      obtain ⟨h1, h2, h3⟩ := hpq
      rw [h3]
      by_cases hc : (q.win.length > 1 ∧ q.win.getLast? = some 10)
      · simp only [hc, and_self, if_true]; exact REq.ok ⟨h1, h2, rfl⟩
      · simp only [hc, if_false]; exact ih ⟨h1, h2, h3⟩
    · simp only [e1, e2]; exact REq.err hpq
    · simp only [e1, e2]; exact REq.panic

theorem readInteger_congr {s t : RState} (h : SEq s t) : REq (readInteger s) (readInteger t) := by
  unfold readInteger
  rw [h.remaining]
  rcases (readLine_congr (remaining t + 1) h).cases with ⟨a, p, q, e1, e2, hpq⟩ | ⟨e, p, q, e1, e2, hpq⟩ | ⟨e1, e2⟩
  · simp only [e1, e2]
    have hm := hpq.malloc
    rw [hpq.2.2]
    cases parseInt64 q.win with
    | none => exact REq.err hm
    | some v => exact REq.ok hm
  · simp only [e1, e2]; exact REq.err hpq
  · simp only [e1, e2]; exact REq.panic

theorem readBulk_congr {s t : RState} (h : SEq s t) : REq (readBulk s) (readBulk t) := by
  unfold readBulk
  rcases (readByte_congr h).cases with ⟨a, p, q, e1, e2, hpq⟩ | ⟨e, p, q, e1, e2, hpq⟩ | ⟨e1, e2⟩
  · simp only [e1, e2]
    rw [hpq.2.2]
    by_cases hc : q.win.head? ≠ some 36
    · rw [if_pos hc, if_pos hc]; exact REq.err hpq
    · rw [if_neg hc, if_neg hc]
      rcases (readInteger_congr hpq.malloc).cases with ⟨l, p1, q1, e1, e2, h1⟩ | ⟨e, p1, q1, e1, e2, h1⟩ | ⟨e1, e2⟩
      · simp only [e1, e2]
        by_cases hl : l < 0 ∨ l > maxBulk
        · simp only [hl, if_true]; exact REq.err h1
        · simp only [hl, if_false]
          rcases (readByteN_congr h1 l.toNat (Nat.lt_succ_self (remaining p1))
            (Nat.lt_succ_self (remaining q1))).cases with ⟨_, p2, q2, e1, e2, h2⟩ | ⟨e, p2, q2, e1, e2, h2⟩ | ⟨e1, e2⟩
          · simp only [e1, e2]
            rw [h2.malloc.remaining, h2.2.2]
            rcases (readLine_congr (remaining (malloc q2) + 1) h2.malloc).cases with
              ⟨_, p3, q3, e1, e2, h3⟩ | ⟨e, p3, q3, e1, e2, h3⟩ | ⟨e1, e2⟩
            · simp only [e1, e2]; exact REq.ok h3.malloc
            · simp only [e1, e2]; exact REq.err h3
            · simp only [e1, e2]; exact REq.panic
          · simp only [e1, e2]; exact REq.err h2
          · simp only [e1, e2]; exact REq.panic
      · simp only [e1, e2]; exact REq.err h1
      · simp only [e1, e2]; exact REq.panic
  · simp only [e1, e2]; exact REq.err hpq
  · simp only [e1, e2]; exact REq.panic

theorem readBulks_congr : ∀ (k : Nat) (acc : List Bytes) {s t : RState}, SEq s t →
    REq (readBulks s k acc) (readBulks t k acc) := by
  intro k
  induction k with
  | zero => intro acc s t h; exact REq.ok h
  | succ k ih =>
    intro acc s t h
    unfold readBulks
    rcases (readBulk_congr h).cases with ⟨a, p, q, e1, e2, hpq⟩ | ⟨e, p, q, e1, e2, hpq⟩ | ⟨e1, e2⟩
    · simp only [e1, e2]; exact ih _ hpq
    · simp only [e1, e2]; exact REq.err hpq
    · simp only [e1, e2]; exact REq.panic

theorem SEq.lastByte {s t : RState} (h : SEq s t) : lastByte s = lastByte t := by
  simp [RespReader.lastByte, h.2.2]
theorem SEq.prevByte {s t : RState} (h : SEq s t) : prevByte s = prevByte t := by
  simp [RespReader.prevByte, h.2.2, h.2.1]

theorem readUtil_congr (endB : UInt8) : ∀ (fuel : Nat) {s t : RState}, SEq s t →
    REq (readUtil endB s fuel) (readUtil endB t fuel) := by
  intro fuel
  induction fuel with
  | zero => intro s t h; exact REq.err h
  | succ fuel ih =>
    intro s t h
    unfold readUtil
    rcases (readByte_congr h).cases with ⟨a, p, q, e1, e2, hpq⟩ | ⟨e, p, q, e1, e2, hpq⟩ | ⟨e1, e2⟩
    · simp only [e1, e2]
      have hd : SEq { p with win := p.win.take (p.win.length - 1) } { q with win := q.win.take (q.win.length - 1) } :=
        ⟨hpq.1, hpq.2.1, by simp [hpq.2.2]⟩
      rw [hpq.lastByte, hpq.prevByte]
      by_cases h13 : lastByte q = some 13
      · simp only [h13, if_true]; exact ih hd
      · simp only [h13, if_false]
        by_cases h10 : lastByte q = some 10
        · simp only [h10, if_true]; exact REq.ok hd
        · simp only [h10, if_false]
          by_cases he : lastByte q = some endB
          · simp only [he, if_true]
            cases prevByte q with
            | none => exact REq.panic
            | some pb =>
              simp only
              by_cases h92 : pb ≠ some 92
              · rw [if_pos h92, if_pos h92]; exact REq.ok hd
              · rw [if_neg h92, if_neg h92]; exact ih hpq
          · simp only [he, if_false]; exact ih hpq
    · simp only [e1, e2]; exact REq.err hpq
    · simp only [e1, e2]; exact REq.panic

theorem inlineArgs_congr : ∀ (fuel : Nat) (acc : List Bytes) {s t : RState}, SEq s t →
    REq (inlineArgs s fuel acc) (inlineArgs t fuel acc) := by
  intro fuel
  induction fuel with
  | zero => intro acc s t h; exact REq.ok h
  | succ fuel ih =>
    intro acc s t h
    unfold inlineArgs
    rcases (readByte_congr h).cases with ⟨a, p, q, e1, e2, hpq⟩ | ⟨e, p, q, e1, e2, hpq⟩ | ⟨e1, e2⟩
    · simp only [e1, e2]
      rw [hpq.2.2]
      by_cases hsp : q.win.head? = some 32 ∨ q.win.head? = some 9
      · rw [if_pos hsp, if_pos hsp]; exact ih _ hpq.malloc
      · rw [if_neg hsp, if_neg hsp]
        have key : ∀ (endB : UInt8) {p' q' : RState}, SEq p' q' →
            REq (match readUtil endB p' (remaining p' + 1) with
                | .err e st => .err e st
                | .panic => .panic
                | .ok lineEnd st =>
                  if lineEnd then .ok (st.win :: acc).reverse (malloc st) else inlineArgs (malloc st) fuel (st.win :: acc))
              (match readUtil endB q' (remaining q' + 1) with
                | .err e st => .err e st
                | .panic => .panic
                | .ok lineEnd st =>
                  if lineEnd then .ok (st.win :: acc).reverse (malloc st) else inlineArgs (malloc st) fuel (st.win :: acc)) := by
          intro endB p' q' hst
          rw [hst.remaining]
          rcases (readUtil_congr endB (remaining q' + 1) hst).cases with
            ⟨le, p1, q1, e1, e2, h1⟩ | ⟨e, p1, q1, e1, e2, h1⟩ | ⟨e1, e2⟩
          · simp only [e1, e2]
            rw [h1.2.2]
            cases le with
            | true => simp only [if_true]; exact REq.ok h1.malloc
            | false => simp only [Bool.false_eq_true, if_false]; exact ih _ h1.malloc
          · simp only [e1, e2]; exact REq.err h1
          · simp only [e1, e2]; exact REq.panic
        by_cases hq : q.win.head? = some 39 ∨ q.win.head? = some 34
        · simp only [hq, if_true]; exact key _ hpq.malloc
        · simp only [hq, if_false]; exact key _ hpq
    · simp only [e1, e2]
      cases e <;> first | exact REq.ok hpq | exact REq.err hpq
    · simp only [e1, e2]; exact REq.panic

theorem readInline_congr {s t : RState} (h : SEq s t) : REq (readInline s) (readInline t) := by
  unfold readInline
  rw [h.remaining]
  rcases (readUtil_congr 32 (remaining t + 1) h).cases with ⟨le, p, q, e1, e2, hpq⟩ | ⟨e, p, q, e1, e2, hpq⟩ | ⟨e1, e2⟩
  · simp only [e1, e2]
    rw [hpq.2.2]
    cases le with
    | true => simp only [if_true]; exact REq.ok hpq.malloc
    | false =>
      simp only [Bool.false_eq_true, if_false]
      rw [hpq.malloc.remaining]
      rcases (inlineArgs_congr (remaining (malloc q) + 1) [] hpq.malloc).cases with
        ⟨a, p1, q1, e1, e2, h1⟩ | ⟨e, p1, q1, e1, e2, h1⟩ | ⟨e1, e2⟩
      · simp only [e1, e2]; exact REq.ok h1
      · simp only [e1, e2]; exact REq.err h1
      · simp only [e1, e2]; exact REq.panic
  · simp only [e1, e2]; exact REq.err hpq
  · simp only [e1, e2]; exact REq.panic

/-- `ReadCommand` depends on the connection only through its byte stream -/
theorem readCommand_congr {src₁ src₂ : Source} (h : srcFlat src₁ = srcFlat src₂) :
    REq (readCommand src₁) (readCommand src₂) := by
  unfold readCommand
  have h0 : SEq { src := src₁ } { src := src₂ } := ⟨h, rfl, rfl⟩
  rcases (readByte_congr h0).cases with ⟨a, p, q, e1, e2, hpq⟩ | ⟨e, p, q, e1, e2, hpq⟩ | ⟨e1, e2⟩
  · simp only [e1, e2]
    rw [hpq.2.2]
    by_cases hc : q.win.head? ≠ some 42
    · rw [if_pos hc, if_pos hc]; exact readInline_congr hpq
    · rw [if_neg hc, if_neg hc]
      rcases (readInteger_congr hpq.malloc).cases with ⟨l, p1, q1, e1, e2, h1⟩ | ⟨e, p1, q1, e1, e2, h1⟩ | ⟨e1, e2⟩
      · simp only [e1, e2]
        rcases (readBulks_congr l.toNat [] h1).cases with ⟨bs, p2, q2, e1, e2, h2⟩ | ⟨e, p2, q2, e1, e2, h2⟩ | ⟨e1, e2⟩
        · simp only [e1, e2]
          cases bs with
          | nil => exact REq.ok h2
          | cons n args => exact REq.ok h2
        · simp only [e1, e2]; exact REq.err h2
        · simp only [e1, e2]; exact REq.panic
      · simp only [e1, e2]; exact REq.err h1
      · simp only [e1, e2]; exact REq.panic
  · simp only [e1, e2]; exact REq.err hpq
  · simp only [e1, e2]; exact REq.panic

/-- the whole per-connection loop depends only on the byte stream -/
theorem readAll_congr : ∀ (fuel : Nat) (acc : List Cmd) {src₁ src₂ : Source}, srcFlat src₁ = srcFlat src₂ →
    readAll src₁ fuel acc = readAll src₂ fuel acc := by
  intro fuel
  induction fuel with
  | zero => intro acc _ _ _; rfl
  | succ fuel ih =>
    intro acc src₁ src₂ h
    unfold readAll
    rcases (readCommand_congr h).cases with ⟨c, p, q, e1, e2, hpq⟩ | ⟨e, p, q, e1, e2, hpq⟩ | ⟨e1, e2⟩
    · simp only [e1, e2]; exact ih _ hpq.1
    · simp only [e1, e2]
    · simp only [e1, e2]

end NodisVerif.Proofs.C15
