import NodisVerif.Proofs.GateProgDone
/-
  Concrete schedules of the program model of the EXEC gate (non-vacuity of the theorems in Props/C08, Props/C09).
-/
namespace NodisVerif.GateProg.Ex
open NodisVerif.Gate (G T GMode Ev GState)
open NodisVerif.GateProg

deriving instance DecidableEq for NodisVerif.Gate.Ev

def n : Choice := {}
def cmd (c : Cmd) : Choice := { call := .cmd c }
def steps (t : Tid) (k : Nat) : List (Tid × Choice) := List.replicate k (t, n)

/-- one command of connection `t` whose handler needs no further choices (MULTI, DISCARD, WATCH, a queued command …);
    surplus steps are disabled at `idle` and skipped -/
def simple (t : Tid) (c : Cmd) : List (Tid × Choice) := (t, cmd c) :: steps t 12

/-- SET k v served directly: one transaction that signals the watchers of k -/
def setK (t : Tid) (tx : T) : List (Tid × Choice) :=
  [(t, cmd (.plain 1)), (t, n), (t, n), (t, n), (t, n), (t, { body := .beginTx }), (t, { fresh := tx }),
   (t, { body := .signal "k" }), (t, n), (t, n), (t, n), (t, { body := .endTx }), (t, n), (t, n)] ++ steps t 6

/-- connection 1: MULTI, SET (queued), EXEC up to the report of the watch check (pc e4) -/
def schedToCheck : List (Tid × Choice) :=
  simple 1 .multi ++ simple 1 (.plain 7) ++ [(1, cmd .exec)] ++ steps 1 5

/-- … and the rest of that EXEC: the queued SET runs one transaction; deferred commit, reset, unwatchAll, epilogue -/
def schedRest : List (Tid × Choice) :=
  [(1, n), (1, n), (1, n), (1, { body := .beginTx }), (1, { fresh := 3 }), (1, { body := .endTx }), (1, n), (1, n), (1, n),
   (1, n), (1, { fresh := 4 })] ++ steps 1 12

/-- connection 2 tries to be served in the middle of that EXEC (disabled: skipped), connection 1 goes on -/
def schedSeg : List (Tid × Choice) :=
  [(2, cmd (.plain 9)), (2, n), (2, n), (1, n), (1, n), (1, n), (2, n), (1, { body := .beginTx }), (1, { fresh := 3 }), (2, n)]

/-- WATCH k on connection 1, SET k on connection 2, then MULTI / SET / EXEC on connection 1: the null reply -/
def schedWatch : List (Tid × Choice) :=
  simple 1 (.watch ["k"]) ++ setK 2 5 ++ simple 1 .multi ++ simple 1 (.plain 7) ++ [(1, cmd .exec)] ++ steps 1 20

/-- MULTI, a nested MULTI (error: the transaction is marked), a queued SET, EXEC: EXECABORT -/
def schedAbort : List (Tid × Choice) :=
  simple 1 .multi ++ simple 1 .multi ++ simple 1 (.plain 7) ++ [(1, cmd .exec)] ++ steps 1 20

/-- MULTI, SET, DISCARD -/
def schedDiscard : List (Tid × Choice) :=
  simple 1 (.watch ["k"]) ++ simple 1 .multi ++ simple 1 (.plain 7) ++ simple 1 .discard

/-- BLPOP on connection 3: one look with one pop that finds nothing, then the timeout -/
def schedBpop : List (Tid × Choice) :=
  [(3, cmd (.bpop 1)), (3, n), (3, n), (3, n), (3, n), (3, n), (3, n), (3, { body := .beginTx }), (3, { fresh := 8 }),
   (3, { body := .endTx }), (3, n), (3, n), (3, n), (3, n), (3, n), (3, n)] ++ steps 3 6

/-- an embedded caller (goroutine 9) works while connection 1 is inside EXEC -/
def schedEmbedded : List (Tid × Choice) :=
  schedToCheck ++ [(9, { call := .embed }), (9, { body := .beginTx }), (9, { fresh := 30 }), (9, { body := .signal "k" }),
    (9, n), (9, n), (9, n), (9, { body := .endTx }), (9, n), (9, n), (9, n)]

/-- the trace of a whole MULTI / SET / EXEC on one connection -/
theorem trace_exec : (run {} (schedToCheck ++ schedRest)).2 =
    [.serve 1, .gin 1 .s, .gout 1, .serve 1, .gin 1 .s, .gout 1, .serve 1, .gin 1 .x, .chk 1, .run 1, .txb 1 3, .txe 1 3,
     .txb 1 4, .txe 1 4, .gout 1] := by decide

/-- WATCH on 1, a signalling SET on 2, EXEC on 1: the check, no body -/
theorem trace_watch : (run {} schedWatch).2 =
    [.serve 1, .gin 1 .s, .gout 1, .serve 2, .gin 2 .s, .txb 2 5, .sig 2, .txe 2 5, .gout 2, .serve 1, .gin 1 .s, .gout 1,
     .serve 1, .gin 1 .s, .gout 1, .serve 1, .gin 1 .x, .chk 1, .txb 1 0, .txe 1 0, .gout 1] := by decide

/-- EXECABORT: neither check nor body -/
theorem trace_abort : (run {} schedAbort).2 =
    [.serve 1, .gin 1 .s, .gout 1, .serve 1, .gin 1 .s, .gout 1, .serve 1, .gin 1 .s, .gout 1, .serve 1, .gin 1 .x, .gout 1] := by
  decide

/-- a blocking pop: served without the gate, its look under the shared side -/
theorem trace_bpop : (run {} schedBpop).2 = [.serve 3, .gin 3 .s, .txb 3 8, .txe 3 8, .gout 3] := by decide

end NodisVerif.GateProg.Ex
