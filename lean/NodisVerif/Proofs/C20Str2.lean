import NodisVerif.Proofs.C20StrMain
/-
  C20, strings: GetSet and SetNX (which publish a brand-new record on a missing key) and MSet.
-/
namespace NodisVerif.Proofs.C20
open NodisVerif NodisVerif.Store NodisVerif.Spec.Persist NodisVerif.Proofs.C11

variable {now : Int} {p r : MState}

/-! ### publishing a brand-new record over a missing key -/

theorem publish_spec {s : MState} {now : Int} (h : StoreInv s now) (k : Bytes) (hL : lookup s now k = none)
    (v0 : Val) (hv0 : Good v0) (a : Act) (ha : a.GoodA) (hl : s.listeners = true) :
    StoreInv (runAct (newKeyWith (writeKey s now k none).1 k none v0) k a).1 now ∧
    (runAct (newKeyWith (writeKey s now k none).1 k none v0) k a).2 = a.reply ∧
    (∀ k', lookup (runAct (newKeyWith (writeKey s now k none).1 k none v0) k a).1 now k' =
      upd (lookup s now) k (match a.eff v0 0 with
        | none => some (v0, 0)
        | some c => c.bind (filt · now)) k') ∧
    fl (runAct (newKeyWith (writeKey s now k none).1 k none v0) k a).1 = ((Act.ops a).reverse ++ s.feed, true) ∧
    (writeKey s now k none).2 = false := by
  have ks := writeKey_spec h (Int.le_refl now) k none (fun _ hc => nomatch hc)
  have hfl := fl_writeKey s now k none
  generalize writeKey s now k none = r0 at ks hfl
  obtain ⟨s1, okk⟩ := r0
  obtain ⟨hok, _⟩ := ks.miss hL rfl
  simp only at hok hfl ⊢
  have kinv : StoreInvX s1 none now := ks.inv
  have kother : ∀ t', now ≤ t' → ∀ k', k' ≠ k → lookup s1 t' k' = lookup s t' k' := ks.other
  have i2 : StoreInvX (newKeyWith s1 k none v0) none now :=
    inv_newKeyWith kinv k none (fun _ hc => nomatch hc) hv0
  obtain ⟨n1, n2, _⟩ := newRec_facts s1 none v0
  have hm2 : AList.get? (newKeyWith s1 k none v0).index k = some (newRec s1 none v0) := by
    rw [get?_newKeyWith]; simp
  obtain ⟨a1, _, _, a4, a5⟩ := runAct_spec i2 hm2 n1 a ha
  have hfl2 : fl (newKeyWith s1 k none v0) = fl s := by rw [fl_newKeyWith]; exact hfl
  have hl2 : (newKeyWith s1 k none v0).listeners = true := (congrArg Prod.snd hfl2).trans hl
  refine ⟨a1, a4, ?_, ?_, hok⟩
  · intro k'
    rw [a5 now (Int.le_refl _) k', n2]
    cases a.eff v0 0 with
    | none =>
      simp only
      rw [lookup_newKeyWith kinv (Int.le_refl now)]
      by_cases hk : k' = k
      · simp [hk, upd]
      · simp only [hk, if_false, upd]; exact kother now (Int.le_refl _) k' hk
    | some c =>
      simp only
      by_cases hk : k' = k
      · simp [hk, upd]
      · simp only [hk, if_false, upd]
        rw [lookup_newKeyWith kinv (Int.le_refl now)]
        simp only [hk, if_false]
        exact kother now (Int.le_refl _) k' hk
  · rw [fl_runAct _ _ _ hl2]
    rw [show (newKeyWith s1 k none v0).feed = s.feed from congrArg Prod.fst hfl2]

/-! ### GETSET -/

theorem getSet_raw (h : StoreInv p now) (hl : p.listeners = true) (hfd : p.feed = []) (k v : Bytes) :
    (Api.getSet p now k v).1.feed.reverse = ((Cmd.getSet k v).form now).ops (lookup p now k) ∧
    (Api.getSet p now k v).1.listeners = true := by
  rw [getSet_eq]
  cases hL : lookup p now k with
  | none =>
    obtain ⟨_, _, _, a4, a5⟩ := publish_spec h k hL (.str []) (good_str [])
      (.put (some (.str v)) (some 0) [Api.opSet k v false] (.bytes none))
      ⟨(fun w hw => by cases hw; exact good_str _), (fun e he => by cases he; decide)⟩ hl
    rw [a5]
    simp only [Bool.not_false, if_true]
    have : (emit (signal (Api.setExp (Api.setVal (newKeyWith (writeKey p now k none).1 k none (.str [])) k (.str v)) k 0) k)
        (Api.opSet k v false)) =
        (runAct (newKeyWith (writeKey p now k none).1 k none (.str [])) k
          (.put (some (.str v)) (some 0) [Api.opSet k v false] (.bytes none))).1 := rfl
    rw [this, show (runAct (newKeyWith (writeKey p now k none).1 k none (.str [])) k
          (.put (some (.str v)) (some 0) [Api.opSet k v false] (.bytes none))).1.feed = _ from congrArg Prod.fst a4, hfd]
    exact ⟨by simp [TxForm.ops, Cmd.form, decGetSet, decStrWrite, Act.ops], congrArg Prod.snd a4⟩
  | some c =>
    obtain ⟨w, e⟩ := c
    have ks := writeKey_spec h (Int.le_refl now) k none (fun _ hc => nomatch hc)
    have hok := (ks.hit w e hL).1
    rw [hok]
    simp only [Bool.not_true, Bool.false_eq_true, if_false]
    have hf : (⟨true, none, .bytes none, fun s1 => (s1, .panic), decGetSet k v, k⟩ : TxForm).OK :=
      ⟨(fun c => nomatch c), (fun _ hc => nomatch hc), (Cmd.ok (.getSet k v) now trivial).decGood⟩
    have := form_raw hf h hl hfd
    simp only [TxForm.run] at this
    rw [this.1, hL]
    exact ⟨by simp [TxForm.ops, Cmd.form], this.2⟩

theorem getSet_replay (hs : Same now p r) (hl : p.listeners = true) (hfd : p.feed = [])
    (c : Feed.CallInfo) (hc : plainMethod c.method = true) (k v : Bytes) :
    Replay now r c (Api.getSet p now k v) := by
  unfold Replay
  rw [(getSet_raw hs.invP hl hfd k v).1]
  let g : DsStr.S → Option (Option Val × Option Int × List FeedOp × Out) :=
    fun old => some (some (Val.str v), some 0, [Api.opSet k v false], Out.bytes old)
  have hrec : ∀ (s : DsStr.S) x, g s = some x → StrRec c k x := by
    intro _ x hx
    simp only [g, Option.some.injEq] at hx; subst hx
    exact ⟨v, false, 0, rfl, by decide, by rw [emission_plain hc], rfl, fun h => nomatch h⟩
  exact strWrite_tx hs c (fun out => emission_plain hc out []) ((Cmd.getSet k v).form now) _
    (Cmd.getSet_spec hs.invP (Int.le_refl now) k v) g (fun _ => .panic) rfl none (Or.inl rfl)
    (fun b x hx => hrec (some b) x hx) (fun x hx => hrec none x hx) (fun _ _ h => nomatch h)

/-! ### SETNX -/

theorem setExp_newKeyWith_zero (s : MState) (k : Bytes) (v0 : Val) :
    Api.setExp (newKeyWith s k none v0) k 0 = newKeyWith s k none v0 := by
  rw [newKeyWith_eq, setExp_putMeta]
  rfl

theorem setNX_replay (hs : Same now p r) (hl : p.listeners = true) (hfd : p.feed = [])
    (c : Feed.CallInfo) (hc : plainMethod c.method = true) (k v : Bytes) (keep : Bool) :
    Replay now r c (Api.setNX p now k v keep) := by
  unfold Replay
  rw [emission_plain hc]
  cases hL : lookup p now k with
  | some cc =>
    obtain ⟨w, e⟩ := cc
    have ks := writeKey_spec hs.invP (Int.le_refl now) k none (fun _ hc => nomatch hc)
    have hfl := fl_writeKey p now k none
    obtain ⟨hok, hlk, _⟩ := ks.hit w e hL
    have heq : Api.setNX p now k v keep = ((writeKey p now k none).1, .bool false) := by
      unfold Api.setNX
      generalize writeKey p now k none = r0 at hok
      obtain ⟨s1, okk⟩ := r0
      simp only at hok; subst hok
      rfl
    rw [heq]
    simp only
    rw [show (writeKey p now k none).1.feed = p.feed from congrArg Prod.fst hfl, hfd]
    refine main_of (res := ((writeKey p now k none).1, .bool false)) (F := lookup p now) ks.inv ?_ hs.nonil ?_
    · intro k'
      by_cases hk : k' = k
      · subst hk; exact hlk now (Int.le_refl _)
      · exact ks.other now (Int.le_refl _) k' hk
    · have := Replays.nil hs.invR
      rw [funext hs.look] at this
      exact this
  | none =>
    obtain ⟨a1, _, a3, a4, a5⟩ := publish_spec hs.invP k hL (.str []) (good_str [])
      (.put (some (.str v)) none [Api.opSet k v keep] (.bool true))
      ⟨(fun w hw => by cases hw; exact good_str _), (fun e he => by cases he)⟩ hl
    have heq : Api.setNX p now k v keep =
        runAct (newKeyWith (writeKey p now k none).1 k none (.str [])) k
          (.put (some (.str v)) none [Api.opSet k v keep] (.bool true)) := by
      unfold Api.setNX
      generalize writeKey p now k none = r0 at a5
      obtain ⟨s1, okk⟩ := r0
      simp only at a5; subst a5
      simp only [Bool.false_eq_true, if_false]
      cases keep
      · simp only [Bool.not_false, if_true, setExp_newKeyWith_zero]; rfl
      · rfl
    rw [heq]
    rw [show (runAct (newKeyWith (writeKey p now k none).1 k none (.str [])) k
          (.put (some (.str v)) none [Api.opSet k v keep] (.bool true))).1.feed = _ from congrArg Prod.fst a4, hfd]
    simp only [Act.ops, List.append_nil, List.reverse_reverse]
    refine main_of a1 a3 ?_ ?_
    · intro k' e
      simp only [Act.eff, Option.getD_some, Option.getD_none, Option.bind_some, filt_zero]
      by_cases hk : k' = k
      · subst hk; simp [upd]
      · rw [upd_other _ _ _ hk]; exact hs.nonil k' e
    · have := replays_set hs.invR k v keep 0 (by decide)
      rw [hs.look k, funext hs.look, hL] at this
      refine this.congr ?_
      simp [setRecPost, setPost, Act.eff, filt_zero]

theorem setNX_lis (h : StoreInv p now) (hl : p.listeners = true) (k v : Bytes) (keep : Bool) :
    (Api.setNX p now k v keep).1.listeners = true := by
  cases hL : lookup p now k with
  | some cc =>
    obtain ⟨w, e⟩ := cc
    have ks := writeKey_spec h (Int.le_refl now) k none (fun _ hc => nomatch hc)
    have hfl := fl_writeKey p now k none
    obtain ⟨hok, _⟩ := ks.hit w e hL
    have heq : Api.setNX p now k v keep = ((writeKey p now k none).1, .bool false) := by
      unfold Api.setNX
      generalize writeKey p now k none = r0 at hok
      obtain ⟨s1, okk⟩ := r0
      simp only at hok; subst hok
      rfl
    rw [heq]
    exact (congrArg Prod.snd hfl).trans hl
  | none =>
    obtain ⟨_, _, _, a4, a5⟩ := publish_spec h k hL (.str []) (good_str [])
      (.put (some (.str v)) none [Api.opSet k v keep] (.bool true))
      ⟨(fun w hw => by cases hw; exact good_str _), (fun e he => by cases he)⟩ hl
    have heq : Api.setNX p now k v keep =
        runAct (newKeyWith (writeKey p now k none).1 k none (.str [])) k
          (.put (some (.str v)) none [Api.opSet k v keep] (.bool true)) := by
      unfold Api.setNX
      generalize writeKey p now k none = r0 at a5
      obtain ⟨s1, okk⟩ := r0
      simp only at a5; subst a5
      simp only [Bool.false_eq_true, if_false]
      cases keep
      · simp only [Bool.not_false, if_true, setExp_newKeyWith_zero]; rfl
      · rfl
    rw [heq]
    exact congrArg Prod.snd a4

/-! ### MSET -/

theorem applyAll_append (r : MState) (now : Int) (a b : List FeedOp) :
    Feed.applyAll r now (a ++ b) = (Feed.applyAll r now a).bind (Feed.applyAll · now b) := by
  induction a generalizing r with
  | nil => rfl
  | cons op rest ih =>
    simp only [List.cons_append, Feed.applyAll, Option.bind_eq_bind]
    cases Feed.applyOp r now op with
    | none => rfl
    | some r1 => simp only [Option.bind_some]; exact ih r1

/-- one SET on a primary whose feed need not be drained -/
theorem set_step (hs : Same now p r) (hl : p.listeners = true) (k v : Bytes) (keep : Bool) :
    ∃ ops r', fl (Api.set p now k v keep).1 = (ops.reverse ++ p.feed, true) ∧
      Feed.applyAll r now ops = some r' ∧ Same now (Api.set p now k v keep).1 r' ∧ ∀ op ∈ ops, op.key = k := by
  rw [show Api.set p now k v keep = (setF now k v keep).run p now from
    Cmd.run_eq (.set k v keep) now trivial (fun _ _ h => nomatch h) p]
  let c : Feed.CallInfo := { method := "Set" }
  have hc : plainMethod c.method = true := by decide
  let g : DsStr.S → Option (Option Val × Option Int × List FeedOp × Out) :=
    fun _ => some (some (Val.str v), (if keep then none else some (0 : Int)), [Api.opSet k v keep], Out.unit)
  have hrec : ∀ (s : DsStr.S) x, g s = some x → StrRec c k x := by
    intro _ x hx
    simp only [g, Option.some.injEq] at hx; subst hx
    exact ⟨v, keep, 0, rfl, by decide, by rw [emission_plain hc], by cases keep <;> rfl, fun _ => rfl⟩
  obtain ⟨r', a, b⟩ := strWrite_tx hs c (fun out => emission_plain hc out []) (setF now k v keep) _
    ((setF now k v keep).txspec (setF_ok now k v keep) hs.invP (Int.le_refl now)) g (fun _ => .panic) rfl (some [])
    (Or.inl rfl) (fun b x hx => hrec (some b) x hx) (fun x hx => hrec (some []) x hx) (fun _ _ h => nomatch h)
  rw [emission_plain hc] at a
  refine ⟨_, r', form_feed (setF_ok now k v keep) hs.invP hl, a, b, ?_⟩
  intro op hop
  unfold TxForm.ops at hop
  have hd : ∀ w e, ∀ op ∈ Act.ops ((setF now k v keep).dec w e), op.key = k := by
    intro w e op hop
    cases w <;> simp [setF, Cmd.form, decSet, decStrWrite, Act.ops] at hop <;> (subst hop; rfl)
  split at hop
  · exact hd _ _ op hop
  · exact hd _ _ op hop
  · cases hop

theorem Same.commit (hs : Same now p r) : Same now (Api.commit p) r :=
  ⟨hs.invP.congr rfl rfl rfl rfl, hs.invR,
    by rw [← hs.eq]; exact logical_ext hs.invP.idxSorted hs.invP.idxSorted (fun k => lookup_congr rfl rfl rfl _ _),
    fun k e => by rw [lookup_congr (s := p) (s' := Api.commit p) rfl rfl rfl]; exact hs.nonil k e⟩

theorem mset_go_step : ∀ (n : Nat) (pairs : List Bytes), pairs.length ≤ n → ∀ (p r : MState), Same now p r →
    p.listeners = true →
    ∃ ops r', fl (Api.mset.go now pairs p).1 = (ops.reverse ++ p.feed, true) ∧
      Feed.applyAll r now ops = some r' ∧ Same now (Api.mset.go now pairs p).1 r' ∧
      ∀ op ∈ ops, op.key ∈ pairs := by
  intro n
  induction n with
  | zero =>
    intro pairs hn p r hs hl
    cases pairs with
    | nil => exact ⟨[], r, by simp [Api.mset.go, fl, hl], rfl, hs, fun _ h => nomatch h⟩
    | cons a t => simp at hn
  | succ n ih =>
    intro pairs hn p r hs hl
    match pairs, hn with
    | [], _ => exact ⟨[], r, by simp [Api.mset.go, fl, hl], rfl, hs, fun _ h => nomatch h⟩
    | [a], _ => exact ⟨[], r, by simp [Api.mset.go, fl, hl], rfl, hs, fun _ h => nomatch h⟩
    | k :: v :: rest, hn =>
      obtain ⟨ops1, r1, f1, a1, s1, k1⟩ := set_step hs hl k v false
      rw [Api.mset.go]
      have hl1 : (Api.set p now k v false).1.listeners = true := congrArg Prod.snd f1
      have hf1 : (Api.set p now k v false).1.feed = ops1.reverse ++ p.feed := congrArg Prod.fst f1
      generalize Api.set p now k v false = res at f1 s1 hl1 hf1
      obtain ⟨s, o⟩ := res
      have stop : ∃ ops r', fl s = (ops.reverse ++ p.feed, true) ∧
          Feed.applyAll r now ops = some r' ∧ Same now s r' ∧ ∀ op ∈ ops, op.key ∈ k :: v :: rest :=
        ⟨ops1, r1, f1, a1, s1, fun op hop => by rw [k1 op hop]; simp⟩
      have cont : ∃ ops r', fl (Api.mset.go now rest (Api.commit s)).1 = (ops.reverse ++ p.feed, true) ∧
          Feed.applyAll r now ops = some r' ∧ Same now (Api.mset.go now rest (Api.commit s)).1 r' ∧
          ∀ op ∈ ops, op.key ∈ k :: v :: rest := by
        obtain ⟨ops2, r2, f2, a2, s2, k2⟩ := ih rest (by simp at hn; omega) (Api.commit s) r1 (Same.commit s1) hl1
        refine ⟨ops1 ++ ops2, r2, ?_, ?_, s2, ?_⟩
        · rw [f2]
          show (ops2.reverse ++ s.feed, true) = _
          simp only at hf1
          rw [hf1]; simp
        · rw [applyAll_append, a1]; exact a2
        · intro op hop
          rcases List.mem_append.mp hop with h | h
          · rw [k1 op h]; simp
          · exact List.mem_cons_of_mem _ (List.mem_cons_of_mem _ (k2 op h))
      cases o <;> first | exact stop | exact cont

theorem mset_replay (hs : Same now p r) (hl : p.listeners = true) (hfd : p.feed = [])
    (c : Feed.CallInfo) (hc : plainMethod c.method = true) (pairs : List Bytes) :
    Replay now r c (Api.mset p now pairs) := by
  unfold Replay
  rw [emission_plain hc]
  unfold Api.mset
  split
  · refine ⟨r, ?_, hs⟩
    simp [hfd, Feed.applyAll]
  · obtain ⟨ops, r', f, a, s, _⟩ := mset_go_step (now := now) pairs.length pairs (Nat.le_refl _) p r hs hl
    have : (Api.mset.go now pairs p).1.feed = ops.reverse ++ p.feed := congrArg Prod.fst f
    rw [this, hfd]
    simp only [List.append_nil, List.reverse_reverse]
    exact ⟨r', a, s⟩

theorem mset_lis (hs : Same now p r) (hl : p.listeners = true) (pairs : List Bytes) :
    (Api.mset p now pairs).1.listeners = true := by
  unfold Api.mset
  split
  · exact hl
  · obtain ⟨ops, r', f, _, _, _⟩ := mset_go_step (now := now) pairs.length pairs (Nat.le_refl _) p r hs hl
    exact congrArg Prod.snd f

theorem mset_keys (hs : Same now p r) (hl : p.listeners = true) (hfd : p.feed = []) (pairs : List Bytes) :
    ∀ op ∈ (Api.mset p now pairs).1.feed.reverse, op.key ∈ pairs := by
  unfold Api.mset
  split
  · intro op hop; rw [hfd] at hop; cases hop
  · obtain ⟨ops, r', f, _, _, k⟩ := mset_go_step (now := now) pairs.length pairs (Nat.le_refl _) p r hs hl
    have : (Api.mset.go now pairs p).1.feed = ops.reverse ++ p.feed := congrArg Prod.fst f
    rw [this, hfd]
    simp only [List.append_nil, List.reverse_reverse]
    exact k

end NodisVerif.Proofs.C20
