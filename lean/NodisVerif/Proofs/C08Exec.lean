import NodisVerif.Proofs.C08Watch
/-
  EXEC / DISCARD / MULTI / execCommand / afterHandler: exact characterisation.
-/
namespace NodisVerif.Proofs.C08Step
open Resp Server
open NodisVerif.Proofs.AListLemmas2

theorem FlaggedC.refl (sv : Server) : FlaggedC (fun _ _ => False) sv sv :=
  ⟨rfl, fun _ => rfl, fun _ => rfl, fun _ _ h => h.elim, fun _ _ _ => rfl, fun _ _ => rfl⟩

theorem FlaggedC.trans {S₁ S₂ : String → Bytes → Prop} {a b c : Server}
    (h₁ : FlaggedC S₁ a b) (h₂ : FlaggedC S₂ b c) : FlaggedC (fun i x => S₁ i x ∨ S₂ i x) a c := by
  refine ⟨h₂.registry.trans h₁.registry, fun id => (h₂.state id).trans (h₁.state id),
    fun id => (h₂.queue id).trans (h₁.queue id), ?_, ?_, ?_⟩
  · intro id x hs
    by_cases h2 : S₂ id x
    · exact h₂.hit id x h2
    · rw [h₂.miss id x h2]
      exact h₁.hit id x (hs.resolve_right h2)
  · intro id x hs
    rw [h₂.miss id x (fun h => hs (Or.inr h)), h₁.miss id x (fun h => hs (Or.inl h))]
  · intro id hs
    rw [h₂.same id (fun x h => hs x (Or.inr h)), h₁.same id (fun x h => hs x (Or.inl h))]

theorem FlaggedC.congr {S S' : String → Bytes → Prop} {a b : Server} (h : FlaggedC S a b)
    (e : ∀ i x, S i x ↔ S' i x) : FlaggedC S' a b :=
  ⟨h.registry, h.state, h.queue, fun id x hs => h.hit id x ((e id x).mpr hs),
   fun id x hs => h.miss id x (fun h' => hs ((e id x).mp h')),
   fun id hs => h.same id (fun x h' => hs x ((e id x).mp h'))⟩

/-- a flag either keeps its value or becomes true -/
theorem FlaggedC.watch_or {S : String → Bytes → Prop} {a b : Server} (h : FlaggedC S a b) (id : String) (x : Bytes) :
    AList.get? (b.conn id).watch x = AList.get? (a.conn id).watch x ∨ AList.get? (b.conn id).watch x = some true := by
  by_cases hs : S id x
  · exact Or.inr (h.hit id x hs)
  · exact Or.inl (h.miss id x hs)

/-- outputs of the queued closures in order, each run on the store the previous one left
    (EXEC passes no relational choice) -/
def execOuts (st : MState) (now : Int) : List Body → List BodyOut
  | [] => []
  | b :: bs => outOf st now none b :: execOuts (storeAfter (outOf st now none b)) now bs

/-- the store after running the closures one after the other -/
def execStore (st : MState) (now : Int) (bs : List Body) : MState :=
  bs.foldl (fun st b => storeAfter (outOf st now none b)) st

theorem execOuts_length (now : Int) : ∀ (bs : List Body) (st : MState), (execOuts st now bs).length = bs.length := by
  intro bs; induction bs with
  | nil => intro _; rfl
  | cons b rest ih => intro st; simp [execOuts, ih]

theorem execOuts_append (now : Int) : ∀ (bs cs : List Body) (st : MState),
    execOuts st now (bs ++ cs) = execOuts st now bs ++ execOuts (execStore st now bs) now cs := by
  intro bs; induction bs with
  | nil => intro cs st; rfl
  | cons b rest ih => intro cs st; simp [execOuts, execStore, ih]

/-- the loop of EXEC -/
def execLoop (now : Int) (bs : List Body) (acc : Server × List Tok) : Server × List Tok :=
  bs.foldl (fun (acc : Server × List Tok) b =>
      let (sv, ts) := runBody acc.1 now none b
      (sv, acc.2 ++ ts)) acc

/-- `reset` of EXEC = the body of DISCARD -/
def resetConn (sv : Server) (id : String) : Server :=
  let sv := unwatchAll sv id
  sv.setConn id { (sv.conn id) with state := 0, queue := [] }

theorem exec_eq (sv : Server) (id : String) (now : Int) :
    exec sv id now =
      (let c := sv.conn id
       if c.state % 2 ≠ 1 then (resetConn sv id, [Tok.err 0]) else
       if (c.state / 4) % 2 = 1 then (resetConn sv id, [Tok.err 2]) else
       if c.watch.any (·.2) then (resetConn sv id, [Tok.nullBulk]) else
       if c.queue.isEmpty then (resetConn sv id, [Tok.arr 0]) else
       let r := execLoop now c.queue
         (sv.setConn id { c with state := c.state + multiCommit - (if (c.state / 2) % 2 = 1 then multiCommit else 0) },
          [Tok.arr c.queue.length])
       (resetConn r.1 id, r.2)) := rfl

theorem discard_eq (sv : Server) (id : String) : discard sv id = (resetConn sv id, [okTok]) := rfl

/-- pairs flagged by some closure of the queue -/
def execHits (reg : AList (List String)) (st : MState) (now : Int) (bs : List Body) (i : String) (x : Bytes) : Prop :=
  ∃ o ∈ execOuts st now bs, hits reg o.store i x

theorem execLoop_spec (now : Int) : ∀ (bs : List Body) (sv : Server) (ts : List Tok),
    (execLoop now bs (sv, ts)).2 = ts ++ (execOuts sv.store now bs).flatMap replyOf ∧
    (execLoop now bs (sv, ts)).1.store = execStore sv.store now bs ∧
    FlaggedC (execHits sv.registry sv.store now bs) sv (execLoop now bs (sv, ts)).1 := by
  intro bs
  induction bs with
  | nil =>
    intro sv ts
    refine ⟨by simp [execLoop, execOuts], rfl, ?_⟩
    exact (FlaggedC.refl sv).congr (by simp [execHits, execOuts])
  | cons b rest ih =>
    intro sv ts
    have e : execLoop now (b :: rest) (sv, ts) =
        execLoop now rest ((runBody sv now none b).1, ts ++ (runBody sv now none b).2) := rfl
    rw [e]
    obtain ⟨h1, h2, h3⟩ := ih (runBody sv now none b).1 (ts ++ (runBody sv now none b).2)
    have hf := runBody_flagged sv now none b
    rw [runBody_store] at h1 h2 h3
    rw [hf.registry] at h3
    refine ⟨?_, ?_, ?_⟩
    · rw [h1, runBody_toks]; simp [execOuts]
    · rw [h2]; rfl
    · refine (hf.trans h3).congr ?_
      intro i x
      simp [execHits, execOuts]

/-! ### resetConn -/

@[simp] theorem resetConn_store (sv : Server) (id : String) : (resetConn sv id).store = sv.store := by
  simp [resetConn]

theorem resetConn_conn_same (sv : Server) (id : String) : (resetConn sv id).conn id = {} := by
  simp [resetConn, unwatchAll_conn_same]

theorem resetConn_conn_other (sv : Server) (id i : String) (h : i ≠ id) : (resetConn sv id).conn i = sv.conn i := by
  simp only [resetConn]; rw [conn_setConn_other _ _ _ _ h, unwatchAll_conn_other _ _ _ h]

theorem resetConn_registered (sv : Server) (id : String) (i : String) (x : Bytes) :
    registered (resetConn sv id) i x ↔
      registered sv i x ∧ ¬ (i = id ∧ AList.contains (sv.conn id).watch x = true) := by
  rw [← unwatchAll_registered]; exact registered_congr rfl i x

theorem RegWF.resetConn {sv : Server} (h : RegWF sv) (id : String) : RegWF (resetConn sv id) :=
  (h.unwatchAll id).setConn_keep id _ rfl

theorem resetConn_unregistered {sv : Server} (h : RegWF sv) (id : String) (x : Bytes) :
    ¬ registered (resetConn sv id) id x := fun hr =>
  unwatchAll_unregistered h id x ((registered_congr rfl id x).mp hr)

/-! ### afterHandler, multi, execCommand -/

theorem afterHandler_eq (sv : Server) (id : String) (toks : List Tok) :
    afterHandler sv id toks =
      if toks.any isErr ∧ (sv.conn id).state ≠ 0 then
        sv.setConn id { (sv.conn id) with
          state := if ((sv.conn id).state / 4) % 2 = 1 then (sv.conn id).state else (sv.conn id).state + multiError }
      else sv := rfl

@[simp] theorem afterHandler_store (sv : Server) (id : String) (toks : List Tok) : (afterHandler sv id toks).store = sv.store := by
  rw [afterHandler_eq]; split <;> rfl
@[simp] theorem afterHandler_registry (sv : Server) (id : String) (toks : List Tok) :
    (afterHandler sv id toks).registry = sv.registry := by
  rw [afterHandler_eq]; split <;> rfl
theorem afterHandler_conn_other (sv : Server) (id i : String) (toks : List Tok) (h : i ≠ id) :
    (afterHandler sv id toks).conn i = sv.conn i := by
  rw [afterHandler_eq]; split
  · rw [conn_setConn_other _ _ _ _ h]
  · rfl
theorem afterHandler_queue (sv : Server) (id i : String) (toks : List Tok) :
    ((afterHandler sv id toks).conn i).queue = (sv.conn i).queue := by
  rw [afterHandler_eq]; split
  · rw [conn_setConn]; split
    · next h => subst h; rfl
    · rfl
  · rfl
theorem afterHandler_watch (sv : Server) (id i : String) (toks : List Tok) :
    ((afterHandler sv id toks).conn i).watch = (sv.conn i).watch := by
  rw [afterHandler_eq]; split
  · rw [conn_setConn]; split
    · next h => subst h; rfl
    · rfl
  · rfl
/-- no error token, or the connection is idle: nothing happens -/
theorem afterHandler_noerr (sv : Server) (id : String) (toks : List Tok)
    (h : toks.any isErr = false ∨ (sv.conn id).state = 0) : afterHandler sv id toks = sv := by
  rw [afterHandler_eq, if_neg]
  rintro ⟨a, b⟩
  rcases h with h | h
  · rw [h] at a; cases a
  · exact b h
theorem afterHandler_state (sv : Server) (id : String) (toks : List Tok) :
    ((afterHandler sv id toks).conn id).state =
      if toks.any isErr ∧ (sv.conn id).state ≠ 0 ∧ ((sv.conn id).state / 4) % 2 ≠ 1
      then (sv.conn id).state + multiError else (sv.conn id).state := by
  rw [afterHandler_eq]
  by_cases h1 : toks.any isErr = true ∧ (sv.conn id).state ≠ 0
  · rw [if_pos h1, conn_setConn_same]
    by_cases h2 : ((sv.conn id).state / 4) % 2 = 1
    · simp [h2]
    · simp [h1.1, h1.2, h2]
  · rw [if_neg h1, if_neg]
    rintro ⟨a, b, _⟩; exact h1 ⟨a, b⟩

theorem RegWF.afterHandler {sv : Server} (h : RegWF sv) (id : String) (toks : List Tok) : RegWF (afterHandler sv id toks) := by
  rw [afterHandler_eq]; split
  · exact h.setConn_keep id _ rfl
  · exact h

theorem multi_eq (sv : Server) (id : String) :
    multi sv id = if (sv.conn id).state % 2 = 1 then (sv, [Tok.err 0])
      else (sv.setConn id { (sv.conn id) with state := (sv.conn id).state + 1 }, [okTok]) := rfl

theorem execCommand_eq (sv : Server) (id : String) (now : Int) (ch : Choice) (b : Body) :
    execCommand sv id now ch b =
      if runsNow (sv.conn id).state then runBody sv now ch b
      else (sv.setConn id (if (sv.conn id).state % 2 = 1 then { (sv.conn id) with queue := (sv.conn id).queue ++ [b] } else sv.conn id),
            [queuedTok]) := rfl

end NodisVerif.Proofs.C08Step
