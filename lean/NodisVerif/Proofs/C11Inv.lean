import NodisVerif.Spec.Persist
import NodisVerif.Props.C14
import NodisVerif.Proofs.C11AList
/-
  C11 / C12: the storage invariant and its frame lemma.
-/
namespace NodisVerif.Proofs.C11
open NodisVerif.Store NodisVerif.Codec NodisVerif.Spec.Persist
open NodisVerif.Proofs.AListLemmas NodisVerif.Proofs.AListLemmas2 NodisVerif.Proofs.C11AList

/-! ### values that survive the codec -/

/-- lengths fit Go's int (a Go byte string cannot be 2^63 bytes long) -/
def Bounded : Val → Prop
  | .str _ => True
  | .strNil => True
  | .list l => ∀ v ∈ l.items, v.length < 2 ^ 63
  | .hash h => ∀ p ∈ h, p.1.length + p.2.length + 10 < 2 ^ 63
  | .set s => ∀ p ∈ s, p.1.length < 2 ^ 63
  | .zset z => ∀ p ∈ z.dict, p.1.length + 8 < 2 ^ 63

/-- well-formed and of representable size -/
def Good (v : Val) : Prop := v.WF ∧ Bounded v

/-- every good value except the nil string survives encode/decode unchanged (C14) -/
theorem good_roundtrip (v : Val) (h : Good v) (hn : v ≠ .strNil) :
    decodeEntry (encodeEntry v) = some v := by
  obtain ⟨hw, hb⟩ := h
  cases v with
  | str b => exact NodisVerif.C14.str_roundtrip b
  | strNil => exact absurd rfl hn
  | list l => exact NodisVerif.C14.list_roundtrip l hw hb
  | hash m => exact NodisVerif.C14.hash_roundtrip m hw hb
  | set m => exact NodisVerif.C14.set_roundtrip m hw hb
  | zset z => exact NodisVerif.C14.zset_roundtrip z hw hb

theorem strNil_decodes : decodeEntry (encodeEntry .strNil) = some (.str []) := by
  simp [encodeEntry, encodeVal, Val.typeCode, decodeEntry]

/-- every good value can be decoded again, to a good value -/
theorem good_decodes (v : Val) (h : Good v) :
    ∃ v', decodeEntry (encodeEntry v) = some v' ∧ Good v' := by
  by_cases hn : v = .strNil
  · subst hn
    exact ⟨.str [], strNil_decodes, ⟨trivial, trivial⟩⟩
  · exact ⟨v, good_roundtrip v h hn, h⟩

theorem encodeKey_inj {n1 n2 : Bytes} {e1 e2 : Int} (h1 : inInt64 e1 = true) (h2 : inInt64 e2 = true)
    (h : encodeKey n1 e1 = encodeKey n2 e2) : n1 = n2 ∧ e1 = e2 :=
  NodisVerif.C14.key_injective n1 n2 e1 e2 h1 h2 h

/-! ### the invariant -/

/-- the backend entry `ent` holds the value `v` of the clean record `m`: Pebble keeps a copy
    (which may only be known up to one encode/decode trip), the in-memory backend the object -/
structure Holds (pebble : Bool) (m : Meta) (v : Val) (ent : DiskEntry) : Prop where
  peb : pebble = true → ent.val = v ∨ decodeEntry (encodeEntry ent.val) = some v
  mem : pebble = false → ent.oid = m.oid ∧ ent.val = v

/-- per index record. `x` = a name whose record is currently being rewritten by a command
    (between `setVal`/`setExp` and `signalModifiedKey`); `t` = time horizon: a record that was
    already expired at `t` is dead for good (all later operations run at `now ≥ t`) -/
structure RecInv (disk : AList DiskEntry) (pebble : Bool) (x : Option Bytes) (t : Int)
    (k : Bytes) (m : Meta) : Prop where
  ok : m.isOk = true
  expR : inInt64 m.exp = true
  good : ∀ v, m.value = some v → Good v
  /-- what `stored` says is in the backend is there, under this name -/
  stored : ∀ e, m.stored = some e →
    ∃ ent, AList.get? disk (encodeKey k e) = some ent ∧ ent.name = k ∧ ent.exp = e
  /-- a cold live record sits in the backend under its current deadline -/
  cold : m.expired t = false → m.value = none → m.stored = some m.exp
  /-- a hot live record that is not marked modified is in the backend, current deadline, same value -/
  clean : m.expired t = false → x ≠ some k → m.isModified = false → ∀ v, m.value = some v →
    ∃ ent, m.stored = some m.exp ∧ AList.get? disk (encodeKey k m.exp) = some ent ∧ Holds pebble m v ent

/-- per backend entry: filed under its own encoding, decodable, and it is *the* stored entry of
    the indexed record of its name (no stale entries) -/
structure EntInv (index : AList Meta) (dk : Bytes) (e : DiskEntry) : Prop where
  key : dk = encodeKey e.name e.exp
  expR : inInt64 e.exp = true
  good : Good e.val
  owner : ∃ m, AList.get? index e.name = some m ∧ m.stored = some e.exp

/-- object identities (in-memory backend only) -/
structure OidInv (s : MState) : Prop where
  recR : ∀ k m, AList.get? s.index k = some m → 0 < m.oid ∧ m.oid < s.nextId
  recInj : ∀ k1 m1 k2 m2, AList.get? s.index k1 = some m1 → AList.get? s.index k2 = some m2 →
    m1.oid = m2.oid → k1 = k2
  entR : ∀ dk e, AList.get? s.disk dk = some e → 0 < e.oid ∧ e.oid < s.nextId
  entRec : ∀ dk e k m, AList.get? s.disk dk = some e → AList.get? s.index k = some m →
    e.oid = m.oid → e.name = k
  entInj : ∀ dk1 e1 dk2 e2, AList.get? s.disk dk1 = some e1 → AList.get? s.disk dk2 = some e2 →
    e1.oid = e2.oid → e1.name = e2.name

structure StoreInvX (s : MState) (x : Option Bytes) (t : Int) : Prop where
  idxSorted : AList.Sorted s.index
  diskSorted : AList.Sorted s.disk
  recs : ∀ k m, AList.get? s.index k = some m → RecInv s.disk s.pebble x t k m
  ents : ∀ dk e, AList.get? s.disk dk = some e → EntInv s.index dk e
  oids : s.pebble = false → OidInv s
  idPos : 0 < s.nextId

/-- the storage invariant (between commands) -/
def StoreInv (s : MState) (t : Int) : Prop := StoreInvX s none t

/-! ### basic consequences -/

theorem Meta.expired_mono (m : Meta) {t t' : Int} (h : t ≤ t') (he : m.expired t = true) :
    m.expired t' = true := by
  simp only [Meta.expired, Bool.and_eq_true, bne_iff_ne, ne_eq, decide_eq_true_eq] at he ⊢
  exact ⟨he.1, by omega⟩

theorem Meta.alive_anti (m : Meta) {t t' : Int} (h : t ≤ t') (he : m.expired t' = false) :
    m.expired t = false := by
  cases h1 : m.expired t with
  | false => rfl
  | true => rw [Meta.expired_mono m h h1] at he; cases he

theorem RecInv.mono {disk pebble x t t' k m} (h : RecInv disk pebble x t k m) (ht : t ≤ t') :
    RecInv disk pebble x t' k m :=
  { ok := h.ok, expR := h.expR, good := h.good, stored := h.stored
    cold := fun he => h.cold (Meta.alive_anti m ht he)
    clean := fun he => h.clean (Meta.alive_anti m ht he) }

/-- the horizon may always be advanced -/
theorem StoreInvX.mono {s x t t'} (h : StoreInvX s x t) (ht : t ≤ t') : StoreInvX s x t' :=
  { idxSorted := h.idxSorted, diskSorted := h.diskSorted
    recs := fun k m hk => (h.recs k m hk).mono ht
    ents := h.ents, oids := h.oids, idPos := h.idPos }

theorem RecInv.weaken {disk pebble t k m} (x : Option Bytes) (h : RecInv disk pebble none t k m) :
    RecInv disk pebble x t k m :=
  { ok := h.ok, expR := h.expR, good := h.good, stored := h.stored, cold := h.cold
    clean := fun he _ => h.clean he (by simp) }

theorem StoreInvX.weaken {s t} (x : Option Bytes) (h : StoreInvX s none t) : StoreInvX s x t :=
  { idxSorted := h.idxSorted, diskSorted := h.diskSorted
    recs := fun k m hk => (h.recs k m hk).weaken x
    ents := h.ents, oids := h.oids, idPos := h.idPos }

/-- the invariant only looks at index, backend, backend kind and the id counter -/
theorem StoreInvX.congr {s s' : MState} {x t} (h : StoreInvX s x t)
    (hi : s'.index = s.index) (hd : s'.disk = s.disk) (hp : s'.pebble = s.pebble)
    (hn : s'.nextId = s.nextId) : StoreInvX s' x t := by
  obtain ⟨a, b, c, d, e, f⟩ := h
  refine ⟨by rw [hi]; exact a, by rw [hd]; exact b, ?_, ?_, ?_, by rw [hn]; exact f⟩
  · intro k m hk; rw [hi] at hk; rw [hd, hp]; exact c k m hk
  · intro dk en hk; rw [hd] at hk; rw [hi]; exact d dk en hk
  · intro hpb; rw [hp] at hpb
    obtain ⟨o1, o2, o3, o4, o5⟩ := e hpb
    refine ⟨?_, ?_, ?_, ?_, ?_⟩
    · intro k m hk; rw [hi] at hk; rw [hn]; exact o1 k m hk
    · intro k1 m1 k2 m2 h1 h2; rw [hi] at h1 h2; exact o2 k1 m1 k2 m2 h1 h2
    · intro dk en hk; rw [hd] at hk; rw [hn]; exact o3 dk en hk
    · intro dk en k m h1 h2; rw [hd] at h1; rw [hi] at h2; exact o4 dk en k m h1 h2
    · intro dk1 e1 dk2 e2 h1 h2; rw [hd] at h1 h2; exact o5 dk1 e1 dk2 e2 h1 h2

/-- an entry filed under `(k, e)` is about `k` and `e` -/
theorem StoreInvX.ent_at {s x t} (h : StoreInvX s x t) {k : Bytes} {e : Int} {ent : DiskEntry}
    (he : inInt64 e = true) (hg : AList.get? s.disk (encodeKey k e) = some ent) :
    ent.name = k ∧ ent.exp = e := by
  have hi := h.ents _ _ hg
  have := encodeKey_inj hi.expR he hi.key.symm
  exact this

/-- all entries of one name are the same entry -/
theorem StoreInvX.ent_unique {s x t} (h : StoreInvX s x t) {dk1 dk2 : Bytes} {e1 e2 : DiskEntry}
    (h1 : AList.get? s.disk dk1 = some e1) (h2 : AList.get? s.disk dk2 = some e2)
    (hn : e1.name = e2.name) : dk1 = dk2 ∧ e1 = e2 := by
  have i1 := h.ents _ _ h1
  have i2 := h.ents _ _ h2
  obtain ⟨m1, hm1, hs1⟩ := i1.owner
  obtain ⟨m2, hm2, hs2⟩ := i2.owner
  rw [hn] at hm1
  rw [hm1] at hm2
  have : m1 = m2 := by simpa using hm2
  subst this
  rw [hs1] at hs2
  have hexp : e1.exp = e2.exp := by simpa using hs2
  have hk : dk1 = dk2 := by rw [i1.key, i2.key, hn, hexp]
  subst hk
  rw [h1] at h2
  exact ⟨rfl, by simpa using h2⟩

/-- an entry named `k` is the one the record of `k` points to -/
theorem StoreInvX.ent_of_name {s x t} (h : StoreInvX s x t) {dk : Bytes} {e : DiskEntry} {m : Meta}
    (h1 : AList.get? s.disk dk = some e) (hm : AList.get? s.index e.name = some m) :
    m.stored = some e.exp ∧ dk = encodeKey e.name e.exp := by
  have i1 := h.ents _ _ h1
  obtain ⟨m1, hm1, hs1⟩ := i1.owner
  rw [hm] at hm1
  have : m = m1 := by simpa using hm1
  subst this
  exact ⟨hs1, i1.key⟩

/-- a name without an index record has no backend entry -/
theorem StoreInvX.no_entry {s x t} (h : StoreInvX s x t) {dk : Bytes} {e : DiskEntry}
    (h1 : AList.get? s.disk dk = some e) (hm : AList.get? s.index e.name = none) : False := by
  obtain ⟨m1, hm1, _⟩ := (h.ents _ _ h1).owner
  rw [hm] at hm1; cases hm1

/-! ### frame lemma: an operation that only touches the record of `k` and backend entries named `k` -/

structure OidFrame (s s' : MState) (k : Bytes) : Prop where
  recK : ∀ m, AList.get? s'.index k = some m → 0 < m.oid ∧ m.oid < s'.nextId ∧
     (∀ k' m', k' ≠ k → AList.get? s.index k' = some m' → m'.oid ≠ m.oid) ∧
     (∀ dk e, AList.get? s.disk dk = some e → e.name ≠ k → e.oid ≠ m.oid)
  entK : ∀ dk e, AList.get? s'.disk dk = some e → e.name = k → 0 < e.oid ∧ e.oid < s'.nextId ∧
     (∀ k' m', k' ≠ k → AList.get? s.index k' = some m' → m'.oid ≠ e.oid) ∧
     (∀ dk' e', AList.get? s.disk dk' = some e' → e'.name ≠ k → e'.oid ≠ e.oid)

theorem frame {s s' : MState} {x x' : Option Bytes} {t : Int} {k : Bytes} (h : StoreInvX s x t)
    (hx : ∀ k', k' ≠ k → x' ≠ some k' → x ≠ some k')
    (hp : s'.pebble = s.pebble) (hn : s.nextId ≤ s'.nextId)
    (hI : AList.Sorted s'.index) (hD : AList.Sorted s'.disk)
    (hIo : ∀ k', k' ≠ k → AList.get? s'.index k' = AList.get? s.index k')
    (hD1 : ∀ dk e, AList.get? s.disk dk = some e → e.name ≠ k → AList.get? s'.disk dk = some e)
    (hD2 : ∀ dk e, AList.get? s'.disk dk = some e → e.name ≠ k → AList.get? s.disk dk = some e)
    (hrec : ∀ m, AList.get? s'.index k = some m → RecInv s'.disk s'.pebble x' t k m)
    (hent : ∀ dk e, AList.get? s'.disk dk = some e → e.name = k → EntInv s'.index dk e)
    (hoid : s.pebble = false → OidFrame s s' k) : StoreInvX s' x' t := by
  refine ⟨hI, hD, ?_, ?_, ?_, by have := h.idPos; omega⟩
  · intro k' m hk
    by_cases hkk : k' = k
    · subst hkk; exact hrec m hk
    · rw [hIo k' hkk] at hk
      have r := h.recs k' m hk
      have hst : ∀ e, m.stored = some e →
          ∃ ent, AList.get? s'.disk (encodeKey k' e) = some ent ∧ ent.name = k' ∧ ent.exp = e := by
        intro e he
        obtain ⟨ent, h1, h2, h3⟩ := r.stored e he
        exact ⟨ent, hD1 _ _ h1 (by rw [h2]; exact hkk), h2, h3⟩
      refine ⟨r.ok, r.expR, r.good, hst, r.cold, ?_⟩
      intro he hx' hm v hv
      obtain ⟨ent, h1, h2, h3⟩ := r.clean he (hx k' hkk hx') hm v hv
      obtain ⟨ent', g1, g2, _⟩ := r.stored _ h1
      rw [h2] at g1
      have : ent = ent' := by simpa using g1
      subst this
      refine ⟨ent, h1, hD1 _ _ h2 (by rw [g2]; exact hkk), ?_⟩
      rw [hp]; exact h3
  · intro dk e hk
    by_cases hkk : e.name = k
    · exact hent dk e hk hkk
    · have r := h.ents dk e (hD2 dk e hk hkk)
      refine ⟨r.key, r.expR, r.good, ?_⟩
      obtain ⟨m, hm, hs⟩ := r.owner
      exact ⟨m, by rw [hIo _ hkk]; exact hm, hs⟩
  · intro hpb
    rw [hp] at hpb
    have o := h.oids hpb
    have f := hoid hpb
    refine ⟨?_, ?_, ?_, ?_, ?_⟩
    · intro k' m hk
      by_cases hkk : k' = k
      · subst hkk; have := f.recK m hk; exact ⟨this.1, this.2.1⟩
      · rw [hIo k' hkk] at hk
        have := o.recR k' m hk
        exact ⟨this.1, by omega⟩
    · intro k1 m1 k2 m2 h1 h2 he
      by_cases hk1 : k1 = k
      · by_cases hk2 : k2 = k
        · rw [hk1, hk2]
        · subst hk1
          rw [hIo k2 hk2] at h2
          exact absurd he.symm ((f.recK m1 h1).2.2.1 k2 m2 hk2 h2)
      · by_cases hk2 : k2 = k
        · subst hk2
          rw [hIo k1 hk1] at h1
          exact absurd he ((f.recK m2 h2).2.2.1 k1 m1 hk1 h1)
        · rw [hIo k1 hk1] at h1
          rw [hIo k2 hk2] at h2
          exact o.recInj k1 m1 k2 m2 h1 h2 he
    · intro dk e hk
      by_cases hkk : e.name = k
      · have := f.entK dk e hk hkk; exact ⟨this.1, this.2.1⟩
      · have := o.entR dk e (hD2 dk e hk hkk)
        exact ⟨this.1, by omega⟩
    · intro dk e k' m h1 h2 he
      by_cases hkk : e.name = k
      · by_cases hk2 : k' = k
        · rw [hkk, hk2]
        · rw [hIo k' hk2] at h2
          exact absurd he.symm ((f.entK dk e h1 hkk).2.2.1 k' m hk2 h2)
      · have h1' := hD2 dk e h1 hkk
        by_cases hk2 : k' = k
        · subst hk2
          exact absurd he ((f.recK m h2).2.2.2 dk e h1' hkk)
        · rw [hIo k' hk2] at h2
          exact o.entRec dk e k' m h1' h2 he
    · intro dk1 e1 dk2 e2 h1 h2 he
      by_cases hk1 : e1.name = k
      · by_cases hk2 : e2.name = k
        · rw [hk1, hk2]
        · have h2' := hD2 dk2 e2 h2 hk2
          exact absurd he.symm ((f.entK dk1 e1 h1 hk1).2.2.2 dk2 e2 h2' hk2)
      · have h1' := hD2 dk1 e1 h1 hk1
        by_cases hk2 : e2.name = k
        · exact absurd he ((f.entK dk2 e2 h2 hk2).2.2.2 dk1 e1 h1' hk1)
        · exact o.entInj dk1 e1 dk2 e2 h1' (hD2 dk2 e2 h2 hk2) he

/-- identities already attached to `k` are not used under any other name -/
theorem OidInv.rec_fresh {s : MState} (o : OidInv s) {k : Bytes} {m : Meta}
    (hm : AList.get? s.index k = some m) :
    (∀ k' m', k' ≠ k → AList.get? s.index k' = some m' → m'.oid ≠ m.oid) ∧
    (∀ dk e, AList.get? s.disk dk = some e → e.name ≠ k → e.oid ≠ m.oid) := by
  refine ⟨?_, ?_⟩
  · intro k' m' hk h1 he
    exact hk (o.recInj k' m' k m h1 hm he)
  · intro dk e h1 hne he
    exact hne (o.entRec dk e k m h1 hm he)

theorem OidInv.ent_fresh {s : MState} (o : OidInv s) {k dk : Bytes} {e : DiskEntry}
    (he : AList.get? s.disk dk = some e) (hn : e.name = k) :
    (∀ k' m', k' ≠ k → AList.get? s.index k' = some m' → m'.oid ≠ e.oid) ∧
    (∀ dk' e', AList.get? s.disk dk' = some e' → e'.name ≠ k → e'.oid ≠ e.oid) := by
  refine ⟨?_, ?_⟩
  · intro k' m' hk h1 h2
    have := o.entRec dk e k' m' he h1 h2.symm
    exact hk (by rw [← this, hn])
  · intro dk' e' h1 hne h2
    have := o.entInj dk' e' dk e h1 he h2
    exact hne (by rw [this, hn])

/-- a brand-new identity is not used anywhere -/
theorem OidInv.new_fresh {s : MState} (o : OidInv s) (k : Bytes) {n : Nat} (hn : s.nextId ≤ n) :
    (∀ k' m', k' ≠ k → AList.get? s.index k' = some m' → m'.oid ≠ n) ∧
    (∀ dk e, AList.get? s.disk dk = some e → e.name ≠ k → e.oid ≠ n) := by
  refine ⟨?_, ?_⟩
  · intro k' m' _ h1 he
    have := o.recR k' m' h1; omega
  · intro dk e h1 _ he
    have := o.entR dk e h1; omega

end NodisVerif.Proofs.C11
