import NodisVerif.Proofs.C10Sim
/-
  C10 helper lemmas, part 4: the two generic command shapes (`readCmd`, `writeCmd`), the proof that
  each respects `Sim`, and the factorisation of the API commands through them.
-/
namespace NodisVerif.Proofs.C10
open NodisVerif Store
open NodisVerif.Proofs.AListLemmas NodisVerif.Proofs.AListLemmas2

/-- what a write command does to its key once the lookup succeeded -/
structure Act where
  val : Option Val := none       -- setVal
  exp : Option Int := none       -- setExp
  del : Bool := false            -- delKey
  sig : Bool := false            -- signal
  ops : List FeedOp := []        -- emit
  out : Out

def applyAct (s : MState) (key : Bytes) (a : Act) : Api.R :=
  let s := match a.val with | some v => Api.setVal s key v | none => s
  let s := match a.exp with | some e => Api.setExp s key e | none => s
  let s := if a.del then delKey s key else s
  let s := if a.sig then signal s key else s
  (a.ops.foldl emit s, a.out)

/-- a command that looks its key up with `readKey` and answers from the hot value and the deadline -/
def readCmd (miss : Out) (f : Option Val → Int → Out) (s : MState) (now : Int) (key : Bytes) : Api.R :=
  let r := readKey s now key
  if !r.2 then (r.1, miss) else (r.1, f (valOf r.1 key) (Api.expOf r.1 key))

/-- a command that looks its key up with `writeKey` and then acts on that key only -/
def writeCmd (mk : Option Val) (miss : Out) (body : Option Val → Int → Act)
    (s : MState) (now : Int) (key : Bytes) : Api.R :=
  let r := writeKey s now key mk
  if !r.2 then (r.1, miss) else applyAct r.1 key (body (valOf r.1 key) (Api.expOf r.1 key))

theorem emits_good {now : Int} (ops : List FeedOp) : ∀ {s s' : MState}, Good now s s' →
    Good now (ops.foldl emit s) (ops.foldl emit s') := by
  induction ops with
  | nil => intro s s' g; exact g
  | cons op rest ih => intro s s' g; exact ih (emit_good g op)

theorem applyAct_good {now : Int} {s s' : MState} (g : Good now s s') (k : Bytes) (a : Act)
    (h : Hot now s k) : RSim now (applyAct s k a) (applyAct s' k a) := by
  unfold applyAct
  refine ⟨rfl, ?_⟩
  simp only
  apply emits_good
  have hvis : (vis now s k).isSome = true := by obtain ⟨r, hr, _⟩ := h; rw [hr]; rfl
  have g1 : Good now (match a.val with | some v => Api.setVal s k v | none => s)
      (match a.val with | some v => Api.setVal s' k v | none => s') ∧
      Hot now (match a.val with | some v => Api.setVal s k v | none => s) k := by
    cases a.val with
    | none => exact ⟨g, h⟩
    | some v => exact ⟨setVal_good g k v hvis, setVal_hot k v hvis⟩
  obtain ⟨g1, h1⟩ := g1
  generalize (match a.val with | some v => Api.setVal s k v | none => s) = t at g1 h1
  generalize (match a.val with | some v => Api.setVal s' k v | none => s') = t' at g1
  have g2 : Good now (match a.exp with | some e => Api.setExp t k e | none => t)
      (match a.exp with | some e => Api.setExp t' k e | none => t') := by
    cases a.exp with
    | none => exact g1
    | some e => exact setExp_good g1 k e h1
  generalize (match a.exp with | some e => Api.setExp t k e | none => t) = u at g2
  generalize (match a.exp with | some e => Api.setExp t' k e | none => t') = u' at g2
  have g3 : Good now (if a.del then delKey u k else u) (if a.del then delKey u' k else u') := by
    cases a.del with
    | false => exact g2
    | true => exact delKey_good g2 k
  cases a.sig with
  | false => exact g3
  | true => exact signal_good g3 k

theorem valOf_good {now : Int} {s s' : MState} (g : Good now s s') {k : Bytes} (h : Hot now s k) :
    valOf s k = valOf s' k ∧ Api.expOf s k = Api.expOf s' k := by
  obtain ⟨r, hr, _⟩ := h
  have hr' : vis now s' k = some r := by rw [← g.vis k]; exact hr
  rw [valOf_of_vis hr, valOf_of_vis hr', expOf_of_vis hr, expOf_of_vis hr']
  exact ⟨rfl, rfl⟩

/-- GENERIC LEMMA (reads): a `readCmd` gives the same reply on related states and leaves them related -/
theorem readCmd_good {now : Int} {s s' : MState} (g : Good now s s') (miss : Out)
    (f : Option Val → Int → Out) (k : Bytes) :
    RSim now (readCmd miss f s now k) (readCmd miss f s' now k) := by
  obtain ⟨⟨e, g1⟩, hot⟩ := readKey_good g k
  unfold readCmd
  simp only
  rw [← e]
  cases hok : (readKey s now k).2 with
  | false => exact ⟨rfl, g1⟩
  | true =>
    obtain ⟨a, b⟩ := valOf_good g1 (hot hok)
    simp only [Bool.not_true, Bool.false_eq_true, if_false]
    exact ⟨by rw [a, b], g1⟩

/-- GENERIC LEMMA (writes): a `writeCmd` gives the same reply on related states and leaves them related -/
theorem writeCmd_good {now : Int} {s s' : MState} (g : Good now s s') (mk : Option Val) (miss : Out)
    (body : Option Val → Int → Act) (k : Bytes) :
    RSim now (writeCmd mk miss body s now k) (writeCmd mk miss body s' now k) := by
  obtain ⟨⟨e, g1⟩, hot⟩ := writeKey_good g k mk
  unfold writeCmd
  simp only
  rw [← e]
  cases hok : (writeKey s now k mk).2 with
  | false => exact ⟨rfl, g1⟩
  | true =>
    obtain ⟨a, b⟩ := valOf_good g1 (hot hok)
    simp only [Bool.not_true, Bool.false_eq_true, if_false]
    rw [← a, ← b]
    exact applyAct_good g1 k _ (hot hok)

end NodisVerif.Proofs.C10
