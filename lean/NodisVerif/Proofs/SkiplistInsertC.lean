import NodisVerif.Proofs.SkiplistInsertA
/-
  skiplist.insert, part C: `Linked` of the new chain from the pointwise description of the new heap.
-/
namespace NodisVerif.Skiplist
open NodisVerif.DsZSet (Item nodeLt)

theorem find_append_none {p : Nat → Bool} {B X : List Nat} (hB : ∀ y ∈ B, p y = false) :
    (B ++ X).find? p = X.find? p ∧ (B ++ X).findIdx p = B.length + X.findIdx p := by
  induction B with
  | nil => simp
  | cons b B ih =>
    have hb : p b = false := hB b (by simp)
    have := ih (fun y hy => hB y (by simp [hy]))
    simp [List.findIdx_cons, hb, this]
    omega

theorem find_append_some {p : Nat → Bool} {B X : List Nat} (hB : ∃ y ∈ B, p y = true) :
    (B ++ X).find? p = B.find? p ∧ (B ++ X).findIdx p = B.findIdx p := by
  induction B with
  | nil => simp at hB
  | cons b B ih =>
    cases hb : p b with
    | true => simp [List.findIdx_cons, hb]
    | false =>
      have : ∃ y ∈ B, p y = true := by
        obtain ⟨y, hy, hp⟩ := hB
        rcases List.mem_cons.1 hy with rfl | hy
        · rw [hb] at hp; cases hp
        · exact ⟨y, hy, hp⟩
      have := ih this
      simp [List.findIdx_cons, hb, this]

theorem find_congr2 {p q : Nat → Bool} {B : List Nat} (h : ∀ y ∈ B, p y = q y) :
    B.find? p = B.find? q ∧ B.findIdx p = B.findIdx q := by
  induction B with
  | nil => simp
  | cons b B ih =>
    have hb : p b = q b := h b (by simp)
    have := ih (fun y hy => h y (by simp [hy]))
    simp [List.find?_cons, List.findIdx_cons, hb, this]

theorem find_all_false {p : Nat → Bool} {B : List Nat} (hB : ∀ y ∈ B, p y = false) :
    B.find? p = none := by
  simpa using hB

/-- the link condition of one node against the rest of the list -/
def LinkOK (h : List Node) (n : Nat) (B : List Nat) : Prop :=
  ∀ i l, lv h n i = some l →
    l.forward = B.find? (above h i) ∧ (l.forward ≠ none → l.span = (B.findIdx (above h i) : Int) + 1)

theorem linked_cons (h : List Node) (n : Nat) (rest : List Nat) :
    Linked h (n :: rest) ↔ LinkOK h n rest ∧ Linked h rest := by
  simp only [Linked, LinkOK, getLevel_eq_lv]

theorem linked_iff_split (h : List Node) (L : List Nat) :
    Linked h L ↔ ∀ A n B, L = A ++ n :: B → LinkOK h n B := by
  induction L with
  | nil => simp [Linked]
  | cons x rest ih =>
    rw [linked_cons, ih]
    constructor
    · rintro ⟨h1, h2⟩ A n B hs
      cases A with
      | nil => simp at hs; obtain ⟨rfl, rfl⟩ := hs; exact h1
      | cons a A => simp at hs; exact h2 A n B hs.2
    · intro hh
      exact ⟨hh [] x rest rfl, fun A n B hs => hh (x :: A) n B (by simp [hs])⟩

theorem last_unique {p : Nat → Bool} : ∀ (A A' : List Nat) (u n : Nat) (B B' : List Nat),
    A ++ u :: B = A' ++ n :: B' → p u = true → p n = true → (∀ y ∈ B, p y = false) → (∀ y ∈ B', p y = false) →
    A = A' ∧ u = n ∧ B = B' := by
  intro A
  induction A with
  | nil =>
    intro A' u n B B' hs hu hn hB hB'
    cases A' with
    | nil => simpa using hs
    | cons a A' =>
      simp at hs
      have : n ∈ B := by rw [hs.2]; simp
      rw [hB n this] at hn; cases hn
  | cons a A ih =>
    intro A' u n B B' hs hu hn hB hB'
    cases A' with
    | nil =>
      simp at hs
      have : u ∈ B' := by rw [← hs.2]; simp
      rw [hB' u this] at hu; cases hu
    | cons a' A' =>
      simp at hs
      obtain ⟨h1, h2, h3⟩ := ih A' u n B B' hs.2 hu hn hB hB'
      exact ⟨by rw [hs.1, h1], h2, h3⟩

theorem nodup_split_unique : ∀ (A A' : List Nat) (n : Nat) (B B' : List Nat),
    (A ++ n :: B).Nodup → A ++ n :: B = A' ++ n :: B' → A = A' ∧ B = B' := by
  intro A
  induction A with
  | nil =>
    intro A' n B B' hnd hs
    cases A' with
    | nil => simpa using hs
    | cons a A' =>
      simp at hs
      obtain ⟨rfl, rfl⟩ := hs
      simp at hnd
  | cons a A ih =>
    intro A' n B B' hnd hs
    cases A' with
    | nil =>
      simp at hs
      obtain ⟨rfl, rfl⟩ := hs
      simp at hnd
    | cons a' A' =>
      simp at hs
      have hnd' : (A ++ n :: B).Nodup := (List.nodup_cons.1 hnd).2
      obtain ⟨h1, h2⟩ := ih A' n B B' hnd' hs.2
      exact ⟨by rw [hs.1, h1], h2⟩


/-- the heap `hf` after `insert` described against the heap `h1` after `extendLevels` -/
structure InsCtx (h1 hf : List Node) (pre post : List Nat) (N lvl level' : Nat)
    (U : Nat → Nat) (R : Nat → Int) (r0 : Int) : Prop where
  hlink : Linked h1 (0 :: pre ++ post)
  hnd : (0 :: pre ++ post).Nodup
  hNmem : N ∉ 0 :: pre ++ post
  hN1 : ∀ j, lv h1 N j = none
  hht : ∀ x, x ≠ N → height hf x = height h1 x
  hhN : height hf N = lvl
  hlvl : lvl ≤ level'
  hhi : ∀ y ∈ pre ++ post, height h1 y ≤ level'
  hU : ∀ j, j < level' → ∃ A B, 0 :: pre = A ++ U j :: B ∧ above h1 j (U j) = true ∧
      (∀ y ∈ B, above h1 j y = false) ∧ R j = (A.length : Int)
  hr0 : r0 = (pre.length : Int)
  hlv : ∀ x j, lv hf x j =
      if j < lvl then
        (if x = U j then some { forward := some N, span := r0 - R j + 1 }
         else if x = N then
           (lv h1 (U j) j).map (fun l => { forward := l.forward, span := l.span - (r0 - R j) })
         else lv h1 x j)
      else if j < level' ∧ x = U j then (lv h1 x j).map (fun l => { l with span := l.span + 1 })
      else lv h1 x j

namespace InsCtx
variable {h1 hf : List Node} {pre post : List Nat} {N lvl level' : Nat} {U : Nat → Nat} {R : Nat → Int} {r0 : Int}

theorem hab (C : InsCtx h1 hf pre post N lvl level' U R r0) (j y : Nat) (hy : y ≠ N) :
    above hf j y = above h1 j y := by
  unfold above; rw [C.hht y hy]

theorem habN (C : InsCtx h1 hf pre post N lvl level' U R r0) (j : Nat) :
    above hf j N = decide (j < lvl) := by
  unfold above; rw [C.hhN]

theorem hUP (C : InsCtx h1 hf pre post N lvl level' U R r0) (j : Nat) (hj : j < level') : U j ∈ 0 :: pre := by
  obtain ⟨A, B, hs, _⟩ := C.hU j hj
  rw [hs]; simp

theorem hNP (C : InsCtx h1 hf pre post N lvl level' U R r0) : N ∉ 0 :: pre := by
  intro hm
  apply C.hNmem
  simp at hm ⊢
  rcases hm with hm | hm
  · exact Or.inl hm
  · exact Or.inr (Or.inl hm)

theorem hNpost (C : InsCtx h1 hf pre post N lvl level' U R r0) : N ∉ post := by
  intro hm
  apply C.hNmem
  simp [hm]

theorem linkOK_post (C : InsCtx h1 hf pre post N lvl level' U R r0) (a'' B' : List Nat) (n : Nat)
    (hp : post = a'' ++ n :: B') : LinkOK hf n B' := by
  have hold := (linked_iff_split h1 _).1 C.hlink ((0 :: pre) ++ a'') n B' (by simp [hp])
  have hnpost : n ∈ post := by rw [hp]; simp
  have hnN : n ≠ N := fun e => C.hNpost (e ▸ hnpost)
  have hnU : ∀ j, j < level' → n ≠ U j := by
    intro j hj e
    have hu := C.hUP j hj
    have hd := C.hnd
    have e2 : (0 :: pre ++ post) = (0 :: pre) ++ post := rfl
    rw [e2, List.nodup_append] at hd
    exact hd.2.2 (U j) hu n hnpost e.symm
  have hlvn : ∀ j, lv hf n j = lv h1 n j := by
    intro j; rw [C.hlv]
    by_cases h1 : j < lvl
    · have := hnU j (by have := C.hlvl; omega); simp [h1, this, hnN]
    · by_cases h2 : j < level'
      · simp [h1, hnU j h2]
      · simp [h1, h2]
  intro j l hl
  rw [hlvn] at hl
  obtain ⟨e1, e2⟩ := hold j l hl
  have hc := find_congr2 (p := above hf j) (q := above h1 j) (B := B')
    (fun y hy => C.hab j y (fun e => C.hNpost (by rw [← e, hp]; simp [hy])))
  rw [hc.1, hc.2]; exact ⟨e1, e2⟩

theorem linkOK_new (C : InsCtx h1 hf pre post N lvl level' U R r0) : LinkOK hf N post := by
  intro j l hl
  rw [C.hlv] at hl
  have hNP := C.hNP
  by_cases h1j : j < lvl
  · have hj : j < level' := by have := C.hlvl; omega
    have hne : N ≠ U j := fun e => hNP (e ▸ C.hUP j hj)
    simp only [h1j, if_true, hne, if_false] at hl
    obtain ⟨A, B, hs, hu, hB, hR⟩ := C.hU j hj
    cases hl1 : lv h1 (U j) j with
    | none => rw [hl1] at hl; simp at hl
    | some l1 =>
      rw [hl1] at hl; simp at hl; subst hl
      have hold := (linked_iff_split h1 _).1 C.hlink A (U j) (B ++ post)
        (by show (0 :: pre) ++ post = _; rw [hs]; simp)
      obtain ⟨e1, e2⟩ := hold j l1 hl1
      have hfa := find_append_none (p := above h1 j) (B := B) (X := post) hB
      have hc := find_congr2 (p := above hf j) (q := above h1 j) (B := post)
        (fun y hy => C.hab j y (fun e => C.hNpost (e ▸ hy)))
      rw [hfa.1] at e1; rw [hfa.2] at e2
      have hlen : (pre.length : Int) + 1 = A.length + 1 + B.length := by
        have := congrArg List.length hs; simp at this; omega
      refine ⟨by simp [hc.1, e1], ?_⟩
      intro hne'
      simp at hne' ⊢
      rw [e2 hne', hc.2, C.hr0, hR]; push_cast; omega
  · have : ¬ (j < level' ∧ N = U j) := fun ⟨hj, e⟩ => hNP (e ▸ C.hUP j hj)
    simp [h1j, this, C.hN1] at hl


theorem mem_pre_of_split {pre A' c'' : List Nat} {n : Nat} (hs : 0 :: pre = A' ++ n :: c'') :
    ∀ y ∈ c'', y ∈ pre := by
  cases A' with
  | nil => simp at hs; intro y hy; rw [hs.2]; exact hy
  | cons a A'' => simp at hs; intro y hy; rw [hs.2]; simp [hy]

theorem linkOK_pre (C : InsCtx h1 hf pre post N lvl level' U R r0) (A' c'' : List Nat) (n : Nat)
    (hs : 0 :: pre = A' ++ n :: c'') : LinkOK hf n (c'' ++ N :: post) := by
  have hcpre := mem_pre_of_split hs
  have hnP : n ∈ 0 :: pre := by rw [hs]; simp
  have hnN : n ≠ N := fun e => C.hNP (e ▸ hnP)
  have hold : LinkOK h1 n (c'' ++ post) :=
    (linked_iff_split h1 _).1 C.hlink A' n (c'' ++ post) (by show (0 :: pre) ++ post = _; rw [hs]; simp)
  have hcN : ∀ y ∈ c'', y ≠ N :=
    fun y hy e => C.hNP (by rw [← e]; exact List.mem_cons_of_mem _ (hcpre y hy))
  have hpN : ∀ y ∈ post, y ≠ N := fun y hy e => C.hNpost (e ▸ hy)
  have hcc := fun j => find_congr2 (p := above hf j) (q := above h1 j) (B := c'')
    (fun y hy => C.hab j y (hcN y hy))
  have hcp := fun j => find_congr2 (p := above hf j) (q := above h1 j) (B := post)
    (fun y hy => C.hab j y (hpN y hy))
  intro j l hl
  have habn : above h1 j n = true := by
    have := (lv_isSome_iff hf n j).1 ⟨l, hl⟩
    rw [C.hht n hnN] at this; simp [above, this]
  by_cases hjl : j < level'
  · obtain ⟨A, B, hsU, hu, hB, hR⟩ := C.hU j hjl
    by_cases hex : ∃ y ∈ c'', above h1 j y = true
    · have hnU : n ≠ U j := by
        intro e
        have hnd : (A' ++ n :: c'').Nodup := by
          rw [← hs]
          have hd := C.hnd
          have e2 : (0 :: pre ++ post) = (0 :: pre) ++ post := rfl
          rw [e2, List.nodup_append] at hd
          exact hd.1
        have := nodup_split_unique A' A n c'' B hnd (by rw [← hs, hsU, e])
        obtain ⟨y, hy, hay⟩ := hex
        rw [this.2] at hy; rw [hB y hy] at hay; cases hay
      have hlvn : lv hf n j = lv h1 n j := by
        rw [C.hlv]; by_cases h1j : j < lvl <;> simp [h1j, hnU, hnN]
      rw [hlvn] at hl
      obtain ⟨e1, e2⟩ := hold j l hl
      have hex' : ∃ y ∈ c'', above hf j y = true := by
        obtain ⟨y, hy, hay⟩ := hex
        exact ⟨y, hy, by rw [C.hab j y (hcN y hy)]; exact hay⟩
      have f1 := find_append_some (p := above h1 j) (B := c'') (X := post) hex
      have f2 := find_append_some (p := above hf j) (B := c'') (X := N :: post) hex'
      rw [f1.1] at e1; rw [f1.2] at e2
      rw [f2.1, f2.2, (hcc j).1, (hcc j).2]
      exact ⟨e1, e2⟩
    · have hcf : ∀ y ∈ c'', above h1 j y = false := by
        intro y hy
        cases h : above h1 j y with
        | false => rfl
        | true => exact absurd ⟨y, hy, h⟩ hex
      obtain ⟨eA, en, eB⟩ := last_unique A' A n (U j) c'' B (by rw [← hs, hsU]) habn hu hcf hB
      have hcf' : ∀ y ∈ c'', above hf j y = false := by
        intro y hy; rw [C.hab j y (hcN y hy)]; exact hcf y hy
      have f1 := find_append_none (p := above h1 j) (B := c'') (X := post) hcf
      have f2 := find_append_none (p := above hf j) (B := c'') (X := N :: post) hcf'
      have hlen : (pre.length : Int) = A'.length + c''.length := by
        have := congrArg List.length hs; simp at this; omega
      rw [C.hlv] at hl
      by_cases h1j : j < lvl
      · simp [h1j, en] at hl
        subst hl
        rw [f2.1, f2.2]
        simp [List.findIdx_cons, C.habN, h1j]
        rw [C.hr0, hR, ← eA]; omega
      · simp only [h1j, if_false, hjl, en, and_self, if_true] at hl
        rw [← en] at hl
        cases hl1 : lv h1 n j with
        | none => rw [hl1] at hl; simp at hl
        | some l1 =>
          rw [hl1] at hl; simp at hl; subst hl
          obtain ⟨e1, e2⟩ := hold j l1 hl1
          rw [f1.1] at e1; rw [f1.2] at e2
          rw [f2.1, f2.2]
          simp [List.findIdx_cons, C.habN, h1j, (hcp j).1, (hcp j).2]
          refine ⟨e1, fun hne => ?_⟩
          rw [e2 hne]; push_cast; omega
  · have hlvn : lv hf n j = lv h1 n j := by
      rw [C.hlv]
      have : ¬ j < lvl := by have := C.hlvl; omega
      simp [this, hjl]
    rw [hlvn] at hl
    obtain ⟨e1, e2⟩ := hold j l hl
    have hall1 : ∀ y ∈ c'' ++ post, above h1 j y = false := by
      intro y hy
      have hy' : y ∈ pre ++ post := by
        rcases List.mem_append.1 hy with h | h
        · exact List.mem_append_left _ (hcpre y h)
        · exact List.mem_append_right _ h
      have := C.hhi y hy'
      simp [above]; omega
    have hall2 : ∀ y ∈ c'' ++ N :: post, above hf j y = false := by
      intro y hy
      by_cases hyN : y = N
      · subst hyN; rw [C.habN]; have := C.hlvl; simp; omega
      · rw [C.hab j y hyN]
        apply hall1
        simp at hy ⊢
        rcases hy with h | h | h
        · exact Or.inl h
        · exact absurd h hyN
        · exact Or.inr h
    rw [find_all_false hall1] at e1
    rw [find_all_false hall2]
    exact ⟨e1, fun hne => absurd e1 hne⟩


theorem linked (C : InsCtx h1 hf pre post N lvl level' U R r0) : Linked hf (0 :: pre ++ N :: post) := by
  rw [linked_iff_split]
  intro A' n B' hsplit
  have hsplit' : (0 :: pre) ++ (N :: post) = A' ++ (n :: B') := hsplit
  rcases List.append_eq_append_iff.1 hsplit' with ⟨a', ha1, ha2⟩ | ⟨c', hc1, hc2⟩
  · cases a' with
    | nil => simp at ha2; obtain ⟨rfl, rfl⟩ := ha2; exact C.linkOK_new
    | cons x a'' => simp at ha2; exact C.linkOK_post a'' B' n ha2.2
  · cases c' with
    | nil => simp at hc2; obtain ⟨rfl, rfl⟩ := hc2; exact C.linkOK_new
    | cons x c'' =>
      simp at hc2
      obtain ⟨rfl, rfl⟩ := hc2
      exact C.linkOK_pre A' c'' n hc1

end InsCtx

end NodisVerif.Skiplist
