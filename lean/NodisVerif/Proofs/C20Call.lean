import NodisVerif.Proofs.C20HFloat
import NodisVerif.Proofs.C20RenameNX
import NodisVerif.Proofs.C20ZStore
/-
  C20: the state-changing calls of the embedded API as a type, the call information the driver
  hands to `Feed.emission`, argument side conditions, finding regions, and the main theorem over
  that type.
-/
namespace NodisVerif.Proofs.C20
open NodisVerif NodisVerif.Store NodisVerif.Spec.Persist NodisVerif.Proofs.C11

/-- the covered state-changing methods with their arguments (as `Driver.callApi` passes them) -/
inductive Call
  -- keyspace
  | del (ks : List Bytes) | unlink (ks : List Bytes)
  | expire (k : Bytes) (n : Int) | expirePX (k : Bytes) (n : Int)
  | expireNX (k : Bytes) (n : Int) | expireXX (k : Bytes) (n : Int)
  | expireLT (k : Bytes) (n : Int) | expireGT (k : Bytes) (n : Int)
  | expireAt (k : Bytes) (ts : Int) | expireAtNX (k : Bytes) (ts : Int) | expireAtXX (k : Bytes) (ts : Int)
  | expireAtLT (k : Bytes) (ts : Int) | expireAtGT (k : Bytes) (ts : Int)
  | rename (a b : Bytes) | persist (k : Bytes) | clear | hclear (k : Bytes) | zclear (k : Bytes)
  -- strings
  | set (k v : Bytes) (keep : Bool) | getSet (k v : Bytes) | setEX (k v : Bytes) (n : Int)
  | setPX (k v : Bytes) (n : Int) | setNX (k v : Bytes) (keep : Bool) | setXX (k v : Bytes) (keep : Bool)
  | incr (k : Bytes) | incrBy (k : Bytes) (n : Int) | decr (k : Bytes) | decrBy (k : Bytes) (n : Int)
  | incrByFloat (k : Bytes) (d : F64) | setBit (k : Bytes) (o : Int) (b : Bool) | append (k v : Bytes)
  | setRange (k : Bytes) (o : Int) (v : Bytes) | mset (kvs : List Bytes)
  -- lists
  | lpush (k : Bytes) (vs : List Bytes) | rpush (k : Bytes) (vs : List Bytes)
  | lpop (k : Bytes) (n : Int) | rpop (k : Bytes) (n : Int)
  | linsert (k pivot d : Bytes) (before : Bool) | lpushX (k d : Bytes) | rpushX (k d : Bytes)
  | lrem (k d : Bytes) (n : Int) | lset (k : Bytes) (i : Int) (d : Bytes) | ltrim (k : Bytes) (a b : Int)
  -- hashes
  | hset (k f v : Bytes) | hdel (k : Bytes) (fs : List Bytes) | hincrBy (k f : Bytes) (n : Int)
  | hsetNX (k f v : Bytes) | hmset (k : Bytes) (pairs : List (Bytes × Bytes))
  -- sets
  | sadd (k : Bytes) (ms : List Bytes) | srem (k : Bytes) (ms : List Bytes)
  | spop (k : Bytes) (n : Int) (choice : List Bytes)
  -- sorted sets
  | zadd (k m : Bytes) (sc : F64) | zaddXX (k m : Bytes) (sc : F64) | zaddNX (k m : Bytes) (sc : F64)
  | zaddLT (k m : Bytes) (sc : F64) | zaddGT (k m : Bytes) (sc : F64)
  | zrem (k : Bytes) (ms : List Bytes) | zremRangeByRank (k : Bytes) (a b : Int)
  | zremRangeByScore (k : Bytes) (a b : F64) (mode : Int)
  -- two keys
  | renameNX (a b : Bytes) | smove (src dst m : Bytes) | lpopRpush (a b : Bytes) | rpopLpush (a b : Bytes)
  | sdiffStore (dst : Bytes) (ks : List Bytes) | sinterStore (dst : Bytes) (ks : List Bytes)
  | sunionStore (dst : Bytes) (ks : List Bytes)
  -- floats
  | zincrBy (k m : Bytes) (d : F64) | hincrByFloat (k f : Bytes) (d : F64)
  -- sorted-set stores: destination, operands, weights, aggregate
  | zunionStore (dst : Bytes) (ks : List Bytes) (ws : List F64) (agg : Bytes)
  | zinterStore (dst : Bytes) (ks : List Bytes) (ws : List F64) (agg : Bytes)

namespace Call

/-- the model's implementation (`Driver.callApi`) -/
def run : Call → MState → Int → Api.R
  | del ks, s, now => Api.del s now ks
  | unlink ks, s, now => Api.del s now ks
  | expire k n, s, now => Api.expire s now k n
  | expirePX k n, s, now => Api.expirePX s now k n
  | expireNX k n, s, now => Api.expireNX s now k n
  | expireXX k n, s, now => Api.expireXX s now k n
  | expireLT k n, s, now => Api.expireLT s now k n
  | expireGT k n, s, now => Api.expireGT s now k n
  | expireAt k ts, s, now => Api.expireAt s now k ts
  | expireAtNX k ts, s, now => Api.expireAtNX s now k ts
  | expireAtXX k ts, s, now => Api.expireAtXX s now k ts
  | expireAtLT k ts, s, now => Api.expireAtLT s now k ts
  | expireAtGT k ts, s, now => Api.expireAtGT s now k ts
  | rename a b, s, now => Api.rename s now a b
  | persist k, s, now => Api.persist s now k
  | clear, s, _ => (Store.clear s, .unit)
  | hclear k, s, now => ((Api.del s now [k]).1, .unit)
  | zclear k, s, now => ((Api.del s now [k]).1, .unit)
  | set k v keep, s, now => Api.set s now k v keep
  | getSet k v, s, now => Api.getSet s now k v
  | setEX k v n, s, now => Api.setEX s now k v n
  | setPX k v n, s, now => Api.setPX s now k v n
  | setNX k v keep, s, now => Api.setNX s now k v keep
  | setXX k v keep, s, now => Api.setXX s now k v keep
  | incr k, s, now => Api.addInt s now k 1 false false
  | incrBy k n, s, now => Api.addInt s now k n false true
  | decr k, s, now => Api.addInt s now k 1 true false
  | decrBy k n, s, now => Api.addInt s now k n true false
  | incrByFloat k d, s, now => Api.incrByFloat s now k d
  | setBit k o b, s, now => Api.setBit s now k o b
  | append k v, s, now => Api.append s now k v
  | setRange k o v, s, now => Api.setRange s now k o v
  | mset kvs, s, now => Api.mset s now kvs
  | lpush k vs, s, now => Api.push true s now k vs
  | rpush k vs, s, now => Api.push false s now k vs
  | lpop k n, s, now => Api.pop true s now k n
  | rpop k n, s, now => Api.pop false s now k n
  | linsert k pv d before, s, now => Api.linsert s now k pv d before
  | lpushX k d, s, now => Api.pushX true s now k d
  | rpushX k d, s, now => Api.pushX false s now k d
  | lrem k d n, s, now => Api.lrem s now k d n
  | lset k i d, s, now => Api.lset s now k i d
  | ltrim k a b, s, now => Api.ltrim s now k a b
  | hset k f v, s, now => Api.hset s now k f v
  | hdel k fs, s, now => Api.hdel s now k fs
  | hincrBy k f n, s, now => Api.hincrby s now k f n
  | hsetNX k f v, s, now => Api.hsetnx s now k f v
  | hmset k pairs, s, now => Api.hmset s now k pairs
  | sadd k ms, s, now => Api.sadd s now k ms
  | srem k ms, s, now => Api.srem s now k ms
  | spop k n choice, s, now => Api.spop s now k n choice
  | zadd k m sc, s, now => Api.zadd s now k m sc
  | zaddXX k m sc, s, now => Api.zaddXX s now k m sc
  | zaddNX k m sc, s, now => Api.zaddNX s now k m sc
  | zaddLT k m sc, s, now => Api.zaddLT s now k m sc
  | zaddGT k m sc, s, now => Api.zaddGT s now k m sc
  | zrem k ms, s, now => Api.zrem s now k ms
  | zremRangeByRank k a b, s, now => Api.zremRangeByRank s now k a b
  | zremRangeByScore k a b mode, s, now => Api.zremRangeByScore s now k a b mode
  | renameNX a b, s, now => Api.renameNX s now a b
  | smove src dst m, s, now => Api.smove s now src dst m
  | lpopRpush a b, s, now => Api.rotate true s now a b
  | rpopLpush a b, s, now => Api.rotate false s now a b
  | sdiffStore dst ks, s, now => Api.sstore Api.sdiff s now dst ks
  | sinterStore dst ks, s, now => Api.sstore Api.sinter s now dst ks
  | sunionStore dst ks, s, now => Api.sstore Api.sunion s now dst ks
  | zincrBy k m d, s, now => Api.zincrby s now k m d
  | hincrByFloat k f d, s, now => Api.hincrbyfloat s now k f d
  | zunionStore dst ks ws agg, s, now => Api.zstore true s now dst ks ws agg
  | zinterStore dst ks ws agg, s, now => Api.zstore false s now dst ks ws agg

/-- the method name the driver passes to `Feed.emission` -/
def method : Call → String
  | del _ => "Del" | unlink _ => "Unlink" | expire .. => "Expire" | expirePX .. => "ExpirePX"
  | expireNX .. => "ExpireNX" | expireXX .. => "ExpireXX" | expireLT .. => "ExpireLT" | expireGT .. => "ExpireGT"
  | expireAt .. => "ExpireAt" | expireAtNX .. => "ExpireAtNX" | expireAtXX .. => "ExpireAtXX"
  | expireAtLT .. => "ExpireAtLT" | expireAtGT .. => "ExpireAtGT" | rename .. => "Rename" | persist _ => "Persist"
  | clear => "Clear" | hclear _ => "HClear" | zclear _ => "ZClear"
  | set .. => "Set" | getSet .. => "GetSet" | setEX .. => "SetEX" | setPX .. => "SetPX" | setNX .. => "SetNX"
  | setXX .. => "SetXX" | incr _ => "Incr" | incrBy .. => "IncrBy" | decr _ => "Decr" | decrBy .. => "DecrBy"
  | incrByFloat .. => "IncrByFloat" | setBit .. => "SetBit" | append .. => "Append" | setRange .. => "SetRange"
  | mset _ => "MSet"
  | lpush .. => "LPush" | rpush .. => "RPush" | lpop .. => "LPop" | rpop .. => "RPop" | linsert .. => "LInsert"
  | lpushX .. => "LPushX" | rpushX .. => "RPushX" | lrem .. => "LRem" | lset .. => "LSet" | ltrim .. => "LTrim"
  | hset .. => "HSet" | hdel .. => "HDel" | hincrBy .. => "HIncrBy" | hsetNX .. => "HSetNX" | hmset .. => "HMSet"
  | sadd .. => "SAdd" | srem .. => "SRem" | spop .. => "SPop"
  | zadd .. => "ZAdd" | zaddXX .. => "ZAddXX" | zaddNX .. => "ZAddNX" | zaddLT .. => "ZAddLT" | zaddGT .. => "ZAddGT"
  | zrem .. => "ZRem" | zremRangeByRank .. => "ZRemRangeByRank" | zremRangeByScore .. => "ZRemRangeByScore"
  | renameNX .. => "RenameNX" | smove .. => "SMove" | lpopRpush .. => "LPopRPush" | rpopLpush .. => "RPopLPush"
  | sdiffStore .. => "SDiffStore" | sinterStore .. => "SInterStore" | sunionStore .. => "SUnionStore"
  | zincrBy .. => "ZIncrBy" | hincrByFloat .. => "HIncrByFloat"
  | zunionStore .. => "ZUnionStore" | zinterStore .. => "ZInterStore"

/-- the key arguments of the call -/
def keys : Call → List Bytes
  | del ks => ks | unlink ks => ks
  | expire k _ => [k] | expirePX k _ => [k] | expireNX k _ => [k] | expireXX k _ => [k] | expireLT k _ => [k]
  | expireGT k _ => [k] | expireAt k _ => [k] | expireAtNX k _ => [k] | expireAtXX k _ => [k]
  | expireAtLT k _ => [k] | expireAtGT k _ => [k] | rename a b => [a, b] | persist k => [k]
  | clear => [] | hclear k => [k] | zclear k => [k]
  | set k .. => [k] | getSet k _ => [k] | setEX k .. => [k] | setPX k .. => [k] | setNX k .. => [k]
  | setXX k .. => [k] | incr k => [k] | incrBy k _ => [k] | decr k => [k] | decrBy k _ => [k]
  | incrByFloat k _ => [k] | setBit k .. => [k] | append k _ => [k] | setRange k .. => [k]
  | mset kvs => kvs
  | lpush k _ => [k] | rpush k _ => [k] | lpop k _ => [k] | rpop k _ => [k] | linsert k .. => [k]
  | lpushX k _ => [k] | rpushX k _ => [k] | lrem k .. => [k] | lset k .. => [k] | ltrim k .. => [k]
  | hset k .. => [k] | hdel k _ => [k] | hincrBy k .. => [k] | hsetNX k .. => [k] | hmset k _ => [k]
  | sadd k _ => [k] | srem k _ => [k] | spop k .. => [k]
  | zadd k .. => [k] | zaddXX k .. => [k] | zaddNX k .. => [k] | zaddLT k .. => [k] | zaddGT k .. => [k]
  | zrem k _ => [k] | zremRangeByRank k .. => [k] | zremRangeByScore k .. => [k]
  | renameNX a b => [a, b] | smove src dst _ => [src, dst] | lpopRpush a b => [a, b] | rpopLpush a b => [a, b]
  | sdiffStore dst ks => dst :: ks | sinterStore dst ks => dst :: ks | sunionStore dst ks => dst :: ks
  | zincrBy k .. => [k] | hincrByFloat k .. => [k]
  | zunionStore dst ks .. => dst :: ks | zinterStore dst ks .. => dst :: ks

/-- the plain byte-string arguments in call order (`Feed.emission` needs them for SMOVE) -/
def bs : Call → List Bytes
  | smove src dst m => [src, dst, m]
  | zunionStore .. => [] | zinterStore .. => []
  | c => c.keys

/-- operands, weights and aggregate of the sorted-set stores (`Feed.emission` puts them into the record) -/
def zkeys : Call → List Bytes
  | zunionStore _ ks .. => ks | zinterStore _ ks .. => ks | _ => []
def zweights : Call → List F64
  | zunionStore _ _ ws _ => ws | zinterStore _ _ ws _ => ws | _ => []
def zagg : Call → Bytes
  | zunionStore _ _ _ agg => agg | zinterStore _ _ _ agg => agg | _ => []

/-- what the driver hands to `Feed.emission` (the byte-string arguments matter for SMOVE only, operands /
    weights / aggregate for the sorted-set stores only) -/
def info (c : Call) : Feed.CallInfo :=
  { method := c.method, bs := c.bs, keys := c.zkeys, weights := c.zweights, aggregate := c.zagg }

/-- argument side conditions: what Go's types guarantee (int64 deadlines and increments, lengths
    below 2^63) and what the command handlers check (no NaN score) -/
def WF : Call → Prop
  | expireAt _ ts => inInt64 ts = true | expireAtNX _ ts => inInt64 ts = true | expireAtXX _ ts => inInt64 ts = true
  | expireAtLT _ ts => inInt64 ts = true | expireAtGT _ ts => inInt64 ts = true
  | lpush _ vs => ∀ v ∈ vs, v.length < 2 ^ 63 | rpush _ vs => ∀ v ∈ vs, v.length < 2 ^ 63
  | linsert _ _ d _ => d.length < 2 ^ 63 | lpushX _ d => d.length < 2 ^ 63 | rpushX _ d => d.length < 2 ^ 63
  | lset _ _ d => d.length < 2 ^ 63
  | hset _ f v => f.length + v.length + 10 < 2 ^ 63 | hsetNX _ f v => f.length + v.length + 10 < 2 ^ 63
  | hincrBy _ f n => inInt64 n = true ∧ f.length + 40 < 2 ^ 63
  | hmset _ pairs => ∀ q ∈ pairs, q.1.length + q.2.length + 10 < 2 ^ 63
  | sadd _ ms => ∀ m ∈ ms, m.length < 2 ^ 63
  | zadd _ m sc => F64.isNaN sc = false ∧ m.length + 8 < 2 ^ 63
  | zaddXX _ m sc => F64.isNaN sc = false ∧ m.length + 8 < 2 ^ 63
  | zaddNX _ m sc => F64.isNaN sc = false ∧ m.length + 8 < 2 ^ 63
  | zaddLT _ m sc => F64.isNaN sc = false ∧ m.length + 8 < 2 ^ 63
  | zaddGT _ m sc => F64.isNaN sc = false ∧ m.length + 8 < 2 ^ 63
  | smove _ _ m => m.length < 2 ^ 63
  | zincrBy _ m _ => m.length + 8 < 2 ^ 63
  | hincrByFloat _ f _ => f.length + 1040 < 2 ^ 63     -- the new text is at most 1000 bytes (Proofs/FloatDecLen.lean)
  | _ => True

/-- finding regions: calls that create their key and then fail or have nothing to record
    (`K` = the logical content of each name on the primary before the call) -/
def Region (K : Bytes → Option (Val × Int)) : Call → Prop
  | incr k => AddIntCreatesAndFails (K k) 1 false
  | incrBy k n => AddIntCreatesAndFails (K k) n false
  | decr k => AddIntCreatesAndFails (K k) 1 true
  | decrBy k n => AddIntCreatesAndFails (K k) n true
  | setRange k o v => SetRangeCreatesAndPanics (K k) o v
  | incrByFloat k d => IncrByFloatCreatesAndFails (K k) d
  | hmset k pairs => HMSetCreatesEmpty (K k) pairs
  | zrem k ms => ZRemOnEmpty (fun z => DsZSet.zRem z ms) (K k)
  | zremRangeByRank k a b => ZRemOnEmpty (fun z => DsZSet.zRemRangeByRank z a b) (K k)
  | zremRangeByScore k a b mode => ZRemOnEmpty (fun z => DsZSet.zRemRangeByScore z a b (mode % 4).toNat) (K k)
  | zincrBy k m d => ZIncrByNaN (K k) m d
  | hincrByFloat k _ d => HIncrByFloatCreatesAndFails (K k) d
  | zunionStore _ ks ws agg => ZStoreNaN K true ks ws agg
  | zinterStore _ ks ws agg => ZStoreNaN K false ks ws agg
  | _ => False

end Call

variable {now : Int} {p r : MState}

/-- MAIN THEOREM over the call type, with the listener flag carried along -/
theorem call_main (c : Call) (hwf : c.WF) (hs : Same now p r) (hl : p.listeners = true) (hfd : p.feed = [])
    (hreg : ¬ c.Region (lookup p now)) :
    Replay now r c.info (c.run p now) ∧ (c.run p now).1.listeners = true := by
  have hi := hs.invP
  cases c with
  | del ks => exact ⟨del_replay hs hl hfd _ rfl ks, del_lis hs hl ks⟩
  | unlink ks => exact ⟨del_replay hs hl hfd _ rfl ks, del_lis hs hl ks⟩
  | expire k n =>
    refine ⟨expire_replay hs hl hfd _ rfl k n, ?_⟩
    show (Api.expire p now k n).1.listeners = true
    by_cases h0 : n = 0
    · have : Api.expire p now k n = Api.del p now [k] := by unfold Api.expire; rw [if_pos h0]
      rw [this]; exact del_lis hs hl [k]
    · rw [expire_eq p now k n h0]
      exact form_lis (expF_ok (fun s1 => (Api.applyExp s1 k (wrap64 (now + wrap64 (n * 1000))), .int 1)) k _
        (fun _ => true) (inInt64_wrap64 _)) hi hl
  | expirePX k n =>
    refine ⟨expirePX_replay hs hl hfd _ rfl k n, ?_⟩
    show (Api.expirePX p now k n).1.listeners = true
    by_cases h0 : n = 0
    · have : Api.expirePX p now k n = Api.del p now [k] := by unfold Api.expirePX; rw [if_pos h0]
      rw [this]; exact del_lis hs hl [k]
    · rw [expirePX_eq p now k n h0]
      exact form_lis (expF_ok (fun s1 => (Api.applyExp s1 k (wrap64 (now + n)), .int 1)) k _
        (fun _ => true) (inInt64_wrap64 _)) hi hl
  | expireNX k n =>
    refine ⟨expireNX_replay hs hl hfd _ rfl k n, ?_⟩
    show (Api.expireNX p now k n).1.listeners = true
    rw [expireNX_eq]; exact form_lis (expireCondForm_ok k _ _ (inInt64_wrap64 _)) hi hl
  | expireXX k n =>
    refine ⟨expireXX_replay hs hl hfd _ rfl k n, ?_⟩
    show (Api.expireXX p now k n).1.listeners = true
    rw [expireXX_eq]; exact form_lis (expireCondForm_ok k _ _ (inInt64_wrap64 _)) hi hl
  | expireLT k n =>
    refine ⟨expireLT_replay hs hl hfd _ rfl k n, ?_⟩
    show (Api.expireLT p now k n).1.listeners = true
    rw [expireLT_eq]; exact form_lis (expireCondForm_ok k _ _ (inInt64_wrap64 _)) hi hl
  | expireGT k n =>
    refine ⟨expireGT_replay hs hl hfd _ rfl k n, ?_⟩
    show (Api.expireGT p now k n).1.listeners = true
    rw [expireGT_eq]; exact form_lis (expireCondForm_ok k _ _ (inInt64_wrap64 _)) hi hl
  | expireAt k ts =>
    refine ⟨expireAt_replay hs hl hfd _ rfl k ts hwf, ?_⟩
    show (Api.expireAt p now k ts).1.listeners = true
    rw [expireAt_eq]
    exact form_lis (expF_ok (fun s1 => (Api.applyExp s1 k ts, .int 1)) k ts (fun _ => true) hwf) hi hl
  | expireAtNX k ts =>
    refine ⟨expireAtNX_replay hs hl hfd _ rfl k ts hwf, ?_⟩
    show (Api.expireAtNX p now k ts).1.listeners = true
    rw [expireAtNX_eq]; exact form_lis (expireCondForm_ok k ts (fun e => decide (e = 0)) hwf) hi hl
  | expireAtXX k ts =>
    refine ⟨expireAtXX_replay hs hl hfd _ rfl k ts hwf, ?_⟩
    show (Api.expireAtXX p now k ts).1.listeners = true
    rw [expireAtXX_eq]; exact form_lis (expireCondForm_ok k ts (fun e => decide (e ≠ 0)) hwf) hi hl
  | expireAtLT k ts =>
    refine ⟨expireAtLT_replay hs hl hfd _ rfl k ts hwf, ?_⟩
    show (Api.expireAtLT p now k ts).1.listeners = true
    rw [expireAtLT_eq]; exact form_lis (expireCondForm_ok k ts _ hwf) hi hl
  | expireAtGT k ts =>
    refine ⟨expireAtGT_replay hs hl hfd _ rfl k ts hwf, ?_⟩
    show (Api.expireAtGT p now k ts).1.listeners = true
    rw [expireAtGT_eq]; exact form_lis (expireCondForm_ok k ts _ hwf) hi hl
  | rename a b => exact ⟨rename_replay hs hl hfd _ rfl a b, congrArg Prod.snd (rename_fl hi hl a b)⟩
  | persist k =>
    refine ⟨persist_replay hs hl hfd _ rfl k, ?_⟩
    show (Api.persist p now k).1.listeners = true
    rw [apiPersist_eq]; exact form_lis (persistF_ok now k) hi hl
  | clear => exact ⟨clear_replay hs hfd _ rfl, hl⟩
  | hclear k =>
    refine ⟨?_, del_lis hs hl [k]⟩
    have := del_replay hs hl hfd (Call.hclear k).info rfl [k]
    exact this
  | zclear k =>
    refine ⟨?_, del_lis hs hl [k]⟩
    have := del_replay hs hl hfd (Call.zclear k).info rfl [k]
    exact this
  | set k v keep =>
    refine ⟨set_replay hs hl hfd _ rfl k v keep, ?_⟩
    show (Api.set p now k v keep).1.listeners = true
    rw [set_eq]; exact form_lis (setF_ok now k v keep) hi hl
  | getSet k v => exact ⟨getSet_replay hs hl hfd _ rfl k v, (getSet_raw hi hl hfd k v).2⟩
  | setEX k v n =>
    refine ⟨setEX_replay hs hl hfd _ rfl k v n, ?_⟩
    show (Api.setEX p now k v n).1.listeners = true
    rw [setEX_eq]; exact form_lis (setExForm_ok k v _ (inInt64_wrap64 _)) hi hl
  | setPX k v n =>
    refine ⟨setPX_replay hs hl hfd _ rfl k v n, ?_⟩
    show (Api.setPX p now k v n).1.listeners = true
    rw [setPX_eq]; exact form_lis (setExForm_ok k v _ (inInt64_wrap64 _)) hi hl
  | setNX k v keep => exact ⟨setNX_replay hs hl hfd _ rfl k v keep, setNX_lis hi hl k v keep⟩
  | setXX k v keep =>
    refine ⟨setXX_replay hs hl hfd _ rfl k v keep, ?_⟩
    show (Api.setXX p now k v keep).1.listeners = true
    rw [setXX_eq]; exact form_lis (f := (Cmd.setXX k v keep).form now) (Cmd.ok (.setXX k v keep) now trivial) hi hl
  | incr k =>
    refine ⟨addInt_replay hs hl hfd _ rfl k 1 false false hreg, ?_⟩
    show (Api.addInt p now k 1 false false).1.listeners = true
    rw [addInt_eq]; exact form_lis (f := (Cmd.incrBy k 1 false).form now) (Cmd.ok (.incrBy k 1 false) now trivial) hi hl
  | incrBy k n =>
    refine ⟨addInt_replay hs hl hfd _ rfl k n false true hreg, ?_⟩
    show (Api.addInt p now k n false true).1.listeners = true
    rw [addInt_eq]; exact form_lis (f := (Cmd.incrBy k n false).form now) (Cmd.ok (.incrBy k n false) now trivial) hi hl
  | decr k =>
    refine ⟨addInt_replay hs hl hfd _ rfl k 1 true false hreg, ?_⟩
    show (Api.addInt p now k 1 true false).1.listeners = true
    rw [addInt_eq]; exact form_lis (f := (Cmd.incrBy k 1 true).form now) (Cmd.ok (.incrBy k 1 true) now trivial) hi hl
  | decrBy k n =>
    refine ⟨addInt_replay hs hl hfd _ rfl k n true false hreg, ?_⟩
    show (Api.addInt p now k n true false).1.listeners = true
    rw [addInt_eq]; exact form_lis (f := (Cmd.incrBy k n true).form now) (Cmd.ok (.incrBy k n true) now trivial) hi hl
  | incrByFloat k d =>
    refine ⟨incrByFloat_replay hs hl hfd _ rfl k d hreg, ?_⟩
    show (Api.incrByFloat p now k d).1.listeners = true
    rw [incrByFloat_eq]; exact form_lis (incrByFloatF_ok k d) hi hl
  | setBit k o b =>
    refine ⟨setBit_replay hs hl hfd _ rfl k o b, ?_⟩
    show (Api.setBit p now k o b).1.listeners = true
    rw [setBit_eq]; exact form_lis (setBitF_ok k o b) hi hl
  | append k v =>
    refine ⟨append_replay hs hl hfd _ rfl k v, ?_⟩
    show (Api.append p now k v).1.listeners = true
    rw [append_eq]; exact form_lis (f := (Cmd.append k v).form now) (Cmd.ok (.append k v) now trivial) hi hl
  | setRange k o v =>
    refine ⟨setRange_replay hs hl hfd _ rfl k o v hreg, ?_⟩
    show (Api.setRange p now k o v).1.listeners = true
    rw [setRange_eq]; exact form_lis (setRangeF_ok k o v) hi hl
  | mset kvs => exact ⟨mset_replay hs hl hfd _ rfl kvs, mset_lis hs hl kvs⟩
  | lpush k vs =>
    refine ⟨push_replay hs hl hfd _ rfl true k vs hwf, ?_⟩
    show (Api.push true p now k vs).1.listeners = true
    rw [push_eq]; exact form_lis (f := (Cmd.push true k vs).form now) (Cmd.ok (.push true k vs) now hwf) hi hl
  | rpush k vs =>
    refine ⟨push_replay hs hl hfd _ rfl false k vs hwf, ?_⟩
    show (Api.push false p now k vs).1.listeners = true
    rw [push_eq]; exact form_lis (f := (Cmd.push false k vs).form now) (Cmd.ok (.push false k vs) now hwf) hi hl
  | lpop k n =>
    refine ⟨pop_replay hs hl hfd _ rfl true k n, ?_⟩
    show (Api.pop true p now k n).1.listeners = true
    rw [pop_eq]; exact form_lis (f := (Cmd.pop true k n).form now) (Cmd.ok (.pop true k n) now trivial) hi hl
  | rpop k n =>
    refine ⟨pop_replay hs hl hfd _ rfl false k n, ?_⟩
    show (Api.pop false p now k n).1.listeners = true
    rw [pop_eq]; exact form_lis (f := (Cmd.pop false k n).form now) (Cmd.ok (.pop false k n) now trivial) hi hl
  | linsert k pv d before =>
    refine ⟨linsert_replay hs hl hfd _ rfl k pv d before hwf, ?_⟩
    show (Api.linsert p now k pv d before).1.listeners = true
    rw [linsert_eq]; exact form_lis (linsertF_ok k pv d before hwf) hi hl
  | lpushX k d =>
    refine ⟨pushX_replay hs hl hfd _ rfl true k d hwf, ?_⟩
    show (Api.pushX true p now k d).1.listeners = true
    rw [pushX_eq]; exact form_lis (pushXF_ok true k d hwf) hi hl
  | rpushX k d =>
    refine ⟨pushX_replay hs hl hfd _ rfl false k d hwf, ?_⟩
    show (Api.pushX false p now k d).1.listeners = true
    rw [pushX_eq]; exact form_lis (pushXF_ok false k d hwf) hi hl
  | lrem k d n =>
    refine ⟨lrem_replay hs hl hfd _ rfl k d n, ?_⟩
    show (Api.lrem p now k d n).1.listeners = true
    rw [show Api.lrem p now k d n = (lremF' k d n).run p now from lrem_eq p now k d n]
    exact form_lis (lremF'_ok k d n) hi hl
  | lset k i d =>
    refine ⟨lset_replay hs hl hfd _ rfl k i d hwf, ?_⟩
    show (Api.lset p now k i d).1.listeners = true
    rw [lset_eq]; exact form_lis (lsetF_ok k i d hwf) hi hl
  | ltrim k a b =>
    refine ⟨ltrim_replay hs hl hfd _ rfl k a b, ?_⟩
    show (Api.ltrim p now k a b).1.listeners = true
    rw [show Api.ltrim p now k a b = (ltrimF' k a b).run p now from ltrim_eq p now k a b]
    exact form_lis (ltrimF'_ok k a b) hi hl
  | hset k f v =>
    refine ⟨hset_replay hs hl hfd _ rfl k f v hwf, ?_⟩
    show (Api.hset p now k f v).1.listeners = true
    rw [hset_eq]; exact form_lis (f := (Cmd.hset k f v).form now) (Cmd.ok (.hset k f v) now hwf) hi hl
  | hdel k fs =>
    refine ⟨hdel_replay hs hl hfd _ rfl k fs, ?_⟩
    show (Api.hdel p now k fs).1.listeners = true
    rw [hdel_eq]; exact form_lis (f := (Cmd.hdel k fs).form now) (Cmd.ok (.hdel k fs) now trivial) hi hl
  | hincrBy k f n =>
    refine ⟨hincrby_replay hs hl hfd _ rfl k f n hwf.1 hwf.2, ?_⟩
    show (Api.hincrby p now k f n).1.listeners = true
    rw [hincrby_eq]; exact form_lis (hincrbyF_ok k f n hwf.1 hwf.2) hi hl
  | hsetNX k f v =>
    refine ⟨hsetnx_replay hs hl hfd _ rfl k f v hwf, ?_⟩
    show (Api.hsetnx p now k f v).1.listeners = true
    rw [hsetnx_eq]; exact form_lis (hsetnxForm_ok k f v hwf) hi hl
  | hmset k pairs =>
    refine ⟨hmset_replay hs hl hfd _ rfl k pairs hwf hreg, ?_⟩
    show (Api.hmset p now k pairs).1.listeners = true
    rw [hmset_eq]; exact form_lis (hmsetF_ok k pairs hwf) hi hl
  | sadd k ms =>
    refine ⟨sadd_replay hs hl hfd _ rfl k ms hwf, ?_⟩
    show (Api.sadd p now k ms).1.listeners = true
    rw [sadd_eq]; exact form_lis (f := (Cmd.sadd k ms).form now) (Cmd.ok (.sadd k ms) now hwf) hi hl
  | srem k ms =>
    refine ⟨srem_replay hs hl hfd _ rfl k ms, ?_⟩
    show (Api.srem p now k ms).1.listeners = true
    rw [srem_eq]; exact form_lis (f := (Cmd.srem k ms).form now) (Cmd.ok (.srem k ms) now trivial) hi hl
  | spop k n choice =>
    refine ⟨spop_replay hs hl hfd _ rfl k n choice, ?_⟩
    show (Api.spop p now k n choice).1.listeners = true
    rw [spop_eq]; exact form_lis (spopF_ok k n choice) hi hl
  | zadd k m sc =>
    refine ⟨zadd_replay hs hl hfd _ rfl k m sc hwf.1 hwf.2, ?_⟩
    show (Api.zadd p now k m sc).1.listeners = true
    rw [zadd_eq]; exact form_lis (f := (Cmd.zadd k m sc).form now) (Cmd.ok (.zadd k m sc) now hwf) hi hl
  | zaddXX k m sc =>
    refine ⟨zaddXX_replay hs hl hfd _ rfl k m sc hwf.1 hwf.2, ?_⟩
    show (Api.zaddXX p now k m sc).1.listeners = true
    rw [zaddXX_eq]; exact form_lis (zaddIfF_ok _ _ _ k m sc hwf.1 hwf.2) hi hl
  | zaddNX k m sc =>
    refine ⟨zaddNX_replay hs hl hfd _ rfl k m sc hwf.1 hwf.2, ?_⟩
    show (Api.zaddNX p now k m sc).1.listeners = true
    rw [zaddNX_eq]; exact form_lis (zaddNXForm_ok k m sc hwf.1 hwf.2) hi hl
  | zaddLT k m sc =>
    refine ⟨zaddLT_replay hs hl hfd _ rfl k m sc hwf.1 hwf.2, ?_⟩
    show (Api.zaddLT p now k m sc).1.listeners = true
    rw [show Api.zaddLT p now k m sc = _ from zaddCmp_eq DsZSet.zAddLT zAddLT_fst p now k m sc]
    exact form_lis (zaddIfF_ok _ _ _ k m sc hwf.1 hwf.2) hi hl
  | zaddGT k m sc =>
    refine ⟨zaddGT_replay hs hl hfd _ rfl k m sc hwf.1 hwf.2, ?_⟩
    show (Api.zaddGT p now k m sc).1.listeners = true
    rw [show Api.zaddGT p now k m sc = _ from zaddCmp_eq DsZSet.zAddGT zAddGT_fst p now k m sc]
    exact form_lis (zaddIfF_ok _ _ _ k m sc hwf.1 hwf.2) hi hl
  | zrem k ms =>
    have h := zrem_main hs hl hfd (Call.zrem k ms).info rfl k ms hreg
    exact ⟨h.1, h.2.1⟩
  | zremRangeByRank k a b =>
    have h := zremRangeByRank_main hs hl hfd (Call.zremRangeByRank k a b).info rfl k a b hreg
    exact ⟨h.1, h.2.1⟩
  | zremRangeByScore k a b mode =>
    have h := zremRangeByScore_main hs hl hfd (Call.zremRangeByScore k a b mode).info rfl k a b mode hreg
    exact ⟨h.1, h.2.1⟩
  | renameNX a b =>
    have h := renameNX_main hs hl hfd (Call.renameNX a b).info rfl a b
    exact ⟨h.1, h.2.1⟩
  | smove src dst m =>
    have h := smove_main hs hl hfd (Call.smove src dst m).info rfl src dst m rfl hwf
    exact ⟨h.1, h.2.1⟩
  | lpopRpush a b =>
    have h := rotate_main true hs hl hfd (Call.lpopRpush a b).info rfl a b
    exact ⟨h.1, h.2.1⟩
  | rpopLpush a b =>
    have h := rotate_main false hs hl hfd (Call.rpopLpush a b).info rfl a b
    exact ⟨h.1, h.2.1⟩
  | sdiffStore dst ks =>
    have h := sstore_main Api.sdiff sdiff_reader hs hl hfd (Call.sdiffStore dst ks).info rfl dst ks
    exact ⟨h.1, h.2.1⟩
  | sinterStore dst ks =>
    have h := sstore_main Api.sinter sinter_reader hs hl hfd (Call.sinterStore dst ks).info rfl dst ks
    exact ⟨h.1, h.2.1⟩
  | sunionStore dst ks =>
    have h := sstore_main Api.sunion sunion_reader hs hl hfd (Call.sunionStore dst ks).info rfl dst ks
    exact ⟨h.1, h.2.1⟩
  | zincrBy k m d =>
    have h := zincrby_main hs hl hfd (Call.zincrBy k m d).info rfl k m d hwf hreg
    exact ⟨h.1, h.2.1⟩
  | hincrByFloat k f d =>
    have h := hincrbyfloat_main hs hl hfd (Call.hincrByFloat k f d).info rfl k f d hwf hreg
    exact ⟨h.1, h.2.1⟩
  | zunionStore dst ks ws agg =>
    have h := zstore_main true hs hl hfd (Call.zunionStore dst ks ws agg).info (Or.inl rfl) dst ks ws agg rfl rfl rfl hreg
    exact ⟨h.1, h.2.1⟩
  | zinterStore dst ks ws agg =>
    have h := zstore_main false hs hl hfd (Call.zinterStore dst ks ws agg).info (Or.inr rfl) dst ks ws agg rfl rfl rfl hreg
    exact ⟨h.1, h.2.1⟩

end NodisVerif.Proofs.C20
