import NodisVerif.Proofs.SkiplistZSet
import NodisVerif.Proofs.SkiplistHeader
/-
  The pointer-level sorted-set operations keep the header node intact (`HeaderOk`: score 0, member "", backward nil),
  and the run theorems of Proofs/SkiplistZSet.lean strengthened by it.
-/
namespace NodisVerif.Skiplist
open NodisVerif.DsZSet (Item nodeLt)
open NodisVerif.Proofs

theorem pzAdd_headerOk {p : PZSet} (h : PZInv p) (hh : HeaderOk p.sl) (m : Bytes) (s : F64) (lvl : Nat)
    (hl1 : 1 ≤ lvl) (hl2 : lvl ≤ maxLevel) (hs : F64.isNaN s = false) (p' : PZSet) (r : Int)
    (hr : pzAdd p m s lvl = .ok (p', r)) : HeaderOk p'.sl := by
  have hd : p.toZSet.dict = p.dict := rfl
  unfold pzAdd at hr
  cases hget : AList.get? p.dict m with
  | none =>
    rw [hget] at hr
    simp only at hr
    have hnot := PZ.absent_of_get_none h.2 m (by rw [hd]; exact hget)
    obtain ⟨sl', he, _, _⟩ := insert_refines h.1 m s lvl hl1 hl2 hs hnot
    have hh' := insert_headerOk h.1 hh m s lvl hl1 hl2 hs hnot sl' he
    simp only [he, bind, Except.bind, pure, Except.pure, Except.ok.injEq, Prod.mk.injEq] at hr
    rw [← hr.1]
    exact hh'
  | some old =>
    rw [hget] at hr
    simp only at hr
    by_cases heq : F64.eq s old = true
    · rw [if_pos heq] at hr
      simp only [pure, Except.pure, Except.ok.injEq, Prod.mk.injEq] at hr
      rw [← hr.1]
      exact hh
    · rw [if_neg heq] at hr
      obtain ⟨sl1, b, he1, hi1, ha1, _⟩ := remove_refines h.1 m old
      have hh1 := remove_headerOk h.1 hh m old sl1 b he1
      have hnot : ∀ x ∈ abs sl1, x.2 ≠ m := by
        rw [ha1]
        exact PZ.absent_after_remove h.2 m old (by rw [hd]; exact hget)
      obtain ⟨sl2, he2, _, _⟩ := insert_refines hi1 m s lvl hl1 hl2 hs hnot
      have hh2 := insert_headerOk hi1 hh1 m s lvl hl1 hl2 hs hnot sl2 he2
      simp only [he1, he2, bind, Except.bind, pure, Except.pure, Except.ok.injEq, Prod.mk.injEq] at hr
      rw [← hr.1]
      exact hh2

theorem pzRemOne_headerOk {acc : PZSet × Int} (h : PZInv acc.1) (hh : HeaderOk acc.1.sl) (m : Bytes)
    (acc' : PZSet × Int) (hr : pzRemOne acc m = .ok acc') : HeaderOk acc'.1.sl := by
  unfold pzRemOne at hr
  cases hget : AList.get? acc.1.dict m with
  | none =>
    rw [hget] at hr
    simp only [pure, Except.pure, Except.ok.injEq] at hr
    rw [← hr]
    exact hh
  | some sc =>
    rw [hget] at hr
    simp only at hr
    obtain ⟨sl1, b, he1, _, _, _⟩ := remove_refines h.1 m sc
    have hh1 := remove_headerOk h.1 hh m sc sl1 b he1
    simp only [he1, bind, Except.bind, pure, Except.pure, Except.ok.injEq] at hr
    rw [← hr]
    exact hh1

theorem pzRemLoop_headerOk : ∀ (ms : List Bytes) {acc : PZSet × Int}, PZInv acc.1 → HeaderOk acc.1.sl →
    ∀ acc', pzRemLoop acc ms = .ok acc' → HeaderOk acc'.1.sl := by
  intro ms
  induction ms with
  | nil =>
    intro acc _ hh acc' hr
    simp only [pzRemLoop, pure, Except.pure, Except.ok.injEq] at hr
    rw [← hr]
    exact hh
  | cons m ms ih =>
    intro acc h hh acc' hr
    obtain ⟨acc1, he1, hi1, _⟩ := pzRemOne_refines h m
    have hh1 := pzRemOne_headerOk h hh m acc1 he1
    simp only [pzRemLoop, he1, bind, Except.bind] at hr
    exact ih hi1 hh1 acc' hr

theorem pzRem_headerOk {p : PZSet} (h : PZInv p) (hh : HeaderOk p.sl) (ms : List Bytes) (p' : PZSet) (r : Int)
    (hr : pzRem p ms = .ok (p', r)) : HeaderOk p'.sl :=
  pzRemLoop_headerOk ms (acc := (p, 0)) h hh (p', r) hr

theorem pzRemRangeByScore_headerOk {p : PZSet} (h : PZInv p) (hh : HeaderOk p.sl) (min max : F64) (mode : Nat)
    (p' : PZSet) (r : Int) (hr : pzRemRangeByScore p min max mode = .ok (p', r)) : HeaderOk p'.sl := by
  obtain ⟨sl', rem, he, _, _⟩ := removeRange_refines_nolimit h.1 min max 0 (Int.le_refl 0) mode
  have hh' := removeRange_headerOk h.1 hh min max 0 mode sl' rem he
  simp only [pzRemRangeByScore, he, bind, Except.bind, pure, Except.pure, Except.ok.injEq, Prod.mk.injEq] at hr
  rw [← hr.1]
  exact hh'

theorem PZ.remByRankCore_headerOk {p : PZSet} (h : Inv p.sl) (hh : HeaderOk p.sl) (s e : Int)
    (p' : PZSet) (r : Int) (hr : PZ.remByRankCore p s e = .ok (p', r)) : HeaderOk p'.sl := by
  unfold PZ.remByRankCore at hr
  by_cases hc : s > e ∨ s ≥ pzCard p
  · rw [if_pos hc] at hr
    simp only [pure, Except.pure, Except.ok.injEq, Prod.mk.injEq] at hr
    rw [← hr.1]
    exact hh
  · rw [if_neg hc] at hr
    obtain ⟨sl', rem, he, _, _⟩ := removeRangeByRank_refines h (s + 1) (e + 1)
    have hh' := removeRangeByRank_headerOk h hh (s + 1) (e + 1) sl' rem he
    simp only [he, bind, Except.bind, pure, Except.pure, Except.ok.injEq, Prod.mk.injEq] at hr
    rw [← hr.1]
    exact hh'

theorem pzRemRangeByRank_headerOk {p : PZSet} (h : PZInv p) (hh : HeaderOk p.sl) (start stop : Int)
    (p' : PZSet) (r : Int) (hr : pzRemRangeByRank p start stop = .ok (p', r)) : HeaderOk p'.sl := by
  rw [PZ.pzRemRangeByRank_core] at hr
  exact PZ.remByRankCore_headerOk h.1 hh _ _ p' r hr

theorem pzStep_headerOk {p : PZSet} (h : PZInv p) (hh : HeaderOk p.sl) (op : PZOp) (hok : PZOpOk op)
    (p' : PZSet) (r : Int) (hr : pzStep p op = .ok (p', r)) : HeaderOk p'.sl := by
  cases op with
  | add m s lvl =>
    obtain ⟨h1, h2, h3⟩ := hok
    exact pzAdd_headerOk h hh m s lvl h1 h2 h3 p' r hr
  | rem ms => exact pzRem_headerOk h hh ms p' r hr
  | remRangeByScore a b mode => exact pzRemRangeByScore_headerOk h hh a b mode p' r hr
  | remRangeByRank a b => exact pzRemRangeByRank_headerOk h hh a b p' r hr
  | rank m desc =>
    simp only [pzStep, pzGetRank_refines h, bind, Except.bind, pure, Except.pure, Except.ok.injEq,
      Prod.mk.injEq] at hr
    rw [← hr.1]
    exact hh

/-- `pz_run_from` with the header: from any state satisfying the invariants no operation panics or runs out of fuel,
    the final state satisfies the skiplist invariant, the sorted-set invariant and has an intact header, and state and
    replies are those of the `DsZSet` run -/
theorem pz_run_from_full : ∀ (ops : List PZOp) {p : PZSet}, PZInv p → HeaderOk p.sl → (∀ op ∈ ops, PZOpOk op) →
    ∃ p' rs, pzRun p ops = .ok (p', rs) ∧ PZInv p' ∧ HeaderOk p'.sl ∧ (p'.toZSet, rs) = zRun p.toZSet ops := by
  intro ops
  induction ops with
  | nil => intro p h hh _; exact ⟨p, [], rfl, h, hh, rfl⟩
  | cons op ops ih =>
    intro p h hh hok
    obtain ⟨p1, r, he1, hi1, ha1⟩ := pzStep_refines h op (hok op (by simp))
    have hh1 := pzStep_headerOk h hh op (hok op (by simp)) p1 r he1
    obtain ⟨p2, rs, he2, hi2, hh2, ha2⟩ := ih hi1 hh1 (fun o ho => hok o (by simp [ho]))
    refine ⟨p2, r :: rs, ?_, hi2, hh2, ?_⟩
    · simp [pzRun, he1, he2, bind, Except.bind, pure, Except.pure]
    · have e1 : (zStep p.toZSet op).1 = p1.toZSet := by rw [← ha1]
      have e2 : (zStep p.toZSet op).2 = r := by rw [← ha1]
      simp only [zRun, e1, e2, ← ha2]

theorem pzEmpty_headerOk : HeaderOk PZSet.empty.sl := makeSkiplist_headerOk

/-- from `NewSortedSet()` -/
theorem pz_run_full (ops : List PZOp) (hok : ∀ op ∈ ops, PZOpOk op) :
    ∃ p rs, pzRun PZSet.empty ops = .ok (p, rs) ∧ Inv p.sl ∧ C04.Inv p.toZSet ∧ HeaderOk p.sl ∧
      (p.toZSet, rs) = zRun DsZSet.empty ops := by
  obtain ⟨p, rs, he, hi, hh, ha⟩ := pz_run_from_full ops pzInv_empty pzEmpty_headerOk hok
  rw [toZSet_empty] at ha
  exact ⟨p, rs, he, hi.1, hi.2, hh, ha⟩

/-- every intermediate state of such a run -/
theorem pz_run_full_prefix (ops : List PZOp) (hok : ∀ op ∈ ops, PZOpOk op) (k : Nat) :
    ∃ p rs, pzRun PZSet.empty (ops.take k) = .ok (p, rs) ∧ Inv p.sl ∧ C04.Inv p.toZSet ∧ HeaderOk p.sl ∧
      (p.toZSet, rs) = zRun DsZSet.empty (ops.take k) :=
  pz_run_full (ops.take k) (fun op ho => hok op (List.mem_of_mem_take ho))

end NodisVerif.Skiplist
