import NodisVerif.Proofs.C20Hash
/-
  C20, hashes: HMSet (one HSET record per field).
-/
namespace NodisVerif.Proofs.C20
open NodisVerif NodisVerif.Store NodisVerif.Spec.Persist NodisVerif.Proofs.C11

variable {now : Int} {p r : MState}

def hmsetFold (h : AList Bytes) (pairs : List (Bytes × Bytes)) : AList Bytes × Int :=
  pairs.foldl (fun (acc : AList Bytes × Int) (kv : Bytes × Bytes) =>
    ((DsHash.hset acc.1 kv.1 kv.2).1, acc.2 + (DsHash.hset acc.1 kv.1 kv.2).2)) (h, 0)

def hsetAll (h : AList Bytes) (pairs : List (Bytes × Bytes)) : AList Bytes :=
  pairs.foldl (fun h q => AList.set h q.1 q.2) h

theorem hmsetFold_fst (pairs : List (Bytes × Bytes)) : ∀ (h : AList Bytes) (c : Int),
    (pairs.foldl (fun (acc : AList Bytes × Int) (kv : Bytes × Bytes) =>
      ((DsHash.hset acc.1 kv.1 kv.2).1, acc.2 + (DsHash.hset acc.1 kv.1 kv.2).2)) (h, c)).1 = hsetAll h pairs := by
  induction pairs with
  | nil => intro h c; rfl
  | cons q rest ih => intro h c; simp only [List.foldl_cons, hsetAll]; rw [ih]; rfl

def decHmset (key : Bytes) (pairs : List (Bytes × Bytes)) (v : Val) (_ : Int) : Act :=
  match v with
  | .hash h =>
    .put (some (.hash (hmsetFold h pairs).1)) none (pairs.map fun q => opHSet key q.1 q.2) (.int (hmsetFold h pairs).2)
  | _ => .keep .panic

def hmsetF (key : Bytes) (pairs : List (Bytes × Bytes)) : TxForm :=
  ⟨true, some (.hash []), .unit, Cmd.pan, decHmset key pairs, key⟩

theorem hmset_eq (s : MState) (now : Int) (key : Bytes) (pairs : List (Bytes × Bytes)) :
    Api.hmset s now key pairs = (hmsetF key pairs).run s now := by
  refine Eq.trans ?_ (create_shape s now key _ _ _ _ (fun s1 => match Api.asHash s1 key with
    | none => (s1, .panic)
    | some h =>
      (pairs.foldl (fun s (q : Bytes × Bytes) => emit s (opHSet key q.1 q.2))
        (signal (Api.setVal s1 key (.hash (hmsetFold h pairs).1)) key), .int (hmsetFold h pairs).2)) ?_)
  · rfl
  · intro s1; simp only [Api.asHash]
    cases valOf s1 key with
    | none => rfl
    | some v =>
      cases v <;> try rfl
      rename_i h
      simp only [hmsetF, decHmset, runAct, optSetVal, optSetExp, emits, List.foldl_map]

theorem good_hsetAll (pairs : List (Bytes × Bytes)) (hb : ∀ q ∈ pairs, q.1.length + q.2.length + 10 < 2 ^ 63) :
    ∀ h, Good (.hash h) → Good (.hash (hsetAll h pairs)) := by
  induction pairs with
  | nil => intro h hg; exact hg
  | cons q rest ih =>
    intro h hg
    simp only [hsetAll, List.foldl_cons]
    exact ih (fun q' hq' => hb q' (List.mem_cons_of_mem _ hq')) _ (good_hset h q.1 q.2 hg (hb q (by simp)))

theorem hmsetF_ok (key : Bytes) (pairs : List (Bytes × Bytes))
    (hb : ∀ q ∈ pairs, q.1.length + q.2.length + 10 < 2 ^ 63) : (hmsetF key pairs).OK := by
  refine ⟨(fun h => nomatch h), (fun w h => by cases h; exact good_emptyHash), fun w e hg _ => ?_⟩
  cases w with
  | hash h =>
    refine ⟨(fun w hw => ?_), (fun _ he => nomatch he)⟩
    cases hw
    show Good (.hash (hmsetFold h pairs).1)
    rw [show (hmsetFold h pairs).1 = hsetAll h pairs from hmsetFold_fst pairs h 0]
    exact good_hsetAll pairs hb h hg
  | _ => trivial

theorem hmsetF_nilSafe (key : Bytes) (pairs : List (Bytes × Bytes)) : (hmsetF key pairs).NilSafe := by
  apply nilSafe_of
  · intro v e hv; cases v <;> simp_all [hmsetF, decHmset]
  · intro v0 h0
    simp only [hmsetF, Option.some.injEq] at h0
    subst h0
    simp [hmsetF, decHmset]

/-- the replica applies the HSET records one after the other -/
theorem replays_hsets (k : Bytes) : ∀ (pairs : List (Bytes × Bytes)),
    (∀ q ∈ pairs, q.1.length + q.2.length + 10 < 2 ^ 63) → ∀ (r : MState) (h : AList Bytes) (e : Int),
    StoreInv r now → lookup r now k = some (.hash h, e) →
    Replays r now (pairs.map fun q => opHSet k q.1 q.2)
      (upd (lookup r now) k (some (.hash (hsetAll h pairs), e))) := by
  intro pairs
  induction pairs with
  | nil =>
    intro _ r h e hi hL
    have := Replays.nil hi
    refine this.congr ?_
    show lookup r now = upd (lookup r now) k (some (.hash h, e))
    rw [← hL, upd_self]
  | cons q rest ih =>
    intro hb r h e hi hL
    simp only [List.map_cons]
    refine Replays.cons (g := hsetF now k q.1 q.2) hi (Cmd.ok (.hset k q.1 q.2) now (hb q (by simp))) (applyOp_hset r now k q.1 q.2) ?_
    intro r1 i1 l1
    have hpost : (hsetF now k q.1 q.2).post now (lookup r now k) = some (.hash (AList.set h q.1 q.2), e) := by
      rw [hsetF_post k q.1 q.2 (live_lookup r now k), hL]; rfl
    have hL1 : lookup r1 now k = some (.hash (AList.set h q.1 q.2), e) := by
      rw [l1 k, hsetF_key, upd_same, hpost]
    have := ih (fun q' hq' => hb q' (List.mem_cons_of_mem _ hq')) r1 _ e i1 hL1
    refine this.congr ?_
    funext k'
    by_cases hk : k' = k
    · subst hk; simp [upd, hsetAll]
    · rw [upd_other _ _ _ hk, upd_other _ _ _ hk, l1 k', hsetF_key, upd_other _ _ _ hk]

/-- HMSET with no fields on a missing key creates an empty hash and emits nothing: finding region -/
def HMSetCreatesEmpty (L : Option (Val × Int)) (pairs : List (Bytes × Bytes)) : Prop := L = none ∧ pairs = []

instance (L : Option (Val × Int)) (pairs : List (Bytes × Bytes)) : Decidable (HMSetCreatesEmpty L pairs) := by
  unfold HMSetCreatesEmpty; exact inferInstance

theorem hmset_replay (hs : Same now p r) (hl : p.listeners = true) (hfd : p.feed = [])
    (c : Feed.CallInfo) (hc : plainMethod c.method = true) (k : Bytes) (pairs : List (Bytes × Bytes))
    (hb : ∀ q ∈ pairs, q.1.length + q.2.length + 10 < 2 ^ 63)
    (hcov : ¬ HMSetCreatesEmpty (lookup p now k) pairs) :
    Replay now r c (Api.hmset p now k pairs) := by
  rw [hmset_eq]
  refine main_form hs hl hfd (hmsetF k pairs) (hmsetF_ok k pairs hb) (Feed.emission c)
    (fun hn e => post_nonil (hmsetF_nilSafe k pairs) now _ (fun e0 => hn k e0) e) ?_
  intro r0 hi hn hK
  rw [emission_plain hc]
  show Replays r0 now ((hmsetF k pairs).ops (lookup r0 now k)) (upd (lookup r0 now) k ((hmsetF k pairs).post now (lookup r0 now k)))
  have hlive := live_lookup r0 now k
  cases hL : lookup r0 now k with
  | none =>
    cases pairs with
    | nil => exact absurd ⟨by rw [← hK k]; exact hL, rfl⟩ hcov
    | cons q rest =>
      have hops : (hmsetF k (q :: rest)).ops none = opHSet k q.1 q.2 :: rest.map fun q => opHSet k q.1 q.2 := by
        simp [TxForm.ops, hmsetF, decHmset, Act.ops]
      have hpost : (hmsetF k (q :: rest)).post now none = some (.hash (hsetAll [] (q :: rest)), 0) := by
        simp [TxForm.post, TxForm.spec, txSpec, hmsetF, decHmset, Act.eff, filt_zero]
        exact hmsetFold_fst (q :: rest) [] 0
      rw [hops, hpost]
      refine Replays.cons (g := hsetF now k q.1 q.2) hi (Cmd.ok (.hset k q.1 q.2) now (hb q (by simp))) (applyOp_hset r0 now k q.1 q.2) ?_
      intro r1 i1 l1
      have hL1 : lookup r1 now k = some (.hash (AList.set [] q.1 q.2), 0) := by
        rw [l1 k, hsetF_key, upd_same, hsetF_post k q.1 q.2 (live_lookup r0 now k), hL]; rfl
      have := replays_hsets k rest (fun q' hq' => hb q' (List.mem_cons_of_mem _ hq')) r1 _ 0 i1 hL1
      refine this.congr ?_
      funext k'
      by_cases hk : k' = k
      · subst hk; simp [upd, hsetAll]
      · rw [upd_other _ _ _ hk, upd_other _ _ _ hk, l1 k', hsetF_key, upd_other _ _ _ hk]
  | some cc =>
    obtain ⟨w, e⟩ := cc
    rw [hL] at hlive
    have hl0 := hlive w e rfl
    cases w with
    | hash h =>
      have hops : (hmsetF k pairs).ops (some (.hash h, e)) = pairs.map fun q => opHSet k q.1 q.2 := by
        simp [TxForm.ops, hmsetF, decHmset, Act.ops]
      have hpost : (hmsetF k pairs).post now (some (.hash h, e)) = some (.hash (hsetAll h pairs), e) := by
        simp [TxForm.post, TxForm.spec, txSpec, hmsetF, decHmset, Act.eff, hl0]
        exact hmsetFold_fst pairs h 0
      rw [hops, hpost]
      have := replays_hsets k pairs hb r0 h e hi hL
      exact this
    | _ =>
      all_goals
        rw [show (hmsetF k pairs).ops (some (_, e)) = [] from rfl,
          show (hmsetF k pairs).post now (some (_, e)) = some (_, e) from rfl, ← hL, upd_self]
        exact Replays.nil hi

end NodisVerif.Proofs.C20
