import NodisVerif.Proofs.RespWriter
/-
  Every exported method of redis/resp.go's Writer refines the abstract buffered writer
  (Spec/RespWriterSpec.lean): `step_refines`.
-/
namespace NodisVerif.Proofs.RespWriter
open NodisVerif.RespWriter NodisVerif.Spec.RespWriterSpec

/-! ### the Write* methods -/

theorem writeString_ok (s : Writer) (x : Bytes) (h : WriterInv s) :
    ∃ s', writeString s x = .ok s' ∧ Wrote s s' (line 43 x) := writeLine_ok s 43 x h

theorem writeArray_ok (s : Writer) (n : Int) (h : WriterInv s) :
    ∃ s', writeArray s n = .ok s' ∧ Wrote s s' (line 42 (formatInt n)) := writeLine_ok s 42 _ h

theorem writeInt64_ok (s : Writer) (n : Int) (h : WriterInv s) :
    ∃ s', writeInt64 s n = .ok s' ∧ Wrote s s' (line 58 (formatInt n)) := writeLine_ok s 58 _ h

theorem writeUInt64_ok (s : Writer) (n : Nat) (h : WriterInv s) :
    ∃ s', writeUInt64 s n = .ok s' ∧ Wrote s s' (line 58 (natDigits n)) := writeLine_ok s 58 _ h

theorem writeMap_ok (s : Writer) (n : Int) (h : WriterInv s) :
    ∃ s', writeMap s n = .ok s' ∧ Wrote s s' (line 37 (formatInt n)) := writeLine_ok s 37 _ h

theorem writeBulk_ok (s : Writer) (b : Bytes) (h : WriterInv s) :
    ∃ s', writeBulk s b = .ok s' ∧ Wrote s s' (Spec.RespEnc.encodeBulk b) := by
  obtain ⟨s1, e1, w1⟩ := writeLine_ok s 36 (formatInt b.length) h
  obtain ⟨s2, e2, w2⟩ := writeBytes_ok s1 b w1.inv
  obtain ⟨s3, e3, w3⟩ := writeBytes_ok s2 RespWriter.crlf w2.inv
  refine ⟨s3, ?_, ?_⟩
  · have e1' : writeLine s BulkType (formatInt b.length) = .ok s1 := e1
    simp only [writeBulk, e1', Res.bind, e2, e3]
  · have := (w1.trans w2).trans w3
    simpa [line, Spec.RespEnc.encodeBulk, Spec.RespEnc.crlf, Spec.RespWriterSpec.crlf, RespWriter.crlf] using this

/-- `WriteError`: the flag is raised, then the line is written -/
theorem writeError_ok (s : Writer) (e : Bytes) (h : WriterInv s) :
    ∃ s', writeError s e = .ok s' ∧ Wrote { s with err := true } s' (line 45 e) := by
  obtain ⟨buf, w, err, sink⟩ := s
  exact writeLine_ok ⟨buf, w, true, sink⟩ 45 e h

theorem writeDouble_ok (s : Writer) (x : F64) (txt : Bytes) (ht : FloatText.formatFloat x = some txt) (h : WriterInv s) :
    ∃ s', writeDouble s x = .ok s' ∧ Wrote s s' (line 44 txt) := by
  obtain ⟨s', e, w⟩ := writeLine_ok s 44 txt h
  refine ⟨s', ?_, w⟩
  have e' : writeLine s DoubleType txt = .ok s' := e
  simp only [writeDouble, ht, e']

theorem writeDouble_outside (s : Writer) (x : F64) (ht : FloatText.formatFloat x = none) : writeDouble s x = .outside := by
  simp only [writeDouble, ht]

/-! ### abs after a write -/

theorem abs_of_wrote {s s' : Writer} {bs : Bytes} (w : Wrote s s' bs) :
    abs s' = { delivered := (abs s).delivered, pending := (abs s).pending ++ bs, err := s.err } := by
  have hp := w.pending
  have hs := w.sink
  have he := w.err
  simp only [abs] at hp ⊢
  rw [hp, hs, he]

/-- the outcome of a call that refines the abstract step to (a', r) -/
def Refines (s : Writer) (c : Call) (a' : AW) (r : Reply) : Prop :=
  ∃ s', step s c = .ok (s', r) ∧ abs s' = a' ∧ WriterInv s' ∧ s.buf.size ≤ s'.buf.size ∧
    s'.buf.size ≤ max s.buf.size (defaultSize + 2 * s'.w)

theorem refines_of_wrote {s s' : Writer} {c : Call} {bs : Bytes} (e : step s c = .ok (s', .unit))
    (w : Wrote s s' bs) (hne : isError c = false) :
    Refines s c { delivered := (abs s).delivered, pending := (abs s).pending ++ bs, err := (abs s).err || isError c } .unit := by
  refine ⟨s', e, ?_, w.inv, w.mono, w.bound⟩
  rw [abs_of_wrote w, hne]; simp [abs]

/-! ### Flush, Bytes -/

theorem flush_ok_none (s : Writer) (h : WriterInv s) :
    Refines s (.flush none) { delivered := (abs s).delivered ++ (abs s).pending, pending := [], err := false }
      (.flushed (abs s).pending false) := by
  obtain ⟨buf, w, err, sink⟩ := s
  simp only [WriterInv] at h
  refine ⟨⟨buf, 0, false, sink ++ buf.extract 0 w⟩, ?_, ?_, ?_, Nat.le_refl _, Nat.le_max_left _ _⟩
  · simp only [step, flush, h, if_true, Res.bind]
    simp [abs, Array.toList_extract]
  · simp [abs, Array.toList_extract]
  · simp [WriterInv]

theorem flush_ok_some (s : Writer) (k : Nat) (h : WriterInv s) :
    Refines s (.flush (some k)) { abs s with delivered := (abs s).delivered ++ (abs s).pending.take k }
      (.flushed ((abs s).pending.take k) true) := by
  obtain ⟨buf, w, err, sink⟩ := s
  simp only [WriterInv] at h
  refine ⟨⟨buf, w, err, sink ++ buf.extract 0 (min k w)⟩, ?_, ?_, h, Nat.le_refl _, Nat.le_max_left _ _⟩
  · simp only [step, flush, h, if_true, Res.bind]
    simp [abs, Array.toList_extract, List.take_take]
    omega
  · simp [abs, Array.toList_extract, List.take_take]

theorem bytes_ok (s : Writer) (h : WriterInv s) : Refines s .bytes (abs s) (.bytes (abs s).pending) := by
  refine ⟨s, ?_, rfl, h, Nat.le_refl _, Nat.le_max_left _ _⟩
  simp only [WriterInv] at h
  simp [step, bytes, h, Res.bind, abs, Array.toList_extract]

/-! ### every call -/

/-- the implementation's step refines the abstract writer's step, keeps the invariant, never panics;
    it leaves the model exactly when the abstract step does (float text) -/
theorem step_refines (s : Writer) (c : Call) (h : WriterInv s) :
    match AW.step (abs s) c with
    | none => step s c = .outside
    | some (a', r) => Refines s c a' r := by
  cases c with
  | string x =>
    obtain ⟨s', e, w⟩ := writeString_ok s x h
    exact refines_of_wrote (by simp only [step, e, RespWriter.unit, Res.bind]) w rfl
  | bulk b =>
    obtain ⟨s', e, w⟩ := writeBulk_ok s b h
    exact refines_of_wrote (by simp only [step, e, RespWriter.unit, Res.bind]) w rfl
  | bulkNull =>
    obtain ⟨s', e, w⟩ := writeBytes_ok s (Bytes.ofString "$-1\r\n") h
    exact refines_of_wrote (by simp only [step, writeBulkNull, e, RespWriter.unit, Res.bind]) w rfl
  | array n =>
    obtain ⟨s', e, w⟩ := writeArray_ok s n h
    exact refines_of_wrote (by simp only [step, e, RespWriter.unit, Res.bind]) w rfl
  | arrayNull =>
    obtain ⟨s', e, w⟩ := writeBytes_ok s (Bytes.ofString "*-1\r\n") h
    exact refines_of_wrote (by simp only [step, writeArrayNull, e, RespWriter.unit, Res.bind]) w rfl
  | error x =>
    obtain ⟨s', e, w⟩ := writeError_ok s x h
    refine ⟨s', by simp only [step, e, RespWriter.unit, Res.bind], ?_, w.inv, w.mono, w.bound⟩
    rw [abs_of_wrote w]; simp [abs, isError]
  | int64 v =>
    obtain ⟨s', e, w⟩ := writeInt64_ok s v h
    exact refines_of_wrote (by simp only [step, e, RespWriter.unit, Res.bind]) w rfl
  | uint64 v =>
    obtain ⟨s', e, w⟩ := writeUInt64_ok s v h
    exact refines_of_wrote (by simp only [step, e, RespWriter.unit, Res.bind]) w rfl
  | double x =>
    cases ht : FloatText.formatFloat x with
    | none =>
      simp only [AW.step, encode, ht, Option.map_none]
      simp only [step, writeDouble_outside s x ht, RespWriter.unit, Res.bind]
    | some txt =>
      obtain ⟨s', e, w⟩ := writeDouble_ok s x txt ht h
      simp only [AW.step, encode, ht, Option.map_some]
      exact refines_of_wrote (by simp only [step, e, RespWriter.unit, Res.bind]) w rfl
  | map n =>
    obtain ⟨s', e, w⟩ := writeMap_ok s n h
    exact refines_of_wrote (by simp only [step, e, RespWriter.unit, Res.bind]) w rfl
  | nullMap =>
    obtain ⟨s', e, w⟩ := writeBytes_ok s (Bytes.ofString "%-1\r\n") h
    exact refines_of_wrote (by simp only [step, writeNullMap, e, RespWriter.unit, Res.bind]) w rfl
  | ok =>
    obtain ⟨s', e, w⟩ := writeBytes_ok s (Bytes.ofString "+OK\r\n") h
    exact refines_of_wrote (by simp only [step, writeOK, e, RespWriter.unit, Res.bind]) w rfl
  | flush fail =>
    cases fail with
    | none => exact flush_ok_none s h
    | some k => exact flush_ok_some s k h
  | bytes => exact bytes_ok s h
  | hasError => exact ⟨s, rfl, rfl, h, Nat.le_refl _, Nat.le_max_left _ _⟩

end NodisVerif.Proofs.RespWriter
