import NodisVerif.Proofs.C20Rotate
/-
  C20, SDiffStore / SInterStore / SUnionStore: compute (read-only), DEL destination, SADD destination
  members.  The records are the DEL and the SADD; the replica does not recompute.
-/
namespace NodisVerif.Proofs.C20
open NodisVerif NodisVerif.Store NodisVerif.Spec.Persist NodisVerif.Proofs.C11

variable {now : Int} {p r : MState}

/-! ### reading keeps everything -/

/-- the state after some reading: invariant, logical keyspace and feed as before -/
structure Kept (now : Int) (s s' : MState) : Prop where
  inv : StoreInv s' now
  look : ∀ k, lookup s' now k = lookup s now k
  fl : fl s' = fl s

theorem Kept.refl {s : MState} (h : StoreInv s now) : Kept now s s := ⟨h, fun _ => rfl, rfl⟩

theorem Kept.trans {s s' s'' : MState} (a : Kept now s s') (b : Kept now s' s'') : Kept now s s'' :=
  ⟨b.inv, fun k => (b.look k).trans (a.look k), b.fl.trans a.fl⟩

theorem readKey_kept {s : MState} (h : StoreInv s now) (k : Bytes) : Kept now s (readKey s now k).1 := by
  have ks := readKey_spec h (Int.le_refl now) k
  refine ⟨ks.inv, fun k' => ?_, fl_readKey s now k⟩
  by_cases hk : k' = k
  · subst hk
    cases hL : lookup s now k' with
    | none => have := (ks.miss hL rfl).2 now (Int.le_refl _); rw [this, hL]
    | some c => have := (ks.hit c.1 c.2 hL).2.1 now (Int.le_refl _); rw [this, hL]
  · exact ks.other now (Int.le_refl _) k' hk

theorem asSet_good {s : MState} (h : StoreInv s now) {k : Bytes} {st : AList Unit} (ha : Api.asSet s k = some st) :
    Good (.set st) := by
  unfold Api.asSet valOf at ha
  cases hm : getMeta s k with
  | none => simp [hm] at ha
  | some m =>
    simp only [hm, Option.bind_some] at ha
    cases hv : m.value with
    | none => simp [hv] at ha
    | some v =>
      rw [hv] at ha
      cases v <;> simp at ha
      subst ha
      exact (h.recs k m hm).good _ hv

def SmallSet (st : AList Unit) : Prop := ∀ m ∈ DsSet.members st, m.length < 2 ^ 63

theorem small_of_good {st : AList Unit} (h : Good (.set st)) : SmallSet st := by
  intro m hm
  simp only [DsSet.members, AList.keys, List.mem_map] at hm
  obtain ⟨q, hq, rfl⟩ := hm
  exact h.2 q hq

/-- the sets collected by `readMany` -/
def AllSmall (l : List (Option (Option (AList Unit)))) : Prop := ∀ st, some (some st) ∈ l → SmallSet st

theorem readMany_kept (keys : List Bytes) : ∀ (s : MState) (acc : List (Option (Option (AList Unit)))),
    StoreInv s now → AllSmall acc →
    Kept now s (keys.foldl (fun (acc : MState × List (Option (Option (AList Unit)))) k =>
        ((readKey acc.1 now k).1, acc.2 ++ [if (readKey acc.1 now k).2 then some (Api.asSet (readKey acc.1 now k).1 k) else none]))
        (s, acc)).1 ∧
    AllSmall (keys.foldl (fun (acc : MState × List (Option (Option (AList Unit)))) k =>
        ((readKey acc.1 now k).1, acc.2 ++ [if (readKey acc.1 now k).2 then some (Api.asSet (readKey acc.1 now k).1 k) else none]))
        (s, acc)).2 := by
  induction keys with
  | nil => intro s acc h ha; exact ⟨Kept.refl h, ha⟩
  | cons k rest ih =>
    intro s acc h ha
    simp only [List.foldl_cons]
    have k1 := readKey_kept h k
    have ha' : AllSmall (acc ++ [if (readKey s now k).2 then some (Api.asSet (readKey s now k).1 k) else none]) := by
      intro st hst
      rcases List.mem_append.mp hst with h1 | h1
      · exact ha st h1
      · simp only [List.mem_cons, List.not_mem_nil, or_false] at h1
        split at h1
        · simp only [Option.some.injEq] at h1
          exact small_of_good (asSet_good k1.inv h1.symm)
        · cases h1
    obtain ⟨a, b⟩ := ih _ _ k1.inv ha'
    exact ⟨k1.trans a, b⟩

theorem readMany_eq (s : MState) (now : Int) (keys : List Bytes) :
    Api.readMany s now keys = keys.foldl (fun (acc : MState × List (Option (Option (AList Unit)))) k =>
        ((readKey acc.1 now k).1, acc.2 ++ [if (readKey acc.1 now k).2 then some (Api.asSet (readKey acc.1 now k).1 k) else none]))
        (s, []) := by
  unfold Api.readMany
  congr 1

theorem readMany_spec {s : MState} (h : StoreInv s now) (keys : List Bytes) :
    Kept now s (Api.readMany s now keys).1 ∧ AllSmall (Api.readMany s now keys).2 := by
  rw [readMany_eq]
  exact readMany_kept keys s [] h (fun _ hc => nomatch hc)

/-- a read-only set computation: keeps everything, and the members it reports have representable length -/
def SetReader (op : MState → Int → List Bytes → Api.R) : Prop :=
  ∀ (s : MState) (now : Int) (keys : List Bytes), StoreInv s now →
    Kept now s (op s now keys).1 ∧ ∀ ms, (op s now keys).2 = .slist ms → ∀ m ∈ ms, m.length < 2 ^ 63

theorem small_filterMap {others : List (Option (Option (AList Unit)))} (h : AllSmall others) :
    ∀ o ∈ others.filterMap (fun o => match o with | some (some x) => some x | _ => none), SmallSet o := by
  intro o ho
  simp only [List.mem_filterMap] at ho
  obtain ⟨q, hq, hqo⟩ := ho
  split at hqo
  · simp only [Option.some.injEq] at hqo; subst hqo; exact h _ hq
  · cases hqo

theorem sdiff_reader : SetReader Api.sdiff := by
  intro s now keys h
  unfold Api.sdiff
  cases keys with
  | nil => exact ⟨Kept.refl h, fun ms hms m hm => by simp at hms; subst hms; cases hm⟩
  | cons k0 rest =>
    simp only
    have k1 := readKey_kept h k0
    generalize readKey s now k0 = q at k1
    obtain ⟨s1, ok⟩ := q
    simp only at k1 ⊢
    cases ok with
    | false => exact ⟨k1, fun ms hms m hm => by simp at hms; subst hms; cases hm⟩
    | true =>
      simp only [Bool.not_true, Bool.false_eq_true, if_false]
      obtain ⟨k2, sm⟩ := readMany_spec k1.inv rest
      generalize Api.readMany s1 now rest = q2 at k2 sm
      obtain ⟨s2, others⟩ := q2
      simp only at k2 sm ⊢
      cases ha : Api.asSet s2 k0 with
      | none => exact ⟨k1.trans k2, fun ms hms => by simp at hms⟩
      | some st =>
        simp only
        split
        · exact ⟨k1.trans k2, fun ms hms => by simp at hms⟩
        · refine ⟨k1.trans k2, fun ms hms m hm => ?_⟩
          simp only [Out.slist.injEq] at hms
          subst hms
          exact small_of_good (asSet_good k2.inv ha) m (List.mem_filter.mp hm).1

theorem smembers_reader (s : MState) (now : Int) (k : Bytes) (h : StoreInv s now) :
    Kept now s (Api.smembers s now k).1 ∧ ∀ ms, (Api.smembers s now k).2 = .slist ms → ∀ m ∈ ms, m.length < 2 ^ 63 := by
  unfold Api.smembers Api.sread
  have k1 := readKey_kept h k
  generalize readKey s now k = q at k1
  obtain ⟨s1, ok⟩ := q
  simp only at k1 ⊢
  cases ok with
  | false => exact ⟨k1, fun ms hms m hm => by simp at hms; subst hms; cases hm⟩
  | true =>
    simp only [Bool.not_true, Bool.false_eq_true, if_false]
    cases ha : Api.asSet s1 k with
    | none => exact ⟨k1, fun ms hms => by simp at hms⟩
    | some st =>
      refine ⟨k1, fun ms hms m hm => ?_⟩
      simp only [Out.slist.injEq] at hms
      subst hms
      exact small_of_good (asSet_good k1.inv ha) m hm

theorem sinter_go_kept (ks : List Bytes) : ∀ (s : MState) (acc : List (AList Unit)), StoreInv s now →
    Kept now s (Api.sinter.go now ks s acc).1 := by
  induction ks with
  | nil => intro s acc h; exact Kept.refl h
  | cons k more ih =>
    intro s acc h
    rw [Api.sinter.go]
    have k1 := readKey_kept h k
    generalize readKey s now k = q at k1
    obtain ⟨s1, ok⟩ := q
    simp only at k1 ⊢
    cases ok with
    | false => exact k1
    | true =>
      simp only [Bool.not_true, Bool.false_eq_true, if_false]
      cases Api.asSet s1 k with
      | none => exact k1
      | some x => exact k1.trans (ih s1 _ k1.inv)

theorem sinter_reader : SetReader Api.sinter := by
  intro s now keys h
  unfold Api.sinter
  match keys with
  | [] => exact ⟨Kept.refl h, fun ms hms m hm => by simp at hms; subst hms; cases hm⟩
  | [k] => exact smembers_reader s now k h
  | k0 :: k1 :: rest =>
    simp only
    have kk := readKey_kept h k0
    generalize readKey s now k0 = q at kk
    obtain ⟨s1, ok⟩ := q
    simp only at kk ⊢
    cases ok with
    | false => exact ⟨kk, fun ms hms m hm => by simp at hms; subst hms; cases hm⟩
    | true =>
      simp only [Bool.not_true, Bool.false_eq_true, if_false]
      have k2 := sinter_go_kept (now := now) (k1 :: rest) s1 [] kk.inv
      generalize Api.sinter.go now (k1 :: rest) s1 [] = q2 at k2
      obtain ⟨s2, res⟩ := q2
      simp only at k2 ⊢
      match res with
      | none => exact ⟨kk.trans k2, fun ms hms => by simp at hms⟩
      | some none => exact ⟨kk.trans k2, fun ms hms m hm => by simp at hms; subst hms; cases hm⟩
      | some (some os) =>
        simp only
        cases ha : Api.asSet s2 k0 with
        | none => exact ⟨kk.trans k2, fun ms hms => by simp at hms⟩
        | some st =>
          refine ⟨kk.trans k2, fun ms hms m hm => ?_⟩
          simp only [Out.slist.injEq] at hms
          subst hms
          exact small_of_good (asSet_good k2.inv ha) m (List.mem_filter.mp hm).1

theorem dedup_mem (extra : List Bytes) : ∀ (acc : List Bytes) (m : Bytes),
    m ∈ extra.foldl (fun acc m => if acc.contains m then acc else acc ++ [m]) acc → m ∈ acc ∨ m ∈ extra := by
  induction extra with
  | nil => intro acc m h; left; exact h
  | cons a rest ih =>
    intro acc m h
    simp only [List.foldl_cons] at h
    rcases ih _ m h with h1 | h1
    · split at h1
      · left; exact h1
      · rcases List.mem_append.mp h1 with h2 | h2
        · left; exact h2
        · right; simp at h2; simp [h2]
    · right; exact List.mem_cons_of_mem _ h1

theorem sunion_small (st : AList Unit) (rest : List (AList Unit)) (h0 : SmallSet st) (hr : ∀ o ∈ rest, SmallSet o) :
    ∀ m ∈ DsSet.sunion st rest, m.length < 2 ^ 63 := by
  intro m hm
  unfold DsSet.sunion at hm
  rcases List.mem_append.mp hm with h1 | h1
  · exact h0 m h1
  · rcases dedup_mem _ [] m h1 with h2 | h2
    · cases h2
    · simp only [List.mem_flatMap] at h2
      obtain ⟨o, ho, hmo⟩ := h2
      exact hr o ho m (List.mem_filter.mp hmo).1

theorem sunion_reader : SetReader Api.sunion := by
  intro s now keys h
  unfold Api.sunion
  match keys with
  | [] => exact ⟨Kept.refl h, fun ms hms m hm => by simp at hms; subst hms; cases hm⟩
  | [k] => exact smembers_reader s now k h
  | k0 :: k1 :: rest =>
    simp only
    obtain ⟨k2, sm⟩ := readMany_spec h (k0 :: k1 :: rest)
    generalize Api.readMany s now (k0 :: k1 :: rest) = q2 at k2 sm
    obtain ⟨s2, all⟩ := q2
    simp only at k2 sm ⊢
    split
    · exact ⟨k2, fun ms hms => by simp at hms⟩
    · have hsm := small_filterMap sm
      generalize List.filterMap (fun o => match o with | some (some x) => some x | _ => none) all = os at hsm
      match os with
      | [] => exact ⟨k2, fun ms hms m hm => by simp at hms; subst hms; cases hm⟩
      | st :: more =>
        refine ⟨k2, fun ms hms m hm => ?_⟩
        simp only [Out.slist.injEq] at hms
        subst hms
        exact sunion_small st more (hsm st (by simp)) (fun o ho => hsm o (by simp [ho])) m hm

end NodisVerif.Proofs.C20

namespace NodisVerif.Proofs.C20
open NodisVerif NodisVerif.Store NodisVerif.Spec.Persist NodisVerif.Proofs.C11

variable {now : Int} {p r : MState}

theorem Same.kept {p' : MState} (hs : Same now p r) (k : Kept now p p') : Same now p' r :=
  Same.of_look k.inv hs.invR (fun k' => by rw [hs.look k', k.look k'])
    (fun k' e => by rw [k.look k']; exact hs.nonil k' e)

/-- all records the transaction can emit name its key -/
def KeyedFormS (f : TxForm) : Prop := ∀ v e, ∀ op ∈ Act.ops (f.dec v e), op.key = f.key

/-- one self-replaying key transaction on a primary whose feed need not be drained -/
theorem selfForm_step (hs : Same now p r) (hl : p.listeners = true) (f : TxForm) (hf : f.OK) (hns : f.NilSafe)
    (hop : ∀ L, SelfOp now f L) :
    ∃ ops r', fl (f.run p now).1 = (ops.reverse ++ p.feed, true) ∧ Feed.applyAll r now ops = some r' ∧
      Same now (f.run p now).1 r' ∧ ∀ op ∈ ops, op ∈ f.ops (lookup p now f.key) := by
  obtain ⟨r', a, b⟩ := oneOp_tx hs f _ (f.txspec hf hs.invP (Int.le_refl now)) (fun _ raw => raw) hns (by
    intro L _ _
    unfold OneOp
    rcases hop L with h | ⟨op, h3, h4⟩
    · left; exact h
    · right; exact ⟨op, f, h3, hf, rfl, h4, rfl⟩)
  exact ⟨_, r', form_feed hf hs.invP hl, a, b, fun _ h => h⟩

theorem sstore_main (op : MState → Int → List Bytes → Api.R) (hop : SetReader op)
    (hs : Same now p r) (hl : p.listeners = true) (hfd : p.feed = [])
    (c : Feed.CallInfo) (hc : plainMethod c.method = true) (dst : Bytes) (keys : List Bytes) :
    Replay now r c (Api.sstore op p now dst keys) ∧ (Api.sstore op p now dst keys).1.listeners = true ∧
    ∀ o ∈ (Api.sstore op p now dst keys).1.feed.reverse, o.key = dst := by
  unfold Replay
  rw [emission_plain hc]
  unfold Api.sstore
  split
  · exact ⟨⟨r, by simp [hfd, Feed.applyAll], hs⟩, hl, fun o ho => by rw [hfd] at ho; cases ho⟩
  · obtain ⟨kept, small⟩ := hop p now keys hs.invP
    generalize op p now keys = q at kept small
    obtain ⟨s1, o⟩ := q
    simp only at kept small
    have hs1 : Same now s1 r := hs.kept kept
    have hl1 : s1.listeners = true := (congrArg Prod.snd kept.fl).trans hl
    have hf1 : s1.feed = [] := (congrArg Prod.fst kept.fl).trans hfd
    have other : (∃ r', Feed.applyAll r now s1.feed.reverse = some r' ∧ Same now s1 r') ∧ s1.listeners = true ∧
        ∀ o ∈ s1.feed.reverse, o.key = dst :=
      ⟨⟨r, by simp [hf1, Feed.applyAll], hs1⟩, hl1, fun o ho => by rw [hf1] at ho; cases ho⟩
    cases o with
    | slist ms =>
      simp only
      -- DEL destination
      have hs1c : Same now (Api.commit s1) r := Same.commit hs1
      obtain ⟨ops1, r1, f1, a1, s2, k1⟩ := del_fold (now := now) [dst] (Api.commit s1) r 0 hs1c hl1
      rw [del_eq]
      simp only
      have hl2 : ([dst].foldl (delStep now) (Api.commit s1, 0)).1.listeners = true := congrArg Prod.snd f1
      have hf2 : ([dst].foldl (delStep now) (Api.commit s1, 0)).1.feed = ops1.reverse := by
        have : ([dst].foldl (delStep now) (Api.commit s1, 0)).1.feed = ops1.reverse ++ (Api.commit s1).feed :=
          congrArg Prod.fst f1
        rw [this]; show ops1.reverse ++ s1.feed = _; rw [hf1]; simp
      have hk1 : ∀ o ∈ ops1, o.key = dst := fun o ho => by have := k1 o ho; simpa using this
      split
      · refine ⟨⟨r1, ?_, s2⟩, hl2, fun o ho => ?_⟩
        · rw [hf2, List.reverse_reverse]; exact a1
        · rw [hf2, List.reverse_reverse] at ho; exact hk1 o ho
      · -- SADD destination members
        rename_i hne
        have hms : ∀ m ∈ ms, m.length < 2 ^ 63 := small ms rfl
        rw [sadd_eq]
        obtain ⟨ops2, r2, f3, a2, s3, k2⟩ := selfForm_step (Same.commit s2) hl2 (saddF now dst ms)
          (Cmd.ok (.sadd dst ms) now hms) (Cmd.nilSafe (.sadd dst ms) now trivial) (fun L => saddF_selfOp dst ms L)
        have hf3 : ((saddF now dst ms).run (Api.commit ([dst].foldl (delStep now) (Api.commit s1, 0)).1) now).1.feed =
            ops2.reverse ++ ops1.reverse := by
          have : ((saddF now dst ms).run (Api.commit ([dst].foldl (delStep now) (Api.commit s1, 0)).1) now).1.feed =
              ops2.reverse ++ (Api.commit ([dst].foldl (delStep now) (Api.commit s1, 0)).1).feed :=
            congrArg Prod.fst f3
          rw [this]
          show ops2.reverse ++ ([dst].foldl (delStep now) (Api.commit s1, 0)).1.feed = _
          rw [hf2]
        refine ⟨⟨r2, ?_, s3⟩, congrArg Prod.snd f3, fun o ho => ?_⟩
        · show Feed.applyAll r now ((saddF now dst ms).run _ now).1.feed.reverse = some r2
          rw [hf3]
          simp only [List.reverse_append, List.reverse_reverse]
          rw [applyAll_append, a1]; exact a2
        · have ho' : o ∈ ((saddF now dst ms).run (Api.commit ([dst].foldl (delStep now) (Api.commit s1, 0)).1) now).1.feed.reverse := ho
          rw [hf3] at ho'
          simp only [List.reverse_append, List.reverse_reverse, List.mem_append] at ho'
          rcases ho' with h1 | h1
          · exact hk1 o h1
          · have := k2 o h1
            have hkd : KeyedFormS (saddF now dst ms) := fun v e op hop => by
              cases v <;> simp [saddF, Cmd.form, decSadd, Act.ops] at hop
              subst hop; rfl
            unfold TxForm.ops at this
            split at this
            · exact hkd _ _ o this
            · exact hkd _ _ o this
            · cases this
    | _ => exact other

end NodisVerif.Proofs.C20
