import NodisVerif.Proofs.ProtoWireMsg
/-
  C20 / wire encoding: what Unmarshal RETURNS. Every value it stores is one Marshal accepts: `string`
  fields (and the elements of repeated strings) are valid UTF-8, int64 values are in range. Hence a
  record that came out of DecodeOp never makes Encode fail (a replica can ship it on).
-/
namespace NodisVerif.Proofs.ProtoWire
open NodisVerif Varint Codec NodisVerif.ProtoWire

/-- field-wise `PVal.ok` (no length bounds) -/
def okVals : Schema → List PVal → Bool
  | [], [] => true
  | (_, k) :: sch, v :: vs => v.ok k && okVals sch vs
  | _, _ => false

theorem shift_lt (b s : Nat) (n : Nat) (hb : b < 2 ^ n) : b <<< s < 2 ^ (s + n) := by
  rw [Nat.shiftLeft_eq, Nat.pow_add, Nat.mul_comm]
  exact Nat.mul_lt_mul_of_pos_left hb (Nat.two_pow_pos s)

theorem uvarintAux_val_lt (b : Bytes) : ∀ (i x : Nat), i ≤ 10 → x < 2 ^ (7 * i) →
    (uvarintAux b i (7 * i) x).1 < 2 ^ 64 := by
  induction b with
  | nil => intro i x _ _; simp [uvarintAux]
  | cons a rest ih =>
    intro i x hi hx
    unfold uvarintAux
    split
    · simp
    · rename_i h10
      split
      · rename_i ha
        split
        · simp
        · rename_i h9
          have hat : a.toNat < 128 := by
            have := UInt8.lt_iff_toNat_lt.mp ha
            simpa using this
          show x ||| a.toNat <<< (7 * i) < 2 ^ 64
          by_cases hi9 : i = 9
          · subst hi9
            have ha1 : a.toNat ≤ 1 := by
              apply Classical.byContradiction
              intro hc
              apply h9
              refine ⟨rfl, ?_⟩
              show (1 : UInt8) < a
              rw [UInt8.lt_iff_toNat_lt]
              simp only [UInt8.toNat_one] at *
              omega
            have h1 : a.toNat <<< (7 * 9) < 2 ^ (7 * 9 + 1) := shift_lt _ _ 1 (by omega)
            have h2 : x < 2 ^ 64 := Nat.lt_of_lt_of_le hx (Nat.pow_le_pow_right (by omega) (by omega))
            exact Nat.or_lt_two_pow h2 (by simpa using h1)
          · have hi8 : i ≤ 8 := by omega
            have h1 : a.toNat <<< (7 * i) < 2 ^ (7 * i + 7) := shift_lt _ _ 7 (by omega)
            have hle : 2 ^ (7 * i + 7) ≤ 2 ^ 64 := Nat.pow_le_pow_right (by omega) (by omega)
            have h2 : x < 2 ^ 64 :=
              Nat.lt_of_lt_of_le hx (Nat.pow_le_pow_right (by omega) (by omega))
            exact Nat.or_lt_two_pow h2 (Nat.lt_of_lt_of_le h1 hle)
      · have hi9 : i ≤ 9 := by omega
        have e : 7 * i + 7 = 7 * (i + 1) := by omega
        rw [e]
        apply ih (i + 1) _ (by omega)
        have h1 : (a.toNat % 128) <<< (7 * i) < 2 ^ (7 * i + 7) := shift_lt _ _ 7 (by omega)
        rw [← e]
        exact Nat.or_lt_two_pow
          (Nat.lt_of_lt_of_le hx (Nat.pow_le_pow_right (by omega) (by omega))) h1

theorem consumeVarint_val_lt {b rest : Bytes} {v : Nat} (h : consumeVarint b = some (v, rest)) :
    v < 2 ^ 64 := by
  unfold consumeVarint at h
  split at h
  · cases h
  · simp only [Option.some.injEq, Prod.mk.injEq] at h
    rw [← h.1]
    have := uvarintAux_val_lt b 0 0 (by omega) (by simp)
    simpa [uvarint] using this

theorem ofU64_inInt64 (u : Nat) (h : u < 2 ^ 64) : inInt64 (ofU64 u) = true := by
  unfold inInt64 int64Min int64Max ofU64 two64
  split <;> (apply decide_eq_true; omega)

theorem consumeField_ok {k : Kind} {cur v : PVal} {wt : Nat} {b rest : Bytes}
    (hc : cur.ok k = true) (h : consumeField k cur wt b = .ok v rest) : v.ok k = true := by
  cases k <;> simp only [consumeField] at h <;> (repeat' split at h) <;>
    first
    | (cases h; done)
    | (injection h with h1 h2; subst h1
       first
       | (simp only [PVal.ok]; assumption)
       | (simp only [PVal.ok]; done)
       | (simp only [PVal.ok]; exact ofU64_inInt64 _ (consumeVarint_val_lt ‹_›))
       | (cases cur <;> simp only [PVal.ok, Bool.false_eq_true] at hc
          simp only [PVal.ok, PVal.asList, List.all_append, hc, List.all_cons, List.all_nil, Bool.and_true,
            Bool.true_and]
          assumption))

theorem stepField_ok : ∀ (sch : Schema) (vals : List PVal) {num wt : Nat} {b rest : Bytes} {vals' : List PVal},
    okVals sch vals = true → stepField sch vals num wt b = .ok vals' rest → okVals sch vals' = true := by
  intro sch
  induction sch with
  | nil => intro vals num wt b rest vals' _ h; simp [stepField] at h
  | cons e sch ih =>
    intro vals num wt b rest vals' hok h
    obtain ⟨no, k⟩ := e
    cases vals with
    | nil => simp [stepField] at h
    | cons v vs =>
      simp only [okVals, Bool.and_eq_true] at hok
      simp only [stepField] at h
      split at h
      · split at h
        · rename_i hc
          injection h with h1 h2; subst h1
          simp only [okVals, Bool.and_eq_true]
          exact ⟨consumeField_ok hok.1 hc, hok.2⟩
        · cases h
        · cases h
      · split at h
        · rename_i hc
          injection h with h1 h2; subst h1
          simp only [okVals, Bool.and_eq_true]
          exact ⟨hok.1, ih vs hok.2 hc⟩
        · cases h
        · cases h

theorem step_ok {sch : Schema} {b rest : Bytes} {m m' : Msg} (hok : okVals sch m.vals = true)
    (h : step sch b m = some (m', rest)) : okVals sch m'.vals = true := by
  unfold step at h
  split at h
  · cases h
  · simp only at h
    split at h
    · cases h
    · split at h
      · cases h
      · split at h
        · rename_i hs
          injection h with h; injection h with h1 h2; subst h1
          exact stepField_ok _ _ hok hs
        · cases h
        · split at h
          · cases h
          · injection h with h; injection h with h1 h2; subst h1
            exact hok

theorem decodeLoop_ok (sch : Schema) : ∀ (fuel : Nat) (b : Bytes) (m m' : Msg),
    okVals sch m.vals = true → decodeLoop sch fuel b m = some m' → okVals sch m'.vals = true := by
  intro fuel
  induction fuel with
  | zero =>
    intro b m m' hok h
    cases b with
    | nil => simp only [decodeLoop, Option.some.injEq] at h; subst h; exact hok
    | cons _ _ => simp [decodeLoop] at h
  | succ fuel ih =>
    intro b m m' hok h
    cases b with
    | nil => simp only [decodeLoop, Option.some.injEq] at h; subst h; exact hok
    | cons x xs =>
      simp only [decodeLoop] at h
      split at h
      · cases h
      · rename_i m1 rest hs
        exact ih rest m1 m' (step_ok hok hs) h

theorem defaults_ok : ∀ (sch : Schema), okVals sch (defaults sch) = true := by
  intro sch
  induction sch with
  | nil => rfl
  | cons e sch ih =>
    obtain ⟨no, k⟩ := e
    show ((k.default).ok k && okVals sch (defaults sch)) = true
    rw [ih]
    cases k <;> rfl

theorem unmarshal_ok {sch : Schema} {b : Bytes} {m : Msg} (h : unmarshal sch b = some m) :
    okVals sch m.vals = true :=
  decodeLoop_ok sch _ b _ m (defaults_ok sch) h

theorem encField_noerr {no : Nat} {k : Kind} {v : PVal} (h : v.ok k = true) : (encField no k v).2 = false := by
  cases k <;> cases v <;> simp only [PVal.ok, Bool.false_eq_true] at h <;> simp only [encField]
  · split
    · rfl
    · simp [h]
  · split <;> rfl
  · split <;> rfl
  · split <;> rfl
  · split <;> rfl
  · rw [encStrs_valid _ _ (by simpa using h)]
  · split <;> rfl

theorem marshal_noerr : ∀ (sch : Schema) (vs : List PVal), okVals sch vs = true → (marshal sch vs).2 = false := by
  intro sch
  induction sch with
  | nil => intro vs _; cases vs <;> rfl
  | cons e sch ih =>
    intro vs h
    obtain ⟨no, k⟩ := e
    cases vs with
    | nil => rfl
    | cons v vs =>
      simp only [okVals, Bool.and_eq_true] at h
      simp only [marshal, encField_noerr h.1, Bool.false_eq_true, if_false]
      exact ih vs h.2

/-- what DecodeOp returns never makes Encode fail -/
theorem decodeOp_encodable {b : Bytes} {op : Op} (h : decodeOp b = .ok op) : encodeFails op = false := by
  unfold decodeOp at h
  split at h
  · cases h
  · rename_i t body
    split at h
    · cases h
    · rename_i sch hs
      split at h
      · cases h
      · rename_i m hm
        injection h with h; subst h
        simp only [encodeFails, hs, marshalMsg, marshal_noerr sch m.vals (unmarshal_ok hm), Bool.false_eq_true,
          if_false]

theorem decodeOp_okVals {b : Bytes} {op : Op} (h : decodeOp b = .ok op) :
    ∃ sch, schemaOf op.typ.toNat = some sch ∧ okVals sch op.msg.vals = true := by
  unfold decodeOp at h
  split at h
  · cases h
  · rename_i t body
    split at h
    · cases h
    · rename_i sch hs
      split at h
      · cases h
      · rename_i m hm
        injection h with h; subst h
        exact ⟨sch, hs, unmarshal_ok hm⟩

end NodisVerif.Proofs.ProtoWire
