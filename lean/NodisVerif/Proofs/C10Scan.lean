import NodisVerif.Proofs.C10Base
/-
  C10 helper lemmas, part 9: SCAN returns only unexpired names (its cursor arithmetic, however,
  counts expired records that are still indexed).
-/
namespace NodisVerif.Proofs.C10
open NodisVerif Store

theorem scan_go_sound (now : Int) (pat : Bytes) (typ : Nat) :
    ∀ (ents : List (Bytes × Meta)) (s : MState) (cursor iter count : Int) (acc : List Bytes) (k : Bytes),
      k ∈ (Api.scan.go now pat typ ents s cursor iter count acc).2.2 →
      k ∈ acc ∨ ∃ m, (k, m) ∈ ents ∧ m.expired now = false ∧ Glob.matched pat k = true := by
  intro ents
  induction ents with
  | nil =>
    intro s cursor iter count acc k h
    unfold Api.scan.go at h
    exact Or.inl (by simpa using h)
  | cons e rest ih =>
    obtain ⟨key, m⟩ := e
    intro s cursor iter count acc k h
    unfold Api.scan.go at h
    simp only at h
    have lift : ∀ {s' c i n a}, k ∈ (Api.scan.go now pat typ rest s' c i n a).2.2 → a = acc →
        k ∈ acc ∨ ∃ m', (k, m') ∈ (key, m) :: rest ∧ m'.expired now = false ∧ Glob.matched pat k = true := by
      intro s' c i n a hk ha
      subst ha
      rcases ih _ _ _ _ _ _ hk with h1 | ⟨m', h1, h2⟩
      · exact Or.inl h1
      · exact Or.inr ⟨m', List.mem_cons_of_mem _ h1, h2⟩
    split at h
    · exact lift h rfl
    · split at h
      · exact Or.inl (by simpa using h)
      · split at h
        · rename_i hc
          have aux : ∀ (p : MState × Nat),
              k ∈ (if typ ≠ 0 ∧ p.2 ≠ typ then
                    Api.scan.go now pat typ rest p.1 (wrap64 (cursor - 1)) (iter + 1) (wrap64 (count - 1)) acc
                  else Api.scan.go now pat typ rest p.1 (wrap64 (cursor - 1)) (iter + 1) (wrap64 (count - 1))
                    (key :: acc)).2.2 →
              k ∈ acc ∨ ∃ m', (k, m') ∈ (key, m) :: rest ∧ m'.expired now = false ∧ Glob.matched pat k = true := by
            intro p hp
            split at hp
            · exact lift hp rfl
            · rcases ih _ _ _ _ _ _ hp with h1 | ⟨m', h1, h2⟩
              · rcases List.mem_cons.mp h1 with h1 | h1
                · subst h1
                  simp only [Bool.and_eq_true, Bool.not_eq_true'] at hc
                  exact Or.inr ⟨m, List.mem_cons_self, hc.2, hc.1⟩
                · exact Or.inl h1
              · exact Or.inr ⟨m', List.mem_cons_of_mem _ h1, h2⟩
          exact aux _ h
        · exact lift h rfl

/-- every name in a SCAN reply is indexed, unexpired at `now`, and matches the pattern -/
theorem scan_sound (s : MState) (now cursor : Int) (pat : Bytes) (count : Int) (typ : Nat) (n : Int)
    (ks : List Bytes) (h : (Api.scan s now cursor pat count typ).2 = .many [.int n, .slist ks]) :
    ∀ k ∈ ks, ∃ m, (k, m) ∈ s.index ∧ m.expired now = false ∧ Glob.matched pat k = true := by
  unfold Api.scan at h
  simp only at h
  split at h
  · simp only [Out.many.injEq, List.cons.injEq, Out.slist.injEq, and_true] at h
    intro k hk; rw [← h.2] at hk; cases hk
  · split at h
    · simp only [Out.many.injEq, List.cons.injEq, Out.slist.injEq, and_true] at h
      intro k hk; rw [← h.2] at hk; cases hk
    · simp only [Out.many.injEq, List.cons.injEq, Out.slist.injEq, and_true] at h
      intro k hk
      rw [← h.2] at hk
      rcases scan_go_sound now pat typ _ _ _ _ _ _ k hk with h1 | h1
      · cases h1
      · exact h1

end NodisVerif.Proofs.C10
