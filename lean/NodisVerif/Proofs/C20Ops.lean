import NodisVerif.Proofs.C20Core
/-
  C20: what the replica does with one record (`Feed.applyOp`), as key transactions, with the
  content they leave in closed form.  Strings and keyspace records: SET (25), DEL (2), EXPIREAT (3),
  PERSIST (33).
-/
namespace NodisVerif.Proofs.C20
open NodisVerif NodisVerif.Store NodisVerif.Spec.Persist NodisVerif.Proofs.C11

/-! ### closed forms -/

/-- content of a key after `SET v` (keepTTL = `keep`) -/
def setPost (v : Bytes) (keep : Bool) : Option (Val × Int) → Option (Val × Int)
  | none => some (.str v, 0)
  | some (.str _, e0) => some (.str v, if keep then e0 else 0)
  | some (.strNil, e0) => some (.str v, if keep then e0 else 0)
  | some c => some c

/-- content of a key after its deadline is set to `ts`, seen at `now` -/
def expirePost (now ts : Int) : Option (Val × Int) → Option (Val × Int)
  | none => none
  | some (v, _) => filt (v, ts) now

/-- `L` is what a lookup at `now` returned: not past its deadline -/
def Live (now : Int) (L : Option (Val × Int)) : Prop :=
  ∀ v e, L = some (v, e) → ∀ v', filt (v', e) now = some (v', e)

theorem live_lookup (s : MState) (now : Int) (k : Bytes) : Live now (lookup s now k) :=
  fun _ _ h v' => lookup_filt h v'

theorem live_none (now : Int) : Live now none := fun _ _ h => nomatch h
theorem live_zero (now : Int) (v : Val) : Live now (some (v, 0)) := by
  intro v1 e h v'; cases h; exact filt_zero _ _

def setF (now : Int) (k v : Bytes) (keep : Bool) : TxForm := (Cmd.set k v keep).form now
def expireAtF (now : Int) (k : Bytes) (ts : Int) : TxForm := (Cmd.expireAt k ts).form now
def persistF (now : Int) (k : Bytes) : TxForm := (Cmd.persist k).form now

@[simp] theorem setF_key (now : Int) (k v : Bytes) (keep : Bool) : (setF now k v keep).key = k := rfl
@[simp] theorem expireAtF_key (now : Int) (k : Bytes) (ts : Int) : (expireAtF now k ts).key = k := rfl
@[simp] theorem persistF_key (now : Int) (k : Bytes) : (persistF now k).key = k := rfl

theorem setF_ok (now : Int) (k v : Bytes) (keep : Bool) : (setF now k v keep).OK := Cmd.ok _ now trivial
theorem expireAtF_ok (now : Int) (k : Bytes) (ts : Int) (h : inInt64 ts = true) : (expireAtF now k ts).OK :=
  Cmd.ok (.expireAt k ts) now h
theorem persistF_ok (now : Int) (k : Bytes) : (persistF now k).OK := Cmd.ok (.persist k) now trivial

theorem setF_post {now : Int} (k v : Bytes) (keep : Bool) {L : Option (Val × Int)} (hL : Live now L) :
    (setF now k v keep).post now L = setPost v keep L := by
  cases L with
  | none => cases keep <;> simp [setF, TxForm.post, TxForm.spec, txSpec, Cmd.form, decSet, decStrWrite, Act.eff, setPost, filt]
  | some c =>
    obtain ⟨w, e0⟩ := c
    have hl := hL w e0 rfl
    cases w <;> cases keep <;>
      simp [setF, TxForm.post, TxForm.spec, txSpec, Cmd.form, decSet, decStrWrite, Act.eff, setPost, hl, filt_zero]

theorem setPost_live {now : Int} (v : Bytes) (keep : Bool) {L : Option (Val × Int)} (hL : Live now L) :
    Live now (setPost v keep L) := by
  cases L with
  | none => exact live_zero _ _
  | some c =>
    obtain ⟨w, e0⟩ := c
    have hl := hL w e0 rfl
    intro v1 e h v'
    cases w <;> cases keep <;> simp only [setPost, Option.some.injEq, Prod.mk.injEq, if_true, Bool.false_eq_true, if_false] at h <;>
      obtain ⟨_, rfl⟩ := h <;> first | exact hl v' | exact filt_zero _ _

theorem expireAtF_post {now : Int} (k : Bytes) (ts : Int) (L : Option (Val × Int)) :
    (expireAtF now k ts).post now L = expirePost now ts L := by
  cases L with
  | none => simp [expireAtF, TxForm.post, TxForm.spec, txSpec, Cmd.form, expirePost]
  | some c =>
    obtain ⟨w, e0⟩ := c
    simp [expireAtF, TxForm.post, TxForm.spec, txSpec, Cmd.form, decExpire, Act.eff, expirePost]

/-- content after a SET record with deadline field `e` -/
def setRecPost (now : Int) (v : Bytes) (keep : Bool) (e : Int) (L : Option (Val × Int)) : Option (Val × Int) :=
  if e = 0 then setPost v keep L else expirePost now e (setPost v keep L)

theorem applyOp_set (r : MState) (now : Int) (k v : Bytes) (keep : Bool) (e : Int) :
    Feed.applyOp r now (Api.opSet k v keep e) =
      if e = 0 then some ((setF now k v keep).run r now).1
      else some ((expireAtF now k e).run ((setF now k v keep).run r now).1 now).1 := by
  have h1 : ∀ s, Api.set s now k v keep = (setF now k v keep).run s now :=
    fun s => Cmd.run_eq (.set k v keep) now trivial (fun _ _ h => nomatch h) s
  have h2 : ∀ s, Api.expireAt s now k e = (expireAtF now k e).run s now := fun s => expireAt_eq s now k e
  simp [Feed.applyOp, Api.opSet, pB_toHex, pT_toString, h1, h2]

/-- a SET record -/
theorem replays_set {r : MState} {now : Int} (h : StoreInv r now) (k v : Bytes) (keep : Bool) (e : Int)
    (he : inInt64 e = true) :
    Replays r now [Api.opSet k v keep e] (upd (lookup r now) k (setRecPost now v keep e (lookup r now k))) := by
  have hL := live_lookup r now k
  by_cases h0 : e = 0
  · have hap : Feed.applyOp r now (Api.opSet k v keep e) = some ((setF now k v keep).run r now).1 := by
      rw [applyOp_set]; simp [h0]
    refine (Replays.one h (setF_ok now k v keep) hap).congr ?_
    rw [setF_key, setF_post k v keep hL]; simp [setRecPost, h0]
  · obtain ⟨i1, l1⟩ := form_step (setF_ok now k v keep) h
    obtain ⟨i2, l2⟩ := form_step (expireAtF_ok now k e he) i1
    refine ⟨_, ?_, i2, ?_⟩
    · simp only [Feed.applyAll, applyOp_set, h0, if_false, Option.bind_eq_bind, Option.bind_some]
    · intro k'
      rw [l2 k']
      rw [expireAtF_key, l1 k, setF_key, upd_same, expireAtF_post, setF_post k v keep hL]
      by_cases hkk : k' = k
      · subst hkk; simp [upd, setRecPost, h0]
      · rw [upd_other _ _ _ hkk, upd_other _ _ _ hkk, l1 k', setF_key, upd_other _ _ _ hkk]

/-! ### EXPIREAT, PERSIST, DEL records -/

theorem replays_expireAt {r : MState} {now : Int} (h : StoreInv r now) (k : Bytes) (ts : Int)
    (he : inInt64 ts = true) :
    Replays r now [Api.opExpire k ts] (upd (lookup r now) k (expirePost now ts (lookup r now k))) := by
  have hap : Feed.applyOp r now (Api.opExpire k ts) = some ((expireAtF now k ts).run r now).1 := by
    have h2 : ∀ s, Api.expireAt s now k ts = (expireAtF now k ts).run s now := fun s => expireAt_eq s now k ts
    simp [Feed.applyOp, Api.opExpire, h2]
  refine (Replays.one h (expireAtF_ok now k ts he) hap).congr ?_
  rw [expireAtF_key, expireAtF_post]

def persistPost : Option (Val × Int) → Option (Val × Int)
  | none => none
  | some (v, _) => some (v, 0)

theorem persistF_post {now : Int} (k : Bytes) {L : Option (Val × Int)} (hL : Live now L) :
    (persistF now k).post now L = persistPost L := by
  cases L with
  | none => simp [persistF, TxForm.post, TxForm.spec, txSpec, Cmd.form, persistPost]
  | some c =>
    obtain ⟨w, e0⟩ := c
    have hl := hL w e0 rfl
    by_cases h0 : e0 = 0
    · subst h0; simp [persistF, TxForm.post, TxForm.spec, txSpec, Cmd.form, decPersist, Act.eff, persistPost]
    · simp [persistF, TxForm.post, TxForm.spec, txSpec, Cmd.form, decPersist, Act.eff, persistPost, h0, filt]

theorem replays_persist {r : MState} {now : Int} (h : StoreInv r now) (k : Bytes) :
    Replays r now [{ typ := 33, key := k }] (upd (lookup r now) k (persistPost (lookup r now k))) := by
  have hap : Feed.applyOp r now { typ := 33, key := k } = some ((persistF now k).run r now).1 := by
    have h2 : ∀ s, Api.persist s now k = (persistF now k).run s now := fun s => apiPersist_eq s now k
    simp [Feed.applyOp, h2]
  refine (Replays.one h (persistF_ok now k) hap).congr ?_
  rw [persistF_key, persistF_post k (live_lookup r now k)]

/-- DEL of one name -/
theorem del1_spec {s : MState} {now : Int} (h : StoreInv s now) (k : Bytes) :
    StoreInv (Api.del s now [k]).1 now ∧ ∀ k', lookup (Api.del s now [k]).1 now k' = upd (lookup s now) k none k' := by
  rw [del_eq]
  simp only [List.foldl_cons, List.foldl_nil]
  obtain ⟨i1, _, _, l1⟩ := delStep_spec (acc := (s, 0)) h (Int.le_refl now) k
  refine ⟨i1, fun k' => ?_⟩
  rw [l1 now (Int.le_refl _) k']
  simp only [applyEff, upd]
  cases hL : lookup s now k with
  | none =>
    simp only [Option.isSome_none, Bool.false_eq_true, if_false]
    by_cases hk : k' = k
    · subst hk; simp [hL]
    · simp [hk]
  | some c => simp

theorem replays_del {r : MState} {now : Int} (h : StoreInv r now) (k : Bytes) :
    Replays r now [{ typ := 2, key := k }] (upd (lookup r now) k none) := by
  obtain ⟨i1, l1⟩ := del1_spec h k
  exact ⟨_, by simp [Feed.applyAll, Feed.applyOp], i1, l1⟩

end NodisVerif.Proofs.C20
