import NodisVerif.Proofs.TxProgInv
/-
  Program model of tx.go: every protocol event is emitted while the thread holds the lock that makes the reported
  step atomic (the assumption "read off the hook lines" of DESIGN.md §3, as a theorem about the program model);
  mutual exclusion and lock order directly on program states.
-/
namespace NodisVerif.Proofs.TxProg
open NodisVerif.Proto (Key Rec Mode Ev Hold TxSt PState assoc erase put Tx)
open NodisVerif.TxProg
open NodisVerif.Proofs.Proto

/-- the lock under which an event is reported: `store.mu` shared for the two lookups, `store.mu` exclusive for
    the four updates of index / pending, the record's own mutex for lock / unlock / trylock; begin, wait, commit
    and fin are steps of the thread alone -/
def InCS (s : Shared) (t : Tid) : Ev → Prop
  | .look _ _ _ | .valid _ _ _ _ => t ∈ s.smu.readers
  | .claim _ _ _ _ | .publish _ _ _ | .unlink _ _ _ | .drop _ _ _ => s.smu.writer = some t
  | .lock _ _ r m => owns (s.mu r) t m
  | .unlock _ r => ∃ m, owns (s.mu r) t m
  | .trylock _ _ r => owns (s.mu r) t .w
  | _ => True

theorem events_in_cs {c c' : Cfg} {p : PState} {t : Tid} {ch : Choice} {ev : Ev} (hst : Strong c p)
    (h : TxProg.step c t ch = some (c', some ev)) : InCS c.sh t ev := by
  unfold TxProg.step at h
  split at h
  · cases h
  · rename_i s l e hts
    cases h
    have hsf := hst.sf t
    have hi := hst.sim.thr t
    cases hpc : (c.loc t).pc <;> simp only [tstep, hpc] at hts
    all_goals try ((repeat' split at hts) <;> cases hts <;> done)
    case init => (repeat' split at hts) <;> cases hts <;> trivial
    case a2 => cases hts; exact hsf.r (by simp [hpc, inR])
    case a5 => (repeat' split at hts) <;> cases hts <;> exact hsf.w (by simp [hpc, inW])
    case a7 => cases hts; trivial
    case a9 => cases hts; exact (hi.ext ((c.loc t).m, modeOf (c.loc t).write) (by simp [extra, hpc])).1
    case a11 => cases hts; exact hsf.r (by simp [hpc, inR])
    case a13 =>
      cases hts
      exact ⟨_, hi.own ⟨(c.loc t).m, (c.loc t).key, modeOf (c.loc t).write, false⟩ (by simp [holdsOf, hpc])⟩
    case n3 => (repeat' split at hts) <;> cases hts; exact hsf.w (by simp [hpc, inW])
    case d2 => (repeat' split at hts) <;> cases hts; exact hsf.w (by simp [hpc, inW])
    case d3 => (repeat' split at hts) <;> cases hts; exact hsf.w (by simp [hpc, inW])
    case c0 => cases hts; trivial
    case c2 => cases hts; exact ⟨_, hi.own (c.loc t).cur (by simp [holdsOf, hpc])⟩
    case c4 => cases hts; exact ⟨_, hi.own (c.loc t).cur (by simp [holdsOf, hpc])⟩
    case c7 => cases hts; exact (hi.ext ((c.loc t).cur.rid, .w) (by simp [extra, hpc])).1
    case c9 => (repeat' split at hts) <;> cases hts; exact hsf.w (by simp [hpc, inW])
    case c11 => cases hts; exact ⟨_, hi.own (c.loc t).cur (by simp [holdsOf, hpc])⟩
    case cend => cases hts; trivial
    case g1 => cases hts; trivial
    case g3 => cases hts; exact (hi.ext ((c.loc t).m, .w) (by simp [extra, hpc])).1
    case g5 => cases hts; exact hsf.r (by simp [hpc, inR])
    case g8 => cases hts; exact hsf.w (by simp [hpc, inW])
    case g10 => cases hts; trivial
    case g11 =>
      cases hts
      exact ⟨_, hi.own ⟨(c.loc t).m, (c.loc t).key, .w, (c.loc t).okcur⟩ (by simp [holdsOf, hpc])⟩
    case g13 => cases hts; trivial

/-- `store.mu` is exclusive: two threads inside `s.mu.Lock()` sections are the same thread, and nobody is
    inside an `RLock` section at the same time -/
theorem smu_exclusive {c : Cfg} {p : PState} (hst : Strong c p) {t u : Tid} (ht : inW (c.loc t).pc = true) :
    (inW (c.loc u).pc = true → u = t) ∧ (inR (c.loc u).pc = false) := by
  have hw := (hst.sf t).w ht
  constructor
  · intro hu
    have := (hst.sf u).w hu
    rw [hw] at this; exact (Option.some.inj this).symm
  · cases hx : inR (c.loc u).pc with
    | false => rfl
    | true =>
      have := (hst.sf u).r hx
      rw [hst.swf (by simp [hw])] at this; cases this

/-- mutual exclusion on record data, at the level of the mutexes: if `t` has a write hold on record `r` (validated
    or not) then no other thread has any hold on `r`, and no other thread owns `r`'s mutex outside its holds -/
theorem prog_mutex {c : Cfg} {p : PState} (hs : Sim c p) {t u : Tid} {g g' : Hold} (hne : u ≠ t)
    (hg : g ∈ holdsOf (c.loc t)) (hw : g.mode = .w) (hg' : g' ∈ holdsOf (c.loc u)) : g'.rid ≠ g.rid := by
  intro e
  have a := (hs.thr t).own g hg
  have b := (hs.thr u).own g' hg'
  rw [e] at b
  exact hne (owners_compat (hs.wf g.rid) a b (Or.inl hw)).symm

/-- two holds of different threads on one record are both read holds -/
theorem prog_shared_read {c : Cfg} {p : PState} (hs : Sim c p) {t u : Tid} {g g' : Hold} (hne : u ≠ t)
    (hg : g ∈ holdsOf (c.loc t)) (hg' : g' ∈ holdsOf (c.loc u)) (e : g'.rid = g.rid) : g.mode = .r ∧ g'.mode = .r := by
  constructor
  · cases hm : g.mode with
    | r => rfl
    | w => exact absurd e (prog_mutex hs hne hg hm hg')
  · cases hm : g'.mode with
    | r => rfl
    | w => exact absurd e.symm (prog_mutex hs (Ne.symm hne) hg' hm hg)

/-- the command body (pc `idle`) and `newKey`'s write to the record (pc `n1`) run between acquire's return and
    the commit: the transaction is active, not committing, not blocked; every record in `lockedMetas` is
    validated, its mutex is owned in the recorded mode, and the record registered under its name is held too -/
theorem body_is_placed {c : Cfg} {p : PState} (hst : Strong c p) {t : Tid}
    (hpc : (c.loc t).pc = .idle ∨ (c.loc t).pc = .n1) :
    p.tx t = some { holds := (c.loc t).held, waiting := none, committing := false } ∧
    ∀ g ∈ (c.loc t).held, g.valid = true ∧ owns (c.sh.mu g.rid) t g.mode ∧
      ∃ g' ∈ (c.loc t).held, c.sh.lookup g.key = some g'.rid := by
  have hs := hst.sim
  have hi := hs.thr t
  rcases hpc with hpc | hpc
  · have htx := hs.tx_some t (by simp [hpc])
    simp only [holdsOf, waitingOf, committingOf, hpc] at htx
    refine ⟨htx, fun g hg => ⟨hi.val g hg, hi.own g (by simpa [holdsOf, hpc] using hg), ?_⟩⟩
    exact (hst.sf t).reg (by simp [hpc, grow]) g hg (by simp [hpc])
  · have htx := hs.tx_some t (by simp [hpc])
    simp only [holdsOf, waitingOf, committingOf, hpc] at htx
    refine ⟨htx, fun g hg => ⟨hi.val g hg, hi.own g (by simpa [holdsOf, hpc] using hg), ?_⟩⟩
    exact (hst.sf t).reg (by simp [hpc, grow]) g hg (by simp [hpc])

/-- newKey writes the record's data (pc n1) only while the thread holds the record in write mode -/
theorem newKey_writes_locked {c : Cfg} {p : PState} (hst : Strong c p) {t : Tid} (hpc : (c.loc t).pc = .n1) :
    owns (c.sh.mu (c.loc t).m) t .w ∧ ∀ u, u ≠ t → ∀ g' ∈ holdsOf (c.loc u), g'.rid ≠ (c.loc t).m := by
  have hmem := (hst.lf t).nk (Or.inl hpc)
  have hh : (⟨(c.loc t).m, (c.loc t).key, .w, true⟩ : Hold) ∈ holdsOf (c.loc t) := by simpa [holdsOf, hpc] using hmem
  exact ⟨(hst.sim.thr t).own _ hh, fun u hu g' hg' => prog_mutex hst.sim hu hh rfl hg'⟩

/-- lock order: a thread blocked in `m.Lock()` / `m.RLock()` (pc a8) holds only keys smaller than the one it
    waits for, holds no mutex outside `lockedMetas`, and is in the locking phase of its command -/
theorem blocked_holds_smaller {c : Cfg} {p : PState} (hst : Strong c p) {t : Tid} (hpc : (c.loc t).pc = .a8) :
    (∀ g ∈ (c.loc t).held, g.key < (c.loc t).key) ∧ extra (c.loc t) = none ∧ (c.loc t).ret = .plan ∧
    inW (c.loc t).pc = false ∧ inR (c.loc t).pc = false := by
  have hr := (hst.lf t).aw (by simp [hpc, afterWait])
  obtain ⟨a, _⟩ := ((hst.lf t).acq (by simp [hpc, acqPc])).1 hr
  refine ⟨fun g hg => ?_, by simp [extra, hpc], hr, by simp [hpc, inW], by simp [hpc, inR]⟩
  rcases a g hg with x | x
  · exact x
  · rw [hpc] at x; cases x.1

/-- delKey never meets the `unlink-unheld` branch (the transition the model has no event for): the record it
    finds in the index is write-held by the transaction -/
theorem delKey_finds_held {c : Cfg} {p : PState} (hst : Strong c p) {t : Tid} (hpc : (c.loc t).pc = .d2) {r : Rec}
    (hidx : assoc c.sh.index (c.loc t).key = some r) : ∃ g, holdOf (c.loc t) r = some g ∧ g.mode = .w := by
  have hl : c.sh.lookup (c.loc t).key = some r := by simp [Shared.lookup, hidx]
  obtain ⟨hall, hname⟩ := (hst.lf t).dk (Or.inr hpc)
  simp only [holdsName, List.any_eq_true, beq_iff_eq] at hname
  obtain ⟨g0, hg0, hk0⟩ := hname
  obtain ⟨g', hg', hl'⟩ := (hst.sf t).reg (by simp [hpc, grow]) g0 hg0 (by simp [hpc])
  rw [hk0, hl] at hl'
  have hr : g'.rid = r := (Option.some.inj hl').symm
  have hsome : (holdOf (c.loc t) r).isSome = true := by
    simp only [holdOf, List.find?_isSome]
    exact ⟨g', hg', by simp [hr]⟩
  cases hgo : holdOf (c.loc t) r with
  | none => rw [hgo] at hsome; cases hsome
  | some g =>
    refine ⟨g, rfl, ?_⟩
    exact (guarded_of_strong hst t).2.2.1 hpc r g hidx hgo

/-- … so the step at d2 is never disabled -/
theorem delKey_not_stuck {c : Cfg} {p : PState} (hst : Strong c p) {t : Tid} (hpc : (c.loc t).pc = .d2)
    (ch : Choice) : (TxProg.step c t ch).isSome = true := by
  unfold TxProg.step
  simp only [tstep, hpc]
  cases hidx : assoc c.sh.index (c.loc t).key with
  | none => simp
  | some r =>
    obtain ⟨g, hg, _⟩ := delKey_finds_held hst hpc hidx
    simp [hg]

end NodisVerif.Proofs.TxProg
