import NodisVerif.Proofs.BlockProgBase
/-
  One lemma per pc of the program model: the transition is matched by the protocol step of the event it emits (or by
  no step when it emits none) and re-establishes the simulation relation.  Part A: the idle thread, addBlockKeys,
  look, the wait.
-/
namespace NodisVerif.Proofs.BlockProg
open NodisVerif.Block NodisVerif.BlockProg NodisVerif.Proofs.Block

/-- the protocol step that matches an optional event -/
def stepO (bs : BState) : Option Ev → Option BState
  | none => some bs
  | some ev => step bs ev

theorem own_step {bs : BState} {ev : Ev} {o' : Option WSt} (h : lstep (get bs (evW ev)) ev = some o') :
    step bs ev = some (put bs (evW ev) o') := step_some_iff.2 ⟨o', h, rfl⟩

/-- what every per-pc lemma concludes -/
def SimGoal (σ : Sys) (bs : BState) (t : Tid) (s' : Shared) (l' : Loc) (e : Option Ev) : Prop :=
  ∃ bs', stepO bs e = some bs' ∧ Inv ⟨s', upd σ.thr t l'⟩ bs'

variable {σ : Sys} {bs : BState} {t : Tid} {ch : Choice} {s' : Shared} {l' : Loc} {e : Option Ev}

theorem sim_idle (hI : Inv σ bs) (hpc : (σ.thr t).pc = .idle)
    (h : tstep σ.sh t (σ.thr t) ch = some (s', l', e)) : SimGoal σ bs t s' l' e := by
  have hP := hI.prel t; have hL := hI.lrel t; have hC := hI.crel t
  simp only [PRel, hpc] at hP
  simp only [LRel, hpc, holdsW, holdsR] at hL
  simp only [CRel, regKeys, hpc] at hC
  simp only [tstep, hpc] at h
  cases hc : ch.call with
  | bpop keys tmo =>
    simp only [hc] at h
    split at h
    · simp at h
    · rename_i hk
      simp only [Option.some.injEq, Prod.mk.injEq] at h
      obtain ⟨rfl, rfl, rfl⟩ := h
      refine ⟨bs, rfl, frame_same hI (fun t' ht => by simp [upd_ne _ _ ht]) (fun _ _ => rfl) rfl rfl ?_ ?_ ?_ ?_⟩
      · simp only [PRel, upd_self]
        refine ⟨hP, by simp, ?_⟩
        intro h0; simp [h0] at hk
      · simpa [LRel, holdsW, holdsR] using hL
      · simpa [CRel, regKeys, Shared.regOf] using hC
      · simp [TodoRel]
  | push k n =>
    simp only [hc] at h
    split at h
    · simp at h
    · simp only [Option.some.injEq, Prod.mk.injEq] at h
      obtain ⟨rfl, rfl, rfl⟩ := h
      refine ⟨bs, rfl, frame_same hI (fun _ _ => rfl) (fun _ _ => rfl) rfl rfl ?_ ?_ ?_ ?_⟩
      · simpa [PRel] using hP
      · simpa [LRel, holdsW, holdsR] using hL
      · simpa [CRel, regKeys, Shared.regOf] using hC
      · simp [TodoRel]
  | env k cnt wrong =>
    simp only [hc] at h
    split at h
    · simp at h
    · simp only [Option.some.injEq, Prod.mk.injEq] at h
      obtain ⟨rfl, rfl, rfl⟩ := h
      refine ⟨bs, rfl, frame_same hI (fun _ _ => rfl) (fun _ _ => rfl) rfl rfl ?_ ?_ ?_ ?_⟩
      · simpa [PRel, hpc] using hP
      · simpa [LRel, holdsW, holdsR, hpc] using hL
      · simpa [CRel, regKeys, hpc, Shared.regOf] using hC
      · simp [TodoRel, hpc]

/-- taking the registry lock exclusively (r1, u1) -/
theorem lock_frame (hI : Inv σ bs) (hcan : σ.sh.bmu.canLock = true) {l' : Loc}
    (hP : PRel (σ.sh.full t) l' (get bs t)) (hW : holdsW l'.pc = true) (hR : holdsR l'.pc = false)
    (hC : CRel σ.sh t l') (hT : l'.pc ≠ .p4) :
    Inv ⟨{ σ.sh with bmu := { σ.sh.bmu with writer := some t } }, upd σ.thr t l'⟩ bs := by
  simp only [Mu.canLock, Bool.and_eq_true, Option.isNone_iff_eq_none, List.isEmpty_iff] at hcan
  refine frame hI (fun t' _ => hI.prel t') (fun _ _ _ => rfl) (fun t' ht => ?_) (fun _ _ => Iff.rfl)
    (Or.inl fun _ _ h => h) hP ?_ hC (fun h => absurd h hT) (fun _ => hcan.2)
  · simp only [hcan.1]
    constructor
    · intro h; simp only [Option.some.injEq] at h; exact absurd h.symm ht
    · intro h; simp at h
  · simp [LRel, hW, hR, hcan.2]

theorem sim_r1 (hI : Inv σ bs) (hpc : (σ.thr t).pc = .r1)
    (h : tstep σ.sh t (σ.thr t) ch = some (s', l', e)) : SimGoal σ bs t s' l' e := by
  have hP := hI.prel t; have hC := hI.crel t
  simp only [PRel, hpc] at hP
  simp only [CRel, regKeys, hpc] at hC
  simp only [tstep, hpc] at h
  split at h
  · rename_i hcan
    simp only [Option.some.injEq, Prod.mk.injEq] at h
    obtain ⟨rfl, rfl, rfl⟩ := h
    refine ⟨bs, rfl, lock_frame hI hcan ?_ rfl rfl ?_ (by simp)⟩
    · simp only [PRel]
      refine ⟨List.length_pos_iff.2 hP.2.2, fun _ => ⟨hP.1, hP.2.1⟩, fun h => by simp at h⟩
    · simpa [CRel, regKeys, Shared.regOf] using hC
  · simp at h

/-- releasing the registry lock held exclusively (r3, u3) -/
theorem unlock_frame (hI : Inv σ bs) {bs' : BState} (hw : holdsW (σ.thr t).pc = true) {l' : Loc}
    (hget : ∀ t', t' ≠ t → get bs' t' = get bs t')
    (hP : PRel (σ.sh.full t) l' (get bs' t)) (hW : holdsW l'.pc = false) (hR : holdsR l'.pc = false)
    (hC : CRel σ.sh t l') (hT : l'.pc ≠ .p4) :
    Inv ⟨{ σ.sh with bmu := { σ.sh.bmu with writer := none } }, upd σ.thr t l'⟩ bs' := by
  have hwt : σ.sh.bmu.writer = some t := (hI.lrel t).1.2 hw
  have hre : σ.sh.bmu.readers = [] := hI.excl (by simp [hwt])
  refine frame hI (fun t' ht => by rw [hget t' ht]; exact hI.prel t') (fun _ _ _ => rfl) (fun t' ht => ?_)
    (fun _ _ => Iff.rfl) (Or.inl fun _ _ h => h) hP ?_ hC (fun h => absurd h hT) (fun h => by simp at h)
  · simp only [hwt]
    constructor
    · intro h; simp at h
    · intro h; simp only [Option.some.injEq] at h; exact absurd h.symm ht
  · simp [LRel, hW, hR, hre]

theorem sim_r3 (hI : Inv σ bs) (hpc : (σ.thr t).pc = .r3)
    (h : tstep σ.sh t (σ.thr t) ch = some (s', l', e)) : SimGoal σ bs t s' l' e := by
  have hP := hI.prel t; have hC := hI.crel t
  simp only [PRel, hpc] at hP
  simp only [CRel, regKeys, hpc] at hC
  simp only [tstep, hpc, Option.some.injEq, Prod.mk.injEq] at h
  obtain ⟨rfl, rfl, rfl⟩ := h
  refine ⟨bs, rfl, unlock_frame hI (by simp [hpc, holdsW]) (fun _ _ => rfl) ?_ rfl rfl ?_ (by simp)⟩
  · obtain ⟨hk, st, h1, h2, h3, h4, h5⟩ := hP
    simp only [PRel]
    exact ⟨hk, st, h1, h2, h3, h4, by simp [h5, pos]⟩
  · simpa [CRel, regKeys, Shared.regOf] using hC

theorem sim_r2 (hI : Inv σ bs) (hpc : (σ.thr t).pc = .r2)
    (h : tstep σ.sh t (σ.thr t) ch = some (s', l', e)) : SimGoal σ bs t s' l' e := by
  have hP := hI.prel t; have hC := hI.crel t; have hL := hI.lrel t
  simp only [PRel, hpc] at hP
  simp only [CRel, regKeys, hpc] at hC
  simp only [LRel, hpc, holdsW, holdsR] at hL
  obtain ⟨hi, h0, h1⟩ := hP
  simp only [tstep, hpc] at h
  cases hk : (σ.thr t).keys[(σ.thr t).i]? with
  | none => simp at hk; omega
  | some k =>
    simp only [hk, Option.some.injEq, Prod.mk.injEq] at h
    obtain ⟨rfl, rfl, rfl⟩ := h
    -- the protocol step
    have hls : ∃ st', lstep (get bs t) (.reg t k) = some (some st') ∧
        st'.keys = (σ.thr t).keys.take ((σ.thr t).i + 1) ∧ st'.reg = (σ.thr t).keys.take ((σ.thr t).i + 1) ∧
        st'.buf = σ.sh.full t ∧ st'.phase = .registering := by
      rw [take_succ_of_get hk]
      by_cases hz : (σ.thr t).i = 0
      · obtain ⟨hn, hf⟩ := h0 hz
        refine ⟨_, lstep_reg.2 ⟨by simp [hn], rfl⟩, ?_⟩
        simp [hn, hz, hf]
      · obtain ⟨st, hs, hk1, hk2, hb, hp⟩ := h1 (Nat.pos_of_ne_zero hz)
        refine ⟨_, lstep_reg.2 ⟨by simp [hs, hp], rfl⟩, ?_⟩
        simp [hs, hk1, hk2, hb, hp]
    obtain ⟨st', hst, hk1, hk2, hb, hp⟩ := hls
    refine ⟨_, own_step (ev := .reg t k) hst, ?_⟩
    simp only [evW]
    refine frame hI (fun t' ht => ?_) (fun t' ht k' => ?_) (fun _ _ => Iff.rfl) (fun _ _ => Iff.rfl)
      (Or.inl fun k' c hc => ?_) ?_ ?_ ?_ ?_ hI.excl
    · rw [get_put_ne _ _ _ _ ht]; exact hI.prel t'
    · simp only [Shared.regOf, upd_apply]
      split
      · rename_i hkk; subst hkk
        simp [List.count_cons_of_ne (Ne.symm ht)]
      · rfl
    · simp only [Shared.regOf, upd_apply]
      split
      · rename_i hkk; subst hkk
        simp only [Option.getD_some]; exact List.mem_cons_of_mem _ hc
      · exact hc
    · -- own protocol relation
      rw [get_put_self]
      simp only [loopPc]
      split
      · rename_i hlt
        simp only [PRel]
        exact ⟨hlt, fun h => by simp at h, fun _ => ⟨st', rfl, hk1, hk2, hb, hp⟩⟩
      · rename_i hge
        have hall : (σ.thr t).keys.take ((σ.thr t).i + 1) = (σ.thr t).keys := List.take_of_length_le (by omega)
        simp only [PRel, Body]
        refine ⟨fun h0 => by simp [h0] at hi, st', rfl, by rw [hk1, hall], by rw [hk2, hall], hb, hp⟩
    · simp only [LRel, loopPc]
      split <;> simpa [holdsW, holdsR] using hL
    · -- the count
      intro k'
      have hrk : regKeys { (σ.thr t) with i := (σ.thr t).i + 1, pc := loopPc (σ.thr t) .r2 .r3 } =
          (σ.thr t).keys.take ((σ.thr t).i + 1) := by
        simp only [loopPc]
        split
        · rfl
        · simp only [regKeys]; exact (List.take_of_length_le (by omega)).symm
      rw [hrk, take_succ_of_get hk, List.count_append]
      simp only [Shared.regOf, upd_apply]
      split
      · rename_i hkk; subst hkk
        have := hC k'
        simp only [Shared.regOf] at this
        simp [this]
      · rename_i hkk
        have := hC k'
        simp only [Shared.regOf] at this
        simp [this, List.count_cons_of_ne (Ne.symm hkk)]
    · simp only [TodoRel, loopPc]; split <;> simp

end NodisVerif.Proofs.BlockProg
