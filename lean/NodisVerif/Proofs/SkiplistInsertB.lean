import NodisVerif.Proofs.SkiplistInsertA
/-
  skiplist.insert, part B: the effect of the three loops of `insert` (extendLevels, linkLevels, bumpLevels) on the
  observations `lv` / `bk` / `skel` of the heap, pointwise per (node, level).
-/
namespace NodisVerif.Skiplist
open NodisVerif.DsZSet (Item nodeLt)

theorem getArr_ok {α} (a : List α) (i : Nat) (v : α) (h : a[i]? = some v) : getArr a i = .ok v := by
  simp [getArr, h, pure, Except.pure]

theorem getUpd_ok (update : List (Option Nat)) (i u : Nat) (h : update[i]? = some (some u)) :
    getUpd update i = .ok u := by
  simp [getUpd, getArr_ok _ _ _ h, bind, Except.bind, pure, Except.pure]

theorem setArr_ok {α} (a : List α) (i : Nat) (v : α) (h : i < a.length) : setArr a i v = .ok (a.set i v) := by
  simp [setArr, h, pure, Except.pure]

theorem getLevel_ok_of_lt (h : List Node) (u i : Nat) (hlt : i < height h u) :
    ∃ l, getLevel h u i = .ok l ∧ lv h u i = some l := by
  obtain ⟨l, hl⟩ := (lv_isSome_iff h u i).2 hlt
  exact ⟨l, (getLevel_eq_lv h u i l).2 hl, hl⟩

theorem extendLevels_spec (len : Int) (k i : Nat) (h : List Node) (update : List (Option Nat)) (rank : List Int)
    (hu : update.length = maxLevel) (hr : rank.length = maxLevel) (hik : i + k ≤ maxLevel)
    (hh : height h 0 = maxLevel) :
    ∃ h' update' rank', extendLevels len k i h update rank = .ok (h', update', rank') ∧
      skel h' = skel h ∧ (∀ x, bk h' x = bk h x) ∧ update'.length = maxLevel ∧ rank'.length = maxLevel ∧
      (∀ x j, lv h' x j = if x = 0 ∧ i ≤ j ∧ j < i + k then (lv h 0 j).map (fun l => { l with span := len })
        else lv h x j) ∧
      (∀ j, update'[j]? = if i ≤ j ∧ j < i + k then some (some 0) else update[j]?) ∧
      (∀ j, rank'[j]? = if i ≤ j ∧ j < i + k then some 0 else rank[j]?) := by
  induction k generalizing i h update rank with
  | zero =>
    refine ⟨h, update, rank, by simp [extendLevels, pure, Except.pure], rfl, fun _ => rfl, hu, hr, ?_, ?_, ?_⟩
    · intro x j
      have : ¬ (x = 0 ∧ i ≤ j ∧ j < i + 0) := by omega
      rw [if_neg this]
    · intro j
      have : ¬ (i ≤ j ∧ j < i + 0) := by omega
      rw [if_neg this]
    · intro j
      have : ¬ (i ≤ j ∧ j < i + 0) := by omega
      rw [if_neg this]
  | succ k ih =>
    have hir : i < rank.length := by omega
    have hiu : i < update.length := by omega
    have hlt : i < height h 0 := by omega
    obtain ⟨h1, e1, hs1, hb1, hl1⟩ := modLevel_spec h 0 i (fun l => { l with span := len }) hlt
    obtain ⟨h2, u2, r2, e2, hs2, hb2, hu2, hr2, hl2, hup2, hrk2⟩ :=
      ih (i + 1) h1 (update.set i (some 0)) (rank.set i 0) (by simp [hu]) (by simp [hr]) (by omega)
        (by rw [height_congr hs1]; exact hh)
    refine ⟨h2, u2, r2, ?_, hs2.trans hs1, fun x => (hb2 x).trans (hb1 x), hu2, hr2, ?_, ?_, ?_⟩
    · simp only [extendLevels, setArr_ok _ _ _ hir, setArr_ok _ _ _ hiu, bind, Except.bind, e1, e2]
    · intro x j
      rw [hl2, hl1, hl1]
      by_cases hj : j = i
      · subst hj
        have h1 : ¬ (x = 0 ∧ j + 1 ≤ j ∧ j < j + 1 + k) := by omega
        rw [if_neg h1]
        by_cases hx : x = 0
        · subst hx
          have h2 : (0 = 0 ∧ j ≤ j ∧ j < j + (k + 1)) := by omega
          rw [if_pos h2]; simp
        · simp [hx]
      · have e : (x = 0 ∧ i + 1 ≤ j ∧ j < i + 1 + k) ↔ (x = 0 ∧ i ≤ j ∧ j < i + (k + 1)) := by omega
        simp only [e, hj, and_false, if_false]
    · intro j
      rw [hup2, List.getElem?_set]
      by_cases hj : j = i
      · subst hj
        have h1 : ¬ (j + 1 ≤ j ∧ j < j + 1 + k) := by omega
        have h2 : (j ≤ j ∧ j < j + (k + 1)) := by omega
        rw [if_neg h1, if_pos h2]; simp [hiu]
      · have e : (i + 1 ≤ j ∧ j < i + 1 + k) ↔ (i ≤ j ∧ j < i + (k + 1)) := by omega
        have hj' : ¬ i = j := fun e => hj e.symm
        simp only [e, hj', if_false]
    · intro j
      rw [hrk2, List.getElem?_set]
      by_cases hj : j = i
      · subst hj
        have h1 : ¬ (j + 1 ≤ j ∧ j < j + 1 + k) := by omega
        have h2 : (j ≤ j ∧ j < j + (k + 1)) := by omega
        rw [if_neg h1, if_pos h2]; simp [hir]
      · have e : (i + 1 ≤ j ∧ j < i + 1 + k) ↔ (i ≤ j ∧ j < i + (k + 1)) := by omega
        have hj' : ¬ i = j := fun e => hj e.symm
        simp only [e, hj', if_false]

theorem linkLevels_spec (new : Nat) (update : List (Option Nat)) (rank : List Int) (U : Nat → Nat) (R : Nat → Int)
    (r0 : Int) (k i : Nat) (h : List Node)
    (hr0 : rank[0]? = some r0)
    (hU : ∀ j, i ≤ j → j < i + k →
      update[j]? = some (some (U j)) ∧ rank[j]? = some (R j) ∧ j < height h (U j) ∧ U j ≠ new)
    (hnew : ∀ j, i ≤ j → j < i + k → j < height h new) :
    ∃ h', linkLevels new update rank k i h = .ok h' ∧ skel h' = skel h ∧ (∀ x, bk h' x = bk h x) ∧
      ∀ x j, lv h' x j =
        if i ≤ j ∧ j < i + k then
          (if x = U j then some { forward := some new, span := r0 - R j + 1 }
           else if x = new then
             (lv h (U j) j).map (fun l => { forward := l.forward, span := l.span - (r0 - R j) })
           else lv h x j)
        else lv h x j := by
  induction k generalizing i h with
  | zero =>
    refine ⟨h, by simp [linkLevels, pure, Except.pure], rfl, fun _ => rfl, ?_⟩
    intro x j
    have : ¬ (i ≤ j ∧ j < i + 0) := by omega
    rw [if_neg this]
  | succ k ih =>
    obtain ⟨hu, hri, hlt, hne⟩ := hU i (Nat.le_refl _) (by omega)
    have hltn := hnew i (Nat.le_refl _) (by omega)
    obtain ⟨lu, elu, hlu⟩ := getLevel_ok_of_lt h (U i) i hlt
    obtain ⟨ln, hln⟩ := (lv_isSome_iff h new i).2 hltn
    obtain ⟨h1, e1, hs1, hb1, hl1⟩ := modLevel_spec h new i
      (fun _ => { forward := lu.forward, span := lu.span - (r0 - R i) }) hltn
    obtain ⟨h2, e2, hs2, hb2, hl2⟩ := modLevel_spec h1 (U i) i
      (fun _ => { forward := some new, span := (r0 - R i) + 1 }) (by rw [height_congr hs1]; exact hlt)
    have hs21 : skel h2 = skel h := hs2.trans hs1
    obtain ⟨h3, e3, hs3, hb3, hl3⟩ := ih (i + 1) h2 (by
      intro j hj1 hj2
      obtain ⟨a, b, c, d⟩ := hU j (by omega) (by omega)
      exact ⟨a, b, by rw [height_congr hs21]; exact c, d⟩) (by
      intro j hj1 hj2
      rw [height_congr hs21]; exact hnew j (by omega) (by omega))
    refine ⟨h3, ?_, hs3.trans hs21, fun x => (hb3 x).trans ((hb2 x).trans (hb1 x)), ?_⟩
    · simp only [linkLevels, getUpd_ok _ _ _ hu, getArr_ok _ _ _ hr0, getArr_ok _ _ _ hri, elu, bind, Except.bind,
        e1, e2, e3]
    · intro x j
      by_cases hj : j = i
      · subst hj
        have c1 : ¬ (j + 1 ≤ j ∧ j < j + 1 + k) := by omega
        have c2 : (j ≤ j ∧ j < j + (k + 1)) := by omega
        rw [hl3, if_neg c1, if_pos c2]
        by_cases hx : x = U j
        · simp [hl2, hl1, hx, hne, hlu]
        · by_cases hxn : x = new
          · subst hxn
            simp [hl2, hl1, hx, hln, hlu]
          · simp [hl2, hl1, hx, hxn]
      · have e : (i + 1 ≤ j ∧ j < i + 1 + k) ↔ (i ≤ j ∧ j < i + (k + 1)) := by omega
        simp only [hl3, hl2, hl1, hj, and_false, if_false, e]

theorem bumpLevels_spec (update : List (Option Nat)) (U : Nat → Nat) (k i : Nat) (h : List Node)
    (hU : ∀ j, i ≤ j → j < i + k → update[j]? = some (some (U j)) ∧ j < height h (U j)) :
    ∃ h', bumpLevels update k i h = .ok h' ∧ skel h' = skel h ∧ (∀ x, bk h' x = bk h x) ∧
      ∀ x j, lv h' x j =
        if i ≤ j ∧ j < i + k ∧ x = U j then (lv h x j).map (fun l => { l with span := l.span + 1 })
        else lv h x j := by
  induction k generalizing i h with
  | zero =>
    refine ⟨h, by simp [bumpLevels, pure, Except.pure], rfl, fun _ => rfl, ?_⟩
    intro x j
    have : ¬ (i ≤ j ∧ j < i + 0 ∧ x = U j) := by omega
    rw [if_neg this]
  | succ k ih =>
    obtain ⟨hu, hlt⟩ := hU i (Nat.le_refl _) (by omega)
    obtain ⟨h1, e1, hs1, hb1, hl1⟩ := modLevel_spec h (U i) i (fun l => { l with span := l.span + 1 }) hlt
    obtain ⟨h2, e2, hs2, hb2, hl2⟩ := ih (i+1) h1 (by
      intro j hj1 hj2
      obtain ⟨a, b⟩ := hU j (by omega) (by omega)
      exact ⟨a, by rw [height_congr hs1]; exact b⟩)
    refine ⟨h2, ?_, hs2.trans hs1, fun x => (hb2 x).trans (hb1 x), ?_⟩
    · simp only [bumpLevels, getUpd_ok _ _ _ hu, bind, Except.bind, e1, e2]
    · intro x j
      rw [hl2, hl1]
      by_cases hj : j = i
      · subst hj
        have : ¬ (j + 1 ≤ j ∧ j < j + 1 + k ∧ x = U j) := by omega
        rw [if_neg this]
        by_cases hx : x = U j
        · subst hx; simp
        · simp [hx]
      · have e : (i + 1 ≤ j ∧ j < i + 1 + k ∧ x = U j) ↔ (i ≤ j ∧ j < i + (k + 1) ∧ x = U j) := by
          constructor <;> intro ⟨a, b, c⟩ <;> exact ⟨by omega, by omega, c⟩
        simp only [e, hj, and_false, if_false]

end NodisVerif.Skiplist
