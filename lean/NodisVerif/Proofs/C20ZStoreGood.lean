import NodisVerif.Proofs.C20ZStoreCore
import NodisVerif.Proofs.C04Rank
/-
  C20, ZUnionStore / ZInterStore, part 2: the members of the computed result are members of the
  operands (so their lengths are representable), and the sorted set built from a NaN-free result
  is a good value.
-/
namespace NodisVerif.Proofs.C20
open NodisVerif NodisVerif.Store NodisVerif.Spec.Persist NodisVerif.Proofs.C11
open NodisVerif.Proofs.AListLemmas2

variable {now : Int}

/-- everything a state shows is a good value with an int64 deadline -/
theorem lookup_good {s : MState} (h : StoreInv s now) {k : Bytes} {v : Val} {e : Int}
    (hL : lookup s now k = some (v, e)) : Good v := by
  have ks := readKey_spec h (Int.le_refl now) k
  obtain ⟨_, _, m, hm, hv, _, _⟩ := ks.hit v e hL
  exact (ks.inv.recs k m hm).good v hv

/-! ### the full walk only yields nodes of the chain -/

theorem walk_asc_mem (sl : List DsZSet.Item) : ∀ (n : Nat) (c : Option DsZSet.Cursor) (acc items : List DsZSet.Item),
    (∀ c', c = some c' → c'.cur ∈ sl ∧ ∀ x ∈ c'.fwd, x ∈ sl) → (∀ x ∈ acc, x ∈ sl) →
    DsZSet.walk false c n acc = some items → ∀ x ∈ items, x ∈ sl := by
  intro n
  induction n with
  | zero =>
    intro c acc items _ ha hw x hx
    simp only [DsZSet.walk, Option.some.injEq] at hw
    subst hw
    exact ha x (List.mem_reverse.mp hx)
  | succ n ih =>
    intro c acc items hc ha hw
    cases c with
    | none => simp [DsZSet.walk] at hw
    | some c' =>
      simp only [DsZSet.walk, Bool.false_eq_true, if_false] at hw
      obtain ⟨h1, h2⟩ := hc c' rfl
      refine ih c'.next (c'.cur :: acc) items ?_ ?_ hw
      · intro c'' hc''
        unfold DsZSet.Cursor.next at hc''
        cases hf : c'.fwd with
        | nil => rw [hf] at hc''; cases hc''
        | cons a f =>
          rw [hf] at hc'' h2
          simp only [Option.some.injEq] at hc''
          subst hc''
          exact ⟨h2 a (by simp), fun x hx => h2 x (by simp [hx])⟩
      · intro x hx
        rcases List.mem_cons.mp hx with h | h
        · rw [h]; exact h1
        · exact ha x h

theorem cursorAt_mem (sl : List DsZSet.Item) (idx : Nat) (c : DsZSet.Cursor) (h : DsZSet.cursorAt sl idx = some c) :
    c.cur ∈ sl ∧ ∀ x ∈ c.fwd, x ∈ sl := by
  unfold DsZSet.cursorAt at h
  cases hd : sl.drop idx with
  | nil => rw [hd] at h; cases h
  | cons a f =>
    rw [hd] at h
    simp only [Option.some.injEq] at h
    subst h
    have sub : ∀ x ∈ a :: f, x ∈ sl := fun x hx => List.mem_of_mem_drop (hd ▸ hx)
    exact ⟨sub a (by simp), fun x hx => sub x (by simp [hx])⟩

/-- what an ascending `forEachByRank` hands over are nodes of the chain -/
theorem fer_mem (z : ZSet) (items : List DsZSet.Item) (h : DsZSet.forEachByRank z 0 (-1) false = some items) :
    ∀ x ∈ items, x ∈ z.sl := by
  have nil : some ([] : List DsZSet.Item) = some items → ∀ x ∈ items, x ∈ z.sl := by
    intro e; simp only [Option.some.injEq] at e; subst e; intro x hx; cases hx
  rw [C04.forEachByRank_core] at h
  split at h
  · exact nil h
  · split at h
    · exact nil h
    · unfold C04.ferCore at h
      generalize (if C04.start1 0 < 0 then DsZSet.zCard z + C04.start1 0 else C04.start1 0) = s at h
      generalize (if C04.stop1 (DsZSet.zCard z) (-1) > DsZSet.zCard z then DsZSet.zCard z
        else C04.stop1 (DsZSet.zCard z) (-1)) = e at h
      simp only [Bool.false_eq_true, if_false] at h
      split at h
      · exact nil h
      · refine walk_asc_mem z.sl _ _ [] items ?_ (fun x hx => nomatch hx) h
        intro c' hc'
        split at hc'
        · unfold DsZSet.getByRank at hc'
          split at hc'
          · cases hc'
          · split at hc'
            · omega
            · exact cursorAt_mem _ _ _ hc'
        · exact cursorAt_mem _ _ _ hc'

/-! ### members of the result have representable length -/

def SmallM (m : Bytes) : Prop := m.length + 8 < 2 ^ 63
def SmallAcc (a : AList F64) : Prop := ∀ p ∈ a, SmallM p.1
def SmallO (o : Option (AList F64)) : Prop := ∀ a, o = some a → SmallAcc a

theorem smallAcc_set {a : AList F64} (h : SmallAcc a) {m : Bytes} (hm : SmallM m) (x : F64) :
    SmallAcc (AList.set a m x) := by
  intro p hp
  rcases mem_set a m x p hp with h1 | h1
  · rw [h1]; exact hm
  · exact h p h1

theorem aggregate_small (agg : Bytes) (w : F64) {a a' : AList F64} {it : DsZSet.Item} (ha : SmallAcc a) (hm : SmallM it.2)
    (h : Api.aggregate agg w a it = some a') : SmallAcc a' := by
  obtain ⟨sc, m⟩ := it
  unfold Api.aggregate at h
  simp only at h
  split at h
  · split at h
    · simp only [Option.some.injEq] at h; subst h; exact smallAcc_set ha hm _
    · simp only [Option.some.injEq] at h; subst h; exact ha
  · split at h
    · simp only [Option.some.injEq] at h; subst h; exact smallAcc_set ha hm _
    · split at h
      · simp only [Option.some.injEq] at h; subst h
        split
        · exact smallAcc_set ha hm _
        · exact ha
      · split at h
        · simp only [Option.some.injEq] at h; subst h
          split
          · exact smallAcc_set ha hm _
          · exact ha
        · simp only [Option.some.injEq] at h; subst h; exact ha

theorem smallO_bind (agg : Bytes) (w : F64) {o : Option (AList F64)} {it : DsZSet.Item} (ho : SmallO o) (hm : SmallM it.2) :
    SmallO (o.bind fun a => Api.aggregate agg w a it) := by
  intro a' ha'
  cases o with
  | none => cases ha'
  | some a => exact aggregate_small agg w (ho a rfl) hm ha'

theorem smallO_fold (agg : Bytes) (w : F64) (items : List DsZSet.Item) : ∀ (o : Option (AList F64)), SmallO o →
    (∀ it ∈ items, SmallM it.2) →
    SmallO (items.foldl (fun a it => a.bind fun a => Api.aggregate agg w a it) o) := by
  induction items with
  | nil => intro o ho _; exact ho
  | cons it rest ih =>
    intro o ho hm
    simp only [List.foldl_cons]
    exact ih _ (smallO_bind agg w ho (hm it (by simp))) (fun x hx => hm x (by simp [hx]))

/-- every value the keyspace shows is good -/
def KGood (K : Bytes → Option (Val × Int)) : Prop := ∀ k v e, K k = some (v, e) → Good v

theorem kgood_lookup {s : MState} (h : StoreInv s now) : KGood (lookup s now) := fun _ _ _ hL => lookup_good h hL

theorem chain_small {z : ZSet} (hg : Good (.zset z)) : ∀ it ∈ z.sl, SmallM it.2 := by
  intro it hit
  obtain ⟨sc, m⟩ := it
  have hw : z.WF := hg.1
  have := mem_of_get? _ _ _ (hw.agree m sc hit)
  exact hg.2 (m, sc) this

theorem items_small {z : ZSet} (hg : Good (.zset z)) {items : List DsZSet.Item}
    (h : DsZSet.forEachByRank z 0 (-1) false = some items) : ∀ it ∈ items, SmallM it.2 :=
  fun it hit => chain_small hg it (fer_mem z items h it hit)

theorem unionGo_small {K : Bytes → Option (Val × Int)} (hK : KGood K) (weights : List F64) (agg : Bytes)
    (ks : List (Bytes × Nat)) : ∀ (acc o : Option (AList F64)), SmallO acc →
    unionGo K weights agg ks acc = some o → SmallO o := by
  induction ks with
  | nil => intro acc o ha h; simp only [unionGo, Option.some.injEq] at h; subst h; exact ha
  | cons e rest ih =>
    obtain ⟨k, i⟩ := e
    intro acc o ha h
    rw [unionGo] at h
    cases hL : K k with
    | none => rw [hL] at h; exact ih acc o ha h
    | some c =>
      obtain ⟨v, e⟩ := c
      rw [hL] at h
      cases v with
      | zset z =>
        simp only at h
        cases hf : DsZSet.forEachByRank z 0 (-1) false with
        | none => rw [hf] at h; cases h
        | some items =>
          rw [hf] at h
          exact ih _ o (smallO_fold agg _ items acc ha (items_small (hK k _ e hL) hf)) h
      | _ => cases h

theorem interOuter_small (K : Bytes → Option (Val × Int)) (keys : List Bytes) (weights : List F64) (agg : Bytes) (i : Nat)
    (its : List DsZSet.Item) : ∀ (acc o : Option (AList F64)), SmallO acc → (∀ it ∈ its, SmallM it.2) →
    interOuter K keys weights agg i its acc = some o → SmallO o := by
  induction its with
  | nil => intro acc o ha _ h; simp only [interOuter, Option.some.injEq] at h; subst h; exact ha
  | cons it more ih =>
    intro acc o ha hm h
    rw [interOuter] at h
    cases hi : interInner K i keys.zipIdx it.2 with
    | none => rw [hi] at h; cases h
    | some found =>
      rw [hi] at h
      simp only at h
      refine ih _ o ?_ (fun x hx => hm x (by simp [hx])) h
      cases found with
      | true => simp only [if_true]; exact smallO_bind agg _ ha (hm it (by simp))
      | false => exact ha

theorem interGo_small {K : Bytes → Option (Val × Int)} (hK : KGood K) (keys : List Bytes) (weights : List F64) (agg : Bytes)
    (ks : List (Bytes × Nat)) : ∀ (acc o : Option (AList F64)), SmallO acc →
    interGo K keys weights agg ks acc = some o → SmallO o := by
  induction ks with
  | nil => intro acc o ha h; simp only [interGo, Option.some.injEq] at h; subst h; exact ha
  | cons e rest ih =>
    obtain ⟨k, i⟩ := e
    intro acc o ha h
    rw [interGo] at h
    cases hL : K k with
    | none =>
      rw [hL] at h
      simp only [Option.some.injEq] at h
      subst h
      intro a ha'; cases ha'; intro p hp; cases hp
    | some c =>
      obtain ⟨v, e⟩ := c
      rw [hL] at h
      cases v with
      | zset z =>
        simp only at h
        cases hf : DsZSet.forEachByRank z 0 (-1) false with
        | none => rw [hf] at h; cases h
        | some items =>
          rw [hf] at h
          simp only at h
          cases ho : interOuter K keys weights agg i items acc with
          | none => rw [ho] at h; cases h
          | some acc2 =>
            rw [ho] at h
            exact ih acc2 o (interOuter_small K keys weights agg i items acc acc2 ha
              (items_small (hK k _ e hL) hf) ho) h
      | _ => cases h

theorem smallO_nil : SmallO (some []) := by
  intro a ha; cases ha; intro p hp; cases hp

/-- the members of the result have representable length -/
theorem zcoreSpec_small (union : Bool) {K : Bytes → Option (Val × Int)} (hK : KGood K) (keys : List Bytes)
    (weights : List F64) (agg : Bytes) {items : List DsZSet.Item}
    (h : zcoreSpec union K keys weights agg = some (some items)) : ∀ it ∈ items, SmallM it.2 := by
  unfold zcoreSpec at h
  have key : ∀ o, (if union = true then unionGo K weights agg keys.zipIdx (some [])
      else interGo K keys weights agg keys.zipIdx (some [])) = some o → SmallO o := by
    intro o ho
    cases union with
    | true => exact unionGo_small hK weights agg _ _ o smallO_nil (by simpa using ho)
    | false => exact interGo_small hK keys weights agg _ _ o smallO_nil (by simpa using ho)
  generalize (if union = true then unionGo K weights agg keys.zipIdx (some [])
      else interGo K keys weights agg keys.zipIdx (some [])) = q at h key
  cases q with
  | none => cases h
  | some o =>
    simp only [Option.map_some, Option.some.injEq] at h
    cases o with
    | none => cases h
    | some a =>
      simp only [Option.map_some, Option.some.injEq] at h
      subst h
      intro it hit
      simp only [List.mem_map] at hit
      obtain ⟨p, hp, rfl⟩ := hit
      exact key (some a) rfl a rfl p hp

/-! ### the sorted set built from the result -/

/-- `zstore` builds the new value by adding the result items to an empty sorted set -/
def buildZ (items : List DsZSet.Item) : ZSet :=
  items.foldl (fun z it => (DsZSet.zAdd z it.2 it.1).1) DsZSet.empty

theorem good_build (items : List DsZSet.Item) : ∀ (z : ZSet), Good (.zset z) →
    (∀ it ∈ items, SmallM it.2) → (∀ it ∈ items, F64.isNaN it.1 = false) →
    Good (.zset (items.foldl (fun z it => (DsZSet.zAdd z it.2 it.1).1) z)) := by
  induction items with
  | nil => intro z hz _ _; exact hz
  | cons it rest ih =>
    intro z hz hs hn
    simp only [List.foldl_cons]
    exact ih _ (good_zadd z it.2 it.1 hz (hn it (by simp)) (hs it (by simp)))
      (fun x hx => hs x (by simp [hx])) (fun x hx => hn x (by simp [hx]))

theorem good_buildZ {items : List DsZSet.Item} (hs : ∀ it ∈ items, SmallM it.2)
    (hn : ∀ it ∈ items, F64.isNaN it.1 = false) : Good (.zset (buildZ items)) :=
  good_build items _ good_emptyZSet hs hn

end NodisVerif.Proofs.C20
