import NodisVerif.Proofs.C15Flat
import NodisVerif.Proofs.C15Decimal
import NodisVerif.Spec.RespEnc
/-
  C15, part 2: the reader inverts the RESP request encoding, for any chunking of the stream.
-/
namespace NodisVerif.Proofs.C15
open Resp RespReader Spec.RespEnc

/-- a line `ds CR LF` (no LF inside `ds`) is read into the window, CR LF dropped -/
theorem readLine_ok : ∀ (ds : Bytes) (t : Bytes) (st : RState) (fuel : Nat),
    (∀ x ∈ ds, x ≠ 10) → srcFlat st.src = ds ++ 13 :: 10 :: t → ds.length + 2 ≤ fuel →
    ∃ src', srcFlat src' = t ∧ readLine st fuel = .ok () ⟨src', st.before, st.win ++ ds⟩ := by
  intro ds
  induction ds with
  | nil =>
    intro t st fuel _ hf hfuel
    match fuel, hfuel with
    | fuel + 2, _ =>
      obtain ⟨s1, hs1, e1⟩ := readByte_cons (st := st) hf
      obtain ⟨s2, hs2, e2⟩ := readByte_cons (st := ⟨s1, st.before, st.win ++ [13]⟩) hs1
      refine ⟨s2, hs2, ?_⟩
      unfold readLine
      simp only [e1]
      have : ¬ ((st.win ++ [13]).length > 1 ∧ (st.win ++ [13]).getLast? = some 10) := by simp
      rw [if_neg this]
      unfold readLine
      simp only [e2]
      have : ((st.win ++ [13] ++ [10]).length > 1 ∧ (st.win ++ [13] ++ [10]).getLast? = some 10) := by simp
      rw [if_pos this]
      simp
  | cons d ds ih =>
    intro t st fuel hd hf hfuel
    match fuel, hfuel with
    | fuel + 1, hfuel =>
      obtain ⟨s1, hs1, e1⟩ := readByte_cons (st := st) hf
      obtain ⟨s2, hs2, e2⟩ := ih t ⟨s1, st.before, st.win ++ [d]⟩ fuel (fun x hx => hd x (by simp [hx])) hs1
        (by simp at hfuel; omega)
      refine ⟨s2, hs2, ?_⟩
      unfold readLine
      simp only [e1]
      have : ¬ ((st.win ++ [d]).length > 1 ∧ (st.win ++ [d]).getLast? = some 10) := by
        simp; intro _; exact hd d (by simp)
      rw [if_neg this, e2]
      simp

/-- a decimal line is read as that integer -/
theorem readInteger_ok (n : Nat) (hn : (n : Int) ≤ int64Max) (t : Bytes) (st : RState)
    (hw : st.win = []) (hf : srcFlat st.src = formatInt (n : Int) ++ 13 :: 10 :: t) :
    ∃ st', readInteger st = .ok (n : Int) st' ∧ srcFlat st'.src = t ∧ st'.win = [] := by
  have hfi : formatInt (n : Int) = natDigits n := by simp [formatInt]
  rw [hfi] at hf
  obtain ⟨s1, hs1, e1⟩ := readLine_ok (natDigits n) t st (remaining st + 1) (natDigits_ne_lf n) hf
    (by simp [remaining, hf])
  unfold readInteger
  simp only [e1, hw, List.nil_append]
  rw [← hfi, parseInt64_formatInt_nat n hn]
  exact ⟨_, rfl, hs1, rfl⟩

/-- exactly `b.length` bytes are read, whatever they are -/
theorem readByteN_ok (b t : Bytes) (st : RState) (hw : st.win = []) (hf : srcFlat st.src = b ++ t)
    (fuel : Nat) (hfuel : remaining st < fuel) :
    ∃ st', readByteN st b.length fuel = .ok () st' ∧ srcFlat st'.src = t ∧ st'.win = b ∧ st'.before = st.before := by
  have h := readByteN_spec b.length fuel st hfuel
  simp only [readByteNF, hw, hf, List.length_nil, List.nil_append, Nat.sub_zero] at h
  by_cases hb : b.length = 0
  · have : b = [] := List.eq_nil_of_length_eq_zero hb
    subst this
    simp at h
    rcases h.cases with ⟨a, p, q, e1, e2, hpq⟩ | ⟨e, p, q, e1, e2, hpq⟩ | ⟨e1, e2⟩
    · cases e2; exact ⟨p, e1, by simpa using hpq.1, hpq.2.2, hpq.2.1⟩
    · cases e2
    · cases e2
  · have h1 : ¬ (0 ≥ b.length) := by omega
    have h2 : (b ++ t).length ≥ b.length := by simp
    simp only [h1, if_false, h2, if_true] at h
    rcases h.cases with ⟨a, p, q, e1, e2, hpq⟩ | ⟨e, p, q, e1, e2, hpq⟩ | ⟨e1, e2⟩
    · cases e2; exact ⟨p, e1, by simpa using hpq.1, by simpa using hpq.2.2, hpq.2.1⟩
    · cases e2
    · cases e2

theorem encodeBulk_eq (b : Bytes) :
    encodeBulk b = 36 :: (formatInt (b.length : Int) ++ 13 :: 10 :: (b ++ 13 :: 10 :: [])) := by
  simp [encodeBulk, Spec.RespEnc.crlf]

/-- one bulk string: any payload up to the 512 MiB limit -/
theorem readBulk_ok (b t : Bytes) (hb : (b.length : Int) ≤ maxBulk) (st : RState) (hw : st.win = [])
    (hf : srcFlat st.src = encodeBulk b ++ t) :
    ∃ st', readBulk st = .ok b st' ∧ srcFlat st'.src = t ∧ st'.win = [] := by
  rw [encodeBulk_eq] at hf
  simp only [List.cons_append, List.append_assoc, List.nil_append] at hf
  obtain ⟨s1, hs1, e1⟩ := readByte_cons hf
  have hmb : (b.length : Int) ≤ int64Max := by simp [maxBulk, int64Max] at *; omega
  obtain ⟨st2, e2, hs2, hw2⟩ := readInteger_ok b.length hmb _ (malloc ⟨s1, st.before, st.win ++ [36]⟩)
    (by simp [malloc]) (by simpa [malloc] using hs1)
  obtain ⟨st3, e3, hs3, hw3, _⟩ := readByteN_ok b (13 :: 10 :: t) st2 hw2 hs2 (remaining st2 + 1) (Nat.lt_succ_self _)
  obtain ⟨s4, hs4, e4⟩ := readLine_ok [] t (malloc st3) (remaining (malloc st3) + 1) (by simp)
    (by simpa [malloc] using hs3) (by simp [remaining, malloc, hs3])
  unfold readBulk
  simp only [e1, hw, List.nil_append, List.head?_cons, ne_eq, not_true_eq_false, if_false]
  rw [hw] at e2
  simp only [List.nil_append] at e2
  simp only [e2]
  have : ¬ ((b.length : Int) < 0 ∨ (b.length : Int) > maxBulk) := by omega
  rw [if_neg this]
  simp only [Int.toNat_natCast, e3, e4, hw3]
  exact ⟨_, rfl, by simpa [malloc] using hs4, by simp [malloc]⟩

/-- the bulk loop of `ReadCommand` -/
theorem readBulks_ok : ∀ (bs : List Bytes) (t : Bytes) (st : RState) (acc : List Bytes),
    (∀ b ∈ bs, (b.length : Int) ≤ maxBulk) → st.win = [] → srcFlat st.src = bs.flatMap encodeBulk ++ t →
    ∃ st', readBulks st bs.length acc = .ok (acc.reverse ++ bs) st' ∧ srcFlat st'.src = t ∧ st'.win = [] := by
  intro bs
  induction bs with
  | nil => intro t st acc _ hw hf; exact ⟨st, by simp [readBulks], by simpa using hf, hw⟩
  | cons b bs ih =>
    intro t st acc hb hw hf
    simp only [List.flatMap_cons, List.append_assoc] at hf
    obtain ⟨st1, e1, hs1, hw1⟩ := readBulk_ok b _ (hb b (by simp)) st hw hf
    obtain ⟨st2, e2, hs2, hw2⟩ := ih t st1 (b :: acc) (fun x hx => hb x (by simp [hx])) hw1 hs1
    refine ⟨st2, ?_, hs2, hw2⟩
    simp only [List.length_cons, readBulks, e1, e2]
    simp

/-- `ReadCommand` on an encoded command followed by anything, in any chunking -/
theorem readCommand_encode (name : Bytes) (args : List Bytes) (rest : Bytes) (src : Source)
    (hname : (name.length : Int) ≤ maxBulk) (hargs : ∀ a ∈ args, (a.length : Int) ≤ maxBulk)
    (hcount : ((1 + args.length : Nat) : Int) ≤ int64Max)
    (hf : srcFlat src = encodeCommand name args ++ rest) :
    ∃ st, readCommand src = .ok { name := upper name, args := args } st ∧ srcFlat st.src = rest ∧ st.win = [] := by
  have henc : encodeCommand name args ++ rest =
      42 :: (formatInt ((1 + args.length : Nat) : Int) ++ 13 :: 10 :: ((name :: args).flatMap encodeBulk ++ rest)) := by
    simp [encodeCommand, Spec.RespEnc.crlf]
  rw [henc] at hf
  obtain ⟨s1, hs1, e1⟩ := readByte_cons (st := { src := src }) hf
  obtain ⟨st2, e2, hs2, hw2⟩ := readInteger_ok (1 + args.length) hcount _ (malloc ⟨s1, none, [] ++ [42]⟩)
    (by simp [malloc]) (by simpa [malloc] using hs1)
  obtain ⟨st3, e3, hs3, hw3⟩ := readBulks_ok (name :: args) rest st2 []
    (by intro b hb; simp at hb; rcases hb with rfl | hb; exact hname; exact hargs b hb) hw2 (by simpa using hs2)
  refine ⟨st3, ?_, hs3, hw3⟩
  unfold readCommand
  simp only [e1, List.nil_append, List.head?_cons, ne_eq, not_true_eq_false, if_false]
  simp only [List.nil_append] at e2
  simp only [e2, Int.toNat_natCast]
  have : 1 + args.length = (name :: args).length := by simp; omega
  rw [this, e3]
  simp

/-! ### beyond the 512 MiB limit: an error, never a panic, never a truncated argument -/

theorem readInteger_line (ds t : Bytes) (st : RState) (hd : ∀ x ∈ ds, x ≠ 10) (hw : st.win = [])
    (hf : srcFlat st.src = ds ++ 13 :: 10 :: t) :
    ∃ st', srcFlat st'.src = t ∧ st'.win = [] ∧
      readInteger st = (match parseInt64 ds with | some v => .ok v st' | none => .err .badInteger st') := by
  obtain ⟨s1, hs1, e1⟩ := readLine_ok ds t st (remaining st + 1) hd hf (by simp [remaining, hf])
  refine ⟨malloc ⟨s1, st.before, st.win ++ ds⟩, by simpa [malloc] using hs1, by simp [malloc], ?_⟩
  unfold readInteger
  simp only [e1, hw, List.nil_append]
  cases parseInt64 ds <;> rfl

theorem readBulk_too_large (b t : Bytes) (hb : (b.length : Int) > maxBulk) (st : RState) (hw : st.win = [])
    (hf : srcFlat st.src = encodeBulk b ++ t) : ∃ e st', readBulk st = .err e st' := by
  rw [encodeBulk_eq] at hf
  simp only [List.cons_append, List.append_assoc, List.nil_append] at hf
  obtain ⟨s1, hs1, e1⟩ := readByte_cons hf
  have hfi : formatInt (b.length : Int) = natDigits b.length := by simp [formatInt]
  rw [hfi] at hs1
  obtain ⟨st2, hs2, hw2, e2⟩ := readInteger_line (natDigits b.length) _ (malloc ⟨s1, st.before, st.win ++ [36]⟩)
    (natDigits_ne_lf _) (by simp [malloc]) (by simpa [malloc] using hs1)
  rw [parseInt64_digits _ (natDigits_ne_nil _) (isDigit_natDigits _), digitsToNat_natDigits] at e2
  unfold readBulk
  simp only [e1, hw, List.nil_append, List.head?_cons, ne_eq, not_true_eq_false, if_false]
  rw [hw] at e2
  simp only [List.nil_append] at e2
  by_cases hi : inInt64 (b.length : Int) = true
  · simp only [hi, if_true] at e2
    simp only [e2]
    have : ((b.length : Int) < 0 ∨ (b.length : Int) > maxBulk) := .inr hb
    rw [if_pos this]
    exact ⟨_, _, rfl⟩
  · simp only [hi] at e2
    simp only [e2]
    exact ⟨_, _, rfl⟩

theorem readBulks_too_large : ∀ (pre : List Bytes) (b : Bytes) (t : Bytes) (k : Nat) (st : RState) (acc : List Bytes),
    (∀ x ∈ pre, (x.length : Int) ≤ maxBulk) → (b.length : Int) > maxBulk → st.win = [] →
    srcFlat st.src = pre.flatMap encodeBulk ++ (encodeBulk b ++ t) →
    ∃ st', readBulks st (pre.length + (k + 1)) acc = .err .expectedArray st' := by
  intro pre
  induction pre with
  | nil =>
    intro b t k st acc _ hb hw hf
    obtain ⟨e, st', h⟩ := readBulk_too_large b t hb st hw (by simpa using hf)
    refine ⟨st', ?_⟩
    rw [show ([] : List Bytes).length + (k + 1) = k + 1 by simp, readBulks]
    simp only [h]
  | cons x pre ih =>
    intro b t k st acc hpre hb hw hf
    simp only [List.flatMap_cons, List.append_assoc] at hf
    obtain ⟨st1, e1, hs1, hw1⟩ := readBulk_ok x _ (hpre x (by simp)) st hw hf
    obtain ⟨st2, e2⟩ := ih b t k st1 (x :: acc) (fun y hy => hpre y (by simp [hy])) hb hw1 hs1
    refine ⟨st2, ?_⟩
    have : (x :: pre).length + (k + 1) = (pre.length + (k + 1)) + 1 := by simp; omega
    rw [this, readBulks]
    simp only [e1]
    exact e2

theorem readCommand_too_large (name : Bytes) (args : List Bytes) (rest : Bytes) (src : Source)
    (pre : List Bytes) (b : Bytes) (post : List Bytes) (hsplit : name :: args = pre ++ b :: post)
    (hpre : ∀ x ∈ pre, (x.length : Int) ≤ maxBulk) (hb : (b.length : Int) > maxBulk)
    (hcount : ((1 + args.length : Nat) : Int) ≤ int64Max)
    (hf : srcFlat src = encodeCommand name args ++ rest) :
    ∃ st, readCommand src = .err .expectedArray st := by
  have henc : encodeCommand name args ++ rest =
      42 :: (formatInt ((1 + args.length : Nat) : Int) ++ 13 :: 10 :: ((name :: args).flatMap encodeBulk ++ rest)) := by
    simp [encodeCommand, Spec.RespEnc.crlf]
  rw [henc] at hf
  obtain ⟨s1, hs1, e1⟩ := readByte_cons (st := { src := src }) hf
  obtain ⟨st2, e2, hs2, hw2⟩ := readInteger_ok (1 + args.length) hcount _ (malloc ⟨s1, none, [] ++ [42]⟩)
    (by simp [malloc]) (by simpa [malloc] using hs1)
  have hs2' : srcFlat st2.src = (name :: args).flatMap encodeBulk ++ rest := by simpa using hs2
  rw [hsplit] at hs2'
  obtain ⟨st3, e3⟩ := readBulks_too_large pre b (post.flatMap encodeBulk ++ rest) post.length st2 [] hpre hb hw2
    (by simpa using hs2')
  refine ⟨st3, ?_⟩
  unfold readCommand
  simp only [e1, List.nil_append, List.head?_cons, ne_eq, not_true_eq_false, if_false]
  simp only [List.nil_append] at e2
  simp only [e2, Int.toNat_natCast]
  have : 1 + args.length = pre.length + (post.length + 1) := by
    have := congrArg List.length hsplit
    simp at this; omega
  rw [this, e3]

end NodisVerif.Proofs.C15
