import NodisVerif.Model.TxProg
/-
  `lockKeys` produces a strictly increasing list of keys: `Call.begin (lockPlan write read)` is always a command
  of the program model.
-/
namespace NodisVerif.Proofs.TxProg
open NodisVerif.Proto (Key)
open NodisVerif.TxProg

theorem sortedKeys_cons_iff (a b : Key) (l : List Key) :
    sortedKeys (a :: b :: l) = true ↔ a < b ∧ sortedKeys (b :: l) = true := by
  simp [sortedKeys]

/-- the head of an insertion is the inserted key or the old head -/
theorem insertItem_head (k : Key) (w : Bool) (l : List PlanItem) :
    ∃ x rest, insertItem k w l = x :: rest ∧ (x.1 = k ∨ ∃ y ys, l = y :: ys ∧ x.1 = y.1) := by
  cases l with
  | nil => exact ⟨_, _, rfl, Or.inl rfl⟩
  | cons y ys =>
    obtain ⟨k', w', p'⟩ := y
    simp only [insertItem]
    split
    · exact ⟨_, _, rfl, Or.inl rfl⟩
    · split
      · exact ⟨_, _, rfl, Or.inr ⟨_, _, rfl, rfl⟩⟩
      · exact ⟨_, _, rfl, Or.inr ⟨_, _, rfl, rfl⟩⟩

theorem insertItem_sorted (k : Key) (w : Bool) (l : List PlanItem) (h : sortedPlan l = true) :
    sortedPlan (insertItem k w l) = true := by
  induction l with
  | nil => simp [insertItem, sortedPlan, sortedKeys]
  | cons y ys ih =>
    obtain ⟨k', w', p'⟩ := y
    simp only [insertItem]
    split
    · rename_i hlt
      simp only [sortedPlan, List.map_cons] at h ⊢
      exact (sortedKeys_cons_iff _ _ _).2 ⟨hlt, h⟩
    · rename_i hnlt
      split
      · simpa [sortedPlan] using h
      · rename_i hne
        have hgt : k' < k := Std.lt_of_le_of_ne (String.not_lt.1 hnlt) (fun e => hne e.symm)
        have htail : sortedPlan ys = true := by
          simp only [sortedPlan, List.map_cons] at h ⊢
          cases hm : ys.map (·.1) with
          | nil => rfl
          | cons b bs => rw [hm] at h; exact ((sortedKeys_cons_iff _ _ _).1 h).2
        have ih' := ih htail
        obtain ⟨x, rest, hx, hhead⟩ := insertItem_head k w ys
        rw [hx] at ih' ⊢
        simp only [sortedPlan, List.map_cons] at ih' ⊢
        refine (sortedKeys_cons_iff _ _ _).2 ⟨?_, ih'⟩
        rcases hhead with e | ⟨y, ys', hys, e⟩
        · rw [e]; exact hgt
        · rw [e]
          subst hys
          simp only [sortedPlan, List.map_cons] at h
          exact ((sortedKeys_cons_iff _ _ _).1 h).1

theorem foldl_insert_sorted (w : Bool) (ks : List Key) (acc : List PlanItem) (h : sortedPlan acc = true) :
    sortedPlan (ks.foldl (fun acc k => insertItem k w acc) acc) = true := by
  induction ks generalizing acc with
  | nil => exact h
  | cons k ks ih => exact ih _ (insertItem_sorted k w acc h)

/-- what `sort.Strings` over the keys of the `mode` map gives: strictly increasing keys -/
theorem lockPlan_sorted (write read : List Key) : sortedPlan (lockPlan write read) = true :=
  foldl_insert_sorted true write _ (foldl_insert_sorted false read [] rfl)

/-- so a multi-key command can always begin -/
theorem begin_lockPlan_enabled (c : Cfg) (t : Tid) (hpc : (c.loc t).pc = .init) (write read : List Key)
    (ch : Choice) (hc : ch.call = .begin (lockPlan write read)) : (TxProg.step c t ch).isSome = true := by
  unfold TxProg.step
  simp [tstep, hpc, hc, lockPlan_sorted]

example : lockPlan ["b", "a"] ["c", "a"] = [("a", true, true), ("b", true, true), ("c", false, true)] := by decide

end NodisVerif.Proofs.TxProg
