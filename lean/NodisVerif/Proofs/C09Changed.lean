import NodisVerif.Proofs.C09Run
import NodisVerif.Proofs.C08Queues
import NodisVerif.Proofs.C09Writers
/-
  C09 — from "signalled" to "changed": if every closure of the handler table tells the watchers about
  every key whose logical content it changes (`SignalsChanges`, discharged command by command from the
  `writers_signal_*` / `frame_*` table), then a step that changes key k touches k.
-/
namespace NodisVerif.Proofs.C08Step
open Resp Server
open NodisVerif.Proofs.C09Writers

/-- the store effect `o` of a closure started on `st` tells the watchers about every key whose
    logical content (`C09Writers.changed`) it changed: the key is in `signalled`, or the whole store
    was cleared (`flushed`), which flags every watched key -/
def TellsChanges (st : MState) (o : BodyOut) : Prop :=
  o.store.pebble = true ∧ ∀ k, changed st o.store k → k ∈ o.store.signalled ∨ o.store.flushed = true

/-- a closure that does so on every Pebble-backed store, whenever it is started with an empty
    `signalled` list (as `runBody` does) -/
def SignalsChanges (b : Body) : Prop :=
  ∀ st now ch, st.pebble = true → st.signalled = [] → TellsChanges st (b st now ch)

/-- well-formedness of a handler table for C09: every closure it hands to `execCommand` signals
    what it changes -/
def TableSignals (H : Table) : Prop := ∀ name args b, H name args = some (.exec b) → SignalsChanges b

/-- every queued closure of every connection signals what it changes (invariant of `run` under
    `TableSignals`) -/
def QueuesSignal (sv : Server) : Prop := ∀ i, ∀ b ∈ (sv.conn i).queue, SignalsChanges b

theorem okBody_signals : SignalsChanges okBody := by
  intro st now ch hp _
  refine ⟨hp, fun k hk => ?_⟩
  exact absurd (unchanged_refl _) hk

theorem prep_pebble (st : MState) : (prep st).pebble = st.pebble := rfl
theorem storeAfter_pebble (o : BodyOut) : (storeAfter o).pebble = o.store.pebble := rfl

theorem outOf_tells {b : Body} (hb : SignalsChanges b) (st : MState) (hp : st.pebble = true) (now : Int) (ch : Choice) :
    (outOf st now ch b).store.pebble = true ∧
    ∀ k, changed st (storeAfter (outOf st now ch b)) k →
      k ∈ (outOf st now ch b).store.signalled ∨ (outOf st now ch b).store.flushed = true := by
  have h := hb (prep st) now ch hp rfl
  refine ⟨h.1, fun k hk => h.2 k ?_⟩
  have e : changed (prep st) (outOf st now ch b).store k ↔ changed st (storeAfter (outOf st now ch b)) k :=
    changed_congr (s := st) (t := prep st) (s' := storeAfter (outOf st now ch b)) (t' := (outOf st now ch b).store) rfl rfl k
  exact e.mpr hk

/-- a chain of closures: a key changed between the first store and the last was touched by one of them -/
theorem execOuts_tells (now : Int) : ∀ (bs : List Body) (st : MState), st.pebble = true →
    (∀ b ∈ bs, SignalsChanges b) →
    (execStore st now bs).pebble = true ∧
    ∀ k, changed st (execStore st now bs) k → touched (execOuts st now bs) k := by
  intro bs
  induction bs with
  | nil =>
    intro st hp _
    exact ⟨hp, fun k hk => absurd (unchanged_refl _) hk⟩
  | cons b rest ih =>
    intro st hp hb
    have h1 := outOf_tells (hb b (by simp)) st hp now none
    have h2 := ih (storeAfter (outOf st now none b)) (by rw [storeAfter_pebble]; exact h1.1)
      (fun b' hb' => hb b' (by simp [hb']))
    refine ⟨h2.1, fun k hk => ?_⟩
    by_cases hc1 : changed st (storeAfter (outOf st now none b)) k
    · exact ⟨_, by simp [execOuts], h1.2 k hc1⟩
    · by_cases hc2 : changed (storeAfter (outOf st now none b)) (execStore (storeAfter (outOf st now none b)) now rest) k
      · obtain ⟨o, ho, hk'⟩ := h2.2 k hc2
        exact ⟨o, by simp [execOuts, ho], hk'⟩
      · exfalso
        apply hk
        have u1 : unchanged _ _ := Classical.not_not.mp hc1
        have u2 : unchanged _ _ := Classical.not_not.mp hc2
        exact unchanged_trans u1 u2

theorem QueuesSignal.init (st : MState) : QueuesSignal { store := st } := by
  intro i b hb
  simp [Server.conn] at hb

/-- a step that changes the logical content of key k (store before vs. store after) touches k —
    for tables whose closures signal what they change, on Pebble-backed stores -/
theorem step_changed_touches {H : Table} (hH : TableSignals H) {sv : Server} (hq : QueuesSignal sv)
    (hp : sv.store.pebble = true) (c : Cmd) :
    (step H sv c).1.store.pebble = true ∧
    ∀ k, changed sv.store (step H sv c).1.store k → stepTouches H sv c k := by
  rw [step_store]
  have single : ∀ b, SignalsChanges b →
      (lastStore sv.store [outOf sv.store c.now c.ch b]).pebble = true ∧
      ∀ k, changed sv.store (lastStore sv.store [outOf sv.store c.now c.ch b]) k → touched [outOf sv.store c.now c.ch b] k := by
    intro b hb
    have h := outOf_tells hb sv.store hp c.now c.ch
    exact ⟨h.1, fun k hk => ⟨_, by simp, h.2 k hk⟩⟩
  have none' : (lastStore sv.store []).pebble = true ∧
      ∀ k, changed sv.store (lastStore sv.store []) k → touched [] k :=
    ⟨hp, fun k hk => absurd (unchanged_refl _) hk⟩
  rw [show stepTouches H sv c = touched (stepOuts H sv c) from rfl]
  unfold stepOuts
  split
  · split
    · rw [lastStore_execOuts]
      exact execOuts_tells c.now _ sv.store hp (hq c.id)
    · exact none'
  split
  · exact none'
  split
  · split
    · exact single okBody okBody_signals
    · exact none'
  split
  · next b hb =>
    split
    · exact single b (hH _ _ b hb)
    · exact none'
  · exact none'

/-- the queue invariant is preserved by every step -/
theorem QueuesSignal.step {H : Table} (hH : TableSignals H) {sv : Server} (hq : QueuesSignal sv) (c : Cmd) :
    QueuesSignal (C08Step.step H sv c).1 :=
  QueuesSat.step (P := SignalsChanges) okBody_signals hH hq c

theorem QueuesSignal.run {H : Table} (hH : TableSignals H) (cs : List Cmd) {sv : Server} (hq : QueuesSignal sv) :
    QueuesSignal (C08Step.run H sv cs).1 :=
  QueuesSat.run (P := SignalsChanges) okBody_signals hH cs hq

end NodisVerif.Proofs.C08Step
