import NodisVerif.Proofs.C12Fail
/-
  C12 (and C11-B): API commands as *key transactions*.

  Almost every command of Model/Api.lean has the shape
    look the key up (writeKey with or without constructor / readKey);
    decide from the value and deadline found: reply only / rewrite value and-or deadline, signal,
    notify / rewrite, unlink, notify.
  `keyTx` is that shape as a combinator, `keyTx_spec` says once and for all that such a command
  preserves the invariant and that its reply and its effect on the logical keyspace are functions
  of the logical content of the key alone (`txSpec`) — whether the value was hot or cold.
-/
namespace NodisVerif.Proofs.C11
open NodisVerif.Store NodisVerif.Codec NodisVerif.Spec.Persist
open NodisVerif.Proofs.AListLemmas NodisVerif.Proofs.AListLemmas2 NodisVerif.Proofs.C11AList

/-- what a command does once it holds the (hot) record -/
inductive Act
  | keep (r : Out)
  | put (v' : Option Val) (e' : Option Int) (ops : List FeedOp) (r : Out)
  | drop (v' : Val) (ops : List FeedOp) (r : Out)

def emits (s : MState) (ops : List FeedOp) : MState := ops.foldl emit s

def optSetVal (s : MState) (key : Bytes) : Option Val → MState
  | some v' => Api.setVal s key v'
  | none => s
def optSetExp (s : MState) (key : Bytes) : Option Int → MState
  | some e' => Api.setExp s key e'
  | none => s

def runAct (s : MState) (key : Bytes) : Act → Api.R
  | .keep r => (s, r)
  | .put v' e' ops r => (emits (signal (optSetExp (optSetVal s key v') key e') key) ops, r)
  | .drop v' ops r => (emits (signal (delKey (Api.setVal s key v') key) key) ops, r)

def keyTx (write : Bool) (mk : Option Val) (miss : Out) (nov : MState → Api.R) (dec : Val → Int → Act)
    (s : MState) (now : Int) (key : Bytes) : Api.R :=
  let r := if write then writeKey s now key mk else readKey s now key
  if !r.2 && mk.isNone then (r.1, miss) else
  match valOf r.1 key with
  | some v => runAct r.1 key (dec v (Api.expOf r.1 key))
  | none => nov r.1   -- cannot happen: a record handed back by the lookup is hot

namespace Act
def reply : Act → Out
  | keep r => r
  | put _ _ _ r => r
  | drop _ _ r => r

/-- the new content of the key: `none` = untouched, `some none` = removed -/
def eff (a : Act) (v : Val) (e : Int) : Option (Option (Val × Int)) :=
  match a with
  | keep _ => none
  | put v' e' _ _ => some (some (v'.getD v, e'.getD e))
  | drop _ _ _ => some none

def GoodA : Act → Prop
  | keep _ => True
  | put v' e' _ _ => (∀ v, v' = some v → Good v) ∧ (∀ e, e' = some e → inInt64 e = true)
  | drop v' _ _ => Good v'
end Act

/-- a (value, deadline) pair as seen at time `t'` -/
def filt (c : Val × Int) (t' : Int) : Option (Val × Int) :=
  if (c.2 != 0 && decide (c.2 ≤ t')) = true then none else some c

theorem emit_fields (s : MState) (op : FeedOp) :
    (emit s op).index = s.index ∧ (emit s op).disk = s.disk ∧ (emit s op).pebble = s.pebble ∧
    (emit s op).nextId = s.nextId ∧ (emit s op).failSet = s.failSet := by
  unfold emit; split <;> exact ⟨rfl, rfl, rfl, rfl, rfl⟩

theorem emits_fields (ops : List FeedOp) : ∀ (s : MState),
    (emits s ops).index = s.index ∧ (emits s ops).disk = s.disk ∧ (emits s ops).pebble = s.pebble ∧
    (emits s ops).nextId = s.nextId ∧ (emits s ops).failSet = s.failSet := by
  induction ops with
  | nil => intro s; exact ⟨rfl, rfl, rfl, rfl, rfl⟩
  | cons op rest ih =>
    intro s
    obtain ⟨a, b, c, d, e⟩ := ih (emit s op)
    obtain ⟨a', b', c', d', e'⟩ := emit_fields s op
    exact ⟨by rw [← a']; exact a, by rw [← b']; exact b, by rw [← c']; exact c, by rw [← d']; exact d,
      by rw [← e']; exact e⟩

theorem inv_emits {s : MState} {x : Option Bytes} {t : Int} (h : StoreInvX s x t) (ops : List FeedOp) :
    StoreInvX (emits s ops) x t := by
  obtain ⟨a, b, c, d, _⟩ := emits_fields ops s
  exact h.congr a b c d

theorem lookup_emits (s : MState) (ops : List FeedOp) (t' : Int) (k : Bytes) :
    lookup (emits s ops) t' k = lookup s t' k := by
  obtain ⟨a, b, c, _, _⟩ := emits_fields ops s
  exact lookup_congr a b c _ _

theorem view_put {s : MState} {t' : Int} {k : Bytes} {m : Meta} {v : Val} (hv : m.value = some v)
    (hok : m.isOk = true) : view s t' k m = filt (v, m.exp) t' := by
  rw [view_hot' s t' k hv, hok]
  simp only [filt, Meta.expired, Bool.true_and]
  by_cases hc : (m.exp != 0 && decide (m.exp ≤ t')) = true <;> simp [hc]

theorem signal_fields (s : MState) (k : Bytes) :
    (signal s k).disk = s.disk ∧ (signal s k).pebble = s.pebble ∧ (signal s k).failSet = s.failSet := by
  simp only [signal, modMeta]
  cases getMeta s k <;> exact ⟨rfl, rfl, rfl⟩

theorem delKey_fields (s : MState) (k : Bytes) :
    (delKey s k).pebble = s.pebble ∧ (delKey s k).failSet = s.failSet := by
  simp only [delKey]
  cases AList.get? s.index k with
  | none => exact ⟨rfl, rfl⟩
  | some m => simp only [unpersist]; cases m.stored <;> exact ⟨rfl, rfl⟩

theorem setExp_fields (s : MState) (k : Bytes) (e : Int) :
    (Api.setExp s k e).pebble = s.pebble ∧ (Api.setExp s k e).failSet = s.failSet := by
  simp only [Api.setExp]
  cases getMeta s k <;> exact ⟨rfl, rfl⟩

/-- running an action on a hot record -/
theorem runAct_spec {s : MState} {t : Int} (h : StoreInvX s none t) {key : Bytes} {m : Meta} {v : Val}
    (hm : AList.get? s.index key = some m) (hv : m.value = some v) (a : Act) (ha : a.GoodA) :
    StoreInvX (runAct s key a).1 none t ∧ (runAct s key a).1.pebble = s.pebble ∧
    (runAct s key a).1.failSet = s.failSet ∧ (runAct s key a).2 = a.reply ∧
    ∀ t', t ≤ t' → ∀ k', lookup (runAct s key a).1 t' k' =
      match a.eff v m.exp with
      | none => lookup s t' k'
      | some c => if k' = key then c.bind (filt · t') else lookup s t' k' := by
  have r := h.recs key m hm
  have hsome : m.value.isSome = true := by simp [hv]
  have hxk : ∀ k', k' ≠ key → (none : Option Bytes) ≠ some k' := fun _ _ => by simp
  have hxk' : ∀ k', k' ≠ key → (some key : Option Bytes) ≠ some k' := by
    intro k' hk c; exact hk (Option.some.inj c).symm
  cases a with
  | keep rr =>
    exact ⟨h, rfl, rfl, rfl, fun _ _ _ => rfl⟩
  | put v' e' ops rr =>
    obtain ⟨gv, ge⟩ := ha
    -- step 1: optional setVal
    have st1 : ∃ s1, optSetVal s key v' = s1 ∧
        StoreInvX s1 (some key) t ∧ s1.pebble = s.pebble ∧ s1.failSet = s.failSet ∧
        AList.get? s1.index key = some { m with value := some (v'.getD v) } ∧
        (∀ t', t ≤ t' → ∀ k', k' ≠ key → lookup s1 t' k' = lookup s t' k') := by
      cases v' with
      | none =>
        refine ⟨s, rfl, h.exempt_irrelevant hxk, rfl, rfl, ?_, fun _ _ _ _ => rfl⟩
        rw [hm]; cases m; simp_all
      | some v1 =>
        show ∃ s1, Api.setVal s key v1 = s1 ∧ _
        refine ⟨_, rfl, inv_setVal h hxk hm hsome (gv v1 rfl), (setVal_fields key v1).1,
          (setVal_fields key v1).2.2, ?_, ?_⟩
        · rw [get?_setVal_index h hm hsome]; simp
        · intro t' ht' k' hk; rw [lookup_setVal h ht' hm hsome]; simp [hk]
    obtain ⟨s1, e1, i1, p1, f1, g1, l1⟩ := st1
    -- step 2: optional setExp
    have st2 : ∃ s2, optSetExp s1 key e' = s2 ∧
        StoreInvX s2 (some key) t ∧ s2.pebble = s.pebble ∧ s2.failSet = s.failSet ∧
        AList.get? s2.index key = some { m with value := some (v'.getD v), exp := e'.getD m.exp } ∧
        (∀ t', t ≤ t' → ∀ k', k' ≠ key → lookup s2 t' k' = lookup s t' k') := by
      cases e' with
      | none => exact ⟨s1, rfl, i1, p1, f1, g1, l1⟩
      | some e2 =>
        show ∃ s2, Api.setExp s1 key e2 = s2 ∧ _
        refine ⟨_, rfl, inv_setExp i1 hxk' g1 rfl (ge e2 rfl), by rw [(setExp_fields _ _ _).1, p1],
          by rw [(setExp_fields _ _ _).2, f1], ?_, ?_⟩
        · simp [Api.setExp, getMeta, g1, putMeta, get?_set]
        · intro t' ht' k' hk; rw [lookup_setExp g1]; simp [hk, l1 t' ht' k' hk]
    obtain ⟨s2, e2, i2, p2, f2, g2, l2⟩ := st2
    simp only [runAct, e1, e2]
    have i3 := inv_signal i2 key hxk'
    refine ⟨inv_emits i3 ops, by rw [(emits_fields ops _).2.2.1, (signal_fields _ _).2.1, p2],
      by rw [(emits_fields ops _).2.2.2.2, (signal_fields _ _).2.2, f2], rfl, ?_⟩
    intro t' ht' k'
    rw [lookup_emits, lookup_signal]
    simp only [Act.eff]
    by_cases hk : k' = key
    · subst hk
      simp only [if_true, Option.bind_some, lookup, getMeta, g2]
      exact view_put (m := { m with value := some (v'.getD v), exp := e'.getD m.exp }) rfl r.ok
    · simp only [hk, if_false]; exact l2 t' ht' k' hk
  | drop v1 ops rr =>
    have i1 := inv_setVal h hxk hm hsome (ha : Good v1)
    have i2 := inv_delKey i1 key hxk'
    have i3 := inv_signal i2 key hxk
    simp only [runAct]
    refine ⟨inv_emits i3 ops,
      by rw [(emits_fields ops _).2.2.1, (signal_fields _ _).2.1, (delKey_fields _ _).1, (setVal_fields key v1).1],
      by rw [(emits_fields ops _).2.2.2.2, (signal_fields _ _).2.2, (delKey_fields _ _).2, (setVal_fields key v1).2.2],
      rfl, ?_⟩
    intro t' ht' k'
    rw [lookup_emits, lookup_signal, lookup_delKey i1 ht']
    simp only [Act.eff]
    by_cases hk : k' = key
    · simp [hk]
    · simp only [hk, if_false]; rw [lookup_setVal h ht' hm hsome]; simp [hk]

/-- reply and effect of a key transaction as a function of the logical content of the key -/
def txSpec (mk : Option Val) (miss : Out) (dec : Val → Int → Act) (L : Option (Val × Int)) :
    Out × Option (Option (Val × Int)) :=
  match L, mk with
  | some (v, e), _ => ((dec v e).reply, (dec v e).eff v e)
  | none, some v0 => ((dec v0 0).reply, some (((dec v0 0).eff v0 0).getD (some (v0, 0))))
  | none, none => (miss, none)

/-- the logical keyspace after a transaction on `key` with effect `eff` -/
def applyEff (eff : Option (Option (Val × Int))) (key : Bytes) (before : Int → Bytes → Option (Val × Int))
    (t' : Int) (k' : Bytes) : Option (Val × Int) :=
  match eff with
  | none => before t' k'
  | some c => if k' = key then c.bind (filt · t') else before t' k'

structure TxSpec (s : MState) (t now : Int) (key : Bytes) (sp : Out × Option (Option (Val × Int)))
    (r : Api.R) : Prop where
  inv : StoreInvX r.1 none t
  peb : r.1.pebble = s.pebble
  fail : r.1.failSet = s.failSet
  reply : r.2 = sp.1
  look : ∀ t', t ≤ t' → ∀ k', lookup r.1 t' k' = applyEff sp.2 key (lookup s) t' k'

theorem filt_zero (v : Val) (t' : Int) : filt (v, 0) t' = some (v, 0) := by simp [filt]

theorem keyTx_spec {s : MState} {t now : Int} (h : StoreInvX s none t) (ht : t ≤ now) (write : Bool)
    (mk : Option Val) (miss : Out) (nov : MState → Api.R) (dec : Val → Int → Act) (key : Bytes)
    (hw : write = false → mk = none) (hmk : ∀ v, mk = some v → Good v)
    (hdec : ∀ v e, Good v → inInt64 e = true → (dec v e).GoodA) :
    TxSpec s t now key (txSpec mk miss dec (lookup s now key)) (keyTx write mk miss nov dec s now key) := by
  have ks : KeySpec s t now key mk (if write then writeKey s now key mk else readKey s now key) := by
    cases write with
    | true => exact writeKey_spec h ht key mk hmk
    | false => rw [hw rfl]; exact readKey_spec h ht key
  unfold keyTx
  generalize (if write then writeKey s now key mk else readKey s now key) = r at ks
  obtain ⟨s1, ok⟩ := r
  simp only
  -- the hot record after the lookup
  have run : ∀ (m : Meta) (v : Val), AList.get? s1.index key = some m → m.value = some v →
      (match valOf s1 key with
        | some v => runAct s1 key (dec v (Api.expOf s1 key))
        | none => nov s1) = runAct s1 key (dec v m.exp) := by
    intro m v hm hv
    simp [valOf, Api.expOf, getMeta, hm, hv]
  cases hL : lookup s now key with
  | some c =>
    obtain ⟨v, e⟩ := c
    obtain ⟨hok, hl, m, hm, hv, he, _⟩ := ks.hit v e hL
    simp only at hok hm
    simp only [hok, Bool.not_true, Bool.false_and, Bool.false_eq_true, if_false, run m v hm hv, he]
    have hr := ks.inv.recs key m hm
    obtain ⟨a1, a2, a3, a4, a5⟩ := runAct_spec ks.inv hm hv (dec v e)
      (hdec v e (hr.good v hv) (by rw [← he]; exact hr.expR))
    refine ⟨a1, by rw [a2]; exact ks.peb, by rw [a3]; exact ks.fail, a4, ?_⟩
    intro t' ht' k'
    rw [a5 t' ht' k', he]
    simp only [txSpec, applyEff]
    have hsame : lookup s1 t' k' = lookup s t' k' := by
      by_cases hk : k' = key
      · subst hk; exact hl t' ht'
      · exact ks.other t' ht' k' hk
    cases (dec v e).eff v e with
    | none => exact hsame
    | some c =>
      simp only
      by_cases hk : k' = key
      · simp [hk]
      · simp only [hk, if_false]; exact hsame
  | none =>
    cases hmk0 : mk with
    | none =>
      obtain ⟨hok, hl⟩ := ks.miss hL hmk0
      simp only at hok
      simp only [hok, Bool.not_false, Option.isNone_none, Bool.and_self, if_true]
      refine ⟨ks.inv, ks.peb, ks.fail, rfl, ?_⟩
      intro t' ht' k'
      simp only [txSpec, applyEff]
      by_cases hk : k' = key
      · subst hk; exact hl t' ht'
      · exact ks.other t' ht' k' hk
    | some v0 =>
      obtain ⟨hok, hl, m, hm, hv, he, _⟩ := ks.make v0 hL hmk0
      simp only at hok hm
      simp only [hok, Bool.not_true, Bool.false_and, Bool.false_eq_true, if_false, run m v0 hm hv, he]
      have hr := ks.inv.recs key m hm
      obtain ⟨a1, a2, a3, a4, a5⟩ := runAct_spec ks.inv hm hv (dec v0 0)
        (hdec v0 0 (hr.good v0 hv) (by decide))
      refine ⟨a1, by rw [a2]; exact ks.peb, by rw [a3]; exact ks.fail, a4, ?_⟩
      intro t' ht' k'
      rw [a5 t' ht' k', he]
      simp only [txSpec, applyEff]
      cases (dec v0 0).eff v0 0 with
      | none =>
        simp only [Option.getD_none]
        by_cases hk : k' = key
        · subst hk; simp only [if_true, Option.bind_some, filt_zero]; exact hl t' ht'
        · simp only [hk, if_false]; exact ks.other t' ht' k' hk
      | some c =>
        simp only [Option.getD_some]
        by_cases hk : k' = key
        · simp [hk]
        · simp only [hk, if_false]; exact ks.other t' ht' k' hk

/-! ### simulation: hot and cold states cannot be told apart -/

/-- two states (both satisfying the invariant) that show the same logical keyspace at all times
    from `t` on -/
structure Sim (t : Int) (s1 s2 : MState) : Prop where
  inv1 : StoreInvX s1 none t
  inv2 : StoreInvX s2 none t
  look : ∀ t', t ≤ t' → ∀ k, lookup s1 t' k = lookup s2 t' k

theorem Sim.mono {t t' : Int} {s1 s2 : MState} (h : Sim t s1 s2) (ht : t ≤ t') : Sim t' s1 s2 :=
  ⟨h.inv1.mono ht, h.inv2.mono ht, fun t'' ht'' k => h.look t'' (Int.le_trans ht ht'') k⟩

theorem Sim.logical {t t' : Int} {s1 s2 : MState} (h : Sim t s1 s2) (ht : t ≤ t') :
    logical s1 t' = logical s2 t' :=
  logical_ext h.inv2.idxSorted h.inv1.idxSorted (fun k => h.look t' ht k)

/-- a command whose reply and effect are functions of the logical content of `key` -/
theorem sim_of_txSpec {t now : Int} {s1 s2 : MState} (h : Sim t s1 s2) (ht : t ≤ now) {key : Bytes}
    (F : Option (Val × Int) → Out × Option (Option (Val × Int))) {r1 r2 : Api.R}
    (h1 : TxSpec s1 t now key (F (lookup s1 now key)) r1)
    (h2 : TxSpec s2 t now key (F (lookup s2 now key)) r2) :
    r1.2 = r2.2 ∧ Sim t r1.1 r2.1 := by
  have hL : lookup s1 now key = lookup s2 now key := h.look now ht key
  rw [hL] at h1
  refine ⟨by rw [h1.reply, h2.reply], h1.inv, h2.inv, ?_⟩
  intro t' ht' k
  rw [h1.look t' ht', h2.look t' ht']
  simp only [applyEff]
  cases (F (lookup s2 now key)).2 with
  | none => exact h.look t' ht' k
  | some c =>
    simp only
    by_cases hk : k = key
    · simp [hk]
    · simp only [hk, if_false]; exact h.look t' ht' k

end NodisVerif.Proofs.C11
