import NodisVerif.Spec.Expire
/-
  C10: concrete states used by the non-vacuity examples and the finding witnesses.
  now = 1000 throughout: "a" has deadline 2000 (live), "b" has deadline 500 (expired but still
  indexed), "c" has no deadline.
-/
namespace NodisVerif.Proofs.C10.Ex
open NodisVerif

def kA : Bytes := [97]
def kB : Bytes := [98]
def kC : Bytes := [99]
def kD : Bytes := [100]
def mA : Meta := { exp := 2000, value := some (.str [1]), state := 1 }
def mB : Meta := { exp := 500, value := some (.str [2]), state := 1 }
def mC : Meta := { exp := 0, value := some (.str [3]), state := 1 }
def st : MState := { index := [(kA, mA), (kB, mB), (kC, mC)] }

/-- "a" is expired but indexed, "b" is live -/
def scanSt : MState := { index := [(kA, mB), (kB, mA)] }

/-- an expired sorted set still indexed under "a" -/
def zSt : MState := { index := [(kA, { exp := 500, value := some (.zset DsZSet.empty), state := 1 })] }

/-- a cold live record whose value sits in the (in-memory) backend -/
def mCold : Meta := { exp := 2000, value := none, state := 1, stored := some 2000 }
def coldSt : MState :=
  { index := [(kA, mCold)],
    disk := [(Codec.encodeKey kA 2000, { name := kA, exp := 2000, val := .str [7] })] }

end NodisVerif.Proofs.C10.Ex
