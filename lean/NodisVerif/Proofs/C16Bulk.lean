import NodisVerif.Proofs.C09IncrSys
/-
  C16 — end to end: what SET stored is what GET writes as a bulk reply.
-/
namespace NodisVerif.Proofs.C09Incr
open NodisVerif.Proofs.C08Step Store Resp

variable (k : Bytes)

/-- `getBody k` is the closure of the GET handler -/
theorem getString_eq (rest : List Bytes) : Handler.getString (k :: rest) = .exec (getBody k) := rfl

/-- the closure of GET k on a store where k is a live string holding `b`: the reply is the single
    token `bulk b` -/
theorem getBody_strAt (st : MState) (now : Int) (ch : Choice) (b : Bytes) (h : StrAt k st b) :
    replyOf (outOf st now ch (getBody k)) = [Tok.bulk b] := by
  have h' : StrAt k (prep st) b := h
  obtain ⟨h1, _⟩ := get_strAt k (prep st) now b h'
  unfold outOf getBody
  generalize Api.get (prep st) now k = r at h1
  obtain ⟨s1, o⟩ := r
  simp only at h1
  subst h1
  rfl

/-- SET k v (on a missing key or a string) followed — after anything that leaves the record alone —
    by GET k: the reply is `bulk v`, for every byte string v -/
theorem get_after_set (st : MState) (now now' : Int) (ch ch' : Choice) (v : Bytes)
    (h : getMeta st k = none ∨ ∃ b, StrAt k st b) :
    replyOf (outOf (storeAfter (outOf st now ch (setBody k v))) now' ch' (getBody k)) = [Tok.bulk v] :=
  getBody_strAt k _ now' ch' v (setBody_out k st now ch v h).2.1

end NodisVerif.Proofs.C09Incr
