import NodisVerif.Proofs.C20ZRem2
/-
  C20, SMOVE: two keys.  The primary removes the member from the source (without a record), adds it
  to the destination (SADD record); `Feed.emission` prepends the SREM record; the replica applies
  SREM source, then SADD destination.
-/
namespace NodisVerif.Proofs.C20
open NodisVerif NodisVerif.Store NodisVerif.Spec.Persist NodisVerif.Proofs.C11
open NodisVerif.Proofs.AListLemmas NodisVerif.Proofs.AListLemmas2

variable {now : Int} {p r : MState}

/-- the silent removal from the source -/
def smoveRemAct (st : AList Unit) (member : Bytes) : Act :=
  if DsSet.scard (DsSet.srem st [member]).1 = 0 then .drop (.set (DsSet.srem st [member]).1) [] (.bool true)
  else .put (some (.set (DsSet.srem st [member]).1)) none [] (.bool true)

def decSmoveAdd (dst member : Bytes) (v : Val) (_ : Int) : Act :=
  match v with
  | .set d => .put (some (.set (DsSet.sadd d [member]).1)) none [opSAdd dst [member]] (.bool true)
  | _ => .keep .panic

/-- the addition to the destination -/
def smoveAddF (dst member : Bytes) : TxForm :=
  ⟨true, some (.set []), .unit, Cmd.pan, decSmoveAdd dst member, dst⟩

theorem smoveAddF_ok (dst member : Bytes) (hb : member.length < 2 ^ 63) : (smoveAddF dst member).OK := by
  refine ⟨(fun h => nomatch h), (fun w h => by cases h; exact good_emptySet), fun w e hg _ => ?_⟩
  cases w with
  | set st =>
    exact ⟨(fun w hw => by cases hw; exact good_sadd [member] (by simpa using hb) st 0 hg), (fun e he => by cases he)⟩
  | _ => trivial

theorem smoveAddF_post (dst member : Bytes) (L : Option (Val × Int)) :
    (smoveAddF dst member).post now L = (saddF now dst [member]).post now L := by
  cases L with
  | none => rfl
  | some c => obtain ⟨v, e⟩ := c; cases v <;> rfl

theorem smove_eq (s : MState) (now : Int) (src dst member : Bytes) :
    Api.smove s now src dst member =
      (if !(writeKey s now src none).2 then ((writeKey s now src none).1, .bool false) else
       match Api.asSet (writeKey s now src none).1 src with
       | none => ((writeKey s now src none).1, .panic)
       | some st =>
         if (writeKey (writeKey s now src none).1 now dst none).2 &&
             (Api.asSet (writeKey (writeKey s now src none).1 now dst none).1 dst).isNone then
           ((writeKey (writeKey s now src none).1 now dst none).1, .panic) else
         if (DsSet.srem st [member]).2 = 0 then
           (Api.setVal (writeKey (writeKey s now src none).1 now dst none).1 src (.set (DsSet.srem st [member]).1),
            .bool false) else
         (smoveAddF dst member).run
           (runAct (writeKey (writeKey s now src none).1 now dst none).1 src (smoveRemAct st member)).1 now) := by
  unfold Api.smove
  generalize writeKey s now src none = r1
  obtain ⟨s1, ok⟩ := r1
  simp only
  cases ok with
  | false => rfl
  | true =>
    simp only [Bool.not_true, Bool.false_eq_true, if_false]
    cases Api.asSet s1 src with
    | none => rfl
    | some st =>
      simp only
      generalize writeKey s1 now dst none = r2
      obtain ⟨s2, dok⟩ := r2
      simp only
      split
      · rfl
      · split
        · rfl
        · -- the tail
          have hs3 : (runAct s2 src (smoveRemAct st member)).1 =
              signal (if DsSet.scard (DsSet.srem st [member]).1 = 0 then
                delKey (Api.setVal s2 src (.set (DsSet.srem st [member]).1)) src
                else Api.setVal s2 src (.set (DsSet.srem st [member]).1)) src := by
            unfold smoveRemAct
            split <;> rfl
          rw [hs3]
          generalize (signal (if DsSet.scard (DsSet.srem st [member]).1 = 0 then
                delKey (Api.setVal s2 src (.set (DsSet.srem st [member]).1)) src
                else Api.setVal s2 src (.set (DsSet.srem st [member]).1)) src) = s3
          refine Eq.trans ?_ (create_shape s3 now dst _ _ _ _ (fun s4 => match Api.asSet s4 dst with
            | none => (s4, .panic)
            | some d =>
              (emit (signal (Api.setVal s4 dst (.set (DsSet.sadd d [member]).1)) dst) (opSAdd dst [member]),
               .bool true)) ?_)
          · rfl
          · intro s4; simp only [Api.asSet]
            cases valOf s4 dst with
            | none => rfl
            | some v => cases v <;> rfl

/-- does SMOVE move anything, given what the two names show -/
def smoveMoves (K : Bytes → Option (Val × Int)) (src dst member : Bytes) : Prop :=
  ∃ st es, K src = some (.set st, es) ∧ DsSet.mem st member = true ∧
    (K dst = none ∨ ∃ d ed, K dst = some (.set d, ed))

/-- the logical keyspace after SMOVE -/
def smoveK (now : Int) (K : Bytes → Option (Val × Int)) (src dst member : Bytes) (moves : Bool) :
    Bytes → Option (Val × Int) :=
  if moves then
    upd (upd K src ((sremF now src [member]).post now (K src))) dst
      ((saddF now dst [member]).post now (upd K src ((sremF now src [member]).post now (K src)) dst))
  else K

theorem srem_one (st : AList Unit) (member : Bytes) :
    DsSet.srem st [member] = if DsSet.mem st member then (AList.erase st member, 1) else (st, 0) := by
  simp [DsSet.srem]

theorem smove_spec {s : MState} (h : StoreInv s now) (src dst member : Bytes) (hb : member.length < 2 ^ 63) :
    ∃ moves : Bool, (moves = true ↔ smoveMoves (lookup s now) src dst member) ∧
    StoreInv (Api.smove s now src dst member).1 now ∧
    (∀ k', lookup (Api.smove s now src dst member).1 now k' = smoveK now (lookup s now) src dst member moves k') ∧
    (s.listeners = true → fl (Api.smove s now src dst member).1 =
      ((if moves then [opSAdd dst [member]] else []) ++ s.feed, true)) := by
  rw [smove_eq]
  have ht : now ≤ now := Int.le_refl now
  have ks1 := writeKey_spec h ht src none (fun _ hc => nomatch hc)
  have hfl1 := fl_writeKey s now src none
  generalize writeKey s now src none = r1 at ks1 hfl1
  obtain ⟨s1, ok⟩ := r1
  simp only at hfl1 ⊢
  -- nothing happens
  have stay : ∀ (sX : MState), StoreInv sX now → (∀ k', lookup sX now k' = lookup s now k') → fl sX = fl s →
      ¬ smoveMoves (lookup s now) src dst member →
      ∃ moves : Bool, (moves = true ↔ smoveMoves (lookup s now) src dst member) ∧ StoreInv sX now ∧
        (∀ k', lookup sX now k' = smoveK now (lookup s now) src dst member moves k') ∧
        (s.listeners = true → fl sX = ((if moves then [opSAdd dst [member]] else []) ++ s.feed, true)) := by
    intro sX hi hlk hf hno
    refine ⟨false, ⟨(fun hc => nomatch hc), fun hc => absurd hc hno⟩, hi, fun k' => by simp [smoveK, hlk k'], fun hl => ?_⟩
    rw [hf]; simp [fl, hl]
  cases hL : lookup s now src with
  | none =>
    obtain ⟨hok, hl⟩ := ks1.miss hL rfl
    simp only at hok
    simp only [hok, Bool.not_false, if_true]
    refine stay s1 ks1.inv (fun k' => ?_) hfl1 (by rintro ⟨st, es, h1, _⟩; rw [hL] at h1; cases h1)
    by_cases hk : k' = src
    · subst hk; exact hl now ht
    · exact ks1.other now ht k' hk
  | some c =>
    obtain ⟨v, es⟩ := c
    obtain ⟨hok, hl, m, hm, hv, he, _⟩ := ks1.hit v es hL
    simp only at hok hm
    simp only [hok, Bool.not_true, Bool.false_eq_true, if_false]
    have hsame1 : ∀ k', lookup s1 now k' = lookup s now k' := by
      intro k'
      by_cases hk : k' = src
      · subst hk; exact hl now ht
      · exact ks1.other now ht k' hk
    have hvo : valOf s1 src = some v := by simp [valOf, getMeta, hm, hv]
    by_cases hnset : ¬ ∃ st, v = .set st
    · have hset := hnset
      have hz : Api.asSet s1 src = none := by
        cases v <;> first | (exact absurd ⟨_, rfl⟩ hset) | simp [Api.asSet, hvo]
      simp only [hz]
      refine stay s1 ks1.inv hsame1 hfl1 ?_
      rintro ⟨st, es', h1, _⟩
      rw [hL] at h1
      simp only [Option.some.injEq, Prod.mk.injEq] at h1
      exact hset ⟨st, h1.1⟩
    obtain ⟨st, rfl⟩ : ∃ st, v = .set st := Classical.not_not.mp hnset
    have hz : Api.asSet s1 src = some st := by simp [Api.asSet, hvo]
    simp only [hz]
    -- the destination lookup
    have ks2 := writeKey_spec ks1.inv ht dst none (fun _ hc => nomatch hc)
    have hfl2 := fl_writeKey s1 now dst none
    have oi2 := writeKey_otherIdx s1 now dst none src
    generalize writeKey s1 now dst none = r2 at ks2 hfl2 oi2
    obtain ⟨s2, dok⟩ := r2
    simp only at hfl2 oi2 ⊢
    have hfl2' : fl s2 = fl s := hfl2.trans hfl1
    have hsame2 : ∀ k', lookup s2 now k' = lookup s now k' := by
      intro k'
      rw [← hsame1 k']
      by_cases hk : k' = dst
      · subst hk
        cases hL2 : lookup s1 now k' with
        | none => have := (ks2.miss hL2 rfl).2 now ht; simp only at this; rw [this, hL2]
        | some c2 => have := (ks2.hit c2.1 c2.2 hL2).2.1 now ht; simp only at this; rw [this, hL2]
      · exact ks2.other now ht k' hk
    -- the source record is still hot in s2
    have hsrc2 : ∃ m2, AList.get? s2.index src = some m2 ∧ m2.value = some (.set st) ∧ m2.exp = es := by
      by_cases hk : src = dst
      · subst hk
        have hL2 : lookup s1 now src = some (.set st, es) := by rw [hsame1]; exact hL
        obtain ⟨_, _, m2, hm2, hv2, he2, _⟩ := ks2.hit _ _ hL2
        exact ⟨m2, hm2, hv2, he2⟩
      · exact ⟨m, by rw [oi2 hk]; exact hm, hv, he⟩
    obtain ⟨m2, hm2, hv2, he2⟩ := hsrc2
    -- the type check on the destination
    have hchk : (dok && (Api.asSet s2 dst).isNone) = true ↔
        ∃ vd ed, lookup s now dst = some (vd, ed) ∧ ∀ d, vd ≠ .set d := by
      cases hLd : lookup s1 now dst with
      | none =>
        have := (ks2.miss hLd rfl).1
        simp only at this
        rw [hsame1] at hLd
        simp [this, hLd]
      | some cd =>
        obtain ⟨vd, ed⟩ := cd
        obtain ⟨hdok, _, md, hmd, hvd, _, _⟩ := ks2.hit vd ed hLd
        simp only at hdok hmd
        have hvod : valOf s2 dst = some vd := by simp [valOf, getMeta, hmd, hvd]
        rw [hsame1] at hLd
        cases vd <;> simp [hdok, Api.asSet, hvod, hLd]
    by_cases hbad : (dok && (Api.asSet s2 dst).isNone) = true
    · simp only [hbad, if_true]
      obtain ⟨vd, ed, h1, h2⟩ := hchk.mp hbad
      refine stay s2 ks2.inv hsame2 hfl2' ?_
      rintro ⟨_, _, _, _, h3 | ⟨d, ed', h3⟩⟩
      · rw [h1] at h3; cases h3
      · rw [h1] at h3
        simp only [Option.some.injEq, Prod.mk.injEq] at h3
        exact h2 d h3.1
    · simp only [hbad, Bool.false_eq_true, if_false]
      have hdstok : lookup s now dst = none ∨ ∃ d ed, lookup s now dst = some (.set d, ed) := by
        cases hLd : lookup s now dst with
        | none => left; rfl
        | some cd =>
          obtain ⟨vd, ed⟩ := cd
          right
          cases vd with
          | set d => exact ⟨d, ed, rfl⟩
          | _ => exact absurd (hchk.mpr ⟨_, ed, hLd, fun d hc => by cases hc⟩) hbad
      rw [srem_one]
      by_cases hnmem : ¬ DsSet.mem st member = true
      · have hmem := hnmem
        -- the member is not there: the value object is rewritten with the same content
        simp only [hmem, Bool.false_eq_true, if_false, if_true]
        refine stay _ (inv_setVal_same ks2.inv hm2 hv2) (fun k' => ?_) (by rw [fl_setVal]; exact hfl2') ?_
        · rw [lookup_setVal_same ks2.inv hm2 hv2]; exact hsame2 k'
        · rintro ⟨st', es', h1, h2, _⟩
          rw [hL] at h1
          simp only [Option.some.injEq, Prod.mk.injEq, Val.set.injEq] at h1
          rw [← h1.1] at h2
          exact hmem h2
      · have hmem : DsSet.mem st member = true := Classical.not_not.mp hnmem
        simp only [hmem, if_true]
        have h10 : ¬ ((1 : Int) = 0) := by decide
        simp only [h10, if_false]
        -- the removal
        have hgst : Good (.set st) := (ks2.inv.recs src m2 hm2).good _ hv2
        have hgrem : Good (.set (DsSet.srem st [member]).1) := good_srem [member] st 0 hgst
        have hgA : (smoveRemAct st member).GoodA := by
          unfold smoveRemAct
          split
          · exact hgrem
          · exact ⟨(fun w hw => by cases hw; exact hgrem), (fun _ hx => nomatch hx)⟩
        obtain ⟨i3, _, _, _, l3⟩ := runAct_spec ks2.inv hm2 hv2 (smoveRemAct st member) hgA
        have hl3 : ∀ k', lookup (runAct s2 src (smoveRemAct st member)).1 now k' =
            upd (lookup s now) src ((sremF now src [member]).post now (lookup s now src)) k' := by
          intro k'
          rw [l3 now ht k', he2, hL]
          have hlive := lookup_filt hL
          unfold smoveRemAct
          by_cases hc : DsSet.scard (DsSet.srem st [member]).1 = 0
          · simp only [hc, if_true, Act.eff, upd]
            by_cases hk : k' = src
            · simp [hk, sremF, TxForm.post, TxForm.spec, txSpec, Cmd.form, decSrem, hc, Act.eff]
            · simp only [hk, if_false]; exact hsame2 k'
          · simp only [hc, if_false, Act.eff, upd, Option.getD_some, Option.getD_none]
            by_cases hk : k' = src
            · simp [hk, sremF, TxForm.post, TxForm.spec, txSpec, Cmd.form, decSrem, hc, Act.eff]
            · simp only [hk, if_false]; exact hsame2 k'
        -- the addition
        obtain ⟨i4, l4⟩ := form_step (smoveAddF_ok dst member hb) i3
        refine ⟨true, ⟨fun _ => ⟨st, es, hL, hmem, hdstok⟩, fun _ => rfl⟩, i4, fun k' => ?_, fun hlis => ?_⟩
        · rw [l4 k']
          simp only [show (smoveAddF dst member).key = dst from rfl, smoveK, if_true]
          rw [smoveAddF_post, hl3 dst]
          by_cases hk : k' = dst
          · subst hk; simp [upd]
          · rw [upd_other _ _ _ hk, upd_other _ _ _ hk, hl3 k']
        · have hfl3 : fl (runAct s2 src (smoveRemAct st member)).1 = fl s := by
            have hl2 : s2.listeners = true := (congrArg Prod.snd hfl2').trans hlis
            rw [fl_runAct _ _ _ hl2]
            have : Act.ops (smoveRemAct st member) = [] := by unfold smoveRemAct; split <;> rfl
            rw [this]
            simp [fl, ← hlis, show s2.feed = s.feed from congrArg Prod.fst hfl2']
          have hl3' : (runAct s2 src (smoveRemAct st member)).1.listeners = true :=
            (congrArg Prod.snd hfl3).trans hlis
          rw [form_feed (smoveAddF_ok dst member hb) i3 hl3']
          rw [show (runAct s2 src (smoveRemAct st member)).1.feed = s.feed from congrArg Prod.fst hfl3]
          -- the record: the destination is a set or missing after the removal
          have hops : (smoveAddF dst member).ops (lookup (runAct s2 src (smoveRemAct st member)).1 now dst) =
              [opSAdd dst [member]] := by
            rw [hl3 dst]
            by_cases hk : dst = src
            · subst hk
              rw [upd_same, hL]
              have hlive := lookup_filt hL
              by_cases hc : DsSet.scard (DsSet.srem st [member]).1 = 0
              · simp [sremF, TxForm.post, TxForm.spec, txSpec, Cmd.form, decSrem, hc, Act.eff, TxForm.ops,
                  smoveAddF, decSmoveAdd, Act.ops]
              · simp [sremF, TxForm.post, TxForm.spec, txSpec, Cmd.form, decSrem, hc, Act.eff, TxForm.ops,
                  smoveAddF, decSmoveAdd, Act.ops, hlive]
            · rw [upd_other _ _ _ hk]
              rcases hdstok with h0 | ⟨d, ed, h0⟩ <;>
                simp [h0, TxForm.ops, smoveAddF, decSmoveAdd, Act.ops]
          simp only [show (smoveAddF dst member).key = dst from rfl] at hops ⊢
          rw [hops]
          rfl

end NodisVerif.Proofs.C20

namespace NodisVerif.Proofs.C20
open NodisVerif NodisVerif.Store NodisVerif.Spec.Persist NodisVerif.Proofs.C11

variable {now : Int} {p r : MState}

theorem smoveK_nonil {K : Bytes → Option (Val × Int)} (hK : ∀ k e, K k ≠ some (.strNil, e)) (src dst member : Bytes)
    (moves : Bool) (k : Bytes) (e : Int) : smoveK now K src dst member moves k ≠ some (.strNil, e) := by
  unfold smoveK
  cases moves with
  | false => exact hK k e
  | true =>
    simp only [if_true]
    have h1 : ∀ k e, upd K src ((sremF now src [member]).post now (K src)) k ≠ some (.strNil, e) := by
      intro k e
      by_cases hk : k = src
      · subst hk; rw [upd_same]
        exact post_nonil (Cmd.nilSafe (.srem k [member]) now trivial) now _ (fun e0 => hK k e0) e
      · rw [upd_other _ _ _ hk]; exact hK k e
    by_cases hk : k = dst
    · subst hk; rw [upd_same]
      exact post_nonil (Cmd.nilSafe (.sadd k [member]) now trivial) now _ (fun e0 => h1 k e0) e
    · rw [upd_other _ _ _ hk]; exact h1 k e

theorem emission_smove {c : Feed.CallInfo} (hc : c.method = "SMove") (src dst member : Bytes)
    (hbs : c.bs = [src, dst, member]) (out : Out) :
    Feed.emission c out [opSAdd dst [member]] = [opSRem src [member], opSAdd dst [member]] ∧
    Feed.emission c out [] = [] := by
  unfold Feed.emission
  simp [hc, hbs, Feed.keepTTLMethods, opSRem]

theorem smove_main (hs : Same now p r) (hl : p.listeners = true) (hfd : p.feed = [])
    (c : Feed.CallInfo) (hc : c.method = "SMove") (src dst member : Bytes) (hbs : c.bs = [src, dst, member])
    (hb : member.length < 2 ^ 63) :
    Replay now r c (Api.smove p now src dst member) ∧ (Api.smove p now src dst member).1.listeners = true ∧
    ∀ op ∈ Feed.emission c (Api.smove p now src dst member).2 (Api.smove p now src dst member).1.feed.reverse,
      op.key ∈ [src, dst] := by
  obtain ⟨moves, _, i1, l1, f1⟩ := smove_spec hs.invP src dst member hb
  have f1' := f1 hl
  have hfeed : (Api.smove p now src dst member).1.feed = _ := congrArg Prod.fst f1'
  obtain ⟨e1, e0⟩ := emission_smove hc src dst member hbs (Api.smove p now src dst member).2
  refine ⟨?_, congrArg Prod.snd f1', ?_⟩
  · unfold Replay
    rw [hfeed, hfd]
    refine main_of i1 l1 (smoveK_nonil hs.nonil src dst member moves) ?_
    have hK : lookup r now = lookup p now := funext hs.look
    cases moves with
    | false =>
      simp only [Bool.false_eq_true, if_false, List.append_nil, List.reverse_nil, e0, smoveK]
      rw [← hK]; exact Replays.nil hs.invR
    | true =>
      simp only [if_true, List.append_nil, List.reverse_cons, List.reverse_nil, List.nil_append, e1, smoveK]
      refine Replays.cons (g := sremF now src [member]) hs.invR (Cmd.ok (.srem src [member]) now trivial)
        (applyOp_srem r now src [member]) ?_
      intro r1 i2 l2
      have hr1 : lookup r1 now = upd (lookup p now) src ((sremF now src [member]).post now (lookup p now src)) := by
        funext k; rw [l2 k, hK]; rfl
      have := Replays.one (g := saddF now dst [member]) i2
        (Cmd.ok (.sadd dst [member]) now (by intro m hm; simp at hm; subst hm; exact hb)) (applyOp_sadd r1 now dst [member])
      rw [hr1] at this
      exact this
  · intro op hop
    rw [hfeed, hfd] at hop
    cases moves with
    | false =>
      simp only [Bool.false_eq_true, if_false, List.append_nil, List.reverse_nil, e0] at hop
      cases hop
    | true =>
      simp only [if_true, List.append_nil, List.reverse_cons, List.reverse_nil, List.nil_append, e1] at hop
      simp only [List.mem_cons, List.not_mem_nil, or_false] at hop
      rcases hop with rfl | rfl <;> simp [opSRem, opSAdd]

end NodisVerif.Proofs.C20
