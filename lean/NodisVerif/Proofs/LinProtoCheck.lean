import NodisVerif.Proofs.LinProto
import NodisVerif.Proofs.LinCorollaries
/-
  An executable check that implies `Placed` / `PlacedSplit` (Proofs/LinProto.lean), and concrete
  interleavings that pass it: the hypotheses of `single_key_commands_linearizable` are satisfiable.
-/
namespace NodisVerif.LinProto
open NodisVerif.Proto NodisVerif.Proofs.Proto NodisVerif.Lin

def releasesB (t : Tx) (k : Key) (r : Rec) (e : Proto.Ev) : Bool :=
  e == .unlock t r || e == .unlink t k r || e == .drop t k r

theorem releasesB_iff {t : Tx} {k : Key} {r : Rec} {e : Proto.Ev} : releasesB t k r e = true ↔ Releases t k r e := by
  simp [releasesB, Releases, or_assoc]

theorem releases_evTx {t : Tx} {k : Key} {r : Rec} {e : Proto.Ev} (h : Releases t k r e) : evTx e = some t := by
  rcases h with rfl | rfl | rfl <;> rfl

/-- `t` releases none of the validated holds it has on the current record of `k` -/
def relOK (p : PState) (k : Key) (t : Tx) (e : Proto.Ev) : Bool :=
  match p.tx t with
  | none => true
  | some st => st.holds.all fun h => !(h.valid && p.lookup k == some h.rid && releasesB t k h.rid e)

/-- `t` holds the current record of `k`, validated, in write mode unless `ro` -/
def acqOK (p : PState) (k : Key) (t : Tx) (ro : Bool) : Bool :=
  match p.tx t with
  | none => false
  | some st => st.holds.any fun h => h.valid && p.lookup k == some h.rid && (ro || h.mode == .w)

theorem relOK_sound {p : PState} {k : Key} {t : Tx} {e : Proto.Ev} (h : relOK p k t e = true) {r : Rec} {m : Mode}
    (hc : HoldsCur p k t r m) : ¬ Releases t k r e := by
  obtain ⟨st, g, htx, hg, hv, hr, _, hl⟩ := hc
  intro hrel
  simp only [relOK, htx, List.all_eq_true] at h
  have := h g hg
  rw [hv, hr, hl, releasesB_iff.2 hrel] at this
  simp at this

theorem acqOK_sound {p : PState} {k : Key} {t : Tx} {ro : Bool} (h : acqOK p k t ro = true) :
    ∃ r m, HoldsCur p k t r m ∧ (ro = false → m = .w) := by
  unfold acqOK at h
  cases htx : p.tx t with
  | none => rw [htx] at h; cases h
  | some st =>
    rw [htx] at h
    simp only [List.any_eq_true, Bool.and_eq_true, Bool.or_eq_true, beq_iff_eq] at h
    obtain ⟨g, hg, ⟨hv, hl⟩, hm⟩ := h
    refine ⟨g.rid, g.mode, ⟨st, g, htx, hg, hv, rfl, rfl, hl⟩, ?_⟩
    intro hro
    rcases hm with hm | hm
    · rw [hro] at hm; cases hm
    · exact hm

section
variable {State Op Ret : Type} [DecidableEq Ret]

def placedB (O : Obj State Op Ret) (k : Key) :
    PState → Lin.Cfg State Op Ret → List (Proto.Ev ⊕ Lin.Ev Op Ret) → Bool
  | _, _, [] => true
  | p, c, .inl e :: ms =>
    match Proto.step p e with
    | none => false
    | some p' =>
      (e != .clear) &&
      (match evTx e with
        | some t => (match c.ops t with | some st => !st.locked || relOK p k t e | none => true)
        | none => true) &&
      placedB O k p' c ms
  | p, c, .inr x :: ms =>
    match Lin.step O false c x with
    | none => false
    | some c' =>
      (match x with
        | .acq t => (match c.ops t with | some st => acqOK p k t (O.readOnly st.op) | none => true)
        | _ => true) &&
      placedB O k p c' ms

theorem placed_of_check {O : Obj State Op Ret} {k : Key} {p : PState} {c : Lin.Cfg State Op Ret}
    {ms : List (Proto.Ev ⊕ Lin.Ev Op Ret)} (h : placedB O k p c ms = true) : Placed O k p c ms := by
  induction ms generalizing p c with
  | nil => trivial
  | cons x ms ih =>
    cases x with
    | inl e =>
      simp only [placedB] at h
      cases hs : Proto.step p e with
      | none => rw [hs] at h; cases h
      | some p' =>
        rw [hs] at h
        simp only [Bool.and_eq_true, bne_iff_ne, ne_eq] at h
        obtain ⟨⟨hcl, hrel⟩, hrest⟩ := h
        refine ⟨p', hs, hcl, ?_, ih hrest⟩
        intro t st r m h1 h2 h3 h4
        rw [releases_evTx h4] at hrel
        simp only [h1, h2, Bool.not_true, Bool.false_or] at hrel
        exact relOK_sound hrel h3 h4
    | inr x =>
      simp only [placedB] at h
      cases hs : Lin.step O false c x with
      | none => rw [hs] at h; cases h
      | some c' =>
        rw [hs] at h
        simp only [Bool.and_eq_true] at h
        obtain ⟨hacq, hrest⟩ := h
        refine ⟨c', hs, ?_, ih hrest⟩
        intro t st hx h1
        subst hx
        simp only [h1] at hacq
        obtain ⟨r, m, h2, h3⟩ := acqOK_sound hacq
        exact ⟨r, m, h2, h3⟩

def placedSplitB (O : Obj State Op Ret) (k : Key) :
    PState → Split.Cfg State Op Ret → List (Proto.Ev ⊕ Split.Ev Op Ret) → Bool
  | _, _, [] => true
  | p, c, .inl e :: ms =>
    match Proto.step p e with
    | none => false
    | some p' =>
      (e != .clear) &&
      (match evTx e with
        | some t => (match c.core.ops t with | some st => !st.locked || relOK p k t e | none => true)
        | none => true) &&
      placedSplitB O k p' c ms
  | p, c, .inr x :: ms =>
    match Split.step O false c x with
    | none => false
    | some c' =>
      (match x with
        | .acq t => (match c.core.ops t with | some st => acqOK p k t (O.readOnly st.op) | none => true)
        | _ => true) &&
      placedSplitB O k p c' ms

theorem placedSplit_of_check {O : Obj State Op Ret} {k : Key} {p : PState} {c : Split.Cfg State Op Ret}
    {ms : List (Proto.Ev ⊕ Split.Ev Op Ret)} (h : placedSplitB O k p c ms = true) : PlacedSplit O k p c ms := by
  induction ms generalizing p c with
  | nil => trivial
  | cons x ms ih =>
    cases x with
    | inl e =>
      simp only [placedSplitB] at h
      cases hs : Proto.step p e with
      | none => rw [hs] at h; cases h
      | some p' =>
        rw [hs] at h
        simp only [Bool.and_eq_true, bne_iff_ne, ne_eq] at h
        obtain ⟨⟨hcl, hrel⟩, hrest⟩ := h
        refine ⟨p', hs, hcl, ?_, ih hrest⟩
        intro t st r m h1 h2 h3 h4
        rw [releases_evTx h4] at hrel
        simp only [h1, h2, Bool.not_true, Bool.false_or] at hrel
        exact relOK_sound hrel h3 h4
    | inr x =>
      simp only [placedSplitB] at h
      cases hs : Split.step O false c x with
      | none => rw [hs] at h; cases h
      | some c' =>
        rw [hs] at h
        simp only [Bool.and_eq_true] at h
        obtain ⟨hacq, hrest⟩ := h
        refine ⟨c', hs, ?_, ih hrest⟩
        intro t st hx h1
        subst hx
        simp only [h1] at hacq
        obtain ⟨r, m, h2, h3⟩ := acqOK_sound hacq
        exact ⟨r, m, h2, h3⟩

end

/-! ## a concrete interleaving -/

/-- Key "k" is created (transaction 9). Commands 1 and 2 increment the counter stored under "k",
    command 3 reads it. All three are invoked before any of them replies; 2 and 3 block on the record
    lock while 1 works; the reader gets the lock before writer 2. -/
def exTrace : List (Proto.Ev ⊕ Lin.Ev Bool Int) :=
  [.inl (.begin 9), .inl (.claim 9 "k" 10 .w), .inl (.publish 9 "k" 10), .inl (.commit 9),
   .inl (.unlock 9 10), .inl (.fin 9),
   .inr (.inv 1 false), .inr (.inv 2 false), .inr (.inv 3 true),
   .inl (.begin 1), .inl (.begin 2), .inl (.begin 3),
   .inl (.look 1 "k" (some 10)), .inl (.wait 1 "k" 10 .w), .inl (.lock 1 "k" 10 .w),
   .inl (.valid 1 "k" 10 true),
   .inl (.look 2 "k" (some 10)), .inl (.wait 2 "k" 10 .w),
   .inr (.acq 1), .inr (.eff 1),
   .inl (.look 3 "k" (some 10)), .inl (.wait 3 "k" 10 .r),
   .inr (.rel 1), .inl (.commit 1), .inl (.unlock 1 10), .inl (.fin 1), .inr (.res 1 0),
   .inl (.lock 3 "k" 10 .r), .inl (.valid 3 "k" 10 true), .inr (.acq 3), .inr (.eff 3), .inr (.rel 3),
   .inl (.commit 3), .inl (.unlock 3 10), .inl (.fin 3),
   .inl (.lock 2 "k" 10 .w), .inl (.valid 2 "k" 10 true), .inr (.acq 2), .inr (.eff 2), .inr (.res 3 1),
   .inr (.rel 2), .inl (.commit 2), .inl (.unlock 2 10), .inl (.fin 2), .inr (.res 2 1)]

theorem exTrace_placed : Placed counter "k" {} { σ := 0 } exTrace := placed_of_check (by decide)

/-- the body of a command outside the interval is rejected by `Placed`: here command 1 takes the
    abstract lock before its transaction has validated the record … -/
example : placedB counter "k" {} { σ := 0 }
    [.inl (.begin 9), .inl (.claim 9 "k" 10 .w), .inl (.publish 9 "k" 10), .inl (.commit 9),
     .inl (.unlock 9 10), .inl (.fin 9), .inr (.inv 1 false), .inl (.begin 1),
     .inl (.wait 1 "k" 10 .w), .inl (.lock 1 "k" 10 .w), .inr (.acq 1)] = false := by decide

/-- … and here an increment runs under a read lock -/
example : placedB counter "k" {} { σ := 0 }
    [.inl (.begin 9), .inl (.claim 9 "k" 10 .w), .inl (.publish 9 "k" 10), .inl (.commit 9),
     .inl (.unlock 9 10), .inl (.fin 9), .inr (.inv 1 false), .inl (.begin 1),
     .inl (.wait 1 "k" 10 .r), .inl (.lock 1 "k" 10 .r), .inl (.valid 1 "k" 10 true), .inr (.acq 1)] = false := by
  decide

/-- the same commands with bodies in two steps; the `rd` and `wr` of command 1 are separated by steps
    of the other transactions -/
def exTraceSplit : List (Proto.Ev ⊕ Split.Ev Bool Int) :=
  [.inl (.begin 9), .inl (.claim 9 "k" 10 .w), .inl (.publish 9 "k" 10), .inl (.commit 9),
   .inl (.unlock 9 10), .inl (.fin 9),
   .inr (.inv 1 false), .inr (.inv 2 false), .inr (.inv 3 true),
   .inl (.begin 1), .inl (.begin 2), .inl (.begin 3),
   .inl (.look 1 "k" (some 10)), .inl (.wait 1 "k" 10 .w), .inl (.lock 1 "k" 10 .w),
   .inl (.valid 1 "k" 10 true),
   .inr (.acq 1), .inr (.rd 1),
   .inl (.look 2 "k" (some 10)), .inl (.wait 2 "k" 10 .w),
   .inl (.look 3 "k" (some 10)), .inl (.wait 3 "k" 10 .r),
   .inr (.wr 1),
   .inr (.rel 1), .inl (.commit 1), .inl (.unlock 1 10), .inl (.fin 1), .inr (.res 1 0),
   .inl (.lock 3 "k" 10 .r), .inl (.valid 3 "k" 10 true), .inr (.acq 3), .inr (.rd 3), .inr (.wr 3), .inr (.rel 3),
   .inl (.commit 3), .inl (.unlock 3 10), .inl (.fin 3),
   .inl (.lock 2 "k" 10 .w), .inl (.valid 2 "k" 10 true), .inr (.acq 2), .inr (.rd 2), .inr (.res 3 1),
   .inr (.wr 2), .inr (.rel 2), .inl (.commit 2), .inl (.unlock 2 10), .inl (.fin 2), .inr (.res 2 1)]

theorem exTraceSplit_placed : PlacedSplit counter "k" {} { core := { σ := 0 } } exTraceSplit :=
  placedSplit_of_check (by decide)

end NodisVerif.LinProto
