import NodisVerif.Proofs.C20Key
/-
  C20: Rename and Clear.
-/
namespace NodisVerif.Proofs.C20
open NodisVerif NodisVerif.Store NodisVerif.Spec.Persist NodisVerif.Proofs.C11

variable {now : Int} {p r : MState}

/-- the logical keyspace after RENAME key dst -/
def renameK (now : Int) (K : Bytes → Option (Val × Int)) (key dst : Bytes) : Bytes → Option (Val × Int) :=
  fun k' => match K key with
    | none => K k'
    | some c => if key = dst then K k' else
        if k' = dst then filt c now else if k' = key then none else K k'

theorem rename_look {s : MState} (h : StoreInv s now) (key dst : Bytes) :
    StoreInv (Api.rename s now key dst).1 now ∧
    ∀ k', lookup (Api.rename s now key dst).1 now k' = renameK now (lookup s now) key dst k' := by
  have sp := rename_spec h (Int.le_refl now) key dst
  refine ⟨sp.inv, fun k' => ?_⟩
  rw [sp.look now (Int.le_refl _) k']
  rfl

theorem fl_renameTail (s2 : MState) (dok : Bool) (m : Meta) (key dst : Bytes) :
    fl (renameTail s2 dok m key dst) = fl s2 := by
  unfold renameTail
  simp only
  show fl (modMeta _ dst Meta.markModified) = _
  rw [fl_modMeta, fl_setExp]
  have h1 : fl (if (!dok) = true then
        putMeta (match getMeta (fresh (delKey s2 key)).2 dst with
          | some dead => unpersist (fresh (delKey s2 key)).2 dst dead
          | none => (fresh (delKey s2 key)).2) dst
          { exp := m.exp, value := none, kid := (fresh (delKey s2 key)).1 }
      else delKey s2 key) = fl s2 := by
    split
    · rw [fl_putMeta]
      split
      · rw [fl_unpersist]; show fl (delKey s2 key) = _; exact fl_delKey s2 key
      · show fl (delKey s2 key) = _; exact fl_delKey s2 key
    · exact fl_delKey s2 key
  cases m.value with
  | none => exact h1
  | some v => simp only; rw [fl_modMeta]; exact h1

theorem rename_fl {s : MState} (h : StoreInv s now) (hl : s.listeners = true) (key dst : Bytes) :
    fl (Api.rename s now key dst).1 =
      ((if (lookup s now key).isSome ∧ key ≠ dst then
          [({ typ := 32, key := key, args := [Bytes.toHex dst] } : FeedOp)] else []) ++ s.feed, true) := by
  rw [rename_eq]
  have ks := writeKey_spec h (Int.le_refl now) key none (fun _ hc => nomatch hc)
  have hfl := fl_writeKey s now key none
  generalize writeKey s now key none = r1 at ks hfl
  obtain ⟨s1, ok⟩ := r1
  simp only at hfl ⊢
  have hl1 : s1.listeners = true := (congrArg Prod.snd hfl).trans hl
  have hf1 : s1.feed = s.feed := congrArg Prod.fst hfl
  cases hL : lookup s now key with
  | none =>
    obtain ⟨hok, _⟩ := ks.miss hL rfl
    simp only at hok
    simp [hok, fl, hl1, hf1]
  | some cc =>
    obtain ⟨v, e⟩ := cc
    obtain ⟨hok, _, m, hm, _⟩ := ks.hit v e hL
    simp only at hok hm
    have hgm : getMeta s1 key = some m := hm
    simp only [hok, Bool.not_true, Bool.false_eq_true, if_false, hgm, Option.isSome_some, true_and]
    by_cases hk : key = dst
    · simp [hk, fl, hl1, hf1]
    · simp only [hk, if_false, ne_eq, not_false_eq_true, if_true]
      have h2 := fl_writeKey s1 now dst none
      have h3 := fl_renameTail (writeKey s1 now dst none).1 (writeKey s1 now dst none).2 m key dst
      have hl3 : (renameTail (writeKey s1 now dst none).1 (writeKey s1 now dst none).2 m key dst).listeners = true :=
        (congrArg Prod.snd (h3.trans h2)).trans hl1
      have hf3 : (renameTail (writeKey s1 now dst none).1 (writeKey s1 now dst none).2 m key dst).feed = s.feed :=
        (congrArg Prod.fst (h3.trans h2)).trans hf1
      rw [fl_emit _ _ hl3, hf3]
      rfl

theorem renameK_nonil {K : Bytes → Option (Val × Int)} (hK : ∀ k e, K k ≠ some (.strNil, e)) (key dst : Bytes)
    (k : Bytes) (e : Int) : renameK now K key dst k ≠ some (.strNil, e) := by
  unfold renameK
  cases hL : K key with
  | none => exact hK k e
  | some c =>
    simp only
    split
    · exact hK k e
    · split
      · intro hc
        have := filt_some hc
        subst this
        exact hK key e hL
      · split
        · simp
        · exact hK k e

theorem rename_replay (hs : Same now p r) (hl : p.listeners = true) (hfd : p.feed = [])
    (c : Feed.CallInfo) (hc : plainMethod c.method = true) (key dst : Bytes) :
    Replay now r c (Api.rename p now key dst) := by
  unfold Replay
  rw [emission_plain hc]
  obtain ⟨i1, l1⟩ := rename_look hs.invP key dst
  have hfl := rename_fl hs.invP hl key dst
  have hfeed : (Api.rename p now key dst).1.feed = _ := congrArg Prod.fst hfl
  rw [hfeed, hfd]
  refine main_of i1 l1 (renameK_nonil hs.nonil key dst) ?_
  obtain ⟨i2, l2⟩ := rename_look hs.invR key dst
  rw [funext hs.look] at l2
  by_cases hcond : (lookup p now key).isSome ∧ key ≠ dst
  · rw [if_pos hcond]
    refine ⟨_, ?_, i2, l2⟩
    simp [Feed.applyAll, Feed.applyOp, pB_toHex]
  · rw [if_neg hcond]
    refine ⟨r, rfl, hs.invR, fun k' => ?_⟩
    rw [hs.look k']
    unfold renameK
    cases hL : lookup p now key with
    | none => rfl
    | some cc =>
      have : key = dst := by
        by_cases hk : key = dst
        · exact hk
        · exact absurd ⟨by simp [hL], hk⟩ hcond
      simp [this]

/-! ### CLEAR -/

theorem clear_inv {s : MState} (h : StoreInv s now) : StoreInv (Store.clear s) now := by
  refine ⟨trivial, trivial, ?_, ?_, ?_, h.idPos⟩
  · intro k m hm; cases hm
  · intro dk e he; cases he
  · intro _
    exact ⟨(fun k m hm => by cases hm), (fun k1 m1 _ _ h1 => by cases h1), (fun dk e he => by cases he),
      (fun dk e _ _ he => by cases he), (fun dk e _ _ he => by cases he)⟩

theorem clear_look (s : MState) (k : Bytes) : lookup (Store.clear s) now k = none := by
  simp [lookup, getMeta, Store.clear, AList.get?]

theorem clear_replay (hs : Same now p r) (hfd : p.feed = [])
    (c : Feed.CallInfo) (hc : c.method = "Clear") :
    Replay now r c (Store.clear p, .unit) := by
  unfold Replay
  have hem : Feed.emission c Out.unit (Store.clear p).feed.reverse = [{ typ := 1, key := [] }] := by
    show Feed.emission c Out.unit p.feed.reverse = _
    rw [hfd]
    unfold Feed.emission
    simp [hc, Feed.keepTTLMethods]
  simp only [hem]
  refine main_of (res := (Store.clear p, .unit)) (F := fun _ => none) (clear_inv hs.invP) (fun k => clear_look p k) (fun _ _ h => nomatch h) ?_
  exact ⟨Store.clear r, by simp [Feed.applyAll, Feed.applyOp], clear_inv hs.invR, fun k => clear_look r k⟩

end NodisVerif.Proofs.C20
