import NodisVerif.Proofs.TxProgSim
/-
  Program model of tx.go: the transitions of `Tx.acquire` (pcs a1 … a14) are simulated by the protocol model.
-/
namespace NodisVerif.Proofs.TxProg
open NodisVerif.Proto (Key Rec Mode Ev Hold TxSt PState assoc erase put Tx)
open NodisVerif.TxProg
open NodisVerif.Proofs.Proto

/-- the conditions that come from outside `acquire` / `newKey` / `delKey` / `commit` themselves: the callers'
    lock order, the mode in which a key to be created / deleted was locked, the atomicity of the
    `s.mu` section of delKey, and that the record gc validated is still the indexed one when it unlinks it.  They are proved to hold in every reachable state in Proofs/TxProgGuard.lean. -/
def Guarded (c : Cfg) (t : Tid) : Prop :=
  ((c.loc t).pc = .a7 → ∀ g ∈ (c.loc t).held, g.key < (c.loc t).key) ∧
  ((c.loc t).pc = .n3 → assoc c.sh.pending (c.loc t).key = some (c.loc t).m →
      (⟨(c.loc t).m, (c.loc t).key, .w, true⟩ : Hold) ∈ (c.loc t).held) ∧
  ((c.loc t).pc = .d2 → ∀ r h, assoc c.sh.index (c.loc t).key = some r → holdOf (c.loc t) r = some h → h.mode = .w) ∧
  ((c.loc t).pc = .d3 → c.sh.lookup (c.loc t).key = none) ∧
  ((c.loc t).pc = .g8 → assoc c.sh.index (c.loc t).key = some (c.loc t).m)

section Cases
variable {c : Cfg} {p : PState} {t : Tid} {ch : Choice} {s' : Shared} {l' : Loc} {e : Option Ev}

/-- the invariant of the stepping thread at a pc where the abstraction is just `held` -/
theorem inv_plain {s : Shared} {l : Loc} (hown : ∀ g ∈ l.held, owns (s.mu g.rid) t g.mode)
    (hval : ∀ g ∈ l.held, g.valid = true) (hh : holdsOf l = l.held) (hx : extra l = none) (hf : Facts s l) :
    ThreadInv s t l := ⟨by rw [hh]; exact hown, by simp [hx], hf, hval⟩

theorem case_a1 (hs : Sim c p) (hpc : (c.loc t).pc = .a1)
    (h : tstep c.sh t (c.loc t) ch = some (s', l', e)) : Simulated c p t s' l' e := by
  simp only [tstep, hpc] at h
  have hi := hs.thr t
  have hown : ∀ g ∈ (c.loc t).held, owns (c.sh.mu g.rid) t g.mode := by
    have := hi.own; simpa [holdsOf, hpc] using this
  split at h <;> cases h
  exact ⟨p, rfl, hs.silent t _ _ rfl rfl rfl rfl (by simp [absTx, hpc, holdsOf, waitingOf, committingOf])
    (inv_plain hown hi.val (by simp [holdsOf]) (by simp [extra]) (by simp [Facts]))⟩

theorem case_a2 (hs : Sim c p) (hpc : (c.loc t).pc = .a2)
    (h : tstep c.sh t (c.loc t) ch = some (s', l', e)) : Simulated c p t s' l' e := by
  simp only [tstep, hpc] at h
  have hi := hs.thr t
  have hown : ∀ g ∈ (c.loc t).held, owns (c.sh.mu g.rid) t g.mode := by
    have := hi.own; simpa [holdsOf, hpc] using this
  cases h
  have htx := hs.tx_some t (by simp [hpc])
  simp only [holdsOf, waitingOf, committingOf, hpc] at htx
  have hstep : Proto.step p (.look t (c.loc t).key (c.sh.lookup (c.loc t).key)) = some p := by
    simp [Proto.step, htx, Proto.guard, hs.lookup]
  refine ⟨p, hstep, ?_⟩
  refine hs.silent t _ _ rfl rfl rfl rfl (by simp [absTx, hpc, holdsOf, waitingOf, committingOf])
    (inv_plain hown hi.val (by simp [holdsOf]) (by simp [extra]) ?_)
  simp only [Facts]
  intro hok
  cases hr : c.sh.lookup (c.loc t).key with
  | none => simp [hr] at hok
  | some r => simpa using hs.named hr

theorem case_a3 (hs : Sim c p) (hpc : (c.loc t).pc = .a3)
    (h : tstep c.sh t (c.loc t) ch = some (s', l', e)) : Simulated c p t s' l' e := by
  simp only [tstep, hpc] at h
  have hi := hs.thr t
  have hown : ∀ g ∈ (c.loc t).held, owns (c.sh.mu g.rid) t g.mode := by
    have := hi.own; simpa [holdsOf, hpc] using this
  have hf := hi.facts
  simp only [Facts, hpc] at hf
  have habs : absTx (c.loc t) = some { holds := (c.loc t).held } := by
    simp [absTx, hpc, holdsOf, waitingOf, committingOf]
  split at h
  · split at h <;> cases h
    · exact ⟨p, rfl, hs.silent t _ _ rfl rfl rfl rfl (by rw [absTx_retTo, habs]) (inv_retTo hown hi.val)⟩
    · exact ⟨p, rfl, hs.silent t _ _ rfl rfl rfl rfl (by simp [absTx, hpc, holdsOf, waitingOf, committingOf])
        (inv_plain hown hi.val (by simp [holdsOf]) (by simp [extra]) (by simp [Facts]))⟩
  · rename_i hok
    have hok : (c.loc t).okcur = true := by simpa using hok
    split at h
    · split at h <;> cases h
      · exact ⟨p, rfl, hs.silent t _ _ rfl rfl rfl rfl (by simp [absTx, hpc, holdsOf, waitingOf, committingOf])
          (inv_plain hown hi.val (by simp [holdsOf]) (by simp [extra]) (by simp [Facts]))⟩
      · exact ⟨p, rfl, hs.silent t _ _ rfl rfl rfl rfl (by rw [absTx_retTo, habs]) (inv_retTo hown hi.val)⟩
    · rename_i hnone
      cases h
      refine ⟨p, rfl, hs.silent t _ _ rfl rfl rfl rfl (by simp [absTx, hpc, holdsOf, waitingOf, committingOf])
          (inv_plain hown hi.val (by simp [holdsOf]) (by simp [extra]) ?_)⟩
      simp only [Facts]
      refine ⟨hf hok, ?_⟩
      intro g hg
      have := List.find?_eq_none.1 hnone g hg
      simpa using this

theorem case_a4 (hs : Sim c p) (hpc : (c.loc t).pc = .a4)
    (h : tstep c.sh t (c.loc t) ch = some (s', l', e)) : Simulated c p t s' l' e := by
  simp only [tstep, hpc] at h
  have hi := hs.thr t
  have hown : ∀ g ∈ (c.loc t).held, owns (c.sh.mu g.rid) t g.mode := by
    have := hi.own; simpa [holdsOf, hpc] using this
  split at h <;> cases h
  exact ⟨p, rfl, hs.silent t _ _ rfl rfl rfl rfl (by simp [absTx, hpc, holdsOf, waitingOf, committingOf])
    (inv_plain hown hi.val (by simp [holdsOf]) (by simp [extra]) (by simp [Facts]))⟩

/-- a fresh placeholder is allocated, locked, registered in `pending` and appended to `lockedMetas` (pcs a5, d3) -/
theorem sim_claim (hs : Sim c p) (hpc : (c.loc t).pc ≠ .init) (hh : holdsOf (c.loc t) = (c.loc t).held)
    (hw : waitingOf (c.loc t) = none) (hc : committingOf (c.loc t) = false)
    {k : Key} {r : Rec} {w : Bool} (hlk : c.sh.lookup k = none) (hfresh : assoc c.sh.names r = none)
    (mu0 : Mu) (hmu0 : owns mu0 t (modeOf w)) (hwf0 : wfMu mu0)
    (hl' : l'.held = ⟨r, k, modeOf w, true⟩ :: (c.loc t).held) (hh' : holdsOf l' = l'.held) (hx' : extra l' = none)
    (hf' : ∀ s, Facts s l') (habs : absTx l' = some { holds := l'.held }) :
    Simulated c p t (({ c.sh with names := (r, k) :: c.sh.names, pending := put c.sh.pending k r }).setMu r mu0) l'
      (some (.claim t k r (modeOf w))) := by
  have hi := hs.thr t
  have hown : ∀ g ∈ (c.loc t).held, owns (c.sh.mu g.rid) t g.mode := by
    have := hi.own; rwa [hh] at this
  have htx := hs.tx_some t hpc
  rw [hh, hw, hc] at htx
  have hne : ∀ g ∈ (c.loc t).held, g.rid ≠ r := by
    intro g hg e
    have := hs.holdNamed t g (by rw [hh]; exact hg)
    rw [e, hfresh] at this; cases this
  have hstep : Proto.step p (.claim t k r (modeOf w)) = some
      (({ p with pending := put p.pending k r, names := (r, k) :: p.names }).setTx t
        { holds := ⟨r, k, modeOf w, true⟩ :: (c.loc t).held }) := by
    simp [Proto.step, htx, hs.lookup, hlk, hs.names, hfresh, TxSt.setHold, filter_rid_ne hne]
  refine ⟨_, hstep, ?_⟩
  refine hs.update t _ _ _ (hs.reach.next hstep) (by simp [hs.idx]) (by simp [hs.pend]) (by simp [hs.names])
    (wf_setMu hs.wf r mu0 hwf0) ?_ ?_ ?_ ?_
  · rw [tx_setTx_same, habs, hl']
  · refine ⟨?_, by simp [hx'], hf' _, ?_⟩
    · rw [hh', hl']
      intro g hg
      rw [mu_setMu]
      rcases List.mem_cons.1 hg with rfl | hg
      · simpa using hmu0
      · simpa [hne g hg, Shared.mu] using hown g hg
    · rw [hl']; intro g hg
      rcases List.mem_cons.1 hg with rfl | hg
      · rfl
      · exact hi.val g hg
  · intro u hu; rw [tx_setTx_ne _ _ hu]; rfl
  · intro u _
    refine (hs.thr u).frame (fun x y hxy => assoc_names_cons hfresh hxy) ?_ (fun g hg => ⟨_, hs.holdNamed u g hg⟩)
    intro r' m ho ⟨k', hk'⟩
    have : r' ≠ r := by intro e; rw [e, hfresh] at hk'; cases hk'
    rw [mu_setMu]; simpa [this, Shared.mu] using ho

theorem case_a5 (hs : Sim c p) (hpc : (c.loc t).pc = .a5)
    (h : tstep c.sh t (c.loc t) ch = some (s', l', e)) : Simulated c p t s' l' e := by
  simp only [tstep, hpc] at h
  have hi := hs.thr t
  have hown : ∀ g ∈ (c.loc t).held, owns (c.sh.mu g.rid) t g.mode := by
    have := hi.own; simpa [holdsOf, hpc] using this
  split at h
  · cases h
    exact ⟨p, rfl, hs.silent t _ _ rfl rfl rfl rfl (by simp [absTx, hpc, holdsOf, waitingOf, committingOf])
      (inv_plain hown hi.val (by simp [holdsOf]) (by simp [extra]) (by simp [Facts]))⟩
  · rename_i hlk
    split at h
    · cases h
    · rename_i hfr
      have hfresh : assoc c.sh.names ch.fresh = none := by
        cases hx : assoc c.sh.names ch.fresh with
        | none => rfl
        | some y => simp [hx] at hfr
      cases h
      by_cases hwr : (c.loc t).write = true
      · simp only [hwr, if_true]
        exact sim_claim (w := true) hs (by simp [hpc]) (by simp [holdsOf, hpc]) (by simp [waitingOf, hpc])
          (by simp [committingOf, hpc]) hlk hfresh _ (by simp [modeOf, owns, Mu.lock]) (wf_fresh_lock t)
          (by simp) (by simp [holdsOf]) (by simp [extra]) (by simp [Facts])
          (by simp [absTx, holdsOf, waitingOf, committingOf])
      · have hwr : (c.loc t).write = false := by simpa using hwr
        simp only [hwr]
        exact sim_claim (w := false) hs (by simp [hpc]) (by simp [holdsOf, hpc]) (by simp [waitingOf, hpc])
          (by simp [committingOf, hpc]) hlk hfresh _ (by simp [modeOf, owns, Mu.rlock]) (wf_fresh_rlock t)
          (by simp) (by simp [holdsOf]) (by simp [extra]) (by simp [Facts])
          (by simp [absTx, holdsOf, waitingOf, committingOf])

theorem case_a6r (hs : Sim c p) (hpc : (c.loc t).pc = .a6r)
    (h : tstep c.sh t (c.loc t) ch = some (s', l', e)) : Simulated c p t s' l' e := by
  simp only [tstep, hpc] at h
  have hi := hs.thr t
  have hown : ∀ g ∈ (c.loc t).held, owns (c.sh.mu g.rid) t g.mode := by
    have := hi.own; simpa [holdsOf, hpc] using this
  cases h
  exact ⟨p, rfl, hs.silent t _ _ rfl rfl rfl rfl (by simp [absTx, hpc, holdsOf, waitingOf, committingOf])
    (inv_plain hown hi.val (by simp [holdsOf]) (by simp [extra]) (by simp [Facts]))⟩

theorem case_a6c (hs : Sim c p) (hpc : (c.loc t).pc = .a6c)
    (h : tstep c.sh t (c.loc t) ch = some (s', l', e)) : Simulated c p t s' l' e := by
  simp only [tstep, hpc] at h
  have hi := hs.thr t
  have hown : ∀ g ∈ (c.loc t).held, owns (c.sh.mu g.rid) t g.mode := by
    have := hi.own; simpa [holdsOf, hpc] using this
  cases h
  exact ⟨p, rfl, hs.silent t _ _ rfl rfl rfl rfl
    (by rw [absTx_retTo]; simp [absTx, hpc, holdsOf, waitingOf, committingOf]) (inv_retTo hown hi.val)⟩

theorem case_a7 (hs : Sim c p) (hg : Guarded c t) (hpc : (c.loc t).pc = .a7)
    (h : tstep c.sh t (c.loc t) ch = some (s', l', e)) : Simulated c p t s' l' e := by
  simp only [tstep, hpc] at h
  have hi := hs.thr t
  have hown : ∀ g ∈ (c.loc t).held, owns (c.sh.mu g.rid) t g.mode := by
    have := hi.own; simpa [holdsOf, hpc] using this
  have hf := hi.facts
  simp only [Facts, hpc] at hf
  cases h
  have htx := hs.tx_some t (by simp [hpc])
  simp only [holdsOf, waitingOf, committingOf, hpc] at htx
  have hord := hg.1 hpc
  have hstep : Proto.step p (.wait t (c.loc t).key (c.loc t).m (modeOf (c.loc t).write)) = some
      (p.setTx t { holds := (c.loc t).held, waiting := some ((c.loc t).key, (c.loc t).m, modeOf (c.loc t).write) }) := by
    have h1 : (TxSt.mk (c.loc t).held none false).holdOf (c.loc t).m = none :=
      holdOf_none.2 (fun g hg => hf.2 g hg)
    have h2 : (TxSt.mk (c.loc t).held none false).mayWait (c.loc t).key = true := by
      simp only [TxSt.mayWait, List.all_eq_true]
      intro g hg; simpa using hord g hg
    simp [Proto.step, htx, hs.names, hf.1, h1, h2]
  refine ⟨_, hstep, ?_⟩
  refine hs.update t _ _ _ (hs.reach.next hstep) hs.idx hs.pend hs.names hs.wf ?_ ?_
    (fun u hu => tx_setTx_ne _ _ hu) (fun u _ => hs.thr u)
  · rw [tx_setTx_same]; simp [absTx, holdsOf, waitingOf, committingOf]
  · exact inv_plain hown hi.val (by simp [holdsOf]) (by simp [extra]) (by simpa [Facts] using hf)

theorem case_a8 (hs : Sim c p) (hpc : (c.loc t).pc = .a8)
    (h : tstep c.sh t (c.loc t) ch = some (s', l', e)) : Simulated c p t s' l' e := by
  simp only [tstep, hpc] at h
  have hi := hs.thr t
  have hown : ∀ g ∈ (c.loc t).held, owns (c.sh.mu g.rid) t g.mode := by
    have := hi.own; simpa [holdsOf, hpc] using this
  have hf := hi.facts
  simp only [Facts, hpc] at hf
  have hfin : ∀ mu', wfMu mu' → owns mu' t (modeOf (c.loc t).write) →
      (∀ u, u ≠ t → ∀ m, owns (c.sh.mu (c.loc t).m) u m → owns mu' u m) →
      Simulated c p t (c.sh.setMu (c.loc t).m mu') { c.loc t with pc := .a9 } none := by
    intro mu' hwf' hself hoth
    refine ⟨p, rfl, ?_⟩
    refine hs.update t _ _ _ hs.reach hs.idx hs.pend hs.names (wf_setMu hs.wf _ _ hwf') ?_ ?_
      (fun _ _ => rfl) (fun u hu => hs.other_mu _ _ u (hoth u hu))
    · rw [hs.tx t]; simp [absTx, hpc, holdsOf, waitingOf, committingOf]
    · refine ⟨?_, ?_, by simpa [Facts] using hf, hi.val⟩
      · simp only [holdsOf]
        intro g hg
        rw [mu_setMu]; simpa [hf.2 g hg] using hown g hg
      · simp only [extra, holdsOf]
        intro x hx; cases hx
        refine ⟨by simpa [mu_setMu] using hself, by simp [hf.1], hf.2⟩
  split at h
  · rename_i hwr
    split at h <;> cases h
    rename_i hcan
    have := hfin _ (wf_lock hcan t) (by simp [hwr, modeOf, owns, Mu.lock])
      (fun u _ m ho => absurd ho (not_owns_canLock hcan u m))
    simpa using this
  · rename_i hwr
    split at h <;> cases h
    rename_i hcan
    have := hfin _ (wf_rlock hcan t) (by simp [hwr, modeOf, owns, Mu.rlock])
      (fun u _ m ho => owns_rlock hcan t ho)
    simpa using this

theorem case_a9 (hs : Sim c p) (hpc : (c.loc t).pc = .a9)
    (h : tstep c.sh t (c.loc t) ch = some (s', l', e)) : Simulated c p t s' l' e := by
  simp only [tstep, hpc] at h
  have hi := hs.thr t
  have hown : ∀ g ∈ (c.loc t).held, owns (c.sh.mu g.rid) t g.mode := by
    have := hi.own; simpa [holdsOf, hpc] using this
  have hf := hi.facts
  simp only [Facts, hpc] at hf
  have hx := hi.ext ((c.loc t).m, modeOf (c.loc t).write) (by simp [extra, hpc])
  cases h
  have htx := hs.tx_some t (by simp [hpc])
  simp only [holdsOf, waitingOf, committingOf, hpc] at htx
  have hfree := hs.free_of_extra (t := t) (r := (c.loc t).m) (m := modeOf (c.loc t).write) (by simp [extra, hpc])
  have hstep : Proto.step p (.lock t (c.loc t).key (c.loc t).m (modeOf (c.loc t).write)) = some
      (p.setTx t { holds := ⟨(c.loc t).m, (c.loc t).key, modeOf (c.loc t).write, false⟩ :: (c.loc t).held }) := by
    simp [Proto.step, htx, hfree, TxSt.setHold, filter_rid_ne hf.2]
  refine ⟨_, hstep, ?_⟩
  refine hs.update t _ _ _ (hs.reach.next hstep) hs.idx hs.pend hs.names hs.wf ?_ ?_
    (fun u hu => tx_setTx_ne _ _ hu) (fun u _ => hs.thr u)
  · rw [tx_setTx_same]; simp [absTx, holdsOf, waitingOf, committingOf]
  · refine ⟨?_, by simp [extra], by simpa [Facts] using hf, hi.val⟩
    simp only [holdsOf]
    intro g hg
    rcases List.mem_cons.1 hg with rfl | hg
    · exact hx.1
    · exact hown g hg

/-- the tentative hold `⟨m, key, mode, v⟩ :: held` stays owned when only the pc (and locals outside it) change -/
theorem case_a10 (hs : Sim c p) (hpc : (c.loc t).pc = .a10)
    (h : tstep c.sh t (c.loc t) ch = some (s', l', e)) : Simulated c p t s' l' e := by
  simp only [tstep, hpc] at h
  have hi := hs.thr t
  have hown := hi.own
  simp only [holdsOf, hpc] at hown
  have hf := hi.facts
  simp only [Facts, hpc] at hf
  split at h <;> cases h
  exact ⟨p, rfl, hs.silent t _ _ rfl rfl rfl rfl (by simp [absTx, hpc, holdsOf, waitingOf, committingOf])
    ⟨by simpa [holdsOf] using hown, by simp [extra], by simpa [Facts] using hf, hi.val⟩⟩

theorem case_a11 (hs : Sim c p) (hpc : (c.loc t).pc = .a11)
    (h : tstep c.sh t (c.loc t) ch = some (s', l', e)) : Simulated c p t s' l' e := by
  simp only [tstep, hpc] at h
  have hi := hs.thr t
  have hown := hi.own
  simp only [holdsOf, hpc] at hown
  have hf := hi.facts
  simp only [Facts, hpc] at hf
  cases h
  have htx := hs.tx_some t (by simp [hpc])
  simp only [holdsOf, waitingOf, committingOf, hpc] at htx
  have hho := holdOf_head ⟨(c.loc t).m, (c.loc t).key, modeOf (c.loc t).write, false⟩ (c.loc t).held none false
  simp only at hho
  generalize hok : (c.sh.lookup (c.loc t).key == some (c.loc t).m &&
    ((c.loc t).write || (c.sh.flag (c.loc t).m).hasValue)) = ok
  cases ok with
  | false =>
    have hstep : Proto.step p (.valid t (c.loc t).key (c.loc t).m false) = some p := by
      simp [Proto.step, htx, hho]
    refine ⟨p, hstep, ?_⟩
    refine hs.silent t _ _ rfl rfl rfl rfl ?_
      ⟨by simpa [holdsOf, hok] using hown, by simp [extra], by simpa [Facts] using hf, hi.val⟩
    simp [absTx, hpc, holdsOf, waitingOf, committingOf, hok]
  | true =>
    have hlk : c.sh.lookup (c.loc t).key = some (c.loc t).m := by
      simp only [Bool.and_eq_true, beq_iff_eq] at hok; exact hok.1
    have hstep : Proto.step p (.valid t (c.loc t).key (c.loc t).m true) = some
        (p.setTx t { holds := ⟨(c.loc t).m, (c.loc t).key, modeOf (c.loc t).write, true⟩ :: (c.loc t).held }) := by
      simp [Proto.step, htx, hho, hs.lookup, hlk, TxSt.setHold, filter_rid_ne hf.2]
    refine ⟨_, hstep, ?_⟩
    refine hs.update t _ _ _ (hs.reach.next hstep) hs.idx hs.pend hs.names hs.wf ?_ ?_
      (fun u hu => tx_setTx_ne _ _ hu) (fun u _ => hs.thr u)
    · rw [tx_setTx_same]; simp [absTx, holdsOf, waitingOf, committingOf, hok]
    · exact ⟨by simpa [holdsOf, hok] using hown, by simp [extra], by simpa [Facts] using hf, hi.val⟩

theorem case_a12 (hs : Sim c p) (hpc : (c.loc t).pc = .a12)
    (h : tstep c.sh t (c.loc t) ch = some (s', l', e)) : Simulated c p t s' l' e := by
  simp only [tstep, hpc] at h
  have hi := hs.thr t
  have hown := hi.own
  simp only [holdsOf, hpc] at hown
  have hf := hi.facts
  simp only [Facts, hpc] at hf
  split at h <;> cases h
  · rename_i hcond
    have hv : ((c.loc t).okcur && ((c.loc t).write || (c.loc t).hv)) = false := by
      revert hcond; cases (c.loc t).okcur <;> cases (c.loc t).write <;> cases (c.loc t).hv <;> simp
    rw [hv] at hown
    exact ⟨p, rfl, hs.silent t _ _ rfl rfl rfl rfl (by simp [absTx, hpc, holdsOf, waitingOf, committingOf, hv])
      ⟨by simpa [holdsOf] using hown, by simp [extra], by simpa [Facts] using hf, hi.val⟩⟩
  · rename_i hcond
    have hv : ((c.loc t).okcur && ((c.loc t).write || (c.loc t).hv)) = true := by
      revert hcond; cases (c.loc t).okcur <;> cases (c.loc t).write <;> cases (c.loc t).hv <;> simp
    rw [hv] at hown
    refine ⟨p, rfl, hs.silent t _ _ rfl rfl rfl rfl ?_ (inv_retTo (by simpa using hown) ?_)⟩
    · rw [absTx_retTo]; simp [absTx, hpc, holdsOf, waitingOf, committingOf, hv]
    · intro g hg
      rcases List.mem_cons.1 hg with rfl | hg
      · rfl
      · exact hi.val g hg

theorem case_a13 (hs : Sim c p) (hpc : (c.loc t).pc = .a13)
    (h : tstep c.sh t (c.loc t) ch = some (s', l', e)) : Simulated c p t s' l' e := by
  simp only [tstep, hpc] at h
  have hi := hs.thr t
  have hown := hi.own
  simp only [holdsOf, hpc] at hown
  have hf := hi.facts
  simp only [Facts, hpc] at hf
  cases h
  have htx := hs.tx_some t (by simp [hpc])
  simp only [holdsOf, waitingOf, committingOf, hpc] at htx
  have hho := holdOf_head ⟨(c.loc t).m, (c.loc t).key, modeOf (c.loc t).write, false⟩ (c.loc t).held none false
  simp only at hho
  have hstep : Proto.step p (.unlock t (c.loc t).m) = some (p.setTx t { holds := (c.loc t).held }) := by
    simp [Proto.step, htx, hho, TxSt.delHold, filter_rid_ne hf.2]
  refine ⟨_, hstep, ?_⟩
  refine hs.update t _ _ _ (hs.reach.next hstep) hs.idx hs.pend hs.names hs.wf ?_ ?_
    (fun u hu => tx_setTx_ne _ _ hu) (fun u _ => hs.thr u)
  · rw [tx_setTx_same]; simp [absTx, holdsOf, waitingOf, committingOf]
  · refine ⟨?_, ?_, by simpa [Facts] using hf, hi.val⟩
    · simp only [holdsOf]; intro g hg; exact hown g (List.mem_cons_of_mem _ hg)
    · simp only [extra, holdsOf]
      intro x hx; cases hx
      exact ⟨hown _ (List.mem_cons_self ..), by simp [hf.1], hf.2⟩

theorem case_a14 (hs : Sim c p) (hpc : (c.loc t).pc = .a14)
    (h : tstep c.sh t (c.loc t) ch = some (s', l', e)) : Simulated c p t s' l' e := by
  simp only [tstep, hpc] at h
  have hi := hs.thr t
  have hown : ∀ g ∈ (c.loc t).held, owns (c.sh.mu g.rid) t g.mode := by
    have := hi.own; simpa [holdsOf, hpc] using this
  have hf := hi.facts
  simp only [Facts, hpc] at hf
  have hx := hi.ext ((c.loc t).m, modeOf (c.loc t).write) (by simp [extra, hpc])
  cases h
  refine ⟨p, rfl, ?_⟩
  refine hs.update t _ _ _ hs.reach hs.idx hs.pend hs.names (wf_setMu hs.wf _ _ ?_) ?_ ?_
    (fun _ _ => rfl) (fun u hu => hs.other_mu _ _ u ?_)
  · split
    · exact wf_unlock _
    · exact wf_runlock (hs.wf _) t
  · rw [hs.tx t]; simp [absTx, hpc, holdsOf, waitingOf, committingOf]
  · refine inv_plain ?_ hi.val (by simp [holdsOf]) (by simp [extra]) (by simp [Facts])
    intro g hg
    rw [mu_setMu]; simpa [hf.2 g hg] using hown g hg
  · intro m ho
    split
    · exact owns_unlock (hs.wf _) hu hx.1 ho
    · exact owns_runlock hu ho

end Cases

end NodisVerif.Proofs.TxProg
