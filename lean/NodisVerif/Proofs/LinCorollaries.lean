import NodisVerif.Proofs.LinCore
/-
  Consequences of `locked_bodies_linearizable` that the property names: a read sees the state after a
  prefix of the writes; concurrent increments are not lost; concurrent pops never return one element twice.
-/
namespace NodisVerif.Lin

section
variable {State Op Ret : Type} {O : Obj State Op Ret}

/-- the writes of a sequential history -/
def writes (O : Obj State Op Ret) (l : SeqHist Op Ret) : SeqHist Op Ret := l.filter fun x => !O.readOnly x.2.1

/-- reads do not change the state: the final state is the one after the writes alone -/
theorem final_writes (s : State) (l : SeqHist Op Ret) : final O s l = final O s (writes O l) := by
  induction l generalizing s with
  | nil => rfl
  | cons x l ih =>
    unfold writes
    rw [List.filter_cons]
    cases h : O.readOnly x.2.1 with
    | true => simp only [final, Bool.not_true, Bool.false_eq_true, if_false]; rw [O.ro s _ h]; exact ih s
    | false => simp only [final, Bool.not_false, if_true]; exact ih _

theorem legal_append {s : State} {p q : SeqHist Op Ret} (h : Legal O s (p ++ q)) : Legal O (final O s p) q := by
  induction p generalizing s with
  | nil => exact h
  | cons x p ih => exact ih h.2

/-- in a legal sequential history every result is the one computed on the state after the prefix -/
theorem legal_mid {s : State} {p q : SeqHist Op Ret} {x : Nat × Op × Ret} (h : Legal O s (p ++ x :: q)) :
    x.2.2 = (O.apply (final O s p) x.2.1).2 := (legal_append h).1.symm

variable [DecidableEq Ret]

/-- A completed operation (a read in particular) returns what `apply` computes on the state reached by
    a prefix of the writes, taken in linearization order: it never sees a torn or a half-applied state. -/
theorem readers_see_a_prefix_state {σ0 : State} {chk : Bool} {es : List (Ev Op Ret)} {c : Cfg State Op Ret}
    (h : run O chk { σ := σ0 } es = some c) {i : Nat} {r : Ret} (hr : Ev.res i r ∈ es) :
    ∃ o p q, c.lin = p ++ (i, o, r) :: q ∧ writes O p <+: writes O c.lin ∧
      r = (O.apply (final O σ0 (writes O p)) o).2 := by
  have hi := run_inv h
  obtain ⟨st, h1, h2, _⟩ := hi.resOps i r hr
  have hm := (hi.linOps i st.op r).2 ⟨st, h1, rfl, h2⟩
  obtain ⟨p, q, e⟩ := List.append_of_mem hm
  refine ⟨st.op, p, q, e, ?_, ?_⟩
  · rw [e]; unfold writes; rw [List.filter_append]; exact List.prefix_append _ _
  · have := legal_mid (x := (i, st.op, r)) (e ▸ hi.legal)
    rw [← final_writes]; exact this

end

/-! ## no lost update: a counter -/

/-- `true` reads the counter, `false` increments it and returns the old value -/
def counter : Obj Int Bool Int where
  apply s o := if o then (s, s) else (s + 1, s)
  readOnly o := o
  ro := by intro s o h; simp [h]

theorem counter_final (s : Int) (l : SeqHist Bool Int) :
    final counter s l = s + ((l.filter fun x => !x.2.1).length : Int) := by
  induction l generalizing s with
  | nil => simp [final]
  | cons x l ih =>
    rw [final, ih, List.filter_cons]
    cases h : x.2.1 <;> simp [counter] <;> omega

theorem nodup_of_map {α β : Type} (f : α → β) {l : List α} (h : (l.map f).Nodup) : l.Nodup := by
  unfold List.Nodup at h ⊢
  rw [List.pairwise_map] at h
  exact h.imp (fun hab e => hab (congrArg f e))

/-- If every invoked operation has completed, the counter ends at the initial value plus the number of
    increments invoked — however their lock intervals were interleaved: no update is lost. -/
theorem no_lost_update {σ0 : Int} {es : List (Ev Bool Int)} {c : Cfg Int Bool Int}
    (h : run counter true { σ := σ0 } es = some c)
    (hall : ∀ i o, Ev.inv i o ∈ es → ∃ r, Ev.res i r ∈ es) :
    c.σ = σ0 + (((invs es).filter fun p => !p.2).length : Int) := by
  have hi := run_inv h
  rw [← hi.fin, counter_final]
  have hperm : (c.lin.map fun x => (x.1, x.2.1)).Perm (invs es) := by
    rw [List.perm_ext_iff_of_nodup]
    · intro a
      constructor
      · intro ha
        obtain ⟨x, hx, rfl⟩ := List.mem_map.1 ha
        obtain ⟨st, h1, h2, _⟩ := (hi.linOps x.1 x.2.1 x.2.2).1 hx
        have := hi.opsInv x.1 st h1
        rw [h2] at this
        exact mem_invs.2 this
      · intro ha
        obtain ⟨i, o⟩ := a
        have hinv := mem_invs.1 ha
        obtain ⟨r, hr⟩ := hall i o hinv
        obtain ⟨st, h1, h2, _⟩ := hi.resOps i r hr
        obtain ⟨st', h1', h2'⟩ := hi.invOps i o hinv
        rw [h1] at h1'; cases h1'
        exact List.mem_map.2 ⟨(i, o, r), (hi.linOps i o r).2 ⟨st, h1, h2', h2⟩, rfl⟩
    · apply nodup_of_map Prod.fst
      rw [List.map_map]
      exact hi.nodup
    · exact nodup_of_map Prod.fst (invs_nodup es c h)
  have := (hperm.filter fun p => !p.2).length_eq
  rw [List.filter_map, List.length_map] at this
  have e : (c.lin.filter ((fun p : Nat × Bool => !p.2) ∘ fun x => (x.1, x.2.1))) = c.lin.filter fun x => !x.2.1 := rfl
  rw [e] at this
  rw [this]

/-- in particular: `k` increments, all completed, nothing else: the counter ends at `σ0 + k` -/
theorem no_lost_update_k {σ0 : Int} {es : List (Ev Bool Int)} {c : Cfg Int Bool Int}
    (h : run counter true { σ := σ0 } es = some c)
    (hall : ∀ i o, Ev.inv i o ∈ es → ∃ r, Ev.res i r ∈ es) (hincr : ∀ i o, Ev.inv i o ∈ es → o = false) :
    c.σ = σ0 + ((invs es).length : Int) := by
  rw [no_lost_update h hall]
  have : ((invs es).filter fun p => !p.2) = invs es := by
    apply List.filter_eq_self.2
    intro p hp
    have := hincr p.1 p.2 (mem_invs.1 hp)
    simp [this]
  rw [this]

/-! ## no double pop: a stack / queue head -/

/-- the only operation takes the head of the list (`none` when it is empty) -/
def popper (α : Type) : Obj (List α) Unit (Option α) where
  apply s _ := (s.tail, s.head?)
  readOnly _ := false
  ro := by intro s o h; cases h

theorem popper_mem {α : Type} {s : List α} {l : SeqHist Unit (Option α)} (h : Legal (popper α) s l)
    {x : Nat × Unit × Option α} (hx : x ∈ l) {a : α} (ha : x.2.2 = some a) : a ∈ s := by
  induction l generalizing s with
  | nil => cases hx
  | cons y l ih =>
    obtain ⟨h1, h2⟩ := h
    rcases List.mem_cons.1 hx with rfl | hx
    · rw [ha] at h1
      exact List.mem_of_mem_head? (by simpa [popper] using h1)
    · exact List.mem_of_mem_tail (ih (s := s.tail) h2 hx)

theorem popper_pairwise {α : Type} {s : List α} (hs : s.Nodup) {l : SeqHist Unit (Option α)}
    (h : Legal (popper α) s l) : l.Pairwise fun x y => ∀ a, x.2.2 = some a → y.2.2 ≠ some a := by
  induction l generalizing s with
  | nil => exact List.Pairwise.nil
  | cons y l ih =>
    obtain ⟨h1, h2⟩ := h
    rw [List.pairwise_cons]
    refine ⟨?_, ih (s := s.tail) (hs.sublist (List.tail_sublist s)) h2⟩
    intro z hz a ha hza
    have hmem := popper_mem (s := s.tail) h2 hz hza
    rw [ha] at h1
    cases s with
    | nil => simp [popper] at h1
    | cons b s =>
      simp [popper] at h1; subst h1
      exact (List.nodup_cons.1 hs).1 hmem

theorem pairwise_mem {α : Type} {R : α → α → Prop} {l : List α} (h : l.Pairwise R) {x y : α}
    (hx : x ∈ l) (hy : y ∈ l) (hne : x ≠ y) : R x y ∨ R y x := by
  induction l with
  | nil => cases hx
  | cons z l ih =>
    rw [List.pairwise_cons] at h
    rcases List.mem_cons.1 hx with rfl | hx' <;> rcases List.mem_cons.1 hy with rfl | hy'
    · exact absurd rfl hne
    · exact Or.inl (h.1 _ hy')
    · exact Or.inr (h.1 _ hx')
    · exact ih h.2 hx' hy'

/-- Two different completed pops on a list of distinct elements never return the same element: no
    element is handed out twice, whatever the interleaving. -/
theorem no_double_pop {α : Type} [DecidableEq α] {s0 : List α} (hs : s0.Nodup)
    {es : List (Ev Unit (Option α))} {c : Cfg (List α) Unit (Option α)}
    (h : run (popper α) true { σ := s0 } es = some c) {i j : Nat} {a b : α} (hne : i ≠ j)
    (hi : Ev.res i (some a) ∈ es) (hj : Ev.res j (some b) ∈ es) : a ≠ b := by
  have hinv := run_inv h
  obtain ⟨oi, h1⟩ := hinv.isLin.complete i (some a) (List.mem_filter.2 ⟨hi, rfl⟩)
  obtain ⟨oj, h2⟩ := hinv.isLin.complete j (some b) (List.mem_filter.2 ⟨hj, rfl⟩)
  have hp := popper_pairwise hs hinv.legal
  intro e; subst e
  rcases pairwise_mem hp h1 h2 (by intro e; cases e; exact hne rfl) with h | h
  · exact h a rfl rfl
  · exact h a rfl rfl

/-- and what is popped was in the list -/
theorem pop_returns_element {α : Type} [DecidableEq α] {s0 : List α}
    {es : List (Ev Unit (Option α))} {c : Cfg (List α) Unit (Option α)}
    (h : run (popper α) true { σ := s0 } es = some c) {i : Nat} {a : α}
    (hi : Ev.res i (some a) ∈ es) : a ∈ s0 := by
  have hinv := run_inv h
  obtain ⟨oi, h1⟩ := hinv.isLin.complete i (some a) (List.mem_filter.2 ⟨hi, rfl⟩)
  exact popper_mem hinv.legal h1 rfl

end NodisVerif.Lin
