import NodisVerif.Proofs.TxProgStrong
/-
  Program model of tx.go: the thread-local part `LF` of the stronger invariant (lock order of the locking phase,
  which record `newKey` / `delKey` work on) and its preservation by the thread's own steps.
-/
namespace NodisVerif.Proofs.TxProg
open NodisVerif.Proto (Key Rec Mode Ev Hold TxSt PState assoc erase put Tx)
open NodisVerif.TxProg
open NodisVerif.Proofs.Proto

structure LF (l : Loc) : Prop where
  /-- inside `acquire`: in the locking phase every held key is smaller than the key being locked and the
      remaining keys are increasing; `newKey` asks for the write lock with a placeholder; a call from the
      command body names a key that is held -/
  acq : acqPc l.pc = true →
    (l.ret = .plan → (∀ g ∈ l.held, g.key < l.key ∨ (l.pc = .a6c ∧ g.key = l.key)) ∧
        sortedKeys (l.key :: l.todo.map (·.1)) = true) ∧
    (l.ret = .newKey → l.write = true ∧ l.ph = true) ∧
    (l.ret ≠ .plan → holdsName l l.key = true)
  /-- a call from the command body finds a record the transaction holds -/
  a3 : l.pc = .a3 → l.ret ≠ .plan → l.okcur = true → (holdOf l l.m).isSome = true
  /-- so only the locking phase ever waits for a record lock -/
  aw : afterWait l.pc = true → l.ret = .plan
  a6 : l.pc = .a6c → (⟨l.m, l.key, modeOf l.write, true⟩ : Hold) ∈ l.held
  nk : (l.pc = .n1 ∨ l.pc = .n2 ∨ l.pc = .n3) → (⟨l.m, l.key, .w, true⟩ : Hold) ∈ l.held
  dk : (l.pc = .d1 ∨ l.pc = .d2) → (∀ h ∈ l.held, h.key = l.key → h.mode = .w) ∧ holdsName l l.key = true

theorem sortedKeys_cons {a b : Key} {l : List Key} (h : sortedKeys (a :: b :: l) = true) :
    a < b ∧ sortedKeys (b :: l) = true := by
  simpa [sortedKeys] using h

theorem sortedKeys_tail {a : Key} {l : List Key} (h : sortedKeys (a :: l) = true) : sortedKeys l = true := by
  cases l with
  | nil => rfl
  | cons b l => exact (sortedKeys_cons h).2

theorem lf_nextPlan {l : Loc} (h1 : ∀ k' w p rest, l.todo = (k', w, p) :: rest → ∀ g ∈ l.held, g.key < k')
    (h2 : sortedKeys (l.todo.map (·.1)) = true) : LF (nextPlan l) := by
  unfold nextPlan
  split
  · constructor <;> simp [acqPc, afterWait]
  · rename_i k w ph todo hk
    rw [hk] at h2
    constructor <;> simp [acqPc, afterWait]
    exact ⟨fun g hg => h1 k w ph todo hk g hg, by simpa using h2⟩

theorem lf_retTo {l : Loc}
    (h1 : l.ret = .plan → (∀ g ∈ l.held, g.key < l.key ∨ g.key = l.key) ∧ sortedKeys (l.key :: l.todo.map (·.1)) = true)
    (h2 : l.ret = .newKey → (⟨l.m, l.key, .w, true⟩ : Hold) ∈ l.held) : LF (retTo l) := by
  unfold retTo
  split
  · rename_i hr
    obtain ⟨a, b⟩ := h1 hr
    refine lf_nextPlan ?_ (sortedKeys_tail b)
    intro k' w p rest hk g hg
    rw [hk] at b
    have hlt := (sortedKeys_cons (by simpa using b)).1
    rcases a g hg with h | h
    · exact String.lt_trans h hlt
    · rw [h]; exact hlt
  · constructor <;> simp [acqPc, afterWait]
  · rename_i hr
    constructor <;> simp [acqPc, afterWait]
    exact h2 hr

theorem lf_commitNext (s : Shared) (l : Loc) : LF (commitNext s l) := by
  unfold commitNext
  split
  · constructor <;> simp [acqPc, afterWait]
  · split
    · constructor <;> simp [acqPc, afterWait]
    · split <;> constructor <;> simp [acqPc, afterWait]

/-- a transition inside `acquire` that only moves the pc (and locals that `LF` does not read) -/
theorem lf_move {l l' : Loc} (h : LF l) (ha : acqPc l.pc = true) (ha' : acqPc l'.pc = true)
    (haw : afterWait l'.pc = true → l.ret = .plan)
    (hk : l'.key = l.key) (hr : l'.ret = l.ret) (hh : l'.held = l.held) (ht : l'.todo = l.todo)
    (hwr : l.write = true → l'.write = true) (hph : l'.ph = l.ph)
    (h6 : l.pc ≠ .a6c) (h6' : l'.pc ≠ .a6c)
    (h3' : l'.pc = .a3 → l'.ret ≠ .plan → l'.okcur = true → (holdOf l' l'.m).isSome = true) : LF l' := by
  obtain ⟨a, b, c⟩ := h.acq ha
  refine ⟨fun _ => ⟨?_, ?_, ?_⟩, h3', ?_, fun e => absurd e h6', ?_, ?_⟩
  · intro hp
    rw [hr] at hp
    obtain ⟨a1, a2⟩ := a hp
    rw [hk, hh, ht]
    refine ⟨fun g hg => ?_, a2⟩
    rcases a1 g hg with x | x
    · exact Or.inl x
    · exact absurd x.1 h6
  · intro hn; rw [hr] at hn; rw [hph]; exact ⟨hwr (b hn).1, (b hn).2⟩
  · intro hn; rw [hr] at hn; simpa [holdsName, hh, hk] using c hn
  · intro x; rw [hr]; exact haw x
  · intro x; rcases x with x | x | x <;> rw [x] at ha' <;> simp [acqPc] at ha'
  · intro x; rcases x with x | x <;> rw [x] at ha' <;> simp [acqPc] at ha'

macro "lf_triv" : tactic => `(tactic| (constructor <;> simp [acqPc, afterWait]))

end NodisVerif.Proofs.TxProg
