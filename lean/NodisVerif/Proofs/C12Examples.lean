import NodisVerif.Proofs.C12Scan
import NodisVerif.Proofs.C11Examples
/-
  C11 / C12: witnesses of the SCAN findings.
-/
set_option linter.unusedSimpArgs false
namespace NodisVerif.Proofs.C11
open NodisVerif.Store NodisVerif.Codec NodisVerif.Spec.Persist

/-- Pebble store after `SET k v` -/
def setState : MState :=
  { pebble := true, nextId := 3, signalled := [[107]],
    index := [([107], { exp := 0, value := some (.str [118]), state := 3, kid := 1, oid := 2, vtype := 1 })] }

theorem setState_reached : (Api.set (empty true) 0 [107] [118] false).1 = setState := by
  simp [Api.set, empty, writeKey, getMeta, AList.get?, newKeyWith, fresh, putMeta, AList.set,
    Meta.setValue, Meta.markModified, Api.asStr, valOf, Api.setVal, Api.setExp, signal,
    modMeta, emit, setState, Val.typeCode]

theorem glob_star_k : Glob.matched [42] [107] = true := by decide
theorem glob_star_b : Glob.matched [42] [98] = true := by decide

/-- `SCAN 0 MATCH * COUNT 10 TYPE string` finds the key ... -/
theorem setState_scan : (Api.scan setState 0 0 [42] 10 1).2 = .many [.int 0, .slist [[107]]] := by
  simp [Api.scan, Api.scan.go, setState, wrap64, int64Max, glob_star_k, Meta.expired, modMeta, getMeta,
    AList.get?, putMeta, AList.set]

/-- ... and also after a close/open: the record comes back without a cached type, SCAN loads it -/
theorem setState_scan_reopen :
    (Api.scan (reopen (close setState 0)) 0 0 [42] 10 1).2 = .many [.int 0, .slist [[107]]] := by
  simp [close, flush, reopen, setState, Meta.expired, Meta.isOk, Meta.isModified, persist, diskSet, encodeKey,
    putVarint_zero, AList.set, putMeta, syncShared, AList.get?, loadValue, diskGet, encodeEntry, encodeVal,
    decodeEntry, Val.typeCode, Meta.setValue,
    Api.scan, Api.scan.go, wrap64, int64Max, glob_star_k, modMeta, getMeta]

theorem setState_inv (t : Int) : StoreInv setState t := by
  have hidx : ∀ k m, AList.get? setState.index k = some m →
      k = [107] ∧ m = { exp := 0, value := some (.str [118]), state := 3, kid := 1, oid := 2, vtype := 1 } := by
    intro k m hm
    simp only [setState, AList.get?] at hm
    split at hm
    · rename_i h; exact ⟨h.symm, by simpa using hm.symm⟩
    · cases hm
  refine ⟨trivial, trivial, ?_, (by intro dk e he; cases he), (by intro hp; cases hp), by simp [setState]⟩
  intro k m hm
  obtain ⟨rfl, rfl⟩ := hidx k m hm
  exact RecInv.hot (v := .str [118]) rfl (by decide) (by decide) ⟨trivial, trivial⟩
    (by intro e he; cases he) (Or.inl (by decide))

/-- in-memory store: "a" expired at 5 but not yet collected, "b" live; time is 10 -/
def expState : MState :=
  { pebble := false, nextId := 10,
    index := [([97], { exp := 5, value := some (.str [1]), state := 3, kid := 1, oid := 2, vtype := 1 }),
              ([98], { exp := 0, value := some (.str [2]), state := 3, kid := 3, oid := 4, vtype := 1 })] }

theorem expState_inv : StoreInv expState 10 := by
  have hidx : ∀ k m, AList.get? expState.index k = some m →
      (k = [97] ∧ m = { exp := 5, value := some (.str [1]), state := 3, kid := 1, oid := 2, vtype := 1 }) ∨
      (k = [98] ∧ m = { exp := 0, value := some (.str [2]), state := 3, kid := 3, oid := 4, vtype := 1 }) := by
    intro k m hm
    simp only [expState, AList.get?] at hm
    split at hm
    · left; rename_i h; exact ⟨h.symm, by simpa using hm.symm⟩
    · split at hm
      · right; rename_i h; exact ⟨h.symm, by simpa using hm.symm⟩
      · cases hm
  refine ⟨by simp [expState, AList.Sorted, Bytes.lt], trivial, ?_, (by intro dk e he; cases he), ?_,
    by simp [expState]⟩
  · intro k m hm
    rcases hidx k m hm with ⟨rfl, rfl⟩ | ⟨rfl, rfl⟩
    · exact RecInv.hot (v := .str [1]) rfl (by decide) (by decide) ⟨trivial, trivial⟩
        (by intro e he; cases he) (Or.inl (by decide))
    · exact RecInv.hot (v := .str [2]) rfl (by decide) (by decide) ⟨trivial, trivial⟩
        (by intro e he; cases he) (Or.inl (by decide))
  · intro _
    refine ⟨?_, ?_, (by intro dk e he; cases he), (by intro dk e k m he; cases he),
      (by intro dk e _ _ he; cases he)⟩
    · intro k m hm
      rcases hidx k m hm with ⟨rfl, rfl⟩ | ⟨rfl, rfl⟩ <;> simp [expState]
    · intro k1 m1 k2 m2 h1 h2 ho
      rcases hidx k1 m1 h1 with ⟨rfl, rfl⟩ | ⟨rfl, rfl⟩ <;>
        rcases hidx k2 m2 h2 with ⟨rfl, rfl⟩ | ⟨rfl, rfl⟩ <;> simp at ho ⊢

/-- `SCAN 0 COUNT 1` visits the expired record only and hands out cursor 2 ... -/
theorem expState_scan_first : (Api.scan expState 10 0 [42] 1 0).2 = .many [.int 2, .slist []] := by
  simp [Api.scan, Api.scan.go, expState, wrap64, int64Max, glob_star_b, Meta.expired, modMeta, getMeta,
    AList.get?, putMeta, AList.set]

/-- ... `SCAN 2` then reports the live key "b" ... -/
theorem expState_scan : (Api.scan expState 10 2 [42] 10 0).2 = .many [.int 0, .slist [[98]]] := by
  simp [Api.scan, Api.scan.go, expState, wrap64, int64Max, glob_star_b, Meta.expired, modMeta, getMeta,
    AList.get?, putMeta, AList.set]

/-- ... but not if a pass has unlinked the expired record in between: position 2 is past the end -/
theorem expState_scan_gc : (Api.scan (gc expState 10) 10 2 [42] 10 0).2 = .many [.int 0, .slist []] := by
  simp [gc, expState, Meta.expired, Meta.isOk, Meta.isModified, persist, diskSet, unpersist, AList.erase,
    encodeKey, putVarint_zero, AList.set, putMeta, syncShared, AList.get?, List.find?,
    Api.scan, Api.scan.go, wrap64, int64Max, glob_star_b, modMeta, getMeta]

/-! ### a rejected write -/

/-- a hot modified record whose value was last written under deadline 5 and whose deadline is 9 now -/
def staleRec : Meta :=
  { exp := 9, value := some (.str [1]), state := 3, kid := 1, oid := 2, vtype := 1, stored := some 5 }

/-- a Pebble store holding that record and its backend entry; the backend rejects the next write -/
def staleState : MState :=
  { pebble := true, nextId := 3, failSet := 1, index := [([107], staleRec)],
    disk := [(encodeKey [107] 5, { name := [107], exp := 5, val := .str [0] })] }

theorem staleState_persist_fails : (persist staleState [107] staleRec).2.2 = false := by
  rw [persist_fail _ _ _ (by decide)]

theorem staleState_entry : (diskGet staleState [107] 5).isSome = true := by
  simp [diskGet, staleState, AList.get?]

end NodisVerif.Proofs.C11
