import NodisVerif.Proofs.C19Quiescent
/-
  C19 helpers, part 6: SCAN iterations while other commands change the keyspace between the calls.

  A history is the list of stores in which the 2nd, 3rd, ... call is made (whatever ran between two
  calls took the store from the result of one call to the next element of the list; once the list
  is used up nobody interferes any more).
-/
namespace NodisVerif.Proofs.C19History
open NodisVerif.Spec.Scan NodisVerif.Proofs.C19Iter NodisVerif.Proofs.C19Scan NodisVerif.Proofs.C19ScanIter
open NodisVerif.Proofs.C19Quiescent
open NodisVerif.Proofs.AListLemmas NodisVerif.Proofs.AListLemmas2

/-- the SCAN server with interference: after each call the store is replaced by the next element
    of the history (if any) -/
def nextStore (hist : List MState) (own : MState) : MState :=
  match hist with
  | [] => own
  | t :: _ => t

def histStep (now : Int) (pat : Bytes) (count : Int) (typ : Nat) :
    MState × List MState → Int → (MState × List MState) × Int × List Bytes :=
  fun sh c =>
    let r := scanStep now pat count typ sh.1 c
    ((nextStore sh.2 r.1, sh.2.tail), r.2)

/-- position of the (first) record named `x` -/
def posV (x : Bytes) (v : List VEnt) : Nat := v.findIdx (fun e => e.1 == x)
def pos (x : Bytes) (s : MState) : Nat := s.index.findIdx (fun e => e.1 == x)

/-- on the view: `x` is indexed and eligible -/
def StableV (now : Int) (pat : Bytes) (typ : Nat) (x : Bytes) (v : List VEnt) : Prop :=
  ∃ e, v[posV x v]? = some e ∧ keep now pat typ e = true

/-- `x` is there to be found in store `s` -/
def Stable (now : Int) (pat : Bytes) (typ : Nat) (x : Bytes) (s : MState) : Prop :=
  AList.Sorted s.index ∧ (s.index.length : Int) < I63 ∧ StableV now pat typ x (view s typ)

/-- the position of `x` never decreases along the history -/
def Mono (x : Bytes) : List MState → Prop
  | [] => True
  | [_] => True
  | a :: b :: rest => pos x a ≤ pos x b ∧ Mono x (b :: rest)

theorem posV_name (x : Bytes) (v : List VEnt) (e : VEnt) (h : v[posV x v]? = some e) : e.1 = x := by
  have hlt : posV x v < v.length := by
    rcases Nat.lt_or_ge (posV x v) v.length with h' | h'
    · exact h'
    · rw [List.getElem?_eq_none h'] at h; cases h
  have := @List.findIdx_getElem _ (fun (e : VEnt) => e.1 == x) v hlt
  rw [List.getElem?_eq_getElem hlt] at h
  unfold posV at h
  cases h
  simpa using this

/-- a record at position `i` inside the visited window is reported -/
theorem mem_kept_window (now : Int) (pat : Bytes) (typ : Nat) (v : List VEnt) (i p k : Nat) (e : VEnt)
    (he : v[i]? = some e) (hk : keep now pat typ e = true) (h1 : p ≤ i) (h2 : i < p + k) :
    e.1 ∈ kept now pat typ ((v.drop p).take k) := by
  unfold kept
  apply List.mem_map.2
  refine ⟨e, ?_, rfl⟩
  apply List.mem_filter.2
  refine ⟨?_, hk⟩
  apply List.mem_iff_getElem?.2
  refine ⟨i - p, ?_⟩
  rw [List.getElem?_take, if_pos (by omega), List.getElem?_drop]
  have : p + (i - p) = i := by omega
  rw [this, he]

theorem posV_view (x : Bytes) (s : MState) (typ : Nat) : posV x (view s typ) = pos x s := by
  unfold posV pos view viewOf
  rw [List.findIdx_map]
  rfl

theorem stable_of_frame {now : Int} {pat : Bytes} {typ : Nat} {x : Bytes} {s s' : MState}
    (h : ScanFrame typ s s') (hs : Stable now pat typ x s) : Stable now pat typ x s' := by
  obtain ⟨h1, h2, h3⟩ := hs
  refine ⟨h.sorted h1, ?_, ?_⟩
  · rw [h.length]; exact h2
  · rw [h.view_eq]; exact h3

theorem pos_of_frame {typ : Nat} {x : Bytes} {s s' : MState} (h : ScanFrame typ s s') : pos x s' = pos x s := by
  rw [← posV_view x s' typ, ← posV_view x s typ, h.view_eq]

/-- the core of `scan_stable`: as long as the call about to be made starts at or before the
    position of `x`, `x` will be reported before the iteration ends -/
theorem visited_of_start_le (now : Int) (pat : Bytes) (typ : Nat) (x : Bytes) (k : Nat) (hk0 : 0 < k) (hk : (k : Int) < I63) :
    ∀ (fuel : Nat) (s : MState) (hist : List MState) (c : Int), 0 ≤ c →
      (∀ t ∈ s :: hist, Stable now pat typ x t) → Mono x (s :: hist) → startOf c ≤ pos x s →
      (iterateFrom (histStep now pat (k : Int) typ) fuel (s, hist) c).2 = true →
      x ∈ visited (iterateFrom (histStep now pat (k : Int) typ) fuel (s, hist) c) := by
  intro fuel
  induction fuel with
  | zero => intro s hist c _ _ _ _ ht; simp [iterateFrom_zero] at ht
  | succ f ih =>
    intro s hist c h0 hst hmono hstart hterm
    obtain ⟨hsorted, hlen, e, he, hkeep⟩ := hst s List.mem_cons_self
    have hvl := view_length s typ
    have hpv := posV_view x s typ
    rw [hpv] at he
    have hplt : pos x s < (view s typ).length := by
      rcases Nat.lt_or_ge (pos x s) (view s typ).length with h' | h'
      · exact h'
      · rw [List.getElem?_eq_none h'] at he; cases he
    have hcn : c ≤ (view s typ).length := by
      unfold startOf at hstart; omega
    have hstep : histStep now pat (k : Int) typ (s, hist) c =
        ((nextStore hist (scanStep now pat (k : Int) typ s c).1, hist.tail),
          (if (view s typ).length - startOf c ≤ k then 0 else ((startOf c + k + 1 : Nat) : Int)),
          kept now pat typ (((view s typ).drop (startOf c)).take k)) := by
      simp only [histStep]
      rw [scanStep_out, scanPure_lim (view s typ) now pat typ (by rw [hvl]; exact hlen) c k hk h0 hcn (by omega)]
    by_cases hwin : pos x s < startOf c + k
    · -- `x` is inside the window of this call
      have hin : x ∈ kept now pat typ (((view s typ).drop (startOf c)).take k) := by
        have := mem_kept_window now pat typ (view s typ) (pos x s) (startOf c) k e he hkeep hstart hwin
        rwa [posV_name x (view s typ) e (by rw [hpv]; exact he)] at this
      apply mem_visited_first
      rw [hstep]; exact hin
    · -- the window ends before `x`: the next call starts at the end of the window
      have hbig : ¬ ((view s typ).length - startOf c ≤ k) := by omega
      have hne : ((startOf c + k + 1 : Nat) : Int) ≠ 0 := by omega
      rw [if_neg hbig] at hstep
      rw [iterateFrom_next _ f (s, hist) c _ _ _ hstep hne] at hterm ⊢
      simp only [visited, List.flatten_cons, List.mem_append]
      right
      have hso : startOf ((startOf c + k + 1 : Nat) : Int) = startOf c + k := by unfold startOf; omega
      cases hist with
      | nil =>
        simp only [nextStore, List.tail_nil] at hterm ⊢
        have hframe : ScanFrame typ s (scanStep now pat (k : Int) typ s c).1 := scan_frame s hsorted now c pat (k : Int) typ
        have hst' : Stable now pat typ x (scanStep now pat (k : Int) typ s c).1 :=
          stable_of_frame hframe (hst s List.mem_cons_self)
        apply ih _ [] _ (by omega) (by intro t ht; simp at ht; subst ht; exact hst') trivial
        · rw [hso, pos_of_frame hframe]; omega
        · exact hterm
      | cons t ts =>
        simp only [nextStore, List.tail_cons] at hterm ⊢
        apply ih t ts _ (by omega) (by intro u hu; exact hst u (List.mem_cons_of_mem _ hu)) hmono.2
        · rw [hso]; have := hmono.1; omega
        · exact hterm

/-! ## sufficient conditions: what keeps the position of `x` from decreasing -/

/-- inserting (or overwriting) another key never moves `x` towards the front -/
theorem pos_set_ge (x key : Bytes) (m : Meta) (hne : key ≠ x) : ∀ (idx : AList Meta),
    idx.findIdx (fun e => e.1 == x) ≤ (AList.set idx key m).findIdx (fun e => e.1 == x) := by
  have hb : (key == x) = false := beq_eq_false_iff_ne.2 hne
  intro idx
  induction idx with
  | nil => simp [AList.set]
  | cons a rest ih =>
    obtain ⟨k, w⟩ := a
    simp only [AList.set]
    by_cases hk : k = key
    · subst hk; simp [List.findIdx_cons]
    · simp only [hk, if_false]
      by_cases hlt : Bytes.lt key k = true
      · simp only [hlt, if_true]
        rw [List.findIdx_cons (b := (key, m))]
        simp only [hb, cond_false]
        omega
      · simp only [hlt, Bool.false_eq_true, if_false]
        rw [List.findIdx_cons, List.findIdx_cons]
        by_cases hx : k = x
        · have : (k == x) = true := by simpa using hx
          simp only [this, cond_true]; omega
        · have : (k == x) = false := beq_eq_false_iff_ne.2 hx
          simp only [this, cond_false]; omega

/-- removing a key that sorts after `x` does not move `x` -/
theorem pos_erase_after (x key : Bytes) (hlt : Bytes.lt x key = true) : ∀ (idx : AList Meta), AList.Sorted idx →
    (AList.erase idx key).findIdx (fun e => e.1 == x) = idx.findIdx (fun e => e.1 == x) ∨
    idx.findIdx (fun e => e.1 == x) = idx.length := by
  intro idx
  induction idx with
  | nil => intro _; simp [AList.erase]
  | cons a rest ih =>
    intro hs
    obtain ⟨k, w⟩ := a
    obtain ⟨hrest, hall⟩ := sorted_cons (k, w) rest hs
    simp only [AList.erase]
    by_cases hk : k = key
    · -- the removed key is the head; `x` sorts before it, so `x` is not in the list at all
      right
      subst hk
      rw [List.findIdx_cons]
      have hkx : (k == x) = false := by
        apply beq_eq_false_iff_ne.2
        intro h; subst h; simp [lt_irrefl] at hlt
      have : rest.findIdx (fun e => e.1 == x) = rest.length := by
        apply List.findIdx_eq_length.2
        intro e he
        have hke : Bytes.lt k e.1 = true := hall e he
        have : e.1 ≠ x := by
          intro h; subst h
          have := lt_asymm _ _ hke
          rw [hlt] at this; cases this
        simpa using this
      simp only [hkx, cond_false, this, List.length_cons]
    · simp only [hk, if_false]
      rw [List.findIdx_cons, List.findIdx_cons]
      by_cases hx : k = x
      · left
        have : (k == x) = true := by simpa using hx
        simp only [this, cond_true]
      · have : (k == x) = false := beq_eq_false_iff_ne.2 hx
        simp only [this, cond_false]
        rcases ih hrest with h | h
        · left; rw [h]
        · right; simp [h]

end NodisVerif.Proofs.C19History
