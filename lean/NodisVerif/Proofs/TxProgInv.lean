import NodisVerif.Proofs.TxProgShared
/-
  Program model of tx.go: `Strong` is inductive; `prog_refines` without side conditions.
-/
namespace NodisVerif.Proofs.TxProg
open NodisVerif.Proto (Key Rec Mode Ev Hold TxSt PState assoc erase put Tx)
open NodisVerif.TxProg
open NodisVerif.Proofs.Proto

theorem held_sub_holdsOf {l : Loc} (hg : grow l.pc = true) : ∀ g ∈ l.held, g ∈ holdsOf l := by
  intro g hgm
  cases hpc : l.pc <;> simp [hpc, grow] at hg <;> simp [holdsOf, hpc, hgm]

theorem grow_ne_init {l : Loc} (hg : grow l.pc = true) : l.pc ≠ .init := by
  intro h; rw [h] at hg; cases hg

/-- a record that thread `u` holds stays registered under a step of another thread `t` -/
theorem lookup_frame {c c' : Cfg} {p p' : PState} {t u : Tid} {e : Option Ev} (hs : Sim c p) (hs' : Sim c' p')
    (hst : optStep p e = some p') (hev : ∀ ev, e = some ev → evTx ev = some t) (hu : u ≠ t)
    (hpcu : (c.loc u).pc ≠ .init) {g : Hold} (hg : g ∈ holdsOf (c.loc u)) {k : Key}
    (hl : c.sh.lookup k = some g.rid) : c'.sh.lookup k = some g.rid := by
  rw [← hs.lookup] at hl
  rw [← hs'.lookup]
  cases e with
  | none => simp only [optStep] at hst; cases hst; exact hl
  | some ev =>
    simp only [optStep] at hst
    exact held_stays_registered hs.inv (hs.tx_some u hpcu) hg hl (hev ev rfl) (Ne.symm hu) hst

/-- the index entry of a record that thread `u` holds is not touched by a step of another thread `t` -/
theorem index_frame {c c' : Cfg} {p p' : PState} {t u : Tid} {e : Option Ev} (hs : Sim c p) (hs' : Sim c' p')
    (hst : optStep p e = some p') (hev : ∀ ev, e = some ev → evTx ev = some t) (hu : u ≠ t)
    (hpcu : (c.loc u).pc ≠ .init) {g : Hold} (hg : g ∈ holdsOf (c.loc u)) {k : Key}
    (hl : assoc c.sh.index k = some g.rid) : assoc c'.sh.index k = some g.rid := by
  rw [← hs.idx] at hl
  rw [← hs'.idx]
  cases e with
  | none => simp only [optStep] at hst; cases hst; exact hl
  | some ev =>
    simp only [optStep] at hst
    exact index_stable hs.inv (hs.tx_some u hpcu) hg hl (hev ev rfl) (Ne.symm hu) hst

/-- the shared part of the invariant of another thread is kept -/
theorem sf_other {c : Cfg} {p p' : PState} {t u : Tid} {ch : Choice} {s' : Shared} {l' : Loc} {e : Option Ev}
    (hst : Strong c p) (hu : u ≠ t) (h : tstep c.sh t (c.loc t) ch = some (s', l', e))
    (hs' : Sim ⟨s', setD c.thr t l'⟩ p') (hstep : optStep p e = some p') : SF s' u (c.loc u) := by
  have hsmu := tstep_smu h hst.swf (hst.sf t).w (hst.sf t).r
  have hev : ∀ ev, e = some ev → evTx ev = some t := by
    intro ev he; subst he; exact tstep_evTx h
  have hsu := hst.sf u
  refine ⟨fun x => (hsmu.2.2.2 u hu).1 (hsu.w x), fun x => (hsmu.2.2.2 u hu).2 (hsu.r x), ?_, ?_, ?_, ?_⟩
  · intro hpc
    have hwu := hsu.w (by simp [hpc, inW])
    have hnw : inW (c.loc t).pc = false := by
      cases hx : inW (c.loc t).pc with
      | false => rfl
      | true =>
        have := (hst.sf t).w hx
        rw [hwu] at this
        exact absurd (Option.some.inj this) hu
    obtain ⟨a, b⟩ := tstep_maps h hnw
    rw [lookup_congr a b]; exact hsu.d3 hpc
  · intro hg g hgm hne
    obtain ⟨g', a, b⟩ := hsu.reg hg g hgm hne
    exact ⟨g', a, lookup_frame (c' := ⟨s', setD c.thr t l'⟩) hst.sim hs' hstep hev hu (grow_ne_init hg)
      (held_sub_holdsOf hg g' a) b⟩
  · intro hpc hok
    have hl := hsu.vreg hpc hok
    exact lookup_frame (c' := ⟨s', setD c.thr t l'⟩) (g := ⟨(c.loc u).m, (c.loc u).key, modeOf (c.loc u).write,
      (c.loc u).okcur && ((c.loc u).write || (c.loc u).hv)⟩) hst.sim hs' hstep hev hu (by simp [hpc])
      (by simp [holdsOf, hpc]) hl
  · intro hpc hok
    have hl := hsu.gidx hpc hok
    have hne : (c.loc u).pc ≠ .init := by rcases hpc with h | h | h <;> simp [h]
    have hmem : (⟨(c.loc u).m, (c.loc u).key, .w, (c.loc u).okcur⟩ : Hold) ∈ holdsOf (c.loc u) := by
      rcases hpc with h | h | h <;> simp [holdsOf, h]
    exact index_frame (c' := ⟨s', setD c.thr t l'⟩) hst.sim hs' hstep hev hu hne hmem hl

/-- the stronger invariant is inductive, and every step is a step of the protocol -/
theorem strong_step {c c' : Cfg} {p : PState} {t : Tid} {ch : Choice} {e : Option Ev} (hst : Strong c p)
    (h : TxProg.step c t ch = some (c', e)) : ∃ p', optStep p e = some p' ∧ Strong c' p' := by
  obtain ⟨p', hstep, hs'⟩ := sim_step hst.sim (guarded_of_strong hst t) h
  refine ⟨p', hstep, ?_⟩
  unfold TxProg.step at h
  split at h
  · cases h
  · rename_i s l ev hts
    cases h
    have hsmu := tstep_smu hts hst.swf (hst.sf t).w (hst.sf t).r
    have hconv := tstep_smu_conv hts hst.rnd (hst.conv t).1 (hst.conv t).2
    refine ⟨hs', hsmu.1, ?_, ?_, hconv.1, ?_⟩
    rotate_left 2
    · intro u
      rw [loc_set]
      by_cases hu : u = t
      · subst hu; simpa using ⟨hconv.2.1, hconv.2.2.1⟩
      · simp only [hu, if_false]
        exact ⟨fun x => (hst.conv u).1 ((hconv.2.2.2 u hu).1 x), fun x => (hst.conv u).2 ((hconv.2.2.2 u hu).2 x)⟩
    · intro u
      rw [loc_set]
      by_cases hu : u = t
      · subst hu; simpa using lf_self hst hts
      · simpa [hu] using hst.lf u
    · intro u
      rw [loc_set]
      by_cases hu : u = t
      · subst hu
        simp only [if_true]
        refine ⟨hsmu.2.1, hsmu.2.2.1, sf_d3_self hst.sim hts, sf_reg_self hst hts, sf_vreg_self hts, ?_⟩
        have hold : g678 (c.loc u).pc = true → (c.loc u).okcur = true →
            assoc c.sh.index (c.loc u).key = some (c.loc u).m := by
          intro hx
          refine (hst.sf u).gidx ?_
          cases hq : (c.loc u).pc <;> simp [hq, g678] at hx <;> simp
        intro hx
        refine sf_gidx_self hold hts ?_
        rcases hx with h | h | h <;> simp [h, g678]
      · simp only [hu, if_false]
        exact sf_other hst hu hts hs' hstep

/-- trace inclusion, with no side condition: every schedule from every `Strong` state -/
theorem strong_refines {c : Cfg} {p : PState} (hst : Strong c p) (sch : List (Tid × Choice)) :
    ∃ p', runAll p (TxProg.run c sch).2 = some p' ∧ Strong (TxProg.run c sch).1 p' := by
  induction sch generalizing c p with
  | nil => exact ⟨p, rfl, hst⟩
  | cons a sch ih =>
    obtain ⟨t, ch⟩ := a
    cases hs : TxProg.step c t ch with
    | none => rw [run_cons_none hs]; exact ih hst
    | some r =>
      obtain ⟨c', e⟩ := r
      rw [run_cons_some hs]
      obtain ⟨p1, h1, hst1⟩ := strong_step hst hs
      obtain ⟨p2, h2, hst2⟩ := ih hst1
      refine ⟨p2, ?_, hst2⟩
      cases e with
      | none => simp only [optStep] at h1; cases h1; simpa using h2
      | some ev =>
        simp only [optStep] at h1
        simp only [Option.toList, List.cons_append, List.nil_append, runAll_cons, h1, Option.bind_some]
        exact h2

end NodisVerif.Proofs.TxProg
