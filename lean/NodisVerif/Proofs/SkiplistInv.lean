import NodisVerif.Model.Skiplist
import NodisVerif.Proofs.C04Inv
/-
  The structural invariant of the pointer-level skiplist (Model/Skiplist.lean) and the abstraction to the
  level-0 chain. `IsChain sl c`: `c` is the list of heap indexes of the nodes in chain order (header excluded).
-/
namespace NodisVerif.Skiplist
open NodisVerif.DsZSet (Item nodeLt)
open NodisVerif.Proofs.C04 (ILt)
open NodisVerif.Proofs.ZSetLemmas (Good)

/-- `len(n.level)`; 0 for an index outside the heap -/
def height (h : List Node) (n : Nat) : Nat :=
  match h[n]? with
  | some nd => nd.level.length
  | none => 0

/-- node `x` takes part in level `i` -/
def above (h : List Node) (i : Nat) (x : Nat) : Bool := decide (i < height h x)

def itemAt (h : List Node) (n : Nat) : Item :=
  match h[n]? with
  | some nd => nd.item
  | none => (0, [])

/-- every level-`i` link of the first node of the list points to the next node of the list that takes part in
    level `i` (nil if none), and the span of a link that exists is the distance; recursively for the rest -/
def Linked (h : List Node) : List Nat → Prop
  | [] => True
  | n :: rest =>
    (∀ i l, getLevel h n i = .ok l →
        l.forward = rest.find? (above h i) ∧
        (l.forward ≠ none → l.span = (rest.findIdx (above h i) : Int) + 1)) ∧ Linked h rest

/-- `backward` = the previous node of the list (`prev` for the first one) -/
def BackLinked (h : List Node) : Option Nat → List Nat → Prop
  | _, [] => True
  | prev, n :: rest => (∃ nd, h[n]? = some nd ∧ nd.backward = prev) ∧ BackLinked h (some n) rest

structure IsChain (sl : SL) (c : List Nat) : Prop where
  nodup : (0 :: c).Nodup
  bound : ∀ n ∈ c, n < sl.heap.length
  size : c.length + 1 ≤ sl.heap.length
  header : height sl.heap 0 = maxLevel
  hpos : ∀ n ∈ c, 1 ≤ height sl.heap n
  hle : ∀ n ∈ c, height sl.heap n ≤ sl.level
  levelLo : 1 ≤ sl.level
  levelHi : sl.level ≤ maxLevel
  levelMax : sl.level = 1 ∨ ∃ n ∈ c, height sl.heap n = sl.level
  linked : Linked sl.heap (0 :: c)
  back : BackLinked sl.heap none c
  tail : sl.tail = c.getLast?
  length : sl.length = (c.length : Int)
  sorted : (c.map (itemAt sl.heap)).Pairwise ILt
  good : ∀ n ∈ c, Good (itemAt sl.heap n)

/-- the invariant of ds/zset/skiplist.go -/
def Inv (sl : SL) : Prop := ∃ c, IsChain sl c

/-- `update[i]` (for every level in use) is the last node of `P` (header first) that takes part in level `i` -/
def UpdateFor (h : List Node) (level : Nat) (P : List Nat) (update : List (Option Nat)) : Prop :=
  ∀ i, i < level → ∃ A u B, P = A ++ u :: B ∧ above h i u = true ∧ (∀ y ∈ B, above h i y = false) ∧
    update[i]? = some (some u)

/-- the same with `rank[i]` = position of `update[i]` -/
def UpdateRankFor (h : List Node) (level : Nat) (P : List Nat) (update : List (Option Nat)) (rank : List Int) : Prop :=
  ∀ i, i < level → ∃ A u B, P = A ++ u :: B ∧ above h i u = true ∧ (∀ y ∈ B, above h i y = false) ∧
    update[i]? = some (some u) ∧ rank[i]? = some (A.length : Int)

/-- `cond` holds exactly for the nodes at chain positions 1..k (second argument of `cond` = the position) -/
def CondUpTo (sl : SL) (c : List Nat) (cond : Node → Int → Bool) (k : Nat) : Prop :=
  ∀ (q : Nat) (n : Nat) (nd : Node), (0 :: c)[q]? = some n → sl.heap[n]? = some nd → 1 ≤ q →
    cond nd (q : Int) = decide (q ≤ k)

/-! ### basic access lemmas -/

theorem getLevel_ok_iff (h : List Node) (n i : Nat) (l : Level) :
    getLevel h n i = .ok l ↔ ∃ nd, h[n]? = some nd ∧ nd.level[i]? = some l := by
  unfold getLevel
  cases hn : h[n]? with
  | none => simp [throw, throwThe, MonadExceptOf.throw]
  | some nd =>
    cases hl : nd.level[i]? with
    | none => simp [hl, throw, throwThe, MonadExceptOf.throw]
    | some l' => simp [hl, pure, Except.pure]

theorem getNode_ok_iff (h : List Node) (n : Nat) (nd : Node) :
    getNode h n = .ok nd ↔ h[n]? = some nd := by
  unfold getNode
  cases hn : h[n]? with
  | none => simp [throw, throwThe, MonadExceptOf.throw]
  | some nd' => simp [pure, Except.pure]

theorem height_eq (h : List Node) (n : Nat) (nd : Node) (hn : h[n]? = some nd) : height h n = nd.level.length := by
  simp [height, hn]

theorem getLevel_of_lt (h : List Node) (n i : Nat) (hi : i < height h n) : ∃ l, getLevel h n i = .ok l := by
  unfold height at hi
  cases hn : h[n]? with
  | none => simp [hn] at hi
  | some nd =>
    simp [hn] at hi
    exact ⟨nd.level[i], (getLevel_ok_iff h n i _).2 ⟨nd, hn, by simp [hi]⟩⟩

theorem lt_height_of_getLevel (h : List Node) (n i : Nat) (l : Level) (hl : getLevel h n i = .ok l) : i < height h n := by
  obtain ⟨nd, hn, hli⟩ := (getLevel_ok_iff h n i l).1 hl
  rw [height_eq h n nd hn]
  exact (List.getElem?_eq_some_iff.1 hli).1

end NodisVerif.Skiplist
