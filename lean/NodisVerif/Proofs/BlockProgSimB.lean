import NodisVerif.Proofs.BlockProgSimA
/-
  Per-pc simulation lemmas, part B: look (l0, l1, l2), the wait (w0, w1), removeBlockingKeys (u1, u2, u3).
  `flagsOk` is the (purely local) fact about the two result flags of `look` that l1 needs.
-/
namespace NodisVerif.Proofs.BlockProg
open NodisVerif.Block NodisVerif.BlockProg NodisVerif.Proofs.Block

/-- no panic is under way before a pop has been attempted; inside the loop of `look` nothing has been found yet;
    null without a panic needs a timer (or the non-waiting form) -/
def flagsOk (l : Loc) : Prop :=
  match l.pc with
  | .r1 | .r2 | .r3 | .l0 | .w0 | .w1 => l.panicking = false
  | .l1 => l.panicking = false ∧ l.found = false
  -- a call that unwinds without an element and without a panic is the non-waiting form, or its timer was armed
  | .u1 | .u2 | .u3 => l.found = false → l.panicking = false → 0 ≤ l.tmo → 0 < l.tmo
  | _ => True

variable {σ : Sys} {bs : BState} {t : Tid} {ch : Choice} {s' : Shared} {l' : Loc} {e : Option Ev}

/-- a step of a waiter that emits an event of its own and touches neither the registry nor its lock -/
theorem own_frame (hI : Inv σ bs) {ev : Ev} (hev : evW ev = t) {o' : Option WSt}
    (hls : lstep (get bs t) ev = some o')
    (hfull : ∀ t', t' ≠ t → s'.full t' = σ.sh.full t')
    (hreg : s'.registry = σ.sh.registry) (hmu : s'.bmu = σ.sh.bmu)
    (hP : PRel (s'.full t) l' o') (hL : LRel s' t l') (hC : CRel s' t l') (hT : TodoRel s' l') :
    SimGoal σ bs t s' l' (some ev) := by
  subst hev
  refine ⟨_, own_step hls, frame_same hI hfull (fun t' ht => get_put_ne _ _ _ _ ht) hreg hmu ?_ hL hC hT⟩
  rw [get_put_self]; exact hP

theorem sim_l0 (hI : Inv σ bs) (hpc : (σ.thr t).pc = .l0)
    (h : tstep σ.sh t (σ.thr t) ch = some (s', l', e)) : SimGoal σ bs t s' l' e := by
  have hP := hI.prel t; have hC := hI.crel t; have hL := hI.lrel t
  simp only [PRel, hpc] at hP
  simp only [CRel, regKeys, hpc] at hC
  simp only [LRel, hpc, holdsW, holdsR] at hL
  simp only [tstep, hpc, Option.some.injEq, Prod.mk.injEq] at h
  obtain ⟨rfl, rfl, rfl⟩ := h
  refine ⟨bs, rfl, frame_same hI (fun _ _ => rfl) (fun _ _ => rfl) rfl rfl ?_ ?_ ?_ ?_⟩
  · simp only [PRel]
    exact ⟨List.length_pos_iff.2 hP.1, hP⟩
  · simpa [LRel, holdsW, holdsR] using hL
  · simpa [CRel, regKeys, Shared.regOf] using hC
  · simp [TodoRel]

theorem sim_l1 (hI : Inv σ bs) (hF : flagsOk (σ.thr t)) (hpc : (σ.thr t).pc = .l1)
    (h : tstep σ.sh t (σ.thr t) ch = some (s', l', e)) : SimGoal σ bs t s' l' e := by
  have hP := hI.prel t; have hC := hI.crel t; have hL := hI.lrel t
  simp only [PRel, hpc] at hP
  simp only [CRel, regKeys, hpc] at hC
  simp only [LRel, hpc, holdsW, holdsR] at hL
  simp only [flagsOk, hpc] at hF
  obtain ⟨hi, hne, st, hs, hk1, hk2, hb, hp⟩ := hP
  simp only [tstep, hpc] at h
  cases hk : (σ.thr t).keys[(σ.thr t).i]? with
  | none => simp at hk; omega
  | some k =>
    simp only [hk] at h
    have hL' : ∀ pc', holdsW pc' = false → holdsR pc' = false → ∀ (s'' : Shared), s''.bmu = σ.sh.bmu →
        ∀ l'' : Loc, l''.pc = pc' → LRel s'' t l'' := by
      intro pc' h1 h2 s'' hm l'' hl
      simp only [LRel, hm, hl, h1, h2]; simpa using hL
    split at h
    · simp at h
    split at h
    · -- the pop panics
      simp only [Option.some.injEq, Prod.mk.injEq] at h
      obtain ⟨rfl, rfl, rfl⟩ := h
      refine own_frame hI (ev := .abort t) rfl (lstep_abort.2 ⟨st, hs, by simp [hp], rfl⟩) (fun _ _ => rfl) rfl rfl
        ?_ (hL' .l2 rfl rfl _ rfl _ rfl) ?_ (by simp [TodoRel])
      · simp only [PRel, Body]
        exact ⟨hne, _, rfl, hk1, hk2, hb, by simp [Returned]⟩
      · simpa [CRel, regKeys, Shared.regOf] using hC
    split at h
    · -- an element
      simp only [Option.some.injEq, Prod.mk.injEq] at h
      obtain ⟨rfl, rfl, rfl⟩ := h
      refine own_frame hI (ev := .try_ t k true) rfl
        (lstep_try.2 ⟨st, _, hs, hp, by rw [hk1]; exact hk, rfl⟩) (fun _ _ => rfl) rfl rfl
        ?_ (hL' .l2 rfl rfl _ rfl _ rfl) ?_ (by simp [TodoRel])
      · simp only [PRel, Body]
        exact ⟨hne, _, rfl, hk1, hk2, hb, by simp [Returned]⟩
      · simpa [CRel, regKeys, Shared.regOf] using hC
    · -- nothing there: on to the next key
      simp only [Option.some.injEq, Prod.mk.injEq] at h
      obtain ⟨rfl, rfl, rfl⟩ := h
      refine own_frame hI (ev := .try_ t k false) rfl
        (lstep_try.2 ⟨st, _, hs, hp, by rw [hk1]; exact hk, rfl⟩) (fun _ _ => rfl) rfl rfl ?_ ?_ ?_ ?_
      · simp only [loopPc]
        split
        · rename_i hlt
          simp only [PRel, Body]
          exact ⟨hlt, hne, _, rfl, hk1, hk2, hb, by simp [pos]⟩
        · rename_i hge
          simp only [PRel, Body, hF.1, hF.2]
          refine ⟨hne, _, rfl, hk1, hk2, hb, ?_⟩
          have : (σ.thr t).i + 1 = (σ.thr t).keys.length := by omega
          simp [this]
      · simp only [loopPc]; split
        · exact hL' .l1 rfl rfl _ rfl _ rfl
        · exact hL' .l2 rfl rfl _ rfl _ rfl
      · simp only [loopPc]; split <;> simpa [CRel, regKeys, Shared.regOf] using hC
      · simp only [TodoRel, loopPc]; split <;> simp

theorem sim_l2 (hI : Inv σ bs) (hpc : (σ.thr t).pc = .l2)
    (h : tstep σ.sh t (σ.thr t) ch = some (s', l', e)) : SimGoal σ bs t s' l' e := by
  have hP := hI.prel t; have hC := hI.crel t; have hL := hI.lrel t
  simp only [PRel, hpc] at hP
  simp only [CRel, regKeys, hpc] at hC
  simp only [LRel, hpc, holdsW, holdsR] at hL
  obtain ⟨hne, st, hs, hk1, hk2, hb, hp⟩ := hP
  simp only [tstep, hpc] at h
  split at h
  · rename_i hfp
    simp only [Option.some.injEq, Prod.mk.injEq] at h
    obtain ⟨rfl, rfl, rfl⟩ := h
    refine ⟨bs, rfl, frame_same hI (fun _ _ => rfl) (fun _ _ => rfl) rfl rfl ?_ ?_ ?_ ?_⟩
    · simp only [PRel, Body]
      exact ⟨hne, st, hs, hk1, hk2, hb, by simpa [hfp] using hp⟩
    · simpa [LRel, holdsW, holdsR] using hL
    · simpa [CRel, regKeys, Shared.regOf] using hC
    · simp [TodoRel]
  · rename_i hfp
    simp only [hfp] at hp
    simp at hp
    split at h
    · simp only [Option.some.injEq, Prod.mk.injEq] at h
      obtain ⟨rfl, rfl, rfl⟩ := h
      refine own_frame hI (ev := .abort t) rfl (lstep_abort.2 ⟨st, hs, by simp [hp, pos], rfl⟩) (fun _ _ => rfl) rfl rfl
        ?_ ?_ ?_ (by simp [TodoRel])
      · simp only [PRel, Body]
        exact ⟨hne, _, rfl, hk1, hk2, hb, by simp [Returned]⟩
      · simpa [LRel, holdsW, holdsR] using hL
      · simpa [CRel, regKeys, Shared.regOf] using hC
    · rename_i hneg
      simp only [Option.some.injEq, Prod.mk.injEq] at h
      obtain ⟨rfl, rfl, rfl⟩ := h
      refine ⟨bs, rfl, frame_same hI (fun _ _ => rfl) (fun _ _ => rfl) rfl rfl ?_ ?_ ?_ ?_⟩
      · simp only [PRel, Body]
        exact ⟨by omega, hne, st, hs, hk1, hk2, hb, by simpa using hp⟩
      · simpa [LRel, holdsW, holdsR] using hL
      · simpa [CRel, regKeys, Shared.regOf] using hC
      · simp [TodoRel]

theorem sim_w0 (hI : Inv σ bs) (hpc : (σ.thr t).pc = .w0)
    (h : tstep σ.sh t (σ.thr t) ch = some (s', l', e)) : SimGoal σ bs t s' l' e := by
  have hP := hI.prel t; have hC := hI.crel t; have hL := hI.lrel t
  simp only [PRel, hpc] at hP
  simp only [CRel, regKeys, hpc] at hC
  simp only [LRel, hpc, holdsW, holdsR] at hL
  obtain ⟨_, hne, st, hs, hk1, hk2, hb, hp⟩ := hP
  simp only [tstep, hpc, Option.some.injEq, Prod.mk.injEq] at h
  obtain ⟨rfl, rfl, rfl⟩ := h
  refine own_frame hI (ev := .block t _) rfl (lstep_block.2 ⟨st, hs, by rw [hk1]; exact hp, rfl⟩) (fun _ _ => rfl) rfl rfl
    ?_ ?_ ?_ (by simp [TodoRel])
  · simp only [PRel, Body]
    exact ⟨hne, _, rfl, hk1, hk2, hb, rfl, rfl⟩
  · simpa [LRel, holdsW, holdsR] using hL
  · simpa [CRel, regKeys, Shared.regOf] using hC

theorem sim_w1 (hI : Inv σ bs) (hpc : (σ.thr t).pc = .w1)
    (h : tstep σ.sh t (σ.thr t) ch = some (s', l', e)) : SimGoal σ bs t s' l' e := by
  have hP := hI.prel t; have hC := hI.crel t; have hL := hI.lrel t
  simp only [PRel, hpc] at hP
  simp only [CRel, regKeys, hpc] at hC
  simp only [LRel, hpc, holdsW, holdsR] at hL
  obtain ⟨hne, st, hs, hk1, hk2, hb, hp, htm⟩ := hP
  simp only [tstep, hpc] at h
  split at h
  · split at h
    · rename_i hpos
      simp only [Option.some.injEq, Prod.mk.injEq] at h
      obtain ⟨rfl, rfl, rfl⟩ := h
      refine own_frame hI (ev := .timeout t) rfl (lstep_timeout.2 ⟨st, hs, hp, by simp [htm, hpos], rfl⟩)
        (fun _ _ => rfl) rfl rfl ?_ ?_ ?_ (by simp [TodoRel])
      · simp only [PRel, Body]
        exact ⟨hne, _, rfl, hk1, hk2, hb, by simp [Returned]⟩
      · simpa [LRel, holdsW, holdsR] using hL
      · simpa [CRel, regKeys, Shared.regOf] using hC
    · simp at h
  · split at h
    · rename_i hfull
      simp only [Option.some.injEq, Prod.mk.injEq] at h
      obtain ⟨rfl, rfl, rfl⟩ := h
      refine own_frame hI (ev := .wake t) rfl (lstep_wake.2 ⟨st, hs, hp, by rw [hb]; exact hfull, rfl⟩)
        (fun t' ht => by simp [upd_ne _ _ ht]) rfl rfl ?_ ?_ ?_ (by simp [TodoRel])
      · simp only [PRel, Body, upd_self]
        exact ⟨hne, _, rfl, hk1, hk2, rfl, by simp [pos]⟩
      · simpa [LRel, holdsW, holdsR] using hL
      · simpa [CRel, regKeys, Shared.regOf] using hC
    · simp at h

theorem sim_u1 (hI : Inv σ bs) (hpc : (σ.thr t).pc = .u1)
    (h : tstep σ.sh t (σ.thr t) ch = some (s', l', e)) : SimGoal σ bs t s' l' e := by
  have hP := hI.prel t; have hC := hI.crel t
  simp only [PRel, hpc] at hP
  simp only [CRel, regKeys, hpc] at hC
  obtain ⟨hne, st, hs, hk1, hk2, hb, hp⟩ := hP
  simp only [tstep, hpc] at h
  split at h
  · rename_i hcan
    simp only [Option.some.injEq, Prod.mk.injEq] at h
    obtain ⟨rfl, rfl, rfl⟩ := h
    refine ⟨bs, rfl, lock_frame hI hcan ?_ rfl rfl ?_ (by simp)⟩
    · simp only [PRel]
      exact ⟨List.length_pos_iff.2 hne, st, hs, hp, by simp [hk2]⟩
    · simpa [CRel, regKeys, Shared.regOf] using hC
  · simp at h

theorem sim_u3 (hI : Inv σ bs) (hpc : (σ.thr t).pc = .u3)
    (h : tstep σ.sh t (σ.thr t) ch = some (s', l', e)) : SimGoal σ bs t s' l' e := by
  have hP := hI.prel t; have hC := hI.crel t
  simp only [PRel, hpc] at hP
  simp only [CRel, regKeys, hpc] at hC
  obtain ⟨st, hs, hreg⟩ := hP
  simp only [tstep, hpc, Option.some.injEq, Prod.mk.injEq] at h
  obtain ⟨rfl, rfl, rfl⟩ := h
  have hls : lstep (get bs t) (.fin t) = some none := lstep_fin.2 ⟨st, hs, hreg, rfl⟩
  refine ⟨_, own_step (ev := .fin t) hls, ?_⟩
  simp only [evW]
  refine unlock_frame hI (by simp [hpc, holdsW]) (fun t' ht => get_put_ne _ _ _ _ ht) ?_ rfl rfl ?_ (by simp)
  · rw [get_put_self]; simp [PRel]
  · simpa [CRel, regKeys, Shared.regOf] using hC

theorem sim_u2 (hI : Inv σ bs) (hpc : (σ.thr t).pc = .u2)
    (h : tstep σ.sh t (σ.thr t) ch = some (s', l', e)) : SimGoal σ bs t s' l' e := by
  have hP := hI.prel t; have hC := hI.crel t; have hL := hI.lrel t
  simp only [PRel, hpc] at hP
  simp only [CRel, regKeys, hpc] at hC
  simp only [LRel, hpc, holdsW, holdsR] at hL
  obtain ⟨hi, st, hs, hp, hsub⟩ := hP
  simp only [tstep, hpc] at h
  cases hk : (σ.thr t).keys[(σ.thr t).i]? with
  | none => simp at hk; omega
  | some k =>
    simp only [hk] at h
    have hd := drop_of_get hk
    -- the channel is in the cList of k
    have hcnt : 0 < (σ.sh.regOf k).count t := by rw [hC k, hd]; simp
    have hmem : t ∈ σ.sh.regOf k := List.count_pos_iff.1 hcnt
    cases hr : σ.sh.registry k with
    | none => simp [Shared.regOf, hr] at hmem
    | some cl =>
      have hcl : σ.sh.regOf k = cl := by simp [Shared.regOf, hr]
      rw [hcl] at hmem
      simp only [hr, hmem, if_true, Option.some.injEq, Prod.mk.injEq] at h
      obtain ⟨rfl, rfl, rfl⟩ := h
      have hls := (lstep_unreg (o := get bs t) (w := t) (k := k)).2 ⟨st, hs, hp, rfl⟩
      refine ⟨_, own_step (ev := .unreg t k) hls, ?_⟩
      simp only [evW]
      have hsub' : ∀ k' ∈ st.reg.filter (· != k), k' ∈ (σ.thr t).keys.drop ((σ.thr t).i + 1) := by
        intro k' hk'
        simp only [List.mem_filter, bne_iff_ne, ne_eq] at hk'
        have := hsub k' hk'.1
        rw [hd] at this
        simpa [hk'.2] using this
      refine frame hI (fun t' ht => ?_) (fun t' ht k' => ?_) (fun _ _ => Iff.rfl) (fun _ _ => Iff.rfl)
        (Or.inr (hL.1.2 trivial)) ?_ ?_ ?_ ?_ hI.excl
      · rw [get_put_ne _ _ _ _ ht]; exact hI.prel t'
      · simp only [Shared.regOf, upd_apply]
        split
        · rename_i hkk; subst hkk
          simp [hr, List.count_erase_of_ne ht]
        · rfl
      · rw [get_put_self]
        simp only [loopPc]
        split
        · rename_i hlt
          simp only [PRel]
          exact ⟨hlt, _, rfl, hp, hsub'⟩
        · rename_i hge
          simp only [PRel]
          refine ⟨_, rfl, ?_⟩
          have hnil : (σ.thr t).keys.drop ((σ.thr t).i + 1) = [] := List.drop_of_length_le (by omega)
          rw [hnil] at hsub'
          exact List.eq_nil_iff_forall_not_mem.2 fun k' hk' => by simpa using hsub' k' hk'
      · simp only [LRel, loopPc]
        split <;> simpa [holdsW, holdsR] using hL
      · intro k'
        have hrk : regKeys { (σ.thr t) with i := (σ.thr t).i + 1, pc := loopPc (σ.thr t) .u2 .u3 } =
            (σ.thr t).keys.drop ((σ.thr t).i + 1) := by
          simp only [loopPc]
          split
          · rfl
          · simp only [regKeys]; exact (List.drop_of_length_le (by omega)).symm
        rw [hrk]
        have h0 := hC k'
        rw [hd] at h0
        simp only [Shared.regOf, upd_apply]
        split
        · rename_i hkk; subst hkk
          simp only [Option.getD_some, List.count_erase_self]
          rw [hcl] at h0
          simp at h0
          omega
        · rename_i hkk
          simp only [Shared.regOf] at h0
          rw [h0, List.count_cons_of_ne (Ne.symm hkk)]
      · simp only [TodoRel, loopPc]; split <;> simp

end NodisVerif.Proofs.BlockProg
