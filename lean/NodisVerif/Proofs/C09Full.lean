import NodisVerif.Proofs.C08Lookup
import NodisVerif.Proofs.C09Table1b
import NodisVerif.Proofs.C09Table2b
import NodisVerif.Proofs.C09Table3
import NodisVerif.Proofs.C09Table4
/-
  C09 for the server's complete dispatch: `fullSafe = Driver.lookup [table1Safe, table2Safe, table3Safe, table4Safe]`
  is `fullTable` minus DECRBY (finding), SCAN … TYPE (not proved), ZREM / ZREMRANGEBYRANK /
  ZREMRANGEBYSCORE (false on stores holding an existing empty sorted set), and - of the commands that
  joined the model with `Handler4.table4` - SAVE (not proved).
-/
namespace NodisVerif.Proofs.C08Step
open Resp T3 T4

def safeTables : List Table := [table1Safe, table2Safe, table3Safe, table4Safe]

/-- the complete dispatch restricted to the commands whose closures signal what they change -/
def fullSafe : Table := Driver.lookup safeTables

theorem fullSafe_signals : TableSignals fullSafe := by
  intro name args b h
  have := lookup_all (P := fun r => match r with | .exec b => SignalsChanges b | _ => True) safeTables
    (by
      intro t ht n a r hr
      simp only [safeTables, List.mem_cons, List.not_mem_nil, or_false] at ht
      cases r with
      | direct ts => trivial
      | crash => trivial
      | exec b' =>
        rcases ht with rfl | rfl | rfl | rfl
        · exact table1Safe_signals n a b' hr
        · exact table2Safe_signals n a b' hr
        · exact table3Safe_signals n a b' hr
        · exact table4Safe_signals n a b' hr) name args (.exec b) h
  exact this

/-- what `fullSafe` leaves out of `fullTable` -/
def excluded (name : String) (args : List Bytes) : Prop :=
  name = "DECRBY" ∨ scanTyped name args ∨ name ∈ zRemNames ∨ name = "SAVE"

instance (name : String) (args : List Bytes) : Decidable (excluded name args) := by unfold excluded; exact inferInstance

/-- outside the excluded region `fullSafe` IS the server's dispatch -/
theorem fullSafe_eq (name : String) (args : List Bytes) (h : ¬ excluded name args) :
    fullSafe name args = fullTable name args := by
  have h1 : name ∉ ["DECRBY"] := by intro hm; exact h (Or.inl (by simpa using hm))
  have h2 : ¬ scanTyped name args := fun hm => h (Or.inr (Or.inl hm))
  have h3 : name ∉ zRemNames := fun hm => h (Or.inr (Or.inr (Or.inl hm)))
  have h4 : ¬ name = "SAVE" := fun hm => h (Or.inr (Or.inr (Or.inr hm)))
  simp only [fullSafe, fullTable, Driver.lookup, safeTables, allTables, List.findSome?_cons, List.findSome?_nil]
  have e1 : table1Safe name args = Handler.table1 name args := by simp [table1Safe, h1, h2]
  have e2 : table2Safe name args = Handler2.table2 name args := by rw [table2Safe_eq]
  have e3 : table3Safe name args = Handler3.table3 name args := by simp [table3Safe, h3]
  have e4 : table4Safe name args = Handler4.table4 name args := by simp [table4Safe, h4]
  rw [e1, e2, e3, e4]

end NodisVerif.Proofs.C08Step
