import NodisVerif.Model.Api
/-
  C09 helper (INCRBYFLOAT): on the model's float fragment (integer-valued doubles, `F64.ofInt?`),
  `0 + x` is again a double that `Api.formatFloat` can print. So `Api.incrByFloat` on a key it has just
  created never leaves through the model's `.unsupported` exit when the increment came from
  `Api.parseFloatText` (see `frame_incrByFloat` in C09Table1.lean, `signals_incrByFloat` in C09Table1b.lean).

  Bit-level part: the fields of a packed double (`pack`), `roundPack` on exact inputs, `add 0 x = x`.
-/
namespace NodisVerif.Proofs.C09Float
open NodisVerif NodisVerif.F64

theorem expBits_eq (a : F64) : expBits a = a.toNat / 2 ^ 52 % 2 ^ 11 := by
  unfold expBits
  rw [UInt64.toNat_and, UInt64.toNat_shiftRight]
  have h1 : (52 : UInt64).toNat % 64 = 52 := by decide
  have h2 : (0x7FF : UInt64).toNat = 2 ^ 11 - 1 := by decide
  rw [h1, h2, Nat.and_two_pow_sub_one_eq_mod, Nat.shiftRight_eq_div_pow]

theorem manBits_eq (a : F64) : manBits a = a.toNat % 2 ^ 52 := by
  unfold manBits
  rw [UInt64.toNat_and]
  have h2 : (0xFFFFFFFFFFFFF : UInt64).toNat = 2 ^ 52 - 1 := by decide
  rw [h2, Nat.and_two_pow_sub_one_eq_mod]

theorem sign_eq (a : F64) : sign a = decide (2 ^ 63 ≤ a.toNat) := by
  unfold sign
  have h : (a >>> 63).toNat = a.toNat / 2 ^ 63 := by
    rw [UInt64.toNat_shiftRight, Nat.shiftRight_eq_div_pow]; rfl
  have hlt := a.toNat_lt
  rw [Bool.eq_iff_iff]
  simp only [beq_iff_eq, decide_eq_true_eq]
  constructor
  · intro e
    have : (a >>> 63).toNat = 1 := by rw [e]; rfl
    rw [h] at this
    omega
  · intro hge
    apply UInt64.toNat_inj.1
    rw [h]
    show _ = 1
    omega

theorem isNaN_eq (a : F64) : isNaN a = (expBits a == 2047 && manBits a != 0) := by
  unfold isNaN expBits manBits
  dsimp only
  congr 1
  · rw [Bool.eq_iff_iff]
    simp only [beq_iff_eq]
    constructor
    · intro e; rw [e]; rfl
    · intro e; apply UInt64.toNat_inj.1; rw [e]; rfl
  · rw [Bool.eq_iff_iff]
    simp only [bne_iff_ne, ne_eq]
    constructor
    · intro e h; apply e; apply UInt64.toNat_inj.1; rw [h]; rfl
    · intro e h; apply e; rw [h]; rfl

/-- sign / biased exponent / fraction fields put together as `roundPack` does -/
def pack (neg : Bool) (E M : Nat) : F64 :=
  let b : UInt64 := (UInt64.ofNat E <<< 52) ||| UInt64.ofNat M
  if neg then b ||| 0x8000000000000000 else b

theorem pack_toNat (neg : Bool) (E M : Nat) (hE : E < 2048) (hM : M < 2 ^ 52) :
    (pack neg E M).toNat = (if neg then 2 ^ 63 else 0) + E * 2 ^ 52 + M := by
  have hb : ((UInt64.ofNat E <<< 52) ||| UInt64.ofNat M).toNat = E * 2 ^ 52 + M := by
    rw [UInt64.toNat_or, UInt64.toNat_shiftLeft, UInt64.toNat_ofNat', UInt64.toNat_ofNat']
    have h1 : (52 : UInt64).toNat % 64 = 52 := by decide
    rw [h1, Nat.mod_eq_of_lt (by omega : E < 2 ^ 64), Nat.mod_eq_of_lt (by omega : M < 2 ^ 64)]
    rw [Nat.mod_eq_of_lt (by rw [Nat.shiftLeft_eq]; omega)]
    rw [← Nat.shiftLeft_add_eq_or_of_lt hM, Nat.shiftLeft_eq]
  unfold pack
  dsimp only
  cases neg
  · simp only [Bool.false_eq_true, if_false, hb, Nat.zero_add]
  · simp only [if_true]
    rw [UInt64.toNat_or, hb]
    have h2 : (0x8000000000000000 : UInt64).toNat = 2 ^ 63 * 1 := by decide
    rw [h2, Nat.or_comm, ← Nat.two_pow_add_eq_or_of_lt (by omega)]
    omega

theorem expBits_pack (neg : Bool) (E M : Nat) (hE : E < 2048) (hM : M < 2 ^ 52) : expBits (pack neg E M) = E := by
  rw [expBits_eq, pack_toNat neg E M hE hM]
  cases neg <;> simp only [Bool.false_eq_true, if_false, if_true] <;> omega

theorem manBits_pack (neg : Bool) (E M : Nat) (hE : E < 2048) (hM : M < 2 ^ 52) : manBits (pack neg E M) = M := by
  rw [manBits_eq, pack_toNat neg E M hE hM]
  cases neg <;> simp only [Bool.false_eq_true, if_false, if_true] <;> omega

theorem sign_pack (neg : Bool) (E M : Nat) (hE : E < 2048) (hM : M < 2 ^ 52) : sign (pack neg E M) = neg := by
  rw [sign_eq, pack_toNat neg E M hE hM]
  cases neg <;> simp only [Bool.false_eq_true, if_false, if_true, decide_eq_false_iff_not, decide_eq_true_eq] <;> omega

/-- `roundPack`, first half: normalise / round the significand -/
def rpCore (n : Nat) (e : Int) : Nat × Int :=
  let bits : Int := Nat.log2 n + 1
  let shift : Int := max (bits - 53) (-1074 - e)
  if shift ≤ 0 then (n <<< (-shift).toNat, e + shift)
  else
    let sh := shift.toNat
    let q := n >>> sh
    let rem := n % 2 ^ sh
    let half := 2 ^ (sh - 1)
    let q := if rem > half ∨ (rem = half ∧ q % 2 = 1) then q + 1 else q
    if q = 2 ^ 53 then (2 ^ 52, e + shift + 1) else (q, e + shift)

/-- `roundPack`, second half: assemble the fields -/
def rpFinish (neg : Bool) (q : Nat) (e' : Int) : F64 :=
  if q ≥ 2 ^ 52 then
    let biased := e' + 1075
    if biased ≥ 2047 then inf neg
    else
      let b : UInt64 := (UInt64.ofNat biased.toNat <<< 52) ||| UInt64.ofNat (q - 2 ^ 52)
      if neg then b ||| 0x8000000000000000 else b
  else
    let b : UInt64 := UInt64.ofNat q
    if neg then b ||| 0x8000000000000000 else b

theorem roundPack_eq (neg : Bool) (n : Nat) (e : Int) :
    roundPack neg n e = if n = 0 then zero neg else rpFinish neg (rpCore n e).1 (rpCore n e).2 := rfl

theorem rpFinish_normal (neg : Bool) (q : Nat) (e' : Int) (E : Nat) (hq : 2 ^ 52 ≤ q) (hE : e' + 1075 = E)
    (hE2 : E < 2047) : rpFinish neg q e' = pack neg E (q - 2 ^ 52) := by
  unfold rpFinish pack
  rw [if_pos hq]
  dsimp only
  rw [if_neg (by omega), hE]
  rfl

/-- a nonzero natural below 2^53 at exponent 0: exact, shifted left into the 53-bit significand -/
theorem rpCore_small (m : Nat) (hm0 : 0 < m) (hm : m < 2 ^ 53) :
    rpCore m 0 = (m * 2 ^ (52 - m.log2), (m.log2 : Int) - 52) := by
  have hL : m.log2 ≤ 52 := by have := (Nat.log2_lt (by omega)).2 hm; omega
  unfold rpCore
  dsimp only
  have hshift : max ((m.log2 : Int) + 1 - 53) (-1074 - 0) = (m.log2 : Int) - 52 := by omega
  rw [hshift, if_pos (by omega), Nat.shiftLeft_eq]
  have : (-((m.log2 : Int) - 52)).toNat = 52 - m.log2 := by omega
  rw [this, Int.zero_add]

theorem roundPack_small (neg : Bool) (m : Nat) (hm0 : 0 < m) (hm : m < 2 ^ 53) :
    roundPack neg m 0 = pack neg (m.log2 + 1023) (m * 2 ^ (52 - m.log2) - 2 ^ 52) := by
  have hL : m.log2 ≤ 52 := by have := (Nat.log2_lt (by omega)).2 hm; omega
  have hlo := Nat.log2_self_le (n := m) (by omega)
  have hq : 2 ^ 52 ≤ m * 2 ^ (52 - m.log2) := by
    calc 2 ^ 52 = 2 ^ m.log2 * 2 ^ (52 - m.log2) := by rw [← Nat.pow_add]; congr 1; omega
      _ ≤ _ := Nat.mul_le_mul_right _ hlo
  rw [roundPack_eq, if_neg (by omega), rpCore_small m hm0 hm]
  exact rpFinish_normal neg _ _ (m.log2 + 1023) hq (by omega) (by omega)

/-- a 53-bit significand times a power of two, no bits lost: the significand comes back -/
theorem rpCore_exact (q k : Nat) (e : Int) (hq1 : 2 ^ 52 ≤ q) (hq2 : q < 2 ^ 53) (hk : 0 < k)
    (he : -1074 - e ≤ k) : rpCore (q * 2 ^ k) e = (q, e + k) := by
  have hpos : 0 < 2 ^ k := Nat.two_pow_pos _
  have hlog : (q * 2 ^ k).log2 = 52 + k := by
    rw [Nat.log2_eq_iff (by have := Nat.mul_pos (by omega : 0 < q) hpos; omega)]
    constructor
    · rw [Nat.pow_add]; exact Nat.mul_le_mul_right _ hq1
    · rw [show 52 + k + 1 = 53 + k by omega, Nat.pow_add]; exact Nat.mul_lt_mul_of_pos_right hq2 hpos
  unfold rpCore
  dsimp only
  have hshift : max ((((q * 2 ^ k).log2 : Nat) : Int) + 1 - 53) (-1074 - e) = (k : Int) := by rw [hlog]; omega
  rw [hshift, if_neg (by omega), Int.toNat_natCast, Nat.shiftRight_eq_div_pow, Nat.mul_div_cancel _ hpos,
    Nat.mul_mod_left]
  have hhalf : 0 < 2 ^ (k - 1) := Nat.two_pow_pos _
  have hc : ¬ (0 > 2 ^ (k - 1) ∨ (0 = 2 ^ (k - 1) ∧ q % 2 = 1)) := by omega
  rw [if_neg hc, if_neg (by omega)]

theorem zero_facts : isNaN (0 : F64) = false ∧ isInf (0 : F64) = false ∧ decode (0 : F64) = (0, -1074) ∧
    sign (0 : F64) = false := by decide

/-- the finite branch of `add` -/
def addFinite (a b : F64) : F64 :=
  let (ma, ea) := decode a
  let (mb, eb) := decode b
  let e0 := min ea eb
  let va : Int := (ma * 2 ^ (ea - e0).toNat : Nat)
  let vb : Int := (mb * 2 ^ (eb - e0).toNat : Nat)
  let n : Int := (if sign a then -va else va) + (if sign b then -vb else vb)
  if n = 0 then zero (sign a ∧ sign b)
  else roundPack (n < 0) n.natAbs e0

theorem add_eq (a b : F64) : add a b =
    if isNaN a ∨ isNaN b then qnan
    else if isInf a then (if isInf b ∧ sign a ≠ sign b then qnan else a)
    else if isInf b then b
    else addFinite a b := rfl

/-- `0 + x = x` for normal `x` with biased exponent ≥ 2 -/
theorem add_zero_pack (neg : Bool) (E M : Nat) (hE1 : 2 ≤ E) (hE2 : E < 2047) (hM : M < 2 ^ 52) :
    add 0 (pack neg E M) = pack neg E M := by
  obtain ⟨hn0, hi0, hd0, hs0⟩ := zero_facts
  have hE' : E < 2048 := by omega
  have he := expBits_pack neg E M hE' hM
  have hm := manBits_pack neg E M hE' hM
  have hs := sign_pack neg E M hE' hM
  have hnan : isNaN (pack neg E M) = false := by
    rw [isNaN_eq, he]
    have : (E == 2047) = false := by rw [beq_eq_false_iff_ne]; omega
    rw [this]; rfl
  have hinf : isInf (pack neg E M) = false := by
    unfold isInf
    rw [he]
    have : decide (E = 0x7FF) = false := by rw [decide_eq_false_iff_not]; omega
    rw [this]; rfl
  have hdec : decode (pack neg E M) = (M + 2 ^ 52, (E : Int) - 1075) := by
    unfold decode
    rw [he, hm, if_neg (by omega)]
  rw [add_eq, hn0, hnan, hi0, hinf]
  simp only [Bool.false_eq_true, or_self, if_false]
  unfold addFinite
  rw [hd0, hdec]
  dsimp only
  rw [hs0, hs]
  have hmin : min (-1074 : Int) ((E : Int) - 1075) = -1074 := by omega
  rw [hmin]
  have ht1 : ((-1074 : Int) - -1074).toNat = 0 := by decide
  have ht2 : ((E : Int) - 1075 - -1074).toNat = E - 1 := by omega
  rw [ht1, ht2]
  simp only [Nat.zero_mul, Bool.false_eq_true, if_false, Int.natCast_zero, Int.zero_add, false_and, decide_false]
  have hpos : 0 < (M + 2 ^ 52) * 2 ^ (E - 1) := Nat.mul_pos (by omega) (Nat.two_pow_pos _)
  generalize hv : (M + 2 ^ 52) * 2 ^ (E - 1) = v at hpos
  have hcore : rpCore v (-1074) = (M + 2 ^ 52, (-1074 : Int) + ((E - 1 : Nat) : Int)) := by
    rw [← hv]; exact rpCore_exact (M + 2 ^ 52) (E - 1) (-1074) (by omega) (by omega) (by omega) (by omega)
  have hfin : roundPack neg v (-1074) = pack neg E M := by
    rw [roundPack_eq, if_neg (by omega), hcore]
    have := rpFinish_normal neg (M + 2 ^ 52) ((-1074 : Int) + ((E - 1 : Nat) : Int)) E (by omega) (by omega) hE2
    rw [this, Nat.add_sub_cancel]
  cases neg
  · simp only [Bool.false_eq_true, if_false]
    rw [if_neg (by omega)]
    have h1 : decide ((v : Int) < 0) = false := by rw [decide_eq_false_iff_not]; omega
    rw [h1, Int.natAbs_natCast]; exact hfin
  · simp only [if_true]
    rw [if_neg (by omega)]
    have h1 : decide (-(v : Int) < 0) = true := by rw [decide_eq_true_eq]; omega
    rw [h1, Int.natAbs_neg, Int.natAbs_natCast]; exact hfin

/-- `toInt?` succeeds on a normal double whose value `sig · 2^(E-1075)` is an integer of size ≤ 2^53 -/
theorem toInt_pack_isSome (neg : Bool) (E M : Nat) (hE1 : 1 ≤ E) (hE2 : E < 2047) (hM : M < 2 ^ 52)
    (hint : (1075 ≤ E ∧ (M + 2 ^ 52) * 2 ^ (E - 1075) ≤ 2 ^ 53) ∨
            (E < 1075 ∧ 1075 - E ≤ 52 ∧ (M + 2 ^ 52) % 2 ^ (1075 - E) = 0)) :
    (toInt? (pack neg E M)).isSome = true := by
  have hE' : E < 2048 := by omega
  unfold toInt?
  dsimp only
  rw [expBits_pack neg E M hE' hM, manBits_pack neg E M hE' hM]
  rw [if_neg (by omega), if_neg (by omega)]
  rcases hint with ⟨h1, h2⟩ | ⟨h1, h2, h3⟩
  · rw [if_pos (by omega), if_pos]
    · rfl
    · unfold pow2_53
      have : ((M + 2 ^ 52) * 2 ^ (E - 1075) : Nat) ≤ 9007199254740992 := h2
      exact Int.ofNat_le.2 this
  · rw [if_neg (by omega), if_neg (by omega), if_pos h3]
    rfl

/-- since Model/FloatDec.lean `Api.formatFloat` is total; the hypothesis is kept for the callers -/
theorem formatFloat_isSome (x : F64) (_h : (toInt? x).isSome = true) : (Api.formatFloat x).isSome = true := rfl

/-- the doubles INCRBYFLOAT / HINCRBYFLOAT accept as increments in the model (`ofInt?` of an integer):
    adding one to 0 (the value of a key that was just created) gives a sum the model can format -/
theorem ofInt_formattable (n : Int) (x : F64) (h : ofInt? n = some x) :
    (Api.formatFloat (add 0 x)).isSome = true := by
  unfold ofInt? at h
  split at h
  · cases h
  · next hle =>
    cases h
    generalize hneg : decide (n < 0) = neg
    generalize hm : n.natAbs = m at hle
    have hm' : m ≤ 2 ^ 53 := by omega
    by_cases h0 : m = 0
    · subst h0
      cases neg <;> decide
    by_cases h53 : m = 2 ^ 53
    · -- 2^53 = 2^52 · 2
      have hx : roundPack neg m 0 = pack neg 1076 0 := by
        rw [roundPack_eq, if_neg h0, h53, show (2 : Nat) ^ 53 = 2 ^ 52 * 2 ^ 1 by decide,
          rpCore_exact (2 ^ 52) 1 0 (by omega) (by omega) (by omega) (by omega)]
        exact rpFinish_normal neg _ _ 1076 (by omega) (by omega) (by omega)
      rw [hx, add_zero_pack neg 1076 0 (by omega) (by omega) (by omega)]
      exact formatFloat_isSome _ (toInt_pack_isSome neg 1076 0 (by omega) (by omega) (by omega)
        (Or.inl ⟨by omega, by decide⟩))
    · have hlt : m < 2 ^ 53 := by omega
      have hL : m.log2 ≤ 52 := by have := (Nat.log2_lt h0).2 hlt; omega
      have hlo := Nat.log2_self_le (n := m) h0
      have hhi := Nat.lt_log2_self (n := m)
      have hpw : 2 ^ m.log2 * 2 ^ (52 - m.log2) = 2 ^ 52 := by rw [← Nat.pow_add]; congr 1; omega
      have hpw' : 2 ^ (m.log2 + 1) * 2 ^ (52 - m.log2) = 2 ^ 53 := by rw [← Nat.pow_add]; congr 1; omega
      have hq1 : 2 ^ 52 ≤ m * 2 ^ (52 - m.log2) := by
        rw [← hpw]; exact Nat.mul_le_mul_right _ hlo
      have hq2 : m * 2 ^ (52 - m.log2) < 2 ^ 53 := by
        rw [← hpw']; exact Nat.mul_lt_mul_of_pos_right hhi (Nat.two_pow_pos _)
      generalize hq : m * 2 ^ (52 - m.log2) = q at hq1 hq2
      rw [roundPack_small neg m (by omega) hlt, hq,
        add_zero_pack neg (m.log2 + 1023) (q - 2 ^ 52) (by omega) (by omega) (by omega)]
      refine formatFloat_isSome _ (toInt_pack_isSome neg _ _ (by omega) (by omega) (by omega) ?_)
      have hsig : q - 2 ^ 52 + 2 ^ 52 = q := by omega
      rw [hsig]
      by_cases h52 : m.log2 = 52
      · left
        refine ⟨by omega, ?_⟩
        rw [h52]; show q * 2 ^ 0 ≤ 2 ^ 53; omega
      · right
        refine ⟨by omega, by omega, ?_⟩
        have : 1075 - (m.log2 + 1023) = 52 - m.log2 := by omega
        rw [this, ← hq]; exact Nat.mul_mod_left _ _

theorem parseFloatText_tail_ne (body : Bytes) (x : F64) :
    (match body with
      | [] => some none
      | c :: _ =>
        if c = 105 ∨ c = 73 ∨ c = 110 ∨ c = 78 then none
        else if body.take 2 = [48, 120] ∨ body.take 2 = [48, 88] then none
        else if Api.decimalFloatSyntax body then none
        else some none) ≠ some (some x) := by
  intro h
  cases body with
  | nil => cases h
  | cons c r =>
    dsimp only at h
    (repeat' split at h) <;> cases h

/-- about the integer-only model that preceded Model/FloatDec.lean (`Api.parseFloatTextInt`) -/
theorem parseFloatTextInt_some {b : Bytes} {x : F64} (h : Api.parseFloatTextInt b = some (some x)) :
    ∃ n : Int, ofInt? n = some x := by
  unfold Api.parseFloatTextInt at h
  split at h
  · split at h
    · next n _ =>
      refine ⟨n, ?_⟩
      cases ho : ofInt? n with
      | none => rw [ho] at h; cases h
      | some y => rw [ho] at h; cases h; rfl
    · cases h
  · split at h
    · cases h
    · exact absurd h (parseFloatText_tail_ne _ x)

end NodisVerif.Proofs.C09Float
