import NodisVerif.Proofs.C04ScoreSpec
/-
  ZRANGE / ZREVRANGE (`forEachByRank`): the model's window in closed form.
-/
namespace NodisVerif.Proofs.C04
open AListLemmas ZSetLemmas DsZSet

/-- `forEachByRank` after the normalisation of `start` / `stop` -/
def ferCore (z : ZSet) (s e : Int) (desc : Bool) : Option (List Item) :=
  let node : Option Cursor :=
    if desc then
      if s > 1 then getByRank z.sl (zCard z - s)
      else (if z.sl.isEmpty then none else cursorAt z.sl (z.sl.length - 1))
    else
      if s > 1 then getByRank z.sl s
      else cursorAt z.sl 0
  if wrap64 (e - s) < 0 then some [] else walk desc node ((wrap64 (e - s)).toNat + 1) []

/-- `stop` with a negative value replaced by the 1-based rank it denotes -/
def stop1 (size stop : Int) : Int := if stop < 0 then size + stop + 1 else stop
/-- `start` with 0 aliased to 1 -/
def start1 (start : Int) : Int := if start = 0 then 1 else start

theorem forEachByRank_core (z : ZSet) (start stop : Int) (desc : Bool) :
    forEachByRank z start stop desc =
      if start > zCard z then some [] else
      if stop1 (zCard z) stop < start1 start then some [] else
      ferCore z (if start1 start < 0 then zCard z + start1 start else start1 start)
        (if stop1 (zCard z) stop > zCard z then zCard z else stop1 (zCard z) stop) desc := rfl

/-- what the walk of `forEachByRank` sees from its start node -/
def nodeStream (sl : List Item) (s : Int) (desc : Bool) : List Item :=
  if desc then
    if s > 1 then
      (if (sl.length : Int) - s < 0 then []
       else if (sl.length : Int) - s = 0 then [headerItem]
       else (sl.take ((sl.length : Int) - s).toNat).reverse)
    else sl.reverse
  else sl.drop (s.toNat - 1)

theorem ferCore_eq (z : ZSet) (hlen : z.sl.length = z.dict.length) (s e : Int) (desc : Bool) :
    ferCore z s e desc =
      if wrap64 (e - s) < 0 then some [] else
      if (wrap64 (e - s)).toNat + 1 ≤ (nodeStream z.sl s desc).length
      then some ((nodeStream z.sl s desc).take ((wrap64 (e - s)).toNat + 1)) else none := by
  have hc : zCard z = (z.sl.length : Int) := by unfold zCard; rw [hlen]
  unfold ferCore
  simp only
  split
  · rfl
  · rw [walk_eq]
    simp only [List.reverse_nil, List.nil_append]
    have hS : ostream desc (if desc = true then
          if s > 1 then getByRank z.sl (zCard z - s)
          else (if z.sl.isEmpty = true then none else cursorAt z.sl (z.sl.length - 1))
        else if s > 1 then getByRank z.sl s else cursorAt z.sl 0) = nodeStream z.sl s desc := by
      unfold nodeStream
      rw [hc]
      cases desc with
      | false =>
        simp only [Bool.false_eq_true, if_false]
        by_cases hs : s > 1
        · rw [if_pos hs]
          unfold getByRank
          have h1 : ¬ s < 0 := by omega
          have h2 : ¬ s = 0 := by omega
          rw [if_neg h1, if_neg h2, ostream_cursorAt_asc]
        · rw [if_neg hs, ostream_cursorAt_asc]
          have : s.toNat - 1 = 0 := by omega
          rw [this]
      | true =>
        simp only [if_true]
        by_cases hs : s > 1
        · rw [if_pos hs, if_pos hs]
          unfold getByRank
          by_cases h1 : (z.sl.length : Int) - s < 0
          · rw [if_pos h1, if_pos h1]; rfl
          · rw [if_neg h1, if_neg h1]
            by_cases h2 : (z.sl.length : Int) - s = 0
            · rw [if_pos h2, if_pos h2]; rfl
            · rw [if_neg h2, if_neg h2, ostream_cursorAt_desc]
              have h3 : ((z.sl.length : Int) - s).toNat - 1 < z.sl.length := by omega
              have h4 : ((z.sl.length : Int) - s).toNat - 1 + 1 = ((z.sl.length : Int) - s).toNat := by
                omega
              rw [if_pos h3, h4]
        · rw [if_neg hs, if_neg hs]
          by_cases he : z.sl = []
          · simp [he, ostream]
          · have hne : z.sl.isEmpty = false := by simpa using he
            have hpos : 0 < z.sl.length := List.length_pos_iff.mpr he
            simp only [hne, Bool.false_eq_true, if_false]
            rw [ostream_cursorAt_desc]
            have h3 : z.sl.length - 1 < z.sl.length := by omega
            have h4 : z.sl.length - 1 + 1 = z.sl.length := by omega
            rw [if_pos h3, h4, List.take_length]
    rw [hS]

theorem wrap64_id (x : Int) (h1 : -(2 ^ 63) ≤ x) (h2 : x < 2 ^ 63) : wrap64 x = x := by
  unfold wrap64 int64Max
  simp only
  by_cases hx : 0 ≤ x
  · have : x % 18446744073709551616 = x := Int.emod_eq_of_lt hx (by omega)
    rw [this]
    split <;> omega
  · have : x % 18446744073709551616 = x + 18446744073709551616 := by
      have h := Int.add_emod_right x 18446744073709551616
      rw [← h]
      exact Int.emod_eq_of_lt (by omega) (by omega)
    rw [this]
    split <;> omega

/-- ascending windows with `start ≥ 0`: the model reads `start`/`stop` as 1-based ranks, 0 is an
    alias of 1, a negative `stop` is converted to the 1-based rank it denotes -/
theorem zrange_closed {z : ZSet} (hlen : z.sl.length = z.dict.length) (hsize : z.dict.length < 2 ^ 63)
    (start stop : Int) (h0 : 0 ≤ start) :
    forEachByRank z start stop false =
      some (if stop1 z.sl.length stop < start1 start then []
            else Spec.ZSet.slice z.sl (start1 start - 1) (stop1 z.sl.length stop - 1)) := by
  have hc : zCard z = (z.sl.length : Int) := by unfold zCard; rw [hlen]
  have hn : (z.sl.length : Int) < 2 ^ 63 := by rw [hlen]; exact_mod_cast hsize
  rw [forEachByRank_core, hc]
  have ha1 : 1 ≤ start1 start := by unfold start1; split <;> omega
  have ha2 : start1 start = start ∨ (start = 0 ∧ start1 start = 1) := by unfold start1; split <;> omega
  generalize start1 start = a at ha1 ha2 ⊢
  generalize stop1 (z.sl.length) stop = e
  by_cases hgt : start > (z.sl.length : Int)
  · rw [if_pos hgt]
    congr 1
    split
    · rfl
    · rw [slice_norm]
      have : normStart (z.sl.length) (a - 1) ≥ (z.sl.length : Int) := by
        unfold normStart; split <;> omega
      rw [if_pos (Or.inr this)]
  · rw [if_neg hgt]
    by_cases hea : e < a
    · rw [if_pos hea, if_pos hea]
    · rw [if_neg hea, if_neg hea]
      have hneg : ¬ a < 0 := by omega
      rw [if_neg hneg, ferCore_eq z hlen]
      -- the clamped stop
      have hcl : (if e > (z.sl.length : Int) then (z.sl.length : Int) else e) - a
          = min e z.sl.length - a := by split <;> omega
      rw [hcl]
      by_cases hz : z.sl.length = 0
      · -- empty set: start = 0, a = 1
        have hnil : z.sl = [] := List.eq_nil_of_length_eq_zero hz
        have hw : wrap64 (min e (z.sl.length : Int) - a) < 0 := by
          rw [wrap64_id] <;> omega
        rw [if_pos hw, slice_norm]
        simp [hnil]
      · have hw : wrap64 (min e (z.sl.length : Int) - a) = min e (z.sl.length : Int) - a := by
          apply wrap64_id <;> omega
        rw [hw]
        have hnn : ¬ (min e (z.sl.length : Int) - a < 0) := by omega
        rw [if_neg hnn]
        unfold nodeStream
        simp only [Bool.false_eq_true, if_false, List.length_drop]
        have hk : (min e (z.sl.length : Int) - a).toNat + 1 ≤ z.sl.length - (a.toNat - 1) := by omega
        rw [if_pos hk, slice_norm]
        have hs' : normStart (z.sl.length) (a - 1) = a - 1 := by unfold normStart; split <;> omega
        have he' : normStop (z.sl.length) (e - 1) = min e (z.sl.length : Int) - 1 := by
          unfold normStop; simp only; split <;> split <;> omega
        rw [hs', he']
        have hcond : ¬ (a - 1 > min e (z.sl.length : Int) - 1 ∨ a - 1 ≥ (z.sl.length : Int)) := by omega
        rw [if_neg hcond]
        congr 3 <;> omega

/-- descending windows with `start ≥ 0` (`a` = start with 0 aliased to 1, `e` = stop with a
    negative value converted to a 1-based rank):
    * `a = 1`: the first `e` items from the top (0-based positions 0 .. e−1);
    * `a = card`: the *header node* of the skiplist — score 0, empty member — is returned;
    * `1 < a < card`, `e ≥ card`: the walk runs off the low end of the chain — nil dereference;
    * `1 < a < card`, `e < card`: 0-based positions a .. e of the descending list. -/
theorem zrevrange_closed {z : ZSet} (hlen : z.sl.length = z.dict.length)
    (hsize : z.dict.length < 2 ^ 63) (start stop : Int) (h0 : 0 ≤ start) :
    forEachByRank z start stop true =
      if start > (z.sl.length : Int) ∨ stop1 z.sl.length stop < start1 start then some []
      else if start1 start = 1 then some (Spec.ZSet.slice z.sl.reverse 0 (stop1 z.sl.length stop - 1))
      else if start1 start = (z.sl.length : Int) then some [headerItem]
      else if stop1 z.sl.length stop ≥ (z.sl.length : Int) then none
      else some (Spec.ZSet.slice z.sl.reverse (start1 start) (stop1 z.sl.length stop)) := by
  have hc : zCard z = (z.sl.length : Int) := by unfold zCard; rw [hlen]
  have hn : (z.sl.length : Int) < 2 ^ 63 := by rw [hlen]; exact_mod_cast hsize
  rw [forEachByRank_core, hc]
  have ha1 : 1 ≤ start1 start := by unfold start1; split <;> omega
  have ha2 : start1 start = start ∨ (start = 0 ∧ start1 start = 1) := by unfold start1; split <;> omega
  generalize start1 start = a at ha1 ha2 ⊢
  generalize stop1 (z.sl.length) stop = e
  by_cases hgt : start > (z.sl.length : Int)
  · rw [if_pos hgt, if_pos (Or.inl hgt)]
  · rw [if_neg hgt]
    by_cases hea : e < a
    · rw [if_pos hea, if_pos (Or.inr hea)]
    · rw [if_neg hea, if_neg (show ¬ (start > (z.sl.length : Int) ∨ e < a) by omega)]
      have hneg : ¬ a < 0 := by omega
      rw [if_neg hneg, ferCore_eq z hlen]
      have hcl : (if e > (z.sl.length : Int) then (z.sl.length : Int) else e) - a
          = min e z.sl.length - a := by split <;> omega
      rw [hcl]
      by_cases hz : z.sl.length = 0
      · have hnil : z.sl = [] := List.eq_nil_of_length_eq_zero hz
        have hw : wrap64 (min e (z.sl.length : Int) - a) < 0 := by
          rw [wrap64_id] <;> omega
        have ha : a = 1 := by omega
        rw [if_pos hw, if_pos ha, slice_norm]
        simp [hnil]
      · have hw : wrap64 (min e (z.sl.length : Int) - a) = min e (z.sl.length : Int) - a := by
          apply wrap64_id <;> omega
        rw [hw]
        have hnn : ¬ (min e (z.sl.length : Int) - a < 0) := by omega
        rw [if_neg hnn]
        unfold nodeStream
        simp only [if_true]
        by_cases ha : a = 1
        · subst ha
          have h1 : ¬ ((1 : Int) > 1) := by omega
          rw [if_neg h1, if_pos rfl, List.length_reverse]
          have hk : (min e (z.sl.length : Int) - 1).toNat + 1 ≤ z.sl.length := by omega
          rw [if_pos hk, slice_norm, List.length_reverse]
          have hs' : normStart (z.sl.length) 0 = 0 := by unfold normStart; split <;> omega
          have he' : normStop (z.sl.length) (e - 1) = min e (z.sl.length : Int) - 1 := by
            unfold normStop; simp only; split <;> split <;> omega
          rw [hs', he']
          have hcond : ¬ ((0 : Int) > min e (z.sl.length : Int) - 1 ∨ (0 : Int) ≥ (z.sl.length : Int)) := by
            omega
          rw [if_neg hcond]
          simp only [Int.toNat_zero, List.drop_zero]
          congr 2
          omega
        · have h1 : a > 1 := by omega
          rw [if_pos h1, if_neg ha]
          have h2 : ¬ ((z.sl.length : Int) - a < 0) := by omega
          rw [if_neg h2]
          by_cases han : a = (z.sl.length : Int)
          · have h3 : (z.sl.length : Int) - a = 0 := by omega
            rw [if_pos h3, if_pos han]
            have hk : (min e (z.sl.length : Int) - a).toNat + 1 ≤ [headerItem].length := by
              simp only [List.length_singleton]; omega
            rw [if_pos hk]
            have : (min e (z.sl.length : Int) - a).toNat + 1 = 1 := by omega
            rw [this]
            rfl
          · have h3 : ¬ (z.sl.length : Int) - a = 0 := by omega
            rw [if_neg h3, if_neg han]
            simp only [List.length_reverse, List.length_take]
            by_cases hen : e ≥ (z.sl.length : Int)
            · rw [if_pos hen]
              have hk : ¬ ((min e (z.sl.length : Int) - a).toNat + 1
                  ≤ min ((z.sl.length : Int) - a).toNat z.sl.length) := by omega
              rw [if_neg hk]
            · rw [if_neg hen]
              have hk : (min e (z.sl.length : Int) - a).toNat + 1
                  ≤ min ((z.sl.length : Int) - a).toNat z.sl.length := by omega
              rw [if_pos hk, slice_norm, List.length_reverse]
              have hs' : normStart (z.sl.length) a = a := by unfold normStart; split <;> omega
              have he' : normStop (z.sl.length) e = e := by
                unfold normStop; simp only; split <;> (try split) <;> omega
              rw [hs', he']
              have hcond : ¬ (a > e ∨ a ≥ (z.sl.length : Int)) := by omega
              rw [if_neg hcond, List.reverse_take]
              have e1 : z.sl.length - ((z.sl.length : Int) - a).toNat = a.toNat := by omega
              have e2 : (min e (z.sl.length : Int) - a).toNat + 1 = (e - a + 1).toNat := by omega
              rw [e1, e2]

/-- ascending windows with a negative `start` (|start| < 2^62): `card + start` is taken as a
    1-based rank — one item more than Redis at the front — and when `card + start ≤ 1` the walk
    starts at the head but still runs `stop'' − (card + start) + 1` steps: beyond `card` steps it
    dereferences nil -/
theorem zrange_closed_neg {z : ZSet} (hlen : z.sl.length = z.dict.length)
    (hsize : z.dict.length < 2 ^ 63) (start stop : Int) (h0 : start < 0) (hb : -(2 ^ 62) ≤ start) :
    forEachByRank z start stop false =
      if stop1 z.sl.length stop < start then some [] else
      let s : Int := z.sl.length + start
      let k : Int := min (stop1 z.sl.length stop) z.sl.length - s + 1
      if k ≤ 0 then some []
      else if k ≤ (z.sl.length : Int) - ((s.toNat - 1 : Nat) : Int)
        then some ((z.sl.drop (s.toNat - 1)).take k.toNat)
      else none := by
  have hc : zCard z = (z.sl.length : Int) := by unfold zCard; rw [hlen]
  have hn : (z.sl.length : Int) < 2 ^ 63 := by rw [hlen]; exact_mod_cast hsize
  rw [forEachByRank_core, hc]
  have ha : start1 start = start := by unfold start1; rw [if_neg (by omega)]
  rw [ha]
  generalize stop1 (z.sl.length) stop = e
  have hgt : ¬ start > (z.sl.length : Int) := by omega
  rw [if_neg hgt]
  by_cases hea : e < start
  · rw [if_pos hea, if_pos hea]
  · rw [if_neg hea, if_neg hea, if_pos h0, ferCore_eq z hlen]
    have hcl : (if e > (z.sl.length : Int) then (z.sl.length : Int) else e) - ((z.sl.length : Int) + start)
        = min e z.sl.length - ((z.sl.length : Int) + start) := by split <;> omega
    rw [hcl]
    have hw : wrap64 (min e (z.sl.length : Int) - ((z.sl.length : Int) + start))
        = min e (z.sl.length : Int) - ((z.sl.length : Int) + start) := by
      apply wrap64_id <;> omega
    rw [hw]
    simp only
    by_cases hk : min e (z.sl.length : Int) - ((z.sl.length : Int) + start) < 0
    · rw [if_pos hk,
        if_pos (show min e (z.sl.length : Int) - ((z.sl.length : Int) + start) + 1 ≤ 0 by omega)]
    · rw [if_neg hk,
        if_neg (show ¬ min e (z.sl.length : Int) - ((z.sl.length : Int) + start) + 1 ≤ 0 by omega)]
      unfold nodeStream
      simp only [Bool.false_eq_true, if_false, List.length_drop]
      by_cases hfit : min e (z.sl.length : Int) - ((z.sl.length : Int) + start) + 1
          ≤ (z.sl.length : Int) - ((((z.sl.length : Int) + start).toNat - 1 : Nat) : Int)
      · rw [if_pos hfit,
          if_pos (show (min e (z.sl.length : Int) - ((z.sl.length : Int) + start)).toNat + 1
            ≤ z.sl.length - (((z.sl.length : Int) + start).toNat - 1) by omega)]
        congr 2
        omega
      · rw [if_neg hfit,
          if_neg (show ¬ (min e (z.sl.length : Int) - ((z.sl.length : Int) + start)).toNat + 1
            ≤ z.sl.length - (((z.sl.length : Int) + start).toNat - 1) by omega)]

/-- "the last k members" with k ≥ card: ZRANGE key -k -1 dereferences nil (Redis: all members) -/
theorem zrange_last_k_panics {z : ZSet} (hlen : z.sl.length = z.dict.length)
    (hsize : z.dict.length < 2 ^ 63) (start : Int) (hpos : 0 < z.sl.length)
    (h1 : start ≤ -(z.sl.length : Int)) (hb : -(2 ^ 62) ≤ start) :
    forEachByRank z start (-1) false = none := by
  rw [zrange_closed_neg hlen hsize start (-1) (by omega) hb]
  have he : stop1 z.sl.length (-1) = z.sl.length := by unfold stop1; rw [if_pos (by omega)]; omega
  rw [he, if_neg (show ¬ (z.sl.length : Int) < start by omega)]
  simp only
  rw [if_neg (show ¬ min (z.sl.length : Int) z.sl.length - ((z.sl.length : Int) + start) + 1 ≤ 0 by omega),
    if_neg (show ¬ min (z.sl.length : Int) z.sl.length - ((z.sl.length : Int) + start) + 1
      ≤ (z.sl.length : Int) - ((((z.sl.length : Int) + start).toNat - 1 : Nat) : Int) by omega)]

/-- two index pairs that normalise alike denote the same slice -/
theorem slice_congr (l : List Item) (s1 e1 s2 e2 : Int)
    (hs : normStart l.length s1 = normStart l.length s2)
    (he : normStop l.length e1 = normStop l.length e2) :
    Spec.ZSet.slice l s1 e1 = Spec.ZSet.slice l s2 e2 := by
  rw [slice_norm, slice_norm, hs, he]

theorem slice_empty (l : List Item) (s e : Int)
    (h : normStart l.length s > normStop l.length e ∨ normStart l.length s ≥ (l.length : Int)) :
    Spec.ZSet.slice l s e = [] := by
  rw [slice_norm, if_pos h]

/-- the (start, stop, card) region on which the model's 1-based window coincides with Redis'
    0-based inclusive range -/
def RankRegion (start stop n : Int) : Prop :=
  (start = 0 ∧ (stop < 0 ∨ stop ≥ n)) ∨ start > n ∨ (1 ≤ start ∧ 0 ≤ stop ∧ stop < start) ∨
  (1 ≤ start ∧ stop < 0 ∧ n + stop + 1 < start)

instance (start stop n : Int) : Decidable (RankRegion start stop n) := by
  unfold RankRegion; infer_instance

/-- model window = reference slice, for any list standing for the walk order (used for both
    directions) -/
theorem window_region (l : List Item) (start stop : Int) (h : RankRegion start stop l.length) :
    (if stop1 l.length stop < start1 start then []
      else Spec.ZSet.slice l (start1 start - 1) (stop1 l.length stop - 1))
      = Spec.ZSet.slice l start stop := by
  have hn0 : (0 : Int) ≤ l.length := by omega
  rcases h with ⟨h0, hstop⟩ | hgt | ⟨h1, h2, h3⟩ | ⟨h1, h2, h3⟩
  · subst h0
    have ha : start1 0 = 1 := rfl
    rw [ha]
    rcases hstop with hneg | hge
    · have he : stop1 l.length stop = l.length + stop + 1 := by unfold stop1; rw [if_pos hneg]
      rw [he]
      split
      · symm; apply slice_empty
        left
        unfold normStart normStop; (try simp only)
        split <;> split <;> (try split) <;> omega
      · apply slice_congr
        · rfl
        · unfold normStop; (try simp only)
          split <;> split <;> split <;> (try split) <;> omega
    · have he : stop1 l.length stop = stop := by unfold stop1; rw [if_neg (by omega)]
      rw [he]
      split
      · symm; apply slice_empty
        right
        unfold normStart; (try simp only)
        split <;> omega
      · apply slice_congr
        · rfl
        · unfold normStop; (try simp only)
          split <;> split <;> split <;> (try split) <;> omega
  · have ha : start1 start = start := by unfold start1; rw [if_neg (by omega)]
    rw [ha]
    have hr : Spec.ZSet.slice l start stop = [] := by
      apply slice_empty; right; unfold normStart; split <;> (try split) <;> omega
    rw [hr]
    split
    · rfl
    · apply slice_empty; right; unfold normStart; split <;> (try split) <;> omega
  · have ha : start1 start = start := by unfold start1; rw [if_neg (by omega)]
    have he : stop1 l.length stop = stop := by unfold stop1; rw [if_neg (by omega)]
    rw [ha, he, if_pos h3]
    symm; apply slice_empty
    left
    unfold normStart normStop; (try simp only)
    split <;> split <;> (try split) <;> omega
  · have ha : start1 start = start := by unfold start1; rw [if_neg (by omega)]
    have he : stop1 l.length stop = l.length + stop + 1 := by unfold stop1; rw [if_pos h2]
    rw [ha, he, if_pos h3]
    symm; apply slice_empty
    left
    unfold normStart normStop; (try simp only)
    split <;> split <;> (try split) <;> omega

theorem zrange_region {z : ZSet} (hlen : z.sl.length = z.dict.length) (hsize : z.dict.length < 2 ^ 63)
    (start stop : Int) (h : RankRegion start stop z.sl.length) :
    forEachByRank z start stop false = some (Spec.ZSet.slice z.sl start stop) := by
  have h0 : 0 ≤ start := by
    rcases h with ⟨h0, _⟩ | hgt | ⟨h1, _⟩ | ⟨h1, _⟩ <;> omega
  rw [zrange_closed hlen hsize start stop h0, window_region z.sl start stop h]

/-- the model's own semantics, stated positively: for `1 ≤ start ≤ stop` ZRANGE returns the items
    of 1-based ranks start..stop, i.e. Redis' `ZRANGE (start−1) (stop−1)` -/
theorem zrange_one_based {z : ZSet} (hlen : z.sl.length = z.dict.length)
    (hsize : z.dict.length < 2 ^ 63) (start stop : Int) (h1 : 1 ≤ start) (h2 : start ≤ stop) :
    forEachByRank z start stop false = some (Spec.ZSet.slice z.sl (start - 1) (stop - 1)) := by
  rw [zrange_closed hlen hsize start stop (by omega)]
  have ha : start1 start = start := by unfold start1; rw [if_neg (by omega)]
  have he : stop1 z.sl.length stop = stop := by unfold stop1; rw [if_neg (by omega)]
  rw [ha, he, if_neg (by omega)]

/-- region for ZREVRANGE: as for ZRANGE, plus the windows `1 < start ≤ stop < card` where the
    descending walk happens to be 0-based -/
def RevRankRegion (start stop n : Int) : Prop :=
  RankRegion start stop n ∨ (1 < start ∧ start ≤ stop ∧ stop < n)

instance (start stop n : Int) : Decidable (RevRankRegion start stop n) := by
  unfold RevRankRegion; infer_instance

theorem zrevrange_region {z : ZSet} (hlen : z.sl.length = z.dict.length)
    (hsize : z.dict.length < 2 ^ 63) (start stop : Int) (h : RevRankRegion start stop z.sl.length) :
    forEachByRank z start stop true = some (Spec.ZSet.slice z.sl.reverse start stop) := by
  have h0 : 0 ≤ start := by
    rcases h with (⟨h0, _⟩ | hgt | ⟨h1, _⟩ | ⟨h1, _⟩) | ⟨h1, _⟩ <;> omega
  rw [zrevrange_closed hlen hsize start stop h0]
  rcases h with h | ⟨h1, h2, h3⟩
  · have hw := window_region z.sl.reverse start stop (by rw [List.length_reverse]; exact h)
    rw [List.length_reverse] at hw
    rw [← hw]
    by_cases hc1 : start > (z.sl.length : Int) ∨ stop1 z.sl.length stop < start1 start
    · rw [if_pos hc1]
      rcases hc1 with hgt | hlt
      · have ha : start1 start = start := by unfold start1; rw [if_neg (by omega)]
        rw [ha]
        split
        · rfl
        · congr 1; symm
          apply slice_empty; right
          rw [List.length_reverse]; unfold normStart; split <;> (try split) <;> omega
      · rw [if_pos hlt]
    · rw [if_neg hc1]
      -- inside RankRegion a non-empty model window forces start = 0
      have hs0 : start = 0 := by
        have h1' : ¬ stop1 z.sl.length stop < start1 start := by omega
        unfold stop1 start1 at h1'
        rcases h with ⟨h0, _⟩ | hgt | ⟨h1, h2, h3⟩ | ⟨h1, h2, h3⟩
        · exact h0
        · omega
        · rw [if_neg (by omega), if_neg (by omega)] at h1'; omega
        · rw [if_pos h2, if_neg (by omega)] at h1'; omega
      subst hs0
      have ha : start1 0 = 1 := rfl
      rw [ha] at hc1 ⊢
      rw [if_pos rfl, if_neg (by omega)]
      rfl
  · have ha : start1 start = start := by unfold start1; rw [if_neg (by omega)]
    have he : stop1 z.sl.length stop = stop := by unfold stop1; rw [if_neg (by omega)]
    rw [ha, he, if_neg (by omega), if_neg (by omega), if_neg (by omega), if_neg (by omega)]

end NodisVerif.Proofs.C04
