import NodisVerif.Model.DsStr
import NodisVerif.Spec.Str
/-
  C01 helper lemmas: Go `strconv` integer text (`parseInt64`, `formatInt`) and the counter commands.
-/
namespace NodisVerif.Proofs.C01
open NodisVerif

theorem len_data (bs : ByteArray) : bs.data.toList.length = bs.size := by
  rw [Array.length_toList, ByteArray.size_data]

theorem toList_loop (bs : ByteArray) (i : Nat) (r : List UInt8) (h : i ≤ bs.size) :
    ByteArray.toList.loop bs i r = r.reverse ++ bs.data.toList.drop i := by
  fun_induction ByteArray.toList.loop bs i r with
  | case1 i r hlt ih =>
    rw [ih (by omega)]
    have hlt' : i < bs.data.toList.length := by rw [len_data]; exact hlt
    rw [List.drop_eq_getElem_cons hlt']
    have : bs.get! i = bs.data.toList[i] := by
      cases bs with
      | mk d =>
        have hd : i < d.size := by rw [← ByteArray.size_data] at hlt; exact hlt
        show d[i]! = _
        rw [getElem!_pos d i hd]
        simp
    rw [this]
    simp
  | case2 i r hge =>
    have : bs.data.toList.drop i = [] := by
      apply List.drop_eq_nil_of_le
      rw [len_data]; omega
    rw [this]; simp

theorem byteArray_toList (bs : ByteArray) : bs.toList = bs.data.toList := by
  unfold ByteArray.toList
  rw [toList_loop bs 0 [] (Nat.zero_le _)]
  simp

theorem natDigits_eq (n : Nat) : natDigits n = (Nat.toDigits 10 n).flatMap String.utf8EncodeChar := by
  unfold natDigits
  rw [byteArray_toList]
  show (String.toByteArray (Nat.repr n)).data.toList = _
  rw [Nat.repr_eq_ofList_toDigits]
  simp [String.ofList, List.utf8Encode]
theorem utf8_digit (c : Char) (h : c.isDigit = true) : String.utf8EncodeChar c = [c.val.toUInt8] := by
  apply String.utf8EncodeChar_eq_singleton
  simp only [Char.isDigit, Bool.and_eq_true, decide_eq_true_eq] at h
  unfold Char.utf8Size
  have : c.val ≤ 127 := by
    have h2 := h.2
    show c.val.toNat ≤ 127
    have : c.val.toNat ≤ ('9' : Char).val.toNat := h2
    have e : ('9' : Char).val.toNat = 57 := by decide
    omega
  simp [this]

def digitByte (c : Char) : UInt8 := c.val.toUInt8

theorem natDigits_map (n : Nat) : natDigits n = (Nat.toDigits 10 n).map digitByte := by
  rw [natDigits_eq]
  have : ∀ l : List Char, (∀ c ∈ l, c.isDigit = true) → l.flatMap String.utf8EncodeChar = l.map digitByte := by
    intro l
    induction l with
    | nil => intro _; rfl
    | cons a r ih =>
      intro h
      rw [List.flatMap_cons, utf8_digit a (h a (by simp)), ih (fun c hc => h c (by simp [hc]))]
      rfl
  exact this _ (fun c hc => Nat.isDigit_of_mem_toDigits (by decide) (by decide) hc)

theorem digitByte_props (c : Char) (h : c.isDigit = true) :
    isDigit (digitByte c) = true ∧ (digitByte c).toNat - 48 = c.toNat - '0'.toNat := by
  simp only [Char.isDigit, Bool.and_eq_true, decide_eq_true_eq] at h
  have h1 : 48 ≤ c.val.toNat := h.1
  have h2 : c.val.toNat ≤ 57 := h.2
  have e : (digitByte c).toNat = c.val.toNat := by
    unfold digitByte
    rw [UInt32.toNat_toUInt8]
    omega
  constructor
  · unfold isDigit
    simp only [decide_eq_true_eq]
    constructor
    · show (48 : UInt8).toNat ≤ (digitByte c).toNat
      rw [e]; exact h1
    · show (digitByte c).toNat ≤ (57 : UInt8).toNat
      rw [e]; exact h2
  · rw [e]; rfl

theorem digitsToNat_map (l : List Char) (h : ∀ c ∈ l, c.isDigit = true) (acc : Nat) :
    digitsToNat (l.map digitByte) acc = Nat.ofDigitChars 10 l acc := by
  induction l generalizing acc with
  | nil => rfl
  | cons a r ih =>
    rw [List.map_cons, digitsToNat, Nat.ofDigitChars_cons, ih (fun c hc => h c (by simp [hc]))]
    rw [(digitByte_props a (h a (by simp))).2, Nat.mul_comm]

theorem natDigits_all (n : Nat) : (natDigits n).all isDigit = true := by
  rw [natDigits_map, List.all_map]
  rw [List.all_eq_true]
  intro c hc
  exact (digitByte_props c (Nat.isDigit_of_mem_toDigits (by decide) (by decide) hc)).1

theorem natDigits_ne_nil (n : Nat) : natDigits n ≠ [] := by
  rw [natDigits_map]
  intro h
  exact Nat.toDigits_ne_nil (List.map_eq_nil_iff.mp h)

theorem digitsToNat_natDigits (n : Nat) : digitsToNat (natDigits n) 0 = n := by
  rw [natDigits_map, digitsToNat_map _ (fun c hc => Nat.isDigit_of_mem_toDigits (by decide) (by decide) hc)]
  exact Nat.ofDigitChars_ten_toDigits

theorem isDigit_not_sign (d : UInt8) (h : isDigit d = true) : d ≠ 43 ∧ d ≠ 45 := by
  unfold isDigit at h
  simp only [decide_eq_true_eq] at h
  have h1 : (48 : UInt8).toNat ≤ d.toNat := h.1
  constructor <;> intro e <;> subst e <;> exact absurd h1 (by decide)

theorem parseInt64_digits (ds : Bytes) (hne : ds ≠ []) (hall : ds.all isDigit = true) :
    parseInt64 ds = if inInt64 (digitsToNat ds 0 : Int) then some (digitsToNat ds 0 : Int) else none := by
  cases ds with
  | nil => exact absurd rfl hne
  | cons d r =>
    have hd : isDigit d = true := by
      simp only [List.all_cons, Bool.and_eq_true] at hall; exact hall.1
    obtain ⟨n1, n2⟩ := isDigit_not_sign d hd
    unfold parseInt64
    split
    next neg ds heq =>
    split at heq
    · next h43 => simp only [List.cons.injEq] at h43; exact absurd h43.1 n1
    · next h45 => simp only [List.cons.injEq] at h45; exact absurd h45.1 n2
    · cases heq
      simp only [List.isEmpty_cons, Bool.false_eq_true, if_false, hall, Bool.not_true]

theorem parseInt64_neg_digits (ds : Bytes) (hne : ds ≠ []) (hall : ds.all isDigit = true) :
    parseInt64 (45 :: ds) =
      if inInt64 (-(digitsToNat ds 0 : Int)) then some (-(digitsToNat ds 0 : Int)) else none := by
  unfold parseInt64
  have he : ds.isEmpty = false := by cases ds with
    | nil => exact absurd rfl hne
    | cons a r => rfl
  simp only [he, Bool.false_eq_true, if_false, hall, Bool.not_true, if_true]

/-- `ParseInt(FormatInt(x))` is `x` for every int64 -/
theorem parse_format (x : Int) (h : inInt64 x = true) : parseInt64 (formatInt x) = some x := by
  unfold formatInt
  by_cases hx : x < 0
  · rw [if_pos hx, parseInt64_neg_digits _ (natDigits_ne_nil _) (natDigits_all _), digitsToNat_natDigits]
    have : -(x.natAbs : Int) = x := by omega
    rw [this, h]; rfl
  · rw [if_neg hx, parseInt64_digits _ (natDigits_ne_nil _) (natDigits_all _), digitsToNat_natDigits]
    have : (x.toNat : Int) = x := by omega
    rw [this, h]; rfl

theorem formatInt_ne_nil (x : Int) : formatInt x ≠ [] := by
  unfold formatInt
  split
  · exact List.cons_ne_nil _ _
  · exact natDigits_ne_nil _

/-- `Incr` on the canonical text of `n` -/
theorem addInt_format (n d : Int) (hn : inInt64 n = true) :
    DsStr.addInt (some (formatInt n)) d =
      if inInt64 (n + d) then some (some (formatInt (n + d)), n + d) else none := by
  unfold DsStr.addInt
  have he : (DsStr.bytes (some (formatInt n))).isEmpty = false := by
    show (formatInt n).isEmpty = false
    cases h : formatInt n with
    | nil => exact absurd h (formatInt_ne_nil n)
    | cons a r => rfl
  simp only [he, Bool.false_eq_true, if_false]
  show (match parseInt64 (formatInt n) with | none => none | some n => _) = _
  rw [parse_format n hn]

/-- a value that is not the text of an int64 makes every counter step fail -/
theorem addInt_nonnumeric (v : Bytes) (d : Int) (hv : v ≠ []) (hp : parseInt64 v = none) :
    DsStr.addInt (some v) d = none := by
  unfold DsStr.addInt
  have he : (DsStr.bytes (some v)).isEmpty = false := by
    show v.isEmpty = false
    cases v with
    | nil => exact absurd rfl hv
    | cons a r => rfl
  simp only [he, Bool.false_eq_true, if_false]
  show (match parseInt64 v with | none => none | some n => _) = _
  rw [hp]

/-- a missing / empty value counts as 0 -/
theorem addInt_empty (s : DsStr.S) (d : Int) (hs : DsStr.bytes s = []) :
    DsStr.addInt s d = if inInt64 d then some (some (formatInt d), d) else none := by
  unfold DsStr.addInt
  rw [hs]
  simp only [List.isEmpty_nil, if_true]
  have : parseInt64 [48] = some 0 := by decide
  rw [this]
  simp only [Int.zero_add]

end NodisVerif.Proofs.C01
