import NodisVerif.Basic
namespace NodisVerif.Proofs.C15

theorem ByteArray_toList_loop (bs : ByteArray) (i : Nat) (r : List UInt8) :
    ByteArray.toList.loop bs i r = r.reverse ++ bs.data.toList.drop i := by
  fun_induction ByteArray.toList.loop bs i r with
  | case1 i r h ih =>
    rw [ih]
    have h' : i < bs.data.toList.length := by simpa using h
    have : bs.data.toList.drop i = bs.get! i :: bs.data.toList.drop (i+1) := by
      rw [List.drop_eq_getElem_cons h']
      congr 1
      have h'' : i < bs.data.size := h
      show _ = bs.data[i]!
      rw [getElem!_pos bs.data i h'']
      simp
    rw [this]; simp
  | case2 i r h =>
    have : bs.data.toList.drop i = [] := by
      apply List.drop_eq_nil_of_le
      have h'' : ¬ i < bs.data.size := h
      simp; omega
    simp [this]

theorem ByteArray_toList (bs : ByteArray) : bs.toList = bs.data.toList := by
  simp [ByteArray.toList, ByteArray_toList_loop]

theorem natDigits_eq (n : Nat) : natDigits n = (Nat.toDigits 10 n).flatMap String.utf8EncodeChar := by
  unfold natDigits
  rw [Nat.toString_eq_ofList_toDigits]
  simp [List.utf8Encode, ByteArray_toList]

/-- UTF-8 encoding of ASCII characters is one byte per character -/
theorem flatMap_utf8EncodeChar_ascii (l : List Char) (hl : ∀ c ∈ l, c.toNat ≤ 127) :
    l.flatMap String.utf8EncodeChar = l.map (fun c => c.val.toUInt8) := by
  induction l with
  | nil => rfl
  | cons c t ih =>
    have hc := hl c (by simp)
    have h1 : c.utf8Size = 1 := by
      simp [Char.utf8Size]
      intro h; exfalso
      have h2 : (127:UInt32).toNat < c.val.toNat := UInt32.lt_iff_toNat_lt.mp h
      have h3 : c.val.toNat = c.toNat := rfl
      simp at h2
      omega
    simp [String.utf8EncodeChar_eq_singleton h1]
    exact ih (fun c hc => hl c (by simp [hc]))

theorem natDigits_eq_map (n : Nat) : natDigits n = (Nat.toDigits 10 n).map (fun c => c.val.toUInt8) := by
  rw [natDigits_eq]
  apply flatMap_utf8EncodeChar_ascii
  intro c hc
  have := Nat.isDigit_of_mem_toDigits (by decide) (by decide) hc
  simp [Char.isDigit, UInt32.le_iff_toNat_le] at this
  have h3 : c.val.toNat = c.toNat := rfl
  omega

/-- `Bytes.ofString` of an ASCII string is its characters as bytes -/
theorem ofString_ascii (s : String) (h : ∀ c ∈ s.toList, c.toNat ≤ 127) :
    Bytes.ofString s = s.toList.map (fun c => c.val.toUInt8) := by
  unfold Bytes.ofString
  rw [String.toUTF8_eq_toByteArray, ← String.utf8Encode_toList]
  simp only [List.utf8Encode, ByteArray_toList, List.toList_data_toByteArray]
  exact flatMap_utf8EncodeChar_ascii _ h

theorem Char_toUInt8_toNat (c : Char) : c.toUInt8.toNat = c.toNat % 256 := by
  show c.val.toUInt8.toNat = c.val.toNat % 256
  simp only [UInt32.toNat_toUInt8]

theorem isDigit_natDigits (n : Nat) : ∀ b ∈ natDigits n, isDigit b = true := by
  rw [natDigits_eq_map]
  intro b hb
  simp only [List.mem_map] at hb
  obtain ⟨c, hc, rfl⟩ := hb
  have := Nat.isDigit_of_mem_toDigits (by decide) (by decide) hc
  simp [Char.isDigit, UInt32.le_iff_toNat_le] at this
  have h3 : c.val.toNat = c.toNat := rfl
  simp [isDigit, UInt8.le_iff_toNat_le, Char_toUInt8_toNat]
  omega

theorem natDigits_ne_nil (n : Nat) : natDigits n ≠ [] := by
  rw [natDigits_eq_map]; simp [Nat.toDigits_ne_nil]

theorem digitsToNat_map (l : List Char) (hl : ∀ c ∈ l, c.isDigit) (acc : Nat) :
    digitsToNat (l.map (fun c => c.val.toUInt8)) acc = Nat.ofDigitChars 10 l acc := by
  induction l generalizing acc with
  | nil => simp [digitsToNat]
  | cons c t ih =>
    have hc := hl c (by simp)
    simp [Char.isDigit, UInt32.le_iff_toNat_le] at hc
    have h3 : c.val.toNat = c.toNat := rfl
    simp only [List.map_cons, digitsToNat, Nat.ofDigitChars_cons]
    rw [ih (fun c hc => hl c (by simp [hc]))]
    congr 1
    simp only [Char.toUInt8_val, Char_toUInt8_toNat, Char.reduceToNat]
    have : c.toNat % 256 = c.toNat := by omega
    rw [this, Nat.mul_comm]

theorem digitsToNat_natDigits (n : Nat) : digitsToNat (natDigits n) 0 = n := by
  rw [natDigits_eq_map, digitsToNat_map _ (fun c hc => Nat.isDigit_of_mem_toDigits (by decide) (by decide) hc)]
  simp

theorem parseInt64_digits (ds : Bytes) (hne : ds ≠ []) (hd : ∀ b ∈ ds, isDigit b = true) :
    parseInt64 ds = if inInt64 (digitsToNat ds 0 : Nat) then some ((digitsToNat ds 0 : Nat) : Int) else none := by
  cases ds with
  | nil => exact absurd rfl hne
  | cons d t =>
    have h0 := hd d (by simp)
    have h43 : d ≠ 43 := by intro h; subst h; simp [isDigit] at h0
    have h45 : d ≠ 45 := by intro h; subst h; simp [isDigit] at h0
    have hall : (d :: t).all isDigit = true := by simpa using hd
    unfold parseInt64
    split
    rename_i x neg ds heq
    have : neg = false ∧ ds = d :: t := by
      split at heq
      · rename_i h; simp at h; exact absurd h.1 h43
      · rename_i h; simp at h; exact absurd h.1 h45
      · simp at heq; exact ⟨heq.1, heq.2.symm⟩
    obtain ⟨rfl, rfl⟩ := this
    simp only [hall]; simp

theorem parseInt64_formatInt_nat (n : Nat) (h : (n : Int) ≤ int64Max) :
    parseInt64 (formatInt (n : Int)) = some (n : Int) := by
  have : formatInt (n : Int) = natDigits n := by simp [formatInt]
  rw [this, parseInt64_digits _ (natDigits_ne_nil n) (isDigit_natDigits n), digitsToNat_natDigits]
  simp [inInt64, h, int64Min]

theorem natDigits_ne_lf (n : Nat) : ∀ b ∈ natDigits n, b ≠ 10 := by
  intro b hb h
  have := isDigit_natDigits n b hb
  subst h
  simp [isDigit] at this

end NodisVerif.Proofs.C15
