import NodisVerif.Proofs.C12Sched
/-
  C12: further commands as key transactions, to be used through `Cmd.raw`:
  for each, the equation with the model's implementation, the side conditions and nil-safety.
-/
namespace NodisVerif.Proofs.C11
open NodisVerif.Store NodisVerif.Codec NodisVerif.Spec.Persist
open NodisVerif.Proofs.AListLemmas NodisVerif.Proofs.AListLemmas2 NodisVerif.Proofs.C11AList

theorem getMeta_setVal_some {s : MState} {k : Bytes} {m : Meta} (hm : getMeta s k = some m) (v : Val) :
    ∃ m', getMeta (Api.setVal s k v) k = some m' := by
  have hm' : AList.get? s.index k = some m := hm
  by_cases hp : s.pebble = true ∨ m.oid = 0
  · rw [setVal_peb hm' hp]; exact ⟨{ m with value := some v }, by simp [getMeta, putMeta, get?_set_same]⟩
  · have hp' : s.pebble = false := by
      cases h1 : s.pebble with
      | true => exact absurd (Or.inl h1) hp
      | false => rfl
    have ho : m.oid ≠ 0 := fun e => hp (Or.inr e)
    rw [setVal_mem hm' hp' ho]
    simp only [getMeta]
    rw [get?_map (fun _ m' => svIdx m v m'), get?_set_same]
    exact ⟨_, rfl⟩

theorem expOf_setExp_setVal {s : MState} {k : Bytes} {w : Val} (hv : valOf s k = some w) (v : Val) (e : Int) :
    Api.expOf (Api.setExp (Api.setVal s k v) k e) k = e := by
  have : ∃ m, getMeta s k = some m := by
    simp only [valOf] at hv
    cases hm : getMeta s k with
    | none => rw [hm] at hv; cases hv
    | some m => exact ⟨m, rfl⟩
  obtain ⟨m, hm⟩ := this
  obtain ⟨m', hm'⟩ := getMeta_setVal_some hm v
  have hm'' : AList.get? (Api.setVal s k v).index k = some m' := hm'
  simp only [Api.expOf, Api.setExp, getMeta]
  rw [hm'']
  simp [putMeta, get?_set_same]

/-! ### SETEX / PSETEX -/

def decSetEx (key value : Bytes) (e : Int) : Val → Int → Act :=
  decStrWrite (fun _ => some (some (.str value), some e, [Api.opSet key value false e], .unit)) (fun _ => .panic)

def setExForm (key value : Bytes) (e : Int) : TxForm :=
  ⟨true, some (.str []), .unit, Cmd.pan, decSetEx key value e, key⟩

theorem setEX_eq (s : MState) (now : Int) (key value : Bytes) (seconds : Int) :
    Api.setEX s now key value seconds =
      (setExForm key value (wrap64 (now + wrap64 (seconds * 1000)))).run s now := by
  unfold Api.setEX TxForm.run setExForm keyTx
  simp only [if_true, Option.isNone_some, Bool.and_false, Bool.false_eq_true, if_false]
  generalize writeKey s now key (some (.str [])) = r
  obtain ⟨s1, ok⟩ := r
  simp only [Api.asStr]
  cases hv : valOf s1 key with
  | none => rfl
  | some v =>
    cases v <;> try rfl
    all_goals
      simp only [decSetEx, decStrWrite, runAct, optSetVal, optSetExp, emits, List.foldl_cons, List.foldl_nil,
        expOf_setExp_setVal hv]

theorem setPX_eq (s : MState) (now : Int) (key value : Bytes) (ms : Int) :
    Api.setPX s now key value ms = (setExForm key value (wrap64 (now + ms))).run s now := by
  unfold Api.setPX TxForm.run setExForm keyTx
  simp only [if_true, Option.isNone_some, Bool.and_false, Bool.false_eq_true, if_false]
  generalize writeKey s now key (some (.str [])) = r
  obtain ⟨s1, ok⟩ := r
  simp only [Api.asStr]
  cases hv : valOf s1 key with
  | none => rfl
  | some v =>
    cases v <;> try rfl
    all_goals
      simp only [decSetEx, decStrWrite, runAct, optSetVal, optSetExp, emits, List.foldl_cons, List.foldl_nil,
        expOf_setExp_setVal hv]

theorem setExForm_ok (key value : Bytes) (e : Int) (he : inInt64 e = true) : (setExForm key value e).OK := by
  refine ⟨(fun h => nomatch h), (fun w h => by cases h; exact good_str []), fun w e' _ _ => ?_⟩
  show (decSetEx key value e w e').GoodA
  unfold decSetEx
  apply Cmd.goodA_strWrite
  intro x v' e'' ops r hx
  simp only [Option.some.injEq, Prod.mk.injEq] at hx
  obtain ⟨rfl, rfl, _, _⟩ := hx
  exact ⟨(fun w hw => by cases hw; exact good_str _), (fun e1 he1 => by cases he1; exact he)⟩

theorem setExForm_nilSafe (key value : Bytes) (e : Int) : (setExForm key value e).NilSafe := by
  apply nilSafe_of
  · intro v e' hv
    cases v <;> simp_all [setExForm, decSetEx, decStrWrite]
  · intro v0 h0
    simp only [setExForm, Option.some.injEq] at h0
    subst h0
    simp [setExForm, decSetEx, decStrWrite]

/-! ### BITCOUNT -/

def bitCountForm (key : Bytes) (start stop : Int) (bit : Bool) : TxForm :=
  ⟨false, none, .int 0, Cmd.pan,
    decStrRead fun v => .int (if bit then DsStr.bitCountByBit v start stop else DsStr.bitCount v start stop), key⟩

theorem bitCount_eq (s : MState) (now : Int) (key : Bytes) (start stop : Int) (bit : Bool) :
    Api.bitCount s now key start stop bit = (bitCountForm key start stop bit).run s now :=
  strRead_eq _ _ s now key

theorem readForm_ok (f : TxForm) (_hw : f.write = false) (hc : f.ctor = none)
    (hk : ∀ v e, ∃ r, f.dec v e = .keep r) : f.OK := by
  refine ⟨fun _ => hc, (fun v h => by rw [hc] at h; cases h), fun v e _ _ => ?_⟩
  obtain ⟨r, hr⟩ := hk v e
  rw [hr]; trivial

theorem readForm_nilSafe (f : TxForm) (hc : f.ctor = none) (hk : ∀ v e, ∃ r, f.dec v e = .keep r) :
    f.NilSafe := by
  apply nilSafe_of
  · intro v e hv
    obtain ⟨r, hr⟩ := hk v e
    rw [hr]; exact hv
  · intro v0 h0; rw [hc] at h0; cases h0

theorem bitCountForm_keep (key : Bytes) (start stop : Int) (bit : Bool) (v : Val) (e : Int) :
    ∃ r, (bitCountForm key start stop bit).dec v e = .keep r := by
  cases v <;> exact ⟨_, rfl⟩

/-! ### the conditional deadline commands -/

def expireCondForm (key : Bytes) (ts : Int) (cond : Int → Bool) : TxForm :=
  ⟨true, none, .int 0,
    fun s1 => if cond (Api.expOf s1 key) then (Api.applyExp s1 key ts, .int 1) else (s1, .int 0),
    decExpire key ts cond, key⟩

theorem expireCondForm_ok (key : Bytes) (ts : Int) (cond : Int → Bool) (hts : inInt64 ts = true) :
    (expireCondForm key ts cond).OK :=
  ⟨(fun h => nomatch h), (fun _ h => nomatch h), fun v e _ _ => Cmd.goodA_expire key ts cond hts v e⟩

theorem expireCondForm_nilSafe (key : Bytes) (ts : Int) (cond : Int → Bool) : (expireCondForm key ts cond).NilSafe := by
  apply nilSafe_of
  · intro v e hv
    simp only [expireCondForm, decExpire]
    split <;> simp [hv]
  · intro v0 h0; cases h0

theorem expireAtLT_eq (s : MState) (now : Int) (key : Bytes) (ts : Int) :
    Api.expireAtLT s now key ts =
      (expireCondForm key ts fun e => decide (e ≠ 0) && decide (ts < e)).run s now := by
  refine Eq.trans ?_ (expireAtCond_shape s now key ts (fun e => decide (e ≠ 0) && decide (ts < e)))
  unfold Api.expireAtLT
  generalize writeKey s now key none = r
  obtain ⟨s1, ok⟩ := r
  cases ok <;> simp only [Bool.not_false, Bool.not_true, if_true, Bool.false_eq_true, if_false]
  by_cases h : Api.expOf s1 key = 0
  · simp [h]
  · by_cases h2 : ts < Api.expOf s1 key <;> simp [h, h2]

theorem expireAtGT_eq (s : MState) (now : Int) (key : Bytes) (ts : Int) :
    Api.expireAtGT s now key ts = (expireCondForm key ts fun e => decide (e < ts)).run s now := by
  refine Eq.trans ?_ (expireAtCond_shape s now key ts (fun e => decide (e < ts)))
  unfold Api.expireAtGT
  generalize writeKey s now key none = r
  obtain ⟨s1, ok⟩ := r
  cases ok <;> simp only [Bool.not_false, Bool.not_true, if_true, Bool.false_eq_true, if_false]
  by_cases h2 : Api.expOf s1 key < ts <;> simp [h2]

theorem expireNX_eq (s : MState) (now : Int) (key : Bytes) (seconds : Int) :
    Api.expireNX s now key seconds =
      (expireCondForm key (wrap64 (now + wrap64 (seconds * 1000))) fun e => decide (e = 0)).run s now := by
  refine Eq.trans ?_ (expireAtCond_shape s now key (wrap64 (now + wrap64 (seconds * 1000))) (fun e => decide (e = 0)))
  unfold Api.expireNX
  generalize writeKey s now key none = r
  obtain ⟨s1, ok⟩ := r
  cases ok <;> simp only [Bool.not_false, Bool.not_true, if_true, Bool.false_eq_true, if_false]
  by_cases h : Api.expOf s1 key = 0 <;> simp [h]

theorem expireXX_eq (s : MState) (now : Int) (key : Bytes) (seconds : Int) :
    Api.expireXX s now key seconds =
      (expireCondForm key (wrap64 (now + wrap64 (seconds * 1000))) fun e => decide (e ≠ 0)).run s now := by
  refine Eq.trans ?_ (expireAtCond_shape s now key (wrap64 (now + wrap64 (seconds * 1000))) (fun e => decide (e ≠ 0)))
  unfold Api.expireXX
  generalize writeKey s now key none = r
  obtain ⟨s1, ok⟩ := r
  cases ok <;> simp only [Bool.not_false, Bool.not_true, if_true, Bool.false_eq_true, if_false]
  by_cases h : Api.expOf s1 key = 0 <;> simp [h]

theorem expireLT_eq (s : MState) (now : Int) (key : Bytes) (seconds : Int) :
    Api.expireLT s now key seconds =
      (expireCondForm key (wrap64 (now + wrap64 (seconds * 1000)))
        fun e => decide (e ≠ 0) && decide (wrap64 (now + wrap64 (seconds * 1000)) < e)).run s now := by
  refine Eq.trans ?_ (expireAtCond_shape s now key (wrap64 (now + wrap64 (seconds * 1000)))
    (fun e => decide (e ≠ 0) && decide (wrap64 (now + wrap64 (seconds * 1000)) < e)))
  unfold Api.expireLT
  generalize writeKey s now key none = r
  obtain ⟨s1, ok⟩ := r
  cases ok <;> simp only [Bool.not_false, Bool.not_true, if_true, Bool.false_eq_true, if_false]
  by_cases h : Api.expOf s1 key = 0
  · simp [h]
  · by_cases h2 : wrap64 (now + wrap64 (seconds * 1000)) < Api.expOf s1 key <;> simp [h, h2]

theorem expireGT_eq (s : MState) (now : Int) (key : Bytes) (seconds : Int) :
    Api.expireGT s now key seconds =
      (expireCondForm key (wrap64 (now + wrap64 (seconds * 1000)))
        fun e => decide (e < wrap64 (now + wrap64 (seconds * 1000)))).run s now := by
  refine Eq.trans ?_ (expireAtCond_shape s now key (wrap64 (now + wrap64 (seconds * 1000)))
    (fun e => decide (e < wrap64 (now + wrap64 (seconds * 1000)))))
  unfold Api.expireGT
  generalize writeKey s now key none = r
  obtain ⟨s1, ok⟩ := r
  cases ok <;> simp only [Bool.not_false, Bool.not_true, if_true, Bool.false_eq_true, if_false]
  by_cases h2 : Api.expOf s1 key < wrap64 (now + wrap64 (seconds * 1000)) <;> simp [h2]

/-! ### HSETNX, ZADD NX -/

def decHsetnx (key field value : Bytes) (v : Val) (_ : Int) : Act :=
  match v with
  | .hash h =>
    if DsHash.hexists h field then .keep (.int 0) else
    .put (some (.hash (DsHash.hset h field value).1)) none
      [{ typ := 10, key := key, args := [Bytes.toHex field, Bytes.toHex value] }]
      (.int (DsHash.hset h field value).2)
  | _ => .keep .panic

def hsetnxForm (key field value : Bytes) : TxForm :=
  ⟨true, some (.hash []), .unit, Cmd.pan, decHsetnx key field value, key⟩

theorem hsetnx_eq (s : MState) (now : Int) (key field value : Bytes) :
    Api.hsetnx s now key field value = (hsetnxForm key field value).run s now := by
  refine Eq.trans ?_ (create_shape s now key _ _ _ _ (fun s1 => match Api.asHash s1 key with
    | none => (s1, .panic)
    | some h =>
      if DsHash.hexists h field then (s1, .int 0) else
      (emit (signal (Api.setVal s1 key (.hash (DsHash.hset h field value).1)) key)
        { typ := 10, key := key, args := [Bytes.toHex field, Bytes.toHex value] },
       .int (DsHash.hset h field value).2)) ?_)
  · rfl
  · intro s1; simp only [Api.asHash]
    cases valOf s1 key with
    | none => rfl
    | some v =>
      cases v <;> try rfl
      rename_i h
      simp only [hsetnxForm, decHsetnx]
      cases DsHash.hexists h field <;> rfl

theorem hsetnxForm_ok (key field value : Bytes) (hb : field.length + value.length + 10 < 2 ^ 63) :
    (hsetnxForm key field value).OK := by
  refine ⟨(fun h => nomatch h), (fun w h => by cases h; exact good_emptyHash), fun w e hg _ => ?_⟩
  cases w with
  | hash h =>
    show (decHsetnx key field value (.hash h) e).GoodA
    unfold decHsetnx
    simp only
    split
    · trivial
    · exact ⟨(fun w hw => by cases hw; exact good_hset h field value hg hb), (fun e he => by cases he)⟩
  | _ => trivial

theorem hsetnxForm_nilSafe (key field value : Bytes) : (hsetnxForm key field value).NilSafe := by
  apply nilSafe_of
  · intro v e hv
    cases v <;> simp_all [hsetnxForm, decHsetnx]
  · intro v0 h0
    simp only [hsetnxForm, Option.some.injEq] at h0
    subst h0
    simp only [hsetnxForm, decHsetnx]
    split <;> simp

def zaddNXForm (key m : Bytes) (sc : F64) : TxForm :=
  ⟨true, some (.zset DsZSet.empty), .unit, Cmd.pan, decZaddWith DsZSet.zAddNX key m sc, key⟩

theorem zaddNX_eq (s : MState) (now : Int) (key m : Bytes) (sc : F64) :
    Api.zaddNX s now key m sc = (zaddNXForm key m sc).run s now := zaddWith_eq _ s now key m sc

theorem zaddNXForm_ok (key m : Bytes) (sc : F64) (hn : F64.isNaN sc = false) (hb : m.length + 8 < 2 ^ 63) :
    (zaddNXForm key m sc).OK := by
  refine ⟨(fun h => nomatch h), (fun w h => by cases h; exact good_emptyZSet), fun w e hg _ => ?_⟩
  cases w with
  | zset z =>
    refine ⟨(fun w hw => ?_), (fun e he => by cases he)⟩
    cases hw
    unfold DsZSet.zAddNX
    split
    · exact good_zadd z m sc hg hn hb
    · exact hg
  | _ => trivial

theorem zaddNXForm_nilSafe (key m : Bytes) (sc : F64) : (zaddNXForm key m sc).NilSafe := by
  apply nilSafe_of
  · intro v e hv
    cases v <;> simp_all [zaddNXForm, decZaddWith]
  · intro v0 h0
    simp only [zaddNXForm, Option.some.injEq] at h0
    subst h0
    simp [zaddNXForm, decZaddWith]

end NodisVerif.Proofs.C11
