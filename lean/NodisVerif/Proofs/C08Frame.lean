import NodisVerif.Proofs.C08Step
/-
  Frames of the connection-level operations of Model/Conn.lean: what `applySignals`, `runBody`,
  `unwatchAll`, `watch` change and what they leave alone.
-/
namespace NodisVerif.Proofs.C08Step
open Resp Server
open NodisVerif.Proofs.AListLemmas2

/-- set the watch flag of every connection in `ids` for `key` (inner loop of `signalModifiedKey`) -/
def flagAll (sv : Server) (key : Bytes) (ids : List String) : Server :=
  ids.foldl (fun sv id =>
    let c := sv.conn id
    sv.setConn id { c with watch := AList.set c.watch key true }) sv

/-- `sv'` arises from `sv` by setting watch flags to true, exactly those of the pairs in `S` -/
structure Flagged (S : String → Bytes → Prop) (sv sv' : Server) : Prop where
  store : sv'.store = sv.store
  registry : sv'.registry = sv.registry
  state : ∀ id, (sv'.conn id).state = (sv.conn id).state
  queue : ∀ id, (sv'.conn id).queue = (sv.conn id).queue
  hit : ∀ id x, S id x → AList.get? (sv'.conn id).watch x = some true
  miss : ∀ id x, ¬ S id x → AList.get? (sv'.conn id).watch x = AList.get? (sv.conn id).watch x
  same : ∀ id, (∀ x, ¬ S id x) → sv'.conn id = sv.conn id

theorem Flagged.refl (sv : Server) : Flagged (fun _ _ => False) sv sv :=
  ⟨rfl, rfl, fun _ => rfl, fun _ => rfl, fun _ _ h => h.elim, fun _ _ _ => rfl, fun _ _ => rfl⟩

theorem Flagged.trans {S₁ S₂ : String → Bytes → Prop} {a b c : Server}
    (h₁ : Flagged S₁ a b) (h₂ : Flagged S₂ b c) : Flagged (fun i x => S₁ i x ∨ S₂ i x) a c := by
  refine ⟨h₂.store.trans h₁.store, h₂.registry.trans h₁.registry, fun id => (h₂.state id).trans (h₁.state id),
    fun id => (h₂.queue id).trans (h₁.queue id), ?_, ?_, ?_⟩
  · intro id x hs
    by_cases h2 : S₂ id x
    · exact h₂.hit id x h2
    · rw [h₂.miss id x h2]
      exact h₁.hit id x (hs.resolve_right h2)
  · intro id x hs
    rw [h₂.miss id x (fun h => hs (Or.inr h)), h₁.miss id x (fun h => hs (Or.inl h))]
  · intro id hs
    rw [h₂.same id (fun x h => hs x (Or.inr h)), h₁.same id (fun x h => hs x (Or.inl h))]

theorem Flagged.congr {S S' : String → Bytes → Prop} {a b : Server} (h : Flagged S a b)
    (e : ∀ i x, S i x ↔ S' i x) : Flagged S' a b :=
  ⟨h.store, h.registry, h.state, h.queue, fun id x hs => h.hit id x ((e id x).mpr hs),
   fun id x hs => h.miss id x (fun h' => hs ((e id x).mp h')),
   fun id hs => h.same id (fun x h' => hs x ((e id x).mp h'))⟩

/-- flags only go up: a flag that is true stays true, a watched key stays watched -/
theorem Flagged.flag_mono {S : String → Bytes → Prop} {a b : Server} (h : Flagged S a b) (id : String) (x : Bytes)
    (ht : AList.get? (a.conn id).watch x = some true) : AList.get? (b.conn id).watch x = some true := by
  by_cases hs : S id x
  · exact h.hit id x hs
  · rw [h.miss id x hs]; exact ht

theorem Flagged.contains_mono {S : String → Bytes → Prop} {a b : Server} (h : Flagged S a b) (id : String) (x : Bytes)
    (ht : AList.contains (a.conn id).watch x = true) : AList.contains (b.conn id).watch x = true := by
  by_cases hs : S id x
  · simp [AList.contains, h.hit id x hs]
  · simpa [AList.contains, h.miss id x hs] using ht

theorem flagOne (sv : Server) (id : String) (key : Bytes) :
    Flagged (fun i x => i = id ∧ x = key) sv
      (sv.setConn id { (sv.conn id) with watch := AList.set (sv.conn id).watch key true }) := by
  refine ⟨rfl, rfl, ?_, ?_, ?_, ?_, ?_⟩
  · intro i; rw [conn_setConn]; split <;> simp_all
  · intro i; rw [conn_setConn]; split <;> simp_all
  · rintro i x ⟨rfl, rfl⟩; simp [get?_set_same]
  · intro i x hs
    rw [conn_setConn]
    split
    · next h => subst h; simp only [not_and, true_imp_iff] at hs; simp [get?_set_other _ _ _ _ hs]
    · rfl
  · intro i hs
    rw [conn_setConn]
    split
    · next h => exact absurd ⟨h, rfl⟩ (hs key)
    · rfl

theorem flagAll_flagged (key : Bytes) : ∀ (ids : List String) (sv : Server),
    Flagged (fun i x => i ∈ ids ∧ x = key) sv (flagAll sv key ids) := by
  intro ids
  induction ids with
  | nil => intro sv; exact (Flagged.refl sv).congr (by simp)
  | cons id rest ih =>
    intro sv
    have h1 := flagOne sv id key
    have h2 := ih (sv.setConn id { (sv.conn id) with watch := AList.set (sv.conn id).watch key true })
    refine (h1.trans h2).congr ?_
    intro i x
    simp only [List.mem_cons]
    constructor
    · rintro (⟨a, b⟩ | ⟨a, b⟩)
      · exact ⟨Or.inl a, b⟩
      · exact ⟨Or.inr a, b⟩
    · rintro ⟨a | a, b⟩
      · exact Or.inl ⟨a, b⟩
      · exact Or.inr ⟨a, b⟩

/-- the loop over `store.signalled` of `applySignals` -/
def sigLoop (keys : List Bytes) (sv : Server) : Server :=
  keys.foldl (fun (sv : Server) key =>
      match AList.get? sv.registry key with
      | none => sv
      | some ids => flagAll sv key ids) sv

/-- the loop over the registry after a `Clear()` -/
def flushLoop (ents : AList (List String)) (sv : Server) : Server :=
  ents.foldl (fun (sv : Server) (key, ids) => flagAll sv key ids) sv

theorem applySignals_eq (sv : Server) : applySignals sv =
    (let sv1 := sigLoop sv.store.signalled sv
     let sv2 := if sv1.store.flushed then flushLoop sv1.registry sv1 else sv1
     { sv2 with store := { sv2.store with signalled := [], flushed := false } }) := rfl

theorem sigLoop_flagged : ∀ (keys : List Bytes) (sv : Server),
    Flagged (fun i x => x ∈ keys ∧ ∃ ids, AList.get? sv.registry x = some ids ∧ i ∈ ids) sv (sigLoop keys sv) := by
  intro keys
  induction keys with
  | nil => intro sv; exact (Flagged.refl sv).congr (by simp)
  | cons key rest ih =>
    intro sv
    show Flagged _ sv (sigLoop rest (match AList.get? sv.registry key with
      | none => sv
      | some ids => flagAll sv key ids))
    cases hk : AList.get? sv.registry key with
    | none =>
      refine (ih sv).congr ?_
      intro i x
      simp only [List.mem_cons]
      constructor
      · rintro ⟨a, b⟩; exact ⟨Or.inr a, b⟩
      · rintro ⟨a | a, ids, b, c⟩
        · subst a; rw [hk] at b; cases b
        · exact ⟨a, ids, b, c⟩
    | some ids =>
      have h1 := flagAll_flagged key ids sv
      have h2 := ih (flagAll sv key ids)
      rw [h1.registry] at h2
      refine (h1.trans h2).congr ?_
      intro i x
      simp only [List.mem_cons]
      constructor
      · rintro (⟨a, b⟩ | ⟨a, b⟩)
        · subst b; exact ⟨Or.inl rfl, ids, hk, a⟩
        · exact ⟨Or.inr a, b⟩
      · rintro ⟨a | a, ids', b, c⟩
        · subst a; rw [hk] at b; cases b; exact Or.inl ⟨c, rfl⟩
        · exact Or.inr ⟨a, ids', b, c⟩

theorem flushLoop_flagged : ∀ (ents : AList (List String)) (sv : Server),
    Flagged (fun i x => ∃ ids, (x, ids) ∈ ents ∧ i ∈ ids) sv (flushLoop ents sv) := by
  intro ents
  induction ents with
  | nil => intro sv; exact (Flagged.refl sv).congr (by simp)
  | cons p rest ih =>
    intro sv
    obtain ⟨key, ids⟩ := p
    show Flagged _ sv (flushLoop rest (flagAll sv key ids))
    have h1 := flagAll_flagged key ids sv
    have h2 := ih (flagAll sv key ids)
    refine (h1.trans h2).congr ?_
    intro i x
    simp only [List.mem_cons, Prod.mk.injEq]
    constructor
    · rintro (⟨a, b⟩ | ⟨ids', a, b⟩)
      · exact ⟨ids, Or.inl ⟨b, rfl⟩, a⟩
      · exact ⟨ids', Or.inr a, b⟩
    · rintro ⟨ids', (⟨a, b⟩ | a), c⟩
      · subst a b; exact Or.inl ⟨c, rfl⟩
      · exact Or.inr ⟨ids', a, c⟩

/-- the (connection, key) pairs whose flag a store effect sets: the key was passed to
    `signalModifiedKey` and the connection is registered for it, or `Clear()` ran and the
    connection is registered for the key -/
def hits (reg : AList (List String)) (st : MState) (id : String) (x : Bytes) : Prop :=
  (x ∈ st.signalled ∧ ∃ ids, AList.get? reg x = some ids ∧ id ∈ ids) ∨
  (st.flushed = true ∧ ∃ ids, (x, ids) ∈ reg ∧ id ∈ ids)

/-- `applySignals` without the final reset of the store's `signalled` / `flushed` fields -/
def applyFlags (sv : Server) : Server :=
  let sv1 := sigLoop sv.store.signalled sv
  if sv1.store.flushed then flushLoop sv1.registry sv1 else sv1

theorem applySignals_eq' (sv : Server) : applySignals sv =
    { applyFlags sv with store := { (applyFlags sv).store with signalled := [], flushed := false } } := rfl

theorem applyFlags_flagged (sv : Server) : Flagged (hits sv.registry sv.store) sv (applyFlags sv) := by
  have h1 := sigLoop_flagged sv.store.signalled sv
  unfold applyFlags
  simp only
  rw [h1.store]
  by_cases hf : sv.store.flushed = true
  · rw [if_pos hf]
    have h2 := flushLoop_flagged (sigLoop sv.store.signalled sv).registry (sigLoop sv.store.signalled sv)
    refine (h1.trans h2).congr ?_
    intro i x
    simp [hits, hf, h1.registry]
  · rw [if_neg hf]
    refine h1.congr ?_
    intro i x
    simp [hits, hf]

@[simp] theorem conn_store_update (sv : Server) (st : MState) (id : String) :
    ({ sv with store := st } : Server).conn id = sv.conn id := rfl

end NodisVerif.Proofs.C08Step
