import NodisVerif.Proofs.C20Call
/-
  Since Model/FloatDec.lean `Api.formatFloat` is total and "0" parses, so the two regions of the C20 replay theorems
  that existed only because the model's float fragment could be left after a key had been created
  (`IncrByFloatCreatesAndFails`, `HIncrByFloatCreatesAndFails`) are empty: IncrByFloat / HIncrByFloat are covered by
  `call_main` for every increment, with no region hypothesis.
-/
namespace NodisVerif.Proofs.C20
open NodisVerif NodisVerif.Store NodisVerif.Api

theorem hincrByFloat_region_empty (L : Option (Val × Int)) (delta : F64) : ¬ HIncrByFloatCreatesAndFails L delta := by
  rintro ⟨_, h⟩
  cases h

theorem incrByFloat_region_empty (L : Option (Val × Int)) (delta : F64) : ¬ IncrByFloatCreatesAndFails L delta := by
  rintro ⟨_, h⟩
  have hp0 : Api.parseFloatText [48] = some (some 0) := by decide +kernel
  refine h (FloatDec.formatShortest (F64.add 0 delta), F64.add 0 delta) ?_
  unfold ibfCalc
  simp only [DsStr.bytes, Option.getD_some, List.isEmpty_nil, if_true, hp0, F64.add?, Api.formatFloat]

theorem call_region_incrByFloat (K : Bytes → Option (Val × Int)) (k : Bytes) (d : F64) :
    ¬ (Call.incrByFloat k d).Region K := incrByFloat_region_empty _ _

theorem call_region_hincrByFloat (K : Bytes → Option (Val × Int)) (k f : Bytes) (d : F64) :
    ¬ (Call.hincrByFloat k f d).Region K := hincrByFloat_region_empty _ _

end NodisVerif.Proofs.C20
