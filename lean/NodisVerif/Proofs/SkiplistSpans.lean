import NodisVerif.Proofs.SkiplistSpecs
/-
  The span discipline of links that end in nil ("header spans to nil / untouched levels as the code leaves them"):
  below `skiplist.level`, a link whose forward is nil carries span = length − position of its node (the number of
  nodes behind it), as in Redis. Levels of the header at or above `skiplist.level` are not constrained: `removeNode`
  leaves stale spans there when the level shrinks and `insert` overwrites them (`update[i].level[i].span =
  skiplist.length`) when the level grows again.
-/
namespace NodisVerif.Skiplist

/-- every nil link below `sl.level` spans the rest of the list -/
def NilSpans (sl : SL) (c : List Nat) : Prop :=
  ∀ (A : List Nat) (u : Nat) (B : List Nat), 0 :: c = A ++ u :: B →
    ∀ (i : Nat) (l : Level), i < sl.level → getLevel sl.heap u i = .ok l → l.forward = none →
      l.span = sl.length - (A.length : Int)

/-- the full invariant: structure (`IsChain`) and the span discipline of nil links -/
def InvSpans (sl : SL) : Prop := ∃ c, IsChain sl c ∧ NilSpans sl c

theorem InvSpans.inv {sl : SL} (h : InvSpans sl) : Inv sl := by
  obtain ⟨c, hc, _⟩ := h
  exact ⟨c, hc⟩

end NodisVerif.Skiplist
