import NodisVerif.Model.Resp
import NodisVerif.Spec.RespEnc
import NodisVerif.Proofs.C15Decimal
/-
  C15, part 4: `strings.ToUpper` (Go `range` over the string) and the option-word scan.
-/
namespace NodisVerif.Proofs.C15
open Resp Spec.RespEnc

/-! ### `upper` on ASCII -/

theorem decodeRune_ascii (b : UInt8) (t : Bytes) (h : b < 128) : decodeRune (b :: t) = (b.toNat, 1) := by
  have : b.toNat < 0x80 := by simpa [UInt8.lt_iff_toNat_lt] using h
  simp [decodeRune, this]

theorem upperByte_eq (b : UInt8) (h : b < 128) :
    UInt8.ofNat ((if 97 ≤ b.toNat ∧ b.toNat ≤ 122 then b.toNat - 32 else b.toNat) % 256) = asciiUpperByte b := by
  have hb : b.toNat < 128 := by simpa [UInt8.lt_iff_toNat_lt] using h
  apply UInt8.toNat_inj.mp
  unfold asciiUpperByte
  simp only [UInt8.le_iff_toNat_le, UInt8.toNat_ofNat']
  have e97 : UInt8.toNat 97 = 97 := rfl
  have e122 : UInt8.toNat 122 = 122 := rfl
  rw [e97, e122]
  by_cases hc : 97 ≤ b.toNat ∧ b.toNat ≤ 122
  · rw [if_pos hc, if_pos hc, UInt8.toNat_sub]
    have : UInt8.toNat 32 = 32 := rfl
    rw [this]; omega
  · rw [if_neg hc, if_neg hc]; omega

theorem upperAux_ascii : ∀ (v : Bytes) (fuel : Nat), (∀ b ∈ v, b < 128) → v.length ≤ fuel →
    upperAux v fuel = asciiUpper v := by
  intro v
  induction v with
  | nil => intro fuel _ _; cases fuel <;> simp [upperAux, asciiUpper]
  | cons b t ih =>
    intro fuel hv hf
    match fuel, hf with
    | fuel + 1, hf =>
      have hb := hv b (by simp)
      simp only [upperAux, decodeRune_ascii b t hb]
      simp only [Nat.sub_self, List.replicate_zero, List.nil_append, List.drop_succ_cons, List.drop_zero]
      rw [ih fuel (fun x hx => hv x (by simp [hx])) (by simpa using hf), upperByte_eq b hb]
      simp [asciiUpper]

/-- on pure-ASCII input `strings.ToUpper` is the usual ASCII upper-casing -/
theorem upper_ascii' (v : Bytes) (h : ∀ b ∈ v, b < 128) : upper v = asciiUpper v := by
  unfold upper
  rw [upperAux_ascii v _ h (by omega)]
  simp only [asciiUpper]
  exact List.take_of_length_le (by simp)

/-! ### `upper` on non-ASCII input: a 0x00 or 0xFD byte appears -/

/-- a lead byte ≥ 0x80 either decodes to U+FFFD (width 1) or starts a rune of width ≥ 2 that is
    completely present -/
theorem decodeRune_nonascii (b : UInt8) (t : Bytes) (h : 128 ≤ b.toNat) :
    decodeRune (b :: t) = (0xFFFD, 1) ∨ ∃ r w, decodeRune (b :: t) = (r, w) ∧ 2 ≤ w ∧ t ≠ [] := by
  unfold decodeRune
  simp only
  have h0 : ¬ b.toNat < 0x80 := by omega
  rw [if_neg h0]
  repeat' split
  all_goals simp
  all_goals exact ⟨_, _, ⟨rfl, rfl⟩, by decide⟩

theorem upperAux_bad : ∀ (v : Bytes) (fuel : Nat), v.length ≤ fuel → (∃ b ∈ v, 128 ≤ b.toNat) →
    ∃ i, i < v.length ∧ ((upperAux v fuel)[i]? = some 0 ∨ (upperAux v fuel)[i]? = some 253) := by
  intro v
  induction v with
  | nil => intro fuel _ h; simp at h
  | cons b t ih =>
    intro fuel hf hbad
    match fuel, hf with
    | fuel + 1, hf =>
      by_cases hb : b.toNat < 128
      · have hb' : b < 128 := by simpa [UInt8.lt_iff_toNat_lt] using hb
        have hbad' : ∃ x ∈ t, 128 ≤ x.toNat := by
          obtain ⟨x, hx, hx2⟩ := hbad
          simp at hx
          rcases hx with rfl | hx
          · omega
          · exact ⟨x, hx, hx2⟩
        obtain ⟨i, hi, hi2⟩ := ih fuel (by simpa using hf) hbad'
        refine ⟨i + 1, by simpa using hi, ?_⟩
        simp only [upperAux, decodeRune_ascii b t hb', Nat.sub_self, List.replicate_zero, List.nil_append,
          List.drop_succ_cons, List.drop_zero, List.getElem?_cons_succ]
        exact hi2
      · rcases decodeRune_nonascii b t (by omega) with hd | ⟨r, w, hd, hw, ht⟩
        · refine ⟨0, by simp, .inr ?_⟩
          simp only [upperAux, hd]
          rfl
        · refine ⟨1, ?_, .inl ?_⟩
          · cases t with
            | nil => exact absurd rfl ht
            | cons _ _ => simp
          · simp only [upperAux, hd]
            obtain ⟨k, rfl⟩ : ∃ k, w = k + 2 := ⟨w - 2, by omega⟩
            simp [List.replicate_succ]

theorem upper_bad (v : Bytes) (h : ∃ b ∈ v, 128 ≤ b) : ∃ x ∈ upper v, x = 0 ∨ x = 253 := by
  have h' : ∃ b ∈ v, 128 ≤ b.toNat := by
    obtain ⟨b, hb, hb2⟩ := h
    exact ⟨b, hb, by simpa [UInt8.le_iff_toNat_le] using hb2⟩
  obtain ⟨i, hi, hi2⟩ := upperAux_bad v (v.length + 1) (by omega) h'
  have hget : (upper v)[i]? = (upperAux v (v.length + 1))[i]? := by
    unfold upper
    rw [List.getElem?_take]; simp [hi]
  rcases hi2 with h0 | h0
  · exact ⟨0, List.mem_of_getElem? (hget.trans h0), .inl rfl⟩
  · exact ⟨253, List.mem_of_getElem? (hget.trans h0), .inr rfl⟩

theorem optionTable_ascii : ∀ w ∈ optionTable, ∀ c ∈ w.1.toList, c.toNat ≤ 127 := by decide

theorem optionTable_bytes : ∀ w ∈ optionTable, ∀ x ∈ w.1.toList.map (fun c => c.val.toUInt8), 65 ≤ x ∧ x ≤ 90 := by
  decide

/-- every option word consists of the bytes 'A'..'Z' only -/
theorem optionTable_upper_letters (w : String × Bool) (hw : w ∈ optionTable) :
    ∀ x ∈ Bytes.ofString w.1, 65 ≤ x ∧ x ≤ 90 := by
  rw [ofString_ascii _ (optionTable_ascii w hw)]
  exact optionTable_bytes w hw

theorem upper_nonascii_ne_word (v : Bytes) (h : ∃ b ∈ v, 128 ≤ b) (w : String × Bool) (hw : w ∈ optionTable) :
    upper v ≠ Bytes.ofString w.1 := by
  intro heq
  obtain ⟨x, hx, hx2⟩ := upper_bad v h
  rw [heq] at hx
  have := optionTable_upper_letters w hw x hx
  rcases hx2 with rfl | rfl
  · exact absurd this.1 (by decide)
  · exact absurd this.2 (by decide)

end NodisVerif.Proofs.C15
