import NodisVerif.Proofs.C15Parse
import NodisVerif.Proofs.C17Reader
/-
  C17: frame headers announcing an impossible size.  `$<n>` with n negative or beyond 512 MiB (or not
  an int64 at all) is rejected right after the header line: `readByteN` is never reached, nothing is
  allocated or used as an index.  `*<n>` with n ≤ 0 is an empty command, with a non-number an error.
-/
namespace NodisVerif.Proofs.C17
open Resp RespReader Spec.RespEnc
open NodisVerif.Proofs.C15

theorem isDigit_ne_lf {x : UInt8} (h : isDigit x = true) : x ≠ 10 := by
  intro e; subst e; simp [isDigit] at h

/-- a text `ParseInt` accepts contains no LF (only an optional sign and digits) -/
theorem parseInt64_no_lf {s : Bytes} {v : Int} (h : parseInt64 s = some v) : ∀ x ∈ s, x ≠ 10 := by
  cases s with
  | nil => intro x hx; cases hx
  | cons c r =>
    have key : ∀ (ds : Bytes) (neg : Bool),
        (if ds.isEmpty then none else if !ds.all isDigit then none else
          let n := digitsToNat ds 0
          let w : Int := if neg then -(n : Int) else (n : Int)
          if inInt64 w then some w else none) = some v → ∀ x ∈ ds, x ≠ 10 := by
      intro ds neg hk x hx
      split at hk
      · cases hk
      · split at hk
        · cases hk
        · rename_i hall
          have : ds.all isDigit = true := by simpa using hall
          exact isDigit_ne_lf (List.all_eq_true.mp this x hx)
    by_cases h43 : c = 43
    · subst h43
      have := key r false (by simpa [parseInt64] using h)
      intro x hx
      rcases List.mem_cons.mp hx with rfl | hx
      · decide
      · exact this x hx
    · by_cases h45 : c = 45
      · subst h45
        have := key r true (by simpa [parseInt64] using h)
        intro x hx
        rcases List.mem_cons.mp hx with rfl | hx
        · decide
        · exact this x hx
      · refine key (c :: r) false ?_
        unfold parseInt64 at h
        split at h
        rename_i x neg ds heq
        have : neg = false ∧ ds = c :: r := by
          split at heq
          · rename_i h'; simp at h'; exact absurd h'.1 h43
          · rename_i h'; simp at h'; exact absurd h'.1 h45
          · simp at heq; exact ⟨heq.1, heq.2.symm⟩
        obtain ⟨rfl, rfl⟩ := this
        exact h

/-- `strconv.FormatInt` of a negative int64 is read back by `ParseInt` -/
theorem parseInt64_formatInt_neg (n : Nat) (hn : 0 < n) (h : -(n : Int) ≥ int64Min) :
    parseInt64 (formatInt (-(n : Int))) = some (-(n : Int)) := by
  have hf : formatInt (-(n : Int)) = 45 :: natDigits n := by
    have : (-(n : Int)) < 0 := by omega
    unfold formatInt
    rw [if_pos this]
    simp
  rw [hf]
  have hall : (natDigits n).all isDigit = true := List.all_eq_true.mpr (isDigit_natDigits n)
  have hne : (natDigits n).isEmpty = false := by
    cases hd : natDigits n with
    | nil => exact absurd hd (natDigits_ne_nil n)
    | cons _ _ => rfl
  have hin : inInt64 (-(n : Int)) = true := by
    simp [inInt64, int64Min, int64Max] at h ⊢; omega
  simp [parseInt64, hall, hne, digitsToNat_natDigits, hin]

theorem parseInt64_formatInt (n : Int) (h : inInt64 n = true) : parseInt64 (formatInt n) = some n := by
  have h' : int64Min ≤ n ∧ n ≤ int64Max := by simpa [inInt64] using h
  by_cases hneg : n < 0
  · obtain ⟨k, rfl⟩ : ∃ k : Nat, n = -(k : Int) := ⟨n.natAbs, by omega⟩
    exact parseInt64_formatInt_neg k (by omega) h'.1
  · obtain ⟨k, rfl⟩ : ∃ k : Nat, n = (k : Int) := ⟨n.toNat, by omega⟩
    exact parseInt64_formatInt_nat k h'.2

/-- `ParseInt` refuses what does not fit an int64 -/
theorem parseInt64_formatInt_out (n : Int) (h : inInt64 n = false) : parseInt64 (formatInt n) = none := by
  by_cases hneg : n < 0
  · obtain ⟨k, rfl⟩ : ∃ k : Nat, n = -(k : Int) := ⟨n.natAbs, by omega⟩
    have hf : formatInt (-(k : Int)) = 45 :: natDigits k := by
      unfold formatInt
      rw [if_pos hneg]
      simp
    have hall : (natDigits k).all isDigit = true := List.all_eq_true.mpr (isDigit_natDigits k)
    simp [hf, parseInt64, hall, digitsToNat_natDigits, h]
  · obtain ⟨k, rfl⟩ : ∃ k : Nat, n = (k : Int) := ⟨n.toNat, by omega⟩
    have hf : formatInt (k : Int) = natDigits k := by simp [formatInt]
    rw [hf, parseInt64_digits _ (natDigits_ne_nil k) (isDigit_natDigits k), digitsToNat_natDigits]
    simp [h]

theorem formatInt_no_lf (n : Int) : ∀ x ∈ formatInt n, x ≠ 10 := by
  intro x hx
  unfold formatInt at hx
  split at hx
  · rcases List.mem_cons.mp hx with rfl | hx
    · decide
    · exact natDigits_ne_lf _ x hx
  · exact natDigits_ne_lf _ x hx

/-- the bulk header line `$ds CR LF`: what `readBulk` does with every possible text `ds`.
    In the two rejecting cases the returned state has consumed exactly the header line. -/
theorem readBulk_header (ds t : Bytes) (st : RState) (hd : ∀ x ∈ ds, x ≠ 10) (hw : st.win = [])
    (hf : srcFlat st.src = 36 :: (ds ++ 13 :: 10 :: t)) :
    ∃ st', srcFlat st'.src = t ∧ st'.win = [] ∧
      (parseInt64 ds = none → readBulk st = .err .badInteger st') ∧
      (∀ n, parseInt64 ds = some n → (n < 0 ∨ n > maxBulk) → readBulk st = .err .tooLarge st') := by
  obtain ⟨s1, hs1, e1⟩ := readByte_cons hf
  obtain ⟨st2, hs2, hw2, e2⟩ := readInteger_line ds t (malloc ⟨s1, st.before, st.win ++ [36]⟩) hd
    (by simp [malloc]) (by simpa [malloc] using hs1)
  refine ⟨st2, hs2, hw2, ?_, ?_⟩
  · intro hp
    rw [hp] at e2
    unfold readBulk
    simp only [e1, hw, List.nil_append, List.head?_cons, ne_eq, not_true_eq_false, if_false]
    rw [hw] at e2
    simp only [List.nil_append] at e2
    simp only [e2]
  · intro n hp hn
    rw [hp] at e2
    unfold readBulk
    simp only [e1, hw, List.nil_append, List.head?_cons, ne_eq, not_true_eq_false, if_false]
    rw [hw] at e2
    simp only [List.nil_append] at e2
    simp only [e2]
    rw [if_pos hn]

/-- the array header line `*ds CR LF` -/
theorem readCommand_header (ds t : Bytes) (src : Source) (hd : ∀ x ∈ ds, x ≠ 10)
    (hf : srcFlat src = 42 :: (ds ++ 13 :: 10 :: t)) :
    ∃ st', srcFlat st'.src = t ∧ st'.win = [] ∧
      (parseInt64 ds = none → readCommand src = .err .expectedArrayLength st') ∧
      (∀ n, parseInt64 ds = some n → n ≤ 0 → readCommand src = .ok { name := [], args := [] } st') := by
  obtain ⟨s1, hs1, e1⟩ := readByte_cons (st := { src := src }) hf
  obtain ⟨st2, hs2, hw2, e2⟩ := readInteger_line ds t (malloc ⟨s1, none, [] ++ [42]⟩) hd
    (by simp [malloc]) (by simpa [malloc] using hs1)
  refine ⟨st2, hs2, hw2, ?_, ?_⟩
  · intro hp
    rw [hp] at e2
    unfold readCommand
    simp only [e1, List.nil_append, List.head?_cons, ne_eq, not_true_eq_false, if_false]
    simp only [List.nil_append] at e2
    simp only [e2]
  · intro n hp hn
    rw [hp] at e2
    unfold readCommand
    simp only [e1, List.nil_append, List.head?_cons, ne_eq, not_true_eq_false, if_false]
    simp only [List.nil_append] at e2
    simp only [e2]
    have : n.toNat = 0 := by omega
    rw [this]
    simp [readBulks]

/-- the header text announces a size the protocol forbids (or no int64 at all) -/
def BadSize (ds : Bytes) : Prop :=
  parseInt64 ds = none ∨ ∃ n, parseInt64 ds = some n ∧ (n < 0 ∨ n > maxBulk)

theorem readBulk_bad_header (ds t : Bytes) (st : RState) (hd : ∀ x ∈ ds, x ≠ 10) (hw : st.win = [])
    (hbad : BadSize ds) (hf : srcFlat st.src = 36 :: (ds ++ 13 :: 10 :: t)) :
    ∃ e st', readBulk st = .err e st' ∧ (e = .badInteger ∨ e = .tooLarge) ∧ srcFlat st'.src = t ∧ st'.win = [] := by
  obtain ⟨st', h1, h2, h3, h4⟩ := readBulk_header ds t st hd hw hf
  rcases hbad with hp | ⟨n, hp, hn⟩
  · exact ⟨_, st', h3 hp, .inl rfl, h1, h2⟩
  · exact ⟨_, st', h4 n hp hn, .inr rfl, h1, h2⟩

/-- the bulk loop: well-formed bulks, then a header with an impossible size, at any position -/
theorem readBulks_bad_header : ∀ (pre : List Bytes) (ds t : Bytes) (k : Nat) (st : RState) (acc : List Bytes),
    (∀ x ∈ pre, (x.length : Int) ≤ maxBulk) → (∀ x ∈ ds, x ≠ 10) → BadSize ds → st.win = [] →
    srcFlat st.src = pre.flatMap encodeBulk ++ 36 :: (ds ++ 13 :: 10 :: t) →
    ∃ st', readBulks st (pre.length + (k + 1)) acc = .err .expectedArray st' ∧ srcFlat st'.src = t ∧ st'.win = [] := by
  intro pre
  induction pre with
  | nil =>
    intro ds t k st acc _ hd hbad hw hf
    obtain ⟨e, st', h, _, h1, h2⟩ := readBulk_bad_header ds t st hd hw hbad (by simpa using hf)
    refine ⟨st', ?_, h1, h2⟩
    rw [show ([] : List Bytes).length + (k + 1) = k + 1 by simp, readBulks]
    simp only [h]
  | cons x pre ih =>
    intro ds t k st acc hpre hd hbad hw hf
    simp only [List.flatMap_cons, List.append_assoc] at hf
    obtain ⟨st1, e1, hs1, hw1⟩ := readBulk_ok x _ (hpre x (by simp)) st hw hf
    obtain ⟨st2, e2, h1, h2⟩ := ih ds t k st1 (x :: acc) (fun y hy => hpre y (by simp [hy])) hd hbad hw1 hs1
    refine ⟨st2, ?_, h1, h2⟩
    have : (x :: pre).length + (k + 1) = (pre.length + (k + 1)) + 1 := by simp; omega
    rw [this, readBulks]
    simp only [e1]
    exact e2

/-- a whole request: `*cnt`, some well-formed bulks, then a bulk header with an impossible size:
    `ReadCommand` fails with a protocol error having consumed exactly up to that header line -/
theorem readCommand_bad_bulk (cnt : Bytes) (c : Int) (pre : List Bytes) (ds t : Bytes) (src : Source)
    (hcnt : parseInt64 cnt = some c) (hc : pre.length < c.toNat)
    (hpre : ∀ x ∈ pre, (x.length : Int) ≤ maxBulk) (hd : ∀ x ∈ ds, x ≠ 10) (hbad : BadSize ds)
    (hf : srcFlat src = 42 :: (cnt ++ 13 :: 10 :: (pre.flatMap encodeBulk ++ 36 :: (ds ++ 13 :: 10 :: t)))) :
    ∃ st', readCommand src = .err .expectedArray st' ∧ srcFlat st'.src = t ∧ st'.win = [] := by
  obtain ⟨s1, hs1, e1⟩ := readByte_cons (st := { src := src }) hf
  obtain ⟨st2, hs2, hw2, e2⟩ := readInteger_line cnt _ (malloc ⟨s1, none, [] ++ [42]⟩) (parseInt64_no_lf hcnt)
    (by simp [malloc]) (by simpa [malloc] using hs1)
  rw [hcnt] at e2
  obtain ⟨k, hk⟩ : ∃ k, c.toNat = pre.length + (k + 1) := ⟨c.toNat - pre.length - 1, by omega⟩
  obtain ⟨st3, e3, h1, h2⟩ := readBulks_bad_header pre ds t k st2 [] hpre hd hbad hw2 hs2
  refine ⟨st3, ?_, h1, h2⟩
  unfold readCommand
  simp only [e1, List.nil_append, List.head?_cons, ne_eq, not_true_eq_false, if_false]
  simp only [List.nil_append] at e2
  simp only [e2]
  rw [hk, e3]

end NodisVerif.Proofs.C17
