import NodisVerif.Proofs.ProtoInv
/-
  Locking protocol: the waits-for relation has no cycle, somebody can always move, a commit releases
  everything (C06).
-/
namespace NodisVerif.Proofs.Proto
open NodisVerif.Proto

/-- the key a blocked transaction is waiting for -/
def wants (s : PState) (t : Tx) : Option Key := (s.tx t).bind fun st => st.waiting.map (·.1)

theorem wants_eq_some {s : PState} {t : Tx} {k : Key} : wants s t = some k ↔
    ∃ st r m, s.tx t = some st ∧ st.waiting = some (k, r, m) := by
  unfold wants
  cases h : s.tx t with
  | none => simp
  | some st =>
    cases hw : st.waiting with
    | none => simp [hw]
    | some p =>
      obtain ⟨k', r, m⟩ := p
      simp [hw]

/-- a waits-for edge, spelled out -/
theorem waitsFor_iff {s : PState} (hi : Inv s) {t u : Tx} : waitsFor s t u = true ↔
    ∃ st k r m su g, s.tx t = some st ∧ st.waiting = some (k, r, m) ∧ s.tx u = some su ∧ g ∈ su.holds ∧
      g.rid = r ∧ u ≠ t ∧ (m = .w ∨ g.mode = .w) := by
  unfold waitsFor
  cases htx : s.tx t with
  | none => simp
  | some st =>
    cases hw : st.waiting with
    | none => simp [hw]
    | some p =>
      obtain ⟨k, r, m⟩ := p
      simp only [hw]
      rw [List.any_eq_true]
      constructor
      · rintro ⟨⟨v, g⟩, hm, hc⟩
        obtain ⟨h1, h2⟩ := mem_heldBy.1 hm
        obtain ⟨su, h3, h4⟩ := holds_of_mem_allHolds hi.txNodup h1
        simp only [Bool.and_eq_true, beq_iff_eq, bne_iff_ne, ne_eq, Bool.or_eq_true] at hc
        obtain ⟨⟨rfl, hne⟩, hmode⟩ := hc
        exact ⟨st, k, r, m, su, g, rfl, hw, h3, h4, h2, hne, hmode⟩
      · rintro ⟨st', k', r', m', su, g, e1, e2, h3, h4, h5, hne, hmode⟩
        cases e1
        rw [hw] at e2
        simp only [Option.some.injEq, Prod.mk.injEq] at e2
        obtain ⟨rfl, rfl, rfl⟩ := e2
        refine ⟨(u, g), mem_heldBy.2 ⟨mem_allHolds_of_holds ⟨su, h3, h4⟩, h5⟩, ?_⟩
        simp only [Bool.and_eq_true, beq_iff_eq, bne_iff_ne, ne_eq, Bool.or_eq_true, true_and]
        exact ⟨hne, hmode⟩

/-- C06.1: a blocked transaction only holds keys below the one it waits for -/
theorem waits_increase {s : PState} (hi : Inv s) {t : Tx} {st : TxSt} {k : Key} {r : Rec} {m : Mode}
    (htx : s.tx t = some st) (hw : st.waiting = some (k, r, m)) : ∀ h ∈ st.holds, h.key < k :=
  mayWait_iff.1 (hi.waitOk t st k r m htx hw).1

/-- whoever holds the record a transaction waits for holds it under the awaited key -/
theorem holder_key {s : PState} (hi : Inv s) {t u : Tx} {st su : TxSt} {k : Key} {r : Rec} {m : Mode} {g : Hold}
    (htx : s.tx t = some st) (hw : st.waiting = some (k, r, m)) (hu : s.tx u = some su) (hg : g ∈ su.holds)
    (e : g.rid = r) : g.key = k := by
  have a := (hi.waitOk t st k r m htx hw).2.2.1
  have b := hi.holdName u su g hu hg
  rw [e, a] at b
  exact (Option.some.inj b).symm

/-- along a waits-for edge into a blocked transaction the awaited key grows -/
theorem edge_lt {s : PState} (hi : Inv s) {t u : Tx} (h : waitsFor s t u = true) {k' : Key}
    (hu : wants s u = some k') : ∃ k, wants s t = some k ∧ k < k' := by
  obtain ⟨st, k, r, m, su, g, htx, hw, hsu, hg, e, _, _⟩ := (waitsFor_iff hi).1 h
  obtain ⟨su', r', m', hsu', hw'⟩ := wants_eq_some.1 hu
  rw [hsu] at hsu'; cases hsu'
  refine ⟨k, wants_eq_some.2 ⟨st, r, m, htx, hw⟩, ?_⟩
  have := waits_increase hi hsu hw' g hg
  rwa [holder_key hi htx hw hsu hg e] at this

theorem waitsFor_wants {s : PState} (hi : Inv s) {t u : Tx} (h : waitsFor s t u = true) :
    ∃ k, wants s t = some k := by
  obtain ⟨st, k, r, m, _, _, htx, hw, _⟩ := (waitsFor_iff hi).1 h
  exact ⟨k, wants_eq_some.2 ⟨st, r, m, htx, hw⟩⟩

/-- the waits-for relation as a `Prop` -/
def WaitsFor (s : PState) (t u : Tx) : Prop := waitsFor s t u = true

theorem chain_lt {s : PState} (hi : Inv s) {a z : Tx} (h : Relation.TransGen (WaitsFor s) a z) :
    ∀ c, WaitsFor s z c → ∃ ka kz, wants s a = some ka ∧ wants s z = some kz ∧ ka < kz := by
  induction h with
  | single h1 =>
    intro c hc
    obtain ⟨kz, hz⟩ := waitsFor_wants hi hc
    obtain ⟨ka, ha, hlt⟩ := edge_lt hi h1 hz
    exact ⟨ka, kz, ha, hz, hlt⟩
  | tail _ h2 ih =>
    intro c hc
    obtain ⟨kz, hz⟩ := waitsFor_wants hi hc
    obtain ⟨kb, hb, hlt⟩ := edge_lt hi h2 hz
    obtain ⟨ka, kb', ha, hb', hlt'⟩ := ih _ h2
    rw [hb] at hb'; cases hb'
    exact ⟨ka, kz, ha, hz, String.lt_trans hlt' hlt⟩

theorem transGen_first {α : Type} {R : α → α → Prop} {a b : α} (h : Relation.TransGen R a b) : ∃ c, R a c := by
  induction h with
  | single h1 => exact ⟨_, h1⟩
  | tail _ _ ih => exact ih

/-- C06.3: no cycle of transactions waiting for each other -/
theorem no_cycle {s : PState} (hi : Inv s) (t : Tx) : ¬ Relation.TransGen (WaitsFor s) t t := by
  intro h
  obtain ⟨c, hc⟩ := transGen_first h
  obtain ⟨ka, kz, ha, hz, hlt⟩ := chain_lt hi h c hc
  rw [ha] at hz; cases hz
  exact String.lt_irrefl _ hlt

/-- a closed walk t → l₀ → l₁ → … → z in the waits-for graph -/
def Walk (s : PState) : Tx → List Tx → Tx → Prop
  | a, [], z => WaitsFor s a z
  | a, b :: l, z => WaitsFor s a b ∧ Walk s b l z

theorem Walk.transGen {s : PState} {a z : Tx} {l : List Tx} (h : Walk s a l z) :
    Relation.TransGen (WaitsFor s) a z := by
  induction l generalizing a with
  | nil => exact .single h
  | cons b l ih => exact Relation.TransGen.trans (.single h.1) (ih h.2)

theorem no_closed_walk {s : PState} (hi : Inv s) (t : Tx) (l : List Tx) : ¬ Walk s t l t :=
  fun h => no_cycle hi t h.transGen

/-! ## progress -/

theorem exists_maximal {α : Type} (key : α → String) (l : List α) (hne : l ≠ []) :
    ∃ a ∈ l, ∀ b ∈ l, ¬ key a < key b := by
  induction l with
  | nil => exact absurd rfl hne
  | cons x l ih =>
    cases l with
    | nil => exact ⟨x, List.mem_cons_self, by intro b hb; simp at hb; subst hb; exact String.lt_irrefl _⟩
    | cons y l =>
      obtain ⟨a, ha, hmax⟩ := ih (by simp)
      by_cases hx : key a < key x
      · refine ⟨x, List.mem_cons_self, ?_⟩
        intro b hb
        rcases List.mem_cons.1 hb with rfl | hb
        · exact String.lt_irrefl _
        · intro c; exact hmax b hb (String.lt_trans hx c)
      · refine ⟨a, List.mem_cons_of_mem _ ha, ?_⟩
        intro b hb
        rcases List.mem_cons.1 hb with rfl | hb
        · exact hx
        · exact hmax b hb

/-- `t` is blocked: it waits for a record lock that cannot be granted now -/
def Blocked (s : PState) (t : Tx) : Prop :=
  ∃ st k r m, s.tx t = some st ∧ st.waiting = some (k, r, m) ∧ s.free r m = false

/-- C06.4: some active transaction is not blocked -/
theorem someone_not_blocked {s : PState} (hi : Inv s) (hne : s.txs ≠ []) :
    ∃ t st, s.tx t = some st ∧ ¬ Blocked s t := by
  apply Classical.byContradiction
  intro hnone
  have hall : ∀ t st, s.tx t = some st → Blocked s t := by
    intro t st htx
    apply Classical.byContradiction
    intro c
    exact hnone ⟨t, st, htx, c⟩
  let key : Tx × TxSt → String := fun p => (p.2.waiting.map (·.1)).getD ""
  obtain ⟨⟨t, st⟩, hm, hmax⟩ := exists_maximal key s.txs hne
  have htx : s.tx t = some st := assoc_of_mem hi.txNodup hm
  obtain ⟨st', k, r, m, htx', hw, hf⟩ := hall t st htx
  rw [htx] at htx'; cases htx'
  obtain ⟨u, g, ⟨su, hu, hg⟩, e, _⟩ := not_free_holder hi.txNodup hf
  have hgk : g.key = k := holder_key hi htx hw hu hg e
  obtain ⟨su', k', r', m', hu', hw', _⟩ := hall u su hu
  rw [hu] at hu'; cases hu'
  have hlt : k < k' := by
    have := waits_increase hi hu hw' g hg
    rwa [hgk] at this
  apply hmax (u, su) (mem_of_assoc hu)
  simp only [key, hw, hw', Option.map_some, Option.getD_some]
  exact hlt

end NodisVerif.Proofs.Proto
