import NodisVerif.Proofs.GeoInterleave
/-
  The size of a geohash: interleaving two k-bit values gives a 2k-bit value; `Encode` with step 26
  therefore yields a 52-bit hash whenever both scaled offsets are below 2^26.  Witnesses of what happens
  ON the limits (offset = 2^26 exactly) are in Props/C04.lean.
-/
namespace NodisVerif.Proofs.GeoBits
open NodisVerif NodisVerif.Geohash

theorem bit_false_of_lt (x : UInt64) (k j : Nat) (hx : x.toNat < 2 ^ k) (hj : k ≤ j) : x.toBitVec.getLsbD j = false := by
  show x.toNat.testBit j = false
  apply Nat.testBit_lt_two_pow
  exact Nat.lt_of_lt_of_le hx (Nat.pow_le_pow_right (by omega) hj)

/-- interleaving two values below 2^k (k ≤ 32) gives a value below 2^(2k) -/
theorem interleave_lt (x y : UInt64) (k : Nat) (hk : k ≤ 32) (hx : x.toNat < 2 ^ k) (hy : y.toNat < 2 ^ k) :
    (interleave64 x y).toNat < 2 ^ (2 * k) := by
  have hx32 : x.toNat < 2 ^ 32 := Nat.lt_of_lt_of_le hx (Nat.pow_le_pow_right (by omega) hk)
  have hy32 : y.toNat < 2 ^ 32 := Nat.lt_of_lt_of_le hy (Nat.pow_le_pow_right (by omega) hk)
  apply Nat.lt_pow_two_of_testBit
  intro i hi
  by_cases h64 : i < 64
  · show (interleave64 x y).toBitVec.getLsbD i = false
    rw [interleave_toBitVec x y hx32 hy32]
    rcases Nat.mod_two_eq_zero_or_one i with h | h
    · have e : i = 2 * (i / 2) := by omega
      rw [e, ilBV_even _ _ (i / 2) (by omega)]
      exact bit_false_of_lt x k (i / 2) hx (by omega)
    · have e : i = 2 * (i / 2) + 1 := by omega
      rw [e, ilBV_odd _ _ (i / 2) (by omega)]
      exact bit_false_of_lt y k (i / 2) hy (by omega)
  · apply Nat.testBit_lt_two_pow
    have : (interleave64 x y).toNat < 2 ^ 64 := (interleave64 x y).toNat_lt
    exact Nat.lt_of_lt_of_le this (Nat.pow_le_pow_right (by omega) (by omega))

/-- `Encode` (any ranges, any step): when it accepts the position, the hash is the interleaving of the
    two truncated scaled offsets -/
theorem encode_eq (lonR latR : Range) (lon lat : F64) (step : Nat) (h : UInt64)
    (he : encode lonR latR lon lat step = some h) :
    h = interleave64
      (UInt64.ofNat (F64.toUInt32 (F64.mul (F64.div (F64.sub lat latR.min) (F64.sub latR.max latR.min)) (F64.ofNat (2 ^ step)))))
      (UInt64.ofNat (F64.toUInt32 (F64.mul (F64.div (F64.sub lon lonR.min) (F64.sub lonR.max lonR.min)) (F64.ofNat (2 ^ step))))) := by
  unfold encode at he
  split at he
  · cases he
  · split at he
    · cases he
    · split at he
      · cases he
      · injection he with he; exact he.symm

theorem toUInt32_lt (a : F64) : F64.toUInt32 a < 2 ^ 32 := by
  unfold F64.toUInt32
  exact Nat.mod_lt _ (by decide)

end NodisVerif.Proofs.GeoBits
