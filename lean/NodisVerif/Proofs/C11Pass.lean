import NodisVerif.Proofs.C11Gc
/-
  C11 / C12: `syncShared`, whole `gc` / `flush` / `close` passes.
-/
namespace NodisVerif.Proofs.C11
open NodisVerif.Store NodisVerif.Codec NodisVerif.Spec.Persist
open NodisVerif.Proofs.AListLemmas NodisVerif.Proofs.AListLemmas2 NodisVerif.Proofs.C11AList

/-! ### syncShared -/

def ssEnt (s : MState) (e : DiskEntry) : DiskEntry :=
  match s.index.find? (fun (_, m) => m.oid = e.oid ∧ e.oid ≠ 0 ∧ m.value.isSome) with
  | some (_, m) => { e with val := m.value.getD e.val }
  | none => e

theorem syncShared_eq (s : MState) :
    syncShared s = if s.pebble then s else { s with disk := s.disk.map fun p => (p.1, ssEnt s p.2) } := by
  unfold syncShared
  split
  · rfl
  · congr 1

theorem ssEnt_cases (s : MState) (e : DiskEntry) :
    ssEnt s e = e ∨ ∃ k m v, (k, m) ∈ s.index ∧ m.oid = e.oid ∧ m.value = some v ∧
      ssEnt s e = { e with val := v } := by
  unfold ssEnt
  cases hf : s.index.find? (fun (_, m) => m.oid = e.oid ∧ e.oid ≠ 0 ∧ m.value.isSome) with
  | none => left; rfl
  | some p =>
    obtain ⟨k, m⟩ := p
    right
    have hmem := List.mem_of_find?_eq_some hf
    have hp := List.find?_some hf
    simp only [decide_eq_true_eq] at hp
    obtain ⟨v, hv⟩ := Option.isSome_iff_exists.mp hp.2.2
    exact ⟨k, m, v, hmem, hp.1, hv, by simp [hv]⟩

@[simp] theorem ssEnt_name (s : MState) (e : DiskEntry) : (ssEnt s e).name = e.name := by
  rcases ssEnt_cases s e with h | ⟨_, _, _, _, _, _, h⟩ <;> rw [h]
@[simp] theorem ssEnt_exp (s : MState) (e : DiskEntry) : (ssEnt s e).exp = e.exp := by
  rcases ssEnt_cases s e with h | ⟨_, _, _, _, _, _, h⟩ <;> rw [h]
@[simp] theorem ssEnt_oid (s : MState) (e : DiskEntry) : (ssEnt s e).oid = e.oid := by
  rcases ssEnt_cases s e with h | ⟨_, _, _, _, _, _, h⟩ <;> rw [h]

theorem syncShared_peb {s : MState} (hp : s.pebble = true) : syncShared s = s := by
  rw [syncShared_eq]; simp [hp]

theorem syncShared_fields (s : MState) :
    (syncShared s).index = s.index ∧ (syncShared s).pebble = s.pebble ∧
    (syncShared s).nextId = s.nextId ∧ (syncShared s).failSet = s.failSet := by
  rw [syncShared_eq]; split <;> exact ⟨rfl, rfl, rfl, rfl⟩

theorem get?_syncShared_disk {s : MState} (hp : s.pebble = false) (dk : Bytes) :
    AList.get? (syncShared s).disk dk = (AList.get? s.disk dk).map (ssEnt s) := by
  rw [syncShared_eq]
  simp only [hp, Bool.false_eq_true, if_false]
  exact get?_map (fun _ e => ssEnt s e) s.disk dk

theorem syncShared_back {s : MState} (hp : s.pebble = false) {dk : Bytes} {e' : DiskEntry}
    (he' : AList.get? (syncShared s).disk dk = some e') :
    ∃ e, AList.get? s.disk dk = some e ∧ e' = ssEnt s e := by
  rw [get?_syncShared_disk hp] at he'
  cases he : AList.get? s.disk dk with
  | none => rw [he] at he'; cases he'
  | some e =>
    rw [he] at he'
    simp only [Option.map_some, Option.some.injEq] at he'
    exact ⟨e, rfl, he'.symm⟩

/-- an entry follows the value of the hot record it shares its object with: the record of its name -/
theorem ssEnt_owner {s : MState} {x : Option Bytes} {t : Int} (h : StoreInvX s x t) (hp : s.pebble = false)
    {dk : Bytes} {e : DiskEntry} (he : AList.get? s.disk dk = some e) :
    ssEnt s e = e ∨ ∃ m0 v0, AList.get? s.index e.name = some m0 ∧ m0.value = some v0 ∧
      m0.oid = e.oid ∧ ssEnt s e = { e with val := v0 } := by
  rcases ssEnt_cases s e with h1 | ⟨k, m, v, hmem, ho, hv, h1⟩
  · left; exact h1
  · right
    have hg := get?_of_mem _ h.idxSorted k m hmem
    have hn := (h.oids hp).entRec dk e k m he hg ho.symm
    exact ⟨m, v, by rw [hn]; exact hg, hv, ho, h1⟩

theorem inv_syncShared {s : MState} {x : Option Bytes} {t : Int} (h : StoreInvX s x t) :
    StoreInvX (syncShared s) x t := by
  cases hp : s.pebble with
  | true => rw [syncShared_peb hp]; exact h
  | false =>
    obtain ⟨f1, f2, f3, _⟩ := syncShared_fields s
    have o := h.oids hp
    refine ⟨by rw [f1]; exact h.idxSorted, ?_, ?_, ?_, ?_, by rw [f3]; exact h.idPos⟩
    · rw [syncShared_eq]; simp only [hp, Bool.false_eq_true, if_false]
      exact sorted_map (fun _ e => ssEnt s e) _ h.diskSorted
    · intro k m hm
      rw [f1] at hm
      have r := h.recs k m hm
      rw [f2]
      refine ⟨r.ok, r.expR, r.good, ?_, r.cold, ?_⟩
      · intro e he
        obtain ⟨ent, a, b, c⟩ := r.stored e he
        exact ⟨ssEnt s ent, by rw [get?_syncShared_disk hp, a]; rfl, by simp [b], by simp [c]⟩
      · intro a b c v hv
        obtain ⟨ent, h1, h2, h3⟩ := r.clean a b c v hv
        refine ⟨ssEnt s ent, h1, by rw [get?_syncShared_disk hp, h2]; rfl, ?_⟩
        refine ⟨(fun c => by rw [hp] at c; cases c), fun _ => ?_⟩
        have hm3 := h3.mem hp
        refine ⟨by simp [hm3.1], ?_⟩
        rcases ssEnt_owner h hp h2 with h4 | ⟨m0, v0, g1, g2, g3, g4⟩
        · rw [h4]; exact hm3.2
        · have hn := (h.ent_at r.expR h2).1
          rw [hn, hm] at g1
          cases g1
          rw [g4]
          rw [hv] at g2; cases g2; rfl
    · intro dk e' he'
      obtain ⟨e, he, rfl⟩ := syncShared_back hp he'
      have q := h.ents dk e he
      rw [f1]
      refine ⟨by simpa using q.key, by simpa using q.expR, ?_, by simpa using q.owner⟩
      rcases ssEnt_owner h hp he with h4 | ⟨m0, v0, g1, g2, g3, g4⟩
      · rw [h4]; exact q.good
      · rw [g4]; exact (h.recs _ m0 g1).good v0 g2
    · intro _
      refine ⟨?_, ?_, ?_, ?_, ?_⟩
      · intro k m hm; rw [f1] at hm; rw [f3]; exact o.recR k m hm
      · intro k1 m1 k2 m2 h1 h2; rw [f1] at h1 h2; exact o.recInj k1 m1 k2 m2 h1 h2
      · intro dk e' he'
        obtain ⟨e, he, rfl⟩ := syncShared_back hp he'
        rw [f3, ssEnt_oid]; exact o.entR dk e he
      · intro dk e' k m he' hm
        obtain ⟨e, he, rfl⟩ := syncShared_back hp he'
        rw [f1] at hm
        rw [ssEnt_oid, ssEnt_name]; exact o.entRec dk e k m he hm
      · intro dk1 e1' dk2 e2' h1 h2
        obtain ⟨e1, he1, rfl⟩ := syncShared_back hp h1
        obtain ⟨e2, he2, rfl⟩ := syncShared_back hp h2
        simp only [ssEnt_oid, ssEnt_name]; exact o.entInj dk1 e1 dk2 e2 he1 he2

theorem lookup_syncShared {s : MState} {x : Option Bytes} {t t' : Int} (h : StoreInvX s x t) (ht : t ≤ t')
    (k : Bytes) : lookup (syncShared s) t' k = lookup s t' k := by
  cases hp : s.pebble with
  | true => rw [syncShared_peb hp]
  | false =>
    obtain ⟨f1, f2, _, _⟩ := syncShared_fields s
    simp only [lookup, getMeta, f1]
    cases hm : AList.get? s.index k with
    | none => rfl
    | some m =>
      simp only [Option.bind_some]
      have r := h.recs k m hm
      unfold view
      by_cases hc : (m.isOk && !m.expired t') = true
      · simp only [hc, if_true]
        cases hv : m.value with
        | some v => rfl
        | none =>
          simp only []
          have hal : m.expired t = false := by
            simp only [Bool.and_eq_true, Bool.not_eq_true'] at hc
            exact Meta.alive_anti m ht hc.2
          obtain ⟨ent, h1, h2, _⟩ := r.stored _ (r.cold hal hv)
          have : ssEnt s ent = ent := by
            rcases ssEnt_owner h hp h1 with h4 | ⟨m0, v0, g1, g2, _, _⟩
            · exact h4
            · rw [h2, hm] at g1; cases g1; rw [hv] at g2; cases g2
          simp only [loadValue, diskGet, get?_syncShared_disk hp, h1, Option.map_some, this, f2]
      · simp only [hc]; rfl

theorem flushed_syncShared {s : MState} {x : Option Bytes} {t now : Int} (h : StoreInvX s x t) {k : Bytes}
    (hq : RecFlushed s now k) : RecFlushed (syncShared s) now k := by
  cases hp : s.pebble with
  | true => rw [syncShared_peb hp]; exact hq
  | false =>
    obtain ⟨f1, f2, _, _⟩ := syncShared_fields s
    intro m hm
    rw [f1] at hm
    obtain ⟨q1, q2⟩ := hq m hm
    refine ⟨q1, fun a v hv => ?_⟩
    obtain ⟨ent, h1, h2, h3⟩ := q2 a v hv
    have r := h.recs k m hm
    refine ⟨ssEnt s ent, h1, by rw [get?_syncShared_disk hp, h2]; rfl, ?_⟩
    rw [f2]
    refine ⟨(fun c => by rw [hp] at c; cases c), fun _ => ?_⟩
    have hm3 := h3.mem hp
    refine ⟨by simp [hm3.1], ?_⟩
    rcases ssEnt_owner h hp h2 with h4 | ⟨m0, v0, g1, g2, g3, g4⟩
    · rw [h4]; exact hm3.2
    · have hn := (h.ent_at r.expR h2).1
      rw [hn, hm] at g1
      cases g1
      rw [g4]
      rw [hv] at g2; cases g2; rfl

/-! ### whole passes -/

theorem index_pass_facts {s : MState} (hs : AList.Sorted s.index) :
    (s.index.map (·.1)).Nodup ∧ (∀ p ∈ s.index, AList.get? s.index p.1 = some p.2) ∧
    (∀ k, k ∉ s.index.map (·.1) → AList.get? s.index k = none) := by
  refine ⟨keys_nodup _ hs, fun p hp => get?_of_mem _ hs p.1 p.2 hp, ?_⟩
  intro k hk
  cases hg : AList.get? s.index k with
  | none => rfl
  | some m => exact absurd (get?_mem_keys _ _ _ hg) hk

/-- no hot value is the nil string (only matters on Pebble) -/
def NilFree (s : MState) : Prop := ∀ k m, AList.get? s.index k = some m → NilOK s.pebble m

structure PassSpec (s s' : MState) (t now : Int) : Prop where
  inv : StoreInvX s' none t
  peb : s'.pebble = s.pebble
  look : ∀ t', now ≤ t' → ∀ k, lookup s' t' k = lookup s t' k
  fs0 : s.failSet = 0 → s'.failSet = 0

/-- on Pebble no live hot value is the nil string (dead records do not matter) -/
def NilFreeAt (s : MState) (now : Int) : Prop :=
  ∀ k m, AList.get? s.index k = some m → m.expired now = false → NilOK s.pebble m

theorem NilFree.at {s : MState} (h : NilFree s) (now : Int) : NilFreeAt s now := fun k m hm _ => h k m hm

theorem gc_spec_at {s : MState} {t now : Int} (h : StoreInvX s none t) (ht : t ≤ now) (hnil : NilFreeAt s now) :
    PassSpec s (gc s now) t now := by
  rw [gc_eq]
  split
  · exact ⟨h, rfl, fun _ _ _ => rfl, fun a => a⟩
  · obtain ⟨nd, hget, _⟩ := index_pass_facts h.idxSorted
    have key := fold_pass (gcStep now)
      (fun cur => StoreInvX cur none t ∧ cur.pebble = s.pebble ∧
        (∀ t', now ≤ t' → ∀ k, lookup cur t' k = lookup s t' k) ∧ (s.failSet = 0 → cur.failSet = 0))
      (fun _ _ => True) (fun _ m => m.expired now = false → NilOK s.pebble m)
      (by
        intro cur k m ⟨p1, p2, p3, p4⟩ he hm
        have sp := gcStep_spec p1 ht hm (by rw [p2]; exact he)
        exact ⟨⟨sp.inv, by rw [sp.peb, p2], fun t' ht' k' => by rw [sp.look t' ht', p3 t' ht'],
          fun hf => sp.fs0 (p4 hf)⟩, trivial, sp.idx, fun _ _ _ => trivial⟩)
      s.index nd (fun p hp => hnil p.1 p.2 (hget p hp)) s ⟨h, rfl, fun _ _ _ => rfl, fun a => a⟩ hget
    obtain ⟨⟨p1, p2, p3, p4⟩, _⟩ := key
    obtain ⟨_, f2, _, f4⟩ := syncShared_fields (s.index.foldl (gcStep now) s)
    exact ⟨inv_syncShared p1, by rw [f2, p2],
      fun t' ht' k => by rw [lookup_syncShared p1 (Int.le_trans ht ht'), p3 t' ht'],
      fun hf => by rw [f4]; exact p4 hf⟩

theorem gc_spec {s : MState} {t now : Int} (h : StoreInvX s none t) (ht : t ≤ now) (hnil : NilFree s) :
    PassSpec s (gc s now) t now := gc_spec_at h ht (hnil.at now)

theorem flush_spec {s : MState} {t now : Int} (h : StoreInvX s none t) (ht : t ≤ now) :
    PassSpec s (flush s now) now now ∧ (s.failSet = 0 → ∀ k, RecFlushed (flush s now) now k) := by
  rw [flush_eq]
  have h' := h.mono ht
  obtain ⟨nd, hget, hnone⟩ := index_pass_facts h.idxSorted
  have key := fold_pass (flushStep now)
    (fun cur => StoreInvX cur none now ∧ cur.pebble = s.pebble ∧
      (∀ t', now ≤ t' → ∀ k, lookup cur t' k = lookup s t' k) ∧ (s.failSet = 0 → cur.failSet = 0))
    (fun cur k => s.failSet = 0 → RecFlushed cur now k) (fun _ _ => True)
    (by
      intro cur k m ⟨p1, p2, p3, p4⟩ _ hm
      obtain ⟨sp, fl⟩ := flushStep_spec p1 hm
      refine ⟨⟨sp.inv, by rw [sp.peb, p2], fun t' ht' k' => by rw [sp.look t' ht', p3 t' ht'],
        fun hf => sp.fs0 (p4 hf)⟩, fun hf => fl (p4 hf), sp.idx, ?_⟩
      intro k' hk hq hf m' hm'
      rw [sp.idx k' hk] at hm'
      obtain ⟨q1, q2⟩ := hq hf m' hm'
      refine ⟨q1, fun a v hv => ?_⟩
      obtain ⟨ent, e1, e2, e3⟩ := q2 a v hv
      have hn := (p1.ent_at (p1.recs k' m' hm').expR e2).1
      exact ⟨ent, e1, (sp.disk _ ent (by rw [hn]; exact hk)).mpr e2, by rw [sp.peb]; exact e3⟩)
    s.index nd (fun _ _ => trivial) s ⟨h', rfl, fun _ _ _ => rfl, fun a => a⟩ hget
  obtain ⟨⟨p1, p2, p3, p4⟩, q, i, _⟩ := key
  obtain ⟨f1, f2, _, f4⟩ := syncShared_fields (s.index.foldl (flushStep now) s)
  refine ⟨⟨inv_syncShared p1, by rw [f2, p2],
    fun t' ht' k => by rw [lookup_syncShared p1 ht', p3 t' ht'],
    fun hf => by rw [f4]; exact p4 hf⟩, ?_⟩
  intro hf k
  apply flushed_syncShared p1
  by_cases hk : k ∈ s.index.map (·.1)
  · obtain ⟨p, hp, rfl⟩ := List.mem_map.mp hk
    exact q p hp hf
  · intro m hm
    rw [i k hk, hnone k hk] at hm; cases hm

theorem close_eq (s : MState) (now : Int) :
    close s now = { flush { s with closed := true } now with closed := true } := rfl

theorem close_spec {s : MState} {t now : Int} (h : StoreInvX s none t) (ht : t ≤ now) :
    PassSpec s (close s now) now now ∧ (s.failSet = 0 → ∀ k, RecFlushed (close s now) now k) := by
  have h1 : StoreInvX { s with closed := true } none t := h.congr rfl rfl rfl rfl
  obtain ⟨sp, fl⟩ := flush_spec h1 ht
  rw [close_eq]
  refine ⟨⟨sp.inv.congr rfl rfl rfl rfl, sp.peb, ?_, sp.fs0⟩, ?_⟩
  · intro t' ht' k
    have e1 : lookup ({ flush { s with closed := true } now with closed := true }) t' k
        = lookup (flush { s with closed := true } now) t' k := lookup_congr rfl rfl rfl _ _
    rw [e1, sp.look t' ht']
    exact lookup_congr rfl rfl rfl _ _
  · intro hf k m hm
    exact fl hf k m hm

end NodisVerif.Proofs.C11
