import NodisVerif.Model.Api
import NodisVerif.Model.WF
import NodisVerif.Proofs.AListLemmas
import NodisVerif.Proofs.C02
/-
  C02 at the API level: a list that becomes empty ceases to exist; LLEN reports the element count.
-/
namespace NodisVerif.Proofs.C02
open NodisVerif Store
open NodisVerif.Proofs.AListLemmas

/-! ### association-list facts (sorted index) -/

theorem sorted_of_keys {V : Type} : ∀ (a b : AList V), a.map (·.1) = b.map (·.1) →
    AList.Sorted a → AList.Sorted b := by
  intro a
  induction a with
  | nil => intro b h _; cases b with
    | nil => trivial
    | cons _ _ => simp at h
  | cons x a ih =>
    intro b h hs
    cases b with
    | nil => simp at h
    | cons y b =>
      simp only [List.map_cons, List.cons.injEq] at h
      obtain ⟨h1, h2⟩ := h
      cases a with
      | nil =>
        cases b with
        | nil => obtain ⟨_, _⟩ := y; trivial
        | cons _ _ => simp at h2
      | cons x' a =>
        cases b with
        | nil => simp at h2
        | cons y' b =>
          obtain ⟨kx, vx⟩ := x; obtain ⟨ky, vy⟩ := y
          obtain ⟨kx', vx'⟩ := x'; obtain ⟨ky', vy'⟩ := y'
          simp only [AList.Sorted] at hs ⊢
          simp only [List.map_cons, List.cons.injEq] at h2
          simp only at h1
          refine ⟨by rw [← h1, ← h2.1]; exact hs.1, ?_⟩
          exact ih ((ky', vy') :: b) (by simp [h2.1, h2.2]) hs.2

theorem get?_none_of_gt {V : Type} (key : Bytes) : ∀ (m : AList V),
    (∀ p ∈ m, Bytes.lt key p.1 = true) → AList.get? m key = none := by
  intro m
  induction m with
  | nil => intro _; rfl
  | cons a rest ih =>
    intro h
    obtain ⟨k, w⟩ := a
    have hk : Bytes.lt key k = true := h (k, w) (by simp)
    have h1 : ¬ k = key := fun e => lt_ne _ _ hk e.symm
    simp only [AList.get?, h1, if_false]
    exact ih (fun p hp => h p (by simp [hp]))

theorem get?_erase_self {V : Type} (key : Bytes) : ∀ (m : AList V), AList.Sorted m →
    AList.get? (AList.erase m key) key = none := by
  intro m
  induction m with
  | nil => intro _; rfl
  | cons a rest ih =>
    intro hs
    obtain ⟨k, w⟩ := a
    obtain ⟨h1, h2⟩ := sorted_cons (k, w) rest hs
    by_cases hk : k = key
    · subst hk
      simp only [AList.erase, if_true]
      exact get?_none_of_gt k rest (fun p hp => h2 p hp)
    · simp only [AList.erase, hk, if_false, AList.get?]
      exact ih h1

/-- on a sorted list, overwriting a present key keeps the key sequence -/
theorem set_present {V : Type} (key : Bytes) (v : V) : ∀ (m : AList V), AList.Sorted m →
    (AList.get? m key).isSome → (AList.set m key v).map (·.1) = m.map (·.1) ∧
      AList.get? (AList.set m key v) key = some v := by
  intro m
  induction m with
  | nil => intro _ h; simp [AList.get?] at h
  | cons a rest ih =>
    intro hs hg
    obtain ⟨k, w⟩ := a
    obtain ⟨h1, h2⟩ := sorted_cons (k, w) rest hs
    by_cases hk : k = key
    · subst hk; simp [AList.set, AList.get?]
    · simp only [AList.get?, hk, if_false] at hg
      have hlt : Bytes.lt key k = false := by
        cases hl : Bytes.lt key k with
        | false => rfl
        | true =>
          have : AList.get? rest key = none := by
            apply get?_none_of_gt
            intro p hp
            exact lt_trans _ _ _ hl (h2 p hp)
          rw [this] at hg; simp at hg
      obtain ⟨i1, i2⟩ := ih h1 hg
      simp [AList.set, AList.get?, hk, hlt, i1, i2]

theorem get?_map_val {V : Type} (f : Bytes → V → V) (key : Bytes) : ∀ (m : AList V),
    AList.get? (m.map fun p => (p.1, f p.1 p.2)) key = (AList.get? m key).map (f key) := by
  intro m
  induction m with
  | nil => rfl
  | cons a rest ih =>
    obtain ⟨k, w⟩ := a
    by_cases hk : k = key
    · subst hk; simp [AList.get?]
    · simp [AList.get?, hk, ih]

/-! ### store steps on a hot list key -/

/-- key `k` is indexed (in a sorted index, as the btree guarantees), its record is ok, not expired
    at `now`, its value is in memory and is the well-formed list `l` -/
def HotList (s : MState) (k : Bytes) (l : LList) (now : Int) : Prop :=
  AList.Sorted s.index ∧ l.WF ∧
  ∃ m, getMeta s k = some m ∧ m.isOk = true ∧ m.expired now = false ∧ m.value = some (.list l)

theorem lockW_index (s : MState) (k : Bytes) : (lockW s k).index = s.index := by
  unfold lockW; split
  · rfl
  · split <;> rfl

theorem lockR_index (s : MState) (k : Bytes) : (lockR s k).index = s.index := by
  unfold lockR; split <;> rfl

/-- what a step leaves behind: sorted index, the key still indexed with a given hot value -/
def Holds (s : MState) (k : Bytes) (v : Val) : Prop :=
  AList.Sorted s.index ∧ ∃ m, getMeta s k = some m ∧ m.value = some v

theorem putMeta_holds (s : MState) (k : Bytes) (m : Meta) (v : Val)
    (hs : AList.Sorted s.index) (hp : (getMeta s k).isSome) (hv : m.value = some v) :
    Holds (putMeta s k m) k v := by
  obtain ⟨e1, e2⟩ := set_present k m s.index hs hp
  refine ⟨sorted_of_keys _ _ e1.symm hs, m, ?_, hv⟩
  exact e2

theorem writeKey_hot (s : MState) (k : Bytes) (l : LList) (now : Int) (h : HotList s k l now)
    (mk : Option Val := none) :
    ∃ s1, writeKey s now k mk = (s1, true) ∧ Holds s1 k (.list l) := by
  obtain ⟨hs, _, m, hm, hok, hexp, hval⟩ := h
  unfold writeKey
  rw [hm]
  have e1 : Meta.isOk { m with count := m.count + 1 } = true := hok
  have e2 : Meta.expired { m with count := m.count + 1 } now = false := hexp
  have e3 : m.value.isSome = true := by rw [hval]; rfl
  simp only [e1, e2, e3, if_true, Bool.false_eq_true, if_false]
  refine ⟨_, rfl, ?_⟩
  apply putMeta_holds
  · rw [lockW_index]; exact hs
  · show (AList.get? (lockW s k).index k).isSome
    rw [lockW_index]; unfold getMeta at hm; rw [hm]; rfl
  · exact hval

theorem readKey_hot (s : MState) (k : Bytes) (l : LList) (now : Int) (h : HotList s k l now) :
    ∃ s1, readKey s now k = (s1, true) ∧ Holds s1 k (.list l) := by
  obtain ⟨hs, _, m, hm, hok, hexp, hval⟩ := h
  unfold readKey
  rw [hm]
  have e1 : Meta.isOk { m with count := m.count + 1 } = true := hok
  have e2 : Meta.expired { m with count := m.count + 1 } now = false := hexp
  have e3 : m.value.isSome = true := by rw [hval]; rfl
  simp only [e1, e2, e3, if_true, Bool.false_eq_true, if_false]
  refine ⟨_, rfl, ?_⟩
  apply putMeta_holds
  · rw [lockR_index]; exact hs
  · show (AList.get? (lockR s k).index k).isSome
    rw [lockR_index]; unfold getMeta at hm; rw [hm]; rfl
  · exact hval

theorem asList_holds (s : MState) (k : Bytes) (l : LList) (h : Holds s k (.list l)) :
    Api.asList s k = some l := by
  obtain ⟨_, m, hm, hv⟩ := h
  simp [Api.asList, valOf, hm, hv]

theorem setVal_holds (s : MState) (k : Bytes) (v0 v : Val) (h : Holds s k v0) :
    Holds (Api.setVal s k v) k v := by
  obtain ⟨hs, m, hm, _⟩ := h
  unfold Api.setVal
  rw [hm]
  have h2 : Holds (putMeta s k { m with value := some v }) k v :=
    putMeta_holds s k _ v hs (by rw [hm]; rfl) rfl
  simp only
  split
  · exact h2
  · obtain ⟨hs2, m2, hm2, hv2⟩ := h2
    generalize putMeta s k { m with value := some v } = s2 at *
    let f : Bytes → Meta → Meta := fun _ m' =>
      if m'.oid = m.oid ∧ m'.value.isSome then { m' with value := some v } else m'
    have hf : (fun (x : Bytes × Meta) =>
        match x with
        | (k, m') => if m'.oid = m.oid ∧ m'.value.isSome = true then (k, { m' with value := some v }) else (k, m'))
        = fun p => (p.1, f p.1 p.2) := by
      funext x; obtain ⟨a, b⟩ := x; simp only [f]; split <;> rfl
    refine ⟨?_, ?_⟩
    · apply sorted_of_keys s2.index _ _ hs2
      simp only [hf, List.map_map]
      congr 1
    · simp only [getMeta, hf, get?_map_val]
      unfold getMeta at hm2
      rw [hm2]
      refine ⟨f k m2, rfl, ?_⟩
      simp only [f]
      split
      · rfl
      · exact hv2

/-- `unpersist` only touches the backend -/
theorem unpersist_index (s : MState) (k : Bytes) (m : Meta) : (unpersist s k m).index = s.index := by
  unfold unpersist; split <;> rfl

theorem delKey_index (s : MState) (k : Bytes) : (delKey s k).index = AList.erase s.index k := by
  unfold delKey
  split
  · simp only [unpersist_index]
  · rfl

theorem delKey_none (s : MState) (k : Bytes) (hs : AList.Sorted s.index) :
    getMeta (delKey s k) k = none := by
  unfold getMeta; rw [delKey_index]; exact get?_erase_self k s.index hs

theorem signal_none (s : MState) (k : Bytes) (h : getMeta s k = none) :
    getMeta (signal s k) k = none := by
  unfold signal modMeta; rw [h]; exact h

theorem emit_getMeta (s : MState) (op : FeedOp) (k : Bytes) : getMeta (emit s op) k = getMeta s k := by
  unfold emit; split <;> rfl

theorem signal_holds (s : MState) (k : Bytes) (v : Val) (h : Holds s k v) : Holds (signal s k) k v := by
  obtain ⟨hs, m, hm, hv⟩ := h
  unfold signal modMeta
  rw [hm]
  exact putMeta_holds s k _ v hs (by rw [hm]; rfl) hv

/-- common tail of Pop / LRem / LTrim when the list came out empty -/
theorem tail_empty (s : MState) (k : Bytes) (v0 : Val) (l' : LList) (op : FeedOp)
    (h : Holds s k v0) (he : DsList.llen l' = 0) :
    getMeta (emit (signal (if DsList.llen l' = 0 then delKey (Api.setVal s k (.list l')) k
      else Api.setVal s k (.list l')) k) op) k = none := by
  rw [emit_getMeta, if_pos he]
  apply signal_none
  apply delKey_none
  exact (setVal_holds s k v0 _ h).1

/-- ... and when it did not: the key keeps holding the new list -/
theorem tail_nonempty (s : MState) (k : Bytes) (v0 : Val) (l' : LList) (op : FeedOp)
    (h : Holds s k v0) (he : DsList.llen l' ≠ 0) :
    valOf (emit (signal (if DsList.llen l' = 0 then delKey (Api.setVal s k (.list l')) k
      else Api.setVal s k (.list l')) k) op) k = some (.list l') := by
  unfold valOf
  rw [emit_getMeta, if_neg he]
  obtain ⟨_, m, hm, hv⟩ := signal_holds _ k _ (setVal_holds s k v0 (.list l') h)
  rw [hm]; exact hv

theorem llen_zero_iff (l : LList) (h : l.WF) : DsList.llen l = 0 ↔ l.items = [] := by
  unfold DsList.llen; unfold LList.WF at h; rw [h]
  constructor
  · intro e; exact List.length_eq_zero_iff.mp (by omega)
  · intro e; rw [e]; rfl

theorem api_pop (left : Bool) (s : MState) (k : Bytes) (l : LList) (now count : Int)
    (h : HotList s k l now) :
    let r := if left then DsList.lpop l count else DsList.rpop l count
    (Api.pop left s now k count).2 = .blist ((r.2.getD []).map some) ∧
    (r.1.items = [] → getMeta (Api.pop left s now k count).1 k = none) ∧
    (r.1.items ≠ [] → valOf (Api.pop left s now k count).1 k = some (.list r.1)) := by
  intro r
  obtain ⟨s1, hw, hh⟩ := writeKey_hot s k l now h
  have hwf : r.1.WF := by
    simp only [r]; cases left
    · exact rpop_wf l h.2.1 count
    · exact lpop_wf l h.2.1 count
  unfold Api.pop
  simp only [hw, asList_holds s1 k l hh, Bool.not_true, Bool.false_eq_true, if_false]
  refine ⟨rfl, ?_, ?_⟩
  · intro he
    exact tail_empty s1 k _ _ _ hh ((llen_zero_iff _ hwf).mpr he)
  · intro he
    exact tail_nonempty s1 k _ _ _ hh (fun e => he ((llen_zero_iff _ hwf).mp e))

theorem api_lrem (s : MState) (k v : Bytes) (l : LList) (now count : Int)
    (h : HotList s k l now) :
    let r := DsList.lrem l count v
    (Api.lrem s now k v count).2 = .int r.2 ∧
    (r.1.items = [] → getMeta (Api.lrem s now k v count).1 k = none) ∧
    (r.1.items ≠ [] → valOf (Api.lrem s now k v count).1 k = some (.list r.1)) := by
  intro r
  obtain ⟨s1, hw, hh⟩ := writeKey_hot s k l now h
  have hwf : r.1.WF := lrem_wf l h.2.1 count v
  unfold Api.lrem
  simp only [hw, asList_holds s1 k l hh, Bool.not_true, Bool.false_eq_true, if_false]
  refine ⟨rfl, ?_, ?_⟩
  · intro he
    exact tail_empty s1 k _ _ _ hh ((llen_zero_iff _ hwf).mpr he)
  · intro he
    exact tail_nonempty s1 k _ _ _ hh (fun e => he ((llen_zero_iff _ hwf).mp e))

theorem api_ltrim (s : MState) (k : Bytes) (l : LList) (now start stop : Int)
    (h : HotList s k l now) :
    let l' := DsList.ltrim l start stop
    (Api.ltrim s now k start stop).2 = .unit ∧
    (l'.items = [] → getMeta (Api.ltrim s now k start stop).1 k = none) ∧
    (l'.items ≠ [] → valOf (Api.ltrim s now k start stop).1 k = some (.list l')) := by
  intro l'
  obtain ⟨s1, hw, hh⟩ := writeKey_hot s k l now h
  have hwf : l'.WF := ltrim_wf l h.2.1 start stop
  unfold Api.ltrim
  simp only [hw, asList_holds s1 k l hh, Bool.not_true, Bool.false_eq_true, if_false]
  refine ⟨trivial, ?_, ?_⟩
  · intro he
    exact tail_empty s1 k _ _ _ hh ((llen_zero_iff _ hwf).mpr he)
  · intro he
    exact tail_nonempty s1 k _ _ _ hh (fun e => he ((llen_zero_iff _ hwf).mp e))

theorem api_llen (s : MState) (k : Bytes) (l : LList) (now : Int) (h : HotList s k l now) :
    (Api.llen s now k).2 = .int l.items.length := by
  obtain ⟨s1, hw, hh⟩ := readKey_hot s k l now h
  unfold Api.llen
  simp only [hw, asList_holds s1 k l hh, Bool.not_true, Bool.false_eq_true, if_false]
  have := h.2.1; unfold LList.WF at this
  unfold DsList.llen; rw [this]

/-- tail of the commands that never delete the key -/
theorem tail_plain (s : MState) (k : Bytes) (v0 v : Val) (op : FeedOp) (h : Holds s k v0) :
    valOf (emit (signal (Api.setVal s k v) k) op) k = some v := by
  unfold valOf
  rw [emit_getMeta]
  obtain ⟨_, m, hm, hv⟩ := signal_holds _ k _ (setVal_holds s k v0 v h)
  rw [hm]; exact hv

theorem valOf_holds (s : MState) (k : Bytes) (v : Val) (h : Holds s k v) : valOf s k = some v := by
  obtain ⟨_, m, hm, hv⟩ := h
  unfold valOf; rw [hm]; exact hv

theorem api_push (left : Bool) (s : MState) (k : Bytes) (l : LList) (now : Int) (vs : List Bytes)
    (h : HotList s k l now) :
    let l' := if left then DsList.lpush l vs else DsList.rpush l vs
    (Api.push left s now k vs).2 = .int (DsList.llen l') ∧
    valOf (Api.push left s now k vs).1 k = some (.list l') := by
  intro l'
  obtain ⟨s1, hw, hh⟩ := writeKey_hot s k l now h (some (.list DsList.empty))
  unfold Api.push
  simp only [hw, asList_holds s1 k l hh]
  exact ⟨rfl, tail_plain s1 k _ _ _ hh⟩

theorem api_pushX (left : Bool) (s : MState) (k : Bytes) (l : LList) (now : Int) (v : Bytes)
    (h : HotList s k l now) :
    let l' := if left then DsList.lpush l [v] else DsList.rpush l [v]
    (Api.pushX left s now k v).2 = .int (DsList.llen l') ∧
    valOf (Api.pushX left s now k v).1 k = some (.list l') := by
  intro l'
  obtain ⟨s1, hw, hh⟩ := writeKey_hot s k l now h
  unfold Api.pushX
  simp only [hw, asList_holds s1 k l hh, Bool.not_true, Bool.false_eq_true, if_false]
  exact ⟨rfl, tail_plain s1 k _ _ _ hh⟩

theorem api_linsert (s : MState) (k pivot v : Bytes) (before : Bool) (l : LList) (now : Int)
    (h : HotList s k l now) :
    let r := DsList.linsert l pivot v before
    (Api.linsert s now k pivot v before).2 = .int r.2 ∧
    valOf (Api.linsert s now k pivot v before).1 k = some (.list r.1) := by
  intro r
  obtain ⟨s1, hw, hh⟩ := writeKey_hot s k l now h
  unfold Api.linsert
  simp only [hw, asList_holds s1 k l hh, Bool.not_true, Bool.false_eq_true, if_false]
  exact ⟨rfl, tail_plain s1 k _ _ _ hh⟩

theorem api_lset (s : MState) (k v : Bytes) (i : Int) (l : LList) (now : Int)
    (h : HotList s k l now) :
    let r := DsList.lset l i v
    (Api.lset s now k i v).2 = .bool r.2 ∧
    valOf (Api.lset s now k i v).1 k = some (.list r.1) := by
  dsimp only
  obtain ⟨s1, hw, hh⟩ := writeKey_hot s k l now h
  have hfalse : (DsList.lset l i v).2 = false → (DsList.lset l i v).1 = l := by
    unfold DsList.lset
    simp only
    generalize (if i < 0 then l.length + i else i) = j
    split
    · intro _; rfl
    · intro hc; cases hc
  unfold Api.lset
  simp only [hw, asList_holds s1 k l hh, Bool.not_true, Bool.false_eq_true, if_false]
  cases hr : (DsList.lset l i v).2 with
  | false =>
    rw [hfalse hr]
    simp only [Bool.not_false, if_true]
    exact ⟨trivial, valOf_holds s1 k _ hh⟩
  | true =>
    simp only [Bool.not_true, Bool.false_eq_true, if_false]
    exact ⟨trivial, tail_plain s1 k _ _ _ hh⟩

theorem api_lindex (s : MState) (k : Bytes) (i : Int) (l : LList) (now : Int)
    (h : HotList s k l now) :
    (Api.lindex s now k i).2 = .bytes (DsList.lindex l i) := by
  obtain ⟨s1, hw, hh⟩ := readKey_hot s k l now h
  unfold Api.lindex
  simp only [hw, asList_holds s1 k l hh, Bool.not_true, Bool.false_eq_true, if_false]

theorem api_lrange (s : MState) (k : Bytes) (a b : Int) (l : LList) (now : Int)
    (h : HotList s k l now) :
    (Api.lrange s now k a b).2 = .blist ((DsList.lrange l a b).map some) := by
  obtain ⟨s1, hw, hh⟩ := readKey_hot s k l now h
  unfold Api.lrange
  simp only [hw, asList_holds s1 k l hh, Bool.not_true, Bool.false_eq_true, if_false]

/-! ### the same, stated against the reference semantics -/

/-- key `k` now holds a well-formed list with exactly the elements `xs` -/
def HoldsSeq (s : MState) (k : Bytes) (xs : List Bytes) : Prop :=
  ∃ l', valOf s k = some (.list l') ∧ l'.WF ∧ l'.items = xs

theorem spec_api_pop (left : Bool) (s : MState) (k : Bytes) (l : LList) (now count : Int)
    (h : HotList s k l now) :
    let r := if left then Spec.List.lpop l.items count.toNat else Spec.List.rpop l.items count.toNat
    (Api.pop left s now k count).2 = .blist (r.1.map some) ∧
    (r.2 = [] → getMeta (Api.pop left s now k count).1 k = none) ∧
    (r.2 ≠ [] → HoldsSeq (Api.pop left s now k count).1 k r.2) := by
  dsimp only
  obtain ⟨a1, a2, a3⟩ := api_pop left s k l now count h
  cases left
  · obtain ⟨hwf, hi, hr⟩ := modelStep_refines l h.2.1 (.rpop count)
    simp only [modelStep, Spec.List.step, Spec.List.Reply.arr.injEq] at hwf hi hr
    simp only [Bool.false_eq_true, if_false] at a1 a2 a3 ⊢
    rw [hr] at a1; rw [hi] at a2 a3
    exact ⟨a1, a2, fun hne => ⟨_, a3 hne, hwf, hi⟩⟩
  · obtain ⟨hwf, hi, hr⟩ := modelStep_refines l h.2.1 (.lpop count)
    simp only [modelStep, Spec.List.step, Spec.List.Reply.arr.injEq] at hwf hi hr
    simp only [if_true] at a1 a2 a3 ⊢
    rw [hr] at a1; rw [hi] at a2 a3
    exact ⟨a1, a2, fun hne => ⟨_, a3 hne, hwf, hi⟩⟩

theorem spec_api_lrem (s : MState) (k v : Bytes) (l : LList) (now count : Int)
    (h : HotList s k l now) :
    let r := Spec.List.lrem l.items count v
    (Api.lrem s now k v count).2 = .int r.2 ∧
    (r.1 = [] → getMeta (Api.lrem s now k v count).1 k = none) ∧
    (r.1 ≠ [] → HoldsSeq (Api.lrem s now k v count).1 k r.1) := by
  dsimp only
  obtain ⟨a1, a2, a3⟩ := api_lrem s k v l now count h
  obtain ⟨hwf, hi, hr⟩ := modelStep_refines l h.2.1 (.lrem count v)
  simp only [modelStep, Spec.List.step, Spec.List.Reply.int.injEq] at hwf hi hr
  rw [hr] at a1; rw [hi] at a2 a3
  exact ⟨a1, a2, fun hne => ⟨_, a3 hne, hwf, hi⟩⟩

theorem spec_api_ltrim (s : MState) (k : Bytes) (l : LList) (now start stop : Int)
    (h : HotList s k l now) :
    let r := Spec.List.ltrim l.items start stop
    (Api.ltrim s now k start stop).2 = .unit ∧
    (r = [] → getMeta (Api.ltrim s now k start stop).1 k = none) ∧
    (r ≠ [] → HoldsSeq (Api.ltrim s now k start stop).1 k r) := by
  dsimp only
  obtain ⟨a1, a2, a3⟩ := api_ltrim s k l now start stop h
  have hi := ltrim_items l start stop
  have hwf := ltrim_wf l h.2.1 start stop
  rw [hi] at a2 a3
  exact ⟨a1, a2, fun hne => ⟨_, a3 hne, hwf, hi⟩⟩

theorem spec_api_push (left : Bool) (s : MState) (k : Bytes) (l : LList) (now : Int)
    (vs : List Bytes) (h : HotList s k l now) :
    (Api.push left s now k vs).2 = .int ((l.items.length + vs.length : Nat) : Int) ∧
    HoldsSeq (Api.push left s now k vs).1 k
      (if left then Spec.List.lpush l.items vs else Spec.List.rpush l.items vs) := by
  obtain ⟨a1, a2⟩ := api_push left s k l now vs h
  cases left
  · obtain ⟨hwf, hi, hr⟩ := modelStep_refines l h.2.1 (.rpush vs)
    simp only [modelStep, Spec.List.step, Spec.List.Reply.int.injEq] at hwf hi hr
    simp only [Bool.false_eq_true, if_false] at a1 a2 ⊢
    rw [hr] at a1
    exact ⟨a1, _, a2, hwf, hi⟩
  · obtain ⟨hwf, hi, hr⟩ := modelStep_refines l h.2.1 (.lpush vs)
    simp only [modelStep, Spec.List.step, Spec.List.Reply.int.injEq] at hwf hi hr
    simp only [if_true] at a1 a2 ⊢
    rw [hr] at a1
    exact ⟨a1, _, a2, hwf, hi⟩

theorem spec_api_pushX (left : Bool) (s : MState) (k : Bytes) (l : LList) (now : Int)
    (v : Bytes) (h : HotList s k l now) :
    (Api.pushX left s now k v).2 = .int ((l.items.length + 1 : Nat) : Int) ∧
    HoldsSeq (Api.pushX left s now k v).1 k (if left then v :: l.items else l.items ++ [v]) := by
  obtain ⟨a1, a2⟩ := api_pushX left s k l now v h
  cases left
  · obtain ⟨hwf, hi, hr⟩ := modelStep_refines l h.2.1 (.rpush [v])
    simp only [modelStep, Spec.List.step, Spec.List.Reply.int.injEq, Spec.List.rpush,
      List.length_singleton] at hwf hi hr
    simp only [Bool.false_eq_true, if_false] at a1 a2 ⊢
    rw [hr] at a1
    exact ⟨a1, _, a2, hwf, hi⟩
  · obtain ⟨hwf, hi, hr⟩ := modelStep_refines l h.2.1 (.lpush [v])
    simp only [modelStep, Spec.List.step, Spec.List.Reply.int.injEq, Spec.List.lpush,
      List.length_singleton, List.reverse_singleton, List.singleton_append] at hwf hi hr
    simp only [if_true] at a1 a2 ⊢
    rw [hr] at a1
    exact ⟨a1, _, a2, hwf, hi⟩

theorem spec_api_linsert (s : MState) (k pivot v : Bytes) (before : Bool) (l : LList) (now : Int)
    (h : HotList s k l now) :
    match Spec.List.linsert l.items pivot v before with
    | none => (Api.linsert s now k pivot v before).2 = .int (-1) ∧
              HoldsSeq (Api.linsert s now k pivot v before).1 k l.items
    | some xs => (Api.linsert s now k pivot v before).2 = .int xs.length ∧
              HoldsSeq (Api.linsert s now k pivot v before).1 k xs := by
  obtain ⟨a1, a2⟩ := api_linsert s k pivot v before l now h
  obtain ⟨hwf, hi, hr⟩ := modelStep_refines l h.2.1 (.linsert pivot v before)
  simp only [modelStep, Spec.List.step] at hwf hi hr
  cases hs : Spec.List.linsert l.items pivot v before with
  | none =>
    rw [hs] at hi hr
    simp only [Spec.List.Reply.int.injEq] at hr
    rw [hr] at a1
    exact ⟨a1, _, a2, hwf, hi⟩
  | some xs =>
    rw [hs] at hi hr
    simp only [Spec.List.Reply.int.injEq] at hr
    rw [hr] at a1
    exact ⟨a1, _, a2, hwf, hi⟩

theorem spec_api_lset (s : MState) (k v : Bytes) (i : Int) (l : LList) (now : Int)
    (h : HotList s k l now) :
    match Spec.List.lset l.items i v with
    | none => (Api.lset s now k i v).2 = .bool false ∧ HoldsSeq (Api.lset s now k i v).1 k l.items
    | some xs => (Api.lset s now k i v).2 = .bool true ∧ HoldsSeq (Api.lset s now k i v).1 k xs := by
  obtain ⟨a1, a2⟩ := api_lset s k v i l now h
  obtain ⟨hwf, hi, hr⟩ := modelStep_refines l h.2.1 (.lset i v)
  simp only [modelStep, Spec.List.step] at hwf hi hr
  cases hs : Spec.List.lset l.items i v with
  | none =>
    rw [hs] at hi hr
    simp only [Spec.List.Reply.ok.injEq] at hr
    rw [hr] at a1
    exact ⟨a1, _, a2, hwf, hi⟩
  | some xs =>
    rw [hs] at hi hr
    simp only [Spec.List.Reply.ok.injEq] at hr
    rw [hr] at a1
    exact ⟨a1, _, a2, hwf, hi⟩

theorem spec_api_lindex (s : MState) (k : Bytes) (i : Int) (l : LList) (now : Int)
    (h : HotList s k l now) :
    (Api.lindex s now k i).2 = .bytes (Spec.List.lindex l.items i) := by
  rw [api_lindex s k i l now h, lindex_eq l h.2.1]

theorem spec_api_lrange (s : MState) (k : Bytes) (a b : Int) (l : LList) (now : Int)
    (h : HotList s k l now) :
    (Api.lrange s now k a b).2 = .blist ((Spec.List.lrange l.items a b).map some) := by
  rw [api_lrange s k a b l now h, DsList.lrange, forEach_eq]

end NodisVerif.Proofs.C02
