import NodisVerif.Proofs.C10Deadline
/-
  C10 helper lemmas, part 10: a gc pass unlinks only records that are expired or not ok; every live
  record keeps its name, deadline and identities (its value may be evicted from memory).
-/
namespace NodisVerif.Proofs.C10
open NodisVerif Store
open NodisVerif.Proofs.AListLemmas NodisVerif.Proofs.AListLemmas2

/-- the per-record step of `Store.gc` -/
def gcStep (now : Int) (s : MState) (ent : Bytes × Meta) : MState :=
  let (key, m) := ent
  if m.expired now || !m.isOk then
    let s := unpersist s key m
    { s with index := AList.erase s.index key }
  else
    let (s, m, ok) := if m.isModified then persist s key m else (s, m, true)
    if !ok then putMeta s key m else
    let m' := { m with state := 1, count := m.count - 1 }
    let m' := if m'.count < 0 then { m' with value := none } else m'
    putMeta s key m'

theorem gc_eq (s : MState) (now : Int) :
    gc s now = if s.closed then s else syncShared (s.index.foldl (gcStep now) s) := rfl

/-- what gc may change in a record it keeps -/
def GcKeeps (m m' : Meta) : Prop :=
  m'.exp = m.exp ∧ m'.kid = m.kid ∧ m'.oid = m.oid ∧ m'.vtype = m.vtype ∧ m'.isOk = true ∧
  (m'.value = m.value ∨ m'.value = none)

theorem diskSet_index (s : MState) (k : Bytes) (m : Meta) : (diskSet s k m).1.index = s.index := by
  unfold diskSet
  split
  · rfl
  · split <;> rfl

theorem diskDelete_index (s : MState) (k : Bytes) (e : Int) : (diskDelete s k e).index = s.index := rfl

theorem persist_spec (s : MState) (k : Bytes) (m : Meta) :
    (persist s k m).1.index = s.index ∧ (persist s k m).2.1.exp = m.exp ∧ (persist s k m).2.1.kid = m.kid ∧
    (persist s k m).2.1.oid = m.oid ∧ (persist s k m).2.1.vtype = m.vtype ∧
    (persist s k m).2.1.state = m.state ∧ (persist s k m).2.1.value = m.value ∧
    (persist s k m).2.1.count = m.count := by
  unfold persist
  simp only
  split
  · exact ⟨diskSet_index s k m, rfl, rfl, rfl, rfl, rfl, rfl, rfl⟩
  · refine ⟨?_, rfl, rfl, rfl, rfl, rfl, rfl, rfl⟩
    cases m.stored with
    | none => exact diskSet_index s k m
    | some e =>
      simp only
      split
      · exact diskSet_index s k m
      · exact diskSet_index s k m

theorem gcStep_dead (now : Int) (s : MState) (key : Bytes) (m : Meta)
    (hd : (m.expired now || !m.isOk) = true) :
    (gcStep now s (key, m)).index = AList.erase s.index key := by
  unfold gcStep
  simp only [hd, if_true, unpersist_index]

theorem gcStep_keep (now : Int) (s : MState) (key : Bytes) (m : Meta)
    (hd' : (m.expired now || !m.isOk) = false) :
    ∃ m', (gcStep now s (key, m)).index = AList.set s.index key m' ∧ GcKeeps m m' := by
  unfold gcStep
  have hok : m.isOk = true := by
    simp only [Bool.or_eq_false_iff, Bool.not_eq_eq_eq_not, Bool.not_false] at hd'
    exact hd'.2
  simp only [hd', Bool.false_eq_true, if_false]
  by_cases hm : m.isModified = true
  · simp only [hm, if_true]
    obtain ⟨pi, pe, pk, po, pv, ps, pval, _⟩ := persist_spec s key m
    cases hp : persist s key m with
    | mk s1 rest =>
      obtain ⟨m1, ok⟩ := rest
      rw [hp] at pi pe pk po pv ps pval
      simp only at pi pe pk po pv ps pval ⊢
      cases ok with
      | false =>
        simp only [Bool.not_false, if_true]
        refine ⟨m1, by simp only [putMeta, pi], pe, pk, po, pv, ?_, Or.inl pval⟩
        simp only [Meta.isOk, ps]; exact hok
      | true =>
        simp only [Bool.not_true, Bool.false_eq_true, if_false]
        refine ⟨_, (by rw [← pi]; rfl), ?_⟩
        split
        · exact ⟨pe, pk, po, pv, rfl, Or.inr rfl⟩
        · exact ⟨pe, pk, po, pv, rfl, Or.inl pval⟩
  · simp only [hm, Bool.false_eq_true, if_false, Bool.not_true]
    refine ⟨_, rfl, ?_⟩
    split
    · exact ⟨rfl, rfl, rfl, rfl, rfl, Or.inr rfl⟩
    · exact ⟨rfl, rfl, rfl, rfl, rfl, Or.inl rfl⟩

theorem gcStep_sorted (now : Int) (s : MState) (key : Bytes) (m : Meta) (hs : AList.Sorted s.index) :
    AList.Sorted (gcStep now s (key, m)).index := by
  by_cases hd : (m.expired now || !m.isOk) = true
  · rw [gcStep_dead now s key m hd]
    exact erase_preserves_sorted s.index hs key
  · have hd' : (m.expired now || !m.isOk) = false := by simpa using hd
    obtain ⟨m', hi, _⟩ := gcStep_keep now s key m hd'
    rw [hi]; exact set_preserves_sorted s.index hs key m'

theorem gc_fold (now : Int) : ∀ (ents : List (Bytes × Meta)), (ents.map (·.1)).Nodup →
    ∀ (s : MState), AList.Sorted s.index →
    AList.Sorted (ents.foldl (gcStep now) s).index ∧
    ∀ k,
      (∀ m, (k, m) ∈ ents →
        if (m.expired now || !m.isOk) = true then getMeta (ents.foldl (gcStep now) s) k = none
        else ∃ m', getMeta (ents.foldl (gcStep now) s) k = some m' ∧ GcKeeps m m') ∧
      (k ∉ ents.map (·.1) → getMeta (ents.foldl (gcStep now) s) k = getMeta s k) := by
  intro ents
  induction ents with
  | nil => intro _ s hs; exact ⟨hs, fun k => ⟨(fun m h => nomatch h), fun _ => rfl⟩⟩
  | cons e rest ih =>
    obtain ⟨key, m⟩ := e
    intro hnd s hs
    simp only [List.map_cons, List.nodup_cons] at hnd
    obtain ⟨hnot, hnd'⟩ := hnd
    have hs1 := gcStep_sorted now s key m hs
    obtain ⟨i1, i2⟩ := ih hnd' (gcStep now s (key, m)) hs1
    simp only [List.foldl_cons]
    refine ⟨i1, fun k => ⟨fun m0 hm0 => ?_, fun hk => ?_⟩⟩
    · rcases List.mem_cons.mp hm0 with h | h
      · cases h
        rw [(i2 key).2 hnot]
        by_cases hd : (m.expired now || !m.isOk) = true
        · rw [if_pos hd]
          unfold getMeta
          rw [gcStep_dead now s key m hd]
          exact get?_erase_self key s.index hs
        · rw [if_neg hd]
          have hd' : (m.expired now || !m.isOk) = false := by simpa using hd
          obtain ⟨m', hi, hk⟩ := gcStep_keep now s key m hd'
          refine ⟨m', ?_, hk⟩
          unfold getMeta; rw [hi]; exact get?_set_self key m' s.index
      · exact (i2 k).1 m0 h
    · simp only [List.map_cons, List.mem_cons, not_or] at hk
      rw [(i2 k).2 hk.2]
      have hne : key ≠ k := fun e => hk.1 e.symm
      unfold getMeta
      by_cases hd : (m.expired now || !m.isOk) = true
      · rw [gcStep_dead now s key m hd]; exact get?_erase_other key k hne s.index
      · have hd' : (m.expired now || !m.isOk) = false := by simpa using hd
        obtain ⟨m', hi, _⟩ := gcStep_keep now s key m hd'
        rw [hi]; exact get?_set_other key k m' hne s.index

theorem getMeta_syncShared (s : MState) (k : Bytes) : getMeta (syncShared s) k = getMeta s k := by
  unfold syncShared; split <;> rfl

/-- index records after a gc pass -/
theorem gc_getMeta (s : MState) (now : Int) (k : Bytes) (hs : AList.Sorted s.index) (hc : s.closed = false) :
    match getMeta s k with
    | none => getMeta (gc s now) k = none
    | some m =>
      if (m.expired now || !m.isOk) = true then getMeta (gc s now) k = none
      else ∃ m', getMeta (gc s now) k = some m' ∧ GcKeeps m m' := by
  rw [gc_eq, hc]
  simp only [Bool.false_eq_true, if_false, getMeta_syncShared]
  obtain ⟨_, h2⟩ := gc_fold now s.index (keys_nodup s.index hs) s hs
  cases hg : getMeta s k with
  | none =>
    simp only
    rw [(h2 k).2]
    · exact hg
    · intro hmem
      have := (mem_keys_iff_contains s.index k).mp hmem
      unfold AList.contains at this
      unfold getMeta at hg; rw [hg] at this; cases this
  | some m =>
    simp only
    exact (h2 k).1 m (mem_of_get? s.index k m hg)

end NodisVerif.Proofs.C10
