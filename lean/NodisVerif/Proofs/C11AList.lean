import NodisVerif.Proofs.AListLemmas2
/-
  More association-list lemmas used by C11 / C12: value maps, key-preserving filterMaps.
-/
namespace NodisVerif.Proofs.C11AList
open NodisVerif.Proofs.AListLemmas NodisVerif.Proofs.AListLemmas2

variable {V W : Type}

theorem get?_map (f : Bytes → V → W) : ∀ (l : AList V) (x : Bytes),
    AList.get? (l.map fun p => (p.1, f p.1 p.2)) x = (AList.get? l x).map (f x) := by
  intro l x
  induction l with
  | nil => rfl
  | cons a rest ih =>
    obtain ⟨k, v⟩ := a
    simp only [List.map_cons, AList.get?]
    by_cases h : k = x
    · subst h; simp
    · simp [h, ih]

theorem sorted_map (f : Bytes → V → W) (l : AList V) (h : AList.Sorted l) :
    AList.Sorted (l.map fun p => (p.1, f p.1 p.2)) := by
  rw [sorted_iff_pairwise] at h ⊢
  rw [List.pairwise_map]
  exact h.imp (fun {a b} hab => hab)

theorem sorted_filterMap (f : Bytes → V → Option W) (l : AList V) (h : AList.Sorted l) :
    AList.Sorted (l.filterMap fun p => (f p.1 p.2).map fun w => (p.1, w)) := by
  rw [sorted_iff_pairwise] at h ⊢
  rw [List.pairwise_filterMap]
  refine h.imp ?_
  intro a b hab a' ha' b' hb'
  simp only [Option.map_eq_some_iff] at ha' hb'
  obtain ⟨w, _, rfl⟩ := ha'
  obtain ⟨w', _, rfl⟩ := hb'
  exact hab

theorem get?_filterMap (f : Bytes → V → Option W) : ∀ (l : AList V), AList.Sorted l → ∀ (x : Bytes),
    AList.get? (l.filterMap fun p => (f p.1 p.2).map fun w => (p.1, w)) x = (AList.get? l x).bind (f x) := by
  intro l
  induction l with
  | nil => intro _ x; rfl
  | cons a rest ih =>
    intro hs x
    obtain ⟨k, v⟩ := a
    have hs' := sorted_tail hs
    have hlt := (sorted_cons (k, v) rest hs).2
    simp only [List.filterMap_cons, AList.get?]
    by_cases h : k = x
    · subst h
      cases hf : f k v with
      | some w => simp [AList.get?, hf]
      | none =>
        simp only [Option.map_none, if_true, Option.bind_some, hf]
        rw [ih hs' k]
        have : AList.get? rest k = none := get?_none_of_lt rest k (fun p hp => hlt p hp)
        rw [this]; rfl
    · cases hf : f k v with
      | some w => simp [AList.get?, h, ih hs' x]
      | none => simp [h, ih hs' x]

/-- keys of a fold of `set`s -/
theorem set_set (l : AList V) (k : Bytes) (a b : V) : AList.set (AList.set l k a) k b = AList.set l k b := by
  induction l with
  | nil => simp [AList.set]
  | cons p rest ih =>
    obtain ⟨k', w⟩ := p
    simp only [AList.set]
    by_cases h : k' = k
    · subst h; simp [AList.set]
    · by_cases h2 : Bytes.lt k k' = true
      · simp [h, h2, AList.set]
      · simp [h, h2, AList.set, ih]

theorem get?_mem_keys (l : AList V) (k : Bytes) (v : V) (h : AList.get? l k = some v) : k ∈ l.map (·.1) := by
  have := mem_of_get? l k v h
  exact List.mem_map.mpr ⟨(k, v), this, rfl⟩

end NodisVerif.Proofs.C11AList
