import NodisVerif.Proofs.FloatDecMono
import NodisVerif.Proofs.FloatDecRound
import NodisVerif.Proofs.C04Bits
/-
  Corollaries of `roundRat_mono`: the decimal form used by `parseDec`, faithfulness (a rounding never passes a double),
  and the statement in the order the sorted sets use (`F64.le`).
-/
namespace NodisVerif.Proofs.FloatDecMono
open NodisVerif NodisVerif.F64 NodisVerif.FloatDec NodisVerif.Proofs.C09Float

/-- the decimal form used by `parseDec`: mant1·10^e1 ≤ mant2·10^e2 (cross-multiplied with the negative exponents) -/
theorem roundDec_mono (m1 m2 : Nat) (e1 e2 : Int)
    (h : m1 * 10 ^ e1.toNat * 10 ^ (-e2).toNat ≤ m2 * 10 ^ e2.toNat * 10 ^ (-e1).toNat) :
    (roundDec false m1 e1).toNat ≤ (roundDec false m2 e2).toNat := by
  have p10 : ∀ j : Nat, 0 < 10 ^ j := fun j => Nat.pow_pos (by decide)
  unfold roundDec
  by_cases h1 : e1 ≥ 0 <;> by_cases h2 : e2 ≥ 0
  · have a : (-e1).toNat = 0 := by omega
    have b : (-e2).toNat = 0 := by omega
    rw [a, b] at h
    simp only [h1, h2, if_true]
    apply roundRat_mono _ _ _ _ (by decide) (by decide)
    simpa using h
  · have a : (-e1).toNat = 0 := by omega
    have b : e2.toNat = 0 := by omega
    rw [a, b] at h
    simp only [h1, h2, if_true, if_false]
    apply roundRat_mono _ _ _ _ (by decide) (p10 _)
    simpa using h
  · have a : e1.toNat = 0 := by omega
    have b : (-e2).toNat = 0 := by omega
    rw [a, b] at h
    simp only [h1, h2, if_true, if_false]
    apply roundRat_mono _ _ _ _ (p10 _) (by decide)
    simpa using h
  · have a : e1.toNat = 0 := by omega
    have b : e2.toNat = 0 := by omega
    rw [a, b] at h
    simp only [h1, h2, if_false]
    apply roundRat_mono _ _ _ _ (p10 _) (p10 _)
    simpa using h

/-- FAITHFUL: the rounding of a rational never passes a double — if num/den ≤ the exact value of a finite non-negative
    double y, the result is at most y; if it is ≥, the result is at least y -/
theorem roundRat_le_of_le (y : F64) (hs : sign y = false) (hfin : expBits y < 2047) (num den : Nat) (hden : 0 < den)
    (h : num * (if (decode y).2 ≥ 0 then 1 else 2 ^ (-(decode y).2).toNat) ≤
         (if (decode y).2 ≥ 0 then (decode y).1 * 2 ^ (decode y).2.toNat else (decode y).1) * den) :
    (roundRat false num den).toNat ≤ y.toNat := by
  have hy := FloatDecRound.roundRat_decode y hfin
  rw [hs] at hy
  have hpos : 0 < (if (decode y).2 ≥ 0 then 1 else 2 ^ (-(decode y).2).toNat) := by
    split
    · decide
    · exact Nat.two_pow_pos _
  have := roundRat_mono num den _ _ hden hpos h
  rw [hy] at this
  exact this

theorem roundRat_ge_of_ge (y : F64) (hs : sign y = false) (hfin : expBits y < 2047) (num den : Nat) (hden : 0 < den)
    (h : (if (decode y).2 ≥ 0 then (decode y).1 * 2 ^ (decode y).2.toNat else (decode y).1) * den ≤
         num * (if (decode y).2 ≥ 0 then 1 else 2 ^ (-(decode y).2).toNat)) :
    y.toNat ≤ (roundRat false num den).toNat := by
  have hy := FloatDecRound.roundRat_decode y hfin
  rw [hs] at hy
  have hpos : 0 < (if (decode y).2 ≥ 0 then 1 else 2 ^ (-(decode y).2).toNat) := by
    split
    · decide
    · exact Nat.two_pow_pos _
  have := roundRat_mono _ _ num den hpos hden h
  rw [hy] at this
  exact this

/-! ### in terms of the order the sorted sets use (`F64.le` on bit patterns) -/

theorem roundRat_toNat_le (num den : Nat) (hden : 0 < den) : (roundRat false num den).toNat ≤ 2047 * 2 ^ 52 := by
  by_cases hn : num = 0
  · subst hn
    have : roundRat false 0 den = 0 := by unfold roundRat; rw [if_pos rfl]; rfl
    rw [this]; decide
  · have hn' : 0 < num := by omega
    rw [roundRat_eq_scaled num den hn']
    have := roundPack_toNat _ (scaled_pos _ _ 0 (quot_big num den hn' hden) (DOf_pos num den hden)) (-(kOf num den) - 1)
    omega

theorem nonneg_facts (a : F64) (h : a.toNat ≤ 2047 * 2 ^ 52) : isNaN a = false ∧ F64.key a = (a.toNat : Int) := by
  constructor
  · rw [isNaN_eq, expBits_eq, manBits_eq]
    by_cases he : a.toNat / 2 ^ 52 % 2 ^ 11 = 2047
    · have : a.toNat % 2 ^ 52 = 0 := by omega
      simp [this]
    · simp [he]
  · rw [F64.key_eq]
    have h1 : ¬ (a.toNat / 2 ^ 63 = 1) := by omega
    rw [if_neg h1]
    have : a.toNat % 2 ^ 63 = a.toNat := by omega
    rw [this]

theorem roundRat_le (num1 den1 num2 den2 : Nat) (hd1 : 0 < den1) (hd2 : 0 < den2) (h : num1 * den2 ≤ num2 * den1) :
    F64.le (roundRat false num1 den1) (roundRat false num2 den2) = true := by
  obtain ⟨n1, k1⟩ := nonneg_facts _ (roundRat_toNat_le num1 den1 hd1)
  obtain ⟨n2, k2⟩ := nonneg_facts _ (roundRat_toNat_le num2 den2 hd2)
  have hm := roundRat_mono num1 den1 num2 den2 hd1 hd2 h
  unfold F64.le
  rw [n1, n2, k1, k2]
  simp only [Bool.not_false, Bool.true_and, decide_eq_true_eq]
  exact Int.ofNat_le.2 hm

/-! ### negative values -/

/-- the sign only sets the top bit: rounding is symmetric -/
theorem roundPack_neg (n : Nat) (e : Int) : roundPack true n e = roundPack false n e ||| 0x8000000000000000 := by
  rw [roundPack_eq, roundPack_eq]
  split
  · decide
  · unfold rpFinish
    split
    · dsimp only
      split
      · decide
      · simp
    · simp

theorem roundRat_neg (num den : Nat) : roundRat true num den = roundRat false num den ||| 0x8000000000000000 := by
  unfold roundRat
  split
  · decide
  · exact roundPack_neg _ _

theorem roundDec_neg (m : Nat) (ex : Int) : roundDec true m ex = roundDec false m ex ||| 0x8000000000000000 := by
  unfold roundDec; split <;> exact roundRat_neg _ _

/-- key of a negative rounding = − key of the positive one -/
theorem key_neg_of (a : F64) (h : a.toNat ≤ 2047 * 2 ^ 52) : F64.key (a ||| 0x8000000000000000) = -(a.toNat : Int) := by
  rw [F64.key_eq, UInt64.toNat_or]
  have h2 : (0x8000000000000000 : UInt64).toNat = 2 ^ 63 * 1 := by decide
  rw [h2, Nat.or_comm, ← Nat.two_pow_add_eq_or_of_lt (by omega)]
  have h1 : (2 ^ 63 * 1 + a.toNat) / 2 ^ 63 = 1 := by omega
  rw [if_pos h1]
  have : (2 ^ 63 * 1 + a.toNat) % 2 ^ 63 = a.toNat := by omega
  rw [this]

/-- monotone for negative values too: −(num2/den2) ≤ −(num1/den1) when num1/den1 ≤ num2/den2 -/
theorem roundRat_neg_le (num1 den1 num2 den2 : Nat) (hd1 : 0 < den1) (hd2 : 0 < den2) (h : num1 * den2 ≤ num2 * den1) :
    F64.key (roundRat true num2 den2) ≤ F64.key (roundRat true num1 den1) := by
  rw [roundRat_neg, roundRat_neg, key_neg_of _ (roundRat_toNat_le num1 den1 hd1), key_neg_of _ (roundRat_toNat_le num2 den2 hd2)]
  have := roundRat_mono num1 den1 num2 den2 hd1 hd2 h
  omega

/-- a negative rounding is never above a positive one -/
theorem roundRat_neg_le_pos (num1 den1 num2 den2 : Nat) (hd1 : 0 < den1) (hd2 : 0 < den2) :
    F64.key (roundRat true num1 den1) ≤ F64.key (roundRat false num2 den2) := by
  rw [roundRat_neg, key_neg_of _ (roundRat_toNat_le num1 den1 hd1), (nonneg_facts _ (roundRat_toNat_le num2 den2 hd2)).2]
  omega

end NodisVerif.Proofs.FloatDecMono
