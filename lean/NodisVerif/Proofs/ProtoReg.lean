import NodisVerif.Proofs.ProtoInv
/-
  Locking protocol: who can change what. A step of one transaction leaves the other transactions alone;
  the record registered under a key only leaves through `unlink` / `drop` of that very record, or `clear`.
-/
namespace NodisVerif.Proofs.Proto
open NodisVerif.Proto

theorem same_hold {l : List Hold} (hn : NodupRids l) {h g : Hold} (hh : h ∈ l) (hg : g ∈ l)
    (e : h.rid = g.rid) : h = g := by
  have a := holdOf_of_mem (st := { holds := l }) hn hh
  have b := holdOf_of_mem (st := { holds := l }) hn hg
  rw [e, b] at a
  exact (Option.some.inj a).symm

/-- a step that is not `t`'s leaves `t`'s state alone -/
theorem tx_step_other {s s' : PState} {e : Ev} {t : Tx} (hs : step s e = some s') (ht : evTx e ≠ some t) :
    s'.tx t = s.tx t := by
  have ne : ∀ u, evTx e = some u → t ≠ u := by intro u h c; subst c; exact ht h
  cases e with
  | begin u => obtain ⟨_, rfl⟩ := step_begin.1 hs; exact tx_setTx_ne _ _ (ne u rfl)
  | look u k r => obtain ⟨_, _, _, _, _, rfl⟩ := step_look.1 hs; rfl
  | claim u k r m =>
    obtain ⟨_, _, _, _, _, _, rfl⟩ := step_claim.1 hs
    rw [tx_setTx_ne _ _ (ne u rfl)]; rfl
  | wait u k r m => obtain ⟨_, _, _, _, _, _, _, rfl⟩ := step_wait.1 hs; exact tx_setTx_ne _ _ (ne u rfl)
  | lock u k r m => obtain ⟨_, _, _, _, rfl⟩ := step_lock.1 hs; exact tx_setTx_ne _ _ (ne u rfl)
  | valid u k r ok =>
    obtain ⟨_, _, _, _, _, _, ⟨_, rfl⟩ | ⟨_, _, rfl⟩⟩ := step_valid.1 hs
    · rfl
    · exact tx_setTx_ne _ _ (ne u rfl)
  | publish u k r => obtain ⟨_, _, _, _, _, _, _, _, _, _, rfl⟩ := step_publish.1 hs; rfl
  | unlink u k r => obtain ⟨_, _, _, _, _, _, _, _, _, rfl⟩ := step_unlink.1 hs; rfl
  | commit u => obtain ⟨_, _, _, _, _, rfl⟩ := step_commit.1 hs; exact tx_setTx_ne _ _ (ne u rfl)
  | trylock u k r => obtain ⟨_, _, _, _, _, rfl⟩ := step_trylock.1 hs; exact tx_setTx_ne _ _ (ne u rfl)
  | drop u k r => obtain ⟨_, _, _, _, _, _, _, _, rfl⟩ := step_drop.1 hs; rfl
  | unlock u r => obtain ⟨_, _, _, _, _, rfl⟩ := step_unlock.1 hs; exact tx_setTx_ne _ _ (ne u rfl)
  | fin u =>
    obtain ⟨_, _, _, _, rfl⟩ := step_fin.1 hs
    simp [PState.tx, assoc_erase, ne u rfl]
  | clear => have := step_clear.1 hs; subst this; rfl

theorem lookup_eq_some {s : PState} {k : Key} {r : Rec} : s.lookup k = some r ↔
    assoc s.index k = some r ∨ (assoc s.index k = none ∧ assoc s.pending k = some r) := by
  unfold PState.lookup
  cases h : assoc s.index k <;> simp

/-- `publish` moves the record from `pending` to the index: `lookup` does not notice -/
theorem lookup_publish {s : PState} {k : Key} {r : Rec} (hp : assoc s.pending k = some r)
    (hx : assoc s.index k = none) (k' : Key) :
    PState.lookup { s with pending := erase s.pending k, index := put s.index k r } k' = s.lookup k' := by
  unfold PState.lookup
  simp only [assoc_put, assoc_erase]
  by_cases h : k' = k
  · subst h; simp [hx, hp]
  · simp [h]

/-- the record registered under a key stays registered, except through `unlink` / `drop` of that record
    or `clear` -/
theorem lookup_stable {s s' : PState} {e : Ev} (hi : Inv s) (hs : step s e = some s') {k : Key} {r : Rec}
    (hl : s.lookup k = some r) (h1 : ∀ u, e ≠ .unlink u k r) (h2 : ∀ u, e ≠ .drop u k r) (h3 : e ≠ .clear) :
    s'.lookup k = some r := by
  cases e with
  | begin u => obtain ⟨_, rfl⟩ := step_begin.1 hs; exact hl
  | look u k r => obtain ⟨_, _, _, _, _, rfl⟩ := step_look.1 hs; exact hl
  | claim u k' r' m =>
    obtain ⟨_, _, _, _, hn, _, rfl⟩ := step_claim.1 hs
    rw [setTx_lookup]
    have hne : k ≠ k' := by intro c; subst c; rw [hn] at hl; cases hl
    unfold PState.lookup at hl ⊢
    simpa [assoc_put, hne] using hl
  | wait u k r m => obtain ⟨_, _, _, _, _, _, _, rfl⟩ := step_wait.1 hs; exact hl
  | lock u k r m => obtain ⟨_, _, _, _, rfl⟩ := step_lock.1 hs; exact hl
  | valid u k r ok =>
    obtain ⟨_, _, _, _, _, _, ⟨_, rfl⟩ | ⟨_, _, rfl⟩⟩ := step_valid.1 hs <;> exact hl
  | publish u k' r' =>
    obtain ⟨_, _, _, _, _, _, _, _, hp, hx, rfl⟩ := step_publish.1 hs
    rw [lookup_publish hp hx]; exact hl
  | unlink u k' r' =>
    obtain ⟨_, _, _, _, _, _, _, _, hx, rfl⟩ := step_unlink.1 hs
    have hne : k ≠ k' := by
      intro c; subst c
      rcases lookup_eq_some.1 hl with h | ⟨h, _⟩
      · rw [hx] at h; cases h; exact h1 u rfl
      · rw [hx] at h; cases h
    unfold PState.lookup at hl ⊢
    simpa [assoc_erase, hne] using hl
  | commit u => obtain ⟨_, _, _, _, _, rfl⟩ := step_commit.1 hs; exact hl
  | trylock u k r => obtain ⟨_, _, _, _, _, rfl⟩ := step_trylock.1 hs; exact hl
  | drop u k' r' =>
    obtain ⟨_, _, _, _, _, _, _, hp, rfl⟩ := step_drop.1 hs
    rcases lookup_eq_some.1 hl with h | ⟨h, h'⟩
    · unfold PState.lookup; simp [h]
    · have hne : k ≠ k' := by
        intro c; subst c
        rw [hp] at h'; cases h'; exact h2 u rfl
      unfold PState.lookup
      simp [h, assoc_erase, hne, h']
  | unlock u r => obtain ⟨_, _, _, _, _, rfl⟩ := step_unlock.1 hs; exact hl
  | fin u => obtain ⟨_, _, _, _, rfl⟩ := step_fin.1 hs; exact hl
  | clear => exact absurd rfl h3

/-- `unlink` and `drop` need a write hold on the record -/
theorem unlink_needs_w {s s' : PState} {u : Tx} {k : Key} {r : Rec} (hs : step s (.unlink u k r) = some s') :
    ∃ su g, s.tx u = some su ∧ g ∈ su.holds ∧ g.rid = r ∧ g.mode = .w := by
  obtain ⟨su, g, h1, h2, _, h3, _⟩ := step_unlink.1 hs
  exact ⟨su, g, h1, (holdOf_some h2).1, (holdOf_some h2).2, h3⟩

theorem drop_needs_w {s s' : PState} {u : Tx} {k : Key} {r : Rec} (hs : step s (.drop u k r) = some s') :
    ∃ su g, s.tx u = some su ∧ g ∈ su.holds ∧ g.rid = r ∧ g.mode = .w := by
  obtain ⟨su, g, h1, h2, _, h3, _⟩ := step_drop.1 hs
  exact ⟨su, g, h1, (holdOf_some h2).1, (holdOf_some h2).2, h3⟩

/-- C05.3: while `t` holds record `r` (any mode), nobody else can take `r` out of the index -/
theorem held_stays_registered {s s' : PState} {e : Ev} (hi : Inv s) {t u : Tx} {st : TxSt} {h : Hold}
    {k : Key} (htx : s.tx t = some st) (hh : h ∈ st.holds) (hl : s.lookup k = some h.rid)
    (he : evTx e = some u) (hne : u ≠ t) (hs : step s e = some s') : s'.lookup k = some h.rid := by
  refine lookup_stable hi hs hl ?_ ?_ ?_
  · intro v c; subst c
    obtain ⟨su, g, a, b, c, d⟩ := unlink_needs_w hs
    simp only [evTx, Option.some.injEq] at he; subst he
    exact hne (hi.compat v t su st g h a htx b hh c (Or.inl d))
  · intro v c; subst c
    obtain ⟨su, g, a, b, c, d⟩ := drop_needs_w hs
    simp only [evTx, Option.some.injEq] at he; subst he
    exact hne (hi.compat v t su st g h a htx b hh c (Or.inl d))
  · intro c; subst c; cases he

/-- over a whole stretch of other transactions' steps (no FLUSH): `t` keeps its holds and the records
    it holds stay registered -/
theorem held_stays_registered_run {s s' : PState} {es : List Ev} (hi : Inv s) {t : Tx} {st : TxSt} {h : Hold}
    {k : Key} (htx : s.tx t = some st) (hh : h ∈ st.holds) (hl : s.lookup k = some h.rid)
    (he : ∀ e ∈ es, ∃ u, evTx e = some u ∧ u ≠ t) (hs : runAll s es = some s') :
    s'.tx t = some st ∧ s'.lookup k = some h.rid := by
  induction es generalizing s with
  | nil => simp [runAll] at hs; subst hs; exact ⟨htx, hl⟩
  | cons e es ih =>
    obtain ⟨s1, h1, h2⟩ := runAll_cons_some hs
    obtain ⟨u, hu, hne⟩ := he e List.mem_cons_self
    have htx1 : s1.tx t = some st := by
      rw [tx_step_other h1 (by rw [hu]; intro c; exact hne (Option.some.inj c))]; exact htx
    exact ih (hi.step h1) htx1 (held_stays_registered hi htx hh hl hu hne h1)
      (fun e' he' => he e' (List.mem_cons_of_mem _ he')) h2

end NodisVerif.Proofs.Proto
