import NodisVerif.Proofs.C19Quiescent
import NodisVerif.Proofs.C11Main
/-
  C19 helpers, part 7: `SCAN … TYPE t` on a store that has just been opened on a backend
  (`Store.reopen`): every record is cold and has no cached type, the call loads the value.
  Uses the storage invariant and the close / reopen facts of C11 (Proofs/C11*.lean).
-/
namespace NodisVerif.Proofs.C19Reopen
open NodisVerif.Store NodisVerif.Spec.Persist
open NodisVerif.Proofs.C19Scan NodisVerif.Proofs.C19Quiescent NodisVerif.Proofs.C11
open NodisVerif.Proofs.AListLemmas NodisVerif.Proofs.AListLemmas2

/-- on a freshly opened store a record passes the filter of `SCAN … TYPE typ` (typ ≠ 0) exactly
    when its name matches and the key is logically there (live, loadable) with a value of that type -/
theorem eligible_reopen {s0 : MState} {x : Option Bytes} {t : Int} (h : StoreInvX s0 x t)
    (now : Int) (pat : Bytes) (typ : Nat) (htyp : typ ≠ 0) (k : Bytes) (m : Meta)
    (hm : AList.get? (reopen s0).index k = some m) :
    Eligible (reopen s0) now pat typ (k, m) = true ↔
      (Glob.matched pat k = true ∧ ∃ v exp, lookup (reopen s0) now k = some (v, exp) ∧ v.typeCode = typ) := by
  obtain ⟨dk, e, he, hn, rfl⟩ := reopen_rec h hm
  have hok : (coldOf e).isOk = true := by simp [coldOf, Meta.isOk]
  have hlook : lookup (reopen s0) now k =
      if (coldOf e).expired now then none
      else (loadValue (reopen s0) k (coldOf e)).map fun p => (p.1, (coldOf e).exp) := by
    simp only [lookup, getMeta, hm, Option.bind_some, Spec.Persist.view, hok, Bool.true_and]
    cases (coldOf e).expired now <;> simp [coldOf]
  have het : etype (reopen s0) typ (k, coldOf e) =
      match loadValue (reopen s0) k (coldOf e) with
      | some (v, _) => v.typeCode
      | none => 0 := by
    rw [etype, if_pos ⟨htyp, rfl, rfl⟩]
    rfl
  have htc : ∀ v : Val, v.typeCode ≠ 0 := by intro v; cases v <;> simp [Val.typeCode]
  simp only [Eligible, het, hlook]
  cases hl : loadValue (reopen s0) k (coldOf e) with
  | none =>
    cases (coldOf e).expired now <;> simp [htyp, Ne.symm htyp]
  | some vo =>
    obtain ⟨v, o⟩ := vo
    cases (coldOf e).expired now <;> simp [htyp]

/-- membership in the expected report of a proper index -/
theorem mem_eligibleNames (s : MState) (hs : AList.Sorted s.index) (now : Int) (pat : Bytes) (typ : Nat) (x : Bytes) :
    x ∈ eligibleNames s now pat typ s.index ↔ ∃ m, AList.get? s.index x = some m ∧ Eligible s now pat typ (x, m) = true := by
  unfold eligibleNames
  simp only [List.mem_map, List.mem_filter]
  constructor
  · rintro ⟨⟨k, m⟩, ⟨hmem, hel⟩, rfl⟩
    exact ⟨m, get?_of_mem s.index hs k m hmem, hel⟩
  · rintro ⟨m, hget, hel⟩
    exact ⟨(x, m), ⟨mem_of_get? s.index x m hget, hel⟩, rfl⟩

/-- the expected report of `SCAN … TYPE typ` right after opening a backend: the names that match
    and are logically there with a value of that type -/
theorem mem_eligibleNames_reopen {s0 : MState} {x : Option Bytes} {t : Int} (h : StoreInvX s0 x t)
    (now : Int) (pat : Bytes) (typ : Nat) (htyp : typ ≠ 0) (k : Bytes) :
    k ∈ eligibleNames (reopen s0) now pat typ (reopen s0).index ↔
      (Glob.matched pat k = true ∧ ∃ v exp, lookup (reopen s0) now k = some (v, exp) ∧ v.typeCode = typ) := by
  have f := reopen_facts h
  rw [mem_eligibleNames (reopen s0) f.sorted]
  constructor
  · rintro ⟨m, hm, hel⟩
    exact (eligible_reopen h now pat typ htyp k m hm).1 hel
  · intro hr
    obtain ⟨v, exp, hl, _⟩ := hr.2
    cases hm : AList.get? (reopen s0).index k with
    | none => simp [lookup, getMeta, hm] at hl
    | some m => exact ⟨m, rfl, (eligible_reopen h now pat typ htyp k m hm).2 hr⟩

/-- … and after a graceful close and reopen: the names that matched and were logically there with
    a value of that type before the restart -/
theorem mem_eligibleNames_restart {s : MState} {t now now' : Int} (h : StoreInvX s none t) (ht : t ≤ now)
    (ht' : now ≤ now') (hf : s.failSet = 0) (hnil : NilFree s) (pat : Bytes) (typ : Nat) (htyp : typ ≠ 0) (k : Bytes) :
    k ∈ eligibleNames (reopen (close s now)) now' pat typ (reopen (close s now)).index ↔
      (Glob.matched pat k = true ∧ ∃ v exp, lookup s now' k = some (v, exp) ∧ v.typeCode = typ) := by
  obtain ⟨sp, _⟩ := close_spec h ht (now := now)
  rw [mem_eligibleNames_reopen sp.inv now' pat typ htyp k, (cycle_spec h ht hf hnil).look now' ht' k]

theorem restart_sorted {s : MState} {t now : Int} (h : StoreInvX s none t) (ht : t ≤ now) :
    AList.Sorted (reopen (close s now)).index :=
  (reopen_facts (close_spec h ht (now := now)).1.inv).sorted

end NodisVerif.Proofs.C19Reopen
