import NodisVerif.Proofs.BlockInv
/-
  Trace invariants of the BLPOP/BRPOP wake-up protocol: what the history of a waiter looks like,
  given the phase it is in (a null reply comes from an armed timer; a round tries the keys in
  argument order and returns at the first success).
-/
namespace NodisVerif.Proofs.Block
open NodisVerif.Block

theorem own_of_ne {w : W} {e : Ev} (h : evW e ≠ w) : own w e = false := by
  cases e <;> simp_all [own, evW]

theorem own_notify (w w' : W) (k : Key) : own w (.notify w' k) = false := rfl

/-- a property of (history, waiter state) that is not disturbed by the events of other waiters and is
    established / preserved by the local step holds along every run -/
theorem trace_local_invariant {P : List Ev → W → WSt → Prop}
    (hother : ∀ es w st e, P es w st → evW e ≠ w → P (es ++ [e]) w st)
    (hl : ∀ es (o : Option WSt) e st', (∀ st, o = some st → P es (evW e) st) →
      lstep o e = some (some st') → P (es ++ [e]) (evW e) st')
    {es : List Ev} {s : BState} (h : runAll [] es = some s) {w : W} {st : WSt}
    (hg : get s w = some st) : P es w st := by
  refine trace_induction (P := fun es s => ∀ w st, get s w = some st → P es w st) ?_ ?_ h w st hg
  · intro w st hg; simp [get_nil] at hg
  · intro es s e s' ih hse w st hg
    by_cases hw : w = evW e
    · subst hw
      have := step_local hse
      rw [hg] at this
      exact hl es _ e st (fun st0 h0 => ih _ st0 h0) this
    · rw [step_frame hse hw] at hg
      exact hother es w st e (ih w st hg) (fun h => hw h.symm)

/-! ## where a null reply comes from -/

/-- the history of a sleeping waiter ends with its `block` (then only pushes and other waiters);
    the history of a waiter that got null: `block w true`, no action of `w`, `timeout w`, then of `w`
    only `unreg` -/
structure NullInv (es : List Ev) (w : W) (st : WSt) : Prop where
  blocked : st.phase = .blocked →
    ∃ pre mid, es = pre ++ .block w st.timed :: mid ∧ ∀ e ∈ mid, own w e = false
  gotNull : st.phase = .gotNull →
    ∃ pre mid post, es = pre ++ .block w true :: (mid ++ .timeout w :: post) ∧
      (∀ e ∈ mid, own w e = false) ∧ (∀ e ∈ post, own w e = true → ∃ k, e = .unreg w k)

theorem nullInv_other (es : List Ev) (w : W) (st : WSt) (e : Ev) (hi : NullInv es w st)
    (hw : evW e ≠ w) : NullInv (es ++ [e]) w st := by
  have ho := own_of_ne hw
  constructor
  · intro hp
    obtain ⟨pre, mid, rfl, hm⟩ := hi.blocked hp
    refine ⟨pre, mid ++ [e], by simp, ?_⟩
    intro e' he'
    rcases List.mem_append.1 he' with h | h
    · exact hm e' h
    · simp only [List.mem_singleton] at h; subst h; exact ho
  · intro hp
    obtain ⟨pre, mid, post, rfl, hm, hpost⟩ := hi.gotNull hp
    refine ⟨pre, mid, post ++ [e], by simp, hm, ?_⟩
    intro e' he' hown
    rcases List.mem_append.1 he' with h | h
    · exact hpost e' h hown
    · simp only [List.mem_singleton] at h; subst h; simp [ho] at hown

theorem nullInv_step (es : List Ev) (o : Option WSt) (e : Ev) (st' : WSt)
    (ho : ∀ st, o = some st → NullInv es (evW e) st)
    (h : lstep o e = some (some st')) : NullInv (es ++ [e]) (evW e) st' := by
  cases e with
  | reg w k =>
    obtain ⟨hp, hr⟩ := lstep_reg.1 h
    cases hr
    constructor <;> simp [hp]
  | try_ w k got =>
    obtain ⟨st, i, rfl, hp, hk, hr⟩ := lstep_try.1 h
    cases got <;> (simp at hr; subst hr; constructor <;> simp)
  | block w t =>
    obtain ⟨st, rfl, hp, hr⟩ := lstep_block.1 h
    cases hr
    constructor
    · intro _; exact ⟨es, [], by simp [evW], by simp⟩
    · simp
  | wake w =>
    obtain ⟨st, rfl, hp, hb, hr⟩ := lstep_wake.1 h
    cases hr
    constructor <;> simp
  | timeout w =>
    obtain ⟨st, rfl, hp, hb, hr⟩ := lstep_timeout.1 h
    cases hr
    constructor
    · simp
    · intro _
      obtain ⟨pre, mid, he, hm⟩ := (ho st rfl).blocked hp
      rw [hb] at he
      exact ⟨pre, mid, [], by simp [he, evW], hm, by simp⟩
  | notify w k =>
    obtain ⟨st, rfl, hk, hr⟩ := lstep_notify.1 h
    cases hr
    have hi := ho st rfl
    simp only [evW] at hi ⊢
    constructor
    · intro hp
      obtain ⟨pre, mid, he, hm⟩ := hi.blocked hp
      refine ⟨pre, mid ++ [.notify w k], by simp [he], ?_⟩
      intro e' he'
      rcases List.mem_append.1 he' with h | h
      · exact hm e' h
      · simp only [List.mem_singleton] at h; subst h; rfl
    · intro hp
      obtain ⟨pre, mid, post, he, hm, hpost⟩ := hi.gotNull hp
      refine ⟨pre, mid, post ++ [.notify w k], by simp [he], hm, ?_⟩
      intro e' he' hown
      rcases List.mem_append.1 he' with h | h
      · exact hpost e' h hown
      · simp only [List.mem_singleton] at h; subst h; simp [own] at hown
  | abort w =>
    obtain ⟨st, rfl, hp, hr⟩ := lstep_abort.1 h
    cases hr
    constructor <;> simp
  | unreg w k =>
    obtain ⟨st, rfl, hp, hr⟩ := lstep_unreg.1 h
    cases hr
    have hi := ho st rfl
    simp only [evW] at hi ⊢
    constructor
    · intro h; exact absurd h (returned_pos hp).2
    · intro hp
      obtain ⟨pre, mid, post, he, hm, hpost⟩ := hi.gotNull hp
      refine ⟨pre, mid, post ++ [.unreg w k], by simp [he], hm, ?_⟩
      intro e' he' hown
      rcases List.mem_append.1 he' with h | h
      · exact hpost e' h hown
      · simp only [List.mem_singleton] at h; subst h; exact ⟨k, rfl⟩
  | fin w =>
    obtain ⟨st, _, _, hr⟩ := lstep_fin.1 h
    cases hr

theorem nullInv {es : List Ev} {s : BState} (h : runAll [] es = some s) {w : W} {st : WSt}
    (hg : get s w = some st) : NullInv es w st :=
  trace_local_invariant (P := NullInv) nullInv_other nullInv_step h hg

/-! ## rounds -/

/-- the actions of waiter `w` in a trace (the pushes that notify it are not its actions) -/
def proj (w : W) (es : List Ev) : List Ev := es.filter (own w)

theorem proj_snoc (w : W) (es : List Ev) (e : Ev) :
    proj w (es ++ [e]) = proj w es ++ (if own w e then [e] else []) := by
  simp only [proj, List.filter_append]
  congr 1
  cases h : own w e <;> simp [h]

theorem proj_last (w : W) (pre mid : List Ev) (a : Ev) (ha : own w a = true)
    (hm : ∀ e ∈ mid, own w e = false) : proj w (pre ++ a :: mid) = proj w pre ++ [a] := by
  have : mid.filter (own w) = [] := by
    rw [List.filter_eq_nil_iff]; intro e he; simp [hm e he]
  simp [proj, List.filter_append, ha, this]

/-- the last action of `w` in a trace is determined -/
theorem last_own_unique {w : W} {pre pre' mid mid' : List Ev} {a a' : Ev}
    (h : pre ++ a :: mid = pre' ++ a' :: mid') (ha : own w a = true) (ha' : own w a' = true)
    (hm : ∀ e ∈ mid, own w e = false) (hm' : ∀ e ∈ mid', own w e = false) : a = a' := by
  have h1 := congrArg (proj w) h
  rw [proj_last w pre mid a ha hm, proj_last w pre' mid' a' ha' hm'] at h1
  have := List.append_inj_right' h1 rfl
  simpa using this

/-- a round of `w` starts when it has registered (the last `reg`) or has been woken -/
def RoundStart (w : W) (e : Ev) : Prop := e = .wake w ∨ ∃ k, e = .reg w k

/-- failed tries on the given keys, in order -/
def failedTries (w : W) (ks : List Key) : List Ev := ks.map (fun k => .try_ w k false)

/-- the shape of the own history of a waiter, by phase -/
structure RoundInv (es : List Ev) (w : W) (st : WSt) : Prop where
  /-- at scan position i of a round: since the round started, exactly the first i keys have been
      tried, in order, all without success -/
  scanning : ∀ i, pos st.phase = some i →
    ∃ pre e0, proj w es = pre ++ e0 :: failedTries w (st.keys.take i) ∧ RoundStart w e0
  /-- asleep: the last round tried all keys, in order, without success, then blocked -/
  blocked : st.phase = .blocked →
    ∃ pre e0, proj w es = pre ++ e0 :: (failedTries w st.keys ++ [.block w st.timed]) ∧ RoundStart w e0
  /-- returned an element of k: k is the key at some position i, the round failed on the keys before
      position i and succeeded on k; afterwards the waiter only unregisters -/
  gotElem : ∀ k, st.phase = .gotElem k →
    ∃ pre e0 i post, proj w es = pre ++ e0 :: (failedTries w (st.keys.take i) ++ .try_ w k true :: post) ∧
      RoundStart w e0 ∧ st.keys[i]? = some k ∧ ∀ e ∈ post, ∃ k', e = .unreg w k'
  /-- a pop attempt panicked: the round failed on the keys before some position i, then aborted;
      afterwards the waiter only unregisters -/
  aborted : st.phase = .aborted →
    ∃ pre e0 i post, proj w es = pre ++ e0 :: (failedTries w (st.keys.take i) ++ .abort w :: post) ∧
      RoundStart w e0 ∧ ∀ e ∈ post, ∃ k', e = .unreg w k'

theorem roundInv_other (es : List Ev) (w : W) (st : WSt) (e : Ev) (hi : RoundInv es w st)
    (hw : evW e ≠ w) : RoundInv (es ++ [e]) w st := by
  have ho := own_of_ne hw
  have hp : proj w (es ++ [e]) = proj w es := by simp [proj_snoc, ho]
  constructor
  · rw [hp]; exact hi.scanning
  · rw [hp]; exact hi.blocked
  · rw [hp]; exact hi.gotElem
  · rw [hp]; exact hi.aborted

theorem roundInv_step (es : List Ev) (o : Option WSt) (e : Ev) (st' : WSt)
    (ho : ∀ st, o = some st → RoundInv es (evW e) st)
    (h : lstep o e = some (some st')) : RoundInv (es ++ [e]) (evW e) st' := by
  cases e with
  | reg w k =>
    obtain ⟨hp, hr⟩ := lstep_reg.1 h
    cases hr
    have hj : proj w (es ++ [.reg w k]) = proj w es ++ [.reg w k] := by simp [proj_snoc, own, evW]
    simp only [evW]
    constructor
    · intro i hi
      simp only [hp, pos, Option.some.injEq] at hi; subst hi
      exact ⟨proj w es, .reg w k, by simp [hj, failedTries], Or.inr ⟨k, rfl⟩⟩
    · simp [hp]
    · simp [hp]
    · simp [hp]
  | try_ w k got =>
    obtain ⟨st, i, rfl, hp, hk, hr⟩ := lstep_try.1 h
    have hj : proj w (es ++ [.try_ w k got]) = proj w es ++ [.try_ w k got] := by
      simp [proj_snoc, own, evW]
    have hi := ho st rfl
    simp only [evW] at hi ⊢
    obtain ⟨pre, e0, he, hs⟩ := hi.scanning i hp
    cases got with
    | true =>
      simp only [if_true, Option.some.injEq] at hr; subst hr
      constructor
      · simp [pos]
      · simp
      · intro k' hk'
        simp only [Phase.gotElem.injEq] at hk'; subst hk'
        exact ⟨pre, e0, i, [], by simp [hj, he], hs, hk, by simp⟩
      · simp
    | false =>
      simp only [Bool.false_eq_true, if_false, Option.some.injEq] at hr; subst hr
      have htake : st.keys.take (i + 1) = st.keys.take i ++ [k] := by
        rw [List.take_add_one, hk]; rfl
      constructor
      · intro j hj'
        simp only [pos, Option.some.injEq] at hj'; subst hj'
        exact ⟨pre, e0, by simp [hj, he, htake, failedTries], hs⟩
      · simp
      · simp
      · simp
  | block w t =>
    obtain ⟨st, rfl, hp, hr⟩ := lstep_block.1 h
    cases hr
    have hj : proj w (es ++ [.block w t]) = proj w es ++ [.block w t] := by
      simp [proj_snoc, own, evW]
    have hi := ho st rfl
    simp only [evW] at hi ⊢
    obtain ⟨pre, e0, he, hs⟩ := hi.scanning _ (by rw [hp]; rfl)
    constructor
    · simp [pos]
    · intro _
      exact ⟨pre, e0, by simp [hj, he], hs⟩
    · simp
    · simp
  | wake w =>
    obtain ⟨st, rfl, hp, hb, hr⟩ := lstep_wake.1 h
    cases hr
    have hj : proj w (es ++ [.wake w]) = proj w es ++ [.wake w] := by simp [proj_snoc, own, evW]
    simp only [evW]
    constructor
    · intro i hi
      simp only [pos, Option.some.injEq] at hi; subst hi
      exact ⟨proj w es, .wake w, by simp [hj, failedTries], Or.inl rfl⟩
    · simp
    · simp
    · simp
  | timeout w =>
    obtain ⟨st, rfl, hp, hb, hr⟩ := lstep_timeout.1 h
    cases hr
    constructor <;> simp [pos]
  | notify w k =>
    obtain ⟨st, rfl, hk, hr⟩ := lstep_notify.1 h
    cases hr
    have hj : proj w (es ++ [.notify w k]) = proj w es := by simp [proj_snoc, own]
    have hi := ho st rfl
    simp only [evW] at hi ⊢
    constructor
    · rw [hj]; exact hi.scanning
    · rw [hj]; exact hi.blocked
    · rw [hj]; exact hi.gotElem
    · rw [hj]; exact hi.aborted
  | abort w =>
    obtain ⟨st, rfl, hp, hr⟩ := lstep_abort.1 h
    cases hr
    have hj : proj w (es ++ [.abort w]) = proj w es ++ [.abort w] := by simp [proj_snoc, own, evW]
    have hi := ho st rfl
    simp only [evW] at hi ⊢
    cases hpi : pos st.phase with
    | none => exact absurd hpi hp
    | some i =>
      obtain ⟨pre, e0, he, hs⟩ := hi.scanning i hpi
      constructor
      · simp [pos]
      · simp
      · simp
      · intro _
        exact ⟨pre, e0, i, [], by simp [hj, he], hs, by simp⟩
  | unreg w k =>
    obtain ⟨st, rfl, hp, hr⟩ := lstep_unreg.1 h
    cases hr
    have hj : proj w (es ++ [.unreg w k]) = proj w es ++ [.unreg w k] := by
      simp [proj_snoc, own, evW]
    have hi := ho st rfl
    simp only [evW] at hi ⊢
    obtain ⟨hp1, hp2⟩ := returned_pos hp
    constructor
    · intro i h; simp only at h; rw [h] at hp1; cases hp1
    · intro h; exact absurd h hp2
    · intro k' hk'
      obtain ⟨pre, e0, i, post, he, hs, hk, hpost⟩ := hi.gotElem k' hk'
      refine ⟨pre, e0, i, post ++ [.unreg w k], by simp [hj, he], hs, hk, ?_⟩
      intro e' he'
      rcases List.mem_append.1 he' with h | h
      · exact hpost e' h
      · simp only [List.mem_singleton] at h; exact ⟨k, h⟩
    · intro hk'
      obtain ⟨pre, e0, i, post, he, hs, hpost⟩ := hi.aborted hk'
      refine ⟨pre, e0, i, post ++ [.unreg w k], by simp [hj, he], hs, ?_⟩
      intro e' he'
      rcases List.mem_append.1 he' with h | h
      · exact hpost e' h
      · simp only [List.mem_singleton] at h; exact ⟨k, h⟩
  | fin w =>
    obtain ⟨st, _, _, hr⟩ := lstep_fin.1 h
    cases hr

theorem roundInv {es : List Ev} {s : BState} (h : runAll [] es = some s) {w : W} {st : WSt}
    (hg : get s w = some st) : RoundInv es w st :=
  trace_local_invariant (P := RoundInv) roundInv_other roundInv_step h hg

/-! ## what the ghost `seen` means -/

/-- `k ∈ seen`: the waiter has made a failed pop attempt on k, and no push to k has been offered to it
    since -/
def SeenInv (es : List Ev) (w : W) (st : WSt) : Prop :=
  ∀ k ∈ st.seen, ∃ pre post, es = pre ++ .try_ w k false :: post ∧ Ev.notify w k ∉ post

theorem seenInv_extend {es : List Ev} {w : W} {st st' : WSt} (e : Ev) (hi : SeenInv es w st)
    (hsub : ∀ k ∈ st'.seen, k ∈ st.seen ∧ e ≠ .notify w k) : SeenInv (es ++ [e]) w st' := by
  intro k hk
  obtain ⟨h1, h2⟩ := hsub k hk
  obtain ⟨pre, post, rfl, hn⟩ := hi k h1
  refine ⟨pre, post ++ [e], by simp, ?_⟩
  intro hmem
  rcases List.mem_append.1 hmem with h | h
  · exact hn h
  · simp only [List.mem_singleton] at h; exact h2 h.symm

theorem seenInv_other (es : List Ev) (w : W) (st : WSt) (e : Ev) (hi : SeenInv es w st)
    (hw : evW e ≠ w) : SeenInv (es ++ [e]) w st :=
  seenInv_extend e hi (fun k hk => ⟨hk, fun he => hw (by rw [he]; rfl)⟩)

theorem seenInv_step (es : List Ev) (o : Option WSt) (e : Ev) (st' : WSt)
    (ho : ∀ st, o = some st → SeenInv es (evW e) st)
    (h : lstep o e = some (some st')) : SeenInv (es ++ [e]) (evW e) st' := by
  cases e with
  | reg w k =>
    obtain ⟨hp, hr⟩ := lstep_reg.1 h
    cases hr
    cases o with
    | none => intro k hk; simp at hk
    | some st => exact seenInv_extend _ (ho st rfl) (fun k hk => ⟨hk, by simp⟩)
  | try_ w k got =>
    obtain ⟨st, i, rfl, hp, hk, hr⟩ := lstep_try.1 h
    have hi := ho st rfl
    cases got with
    | true =>
      simp only [if_true, Option.some.injEq] at hr; subst hr
      exact seenInv_extend _ hi (fun k hk => ⟨hk, by simp⟩)
    | false =>
      simp only [Bool.false_eq_true, if_false, Option.some.injEq] at hr; subst hr
      intro k' hk'
      simp only [List.mem_cons] at hk'
      rcases hk' with rfl | hk'
      · exact ⟨es, [], by simp [evW], by simp⟩
      · exact seenInv_extend (st' := st) _ hi (fun k hk => ⟨hk, by simp⟩) k' hk'
  | block w t =>
    obtain ⟨st, rfl, hp, hr⟩ := lstep_block.1 h
    cases hr
    exact seenInv_extend _ (ho st rfl) (fun k hk => ⟨hk, by simp⟩)
  | wake w =>
    obtain ⟨st, rfl, hp, hb, hr⟩ := lstep_wake.1 h
    cases hr
    exact seenInv_extend _ (ho st rfl) (fun k hk => ⟨hk, by simp⟩)
  | timeout w =>
    obtain ⟨st, rfl, hp, hb, hr⟩ := lstep_timeout.1 h
    cases hr
    exact seenInv_extend _ (ho st rfl) (fun k hk => ⟨hk, by simp⟩)
  | notify w k =>
    obtain ⟨st, rfl, hk, hr⟩ := lstep_notify.1 h
    cases hr
    refine seenInv_extend _ (ho st rfl) (fun k' hk' => ?_)
    simp only [List.mem_filter, bne_iff_ne, ne_eq] at hk'
    exact ⟨hk'.1, by simpa [evW] using fun h => hk'.2 h.symm⟩
  | abort w =>
    obtain ⟨st, rfl, hp, hr⟩ := lstep_abort.1 h
    cases hr
    exact seenInv_extend _ (ho st rfl) (fun k hk => ⟨hk, by simp⟩)
  | unreg w k =>
    obtain ⟨st, rfl, hp, hr⟩ := lstep_unreg.1 h
    cases hr
    exact seenInv_extend _ (ho st rfl) (fun k hk => ⟨hk, by simp⟩)
  | fin w =>
    obtain ⟨st, _, _, hr⟩ := lstep_fin.1 h
    cases hr

theorem seenInv {es : List Ev} {s : BState} (h : runAll [] es = some s) {w : W} {st : WSt}
    (hg : get s w = some st) : SeenInv es w st :=
  trace_local_invariant (P := SeenInv) seenInv_other seenInv_step h hg

/-! ## persistence along a run (from any state) -/

/-- a waiter that has started trying stays out of `registering` for as long as it is there -/
theorem started_persists {s0 s : BState} {es : List Ev} {w : W} (h : runAll s0 es = some s)
    (h0 : ∃ st, get s0 w = some st ∧ st.phase ≠ .registering) (hfin : Ev.fin w ∉ es) :
    ∃ st, get s w = some st ∧ st.phase ≠ .registering := by
  induction es generalizing s0 with
  | nil => simp only [runAll, Option.some.injEq] at h; subst h; exact h0
  | cons e es ih =>
    simp only [runAll] at h
    cases hse : step s0 e with
    | none => simp [hse] at h
    | some s1 =>
      simp only [hse, Option.bind_some] at h
      simp only [List.mem_cons, not_or] at hfin
      refine ih h ?_ hfin.2
      obtain ⟨st, hg, hp⟩ := h0
      by_cases hw : w = evW e
      · subst hw
        have hl := step_local hse
        rw [hg] at hl
        cases e with
        | reg w k => obtain ⟨hp', _⟩ := lstep_reg.1 hl; exact absurd hp' hp
        | try_ w k got =>
          obtain ⟨st0, i, h1, _, _, hr⟩ := lstep_try.1 hl
          cases got <;> (simp at hr; exact ⟨_, hr, by simp⟩)
        | block w t =>
          obtain ⟨st0, h1, _, hr⟩ := lstep_block.1 hl; exact ⟨_, hr, by simp⟩
        | wake w => obtain ⟨st0, h1, _, _, hr⟩ := lstep_wake.1 hl; exact ⟨_, hr, by simp⟩
        | timeout w => obtain ⟨st0, h1, _, _, hr⟩ := lstep_timeout.1 hl; exact ⟨_, hr, by simp⟩
        | notify w k =>
          obtain ⟨st0, h1, _, hr⟩ := lstep_notify.1 hl; cases h1; exact ⟨_, hr, by simpa using hp⟩
        | abort w => obtain ⟨st0, h1, _, hr⟩ := lstep_abort.1 hl; exact ⟨_, hr, by simp⟩
        | unreg w k =>
          obtain ⟨st0, h1, _, hr⟩ := lstep_unreg.1 hl; cases h1; exact ⟨_, hr, by simpa using hp⟩
        | fin w => exact absurd rfl hfin.1
      · rw [← step_frame hse hw] at hg; exact ⟨st, hg, hp⟩

/-- a waiter that has left stays away until somebody registers under its name again -/
theorem gone_persists {s0 s : BState} {es : List Ev} {w : W} (h : runAll s0 es = some s)
    (h0 : get s0 w = none) (hreg : ∀ k, Ev.reg w k ∉ es) : get s w = none := by
  induction es generalizing s0 with
  | nil => simp only [runAll, Option.some.injEq] at h; subst h; exact h0
  | cons e es ih =>
    simp only [runAll] at h
    cases hse : step s0 e with
    | none => simp [hse] at h
    | some s1 =>
      simp only [hse, Option.bind_some] at h
      refine ih h ?_ (fun k hk => hreg k (List.mem_cons_of_mem _ hk))
      by_cases hw : w = evW e
      · subst hw
        have hl := step_local hse
        rw [h0] at hl
        cases e with
        | reg w k => exact absurd (List.mem_cons_self) (hreg k)
        | try_ w k got => obtain ⟨st0, i, h1, _⟩ := lstep_try.1 hl; cases h1
        | block w t => obtain ⟨st0, h1, _⟩ := lstep_block.1 hl; cases h1
        | wake w => obtain ⟨st0, h1, _⟩ := lstep_wake.1 hl; cases h1
        | timeout w => obtain ⟨st0, h1, _⟩ := lstep_timeout.1 hl; cases h1
        | notify w k => obtain ⟨st0, h1, _⟩ := lstep_notify.1 hl; cases h1
        | abort w => obtain ⟨st0, h1, _⟩ := lstep_abort.1 hl; cases h1
        | unreg w k => obtain ⟨st0, h1, _⟩ := lstep_unreg.1 hl; cases h1
        | fin w => obtain ⟨st0, h1, _⟩ := lstep_fin.1 hl; cases h1
      · rw [step_frame hse hw]; exact h0

end NodisVerif.Proofs.Block
