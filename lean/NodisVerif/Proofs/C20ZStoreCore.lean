import NodisVerif.Proofs.C20HFloat
/-
  C20, ZUnionStore / ZInterStore, part 1: the computation (`zunionCore` / `zinterCore`) only reads.
  On a state satisfying the storage invariant it keeps invariant, logical keyspace and feed, and its
  result is a function (`zcoreSpec`) of what the operand names show at `now` — missing, expired (the
  same thing: `lookup … = none`), of another type, or a sorted set.
-/
namespace NodisVerif.Proofs.C20
open NodisVerif NodisVerif.Store NodisVerif.Spec.Persist NodisVerif.Proofs.C11

variable {now : Int}

/-! ### one operand -/

/-- what `readKey` reports, in terms of the logical content of the name -/
theorem readKey_val {s : MState} (h : StoreInv s now) (k : Bytes) :
    match lookup s now k with
    | none => (readKey s now k).2 = false
    | some (v, _) => (readKey s now k).2 = true ∧ valOf (readKey s now k).1 k = some v := by
  have ks := readKey_spec h (Int.le_refl now) k
  cases hL : lookup s now k with
  | none => exact (ks.miss hL rfl).1
  | some c =>
    obtain ⟨v, e⟩ := c
    obtain ⟨hok, _, m, hm, hv, _, _⟩ := ks.hit v e hL
    exact ⟨hok, by simp [valOf, getMeta, hm, hv]⟩

/-! ### the union -/

/-- `zunionCore.go` on the logical keyspace `K` -/
def unionGo (K : Bytes → Option (Val × Int)) (weights : List F64) (agg : Bytes) :
    List (Bytes × Nat) → Option (AList F64) → Option (Option (AList F64))
  | [], acc => some acc
  | (k, i) :: rest, acc =>
    match K k with
    | none => unionGo K weights agg rest acc
    | some (.zset z, _) =>
      match DsZSet.forEachByRank z 0 (-1) false with
      | none => none
      | some items =>
        unionGo K weights agg rest
          (items.foldl (fun a it => a.bind fun a => Api.aggregate agg (Api.weightAt weights i) a it) acc)
    | some _ => none

theorem lookup_fun {s s' : MState} (k : Kept now s s') : lookup s' now = lookup s now := funext k.look

theorem unionGo_spec (weights : List F64) (agg : Bytes) (ks : List (Bytes × Nat)) :
    ∀ (s : MState) (acc : Option (AList F64)), StoreInv s now →
    Kept now s (Api.zunionCore.go now weights agg ks s acc).1 ∧
    (Api.zunionCore.go now weights agg ks s acc).2 = unionGo (lookup s now) weights agg ks acc := by
  induction ks with
  | nil => intro s acc h; exact ⟨Kept.refl h, rfl⟩
  | cons e rest ih =>
    obtain ⟨k, i⟩ := e
    intro s acc h
    have k1 := readKey_kept h k
    have rv := readKey_val h k
    unfold Api.zunionCore.go
    rw [unionGo]
    generalize readKey s now k = q at k1 rv
    obtain ⟨s1, ok⟩ := q
    simp only at k1 rv ⊢
    cases hL : lookup s now k with
    | none =>
      rw [hL] at rv
      simp only at rv
      subst rv
      simp only [Bool.not_false, if_true]
      obtain ⟨a, b⟩ := ih s1 acc k1.inv
      exact ⟨k1.trans a, by rw [b, lookup_fun k1]⟩
    | some c =>
      obtain ⟨v, e⟩ := c
      rw [hL] at rv
      obtain ⟨hok, hv⟩ := rv
      subst hok
      simp only [Bool.not_true, Bool.false_eq_true, if_false, Api.asZSet, hv]
      cases v with
      | zset z =>
        simp only
        cases DsZSet.forEachByRank z 0 (-1) false with
        | none => exact ⟨k1, rfl⟩
        | some items =>
          simp only
          obtain ⟨a, b⟩ := ih s1 _ k1.inv
          exact ⟨k1.trans a, by rw [b, lookup_fun k1]⟩
      | _ => exact ⟨k1, rfl⟩

/-! ### the intersection -/

/-- `zinterCore.go.inner`: is member `m` of operand `i` in every other operand? (`none` = panic) -/
def interInner (K : Bytes → Option (Val × Int)) (i : Nat) : List (Bytes × Nat) → Bytes → Option Bool
  | [], _ => some true
  | (o, j) :: more, m =>
    if j = i then interInner K i more m else
    match K o with
    | none => none
    | some (.zset oz, _) => if DsZSet.zExists oz m then interInner K i more m else some false
    | some _ => none

def interOuter (K : Bytes → Option (Val × Int)) (keys : List Bytes) (weights : List F64) (agg : Bytes) (i : Nat) :
    List DsZSet.Item → Option (AList F64) → Option (Option (AList F64))
  | [], acc => some acc
  | it :: more, acc =>
    match interInner K i keys.zipIdx it.2 with
    | none => none
    | some found =>
      interOuter K keys weights agg i more
        (if found then acc.bind fun a => Api.aggregate agg (Api.weightAt weights i) a it else acc)

def interGo (K : Bytes → Option (Val × Int)) (keys : List Bytes) (weights : List F64) (agg : Bytes) :
    List (Bytes × Nat) → Option (AList F64) → Option (Option (AList F64))
  | [], acc => some acc
  | (k, i) :: rest, acc =>
    match K k with
    | none => some (some [])
    | some (.zset z, _) =>
      match DsZSet.forEachByRank z 0 (-1) false with
      | none => none
      | some items =>
        match interOuter K keys weights agg i items acc with
        | none => none
        | some acc => interGo K keys weights agg rest acc
    | some _ => none

theorem interInner_spec (i : Nat) (m : Bytes) (js : List (Bytes × Nat)) :
    ∀ (s : MState), StoreInv s now →
    Kept now s (Api.zinterCore.go.inner now i js s m).1 ∧
    (Api.zinterCore.go.inner now i js s m).2 = interInner (lookup s now) i js m := by
  induction js with
  | nil => intro s h; exact ⟨Kept.refl h, rfl⟩
  | cons e more ih =>
    obtain ⟨o, j⟩ := e
    intro s h
    have k1 := readKey_kept h o
    have rv := readKey_val h o
    unfold Api.zinterCore.go.inner
    rw [interInner]
    generalize readKey s now o = q at k1 rv
    obtain ⟨s1, ok⟩ := q
    simp only at k1 rv ⊢
    by_cases hj : j = i
    · simp only [hj, if_true]
      obtain ⟨a, b⟩ := ih s1 k1.inv
      exact ⟨k1.trans a, by rw [b, lookup_fun k1]⟩
    · simp only [hj, if_false]
      cases hL : lookup s now o with
      | none =>
        rw [hL] at rv
        simp only at rv
        subst rv
        exact ⟨k1, rfl⟩
      | some c =>
        obtain ⟨v, e⟩ := c
        rw [hL] at rv
        obtain ⟨hok, hv⟩ := rv
        subst hok
        simp only [Bool.not_true, Bool.false_eq_true, if_false, Api.asZSet, hv]
        cases v with
        | zset oz =>
          simp only
          by_cases hx : DsZSet.zExists oz m = true
          · simp only [hx, if_true]
            obtain ⟨a, b⟩ := ih s1 k1.inv
            exact ⟨k1.trans a, by rw [b, lookup_fun k1]⟩
          · simp only [hx, Bool.false_eq_true, if_false]
            exact ⟨k1, trivial⟩
        | _ => exact ⟨k1, rfl⟩

theorem interOuter_spec (keys : List Bytes) (weights : List F64) (agg : Bytes) (i : Nat) (its : List DsZSet.Item) :
    ∀ (s : MState) (acc : Option (AList F64)), StoreInv s now →
    Kept now s (Api.zinterCore.go.outer now keys weights agg i its s acc).1 ∧
    (Api.zinterCore.go.outer now keys weights agg i its s acc).2 =
      interOuter (lookup s now) keys weights agg i its acc := by
  induction its with
  | nil => intro s acc h; exact ⟨Kept.refl h, rfl⟩
  | cons it more ih =>
    intro s acc h
    obtain ⟨k1, e1⟩ := interInner_spec (now := now) i it.2 keys.zipIdx s h
    unfold Api.zinterCore.go.outer
    rw [interOuter]
    generalize Api.zinterCore.go.inner now i keys.zipIdx s it.2 = q at k1 e1
    obtain ⟨s1, found⟩ := q
    simp only at k1 e1 ⊢
    rw [← e1]
    cases found with
    | none => exact ⟨k1, rfl⟩
    | some f =>
      simp only
      obtain ⟨a, b⟩ := ih s1 _ k1.inv
      exact ⟨k1.trans a, by rw [b, lookup_fun k1]⟩

theorem interGo_spec (keys : List Bytes) (weights : List F64) (agg : Bytes) (ks : List (Bytes × Nat)) :
    ∀ (s : MState) (acc : Option (AList F64)), StoreInv s now →
    Kept now s (Api.zinterCore.go now keys weights agg ks s acc).1 ∧
    (Api.zinterCore.go now keys weights agg ks s acc).2 = interGo (lookup s now) keys weights agg ks acc := by
  induction ks with
  | nil => intro s acc h; exact ⟨Kept.refl h, rfl⟩
  | cons e rest ih =>
    obtain ⟨k, i⟩ := e
    intro s acc h
    have k1 := readKey_kept h k
    have rv := readKey_val h k
    unfold Api.zinterCore.go
    rw [interGo]
    generalize readKey s now k = q at k1 rv
    obtain ⟨s1, ok⟩ := q
    simp only at k1 rv ⊢
    cases hL : lookup s now k with
    | none =>
      rw [hL] at rv
      simp only at rv
      subst rv
      exact ⟨k1, rfl⟩
    | some c =>
      obtain ⟨v, e⟩ := c
      rw [hL] at rv
      obtain ⟨hok, hv⟩ := rv
      subst hok
      simp only [Bool.not_true, Bool.false_eq_true, if_false, Api.asZSet, hv]
      cases v with
      | zset z =>
        simp only
        cases DsZSet.forEachByRank z 0 (-1) false with
        | none => exact ⟨k1, rfl⟩
        | some items =>
          simp only
          obtain ⟨k2, e2⟩ := interOuter_spec (now := now) keys weights agg i items s1 acc k1.inv
          generalize Api.zinterCore.go.outer now keys weights agg i items s1 acc = q2 at k2 e2
          obtain ⟨s2, r2⟩ := q2
          simp only at k2 e2 ⊢
          rw [← lookup_fun k1, ← e2]
          cases r2 with
          | none => exact ⟨k1.trans k2, rfl⟩
          | some acc2 =>
            simp only
            obtain ⟨a, b⟩ := ih s2 acc2 k2.inv
            exact ⟨(k1.trans k2).trans a, by rw [b, lookup_fun k2]⟩
      | _ => exact ⟨k1, rfl⟩

/-! ### both -/

/-- the result of the computation on the logical keyspace `K`:
    `none` = the call panics, `some none` = unsupported arithmetic, `some (some items)` = the result -/
def zcoreSpec (union : Bool) (K : Bytes → Option (Val × Int)) (keys : List Bytes) (weights : List F64) (agg : Bytes) :
    Option (Option (List DsZSet.Item)) :=
  ((if union then unionGo K weights agg keys.zipIdx (some [])
    else interGo K keys weights agg keys.zipIdx (some [])).map
      fun o => o.map fun m => m.map fun (k, v) => (v, k))

theorem zcore_spec (union : Bool) {s : MState} (h : StoreInv s now) (keys : List Bytes) (weights : List F64)
    (agg : Bytes) :
    Kept now s ((if union then Api.zunionCore else Api.zinterCore) s now keys weights agg).1 ∧
    ((if union then Api.zunionCore else Api.zinterCore) s now keys weights agg).2 =
      zcoreSpec union (lookup s now) keys weights agg := by
  cases union with
  | true =>
    simp only [if_true, zcoreSpec]
    unfold Api.zunionCore
    obtain ⟨a, b⟩ := unionGo_spec (now := now) weights agg keys.zipIdx s (some []) h
    generalize Api.zunionCore.go now weights agg keys.zipIdx s (some []) = q at a b
    obtain ⟨s1, r⟩ := q
    simp only at a b ⊢
    exact ⟨a, by rw [b]⟩
  | false =>
    simp only [Bool.false_eq_true, if_false, zcoreSpec]
    unfold Api.zinterCore
    obtain ⟨a, b⟩ := interGo_spec (now := now) keys weights agg keys.zipIdx s (some []) h
    generalize Api.zinterCore.go now keys weights agg keys.zipIdx s (some []) = q at a b
    obtain ⟨s1, r⟩ := q
    simp only at a b ⊢
    exact ⟨a, by rw [b]⟩

end NodisVerif.Proofs.C20
