import NodisVerif.Proofs.C15Flat
/-
  C15: after a complete command the reader's window is empty (everything read has been consumed by
  `malloc()`), so nothing of one command's bytes leaks into the next.
-/
namespace NodisVerif.Proofs.C15
open Resp RespReader

local macro "zsplit" h:ident : tactic => `(tactic| ((try simp only at $h:ident); split at $h:ident))

theorem readByte_err {st : RState} {e : RErr} {st' : RState} (h : readByte st = .err e st') : st' = st ∧ e = .eof := by
  unfold readByte at h
  zsplit h
  · cases h; exact ⟨rfl, rfl⟩
  · cases h

theorem readInteger_ok_win {st : RState} {v : Int} {st' : RState} (h : readInteger st = .ok v st') : st'.win = [] := by
  unfold readInteger at h
  zsplit h
  · zsplit h
    · cases h; rfl
    · cases h
  · cases h
  · cases h

theorem readBulk_ok_win {st : RState} {v : Bytes} {st' : RState} (h : readBulk st = .ok v st') : st'.win = [] := by
  unfold readBulk at h
  zsplit h
  · cases h
  · cases h
  · zsplit h
    · cases h
    · zsplit h
      · cases h
      · cases h
      · zsplit h
        · cases h
        · zsplit h
          · cases h
          · cases h
          · zsplit h
            · cases h
            · cases h
            · cases h; rfl

theorem readBulks_ok_win : ∀ (k : Nat) (acc : List Bytes) {st : RState} {v : List Bytes} {st' : RState},
    st.win = [] → readBulks st k acc = .ok v st' → st'.win = [] := by
  intro k
  induction k with
  | zero => intro acc st v st' hw h; simp only [readBulks] at h; cases h; exact hw
  | succ k ih =>
    intro acc st v st' hw h
    rw [readBulks] at h
    zsplit h
    · rename_i hb; exact ih _ (readBulk_ok_win hb) h
    · cases h
    · cases h

theorem inlineArgs_ok_win : ∀ (fuel : Nat) (acc : List Bytes) {st : RState} {v : List Bytes} {st' : RState},
    st.win = [] → inlineArgs st fuel acc = .ok v st' → st'.win = [] := by
  intro fuel
  induction fuel with
  | zero => intro acc st v st' hw h; simp only [inlineArgs] at h; cases h; exact hw
  | succ fuel ih =>
    intro acc st v st' hw h
    rw [inlineArgs] at h
    zsplit h
    · rename_i hb
      obtain ⟨rfl, _⟩ := readByte_err hb
      cases h; exact hw
    · cases h
    · cases h
    · zsplit h
      · exact ih _ rfl h
      · zsplit h
        · cases h
        · cases h
        · zsplit h
          · cases h; rfl
          · exact ih _ rfl h

theorem readInline_ok_win {st : RState} {c : Cmd} {st' : RState} (h : readInline st = .ok c st') : st'.win = [] := by
  unfold readInline at h
  zsplit h
  · cases h
  · cases h
  · zsplit h
    · cases h; rfl
    · zsplit h
      · rename_i hi; cases h; exact inlineArgs_ok_win _ _ rfl hi
      · cases h
      · cases h

/-- after a successfully read command the window is empty -/
theorem readCommand_ok_win {src : Source} {c : Cmd} {st' : RState} (h : readCommand src = .ok c st') : st'.win = [] := by
  unfold readCommand at h
  simp only at h
  zsplit h
  · cases h
  · cases h
  · zsplit h
    · exact readInline_ok_win h
    · zsplit h
      · cases h
      · cases h
      · rename_i hi
        have hw := readInteger_ok_win hi
        zsplit h
        · cases h
        · cases h
        · rename_i hb; cases h; exact readBulks_ok_win _ _ hw hb
        · rename_i hb; cases h; exact readBulks_ok_win _ _ hw hb

end NodisVerif.Proofs.C15
