import NodisVerif.Proofs.C04Rem
/-
  Cursors as streams: what a walk from a skiplist node sees is the list of items ahead of it in the
  direction of the walk.  `walk` and `scoreLoop` are functions of that list only.
-/
namespace NodisVerif.Proofs.C04
open AListLemmas ZSetLemmas DsZSet

/-- the node under the cursor followed by everything a walk in direction `desc` will meet -/
def Cursor.stream (desc : Bool) (c : Cursor) : List Item :=
  c.cur :: (if desc then (if c.isHeader then [] else c.back) else c.fwd)

def ostream (desc : Bool) : Option Cursor → List Item
  | none => []
  | some c => Cursor.stream desc c

def step (desc : Bool) (c : Cursor) : Option Cursor := if desc then c.prev else c.next

theorem ostream_step (desc : Bool) (c : Cursor) :
    ostream desc (step desc c) = (Cursor.stream desc c).tail := by
  cases desc with
  | false =>
    simp only [step, Bool.false_eq_true, if_false, Cursor.next, Cursor.stream, List.tail_cons]
    cases c.fwd with
    | nil => rfl
    | cons n f => simp [ostream, Cursor.stream]
  | true =>
    simp only [step, if_true, Cursor.prev, Cursor.stream, List.tail_cons]
    by_cases hh : c.isHeader = true
    · simp [hh, ostream]
    · simp only [hh, Bool.false_eq_true, if_false]
      cases c.back with
      | nil => rfl
      | cons p b => simp [ostream, Cursor.stream]

theorem ostream_eq_nil (desc : Bool) (oc : Option Cursor) : ostream desc oc = [] ↔ oc = none := by
  cases oc with
  | none => simp [ostream]
  | some c => simp [ostream, Cursor.stream]

theorem ostream_head (desc : Bool) (c : Cursor) : (ostream desc (some c)).head? = some c.cur := rfl

/-! ### `walk` -/

theorem walk_eq (desc : Bool) : ∀ (k : Nat) (oc : Option Cursor) (acc : List Item),
    walk desc oc k acc =
      if k ≤ (ostream desc oc).length then some (acc.reverse ++ (ostream desc oc).take k) else none := by
  intro k
  induction k with
  | zero => intro oc acc; simp [walk]
  | succ k ih =>
    intro oc acc
    cases oc with
    | none => simp [walk, ostream]
    | some c =>
      have hw : walk desc (some c) (k + 1) acc = walk desc (step desc c) k (c.cur :: acc) := rfl
      rw [hw, ih, ostream_step]
      have hs : ostream desc (some c) = c.cur :: (Cursor.stream desc c).tail := rfl
      rw [hs]
      simp only [List.length_cons, Nat.add_le_add_iff_right, List.reverse_cons, List.take_succ_cons,
        List.append_assoc, List.singleton_append]

/-! ### `cursorAt`, `getByRank` -/

theorem ostream_cursorAt_asc (sl : List Item) (i : Nat) : ostream false (cursorAt sl i) = sl.drop i := by
  unfold cursorAt
  cases h : sl.drop i with
  | nil => rfl
  | cons c f => simp [ostream, Cursor.stream]

theorem ostream_cursorAt_desc (sl : List Item) (i : Nat) :
    ostream true (cursorAt sl i) = if i < sl.length then (sl.take (i + 1)).reverse else [] := by
  unfold cursorAt
  cases h : sl.drop i with
  | nil =>
    have : sl.length ≤ i := List.drop_eq_nil_iff.mp h
    have hn : ¬ i < sl.length := by omega
    simp [ostream, hn]
  | cons c f =>
    have hlt : i < sl.length := by
      rcases Nat.lt_or_ge i sl.length with h' | h'
      · exact h'
      · rw [List.drop_eq_nil_iff.mpr h'] at h; cases h
    have hc : sl[i] = c := by
      have := List.getElem_drop (xs := sl) (i := i) (j := 0) (h := by simp; omega)
      simp only [h, List.getElem_cons_zero, Nat.add_zero] at this
      exact this.symm
    simp only [ostream, Cursor.stream, Bool.false_eq_true, if_false, if_true, hlt]
    rw [List.take_succ_eq_append_getElem hlt, hc]
    simp

/-! ### the score loop on streams -/

/-- `scoreLoop` as a function of the list of items the walk meets -/
def loopS (min max : F64) (mode : Nat) (limit : Int) : List Item → Int → Nat → List Item → List Item
  | [], _, _, acc => acc.reverse
  | _ :: _, _, 0, acc => acc.reverse
  | c :: rest, offset, fuel + 1, acc =>
    if !(F64.le min c.1 && F64.le c.1 max) then acc.reverse else
    if (mode % 2 = 1 ∧ F64.eq c.1 min) ∨ (mode / 2 % 2 = 1 ∧ F64.eq c.1 max) then
      loopS min max mode limit rest offset fuel acc
    else if offset > 0 then loopS min max mode limit rest (offset - 1) fuel acc
    else
      if limit > 0 ∧ (((c :: acc).length : Nat) : Int) = limit then (c :: acc).reverse
      else loopS min max mode limit rest offset fuel (c :: acc)

theorem scoreLoop_eq (desc : Bool) (min max : F64) (mode : Nat) (limit : Int) :
    ∀ (fuel : Nat) (oc : Option Cursor) (offset : Int) (acc : List Item),
      scoreLoop desc min max mode limit oc offset fuel acc
        = loopS min max mode limit (ostream desc oc) offset fuel acc := by
  intro fuel
  induction fuel with
  | zero =>
    intro oc offset acc
    cases oc with
    | none => simp [scoreLoop, ostream, loopS]
    | some c => simp [scoreLoop, ostream, Cursor.stream, loopS]
  | succ fuel ih =>
    intro oc offset acc
    cases oc with
    | none => simp [scoreLoop, ostream, loopS]
    | some c =>
      have hst := ostream_step desc c
      unfold step at hst
      have hs : ostream desc (some c) = c.cur :: (Cursor.stream desc c).tail := rfl
      rw [hs]
      unfold scoreLoop loopS
      simp only [ih, hst]

end NodisVerif.Proofs.C04
