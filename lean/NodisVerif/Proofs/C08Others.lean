import NodisVerif.Proofs.C08
/-
  C08 — what a step of connection c does to the *other* connections, the store effects of a step
  (`stepOuts`), and the state of a connection that is inside MULTI.
-/
namespace NodisVerif.Proofs.C08Step
open Resp Server
open NodisVerif.Proofs.AListLemmas2

/-- everything about connections other than `id` is as before, except that watch flags may have
    been set to true -/
structure Others (id : String) (sv sv' : Server) : Prop where
  state : ∀ i, i ≠ id → (sv'.conn i).state = (sv.conn i).state
  queue : ∀ i, i ≠ id → (sv'.conn i).queue = (sv.conn i).queue
  watch : ∀ i, i ≠ id → ∀ x, AList.get? (sv'.conn i).watch x = AList.get? (sv.conn i).watch x ∨
                              AList.get? (sv'.conn i).watch x = some true
  reg : ∀ i, i ≠ id → ∀ x, registered sv' i x ↔ registered sv i x

theorem Others.refl (id : String) (sv : Server) : Others id sv sv :=
  ⟨fun _ _ => rfl, fun _ _ => rfl, fun _ _ _ => Or.inl rfl, fun _ _ _ => Iff.rfl⟩

theorem Others.trans {id : String} {a b c : Server} (h₁ : Others id a b) (h₂ : Others id b c) : Others id a c := by
  refine ⟨fun i hi => (h₂.state i hi).trans (h₁.state i hi), fun i hi => (h₂.queue i hi).trans (h₁.queue i hi), ?_,
    fun i hi x => (h₂.reg i hi x).trans (h₁.reg i hi x)⟩
  intro i hi x
  rcases h₂.watch i hi x with h | h
  · rw [h]; exact h₁.watch i hi x
  · exact Or.inr h

/-- connections other than `id` are literally the same -/
theorem Others.of_same {id : String} {a b : Server} (hc : ∀ i, i ≠ id → b.conn i = a.conn i)
    (hr : ∀ i, i ≠ id → ∀ x, registered b i x ↔ registered a i x) : Others id a b :=
  ⟨fun i hi => by rw [hc i hi], fun i hi => by rw [hc i hi], fun i hi x => Or.inl (by rw [hc i hi]), hr⟩

theorem Others.setConn (id : String) (sv : Server) (c : ConnState) : Others id sv (sv.setConn id c) :=
  Others.of_same (fun _ hi => conn_setConn_other _ _ _ _ hi) (fun _ _ _ => Iff.rfl)

theorem Others.resetConn (id : String) (sv : Server) : Others id sv (resetConn sv id) :=
  Others.of_same (fun i hi => resetConn_conn_other _ _ _ hi) (fun i hi x => by
    rw [resetConn_registered]; constructor
    · exact fun h => h.1
    · exact fun h => ⟨h, fun h' => hi h'.1⟩)

theorem Others.unwatchAll (id : String) (sv : Server) : Others id sv (unwatchAll sv id) :=
  Others.of_same (fun i hi => unwatchAll_conn_other _ _ _ hi) (fun i hi x => by
    rw [unwatchAll_registered]; constructor
    · exact fun h => h.1
    · exact fun h => ⟨h, fun h' => hi h'.1⟩)

theorem Others.watchLoop (id : String) (keys : List Bytes) (sv : Server) : Others id sv (watchLoop id keys sv) :=
  Others.of_same (fun i hi => watchLoop_conn_other id i hi keys sv) (fun i hi x => by
    rw [watchLoop_registered]; constructor
    · rintro (h | ⟨h, _⟩)
      · exact h
      · exact absurd h hi
    · exact fun h => Or.inl h)

theorem Others.afterHandler (id : String) (sv : Server) (toks : List Tok) : Others id sv (afterHandler sv id toks) :=
  Others.of_same (fun _ hi => afterHandler_conn_other _ _ _ _ hi)
    (fun i _ x => registered_congr (afterHandler_registry _ _ _) i x)

theorem Others.flaggedC {S : String → Bytes → Prop} {sv sv' : Server} (f : FlaggedC S sv sv') (id : String) : Others id sv sv' :=
  ⟨fun i _ => f.state i, fun i _ => f.queue i, fun i _ x => f.watch_or i x, fun i _ x => registered_congr f.registry i x⟩

theorem Others.runBody (id : String) (sv : Server) (now : Int) (ch : Choice) (b : Body) :
    Others id sv (runBody sv now ch b).1 := Others.flaggedC (runBody_flagged sv now ch b) id

theorem Others.execCommand (id : String) (sv : Server) (now : Int) (ch : Choice) (b : Body) :
    Others id sv (execCommand sv id now ch b).1 := by
  rw [execCommand_eq]; split
  · exact Others.runBody _ _ _ _ _
  · exact Others.setConn _ _ _

theorem Others.exec (id : String) (sv : Server) (now : Int) : Others id sv (exec sv id now).1 := by
  rw [exec_eq]; simp only
  split; · exact Others.resetConn _ _
  split; · exact Others.resetConn _ _
  split; · exact Others.resetConn _ _
  split; · exact Others.resetConn _ _
  exact ((Others.setConn id sv _).trans (Others.flaggedC (execLoop_spec now _ _ _).2.2 id)).trans (Others.resetConn _ _)

theorem Others.dispatch (H : Table) (sv : Server) (c : Cmd) : Others c.id sv (dispatch H sv c).1 := by
  by_cases h1 : c.name = "MULTI"
  · rw [dispatch_multi H sv c h1, multi_eq]; split
    · exact Others.refl _ _
    · exact Others.setConn _ _ _
  by_cases h2 : c.name = "EXEC"
  · rw [dispatch_exec H sv c h2]; exact Others.exec _ _ _
  by_cases h3 : c.name = "DISCARD"
  · rw [dispatch_discard H sv c h3, discard_eq]; exact Others.resetConn _ _
  by_cases h4 : c.name = "WATCH"
  · rw [dispatch_watch H sv c h4, watch_eq]; split
    · exact Others.refl _ _
    · split
      · exact Others.refl _ _
      · exact Others.watchLoop _ _ _
  by_cases h5 : c.name = "UNWATCH"
  · rw [dispatch_unwatch H sv c h5]
    split
    · exact (Others.unwatchAll _ _).trans (Others.execCommand _ _ _ _ _)
    · exact Others.execCommand _ _ _ _ _
  have hs : ¬ special c.name := by
    unfold special; rintro (e | e | e | e | e) <;> contradiction
  rw [dispatch_table H sv c hs]
  split
  · exact Others.refl _ _
  · exact Others.refl _ _
  · exact Others.refl _ _
  · exact Others.execCommand _ _ _ _ _

/-- a step of connection `c.id` changes no other connection's state, queue or registrations; other
    connections' watch flags can only be set to true -/
theorem Others.step (H : Table) (sv : Server) (c : Cmd) : Others c.id sv (step H sv c).1 :=
  (Others.dispatch H sv c).trans (Others.afterHandler _ _ _)

/-! ### the store effects of one step -/

/-- EXEC runs the queue: prepared, no queue-time error, queue not empty, no watch flag set -/
def execRuns (cs : ConnState) : Prop :=
  cs.state % 2 = 1 ∧ (cs.state / 4) % 2 ≠ 1 ∧ cs.queue ≠ [] ∧ cs.watch.any (·.2) = false

instance (cs : ConnState) : Decidable (execRuns cs) := by unfold execRuns; exact inferInstance

/-- the outputs of the closures a step runs, in order (none if the command is only queued, refused
    or answered by the handler itself) -/
def stepOuts (H : Table) (sv : Server) (c : Cmd) : List BodyOut :=
  if c.name = "EXEC" then
    (if execRuns (sv.conn c.id) then execOuts sv.store c.now (sv.conn c.id).queue else [])
  else if c.name = "MULTI" ∨ c.name = "DISCARD" ∨ c.name = "WATCH" then []
  else if c.name = "UNWATCH" then
    (if runsNow (sv.conn c.id).state then [outOf sv.store c.now c.ch okBody] else [])
  else match H c.name c.args with
    | some (.exec b) => if runsNow (sv.conn c.id).state then [outOf sv.store c.now c.ch b] else []
    | _ => []

/-- the step's store effect passed key `x` to `signalModifiedKey`, or cleared the whole store -/
def stepTouches (H : Table) (sv : Server) (c : Cmd) (x : Bytes) : Prop :=
  ∃ o ∈ stepOuts H sv c, x ∈ o.store.signalled ∨ o.store.flushed = true

/-- the store after a step is the store after its last closure (unchanged if it ran none) -/
def lastStore (st : MState) : List BodyOut → MState
  | [] => st
  | o :: os => lastStore (storeAfter o) os

theorem lastStore_execOuts (now : Int) : ∀ (bs : List Body) (st : MState),
    lastStore st (execOuts st now bs) = execStore st now bs := by
  intro bs; induction bs with
  | nil => intro st; rfl
  | cons b rest ih => intro st; simp only [execOuts, lastStore, ih]; rfl

theorem exec_not_runs (sv : Server) (id : String) (now : Int) (h : ¬ execRuns (sv.conn id)) :
    (exec sv id now).1 = resetConn sv id := by
  rw [exec_eq]; simp only
  split; · rfl
  split; · rfl
  split; · rfl
  split; · rfl
  next h1 h2 h3 h4 =>
    exfalso; apply h
    refine ⟨by simpa using h1, h2, by simpa using h4, by simpa using h3⟩

/-- the store after a step is determined by the closures it ran, each started on the store its
    predecessor left -/
theorem step_store (H : Table) (sv : Server) (c : Cmd) :
    (step H sv c).1.store = lastStore sv.store (stepOuts H sv c) := by
  simp only [step, afterHandler_store]
  by_cases h2 : c.name = "EXEC"
  · rw [dispatch_exec H sv c h2]
    simp only [stepOuts, if_pos h2]
    by_cases hr : execRuns (sv.conn c.id)
    · rw [if_pos hr, lastStore_execOuts]
      exact (exec_runs sv c.id c.now hr.1 hr.2.1 hr.2.2.1 hr.2.2.2).1
    · rw [if_neg hr, exec_not_runs sv c.id c.now hr]; simp [lastStore]
  by_cases h1 : c.name = "MULTI"
  · rw [dispatch_multi H sv c h1, multi_eq]
    simp only [stepOuts, h1, true_or, if_true]
    split <;> rfl
  by_cases h3 : c.name = "DISCARD"
  · rw [dispatch_discard H sv c h3, discard_eq]
    simp [stepOuts, h3, lastStore]
  by_cases h4 : c.name = "WATCH"
  · rw [dispatch_watch H sv c h4, watch_eq]
    simp only [stepOuts, h4]
    split
    · simp [lastStore]
    · split
      · simp [lastStore]
      · simp [lastStore, watchLoop_store]
  have h134 : ¬ (c.name = "MULTI" ∨ c.name = "DISCARD" ∨ c.name = "WATCH") := by
    rintro (e | e | e) <;> contradiction
  by_cases h5 : c.name = "UNWATCH"
  · rw [dispatch_unwatch H sv c h5, execCommand_eq]
    simp only [stepOuts, if_neg h2, if_neg h134, if_pos h5]
    by_cases hr : runsNow (sv.conn c.id).state
    · have : runsNow ((unwatchAll sv c.id).conn c.id).state := by rw [unwatchAll_conn_same]; exact hr
      rw [if_pos hr, if_pos hr, if_pos this, runBody_store]; simp [lastStore]
    · rw [if_neg hr, if_neg hr, if_neg hr]; simp [lastStore]
  have hs : ¬ special c.name := by
    unfold special; rintro (e | e | e | e | e) <;> contradiction
  rw [dispatch_table H sv c hs]
  simp only [stepOuts, if_neg h2, if_neg h134, if_neg h5]
  cases hH : H c.name c.args with
  | none => simp [lastStore]
  | some r =>
    cases r with
    | direct ts => simp [lastStore]
    | crash => simp [lastStore]
    | exec b =>
      simp only
      rw [execCommand_eq]
      by_cases hr : runsNow (sv.conn c.id).state
      · rw [if_pos hr, if_pos hr, runBody_store]; simp [lastStore]
      · rw [if_neg hr, if_neg hr]; simp [lastStore]

/-- a step that runs no closure leaves the store and every other connection exactly as they were -/
theorem step_quiet (H : Table) (sv : Server) (c : Cmd) (hq : stepOuts H sv c = []) :
    (step H sv c).1.store = sv.store := by
  rw [step_store, hq]; rfl

/-! ### a connection inside MULTI -/

/-- while the prepare bit is set, any command of the connection other than EXEC / DISCARD leaves
    its state as it is, except that an error reply sets the MultiError bit -/
theorem step_state_in_multi (H : Table) (sv : Server) (c : Cmd)
    (hst : (sv.conn c.id).state % 2 = 1) (h2 : c.name ≠ "EXEC") (h3 : c.name ≠ "DISCARD") :
    ((step H sv c).1.conn c.id).state =
      (if (step H sv c).2.any isErr ∧ ((sv.conn c.id).state / 4) % 2 ≠ 1
       then (sv.conn c.id).state + multiError else (sv.conn c.id).state) ∧
    (step H sv c).1.store = sv.store := by
  have hr : ¬ runsNow (sv.conn c.id).state := by unfold runsNow multiCommit; omega
  have hne : (sv.conn c.id).state ≠ 0 := by omega
  have key : ∀ (d : Server × List Tok), d.1.store = sv.store → (d.1.conn c.id).state = (sv.conn c.id).state →
      ((afterHandler d.1 c.id d.2).conn c.id).state =
        (if d.2.any isErr ∧ ((sv.conn c.id).state / 4) % 2 ≠ 1
         then (sv.conn c.id).state + multiError else (sv.conn c.id).state) ∧
      (afterHandler d.1 c.id d.2).store = sv.store := by
    intro d hs hd
    rw [afterHandler_state, afterHandler_store, hd, hs]
    simp [hne]
  simp only [step]
  apply key
  · -- store
    by_cases h1 : c.name = "MULTI"
    · rw [dispatch_multi H sv c h1, multi_eq, if_pos hst]
    by_cases h4 : c.name = "WATCH"
    · rw [dispatch_watch H sv c h4, watch_eq, if_pos hst]
    by_cases h5 : c.name = "UNWATCH"
    · rw [dispatch_unwatch H sv c h5, if_neg hr, execCommand_eq, if_neg hr]; rfl
    have hs : ¬ special c.name := by
      unfold special; rintro (e | e | e | e | e) <;> contradiction
    rw [dispatch_table H sv c hs]
    split
    · rfl
    · rfl
    · rfl
    · rw [execCommand_eq, if_neg hr]; rfl
  · -- state
    by_cases h1 : c.name = "MULTI"
    · rw [dispatch_multi H sv c h1, multi_eq, if_pos hst]
    by_cases h4 : c.name = "WATCH"
    · rw [dispatch_watch H sv c h4, watch_eq, if_pos hst]
    by_cases h5 : c.name = "UNWATCH"
    · rw [dispatch_unwatch H sv c h5, if_neg hr, execCommand_eq, if_neg hr, conn_setConn_same, if_pos hst]
    have hs : ¬ special c.name := by
      unfold special; rintro (e | e | e | e | e) <;> contradiction
    rw [dispatch_table H sv c hs]
    split
    · rfl
    · rfl
    · rfl
    · rw [execCommand_eq, if_neg hr, conn_setConn_same, if_pos hst]

end NodisVerif.Proofs.C08Step
