import NodisVerif.Proofs.C11Prim
import NodisVerif.Model.Api
/-
  C11 / C12: `Api.setVal`, `Api.setExp`, `newKeyWith`, `writeKey`, `readKey`.
-/
namespace NodisVerif.Proofs.C11
open NodisVerif.Store NodisVerif.Codec NodisVerif.Spec.Persist
open NodisVerif.Proofs.AListLemmas NodisVerif.Proofs.AListLemmas2 NodisVerif.Proofs.C11AList

/-! ### setVal -/

def svIdx (m : Meta) (v : Val) (m' : Meta) : Meta :=
  if m'.oid = m.oid ∧ m'.value.isSome = true then { m' with value := some v } else m'
def svDisk (m : Meta) (v : Val) (e : DiskEntry) : DiskEntry :=
  if e.oid = m.oid then { e with val := v } else e

theorem setVal_mem {s : MState} {k : Bytes} {v : Val} {m : Meta} (hm : AList.get? s.index k = some m)
    (hp : s.pebble = false) (ho : m.oid ≠ 0) :
    Api.setVal s k v = { s with
      index := (AList.set s.index k { m with value := some v }).map (fun p => (p.1, svIdx m v p.2)),
      disk := s.disk.map (fun p => (p.1, svDisk m v p.2)) } := by
  simp only [Api.setVal, getMeta, hm, putMeta, hp, ho, Bool.false_eq_true, false_or, if_false]
  congr 1
  · apply List.map_congr_left
    intro p _
    simp only [svIdx]
    split <;> rfl
  · apply List.map_congr_left
    intro p _
    simp only [svDisk]
    split <;> rfl

theorem setVal_peb {s : MState} {k : Bytes} {v : Val} {m : Meta} (hm : AList.get? s.index k = some m)
    (hp : s.pebble = true ∨ m.oid = 0) :
    Api.setVal s k v = putMeta s k { m with value := some v } := by
  simp only [Api.setVal, getMeta, hm, putMeta, hp, if_true]

theorem setVal_none {s : MState} {k : Bytes} {v : Val} (hm : AList.get? s.index k = none) :
    Api.setVal s k v = s := by
  simp only [Api.setVal, getMeta, hm]

/-- index after `setVal` on a hot record: only that record changes -/
theorem get?_setVal_index {s : MState} {x : Option Bytes} {t : Int} (h : StoreInvX s x t) {k : Bytes}
    {m : Meta} (hm : AList.get? s.index k = some m) (_hv : m.value.isSome = true) (v : Val) (k' : Bytes) :
    AList.get? (Api.setVal s k v).index k' =
      if k' = k then some { m with value := some v } else AList.get? s.index k' := by
  by_cases hp : s.pebble = true ∨ m.oid = 0
  · rw [setVal_peb hm hp]; simp [putMeta, get?_set]
  · have hp' : s.pebble = false := by
      cases h1 : s.pebble with
      | true => exact absurd (Or.inl h1) hp
      | false => rfl
    have ho : m.oid ≠ 0 := fun e => hp (Or.inr e)
    rw [setVal_mem hm hp' ho]
    simp only []
    rw [get?_map (fun _ m' => svIdx m v m'), get?_set]
    by_cases hk : k' = k
    · simp [hk, svIdx]
    · simp only [hk, if_false]
      cases hm' : AList.get? s.index k' with
      | none => rfl
      | some m' =>
        simp only [Option.map_some, svIdx]
        have : m'.oid ≠ m.oid := fun e => hk ((h.oids hp').recInj k' m' k m hm' hm e)
        simp [this]

/-- what `setVal` does to a backend entry: the in-memory backend shares the value object -/
def svEnt (s : MState) (m : Meta) (v : Val) (e : DiskEntry) : DiskEntry :=
  if s.pebble = false ∧ m.oid ≠ 0 ∧ e.oid = m.oid then { e with val := v } else e

@[simp] theorem svEnt_name (s : MState) (m : Meta) (v : Val) (e : DiskEntry) : (svEnt s m v e).name = e.name := by
  unfold svEnt; split <;> rfl
@[simp] theorem svEnt_exp (s : MState) (m : Meta) (v : Val) (e : DiskEntry) : (svEnt s m v e).exp = e.exp := by
  unfold svEnt; split <;> rfl
@[simp] theorem svEnt_oid (s : MState) (m : Meta) (v : Val) (e : DiskEntry) : (svEnt s m v e).oid = e.oid := by
  unfold svEnt; split <;> rfl
theorem svEnt_val (s : MState) (m : Meta) (v : Val) (e : DiskEntry) :
    (svEnt s m v e).val = v ∨ (svEnt s m v e).val = e.val := by
  unfold svEnt; split
  · left; rfl
  · right; rfl
theorem svEnt_other {s : MState} {m : Meta} {v : Val} {e : DiskEntry}
    (h : ¬ (s.pebble = false ∧ m.oid ≠ 0 ∧ e.oid = m.oid)) : svEnt s m v e = e := by
  unfold svEnt; rw [if_neg h]

theorem get?_setVal_disk {s : MState} {k : Bytes} {m : Meta} (hm : AList.get? s.index k = some m)
    (v : Val) (dk : Bytes) :
    AList.get? (Api.setVal s k v).disk dk = (AList.get? s.disk dk).map (svEnt s m v) := by
  by_cases hp : s.pebble = true ∨ m.oid = 0
  · rw [setVal_peb hm hp]
    simp only [putMeta]
    cases AList.get? s.disk dk with
    | none => rfl
    | some e =>
      simp only [Option.map_some]
      rw [svEnt_other]
      rcases hp with hp | hp <;> simp [hp]
  · have hp' : s.pebble = false := by
      cases h1 : s.pebble with
      | true => exact absurd (Or.inl h1) hp
      | false => rfl
    have ho : m.oid ≠ 0 := fun e => hp (Or.inr e)
    rw [setVal_mem hm hp' ho]
    simp only []
    rw [get?_map (fun _ e => svDisk m v e)]
    cases AList.get? s.disk dk with
    | none => rfl
    | some e => simp [svDisk, svEnt, hp', ho]

theorem setVal_fields {s : MState} (k : Bytes) (v : Val) :
    (Api.setVal s k v).pebble = s.pebble ∧ (Api.setVal s k v).nextId = s.nextId ∧
    (Api.setVal s k v).failSet = s.failSet := by
  unfold Api.setVal
  cases getMeta s k with
  | none => exact ⟨rfl, rfl, rfl⟩
  | some m =>
    simp only []
    split <;> exact ⟨rfl, rfl, rfl⟩

theorem setVal_sorted {s : MState} {x : Option Bytes} {t : Int} (h : StoreInvX s x t) (k : Bytes) (v : Val) :
    AList.Sorted (Api.setVal s k v).index ∧ AList.Sorted (Api.setVal s k v).disk := by
  cases hm : AList.get? s.index k with
  | none => rw [setVal_none hm]; exact ⟨h.idxSorted, h.diskSorted⟩
  | some m =>
    by_cases hp : s.pebble = true ∨ m.oid = 0
    · rw [setVal_peb hm hp]
      exact ⟨set_preserves_sorted _ h.idxSorted _ _, h.diskSorted⟩
    · have hp' : s.pebble = false := by
        cases h1 : s.pebble with
        | true => exact absurd (Or.inl h1) hp
        | false => rfl
      have ho : m.oid ≠ 0 := fun e => hp (Or.inr e)
      rw [setVal_mem hm hp' ho]
      exact ⟨sorted_map (fun _ m' => svIdx m v m') _ (set_preserves_sorted _ h.idxSorted _ _),
        sorted_map (fun _ e => svDisk m v e) _ h.diskSorted⟩

/-- `setVal` on a hot record: the name becomes the exempted one until it is signalled -/
theorem inv_setVal {s : MState} {x : Option Bytes} {t : Int} (h : StoreInvX s x t) {k : Bytes}
    (hx : ∀ k', k' ≠ k → x ≠ some k') {m : Meta} (hm : AList.get? s.index k = some m)
    (hv : m.value.isSome = true) {v : Val} (hg : Good v) :
    StoreInvX (Api.setVal s k v) (some k) t := by
  have r := h.recs k m hm
  obtain ⟨f1, f2, _⟩ := setVal_fields (s := s) k v
  have hent : ∀ dk (e : DiskEntry), AList.get? s.disk dk = some e → e.name ≠ k → svEnt s m v e = e := by
    intro dk e he hn
    apply svEnt_other
    intro ⟨hp, _, ho⟩
    exact hn ((h.oids hp).entRec _ e k m he hm ho)
  have hback : ∀ dk e', AList.get? (Api.setVal s k v).disk dk = some e' →
      ∃ e, AList.get? s.disk dk = some e ∧ e' = svEnt s m v e := by
    intro dk e' he'
    rw [get?_setVal_disk hm] at he'
    cases he : AList.get? s.disk dk with
    | none => rw [he] at he'; cases he'
    | some e =>
      rw [he] at he'
      simp only [Option.map_some, Option.some.injEq] at he'
      exact ⟨e, rfl, he'.symm⟩
  apply frame (k := k) h (fun k' hk _ => hx k' hk) f1 (by rw [f2]; exact Nat.le_refl _)
    (setVal_sorted h k v).1 (setVal_sorted h k v).2
  · intro k' hk; rw [get?_setVal_index h hm hv]; simp [hk]
  · intro dk e he hn
    rw [get?_setVal_disk hm, he]
    simp only [Option.map_some, hent dk e he hn]
  · intro dk e' he' hn
    obtain ⟨e, he, rfl⟩ := hback dk e' he'
    rw [svEnt_name] at hn
    rw [hent dk e he hn]; exact he
  · intro m' hm'
    rw [get?_setVal_index h hm hv] at hm'
    simp only [if_true, Option.some.injEq] at hm'
    subst hm'
    refine RecInv.hot (v := v) rfl r.ok r.expR hg ?_ (Or.inr rfl)
    intro e he
    obtain ⟨ent, h1, h2, h3⟩ := r.stored e he
    exact ⟨svEnt s m v ent, by rw [get?_setVal_disk hm, h1]; rfl, by simp [h2], by simp [h3]⟩
  · intro dk e' he' hn
    obtain ⟨e, he, rfl⟩ := hback dk e' he'
    rw [svEnt_name] at hn
    have q := h.ents dk e he
    have hown := (h.ent_of_name he (by rw [hn]; exact hm)).1
    refine ⟨by simpa using q.key, by simpa using q.expR, ?_, ?_⟩
    · rcases svEnt_val s m v e with h1 | h1 <;> rw [h1]
      · exact hg
      · exact q.good
    · refine ⟨{ m with value := some v }, ?_, by simpa using hown⟩
      rw [get?_setVal_index h hm hv]
      simp [hn]
  · intro hpb
    have o := h.oids hpb
    refine ⟨?_, ?_⟩
    · intro m' hm'
      rw [get?_setVal_index h hm hv] at hm'
      simp only [if_true, Option.some.injEq] at hm'
      subst hm'
      have := o.recR k m hm
      have f := o.rec_fresh hm
      exact ⟨this.1, by rw [f2]; exact this.2, f.1, f.2⟩
    · intro dk e' he' hn
      obtain ⟨e, he, rfl⟩ := hback dk e' he'
      rw [svEnt_name] at hn
      have := o.entR dk e he
      have f := o.ent_fresh he hn
      rw [svEnt_oid, f2]
      exact ⟨this.1, this.2, f.1, f.2⟩

theorem lookup_setVal {s : MState} {x : Option Bytes} {t t' : Int} (h : StoreInvX s x t) (ht : t ≤ t')
    {k : Bytes} {m : Meta} (hm : AList.get? s.index k = some m) (hv : m.value.isSome = true) (v : Val)
    (k' : Bytes) :
    lookup (Api.setVal s k v) t' k' =
      if k' = k then (if m.expired t' then none else some (v, m.exp)) else lookup s t' k' := by
  have r := h.recs k m hm
  by_cases hk : k' = k
  · subst hk
    simp only [lookup, getMeta, get?_setVal_index h hm hv, if_true, Option.bind_some]
    simp only [view, Meta.isOk, Meta.expired]
    have := r.ok
    simp only [Meta.isOk] at this
    simp only [this, Bool.true_and]
    by_cases hc : (m.exp != 0 && decide (m.exp ≤ t')) = true <;> simp [hc]
  · simp only [hk, if_false]
    refine lookup_frame (k := k) h ht (setVal_fields k v).1 ?_ k' hk ?_
    · intro dk e he hn
      rw [get?_setVal_disk hm, he]
      simp only [Option.map_some, Option.some.injEq]
      apply svEnt_other
      intro ⟨hp, _, ho⟩
      exact hn ((h.oids hp).entRec _ e k m he hm ho)
    · rw [get?_setVal_index h hm hv]; simp [hk]

/-! ### setExp -/

theorem inv_setExp {s : MState} {x : Option Bytes} {t : Int} (h : StoreInvX s x t) {k : Bytes}
    (hx : ∀ k', k' ≠ k → x ≠ some k') {m : Meta} (hm : AList.get? s.index k = some m)
    (hv : m.value.isSome = true) {e : Int} (he : inInt64 e = true) :
    StoreInvX (Api.setExp s k e) (some k) t := by
  have r := h.recs k m hm
  simp only [Api.setExp, getMeta, hm]
  obtain ⟨v, hv'⟩ := Option.isSome_iff_exists.mp hv
  refine inv_putMeta_same (m' := { m with exp := e }) h (fun k' hk _ => hx k' hk) hm ?_ rfl rfl
  exact RecInv.hot (v := v) hv' r.ok he (r.good v hv') r.stored (Or.inr rfl)

theorem lookup_setExp {s : MState} {t' : Int}
    {k : Bytes} {m : Meta} (hm : AList.get? s.index k = some m) (e : Int) (k' : Bytes) :
    lookup (Api.setExp s k e) t' k' =
      if k' = k then view s t' k { m with exp := e } else lookup s t' k' := by
  simp only [Api.setExp, getMeta, hm]
  by_cases hk : k' = k
  · subst hk; simp only [if_true]; exact lookup_putMeta_same _
  · simp only [hk, if_false]; exact lookup_putMeta_other _ _ hk

/-! ### newKeyWith -/

theorem inv_bump {s : MState} {x : Option Bytes} {t : Int} (h : StoreInvX s x t) (n : Nat)
    (hn : s.nextId ≤ n) : StoreInvX { s with nextId := n } x t := by
  refine ⟨h.idxSorted, h.diskSorted, h.recs, h.ents, ?_, ?_⟩
  · intro hp
    have o := h.oids hp
    refine ⟨?_, o.recInj, ?_, o.entRec, o.entInj⟩
    · intro k m hk
      have := o.recR k m hk
      exact ⟨this.1, Nat.lt_of_lt_of_le this.2 hn⟩
    · intro dk e hk
      have := o.entR dk e hk
      exact ⟨this.1, Nat.lt_of_lt_of_le this.2 hn⟩
  · exact Nat.lt_of_lt_of_le h.idPos hn

/-- the record `newKeyWith` publishes -/
def newRec (s : MState) (old : Option Meta) (v : Val) : Meta :=
  ({ (match old with | some m => m | none => { exp := 0, value := none }) with
      exp := 0, kid := s.nextId, oid := s.nextId + 1 }.setValue v).markModified

theorem newRec_facts (s : MState) (old : Option Meta) (v : Val) :
    (newRec s old v).value = some v ∧ (newRec s old v).exp = 0 ∧ (newRec s old v).isOk = true ∧
    (newRec s old v).isModified = true ∧ (newRec s old v).oid = s.nextId + 1 ∧
    (newRec s old v).stored = (old.bind (·.stored)) := by
  refine ⟨rfl, rfl, by simp [newRec], by simp [newRec], rfl, ?_⟩
  cases old <;> rfl

theorem newKeyWith_eq (s : MState) (k : Bytes) (old : Option Meta) (v : Val) :
    newKeyWith s k old v =
      putMeta (match old, AList.get? s.index k with
        | none, some dead => unpersist { s with nextId := s.nextId + 1 + 1 } k dead
        | _, _ => { s with nextId := s.nextId + 1 + 1 }) k (newRec s old v) := by
  simp only [newKeyWith, fresh, getMeta, newRec]
  cases old <;> cases AList.get? s.index k <;> rfl

theorem inv_newKeyWith {s : MState} {t : Int} (h : StoreInvX s none t) (k : Bytes) (old : Option Meta)
    (hold : ∀ m0, old = some m0 → AList.get? s.index k = some m0) {v : Val} (hg : Good v) :
    StoreInvX (newKeyWith s k old v) none t := by
  rw [newKeyWith_eq]
  obtain ⟨n1, n2, n3, n4, n5, n6⟩ := newRec_facts s old v
  have hb := inv_bump h (s.nextId + 1 + 1) (by omega)
  have hoidA : s.pebble = false → 0 < (newRec s old v).oid ∧ (newRec s old v).oid < s.nextId + 1 + 1 ∧
      (∀ k' m'', k' ≠ k → AList.get? s.index k' = some m'' → m''.oid ≠ (newRec s old v).oid) ∧
      (∀ dk e, AList.get? s.disk dk = some e → e.name ≠ k → e.oid ≠ (newRec s old v).oid) := by
    intro hp
    have f := (h.oids hp).new_fresh k (n := s.nextId + 1) (by omega)
    rw [n5]
    exact ⟨by omega, by omega, f.1, f.2⟩
  have caseA : (∀ dk e, AList.get? s.disk dk = some e → e.name = k → (newRec s old v).stored = some e.exp) →
      StoreInvX (putMeta { s with nextId := s.nextId + 1 + 1 } k (newRec s old v)) none t := by
    intro hown
    apply inv_putMeta hb (fun _ _ a => a) _ hown hoidA
    refine RecInv.hot (v := v) n1 n3 (by rw [n2]; decide) hg ?_ (Or.inl n4)
    intro e he
    rw [n6] at he
    cases old with
    | none => cases he
    | some m0 => exact (h.recs k m0 (hold m0 rfl)).stored e he
  cases old with
  | some m0 =>
    simp only []
    apply caseA
    intro dk e he hn
    subst hn
    rw [n6]
    exact (h.ent_of_name he (hold m0 rfl)).1
  | none =>
    cases hm : AList.get? s.index k with
    | none =>
      simp only []
      apply caseA
      intro dk e he hn
      subst hn
      exact (h.no_entry he hm).elim
    | some dead =>
      simp only []
      obtain ⟨u1, u2, u3, _, u5, u6⟩ := unpersist_spec hb (k := k) (m := dead) hm
      apply frame (k := k) h (fun _ _ a => a)
      · exact u2
      · show s.nextId ≤ (unpersist { s with nextId := s.nextId + 1 + 1 } k dead).nextId
        rw [u3]; show s.nextId ≤ s.nextId + 1 + 1; omega
      · simp only [putMeta, u1]; exact set_preserves_sorted _ h.idxSorted _ _
      · exact u5
      · intro k' hk; simp only [putMeta, u1, get?_set, hk, if_false]
      · intro dk e he hn; exact (u6 dk e).mpr ⟨he, hn⟩
      · intro dk e he _; exact ((u6 dk e).mp he).1
      · intro m'
        simp only [putMeta, u1, get?_set, if_true, Option.some.injEq]
        intro e; subst e
        refine RecInv.hot (v := v) n1 n3 (by rw [n2]; decide) hg ?_ (Or.inl n4)
        intro e he
        rw [n6] at he; cases he
      · intro dk e he hn; exact absurd hn ((u6 dk e).mp he).2
      · intro hp
        refine ⟨?_, ?_⟩
        · intro m'
          simp only [putMeta, u1, get?_set, if_true, Option.some.injEq]
          intro e; subst e
          have := hoidA hp
          refine ⟨this.1, ?_, this.2.2⟩
          show _ < (unpersist { s with nextId := s.nextId + 1 + 1 } k dead).nextId
          rw [u3]; exact this.2.1
        · intro dk e he hn; exact absurd hn ((u6 dk e).mp he).2

theorem get?_newKeyWith (s : MState) (k : Bytes) (old : Option Meta) (v : Val) (k' : Bytes) :
    AList.get? (newKeyWith s k old v).index k' =
      if k' = k then some (newRec s old v) else AList.get? s.index k' := by
  rw [newKeyWith_eq]
  have : ∀ s0 : MState, s0.index = s.index →
      AList.get? (putMeta s0 k (newRec s old v)).index k' =
        if k' = k then some (newRec s old v) else AList.get? s.index k' := by
    intro s0 h0; simp only [putMeta, h0, get?_set]
  apply this
  cases old with
  | some m0 => rfl
  | none =>
    cases hm : AList.get? s.index k with
    | none => rfl
    | some dead =>
      simp only [unpersist]
      cases dead.stored <;> rfl

theorem lookup_newKeyWith {s : MState} {t t' : Int} (h : StoreInvX s none t) (ht : t ≤ t') (k : Bytes)
    (old : Option Meta) (v : Val) (k' : Bytes) :
    lookup (newKeyWith s k old v) t' k' = if k' = k then some (v, 0) else lookup s t' k' := by
  obtain ⟨n1, n2, n3, n4, n5, n6⟩ := newRec_facts s old v
  by_cases hk : k' = k
  · subst hk
    simp only [lookup, getMeta, get?_newKeyWith, if_true, Option.bind_some]
    rw [view_hot n1 n3 (by simp [Meta.expired, n2]), n2]
  · simp only [hk, if_false]
    refine lookup_frame (k := k) h ht ?_ ?_ k' hk ?_
    · rw [newKeyWith_eq]
      cases old with
      | some m0 => rfl
      | none =>
        cases hm : AList.get? s.index k with
        | none => rfl
        | some dead =>
          simp only [unpersist, putMeta]
          cases dead.stored <;> rfl
    · intro dk e he hn
      rw [newKeyWith_eq]
      cases old with
      | some m0 => exact he
      | none =>
        cases hm : AList.get? s.index k with
        | none => exact he
        | some dead =>
          have hb := inv_bump h (s.nextId + 1 + 1) (by omega)
          obtain ⟨_, _, _, _, _, u6⟩ := unpersist_spec hb (k := k) (m := dead) hm
          exact (u6 dk e).mpr ⟨he, hn⟩
    · rw [get?_newKeyWith]; simp [hk]

theorem newKeyWith_fields (s : MState) (k : Bytes) (old : Option Meta) (v : Val) :
    (newKeyWith s k old v).pebble = s.pebble ∧ (newKeyWith s k old v).failSet = s.failSet := by
  rw [newKeyWith_eq]
  cases old with
  | some m0 => exact ⟨rfl, rfl⟩
  | none =>
    cases hm : AList.get? s.index k with
    | none => exact ⟨rfl, rfl⟩
    | some dead =>
      simp only [unpersist, putMeta]
      cases dead.stored <;> exact ⟨rfl, rfl⟩

/-! ### lazy load -/

theorem view_rec_congr (s : MState) (now : Int) (k : Bytes) {m m' : Meta} (hs : m'.state = m.state)
    (he : m'.exp = m.exp) (hv : m'.value = m.value) : view s now k m' = view s now k m := by
  unfold view Meta.isOk Meta.expired loadValue diskGet
  rw [hs, he, hv]

/-- a live cold record can always be loaded (its entry is there and decodable) -/
theorem load_some {s : MState} {x : Option Bytes} {t : Int} (h : StoreInvX s x t) {k : Bytes} {m : Meta}
    (hm : AList.get? s.index k = some m) (hc : m.value = none) (hal : m.expired t = false) :
    ∃ ent v, AList.get? s.disk (encodeKey k m.exp) = some ent ∧ ent.name = k ∧ ent.exp = m.exp ∧
      loadValue s k m = some (v, if s.pebble then 0 else ent.oid) ∧ Good v ∧
      (s.pebble = true → decodeEntry (encodeEntry ent.val) = some v) ∧ (s.pebble = false → v = ent.val) := by
  have r := h.recs k m hm
  obtain ⟨ent, h1, h2, h3⟩ := r.stored _ (r.cold hal hc)
  have q := h.ents _ _ h1
  cases hp : s.pebble with
  | true =>
    obtain ⟨v, hd, hg⟩ := good_decodes ent.val q.good
    exact ⟨ent, v, h1, h2, h3, by simp [loadValue, diskGet, h1, hp, hd], hg, fun _ => hd, (fun c => by cases c)⟩
  | false =>
    exact ⟨ent, ent.val, h1, h2, h3, by simp [loadValue, diskGet, h1, hp], q.good, (fun c => by cases c), fun _ => rfl⟩

theorem inv_load {s : MState} {t : Int} (h : StoreInvX s none t) {k : Bytes} {m : Meta}
    (hm : AList.get? s.index k = some m) (hc : m.value = none) (hal : m.expired t = false)
    {v : Val} {oid : Nat} (hl : loadValue s k m = some (v, oid)) :
    StoreInvX (putMeta s k ({ m with oid := oid }.setValue v)) none t := by
  have r := h.recs k m hm
  obtain ⟨ent, v', h1, h2, h3, h4, h5, h6, h7⟩ := load_some h hm hc hal
  rw [hl] at h4
  simp only [Option.some.injEq, Prod.mk.injEq] at h4
  obtain ⟨hvv, hoo⟩ := h4
  subst hvv
  apply inv_putMeta h (fun _ _ a => a)
  · refine ⟨by simp, r.expR, ?_, r.stored, ?_, ?_⟩
    · intro v' hv'; simp only [setValue_value, Option.some.injEq] at hv'; subst hv'; exact h5
    · intro _ hn; simp at hn
    · intro _ _ _ v' hv'
      simp only [setValue_value, Option.some.injEq] at hv'; subst hv'
      refine ⟨ent, r.cold hal hc, h1, ?_, ?_⟩
      · intro hp; right; exact h6 hp
      · intro hp
        simp only [hp, Bool.false_eq_true, if_false] at hoo
        exact ⟨by simp [hoo], (h7 hp).symm⟩
  · intro dk e he hn
    subst hn
    exact (h.ent_of_name he hm).1
  · intro hp
    simp only [hp, Bool.false_eq_true, if_false] at hoo
    have o := h.oids hp
    have := o.entR _ ent h1
    have f := o.ent_fresh h1 h2
    simp only [setValue_oid, hoo]
    exact ⟨this.1, this.2, f.1, f.2⟩

theorem lookup_load {s : MState} {k : Bytes} {m : Meta}
    (hm : AList.get? s.index k = some m) (hc : m.value = none) (hok : m.isOk = true)
    {v : Val} {oid : Nat} (hl : loadValue s k m = some (v, oid)) (t' : Int) (k' : Bytes) :
    lookup (putMeta s k ({ m with oid := oid }.setValue v)) t' k' = lookup s t' k' := by
  by_cases hk : k' = k
  · subst hk
    rw [lookup_putMeta_same]
    simp only [lookup, getMeta, hm, Option.bind_some]
    simp only [view, setValue_isOk, hok, setValue_expired, setValue_value, setValue_exp, hc, hl,
      Option.map_some]
    rfl
  · exact lookup_putMeta_other _ _ hk

/-! ### writeKey / readKey -/

theorem lockW_fields (s : MState) (k : Bytes) :
    (lockW s k).index = s.index ∧ (lockW s k).disk = s.disk ∧ (lockW s k).pebble = s.pebble ∧
    (lockW s k).nextId = s.nextId ∧ (lockW s k).failSet = s.failSet := by
  unfold lockW
  split
  · exact ⟨rfl, rfl, rfl, rfl, rfl⟩
  · split <;> exact ⟨rfl, rfl, rfl, rfl, rfl⟩

theorem lockR_fields (s : MState) (k : Bytes) :
    (lockR s k).index = s.index ∧ (lockR s k).disk = s.disk ∧ (lockR s k).pebble = s.pebble ∧
    (lockR s k).nextId = s.nextId ∧ (lockR s k).failSet = s.failSet := by
  unfold lockR
  split <;> exact ⟨rfl, rfl, rfl, rfl, rfl⟩

/-- what `writeKey` / `readKey` guarantee, in terms of the logical content of `k` before the call -/
structure KeySpec (s : MState) (t now : Int) (k : Bytes) (mk : Option Val) (r : MState × Bool) : Prop where
  inv : StoreInvX r.1 none t
  peb : r.1.pebble = s.pebble
  fail : r.1.failSet = s.failSet
  other : ∀ t', t ≤ t' → ∀ k', k' ≠ k → lookup r.1 t' k' = lookup s t' k'
  /-- the key exists: it is returned hot, nothing observable changes -/
  hit : ∀ v e, lookup s now k = some (v, e) → r.2 = true ∧ (∀ t', t ≤ t' → lookup r.1 t' k = lookup s t' k) ∧
      ∃ m, AList.get? r.1.index k = some m ∧ m.value = some v ∧ m.exp = e ∧ m.expired now = false
  /-- the key does not exist and a constructor was given: created hot, no deadline -/
  make : ∀ v, lookup s now k = none → mk = some v → r.2 = true ∧ (∀ t', t ≤ t' → lookup r.1 t' k = some (v, 0)) ∧
      ∃ m, AList.get? r.1.index k = some m ∧ m.value = some v ∧ m.exp = 0 ∧ m.expired now = false
  /-- the key does not exist and there is no constructor: nothing observable changes -/
  miss : lookup s now k = none → mk = none → r.2 = false ∧ ∀ t', t ≤ t' → lookup r.1 t' k = lookup s t' k

/-- the first two steps of `writeKey` / `readKey`: take the lock, bump the access counter -/
theorem bump_facts {s s1 : MState} {t : Int} (h : StoreInvX s none t) {k : Bytes} {m0 : Meta}
    (hm : AList.get? s.index k = some m0)
    (hf : s1.index = s.index ∧ s1.disk = s.disk ∧ s1.pebble = s.pebble ∧ s1.nextId = s.nextId ∧ s1.failSet = s.failSet)
    (c : Int) :
    StoreInvX (putMeta s1 k { m0 with count := c }) none t ∧
    (∀ t' k', lookup (putMeta s1 k { m0 with count := c }) t' k' = lookup s t' k') ∧
    AList.get? (putMeta s1 k { m0 with count := c }).index k = some { m0 with count := c } := by
  obtain ⟨f1, f2, f3, f4, f5⟩ := hf
  have h1 : StoreInvX s1 none t := h.congr f1 f2 f3 f4
  have hm1 : AList.get? s1.index k = some m0 := by rw [f1]; exact hm
  refine ⟨?_, ?_, by simp [putMeta, get?_set]⟩
  · refine inv_putMeta_same (m' := { m0 with count := c }) h1 (fun _ _ a => a) hm1 ?_ rfl rfl
    exact (h1.recs k m0 hm1).congr rfl rfl rfl rfl rfl
  · intro t' k'
    have e1 : lookup s1 t' k' = lookup s t' k' := lookup_congr f1 f2 f3 _ _
    rw [← e1]
    by_cases hk : k' = k
    · subst hk
      rw [lookup_putMeta_same]
      simp only [lookup, getMeta, hm1, Option.bind_some]
      exact view_rec_congr _ _ _ rfl rfl rfl
    · exact lookup_putMeta_other _ _ hk

/-- `writeKey` after locking and counting -/
def wkTail (s2 : MState) (now : Int) (k : Bytes) (mk : Option Val) (m : Meta) : MState × Bool :=
  if m.isOk then
    if m.expired now then
      (match mk with
       | some v => (newKeyWith s2 k (some m) v, true)
       | none => (s2, false))
    else if m.value.isSome then (s2, true)
    else match loadValue s2 k m with
      | some (v, oid) => (putMeta s2 k ({ m with oid := oid }.setValue v), true)
      | none =>
        (match mk with
         | some v => (newKeyWith s2 k (some m) v, true)
         | none => (s2, false))
  else
    (match mk with
     | some v => (newKeyWith s2 k (some m) v, true)
     | none => (s2, false))

theorem writeKey_eq (s : MState) (now : Int) (k : Bytes) (mk : Option Val) :
    writeKey s now k mk = match AList.get? s.index k with
      | some m0 => wkTail (putMeta (lockW s k) k { m0 with count := m0.count + 1 }) now k mk
          { m0 with count := m0.count + 1 }
      | none => match mk with
        | some v => (newKeyWith s k none v, true)
        | none => (s, false) := rfl

theorem wkTail_spec {s s2 : MState} {t now : Int} (ht : t ≤ now) {k : Bytes} {mk : Option Val}
    (hmk : ∀ v, mk = some v → Good v) {m : Meta}
    (b1 : StoreInvX s2 none t) (b2 : ∀ t' k', lookup s2 t' k' = lookup s t' k')
    (b3 : AList.get? s2.index k = some m) (pf : s2.pebble = s.pebble ∧ s2.failSet = s.failSet) :
    KeySpec s t now k mk (wkTail s2 now k mk m) := by
  have r0 := b1.recs k m b3
  have hok := r0.ok
  unfold wkTail
  rw [if_pos hok]
  have outMiss : lookup s now k = none → mk = none → KeySpec s t now k mk (s2, false) := by
    intro hl hmk0
    refine ⟨b1, pf.1, pf.2, fun t' _ k' _ => b2 t' k', ?_, ?_, fun _ _ => ⟨rfl, fun t' _ => b2 t' k⟩⟩
    · intro v e hc; rw [hl] at hc; cases hc
    · intro v _ hc; rw [hmk0] at hc; cases hc
  have outMake : ∀ v, lookup s now k = none → mk = some v →
      KeySpec s t now k mk (newKeyWith s2 k (some m) v, true) := by
    intro v hl hmkv
    have hg := hmk v hmkv
    have fl := newKeyWith_fields s2 k (some m) v
    refine ⟨inv_newKeyWith b1 k _ (by intro m1 hc; rw [← Option.some.inj hc]; exact b3) hg,
      by rw [fl.1]; exact pf.1, by rw [fl.2]; exact pf.2, ?_, ?_, ?_, ?_⟩
    · intro t' ht' k' hk; rw [lookup_newKeyWith b1 ht']; simp [hk, b2]
    · intro v e hc; rw [hl] at hc; cases hc
    · intro v' _ hc
      rw [hmkv] at hc; cases hc
      refine ⟨rfl, fun t' ht' => by rw [lookup_newKeyWith b1 ht']; simp, newRec s2 (some m) v, ?_⟩
      obtain ⟨n1, n2, _⟩ := newRec_facts s2 (some m) v
      exact ⟨by rw [get?_newKeyWith]; simp, n1, n2, by simp [Meta.expired, n2]⟩
    · intro _ hc; rw [hmkv] at hc; cases hc
  by_cases hexp : m.expired now = true
  · rw [if_pos hexp]
    have hl : lookup s now k = none := by
      rw [← b2]; simp only [lookup, getMeta, b3, Option.bind_some]; exact view_dead hexp
    cases hmk0 : mk with
    | none => simp only []; rw [← hmk0]; exact outMiss hl hmk0
    | some v => simp only []; rw [← hmk0]; exact outMake v hl hmk0
  · have hexp0 : m.expired now = false := by simpa using hexp
    rw [if_neg hexp]
    by_cases hsome : m.value.isSome = true
    · obtain ⟨v, hv⟩ := Option.isSome_iff_exists.mp hsome
      rw [if_pos hsome]
      have hl : lookup s now k = some (v, m.exp) := by
        rw [← b2]; simp only [lookup, getMeta, b3, Option.bind_some]; exact view_hot hv hok hexp0
      refine ⟨b1, pf.1, pf.2, fun t' _ k' _ => b2 t' k', ?_, ?_, ?_⟩
      · intro v' e hc
        rw [hl] at hc; cases hc
        exact ⟨rfl, fun t' _ => b2 t' k, _, b3, hv, rfl, hexp0⟩
      · intro _ hc; rw [hl] at hc; cases hc
      · intro hc; rw [hl] at hc; cases hc
    · have hv : m.value = none := by simpa using hsome
      rw [if_neg hsome]
      have hal : m.expired t = false := Meta.alive_anti m ht hexp0
      obtain ⟨ent, v, _, _, _, l4, _⟩ := load_some b1 b3 hv hal
      rw [l4]
      simp only []
      have hl : lookup s now k = some (v, m.exp) := by
        rw [← b2 now k]
        simp only [lookup, getMeta, b3, Option.bind_some]
        simp only [view, hok, hexp0, hv, l4]
        rfl
      have hlk := lookup_load b3 hv hok l4
      refine ⟨inv_load b1 b3 hv hal l4, pf.1, pf.2, fun t' _ k' _ => by rw [hlk, b2], ?_, ?_, ?_⟩
      · intro v' e hc
        rw [hl] at hc; cases hc
        exact ⟨rfl, fun t' _ => by rw [hlk, b2],
          ({ m with oid := if s2.pebble = true then 0 else ent.oid }.setValue v),
          by simp [putMeta, get?_set], rfl, rfl, hexp0⟩
      · intro _ hc; rw [hl] at hc; cases hc
      · intro hc; rw [hl] at hc; cases hc

theorem writeKey_spec {s : MState} {t now : Int} (h : StoreInvX s none t) (ht : t ≤ now) (k : Bytes)
    (mk : Option Val) (hmk : ∀ v, mk = some v → Good v) : KeySpec s t now k mk (writeKey s now k mk) := by
  rw [writeKey_eq]
  cases hm : AList.get? s.index k with
  | none =>
    have hl : ∀ t', lookup s t' k = none := by intro t'; simp [lookup, getMeta, hm]
    cases mk with
    | none =>
      simp only []
      refine ⟨h, rfl, rfl, fun _ _ _ _ => rfl, ?_, ?_, fun _ _ => ⟨rfl, fun _ _ => rfl⟩⟩
      · intro v e hc; rw [hl] at hc; cases hc
      · intro v _ hc; cases hc
    | some v =>
      simp only []
      have hg := hmk v rfl
      refine ⟨inv_newKeyWith h k none (by intro _ hc; cases hc) hg, (newKeyWith_fields _ _ _ _).1,
        (newKeyWith_fields _ _ _ _).2, ?_, ?_, ?_, fun _ hc => by cases hc⟩
      · intro t' ht' k' hk; rw [lookup_newKeyWith h ht']; simp [hk]
      · intro v e hc; rw [hl] at hc; cases hc
      · intro v' _ hc
        cases hc
        refine ⟨rfl, fun t' ht' => by rw [lookup_newKeyWith h ht']; simp, newRec s none v, ?_⟩
        obtain ⟨n1, n2, _⟩ := newRec_facts s none v
        exact ⟨by rw [get?_newKeyWith]; simp, n1, n2, by simp [Meta.expired, n2]⟩
  | some m0 =>
    simp only []
    obtain ⟨b1, b2, b3⟩ := bump_facts h hm (lockW_fields s k) (m0.count + 1)
    exact wkTail_spec ht hmk b1 b2 b3 ⟨(lockW_fields s k).2.2.1, (lockW_fields s k).2.2.2.2⟩

/-- `readKey` after locking and counting -/
def rkTail (s2 : MState) (now : Int) (k : Bytes) (m : Meta) : MState × Bool :=
  if m.isOk then
    if m.expired now then (s2, false)
    else if m.value.isSome then (s2, true)
    else match loadValue s2 k m with
      | some (v, oid) => (putMeta s2 k ({ m with oid := oid }.setValue v), true)
      | none => (s2, false)
  else (s2, false)

theorem readKey_eq (s : MState) (now : Int) (k : Bytes) :
    readKey s now k = match AList.get? s.index k with
      | some m0 => rkTail (putMeta (lockR s k) k { m0 with count := m0.count + 1 }) now k
          { m0 with count := m0.count + 1 }
      | none => (s, false) := rfl

theorem rkTail_spec {s s2 : MState} {t now : Int} (ht : t ≤ now) {k : Bytes} {m : Meta}
    (b1 : StoreInvX s2 none t) (b2 : ∀ t' k', lookup s2 t' k' = lookup s t' k')
    (b3 : AList.get? s2.index k = some m) (pf : s2.pebble = s.pebble ∧ s2.failSet = s.failSet) :
    KeySpec s t now k none (rkTail s2 now k m) := by
  have r0 := b1.recs k m b3
  have hok := r0.ok
  unfold rkTail
  rw [if_pos hok]
  have outMiss : lookup s now k = none → KeySpec s t now k none (s2, false) := by
    intro hl
    refine ⟨b1, pf.1, pf.2, fun t' _ k' _ => b2 t' k', ?_, ?_, fun _ _ => ⟨rfl, fun t' _ => b2 t' k⟩⟩
    · intro v e hc; rw [hl] at hc; cases hc
    · intro v _ hc; cases hc
  by_cases hexp : m.expired now = true
  · rw [if_pos hexp]
    apply outMiss
    rw [← b2]; simp only [lookup, getMeta, b3, Option.bind_some]; exact view_dead hexp
  · have hexp0 : m.expired now = false := by simpa using hexp
    rw [if_neg hexp]
    by_cases hsome : m.value.isSome = true
    · obtain ⟨v, hv⟩ := Option.isSome_iff_exists.mp hsome
      rw [if_pos hsome]
      have hl : lookup s now k = some (v, m.exp) := by
        rw [← b2]; simp only [lookup, getMeta, b3, Option.bind_some]; exact view_hot hv hok hexp0
      refine ⟨b1, pf.1, pf.2, fun t' _ k' _ => b2 t' k', ?_, ?_, ?_⟩
      · intro v' e hc
        rw [hl] at hc; cases hc
        exact ⟨rfl, fun t' _ => b2 t' k, _, b3, hv, rfl, hexp0⟩
      · intro _ _ hc; cases hc
      · intro hc; rw [hl] at hc; cases hc
    · have hv : m.value = none := by simpa using hsome
      rw [if_neg hsome]
      have hal : m.expired t = false := Meta.alive_anti m ht hexp0
      obtain ⟨ent, v, _, _, _, l4, _⟩ := load_some b1 b3 hv hal
      rw [l4]
      simp only []
      have hl : lookup s now k = some (v, m.exp) := by
        rw [← b2 now k]
        simp only [lookup, getMeta, b3, Option.bind_some]
        simp only [view, hok, hexp0, hv, l4]
        rfl
      have hlk := lookup_load b3 hv hok l4
      refine ⟨inv_load b1 b3 hv hal l4, pf.1, pf.2, fun t' _ k' _ => by rw [hlk, b2], ?_, ?_, ?_⟩
      · intro v' e hc
        rw [hl] at hc; cases hc
        exact ⟨rfl, fun t' _ => by rw [hlk, b2],
          ({ m with oid := if s2.pebble = true then 0 else ent.oid }.setValue v),
          by simp [putMeta, get?_set], rfl, rfl, hexp0⟩
      · intro _ _ hc; cases hc
      · intro hc; rw [hl] at hc; cases hc

theorem readKey_spec {s : MState} {t now : Int} (h : StoreInvX s none t) (ht : t ≤ now) (k : Bytes) :
    KeySpec s t now k none (readKey s now k) := by
  rw [readKey_eq]
  cases hm : AList.get? s.index k with
  | none =>
    have hl : ∀ t', lookup s t' k = none := by intro t'; simp [lookup, getMeta, hm]
    simp only []
    refine ⟨h, rfl, rfl, fun _ _ _ _ => rfl, ?_, ?_, fun _ _ => ⟨rfl, fun _ _ => rfl⟩⟩
    · intro v e hc; rw [hl] at hc; cases hc
    · intro v _ hc; cases hc
  | some m0 =>
    simp only []
    obtain ⟨b1, b2, b3⟩ := bump_facts h hm (lockR_fields s k) (m0.count + 1)
    exact rkTail_spec ht b1 b2 b3 ⟨(lockR_fields s k).2.2.1, (lockR_fields s k).2.2.2.2⟩

/-- the lookups only ever touch the record of the key itself -/
theorem wkTail_otherIdx (s2 : MState) (now : Int) (k : Bytes) (mk : Option Val) (m : Meta) (k' : Bytes)
    (hk : k' ≠ k) : AList.get? (wkTail s2 now k mk m).1.index k' = AList.get? s2.index k' := by
  unfold wkTail
  have hnew : ∀ v, AList.get? (newKeyWith s2 k (some m) v).index k' = AList.get? s2.index k' := by
    intro v; rw [get?_newKeyWith]; simp [hk]
  split
  · split
    · cases mk with
      | none => rfl
      | some v => exact hnew v
    · split
      · rfl
      · split
        · simp [putMeta, get?_set, hk]
        · cases mk with
          | none => rfl
          | some v => exact hnew v
  · cases mk with
    | none => rfl
    | some v => exact hnew v

theorem writeKey_otherIdx (s : MState) (now : Int) (k : Bytes) (mk : Option Val) (k' : Bytes) (hk : k' ≠ k) :
    AList.get? (writeKey s now k mk).1.index k' = AList.get? s.index k' := by
  rw [writeKey_eq]
  cases hm : AList.get? s.index k with
  | none =>
    cases mk with
    | none => rfl
    | some v => simp only []; rw [get?_newKeyWith]; simp [hk]
  | some m0 =>
    simp only []
    rw [wkTail_otherIdx _ _ _ _ _ _ hk]
    simp [putMeta, get?_set, hk, (lockW_fields s k).1]

theorem rkTail_otherIdx (s2 : MState) (now : Int) (k : Bytes) (m : Meta) (k' : Bytes)
    (hk : k' ≠ k) : AList.get? (rkTail s2 now k m).1.index k' = AList.get? s2.index k' := by
  unfold rkTail
  split
  · split
    · rfl
    · split
      · rfl
      · split
        · simp [putMeta, get?_set, hk]
        · rfl
  · rfl

theorem readKey_otherIdx (s : MState) (now : Int) (k : Bytes) (k' : Bytes) (hk : k' ≠ k) :
    AList.get? (readKey s now k).1.index k' = AList.get? s.index k' := by
  rw [readKey_eq]
  cases hm : AList.get? s.index k with
  | none => rfl
  | some m0 =>
    simp only []
    rw [rkTail_otherIdx _ _ _ _ _ hk]
    simp [putMeta, get?_set, hk, (lockR_fields s k).1]

end NodisVerif.Proofs.C11
