import NodisVerif.Model.Resp
/-
  C15, part 4 (continued): `readOptions` records an option only for an argument that is the word.
-/
namespace NodisVerif.Proofs.C15
open Resp

/-- the `+1` of value-taking options -/
def optPlus (word : String) : Int :=
  if (optionTable.find? (·.1 == word)).map (·.2) == some true then 1 else 0

/-- the scan of `readOptions` for one word, starting at argument index `k` with value `init` -/
def optScan (w : Bytes) (plus : Int) (args : List Bytes) (k : Nat) (init : Int) : Int :=
  (args.zipIdx k).foldl (fun (acc : Int) (p : Bytes × Nat) => if upper p.1 = w then (p.2 : Int) + plus else acc) init

theorem opt_eq_optScan (args : List Bytes) (word : String) :
    opt args word = optScan (Bytes.ofString word) (optPlus word) args 0 0 := by
  unfold opt optScan optPlus
  rfl

theorem optScan_nil (w plus k init) : optScan w plus [] k init = init := rfl

theorem optScan_cons (w plus) (a : Bytes) (t : List Bytes) (k init) :
    optScan w plus (a :: t) k init = optScan w plus t (k + 1) (if upper a = w then (k : Int) + plus else init) := by
  simp [optScan, List.zipIdx_cons]

theorem optScan_none (w plus) : ∀ (args : List Bytes) (k init), (∀ a ∈ args, upper a ≠ w) →
    optScan w plus args k init = init := by
  intro args
  induction args with
  | nil => intros; rfl
  | cons a t ih =>
    intro k init h
    rw [optScan_cons, if_neg (h a (by simp))]
    exact ih _ _ (fun x hx => h x (by simp [hx]))

theorem optScan_append (w plus) : ∀ (pre post : List Bytes) (k init),
    optScan w plus (pre ++ post) k init = optScan w plus post (k + pre.length) (optScan w plus pre k init) := by
  intro pre
  induction pre with
  | nil => intros; simp [optScan_nil]
  | cons a t ih =>
    intro post k init
    simp only [List.cons_append, optScan_cons, ih, List.length_cons]
    congr 1; omega

/-- the last argument that is the word decides -/
theorem optScan_last (w plus) (pre : List Bytes) (a : Bytes) (post : List Bytes) (init : Int)
    (ha : upper a = w) (hpost : ∀ b ∈ post, upper b ≠ w) :
    optScan w plus (pre ++ a :: post) 0 init = (pre.length : Int) + plus := by
  rw [optScan_append, optScan_cons, if_pos ha, optScan_none w plus post _ _ hpost]
  simp

/-- every argument list either has no argument that is the word, or splits at the last one -/
theorem last_match_split (w : Bytes) : ∀ (args : List Bytes),
    (∀ a ∈ args, upper a ≠ w) ∨
    ∃ pre a post, args = pre ++ a :: post ∧ upper a = w ∧ ∀ b ∈ post, upper b ≠ w := by
  intro args
  induction args with
  | nil => exact .inl (by simp)
  | cons x t ih =>
    rcases ih with hno | ⟨pre, a, post, rfl, ha, hpost⟩
    · by_cases hx : upper x = w
      · exact .inr ⟨[], x, t, rfl, hx, hno⟩
      · refine .inl ?_
        intro a ha
        simp at ha
        rcases ha with rfl | ha
        · exact hx
        · exact hno a ha
    · exact .inr ⟨x :: pre, a, post, rfl, ha, hpost⟩

end NodisVerif.Proofs.C15
