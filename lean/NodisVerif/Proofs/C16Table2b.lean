import NodisVerif.Model.Handler2
import NodisVerif.Proofs.C16Wire
import NodisVerif.Proofs.C16Table2
/-
  C16, handler level, list / hash / set families (`Handler2.table2`), part 2: the wire-level side
  conditions. Every token any handler of `table2` writes — on ANY argument vector, store, clock and
  choice, panicking or not — has an array count ≥ -1 and, for a simple string, no CR / LF:
  `wire_<h>`, `table2_wire : TableWire Handler2.table2`.

  The only simple strings written are "OK", "UNSUPPORTED" and — SPOP / SRANDMEMBER with a choice
  list the model rejects — the model's verdict "INVALID-CHOICE", the only `.str` result of
  `Api.spop` / `Api.srandmember` (`spop_out`, `srandmember_out`).
-/
namespace NodisVerif.Proofs.C16Table2
open NodisVerif NodisVerif.Resp NodisVerif.Handler NodisVerif.Handler2
open NodisVerif.Proofs.C08Step
open NodisVerif.Proofs.C15 (ofString_ascii)
open NodisVerif.Spec.RespReply (cleanLine)

/-! ## token-list facts -/

theorem clean_INVALID : cleanLine (Bytes.ofString "INVALID-CHOICE") = true := by
  rw [ofString_ascii _ (by decide)]; decide

theorem tokOK_unsupported2 : tokOK Handler2.unsupported = true := tokOK_unsupported

theorem wireOK_arr0 : WireOK [Tok.arr 0] := wireOK_arr 0 (by omega)

/-- `*n` (n a length) followed by tokens that are fine -/
theorem wireOK_arr_cons (n : Int) (ts : List Tok) (hn : -1 ≤ n) (h : ∀ t ∈ ts, tokOK t = true) :
    WireOK (Tok.arr n :: ts) :=
  (wireOK_cons _ _).2 ⟨tokOK_arr n hn, (wireOK_iff _).2 h⟩

theorem wireOK_arr_map {α : Type} (n : Int) (xs : List α) (f : α → Tok) (hn : -1 ≤ n)
    (h : ∀ x, tokOK (f x) = true) : WireOK (Tok.arr n :: xs.map f) := by
  apply wireOK_arr_cons n _ hn
  intro t ht
  rw [List.mem_map] at ht
  obtain ⟨x, _, rfl⟩ := ht
  exact h x

/-- HGETALL: `*2·len` and bulk strings -/
theorem wireOK_pairs (m : List (Bytes × Option Bytes)) :
    WireOK (Tok.arr (2 * m.length) :: m.flatMap fun (k, v) => [Tok.bulk k, Tok.bulk (v.getD [])]) := by
  apply wireOK_arr_cons _ _ (by omega)
  intro t ht
  rw [List.mem_flatMap] at ht
  obtain ⟨⟨k, v⟩, _, hx⟩ := ht
  simp only [List.mem_cons, List.mem_nil_iff, or_false] at hx
  rcases hx with rfl | rfl <;> rfl

/-- the verdict token is readable as soon as a `.str` result is CR/LF-free -/
theorem wireOK_invalidChoice (o : Out) (h : ∀ x, o = Out.str x → cleanLine x = true) :
    WireOK (invalidChoice o) := by
  unfold invalidChoice
  split
  · exact wireOK_simple _ (h _ rfl)
  · exact wireOK_nullBulk

theorem wgood_panicWith (s : MState) (ts : List Tok) (h : WireOK ts) : WGood (panicWith s ts) :=
  wgood_panic s ts h

/-! ## shape of API results -/

/-- the only `.str` result of `Api.spop` is the verdict "INVALID-CHOICE" -/
theorem spop_out (s : MState) (now : Int) (key : Bytes) (count : Int) (choice : List Bytes) :
    ∀ x, (Api.spop s now key count choice).2 = Out.str x → cleanLine x = true := by
  unfold Api.spop
  generalize Store.writeKey s now key none = r
  obtain ⟨s', okk⟩ := r
  dsimp only
  intro x h
  repeat' split at h
  all_goals first | (cases h; exact clean_INVALID) | (cases h; done)

/-- the only `.str` result of `Api.srandmember` is the verdict "INVALID-CHOICE" -/
theorem srandmember_out (s : MState) (now : Int) (key : Bytes) (count : Int) (choice : List Bytes) :
    ∀ x, (Api.srandmember s now key count choice).2 = Out.str x → cleanLine x = true := by
  unfold Api.srandmember
  generalize Store.readKey s now key = r
  obtain ⟨s', okk⟩ := r
  dsimp only
  intro x h
  repeat' split at h
  all_goals first | (cases h; exact clean_INVALID) | (cases h; done)

/-! ## tactics -/

macro "wtok2a" : tactic =>
  `(tactic| first
    | rfl
    | exact tokOK_ok
    | exact tokOK_unsupported2
    | exact tokOK_optBulk _)

macro "wtok2" : tactic =>
  `(tactic| first
    | wtok2a
    | (split <;> wtok2a)
    | (split <;> first | wtok2a | (split <;> wtok2a)))

/-- a closure `call r (fun s o => done s [tok])` -/
macro "wcall2" : tactic =>
  `(tactic| (intro s now ch; apply wgood_call_all; intro s o;
             first
             | (apply wgood_done_tok; wtok2)
             | (split <;> apply wgood_done_tok <;> wtok2)))

/-! ## lists -/

theorem wire_pushH (left : Bool) (args : List Bytes) : WireRes (Handler2.pushH left args) := by
  unfold Handler2.pushH
  split
  · wcall2
  · exact wire_errReply

theorem wgood_pop_k (noCount : Bool) (s : MState) (o : Out) :
    WGood (match o with
          | .blist (v :: vs) =>
            let bs := (v :: vs).map (·.getD [])
            if noCount then done s [.bulk (v.getD [])] else done s (bulkList bs)
          | _ => done s [.nullBulk]) := by
  split
  · dsimp only
    split
    · exact wgood_done_tok _ _ rfl
    · exact wgood_done _ _ (wireOK_bulkList _)
  · exact wgood_done_tok _ _ rfl

theorem wire_popH (left : Bool) (args : List Bytes) : WireRes (Handler2.popH left args) := by
  unfold Handler2.popH
  split
  · exact wire_errReply
  · dsimp only
    apply wireRes_ite
    · exact wire_errReply
    · intro s now ch
      apply wgood_call_all
      intro s o
      exact wgood_pop_k _ s o

theorem wire_llenH (args : List Bytes) : WireRes (Handler2.llenH args) := by
  unfold Handler2.llenH
  split
  · wcall2
  · exact wire_errReply

theorem wire_lIndexH (args : List Bytes) : WireRes (Handler2.lIndexH args) := by
  unfold Handler2.lIndexH
  split
  · wcall2
  · exact wire_errReply

theorem wire_lInsertH (args : List Bytes) : WireRes (Handler2.lInsertH args) := by
  unfold Handler2.lInsertH
  split
  · wcall2
  · exact wire_errReply

theorem wire_lPushxH (args : List Bytes) : WireRes (Handler2.lPushxH args) := by
  unfold Handler2.lPushxH
  split
  · wcall2
  · exact wire_errReply

theorem wire_rPushxH (args : List Bytes) : WireRes (Handler2.rPushxH args) := by
  unfold Handler2.rPushxH
  split
  · wcall2
  · exact wire_errReply

theorem wire_lRemH (args : List Bytes) : WireRes (Handler2.lRemH args) := by
  unfold Handler2.lRemH
  split
  · split
    · exact wire_errReply
    · intro s now ch
      show WGood _
      split
      · exact wgood_panicWith _ _ wireOK_nil
      · apply wgood_call_all; intro s o; exact wgood_done_tok _ _ rfl
  · exact wire_errReply

theorem wire_startStop (args : List Bytes) (k : Bytes → Int → Int → HRes)
    (hk : ∀ key a b, WireRes (k key a b)) : WireRes (Handler2.startStop args k) := by
  unfold Handler2.startStop
  split
  · split
    · exact wire_errReply
    · split
      · trivial
      · split
        · exact wire_errReply
        · exact hk _ _ _
  · exact wire_errReply

theorem wire_lTrimH (args : List Bytes) : WireRes (Handler2.lTrimH args) := by
  unfold Handler2.lTrimH
  apply wire_startStop
  intro key a b
  wcall2

theorem wire_lRangeH (args : List Bytes) : WireRes (Handler2.lRangeH args) := by
  unfold Handler2.lRangeH
  apply wire_startStop
  intro key a b s now ch
  apply wgood_call_all
  intro s o
  apply wgood_done
  split
  · exact wireOK_bulkList _
  · exact wireOK_arr0

theorem wire_lSetH (args : List Bytes) : WireRes (Handler2.lSetH args) := by
  unfold Handler2.lSetH
  split
  · split
    · exact wire_errReply
    · intro s now ch
      apply wgood_call_all
      intro s o
      split
      · exact wgood_done_tok _ _ tokOK_ok
      · exact wgood_done_tok _ _ rfl
  · exact wire_errReply

theorem wire_rotateH (left : Bool) (args : List Bytes) : WireRes (Handler2.rotateH left args) := by
  unfold Handler2.rotateH
  split
  · wcall2
  · exact wire_errReply

/-! ## hashes -/

theorem wire_hSetH (args : List Bytes) : WireRes (Handler2.hSetH args) := by
  unfold Handler2.hSetH
  split
  · intro s now ch
    apply wgood_call_all
    intro s o
    exact wgood_done_tok _ _ rfl
  · exact wire_errReply

theorem wire_hGetH (args : List Bytes) : WireRes (Handler2.hGetH args) := by
  unfold Handler2.hGetH
  split
  · wcall2
  · exact wire_errReply

theorem wire_hDelH (args : List Bytes) : WireRes (Handler2.hDelH args) := by
  unfold Handler2.hDelH
  split
  · wcall2
  · exact wire_errReply

theorem wire_hLenH (args : List Bytes) : WireRes (Handler2.hLenH args) := by
  unfold Handler2.hLenH
  split
  · wcall2
  · exact wire_errReply

theorem wire_hKeysH (args : List Bytes) : WireRes (Handler2.hKeysH args) := by
  unfold Handler2.hKeysH
  split
  · intro s now ch
    apply wgood_call_all
    intro s o
    apply wgood_done
    split
    · exact wireOK_bulkList _
    · exact wireOK_arr0
  · exact wire_errReply

theorem wire_hExistsH (args : List Bytes) : WireRes (Handler2.hExistsH args) := by
  unfold Handler2.hExistsH
  split
  · wcall2
  · exact wire_errReply

theorem wire_hGetAllH (args : List Bytes) : WireRes (Handler2.hGetAllH args) := by
  unfold Handler2.hGetAllH
  split
  · intro s now ch
    apply wgood_call_all
    intro s o
    split
    · exact wgood_done _ _ (wireOK_pairs _)
    · exact wgood_done _ _ wireOK_arr0
  · exact wire_errReply

theorem wire_hIncrByH (args : List Bytes) : WireRes (Handler2.hIncrByH args) := by
  unfold Handler2.hIncrByH
  split
  · split
    · exact wire_errReply
    · intro s now ch
      apply wgood_call_all
      intro s o
      split <;> exact wgood_done_tok _ _ rfl
  · exact wire_errReply

theorem wire_hIncrByFloatH (args : List Bytes) : WireRes (Handler2.hIncrByFloatH args) := by
  unfold Handler2.hIncrByFloatH
  split
  · split
    · trivial
    · exact wire_errReply
    · intro s now ch
      exact wgood_of_toks _ (wireOK_single _ tokOK_unsupported2)
    · intro s now ch
      apply wgood_call_all
      intro s o
      split
      · apply wgood_done_tok
        split
        · rfl
        · exact tokOK_unsupported2
      · exact wgood_done_tok _ _ tokOK_unsupported2
      · exact wgood_done_tok _ _ rfl
  · exact wire_errReply

theorem wire_hSetNXH (args : List Bytes) : WireRes (Handler2.hSetNXH args) := by
  unfold Handler2.hSetNXH
  split
  · wcall2
  · exact wire_errReply

theorem wire_hMGetH (args : List Bytes) : WireRes (Handler2.hMGetH args) := by
  unfold Handler2.hMGetH
  split
  · intro s now ch
    dsimp only
    apply wgood_call_all
    intro s o
    split
    · exact wgood_done _ _ (wireOK_arr_map _ _ _ (by omega) (fun _ => rfl))
    · exact wgood_done _ _ (wireOK_arr_map _ _ _ (by omega) tokOK_optBulk)
    · exact wgood_done _ _ wireOK_arr0
  · exact wire_errReply

theorem wire_hMSetH (args : List Bytes) : WireRes (Handler2.hMSetH args) := by
  unfold Handler2.hMSetH
  split
  · wcall2
  · exact wire_errReply

theorem wire_hClearH (args : List Bytes) : WireRes (Handler2.hClearH args) := by
  unfold Handler2.hClearH
  split
  · wcall2
  · exact wire_errReply

theorem wire_hStrLenH (args : List Bytes) : WireRes (Handler2.hStrLenH args) := by
  unfold Handler2.hStrLenH
  split
  · wcall2
  · exact wire_errReply

theorem wire_hValsH (args : List Bytes) : WireRes (Handler2.hValsH args) := by
  unfold Handler2.hValsH
  split
  · intro s now ch
    apply wgood_call_all
    intro s o
    apply wgood_done
    split
    · exact wireOK_bulkList _
    · exact wireOK_arr0
  · exact wire_errReply

/-! ## sets -/

theorem wire_sAddH (args : List Bytes) : WireRes (Handler2.sAddH args) := by
  unfold Handler2.sAddH
  split
  · wcall2
  · exact wire_errReply

theorem wire_sMoveH (args : List Bytes) : WireRes (Handler2.sMoveH args) := by
  unfold Handler2.sMoveH
  split
  · wcall2
  · exact wire_errReply

/-- the continuation of SPOP, given what a `.str` result can be -/
theorem wgood_spop_k (noCount : Bool) (s : MState) (o : Out) :
    (∀ x, o = Out.str x → cleanLine x = true) →
    WGood (match o with
          | .slist [] => done s [.nullBulk]
          | .slist (r :: rs) => if noCount then done s [.bulk r] else done s (bulkList (r :: rs))
          | o => done s (invalidChoice o)) := by
  intro h
  split
  · exact wgood_done_tok _ _ rfl
  · split
    · exact wgood_done_tok _ _ rfl
    · exact wgood_done _ _ (wireOK_bulkList _)
  · exact wgood_done _ _ (wireOK_invalidChoice _ h)

/-- SPOP: the verdict token of a rejected choice is the one simple string computed by the API -/
theorem wire_sPopH (args : List Bytes) : WireRes (Handler2.sPopH args) := by
  unfold Handler2.sPopH
  split
  · exact wire_errReply
  · dsimp only
    apply wireRes_ite
    · exact wire_errReply
    · intro s now ch
      apply wgood_call
      intro _
      exact wgood_spop_k _ _ _ (spop_out _ _ _ _ _)

theorem wire_sCardH (args : List Bytes) : WireRes (Handler2.sCardH args) := by
  unfold Handler2.sCardH
  split
  · wcall2
  · exact wire_errReply

theorem wire_sOpH (op : MState → Int → List Bytes → Api.R) (args : List Bytes) :
    WireRes (Handler2.sOpH op args) := by
  unfold Handler2.sOpH
  split
  · intro s now ch
    apply wgood_call_all
    intro s o
    apply wgood_done
    split
    · exact wireOK_bulkList _
    · exact wireOK_arr0
  · exact wire_errReply

theorem wire_sStoreH (op : MState → Int → List Bytes → Api.R) (all : Bool) (args : List Bytes) :
    WireRes (Handler2.sStoreH op all args) := by
  unfold Handler2.sStoreH
  split
  · intro s now ch
    apply wgood_call_all
    intro s o
    exact wgood_done_tok _ _ rfl
  · exact wire_errReply

theorem wire_sIsMemberH (args : List Bytes) : WireRes (Handler2.sIsMemberH args) := by
  unfold Handler2.sIsMemberH
  split
  · wcall2
  · exact wire_errReply

theorem wire_sMembersH (args : List Bytes) : WireRes (Handler2.sMembersH args) := by
  unfold Handler2.sMembersH
  split
  · intro s now ch
    apply wgood_call_all
    intro s o
    apply wgood_done
    split
    · exact wireOK_bulkList _
    · exact wireOK_arr0
  · exact wire_errReply

theorem wgood_srand_k (hasCount : Bool) (s : MState) (o : Out) :
    (∀ x, o = Out.str x → cleanLine x = true) →
    WGood (match o with
          | .slist [] => done s [if hasCount then .arr 0 else .nullBulk]
          | .slist (r :: rs) => if hasCount then done s (bulkList (r :: rs)) else done s [.bulk r]
          | o => done s (invalidChoice o)) := by
  intro h
  split
  · apply wgood_done_tok
    split <;> rfl
  · split
    · exact wgood_done _ _ (wireOK_bulkList _)
    · exact wgood_done_tok _ _ rfl
  · exact wgood_done _ _ (wireOK_invalidChoice _ h)

theorem wire_sRandMemberH (args : List Bytes) : WireRes (Handler2.sRandMemberH args) := by
  unfold Handler2.sRandMemberH
  split
  · exact wire_errReply
  · dsimp only
    apply wireRes_ite
    · exact wire_errReply
    · intro s now ch
      apply wgood_call
      intro _
      exact wgood_srand_k _ _ _ (srandmember_out _ _ _ _ _)

theorem wire_sRemH (args : List Bytes) : WireRes (Handler2.sRemH args) := by
  unfold Handler2.sRemH
  split
  · wcall2
  · exact wire_errReply

/-! ## the dispatch table -/

/-- every handler of `Handler2.table2`: whatever it writes can be read back -/
theorem table2_wire : TableWire Handler2.table2 := by
  intro name args r h
  unfold Handler2.table2 at h
  split at h
  · cases h; exact wire_pushH _ _
  · cases h; exact wire_pushH _ _
  · cases h; exact wire_popH _ _
  · cases h; exact wire_popH _ _
  · cases h; exact wire_llenH _
  · cases h; exact wire_lIndexH _
  · cases h; exact wire_lInsertH _
  · cases h; exact wire_lPushxH _
  · cases h; exact wire_rPushxH _
  · cases h; exact wire_lRemH _
  · cases h; exact wire_lTrimH _
  · cases h; exact wire_lSetH _
  · cases h; exact wire_lRangeH _
  · cases h; exact wire_rotateH _ _
  · cases h; exact wire_rotateH _ _
  · cases h; exact wire_hSetH _
  · cases h; exact wire_hGetH _
  · cases h; exact wire_hDelH _
  · cases h; exact wire_hLenH _
  · cases h; exact wire_hKeysH _
  · cases h; exact wire_hExistsH _
  · cases h; exact wire_hGetAllH _
  · cases h; exact wire_hIncrByH _
  · cases h; exact wire_hIncrByFloatH _
  · cases h; exact wire_hSetNXH _
  · cases h; exact wire_hMGetH _
  · cases h; exact wire_hMSetH _
  · cases h; exact wire_hClearH _
  · cases h; exact wire_hStrLenH _
  · cases h; exact wire_hValsH _
  · cases h; exact wire_sAddH _
  · cases h; exact wire_sMoveH _
  · cases h; exact wire_sCardH _
  · cases h; exact wire_sPopH _
  · cases h; exact wire_sOpH _ _
  · cases h; exact wire_sStoreH _ _ _
  · cases h; exact wire_sOpH _ _
  · cases h; exact wire_sStoreH _ _ _
  · cases h; exact wire_sOpH _ _
  · cases h; exact wire_sStoreH _ _ _
  · cases h; exact wire_sIsMemberH _
  · cases h; exact wire_sMembersH _
  · cases h; exact wire_sRandMemberH _
  · cases h; exact wire_sRemH _
  · cases h

/-! ## table-level corollaries -/

/-- `table2` satisfies the hypothesis of `step_one_reply` / `run_one_reply` -/
theorem table2_tableOneReply : TableOneReply Handler2.table2 := table2_one_reply

/-- first table that knows the command (what the driver does with `[table1, table2, table3]`) -/
def orTable (H1 H2 : Table) : Table := fun name args =>
  match H1 name args with
  | some r => some r
  | none => H2 name args

theorem orTable_oneReply {H1 H2 : Table} (h1 : TableOneReply H1) (h2 : TableOneReply H2) :
    TableOneReply (orTable H1 H2) := by
  intro name args r h
  unfold orTable at h
  split at h
  · rename_i r' h'; cases h; exact h1 _ _ _ h'
  · exact h2 _ _ _ h

theorem orTable_wire {H1 H2 : Table} (h1 : TableWire H1) (h2 : TableWire H2) :
    TableWire (orTable H1 H2) := by
  intro name args r h
  unfold orTable at h
  split at h
  · rename_i r' h'; cases h; exact h1 _ _ _ h'
  · exact h2 _ _ _ h

/-- non-vacuity: every schedule of list / hash / set commands, inside or outside MULTI, on any
    store: each command is answered by exactly one value, every token of which is readable -/
example (st : MState) (cs : List Cmd) : ∀ r ∈ (run Handler2.table2 { store := st } cs).2, oneValue r = true :=
  run_one_reply table2_tableOneReply cs (QueuesSat.init _ st)
example (st : MState) (cs : List Cmd) : ∀ r ∈ (run Handler2.table2 { store := st } cs).2, WireOK r :=
  run_wire table2_wire cs (QueuesSat.init _ st)
example (st : MState) (cs : List Cmd) :
    ∀ r ∈ (run (orTable Handler.table1 Handler2.table2) { store := st } cs).2, WireOK r :=
  run_wire (orTable_wire table1_wire table2_wire) cs (QueuesSat.init _ st)

/- UNPROVED: nothing. -/

end NodisVerif.Proofs.C16Table2
