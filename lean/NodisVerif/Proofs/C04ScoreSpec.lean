import NodisVerif.Proofs.C04Score
/-
  ZRANGEBYSCORE / ZREVRANGEBYSCORE / ZCOUNT: the model in closed form and against the reference.
-/
namespace NodisVerif.Proofs.C04
open AListLemmas ZSetLemmas DsZSet

theorem rangeByScore_stream (z : ZSet) (min max : F64) (offset limit : Int) (desc : Bool) (mode : Nat)
    (h : ¬ (limit = 0 ∨ offset < 0)) :
    rangeByScore z min max offset limit desc mode =
      loopS min max mode limit
        (ostream desc (if desc then getLastInRange z.sl min max else getFirstInRange z.sl min max))
        offset (z.sl.length + 1) [] := by
  unfold rangeByScore
  rw [if_neg h]
  simp only
  rw [scoreLoop_eq]

theorem aboveRange_out (l : List Item) (hpw : l.Pairwise ILt) (hg : ∀ a ∈ l, Good a)
    (max : F64) (hmax : F64.isNaN max = false) (min : F64) :
    ∀ b ∈ aboveRange l min max, F64.ge max b.1 = false := by
  have hsub : (l.dropWhile fun n => F64.gt min n.1).Sublist l := List.dropWhile_sublist _
  obtain ⟨_, hB2⟩ := filter_downclosed ILt (fun n => F64.ge max n.1) _ (hpw.sublist hsub)
    (fun a ha b hb => geMax_down l hg max hmax a (hsub.subset ha) b (hsub.subset hb))
  intro b hb
  unfold aboveRange at hb
  rw [← hB2] at hb
  simpa using (List.mem_filter.mp hb).2

theorem belowRange_out (l : List Item) (hpw : l.Pairwise ILt) (hg : ∀ a ∈ l, Good a)
    (min : F64) (hmin : F64.isNaN min = false) (max : F64) :
    ∀ b ∈ belowRange l min max, F64.gt min b.1 = true := by
  have hsub : (l.takeWhile fun n => F64.ge max n.1).Sublist l := List.takeWhile_sublist _
  obtain ⟨hB1, _⟩ := filter_downclosed ILt (fun n => F64.gt min n.1) _ (hpw.sublist hsub)
    (fun a ha b hb => gtMin_down l hg min hmin a (hsub.subset ha) b (hsub.subset hb))
  intro b hb
  unfold belowRange at hb
  rw [← hB1] at hb
  exact (List.mem_filter.mp hb).2

theorem aboveRange_sub (l : List Item) (min max : F64) : (aboveRange l min max).Sublist l :=
  (List.dropWhile_sublist _).trans (List.dropWhile_sublist _)

theorem belowRange_sub (l : List Item) (min max : F64) : (belowRange l min max).Sublist l :=
  (List.takeWhile_sublist _).trans (List.takeWhile_sublist _)

/-! ### against the reference -/

theorem inRange_eq (min max : F64) (hmin : F64.isNaN min = false) (hmax : F64.isNaN max = false)
    (mode : Nat) (a : Item) (ha : Good a) :
    Spec.ZSet.inRange min max (minOpen mode) (maxOpen mode) a
      = (inC min max a && keepB min max mode a) := by
  have han : F64.isNaN a.1 = false := ha
  unfold Spec.ZSet.inRange Spec.ZSet.aboveMin Spec.ZSet.belowMax inC keepB minOpen maxOpen
  by_cases h1 : mode % 2 = 1 <;> by_cases h2 : mode / 2 % 2 = 1 <;>
    simp only [h1, h2, decide_true, decide_false, if_true, if_false, Bool.false_eq_true, F64.lt,
      F64.le, F64.ge, F64.eq, hmin, hmax, han, Bool.not_false, Bool.true_and, true_and, false_and,
      or_false, false_or, beq_iff_eq] <;>
    rw [Bool.eq_iff_iff] <;>
    simp only [Bool.and_eq_true, decide_eq_true_eq, Bool.not_eq_true', decide_eq_false_iff_not,
      not_or, and_true] <;> omega

theorem filter_inRange {z : ZSet} (h : Inv z) (min max : F64)
    (hmin : F64.isNaN min = false) (hmax : F64.isNaN max = false) (mode : Nat) :
    Spec.ZSet.rangeByScore z min max (minOpen mode) (maxOpen mode)
      = (z.sl.filter (inC min max)).filter (keepB min max mode) := by
  unfold Spec.ZSet.rangeByScore
  rw [← sl_eq_sorted h, List.filter_filter]
  apply List.filter_congr
  intro a ha
  rw [inRange_eq min max hmin hmax mode a (h.good a ha), Bool.and_comm]

/-- the part of the walk inside the closed interval is the closed range (in walk order), and the
    walk is never longer than the chain -/
theorem walk_closed_range {z : ZSet} (h : Inv z) (min max : F64)
    (hmin : F64.isNaN min = false) (hmax : F64.isNaN max = false) (desc : Bool) :
    let S := ostream desc (if desc then getLastInRange z.sl min max else getFirstInRange z.sl min max)
    S.takeWhile (inC min max)
        = (if desc then (z.sl.filter (inC min max)).reverse else z.sl.filter (inC min max)) ∧
      S.length ≤ z.sl.length := by
  have hpw := h.slPW
  have hg := h.good
  have hRin : ∀ a ∈ z.sl.filter (inC min max), inC min max a = true :=
    fun a ha => (List.mem_filter.mp ha).2
  cases desc with
  | false =>
    simp only [Bool.false_eq_true, if_false]
    rw [first_stream z.sl hpw hg min max hmin hmax]
    by_cases hRe : z.sl.filter (inC min max) = []
    · simp [hRe]
    · rw [if_neg hRe]
      have hBout := aboveRange_out z.sl hpw hg max hmax min
      have hBnot : ∀ b ∈ aboveRange z.sl min max, inC min max b = false := by
        intro b hb; simp [inC, hBout b hb]
      refine ⟨takeWhile_inC_stream min max _ _ hRin hBnot, ?_⟩
      have hD := (first_decomp z.sl hpw hg min max hmin hmax).1
      rw [← hD]
      exact (List.dropWhile_sublist (fun n : Item => F64.gt min n.1) (l := z.sl)).length_le
  | true =>
    simp only [if_true]
    rw [last_stream z.sl hpw hg min max hmin hmax]
    by_cases hRe : z.sl.filter (inC min max) = []
    · simp [hRe]
    · rw [if_neg hRe]
      have hBout := belowRange_out z.sl hpw hg min hmin max
      have hBsub := belowRange_sub z.sl min max
      have hBnot : ∀ b ∈ (belowRange z.sl min max).reverse, inC min max b = false := by
        intro b hb
        have hb' := List.mem_reverse.mp hb
        have hbg : Good b := hg b (hBsub.subset hb')
        rw [inC_eq min max hmin b hbg, hBout b hb']
        rfl
      have hRin' : ∀ a ∈ (z.sl.filter (inC min max)).reverse, inC min max a = true :=
        fun a ha => hRin a (List.mem_reverse.mp ha)
      refine ⟨takeWhile_inC_stream min max _ _ hRin' hBnot, ?_⟩
      have hT := (last_decomp z.sl hpw hg min max hmin hmax).1
      have := (List.takeWhile_sublist (fun n : Item => F64.ge max n.1) (l := z.sl)).length_le
      rw [hT] at this
      simp only [List.length_append, List.length_reverse] at this ⊢
      omega

theorem lim_eq_limitBy (l : List Item) (offset limit : Int) (h : ¬ (limit = 0 ∨ offset < 0)) :
    lim limit 0 (l.drop offset.toNat) = Spec.ZSet.limitBy l offset limit := by
  unfold lim Spec.ZSet.limitBy
  have h1 : ¬ offset < 0 := fun e => h (Or.inr e)
  rw [if_neg h1]
  simp only [Nat.sub_zero]
  by_cases hl : limit > 0
  · rw [if_pos hl, if_neg (by omega)]
  · rw [if_neg hl, if_pos (by omega)]

/-- ZRANGEBYSCORE / ZREVRANGEBYSCORE with non-NaN bounds: every mode, offset and limit -/
theorem rangeByScore_spec_nonNaN {z : ZSet} (h : Inv z) (min max : F64)
    (hmin : F64.isNaN min = false) (hmax : F64.isNaN max = false) (offset limit : Int) (desc : Bool)
    (mode : Nat) :
    rangeByScore z min max offset limit desc mode =
      if desc then Spec.ZSet.revRangeByScoreLimit z min max (minOpen mode) (maxOpen mode) offset limit
      else Spec.ZSet.rangeByScoreLimit z min max (minOpen mode) (maxOpen mode) offset limit := by
  unfold Spec.ZSet.revRangeByScoreLimit Spec.ZSet.rangeByScoreLimit Spec.ZSet.revRangeByScore
  rw [filter_inRange h min max hmin hmax mode]
  by_cases hlim : limit = 0 ∨ offset < 0
  · have hm : rangeByScore z min max offset limit desc mode = [] := by
      unfold rangeByScore; rw [if_pos hlim]
    rw [hm]
    unfold Spec.ZSet.limitBy
    rcases hlim with hl | ho
    · subst hl; cases desc <;> simp
    · cases desc <;> simp [ho]
  · rw [rangeByScore_stream z min max offset limit desc mode hlim]
    obtain ⟨htw, hlen⟩ := walk_closed_range h min max hmin hmax desc
    rw [loopS_closed min max mode limit _ offset _ [] (by omega) (by intro hl; simpa using hl), htw]
    simp only [List.reverse_nil, List.nil_append, List.length_nil]
    cases desc with
    | false =>
      simp only [Bool.false_eq_true, if_false]
      exact lim_eq_limitBy _ offset limit hlim
    | true =>
      simp only [if_true]
      rw [List.filter_reverse]
      exact lim_eq_limitBy _ offset limit hlim

/-- a NaN bound: the model returns nothing, and so does the reference -/
theorem rangeByScore_nan (z : ZSet) (min max : F64) (hn : F64.isNaN min = true ∨ F64.isNaN max = true)
    (offset limit : Int) (desc : Bool) (mode : Nat) :
    rangeByScore z min max offset limit desc mode = [] := by
  have hout : ∀ c : Item, inC min max c = false := by
    intro c
    unfold inC F64.ge F64.le
    rcases hn with h | h <;> simp [h]
  by_cases hlim : limit = 0 ∨ offset < 0
  · unfold rangeByScore; rw [if_pos hlim]
  · rw [rangeByScore_stream z min max offset limit desc mode hlim]
    generalize ostream desc _ = S
    cases S with
    | nil => simp [loopS]
    | cons c rest => simp [loopS, inC_unfold, hout c]

theorem spec_rangeByScore_nan (z : ZSet) (min max : F64)
    (hn : F64.isNaN min = true ∨ F64.isNaN max = true) (mo xo : Bool) :
    Spec.ZSet.rangeByScore z min max mo xo = [] := by
  unfold Spec.ZSet.rangeByScore
  rw [List.filter_eq_nil_iff]
  intro a _
  unfold Spec.ZSet.inRange Spec.ZSet.aboveMin Spec.ZSet.belowMax F64.lt F64.le
  rcases hn with h | h <;> cases mo <;> cases xo <;> simp [h]

/-- ZRANGEBYSCORE / ZREVRANGEBYSCORE: every bound (NaN included), mode, offset, limit, direction -/
theorem rangeByScore_spec {z : ZSet} (h : Inv z) (min max : F64) (offset limit : Int) (desc : Bool)
    (mode : Nat) :
    rangeByScore z min max offset limit desc mode =
      if desc then Spec.ZSet.revRangeByScoreLimit z min max (minOpen mode) (maxOpen mode) offset limit
      else Spec.ZSet.rangeByScoreLimit z min max (minOpen mode) (maxOpen mode) offset limit := by
  by_cases hn : F64.isNaN min = true ∨ F64.isNaN max = true
  · rw [rangeByScore_nan z min max hn]
    unfold Spec.ZSet.revRangeByScoreLimit Spec.ZSet.rangeByScoreLimit Spec.ZSet.revRangeByScore
    rw [spec_rangeByScore_nan z min max hn]
    unfold Spec.ZSet.limitBy
    cases desc <;> simp
  · have h1 : F64.isNaN min = false := by
      cases hm : F64.isNaN min with
      | false => rfl
      | true => exact absurd (Or.inl hm) hn
    have h2 : F64.isNaN max = false := by
      cases hm : F64.isNaN max with
      | false => rfl
      | true => exact absurd (Or.inr hm) hn
    exact rangeByScore_spec_nonNaN h min max h1 h2 offset limit desc mode

/-! ### ZCOUNT -/

theorem forEachByRank_all (z : ZSet) (hlen : z.sl.length = z.dict.length)
    (hsize : z.dict.length < 2 ^ 63) : forEachByRank z 0 (zCard z) false = some z.sl := by
  unfold forEachByRank
  have hc : zCard z = (z.sl.length : Int) := by unfold zCard; rw [hlen]
  rw [hc]
  simp only [Bool.false_eq_true, if_false, if_true]
  by_cases hn : z.sl.length = 0
  · have : z.sl = [] := List.eq_nil_of_length_eq_zero hn
    simp [this]
  · have h1 : ¬ ((0 : Int) > (z.sl.length : Int)) := by omega
    have h3 : ¬ ((z.sl.length : Int) < 1) := by omega
    have h4 : ¬ ((1 : Int) < 0) := by omega
    have h5 : ¬ ((z.sl.length : Int) > (z.sl.length : Int)) := by omega
    have h6 : ¬ ((1 : Int) > 1) := by omega
    simp only [h1, h3, h4, h5, h6, if_false]
    have hw : wrap64 ((z.sl.length : Int) - 1) = (z.sl.length : Int) - 1 := by
      have hlt : (z.sl.length : Int) < 2 ^ 63 := by rw [hlen]; exact_mod_cast hsize
      unfold wrap64 int64Max
      simp only
      have : ((z.sl.length : Int) - 1) % 18446744073709551616 = (z.sl.length : Int) - 1 := by
        apply Int.emod_eq_of_lt <;> omega
      rw [this]
      split <;> omega
    rw [hw]
    have h7 : ¬ ((z.sl.length : Int) - 1 < 0) := by omega
    rw [if_neg h7, walk_eq, ostream_cursorAt_asc]
    have : ((z.sl.length : Int) - 1).toNat + 1 = z.sl.length := by omega
    rw [this]
    simp

theorem zCount_spec {z : ZSet} (h : Inv z) (hsize : z.dict.length < 2 ^ 63) (min max : F64) (mode : Nat) :
    zCount z min max mode = some (Spec.ZSet.count z min max (minOpen mode) (maxOpen mode) : Int) := by
  unfold zCount
  rw [forEachByRank_all z h.sameLen hsize]
  unfold Spec.ZSet.count Spec.ZSet.rangeByScore
  rw [← sl_eq_sorted h]
  simp only [Option.map_some, Option.some.injEq, Int.natCast_inj]
  congr 1
  apply List.filter_congr
  intro a _
  unfold inMin inMax Spec.ZSet.inRange Spec.ZSet.aboveMin Spec.ZSet.belowMax minOpen maxOpen F64.gt F64.ge
  by_cases h1 : mode % 2 = 1 <;> by_cases h2 : mode / 2 % 2 = 1 <;> simp [h1, h2]

end NodisVerif.Proofs.C04
