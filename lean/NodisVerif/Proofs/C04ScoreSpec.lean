import NodisVerif.Proofs.C04Score
/-
  ZRANGEBYSCORE / ZREVRANGEBYSCORE / ZCOUNT: the model in closed form and against the reference.
-/
namespace NodisVerif.Proofs.C04
open AListLemmas ZSetLemmas DsZSet

theorem rangeByScore_stream (z : ZSet) (min max : F64) (offset limit : Int) (desc : Bool) (mode : Nat)
    (h : ¬ (limit = 0 ∨ offset < 0)) :
    rangeByScore z min max offset limit desc mode =
      loopS min max mode limit
        ((ostream desc (if desc then getLastInRange z.sl min max else getFirstInRange z.sl min max)).drop
          offset.toNat) 0 (z.sl.length + 1) [] := by
  unfold rangeByScore
  rw [if_neg h]
  simp only
  rw [scoreLoop_eq, ostream_skipN desc _ offset _ rfl]

theorem aboveRange_out (l : List Item) (hpw : l.Pairwise ILt) (hg : ∀ a ∈ l, Good a)
    (max : F64) (hmax : F64.isNaN max = false) (min : F64) :
    ∀ b ∈ aboveRange l min max, F64.ge max b.1 = false := by
  have hsub : (l.dropWhile fun n => F64.gt min n.1).Sublist l := List.dropWhile_sublist _
  obtain ⟨_, hB2⟩ := filter_downclosed ILt (fun n => F64.ge max n.1) _ (hpw.sublist hsub)
    (fun a ha b hb => geMax_down l hg max hmax a (hsub.subset ha) b (hsub.subset hb))
  intro b hb
  unfold aboveRange at hb
  rw [← hB2] at hb
  simpa using (List.mem_filter.mp hb).2

theorem belowRange_out (l : List Item) (hpw : l.Pairwise ILt) (hg : ∀ a ∈ l, Good a)
    (min : F64) (hmin : F64.isNaN min = false) (max : F64) :
    ∀ b ∈ belowRange l min max, F64.gt min b.1 = true := by
  have hsub : (l.takeWhile fun n => F64.ge max n.1).Sublist l := List.takeWhile_sublist _
  obtain ⟨hB1, _⟩ := filter_downclosed ILt (fun n => F64.gt min n.1) _ (hpw.sublist hsub)
    (fun a ha b hb => gtMin_down l hg min hmin a (hsub.subset ha) b (hsub.subset hb))
  intro b hb
  unfold belowRange at hb
  rw [← hB1] at hb
  exact (List.mem_filter.mp hb).2

theorem aboveRange_sub (l : List Item) (min max : F64) : (aboveRange l min max).Sublist l :=
  (List.dropWhile_sublist _).trans (List.dropWhile_sublist _)

theorem belowRange_sub (l : List Item) (min max : F64) : (belowRange l min max).Sublist l :=
  (List.takeWhile_sublist _).trans (List.takeWhile_sublist _)

/-- an item outside the closed interval of a non-empty range is never an excluded bound -/
theorem keepB_of_out (min max : F64) (hmin : F64.isNaN min = false) (hmax : F64.isNaN max = false)
    (mode : Nat) (r b : Item) (hr : Good r) (hb : Good b) (hrin : inC min max r = true)
    (hout : F64.ge max b.1 = false ∨ F64.gt min b.1 = true) : keepB min max mode b = true := by
  have hrn : F64.isNaN r.1 = false := hr
  have hbn : F64.isNaN b.1 = false := hb
  simp only [inC, F64.le, F64.ge, hmin, hmax, hrn, Bool.not_false, Bool.true_and, Bool.and_eq_true,
    decide_eq_true_eq] at hrin
  simp only [F64.ge, F64.le, F64.gt, F64.lt, hmin, hmax, hbn, Bool.not_false, Bool.true_and,
    decide_eq_false_iff_not, decide_eq_true_eq] at hout
  have e1 : ¬ F64.key b.1 = F64.key min := by omega
  have e2 : ¬ F64.key b.1 = F64.key max := by omega
  simp [keepB, F64.eq, hmin, hmax, hbn, e1, e2]

theorem takeLim_take_one (limit : Int) (hl : limit ≠ 0) (L : List Item) :
    takeLim limit 0 (L.take 1) = L.take 1 := by
  unfold takeLim
  split
  · rfl
  · rw [List.take_take]
    have : min (limit - ((0 : Nat) : Int)).toNat 1 = 1 := by omega
    rw [this]

/-- The model's answer for every offset, limit, direction and mode (non-NaN bounds):
    `R` is the closed range in walk order, `B` what the walk meets after it.
    * offset inside the closed range: LIMIT is applied to the *closed* range from the offset, and
      only then are exclusive-bound hits dropped;
    * offset at or beyond its end (range non-empty): the single node the cursor landed on — which
      is outside the range — is returned. -/
theorem rangeByScore_closed {z : ZSet} (h : Inv z) (min max : F64)
    (hmin : F64.isNaN min = false) (hmax : F64.isNaN max = false) (offset limit : Int) (desc : Bool)
    (mode : Nat) :
    rangeByScore z min max offset limit desc mode =
      if limit = 0 ∨ offset < 0 then [] else
      let R := if desc then (z.sl.filter (inC min max)).reverse else z.sl.filter (inC min max)
      let B := if desc then (belowRange z.sl min max).reverse else aboveRange z.sl min max
      if offset.toNat < R.length then
        (takeLim limit 0 (R.drop offset.toNat)).filter (keepB min max mode)
      else if R = [] then [] else (B.drop (offset.toNat - R.length)).take 1 := by
  by_cases hlim : limit = 0 ∨ offset < 0
  · rw [if_pos hlim]; unfold rangeByScore; rw [if_pos hlim]
  · rw [if_neg hlim, rangeByScore_stream z min max offset limit desc mode hlim]
    have hl0 : limit ≠ 0 := fun e => hlim (Or.inl e)
    have hpw := h.slPW
    have hg := h.good
    have hRin : ∀ a ∈ z.sl.filter (inC min max), inC min max a = true :=
      fun a ha => (List.mem_filter.mp ha).2
    cases desc with
    | false =>
      simp only [Bool.false_eq_true, if_false]
      rw [first_stream z.sl hpw hg min max hmin hmax]
      by_cases hRe : z.sl.filter (inC min max) = []
      · simp [hRe, loopS]
      · rw [if_neg hRe, if_neg hRe]
        have hBout := aboveRange_out z.sl hpw hg max hmax min
        have hBsub := aboveRange_sub z.sl min max
        have hBnot : ∀ b ∈ aboveRange z.sl min max, inC min max b = false := by
          intro b hb; simp [inC, hBout b hb]
        have hlen : (z.sl.filter (inC min max) ++ aboveRange z.sl min max).length < z.sl.length + 1 := by
          have hD := (first_decomp z.sl hpw hg min max hmin hmax).1
          rw [← hD]
          have := (List.dropWhile_sublist (fun n : Item => F64.gt min n.1) (l := z.sl)).length_le
          omega
        rw [stream_closed min max mode limit _ _ hRin hBnot offset.toNat _ hlen]
        split
        · rfl
        · obtain ⟨r, hr⟩ := List.exists_mem_of_ne_nil _ hRe
          rw [takeLim_take_one limit hl0]
          rw [List.filter_eq_self.mpr]
          intro b hb
          have hbB : b ∈ aboveRange z.sl min max := List.mem_of_mem_drop (List.mem_of_mem_take hb)
          exact keepB_of_out min max hmin hmax mode r b (hg r (List.mem_filter.mp hr).1)
            (hg b (hBsub.subset hbB)) (hRin r hr) (Or.inl (hBout b hbB))
    | true =>
      simp only [if_true]
      rw [last_stream z.sl hpw hg min max hmin hmax]
      by_cases hRe : z.sl.filter (inC min max) = []
      · simp [hRe, loopS]
      · have hRe' : ¬ (z.sl.filter (inC min max)).reverse = [] := by
          simpa using hRe
        rw [if_neg hRe, if_neg hRe']
        have hBout := belowRange_out z.sl hpw hg min hmin max
        have hBsub := belowRange_sub z.sl min max
        have hBnot : ∀ b ∈ (belowRange z.sl min max).reverse, inC min max b = false := by
          intro b hb
          have hb' := List.mem_reverse.mp hb
          have hbg : Good b := hg b (hBsub.subset hb')
          rw [inC_eq min max hmin b hbg, hBout b hb']
          rfl
        have hRin' : ∀ a ∈ (z.sl.filter (inC min max)).reverse, inC min max a = true :=
          fun a ha => hRin a (List.mem_reverse.mp ha)
        have hlen : ((z.sl.filter (inC min max)).reverse ++ (belowRange z.sl min max).reverse).length
            < z.sl.length + 1 := by
          have hT := (last_decomp z.sl hpw hg min max hmin hmax).1
          have := (List.takeWhile_sublist (fun n : Item => F64.ge max n.1) (l := z.sl)).length_le
          rw [hT] at this
          simp only [List.length_append, List.length_reverse] at this ⊢
          omega
        rw [stream_closed min max mode limit _ _ hRin' hBnot offset.toNat _ hlen]
        split
        · rfl
        · obtain ⟨r, hr⟩ := List.exists_mem_of_ne_nil _ hRe
          rw [takeLim_take_one limit hl0]
          rw [List.filter_eq_self.mpr]
          intro b hb
          have hbB : b ∈ belowRange z.sl min max :=
            List.mem_reverse.mp (List.mem_of_mem_drop (List.mem_of_mem_take hb))
          exact keepB_of_out min max hmin hmax mode r b (hg r (List.mem_filter.mp hr).1)
            (hg b (hBsub.subset hbB)) (hRin r hr) (Or.inr (hBout b hbB))

/-! ### against the reference -/

theorem inRange_eq (min max : F64) (hmin : F64.isNaN min = false) (hmax : F64.isNaN max = false)
    (mode : Nat) (a : Item) (ha : Good a) :
    Spec.ZSet.inRange min max (minOpen mode) (maxOpen mode) a
      = (inC min max a && keepB min max mode a) := by
  have han : F64.isNaN a.1 = false := ha
  unfold Spec.ZSet.inRange Spec.ZSet.aboveMin Spec.ZSet.belowMax inC keepB minOpen maxOpen
  by_cases h1 : mode % 2 = 1 <;> by_cases h2 : mode / 2 % 2 = 1 <;>
    simp only [h1, h2, decide_true, decide_false, if_true, if_false, Bool.false_eq_true, F64.lt,
      F64.le, F64.ge, F64.eq, hmin, hmax, han, Bool.not_false, Bool.true_and, true_and, false_and,
      or_false, false_or, beq_iff_eq] <;>
    rw [Bool.eq_iff_iff] <;>
    simp only [Bool.and_eq_true, decide_eq_true_eq, Bool.not_eq_true', decide_eq_false_iff_not,
      not_or, and_true] <;> omega

theorem filter_inRange {z : ZSet} (h : Inv z) (min max : F64)
    (hmin : F64.isNaN min = false) (hmax : F64.isNaN max = false) (mode : Nat) :
    Spec.ZSet.rangeByScore z min max (minOpen mode) (maxOpen mode)
      = (z.sl.filter (inC min max)).filter (keepB min max mode) := by
  unfold Spec.ZSet.rangeByScore
  rw [← sl_eq_sorted h, List.filter_filter]
  apply List.filter_congr
  intro a ha
  rw [inRange_eq min max hmin hmax mode a (h.good a ha), Bool.and_comm]

theorem closed_keep (min max : F64) (mode : Nat) (h1 : minOpen mode = false) (h2 : maxOpen mode = false)
    (a : Item) : keepB min max mode a = true := by
  simp only [minOpen, maxOpen, decide_eq_false_iff_not] at h1 h2
  simp [keepB, h1, h2]

/-- ZRANGEBYSCORE / ZREVRANGEBYSCORE without LIMIT (offset 0, negative count): every mode -/
theorem rangeByScore_noLimit {z : ZSet} (h : Inv z) (min max : F64)
    (hmin : F64.isNaN min = false) (hmax : F64.isNaN max = false) (limit : Int) (hl : limit < 0)
    (desc : Bool) (mode : Nat) :
    rangeByScore z min max 0 limit desc mode =
      if desc then Spec.ZSet.revRangeByScore z min max (minOpen mode) (maxOpen mode)
      else Spec.ZSet.rangeByScore z min max (minOpen mode) (maxOpen mode) := by
  rw [rangeByScore_closed h min max hmin hmax 0 limit desc mode]
  have hc : ¬ (limit = 0 ∨ (0 : Int) < 0) := by omega
  rw [if_neg hc]
  unfold Spec.ZSet.revRangeByScore
  rw [filter_inRange h min max hmin hmax mode]
  simp only [Int.toNat_zero, List.drop_zero, Nat.zero_sub]
  have htl : ∀ L : List Item, takeLim limit 0 L = L := by intro L; simp [takeLim, hl]
  cases desc with
  | false =>
    simp only [Bool.false_eq_true, if_false, htl]
    by_cases hRe : z.sl.filter (inC min max) = []
    · simp [hRe]
    · have : 0 < (z.sl.filter (inC min max)).length := List.length_pos_iff.mpr hRe
      rw [if_pos this]
  | true =>
    simp only [if_true, htl, List.length_reverse]
    by_cases hRe : z.sl.filter (inC min max) = []
    · simp [hRe]
    · have : 0 < (z.sl.filter (inC min max)).length := List.length_pos_iff.mpr hRe
      rw [if_pos this, List.filter_reverse]

theorem count_closed {z : ZSet} (h : Inv z) (min max : F64)
    (hmin : F64.isNaN min = false) (hmax : F64.isNaN max = false) :
    Spec.ZSet.count z min max false false = (z.sl.filter (inC min max)).length := by
  unfold Spec.ZSet.count
  have := filter_inRange h min max hmin hmax 0
  have e1 : minOpen 0 = false := by decide
  have e2 : maxOpen 0 = false := by decide
  rw [e1, e2] at this
  rw [this, List.filter_eq_self.mpr (fun a _ => closed_keep min max 0 e1 e2 a)]

/-- with LIMIT: exactly the reference, provided no member sits on an exclusive bound (always true
    for closed bounds) and the offset falls inside the closed range (or the range is empty) -/
theorem rangeByScore_limit {z : ZSet} (h : Inv z) (min max : F64)
    (hmin : F64.isNaN min = false) (hmax : F64.isNaN max = false) (offset limit : Int) (desc : Bool)
    (mode : Nat)
    (hk : ∀ a ∈ z.sl, inC min max a = true → keepB min max mode a = true)
    (hoff : offset.toNat < Spec.ZSet.count z min max false false ∨
      Spec.ZSet.count z min max false false = 0) :
    rangeByScore z min max offset limit desc mode =
      if desc then Spec.ZSet.revRangeByScoreLimit z min max (minOpen mode) (maxOpen mode) offset limit
      else Spec.ZSet.rangeByScoreLimit z min max (minOpen mode) (maxOpen mode) offset limit := by
  rw [rangeByScore_closed h min max hmin hmax offset limit desc mode]
  unfold Spec.ZSet.revRangeByScoreLimit Spec.ZSet.rangeByScoreLimit Spec.ZSet.revRangeByScore
  have hspec := filter_inRange h min max hmin hmax mode
  have hkR : (z.sl.filter (inC min max)).filter (keepB min max mode) = z.sl.filter (inC min max) :=
    List.filter_eq_self.mpr (fun a ha => hk a (List.mem_filter.mp ha).1 (List.mem_filter.mp ha).2)
  rw [hkR] at hspec
  have hkeep : ∀ L : List Item, (∀ a ∈ L, a ∈ z.sl.filter (inC min max)) →
      L.filter (keepB min max mode) = L :=
    fun L hL => List.filter_eq_self.mpr
      (fun a ha => hk a (List.mem_filter.mp (hL a ha)).1 (List.mem_filter.mp (hL a ha)).2)
  rw [count_closed h min max hmin hmax] at hoff
  rw [hspec]
  unfold Spec.ZSet.limitBy
  by_cases hneg : offset < 0
  · simp [hneg]
  · by_cases hl0 : limit = 0
    · subst hl0
      simp [hneg]
    · have hc : ¬ (limit = 0 ∨ offset < 0) := by omega
      rw [if_neg hc]
      simp only [hneg, if_false]
      have htl : ∀ L : List Item, takeLim limit 0 L = if limit < 0 then L else L.take limit.toNat := by
        intro L; unfold takeLim; simp
      have htl_sub : ∀ L : List Item, ∀ a ∈ takeLim limit 0 L, a ∈ L := by
        intro L a ha
        rw [htl] at ha
        split at ha
        · exact ha
        · exact List.mem_of_mem_take ha
      cases desc with
      | false =>
        simp only [Bool.false_eq_true, if_false]
        rcases hoff with hoff | hoff
        · rw [if_pos hoff, hkeep _ (fun a ha => List.mem_of_mem_drop (htl_sub _ a ha)), htl]
        · have hRe := List.eq_nil_of_length_eq_zero hoff
          simp [hRe]
      | true =>
        simp only [if_true, List.length_reverse]
        rcases hoff with hoff | hoff
        · rw [if_pos hoff, hkeep _ (fun a ha =>
            List.mem_reverse.mp (List.mem_of_mem_drop (htl_sub _ a ha))), htl]
        · have hRe := List.eq_nil_of_length_eq_zero hoff
          simp [hRe]

theorem skipN_zero (desc : Bool) (oc : Option Cursor) : skipN desc oc 0 = oc := by
  cases oc with
  | none => rw [skipN]
  | some c => rw [skipN]; simp

/-! ### ZCOUNT -/

theorem forEachByRank_all (z : ZSet) (hlen : z.sl.length = z.dict.length)
    (hsize : z.dict.length < 2 ^ 63) : forEachByRank z 0 (zCard z) false = some z.sl := by
  unfold forEachByRank
  have hc : zCard z = (z.sl.length : Int) := by unfold zCard; rw [hlen]
  rw [hc]
  simp only [Bool.false_eq_true, if_false, if_true]
  by_cases hn : z.sl.length = 0
  · have : z.sl = [] := List.eq_nil_of_length_eq_zero hn
    simp [this]
  · have h1 : ¬ ((0 : Int) > (z.sl.length : Int)) := by omega
    have h3 : ¬ ((z.sl.length : Int) < 1) := by omega
    have h4 : ¬ ((1 : Int) < 0) := by omega
    have h5 : ¬ ((z.sl.length : Int) > (z.sl.length : Int)) := by omega
    have h6 : ¬ ((1 : Int) > 1) := by omega
    simp only [h1, h3, h4, h5, h6, if_false]
    have hw : wrap64 ((z.sl.length : Int) - 1) = (z.sl.length : Int) - 1 := by
      have hlt : (z.sl.length : Int) < 2 ^ 63 := by rw [hlen]; exact_mod_cast hsize
      unfold wrap64 int64Max
      simp only
      have : ((z.sl.length : Int) - 1) % 18446744073709551616 = (z.sl.length : Int) - 1 := by
        apply Int.emod_eq_of_lt <;> omega
      rw [this]
      split <;> omega
    rw [hw]
    have h7 : ¬ ((z.sl.length : Int) - 1 < 0) := by omega
    rw [if_neg h7, walk_eq, ostream_cursorAt_asc]
    have : ((z.sl.length : Int) - 1).toNat + 1 = z.sl.length := by omega
    rw [this]
    simp

theorem zCount_spec {z : ZSet} (h : Inv z) (hsize : z.dict.length < 2 ^ 63) (min max : F64) (mode : Nat) :
    zCount z min max mode = some (Spec.ZSet.count z min max (minOpen mode) (maxOpen mode) : Int) := by
  unfold zCount
  rw [forEachByRank_all z h.sameLen hsize]
  unfold Spec.ZSet.count Spec.ZSet.rangeByScore
  rw [← sl_eq_sorted h]
  simp only [Option.map_some, Option.some.injEq, Int.natCast_inj]
  congr 1
  apply List.filter_congr
  intro a _
  unfold inMin inMax Spec.ZSet.inRange Spec.ZSet.aboveMin Spec.ZSet.belowMax minOpen maxOpen F64.gt F64.ge
  by_cases h1 : mode % 2 = 1 <;> by_cases h2 : mode / 2 % 2 = 1 <;> simp [h1, h2]

end NodisVerif.Proofs.C04
