import NodisVerif.Proofs.LinkedListPush
/-
  SetValue on the pointer structure refines Codec.decodeList (the decoding loop is the same; every
  decoded element goes through RPush).
-/
namespace NodisVerif.LinkedList

theorem setValue_refines (fuel : Nat) (b : Bytes) (l : PList) (c : List Nat) (hi : InvC l c) (r : LList)
    (hd : Codec.decodeList b (absL l) fuel = some r) :
    ∃ l' c', setValue b l fuel = .ok l' ∧ InvC l' c' ∧ absL l' = r := by
  induction fuel generalizing b l c with
  | zero => simp [Codec.decodeList] at hd
  | succ fuel ih =>
    cases b with
    | nil =>
      simp only [Codec.decodeList, Option.some.injEq] at hd
      exact ⟨l, c, by simp [setValue], hi, hd⟩
    | cons x xs =>
      unfold Codec.decodeList at hd
      unfold setValue
      generalize Varint.varint (x :: xs) = vn at hd ⊢
      obtain ⟨vLen, n⟩ := vn
      simp only at hd ⊢
      by_cases hn : n = 0
      · simp only [hn, ↓reduceIte, Option.some.injEq] at hd ⊢
        exact ⟨l, c, rfl, hi, hd⟩
      · simp only [hn, ↓reduceIte] at hd ⊢
        cases hs : Codec.slice? (x :: xs) n (n + vLen) with
        | none => simp [hs] at hd
        | some v =>
          cases hf : Codec.from? (x :: xs) (n + vLen) with
          | none => simp [hs, hf] at hd
          | some rest =>
            simp only [hs, hf] at hd ⊢
            obtain ⟨l1, c1, e1, hi1, ha1, _⟩ := rpush_refines l c hi [v]
            rw [← ha1] at hd
            obtain ⟨l2, c2, e2, hi2, ha2⟩ := ih rest l1 c1 hi1 hd
            exact ⟨l2, c2, by simp only [e1, Res.bind_ok, e2], hi2, ha2⟩

/-- and when the sequence-level decoder fails (slice out of range: Go panics; or no fuel), the pointer
    level does not succeed either -/
theorem setValue_fails (fuel : Nat) (b : Bytes) (l : PList) (c : List Nat) (hi : InvC l c)
    (hd : Codec.decodeList b (absL l) fuel = none) :
    setValue b l fuel = .panic ∨ setValue b l fuel = .fuel := by
  induction fuel generalizing b l c with
  | zero => right; cases b <;> rfl
  | succ fuel ih =>
    cases b with
    | nil => simp [Codec.decodeList] at hd
    | cons x xs =>
      unfold Codec.decodeList at hd
      unfold setValue
      generalize Varint.varint (x :: xs) = vn at hd ⊢
      obtain ⟨vLen, n⟩ := vn
      simp only at hd ⊢
      by_cases hn : n = 0
      · simp [hn] at hd
      · simp only [hn, ↓reduceIte] at hd ⊢
        cases hs : Codec.slice? (x :: xs) n (n + vLen) with
        | none => left; simp
        | some v =>
          cases hf : Codec.from? (x :: xs) (n + vLen) with
          | none => left; simp
          | some rest =>
            simp only [hs, hf] at hd ⊢
            obtain ⟨l1, c1, e1, hi1, ha1, _⟩ := rpush_refines l c hi [v]
            rw [← ha1] at hd
            simp only [e1, Res.bind_ok]
            exact ih rest l1 c1 hi1 hd

end NodisVerif.LinkedList
