import NodisVerif.Proofs.C20ZRem
/-
  C20: ZRem / ZRemRangeByRank / ZRemRangeByScore as instances of `remTx`.
-/
namespace NodisVerif.Proofs.C20
open NodisVerif NodisVerif.Store NodisVerif.Spec.Persist NodisVerif.Proofs.C11
open NodisVerif.Proofs.AListLemmas NodisVerif.Proofs.AListLemmas2

variable {now : Int} {p r : MState}

/-! ### nothing counted, nothing removed; results stay well-formed -/

theorem remStep_mono (ms : List Bytes) : ∀ (acc : ZSet × Int),
    acc.2 ≤ (ms.foldl C04.remStep acc).2 ∧
    ((ms.foldl C04.remStep acc).2 ≤ acc.2 → (ms.foldl C04.remStep acc).1 = acc.1) ∧
    (∀ q ∈ (ms.foldl C04.remStep acc).1.dict, q ∈ acc.1.dict) := by
  induction ms with
  | nil => intro acc; exact ⟨Int.le_refl _, fun _ => rfl, fun _ h => h⟩
  | cons m rest ih =>
    intro acc
    simp only [List.foldl_cons]
    obtain ⟨a, b, c⟩ := ih (C04.remStep acc m)
    unfold C04.remStep at a b c ⊢
    cases hg : AList.get? acc.1.dict m with
    | none => simp only [hg] at a b c ⊢; exact ⟨a, b, c⟩
    | some sc =>
      simp only [hg] at a b c ⊢
      refine ⟨by omega, fun h => by omega, fun q hq => ?_⟩
      exact (erase_sublist acc.1.dict m).subset (c q hq)

theorem zRem_zero (z : ZSet) (ms : List Bytes) (h : (DsZSet.zRem z ms).2 ≤ 0) : (DsZSet.zRem z ms).1 = z := by
  rw [C04.zRem_eq] at h ⊢
  exact (remStep_mono ms (z, 0)).2.1 h

theorem good_of_inv_sub {z z' : ZSet} (hg : Good (.zset z)) (hi : C04.Inv z') (hsub : ∀ q ∈ z'.dict, q ∈ z.dict) :
    Good (.zset z') :=
  ⟨(C04.wf_iff_inv _).mpr hi, fun q hq => hg.2 q (hsub q hq)⟩

theorem good_zRem (z : ZSet) (ms : List Bytes) (hg : Good (.zset z)) : Good (.zset (DsZSet.zRem z ms).1) := by
  refine good_of_inv_sub hg (C04.inv_zRem ((C04.wf_iff_inv z).mp hg.1) ms) ?_
  rw [C04.zRem_eq]
  exact (remStep_mono ms (z, 0)).2.2

theorem zRemRangeByScore_zero (z : ZSet) (min max : F64) (mode : Nat)
    (h : (DsZSet.zRemRangeByScore z min max mode).2 ≤ 0) : (DsZSet.zRemRangeByScore z min max mode).1 = z := by
  unfold DsZSet.zRemRangeByScore DsZSet.slRemoveRange at h ⊢
  simp only at h ⊢
  generalize hpre : (z.sl.takeWhile fun n => !(if mode % 2 = 1 then F64.lt min n.1 else F64.le min n.1)) = pre at h ⊢
  generalize hrem : ((z.sl.drop pre.length).takeWhile
    fun n => !(if mode / 2 % 2 = 1 then F64.le max n.1 else F64.lt max n.1)) = rem at h ⊢
  have : rem = [] := by
    cases rem with
    | nil => rfl
    | cons a t => simp only [List.length_cons] at h; omega
  subst this
  simp only [List.foldl_nil, List.length_nil, List.drop_zero]
  have : pre ++ z.sl.drop pre.length = z.sl := by rw [← hpre]; exact C04.takeWhile_append_drop _ _
  rw [this]

theorem good_zRemRangeByScore (z : ZSet) (min max : F64) (mode : Nat) (hg : Good (.zset z)) :
    Good (.zset (DsZSet.zRemRangeByScore z min max mode).1) := by
  refine good_of_inv_sub hg (C04.inv_zRemRangeByScore ((C04.wf_iff_inv z).mp hg.1) min max mode) ?_
  unfold DsZSet.zRemRangeByScore
  exact (C04.foldl_erase_sublist _ _).subset

theorem zRemRangeByRank_zero (z : ZSet) (start stop : Int)
    (h : (DsZSet.zRemRangeByRank z start stop).2 ≤ 0) : (DsZSet.zRemRangeByRank z start stop).1 = z := by
  rw [C04.zRemRangeByRank_core] at h ⊢
  unfold C04.remByRankCore at h ⊢
  split
  · rfl
  · rename_i hc
    simp only [hc, if_false] at h
    unfold DsZSet.slRemoveRangeByRank at h ⊢
    simp only at h ⊢
    generalize hi0 : (if C04.normStart (DsZSet.zCard z) start + 1 ≤ 1 then 0
      else min (C04.normStart (DsZSet.zCard z) start + 1 - 1).toNat z.sl.length) = i0 at h ⊢
    generalize hcnt : (if C04.normStop (DsZSet.zCard z) stop + 1 < (i0 : Int) + 1 then 0
      else (C04.normStop (DsZSet.zCard z) stop + 1 - i0).toNat) = cnt at h ⊢
    have hnil : (z.sl.drop i0).take cnt = [] := by
      cases hh : (z.sl.drop i0).take cnt with
      | nil => rfl
      | cons a t => rw [hh] at h; simp only [List.length_cons] at h; omega
    have hdrop : (z.sl.drop i0).drop cnt = z.sl.drop i0 := by
      have := List.take_append_drop cnt (z.sl.drop i0)
      rw [hnil] at this
      exact this
    rw [hnil, hdrop, List.take_append_drop]
    rfl

theorem good_zRemRangeByRank (z : ZSet) (start stop : Int) (hg : Good (.zset z)) :
    Good (.zset (DsZSet.zRemRangeByRank z start stop).1) := by
  refine good_of_inv_sub hg (C04.inv_zRemRangeByRank ((C04.wf_iff_inv z).mp hg.1) start stop) ?_
  rw [C04.zRemRangeByRank_core]
  unfold C04.remByRankCore
  split
  · exact fun _ h => h
  · exact (C04.foldl_erase_sublist _ _).subset

/-! ### the three methods -/

def opZRem (k : Bytes) (ms : List Bytes) : FeedOp := { typ := 29, key := k, args := ms.map Bytes.toHex }
def opZRemRank (k : Bytes) (a b : Int) : FeedOp := { typ := 30, key := k, args := [toString a, toString b] }
def opZRemScore (k : Bytes) (a b : F64) (mode : Int) : FeedOp :=
  { typ := 31, key := k, args := [toString a, toString b, toString mode] }

theorem zrem_eq (s : MState) (now : Int) (k : Bytes) (ms : List Bytes) :
    Api.zrem s now k ms = remTx (fun z => DsZSet.zRem z ms) (opZRem k ms) s now k := rfl

theorem zremRangeByRank_eq (s : MState) (now : Int) (k : Bytes) (a b : Int) :
    Api.zremRangeByRank s now k a b = remTx (fun z => DsZSet.zRemRangeByRank z a b) (opZRemRank k a b) s now k := rfl

theorem zremRangeByScore_eq (s : MState) (now : Int) (k : Bytes) (a b : F64) (mode : Int) :
    Api.zremRangeByScore s now k a b mode =
      remTx (fun z => DsZSet.zRemRangeByScore z a b (mode % 4).toNat) (opZRemScore k a b mode) s now k := rfl

theorem zrem_main (hs : Same now p r) (hl : p.listeners = true) (hfd : p.feed = [])
    (c : Feed.CallInfo) (hc : plainMethod c.method = true) (k : Bytes) (ms : List Bytes)
    (hreg : ¬ ZRemOnEmpty (fun z => DsZSet.zRem z ms) (lookup p now k)) :
    Replay now r c (Api.zrem p now k ms) ∧ (Api.zrem p now k ms).1.listeners = true ∧
    ∀ o ∈ (Api.zrem p now k ms).1.feed.reverse, o.key = k := by
  rw [zrem_eq]
  refine remTx_replay _ (opZRem k ms) (fun z => zRem_zero z ms) (fun z => good_zRem z ms) k ?_ hs hl hfd c hc hreg
  intro r0
  simp [Feed.applyOp, opZRem]
  rfl

theorem zremRangeByRank_main (hs : Same now p r) (hl : p.listeners = true) (hfd : p.feed = [])
    (c : Feed.CallInfo) (hc : plainMethod c.method = true) (k : Bytes) (a b : Int)
    (hreg : ¬ ZRemOnEmpty (fun z => DsZSet.zRemRangeByRank z a b) (lookup p now k)) :
    Replay now r c (Api.zremRangeByRank p now k a b) ∧ (Api.zremRangeByRank p now k a b).1.listeners = true ∧
    ∀ o ∈ (Api.zremRangeByRank p now k a b).1.feed.reverse, o.key = k := by
  rw [zremRangeByRank_eq]
  refine remTx_replay _ (opZRemRank k a b) (fun z => zRemRangeByRank_zero z a b)
    (fun z => good_zRemRangeByRank z a b) k ?_ hs hl hfd c hc hreg
  intro r0
  simp [Feed.applyOp, opZRemRank]
  rfl

theorem zremRangeByScore_main (hs : Same now p r) (hl : p.listeners = true) (hfd : p.feed = [])
    (c : Feed.CallInfo) (hc : plainMethod c.method = true) (k : Bytes) (a b : F64) (mode : Int)
    (hreg : ¬ ZRemOnEmpty (fun z => DsZSet.zRemRangeByScore z a b (mode % 4).toNat) (lookup p now k)) :
    Replay now r c (Api.zremRangeByScore p now k a b mode) ∧
    (Api.zremRangeByScore p now k a b mode).1.listeners = true ∧
    ∀ o ∈ (Api.zremRangeByScore p now k a b mode).1.feed.reverse, o.key = k := by
  rw [zremRangeByScore_eq]
  refine remTx_replay _ (opZRemScore k a b mode) (fun z => zRemRangeByScore_zero z a b _)
    (fun z => good_zRemRangeByScore z a b _) k ?_ hs hl hfd c hc hreg
  intro r0
  simp [Feed.applyOp, opZRemScore, pF_toString]
  rfl

end NodisVerif.Proofs.C20
