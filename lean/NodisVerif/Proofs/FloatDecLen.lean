import NodisVerif.Model.FloatDec
import NodisVerif.Proofs.C09Float
import NodisVerif.Proofs.C01Int
/-
  A length bound for `FloatDec.formatShortest` (FormatFloat(x,'f',-1,64)): at most 1000 bytes.
  (The true maximum is 327: "-0." + 307 zeros + 17 digits; the bound proved here does not depend on the
  accuracy of the decimal-exponent estimate `decExp`, only on its range.) It replaces the old bound 21 of the
  integer-only model; its only use is the size side condition of the storage codec (value length < 2^63).
-/
namespace NodisVerif.Proofs.FloatDecLen
open NodisVerif NodisVerif.F64 NodisVerif.FloatDec

theorem natDigits_length_le (n L : Nat) (hL : 0 < L) (h : n < 10 ^ L) : (natDigits n).length ≤ L := by
  rw [Proofs.C01.natDigits_map, List.length_map]
  exact (Nat.length_toDigits_le_iff (by decide) hL).mpr h

theorem stripTrailingZeros_length (ds : Bytes) : (stripTrailingZeros ds).length ≤ ds.length := by
  unfold stripTrailingZeros
  rw [List.length_reverse]
  have := (List.dropWhile_sublist (l := ds.reverse) (fun x => decide (x = 48))).length_le
  rw [List.length_reverse] at this
  exact this

theorem renderF_length (c : Nat) (k : Int) : (renderF c k).length ≤ (natDigits c).length + k.natAbs + 2 := by
  unfold renderF
  simp only
  split
  · rw [List.length_append, List.length_replicate]; omega
  · generalize hds : natDigits c = ds
    generalize hj : (-k).toNat = j
    have hjk : j = k.natAbs := by omega
    by_cases hlen : ds.length > j
    · simp only [hlen, if_true]
      have hs := stripTrailingZeros_length (List.drop (ds.length - j) ds)
      rw [List.length_drop] at hs
      split
      · rw [List.length_take]; omega
      · rw [List.length_append, List.length_cons, List.length_take]; omega
    · simp only [hlen, if_false]
      have hs := stripTrailingZeros_length (List.replicate (j - ds.length) 48 ++ ds)
      rw [List.length_append, List.length_replicate] at hs
      split
      · simp only [List.length_cons, List.length_nil]; omega
      · rw [List.length_append, List.length_cons]; simp only [List.length_cons, List.length_nil]; omega

theorem signed_length (neg : Bool) (t : Bytes) : (signed neg t).length ≤ t.length + 1 := by
  unfold signed; split <;> simp

/-! ### ranges of the quantities the search works with -/

theorem decode_bounds (x : F64) : (decode x).1 < 2 ^ 53 ∧ -1074 ≤ (decode x).2 ∧ (decode x).2 ≤ 972 := by
  unfold decode
  have he := C09Float.expBits_eq x
  have hm := C09Float.manBits_eq x
  have h1 : manBits x < 2 ^ 52 := by rw [hm]; exact Nat.mod_lt _ (by decide)
  have h2 : expBits x < 2 ^ 11 := by rw [he]; exact Nat.mod_lt _ (by decide)
  split
  · exact ⟨by simp only; omega, by simp, by simp⟩
  · refine ⟨by simp only; omega, by simp only; omega, by simp only; omega⟩

/-- numerator and denominator of the exact value m × 2^e -/
def numOf (m : Nat) (e : Int) : Nat := if e ≥ 0 then m * 2 ^ e.toNat else m
def denOf (e : Int) : Nat := if e ≥ 0 then 1 else 2 ^ (-e).toNat

theorem numOf_lt (m : Nat) (e : Int) (hm : m < 2 ^ 53) (he : e ≤ 972) : numOf m e < 2 ^ 1025 := by
  unfold numOf
  split
  · have h1 : 2 ^ e.toNat ≤ 2 ^ 972 := Nat.pow_le_pow_right (by decide) (by omega)
    have h2 : m * 2 ^ e.toNat < 2 ^ 53 * 2 ^ 972 :=
      Nat.lt_of_lt_of_le (Nat.mul_lt_mul_of_pos_right hm (Nat.two_pow_pos _)) (Nat.mul_le_mul_left _ h1)
    rw [← Nat.pow_add] at h2
    exact h2
  · exact Nat.lt_of_lt_of_le hm (Nat.pow_le_pow_right (by decide) (by decide))

theorem denOf_le (e : Int) (he : -1074 ≤ e) : denOf e ≤ 2 ^ 1074 ∧ 0 < denOf e := by
  unfold denOf
  split
  · exact ⟨Nat.one_le_two_pow, by decide⟩
  · exact ⟨Nat.pow_le_pow_right (by decide) (by omega), Nat.two_pow_pos _⟩

theorem log2_le_of_lt (a n : Nat) (h : a < 2 ^ (n + 1)) : a.log2 ≤ n := by
  by_cases h0 : a = 0
  · subst h0; simp [Nat.log2_zero]
  · have := (Nat.log2_lt h0).2 h; omega

theorem decExp_bounds (a b : Nat) (ha : a < 2 ^ 1025) (hb : b ≤ 2 ^ 1074) :
    -326 ≤ decExp a b ∧ decExp a b ≤ 311 := by
  have h1 : a.log2 ≤ 1024 := log2_le_of_lt a 1024 ha
  have h2 : b.log2 ≤ 1074 := log2_le_of_lt b 1074 (Nat.lt_of_le_of_lt hb (Nat.pow_lt_pow_right (by decide) (by decide)))
  unfold decExp
  simp only
  generalize a.log2 = la at h1
  generalize b.log2 = lb at h2
  repeat' split
  all_goals omega

theorem floorDiv10_le (a b : Nat) (k : Int) (_hb : 0 < b) : floorDiv10 a b k ≤ a * 10 ^ k.natAbs := by
  unfold floorDiv10
  have hp : 0 < 10 ^ k.natAbs := Nat.pow_pos (by decide)
  split
  · exact Nat.le_trans (Nat.div_le_self _ _) (Nat.le_mul_of_pos_right _ hp)
  · have : (-k).toNat = k.natAbs := by omega
    rw [this]
    exact Nat.div_le_self _ _

theorem big_step (a b P Q : Nat) (h1 : a * b ≤ P) (h2 : P + 1 < Q) : a * b + 1 < Q := by omega

/-- a candidate not above d17 + 1 with |k| ≤ 342 renders in at most 997 bytes -/
theorem render_bound (a b c : Nat) (k17 k : Int) (neg : Bool) (ha : a < 2 ^ 1025) (hb : 0 < b)
    (hk17 : k17.natAbs ≤ 342) (hk : k.natAbs ≤ 342) (hc : c ≤ floorDiv10 a b k17 + 1) :
    (signed neg (renderF c k)).length ≤ 1000 := by
  have h1 := floorDiv10_le a b k17 hb
  have h2 : 10 ^ k17.natAbs ≤ 10 ^ 342 := Nat.pow_le_pow_right (by decide) hk17
  have h3 : a * 10 ^ k17.natAbs ≤ 2 ^ 1025 * 10 ^ 342 := Nat.mul_le_mul (Nat.le_of_lt ha) h2
  have h4 : 2 ^ 1025 * 10 ^ 342 + 1 < 10 ^ 652 := by decide +kernel
  have h5 : a * 10 ^ k17.natAbs + 1 < 10 ^ 652 := big_step _ _ _ _ h3 h4
  have h6 : c < 10 ^ 652 := by
    generalize (10 : Nat) ^ 652 = Q at h5 ⊢
    generalize a * 10 ^ k17.natAbs = R at h1 h5
    omega
  have h7 := natDigits_length_le c 652 (by decide) h6
  have h8 := renderF_length c k
  have h9 := signed_length neg (renderF c k)
  omega

theorem tryDigits_some {x ax : F64} {neg : Bool} {a b d17 : Nat} {k17 : Int} {n c : Nat} {k : Int}
    (h : tryDigits x ax neg a b d17 k17 n = some (c, k)) : c ≤ d17 + 1 ∧ k = k17 + 17 - n := by
  unfold tryDigits at h
  simp only at h
  have hlo : d17 / 10 ^ (17 - n) ≤ d17 := Nat.div_le_self _ _
  generalize d17 / 10 ^ (17 - n) = lo at h hlo
  repeat' split at h
  all_goals first
    | (cases h; exact ⟨by omega, rfl⟩)
    | cases h

theorem formatShortest_length (x : F64) : (formatShortest x).length ≤ 1000 := by
  unfold formatShortest
  split
  · decide +kernel
  · split
    · split <;> decide +kernel
    · split
      · split <;> decide +kernel
      · have hd := decode_bounds (x &&& 0x7FFFFFFFFFFFFFFF)
        generalize hde : decode (x &&& 0x7FFFFFFFFFFFFFFF) = de at hd
        obtain ⟨m, e⟩ := de
        simp only at hd
        have ha := numOf_lt m e hd.1 hd.2.2
        have hb := denOf_le e hd.2.1
        have hp := decExp_bounds (numOf m e) (denOf e) ha hb.1
        split
        · next c k hs =>
          unfold searchShortest at hs
          simp only [hde] at hs
          obtain ⟨i, hi, ht⟩ := List.exists_of_findSome?_eq_some hs
          have hi' : i < 17 := List.mem_range.1 hi
          obtain ⟨hc, hk⟩ := tryDigits_some ht
          have hk' : k = decExp (numOf m e) (denOf e) - 16 + 17 - ((i + 1 : Nat) : Int) := hk
          exact render_bound (numOf m e) (denOf e) c (decExp (numOf m e) (denOf e) - 16) k (sign x) ha hb.2
            (by omega) (by omega) hc
        · unfold fallback17
          simp only [hde]
          exact render_bound (numOf m e) (denOf e) (floorDiv10 (numOf m e) (denOf e) (decExp (numOf m e) (denOf e) - 16))
            (decExp (numOf m e) (denOf e) - 16) (decExp (numOf m e) (denOf e) - 16) (sign x) ha hb.2
            (by omega) (by omega) (Nat.le_succ _)

end NodisVerif.Proofs.FloatDecLen
