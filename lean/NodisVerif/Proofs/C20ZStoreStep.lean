import NodisVerif.Proofs.C20ZStoreGood
/-
  C20, ZUnionStore / ZInterStore, part 3: what happens to the destination once the result is known
  (`zstoreTail`): an empty result unlinks the destination, otherwise the destination — created if it
  was missing, whatever it held — gets a new value object holding the result and keeps its deadline.
-/
namespace NodisVerif.Proofs.C20
open NodisVerif NodisVerif.Store NodisVerif.Spec.Persist NodisVerif.Proofs.C11
open NodisVerif.Proofs.AListLemmas2

variable {now : Int}

/-- the second half of `Api.zstore` -/
def zstoreTail (union : Bool) (s : MState) (now : Int) (dst : Bytes) (items : List DsZSet.Item) : Api.R :=
  let (s, _) := writeKey (Api.commit s) now dst (some (.zset DsZSet.empty))
  if items.isEmpty then (emit { delKey s dst with signalled := dst :: s.signalled } { typ := 2, key := dst }, .int 0) else
  let (oid, s) := fresh s
  let s := modMeta s dst fun m => ({ m with oid := oid }.setValue (.zset (buildZ items)))
  (emit (signal s dst) { typ := if union then 34 else 35, key := dst }, .int items.length)

theorem zstore_eq (union : Bool) (s : MState) (now : Int) (dst : Bytes) (keys : List Bytes) (weights : List F64)
    (agg : Bytes) :
    Api.zstore union s now dst keys weights agg =
      match (if union then Api.zunionCore else Api.zinterCore) s now keys weights agg with
      | (s, none) => (s, .panic)
      | (s, some none) => (s, .unsupported)
      | (s, some (some items)) => zstoreTail union s now dst items := rfl

/-- the record the tail emits -/
def zstoreOp (union : Bool) (dst : Bytes) (items : List DsZSet.Item) : FeedOp :=
  if items.isEmpty then { typ := 2, key := dst } else { typ := if union then 34 else 35, key := dst }

/-- the content of the destination afterwards -/
def zstorePost (items : List DsZSet.Item) (L : Option (Val × Int)) : Option (Val × Int) :=
  if items.isEmpty then none else
  some (.zset (buildZ items), match L with | some (_, e) => e | none => 0)

theorem zstoreTail_spec (union : Bool) {s : MState} (h : StoreInv s now) (dst : Bytes) (items : List DsZSet.Item) :
    ((items.isEmpty = false → Good (.zset (buildZ items))) → StoreInv (zstoreTail union s now dst items).1 now) ∧
    (∀ k', lookup (zstoreTail union s now dst items).1 now k' =
      upd (lookup s now) dst (zstorePost items (lookup s now dst)) k') ∧
    (s.listeners = true → fl (zstoreTail union s now dst items).1 = (zstoreOp union dst items :: s.feed, true)) := by
  have hc : StoreInv (Api.commit s) now := held_irrelevant s [] none now h
  have lc : ∀ t' k', lookup (Api.commit s) t' k' = lookup s t' k' := fun t' k' => lookup_congr rfl rfl rfl _ _
  have ks := writeKey_spec hc (Int.le_refl now) dst (some (.zset DsZSet.empty))
    (fun v hv => by cases hv; exact good_emptyZSet)
  have hfl : fl (writeKey (Api.commit s) now dst (some (.zset DsZSet.empty))).1 = fl s := by
    rw [fl_writeKey, fl_commit]
  unfold zstoreTail
  generalize writeKey (Api.commit s) now dst (some (.zset DsZSet.empty)) = q at ks hfl
  obtain ⟨s2, ok⟩ := q
  simp only at hfl ⊢
  -- the record handed back: hot, live, with the deadline the destination showed (0 if created)
  have hrec : ∃ m v0, AList.get? s2.index dst = some m ∧ m.value = some v0 ∧
      m.exp = (match lookup s now dst with | some (_, e) => e | none => 0) ∧ m.expired now = false := by
    cases hL : lookup s now dst with
    | none =>
      obtain ⟨_, _, m, hm, hv, he, hx⟩ := ks.make _ (by rw [lc]; exact hL) rfl
      exact ⟨m, _, hm, hv, he, hx⟩
    | some c =>
      obtain ⟨v, e⟩ := c
      obtain ⟨_, _, m, hm, hv, he, hx⟩ := ks.hit v e (by rw [lc]; exact hL)
      exact ⟨m, _, hm, hv, he, hx⟩
  have hoth : ∀ k', k' ≠ dst → lookup s2 now k' = lookup s now k' := by
    intro k' hk; rw [ks.other now (Int.le_refl _) k' hk, lc]
  cases hemp : items.isEmpty with
  | true =>
    simp only [if_true, zstorePost, zstoreOp, hemp]
    have i1 : StoreInvX (delKey s2 dst) none now := inv_delKey ks.inv dst (fun _ _ => by simp)
    refine ⟨fun _ => ?_, ?_, ?_⟩
    · exact (inv_emits (ops := [{ typ := 2, key := dst }])
        (i1.congr (s' := { delKey s2 dst with signalled := dst :: s2.signalled }) rfl rfl rfl rfl))
    · intro k'
      have e1 : lookup (emit { delKey s2 dst with signalled := dst :: s2.signalled } { typ := 2, key := dst }) now k'
          = lookup (delKey s2 dst) now k' := by
        obtain ⟨a, b, c, _, _⟩ := emit_fields { delKey s2 dst with signalled := dst :: s2.signalled } { typ := 2, key := dst }
        rw [lookup_congr a b c]
        exact lookup_congr rfl rfl rfl _ _
      rw [e1, lookup_delKey ks.inv (Int.le_refl now)]
      by_cases hk : k' = dst
      · simp [hk, upd]
      · simp only [hk, if_false, upd]; exact hoth k' hk
    · intro hl
      have h0 : fl ({ delKey s2 dst with signalled := dst :: s2.signalled } : MState) = fl s := by
        show fl (delKey s2 dst) = fl s
        rw [fl_delKey]; exact hfl
      have hl0 : ({ delKey s2 dst with signalled := dst :: s2.signalled } : MState).listeners = true :=
        (congrArg Prod.snd h0).trans hl
      rw [fl_emit _ _ hl0]
      have : ({ delKey s2 dst with signalled := dst :: s2.signalled } : MState).feed = s.feed := congrArg Prod.fst h0
      rw [this]
  | false =>
    simp only [Bool.false_eq_true, if_false, zstorePost, zstoreOp, hemp, fresh]
    obtain ⟨m, v0, hm, hv, he, hx⟩ := hrec
    -- a new identity
    have i3 : StoreInvX ({ s2 with nextId := s2.nextId + 1 } : MState) none now :=
      inv_bump ks.inv (s2.nextId + 1) (Nat.le_succ _)
    have hm3 : AList.get? ({ s2 with nextId := s2.nextId + 1 } : MState).index dst = some m := hm
    have hmod : modMeta ({ s2 with nextId := s2.nextId + 1 } : MState) dst
          (fun m => ({ m with oid := s2.nextId } : Meta).setValue (.zset (buildZ items))) =
        putMeta ({ s2 with nextId := s2.nextId + 1 } : MState) dst
          (({ m with oid := s2.nextId } : Meta).setValue (.zset (buildZ items))) := by
      unfold modMeta getMeta
      rw [hm3]
    rw [hmod]
    have r := ks.inv.recs dst m hm
    refine ⟨fun hg => ?_, ?_, ?_⟩
    · have hgood := hg (by trivial)
      have i4 : StoreInvX (putMeta ({ s2 with nextId := s2.nextId + 1 } : MState) dst
            (({ m with oid := s2.nextId } : Meta).setValue (.zset (buildZ items)))) (some dst) now := by
        apply inv_putMeta i3
        · intro k' _ _ hc; cases hc
        · exact RecInv.hot (v := .zset (buildZ items)) rfl (by simp) r.expR hgood r.stored (Or.inr rfl)
        · intro dk e hent hn
          subst hn
          exact (i3.ent_of_name hent hm3).1
        · intro hpb
          have o := ks.inv.oids hpb
          refine ⟨ks.inv.idPos, Nat.lt_succ_self _, ?_, ?_⟩
          · intro k' m'' _ hk' hc
            have := (o.recR k' m'' hk').2
            simp only [setValue_oid] at hc this
            omega
          · intro dk e hent _ hc
            have := (o.entR dk e hent).2
            simp only [setValue_oid] at hc this
            omega
      have i5 := inv_signal i4 dst (fun k' hk => by simp; exact fun e => hk e.symm)
      exact inv_emits (ops := [{ typ := if union = true then 34 else 35, key := dst }]) i5
    · intro k'
      have e1 := lookup_emits (signal (putMeta ({ s2 with nextId := s2.nextId + 1 } : MState) dst
          (({ m with oid := s2.nextId } : Meta).setValue (.zset (buildZ items)))) dst)
          [{ typ := if union = true then 34 else 35, key := dst }] now k'
      simp only [emits, List.foldl_cons, List.foldl_nil] at e1
      rw [e1, lookup_signal]
      by_cases hk : k' = dst
      · subst hk
        rw [lookup_putMeta_same, upd_same]
        rw [view_hot (v := .zset (buildZ items)) rfl (by simp) (by exact hx)]
        simp only [setValue_exp, he]
      · rw [lookup_putMeta_other _ _ hk, upd_other _ _ _ hk]
        have : lookup ({ s2 with nextId := s2.nextId + 1 } : MState) now k' = lookup s2 now k' :=
          lookup_congr rfl rfl rfl _ _
        rw [this]; exact hoth k' hk
    · intro hl
      have h0 : fl (signal (putMeta ({ s2 with nextId := s2.nextId + 1 } : MState) dst
          (({ m with oid := s2.nextId } : Meta).setValue (.zset (buildZ items)))) dst) = fl s := by
        rw [fl_signal, fl_putMeta]; exact hfl
      rw [fl_emit _ _ ((congrArg Prod.snd h0).trans hl)]
      have := congrArg Prod.fst h0
      simp only [fl] at this
      rw [this]

end NodisVerif.Proofs.C20
