import NodisVerif.Model.Val
/-
  IEEE equality of two non-NaN bit patterns is bit equality, except for the two zeros.
-/
namespace NodisVerif

theorem F64.key_eq (a : F64) : F64.key a =
    if a.toNat / 2^63 = 1 then -((a.toNat % 2^63 : Nat) : Int) else ((a.toNat % 2^63 : Nat) : Int) := by
  unfold F64.key
  have h1 : (a &&& 0x7FFFFFFFFFFFFFFF).toNat = a.toNat % 2^63 := by
    rw [UInt64.toNat_and]
    exact Nat.and_two_pow_sub_one_eq_mod a.toNat 63
  have h2 : (a >>> 63 == 1) = decide (a.toNat / 2^63 = 1) := by
    rw [Bool.eq_iff_iff]
    simp only [beq_iff_eq, decide_eq_true_eq]
    rw [← UInt64.toNat_inj, UInt64.toNat_shiftRight]
    simp [Nat.shiftRight_eq_div_pow]
  simp only [h1, h2, decide_eq_true_eq]

/-- the bit pattern of −0.0 -/
def F64.negZero : F64 := 0x8000000000000000

theorem F64.key_inj (a b : F64) (h : F64.key a = F64.key b) :
    a = b ∨ (a = 0 ∧ b = F64.negZero) ∨ (a = F64.negZero ∧ b = 0) := by
  rw [F64.key_eq, F64.key_eq] at h
  have ha := a.toNat_lt
  have hb := b.toNat_lt
  have : a.toNat = b.toNat ∨ (a.toNat = 0 ∧ b.toNat = 2^63) ∨ (a.toNat = 2^63 ∧ b.toNat = 0) := by
    split at h <;> split at h <;> omega
  rcases this with h | ⟨h1, h2⟩ | ⟨h1, h2⟩
  · exact Or.inl (UInt64.toNat_inj.mp h)
  · exact Or.inr (Or.inl ⟨UInt64.toNat_inj.mp h1, UInt64.toNat_inj.mp h2⟩)
  · exact Or.inr (Or.inr ⟨UInt64.toNat_inj.mp h1, UInt64.toNat_inj.mp h2⟩)

theorem F64.eq_bits (a b : F64) (h : F64.eq a b = true) :
    a = b ∨ (a = 0 ∧ b = F64.negZero) ∨ (a = F64.negZero ∧ b = 0) := by
  simp only [F64.eq, Bool.and_eq_true, beq_iff_eq] at h
  exact F64.key_inj a b h.2

end NodisVerif
