import NodisVerif.Proofs.C08Others
/-
  C09 — step-level lemmas about watch flags: who gets flagged by a step, what persists.
-/
namespace NodisVerif.Proofs.C08Step
open Resp Server
open NodisVerif.Proofs.AListLemmas2

/-- with a sorted registry the flagged pairs are: registered connection × (signalled key, or any key
    after a `Clear()`) -/
theorem hits_iff {reg : AList (List String)} (hs : AList.Sorted reg) (st : MState) (i : String) (x : Bytes) :
    hits reg st i x ↔ (x ∈ st.signalled ∨ st.flushed = true) ∧ ∃ ids, AList.get? reg x = some ids ∧ i ∈ ids := by
  unfold hits
  constructor
  · rintro (⟨a, b⟩ | ⟨a, ids, b, c⟩)
    · exact ⟨Or.inl a, b⟩
    · exact ⟨Or.inr a, ids, get?_of_mem _ hs _ _ b, c⟩
  · rintro ⟨a | a, ids, b, c⟩
    · exact Or.inl ⟨a, ids, b, c⟩
    · exact Or.inr ⟨a, ids, mem_of_get? _ _ _ b, c⟩

/-- connection `i` is hit by one of the store effects `outs` -/
def touched (outs : List BodyOut) (x : Bytes) : Prop :=
  ∃ o ∈ outs, x ∈ o.store.signalled ∨ o.store.flushed = true

theorem stepTouches_def (H : Table) (sv : Server) (c : Cmd) (x : Bytes) :
    stepTouches H sv c x ↔ touched (stepOuts H sv c) x := Iff.rfl

/-- `FlaggedC` for connections other than `id`, phrased with `registered` -/
structure OthersS (S : String → Bytes → Prop) (id : String) (sv sv' : Server) : Prop where
  state : ∀ i, i ≠ id → (sv'.conn i).state = (sv.conn i).state
  queue : ∀ i, i ≠ id → (sv'.conn i).queue = (sv.conn i).queue
  reg : ∀ i, i ≠ id → ∀ x, registered sv' i x ↔ registered sv i x
  hit : ∀ i, i ≠ id → ∀ x, S i x → AList.get? (sv'.conn i).watch x = some true
  miss : ∀ i, i ≠ id → ∀ x, ¬ S i x → AList.get? (sv'.conn i).watch x = AList.get? (sv.conn i).watch x
  same : ∀ i, i ≠ id → (∀ x, ¬ S i x) → sv'.conn i = sv.conn i

theorem OthersS.of_same {id : String} {a b : Server} (hc : ∀ i, i ≠ id → b.conn i = a.conn i)
    (hr : ∀ i, i ≠ id → ∀ x, registered b i x ↔ registered a i x) : OthersS (fun _ _ => False) id a b :=
  ⟨fun i hi => by rw [hc i hi], fun i hi => by rw [hc i hi], hr, fun _ _ _ h => h.elim,
   fun i hi x _ => by rw [hc i hi], fun i hi _ => hc i hi⟩

theorem OthersS.trans {S₁ S₂ : String → Bytes → Prop} {id : String} {a b c : Server}
    (h₁ : OthersS S₁ id a b) (h₂ : OthersS S₂ id b c) : OthersS (fun i x => S₁ i x ∨ S₂ i x) id a c := by
  refine ⟨fun i hi => (h₂.state i hi).trans (h₁.state i hi), fun i hi => (h₂.queue i hi).trans (h₁.queue i hi),
    fun i hi x => (h₂.reg i hi x).trans (h₁.reg i hi x), ?_, ?_, ?_⟩
  · intro i hi x hs
    by_cases h2 : S₂ i x
    · exact h₂.hit i hi x h2
    · rw [h₂.miss i hi x h2]; exact h₁.hit i hi x (hs.resolve_right h2)
  · intro i hi x hs
    rw [h₂.miss i hi x (fun h => hs (Or.inr h)), h₁.miss i hi x (fun h => hs (Or.inl h))]
  · intro i hi hs
    rw [h₂.same i hi (fun x h => hs x (Or.inr h)), h₁.same i hi (fun x h => hs x (Or.inl h))]

theorem OthersS.congr {S S' : String → Bytes → Prop} {id : String} {a b : Server} (h : OthersS S id a b)
    (e : ∀ i, i ≠ id → ∀ x, S i x ↔ S' i x) : OthersS S' id a b :=
  ⟨h.state, h.queue, h.reg, fun i hi x hs => h.hit i hi x ((e i hi x).mpr hs),
   fun i hi x hs => h.miss i hi x (fun h' => hs ((e i hi x).mp h')),
   fun i hi hs => h.same i hi (fun x h' => hs x ((e i hi x).mp h'))⟩

theorem OthersS.of_flaggedC {S : String → Bytes → Prop} {sv sv' : Server} (f : FlaggedC S sv sv') (id : String) :
    OthersS S id sv sv' :=
  ⟨fun i _ => f.state i, fun i _ => f.queue i, fun i _ x => registered_congr f.registry i x,
   fun i _ => f.hit i, fun i _ => f.miss i, fun i _ => f.same i⟩

theorem OthersS.setConn (id : String) (sv : Server) (c : ConnState) : OthersS (fun _ _ => False) id sv (sv.setConn id c) :=
  OthersS.of_same (fun _ hi => conn_setConn_other _ _ _ _ hi) (fun _ _ _ => Iff.rfl)
theorem OthersS.refl (id : String) (sv : Server) : OthersS (fun _ _ => False) id sv sv :=
  OthersS.of_same (fun _ _ => rfl) (fun _ _ _ => Iff.rfl)
theorem OthersS.resetConn (id : String) (sv : Server) : OthersS (fun _ _ => False) id sv (resetConn sv id) :=
  OthersS.of_same (fun _ hi => resetConn_conn_other _ _ _ hi) (Others.resetConn id sv).reg
theorem OthersS.unwatchAll (id : String) (sv : Server) : OthersS (fun _ _ => False) id sv (unwatchAll sv id) :=
  OthersS.of_same (fun _ hi => unwatchAll_conn_other _ _ _ hi) (Others.unwatchAll id sv).reg
theorem OthersS.watchLoop (id : String) (keys : List Bytes) (sv : Server) :
    OthersS (fun _ _ => False) id sv (watchLoop id keys sv) :=
  OthersS.of_same (fun i hi => watchLoop_conn_other id i hi keys sv) (Others.watchLoop id keys sv).reg
theorem OthersS.afterHandler (id : String) (sv : Server) (toks : List Tok) :
    OthersS (fun _ _ => False) id sv (afterHandler sv id toks) :=
  OthersS.of_same (fun _ hi => afterHandler_conn_other _ _ _ _ hi) (Others.afterHandler id sv toks).reg

/-- weaken to an arbitrary `S` that is false everywhere relevant -/
theorem OthersS.of_false {S : String → Bytes → Prop} {id : String} {a b : Server}
    (h : OthersS (fun _ _ => False) id a b) (hS : ∀ i, i ≠ id → ∀ x, ¬ S i x) : OthersS S id a b :=
  h.congr (fun i hi x => ⟨False.elim, hS i hi x⟩)

/-- one closure, phrased with `registered` -/
theorem runBody_othersS {sv : Server} (hs : AList.Sorted sv.registry) (id : String) (now : Int) (ch : Choice) (b : Body) :
    OthersS (fun i x => touched [outOf sv.store now ch b] x ∧ registered sv i x) id sv (runBody sv now ch b).1 :=
  (OthersS.of_flaggedC (runBody_flagged sv now ch b) id).congr (fun i _ x => by
    rw [hits_iff hs]; simp [touched, registered])

theorem runBody_flaggedR {sv : Server} (hs : AList.Sorted sv.registry) (now : Int) (ch : Choice) (b : Body) :
    FlaggedC (fun i x => touched [outOf sv.store now ch b] x ∧ registered sv i x) sv (runBody sv now ch b).1 :=
  (runBody_flagged sv now ch b).congr (fun i x => by rw [hits_iff hs]; simp [touched, registered])

theorem execLoop_flaggedR {sv : Server} (hs : AList.Sorted sv.registry) (now : Int) (bs : List Body) (ts : List Tok) :
    FlaggedC (fun i x => touched (execOuts sv.store now bs) x ∧ registered sv i x) sv (execLoop now bs (sv, ts)).1 :=
  (execLoop_spec now bs sv ts).2.2.congr (fun i x => by
    simp only [execHits, hits_iff hs, touched, registered]
    constructor
    · rintro ⟨o, ho, h1, h2⟩; exact ⟨⟨o, ho, h1⟩, h2⟩
    · rintro ⟨⟨o, ho, h1⟩, h2⟩; exact ⟨o, ho, h1, h2⟩)

theorem execCommand_othersS {sv : Server} (hs : AList.Sorted sv.registry) (id : String) (now : Int) (ch : Choice) (b : Body) :
    OthersS (fun i x => touched (if runsNow (sv.conn id).state then [outOf sv.store now ch b] else []) x ∧ registered sv i x)
      id sv (execCommand sv id now ch b).1 := by
  rw [execCommand_eq]; split
  · exact runBody_othersS hs id now ch b
  · exact (OthersS.setConn id sv _).of_false (by simp [touched])

/-- MASTER LEMMA (other connections): a step of connection `c.id` leaves every other connection's
    state, queue and registrations alone; it sets exactly the flags (i, x) with i registered for x
    and x touched by one of the step's store effects; a connection with no such pair is untouched -/
theorem step_othersS (H : Table) {sv : Server} (hwf : RegWF sv) (c : Cmd) :
    OthersS (fun i x => stepTouches H sv c x ∧ registered sv i x) c.id sv (step H sv c).1 := by
  have hs := hwf.sorted
  have fin : ∀ {S : String → Bytes → Prop} {d : Server × List Tok}, OthersS S c.id sv d.1 →
      OthersS S c.id sv (afterHandler d.1 c.id d.2) := by
    intro S d h
    exact (h.trans (OthersS.afterHandler c.id d.1 d.2)).congr (by simp)
  unfold step
  apply fin
  by_cases h2 : c.name = "EXEC"
  · rw [dispatch_exec H sv c h2]
    by_cases hr : execRuns (sv.conn c.id)
    · have e : stepOuts H sv c = execOuts sv.store c.now (sv.conn c.id).queue := by simp [stepOuts, h2, hr]
      simp only [stepTouches_def, e]
      rw [exec_eq]; simp only
      rw [if_neg (by simpa using hr.1), if_neg hr.2.1, if_neg (by simp [hr.2.2.2]), if_neg (by simpa using hr.2.2.1)]
      have f := execLoop_flaggedR (sv := sv.setConn c.id { (sv.conn c.id) with state := (sv.conn c.id).state + multiCommit -
          (if ((sv.conn c.id).state / 2) % 2 = 1 then multiCommit else 0) }) hs c.now (sv.conn c.id).queue
          [Tok.arr (sv.conn c.id).queue.length]
      refine (((OthersS.setConn c.id sv _).trans (OthersS.of_flaggedC f c.id)).trans (OthersS.resetConn c.id _)).congr ?_
      intro i _ x
      simp [registered]
    · rw [exec_not_runs sv c.id c.now hr]
      exact (OthersS.resetConn c.id sv).of_false (by simp [stepTouches, stepOuts, h2, hr])
  by_cases h1 : c.name = "MULTI"
  · have e : stepOuts H sv c = [] := by simp [stepOuts, h1]
    rw [dispatch_multi H sv c h1, multi_eq]
    split
    · exact (OthersS.refl c.id sv).of_false (by simp [stepTouches, e])
    · exact (OthersS.setConn c.id sv _).of_false (by simp [stepTouches, e])
  by_cases h3 : c.name = "DISCARD"
  · have e : stepOuts H sv c = [] := by simp [stepOuts, h3]
    rw [dispatch_discard H sv c h3, discard_eq]
    exact (OthersS.resetConn c.id sv).of_false (by simp [stepTouches, e])
  by_cases h4 : c.name = "WATCH"
  · have e : stepOuts H sv c = [] := by simp [stepOuts, h4]
    rw [dispatch_watch H sv c h4, watch_eq]
    split
    · exact (OthersS.refl c.id sv).of_false (by simp [stepTouches, e])
    · split
      · exact (OthersS.refl c.id sv).of_false (by simp [stepTouches, e])
      · exact (OthersS.watchLoop c.id _ sv).of_false (by simp [stepTouches, e])
  have h134 : ¬ (c.name = "MULTI" ∨ c.name = "DISCARD" ∨ c.name = "WATCH") := by
    rintro (e | e | e) <;> contradiction
  by_cases h5 : c.name = "UNWATCH"
  · have e : stepOuts H sv c = if runsNow (sv.conn c.id).state then [outOf sv.store c.now c.ch okBody] else [] := by
      simp [stepOuts, h5]
    rw [dispatch_unwatch H sv c h5]
    simp only [stepTouches_def, e]
    by_cases hr : runsNow (sv.conn c.id).state
    · rw [if_pos hr, if_pos hr]
      have h' := execCommand_othersS (sv := unwatchAll sv c.id) (unwatchAll_sorted sv c.id hs) c.id c.now c.ch okBody
      rw [unwatchAll_conn_same, if_pos hr, unwatchAll_store] at h'
      refine ((OthersS.unwatchAll c.id sv).trans h').congr ?_
      intro i hi x
      simp [(Others.unwatchAll c.id sv).reg i hi x]
    · rw [if_neg hr, if_neg hr]
      have h' := execCommand_othersS hs c.id c.now c.ch okBody
      rw [if_neg hr] at h'
      exact h'
  have hsp : ¬ special c.name := by
    unfold special; rintro (e | e | e | e | e) <;> contradiction
  rw [dispatch_table H sv c hsp]
  cases hH : H c.name c.args with
  | none => exact (OthersS.refl c.id sv).of_false (by simp [stepTouches, stepOuts, h2, h134, h5, hH])
  | some r =>
    cases r with
    | direct ts => exact (OthersS.refl c.id sv).of_false (by simp [stepTouches, stepOuts, h2, h134, h5, hH])
    | crash => exact (OthersS.refl c.id sv).of_false (by simp [stepTouches, stepOuts, h2, h134, h5, hH])
    | exec b =>
      have e : stepOuts H sv c = if runsNow (sv.conn c.id).state then [outOf sv.store c.now c.ch b] else [] := by
        simp [stepOuts, h2, h134, h5, hH]
      simp only [stepTouches_def, e]
      exact execCommand_othersS hs c.id c.now c.ch b

end NodisVerif.Proofs.C08Step
