import NodisVerif.Proofs.TxProgSimG
/-
  Program model of tx.go: every step is simulated by the protocol model; hence every run emits a trace the
  protocol model accepts (under the callers' conditions `Guarded`, discharged in Proofs/TxProgGuard.lean).
-/
namespace NodisVerif.Proofs.TxProg
open NodisVerif.Proto (Key Rec Mode Ev Hold TxSt PState assoc erase put Tx)
open NodisVerif.TxProg
open NodisVerif.Proofs.Proto

theorem Sim.init : Sim {} {} where
  reach := Reachable.init
  idx := rfl
  pend := rfl
  names := rfl
  wf := fun _ => wfMu_default
  tx := fun _ => rfl
  thr := fun _ => ⟨by simp [loc_default, holdsOf], by simp [loc_default, extra], by simp [loc_default, Facts],
    by simp [loc_default]⟩

/-- one step of the program = at most one step of the protocol, and the relation is kept -/
theorem sim_step {c c' : Cfg} {p : PState} {t : Tid} {ch : Choice} {e : Option Ev} (hs : Sim c p)
    (hg : Guarded c t) (h : TxProg.step c t ch = some (c', e)) : ∃ p', optStep p e = some p' ∧ Sim c' p' := by
  unfold TxProg.step at h
  split at h
  · cases h
  · rename_i s l ev hts
    cases h
    cases hpc : (c.loc t).pc
    case init => exact case_init hs hpc hts
    case idle => exact case_idle hs hpc hts
    case a1 => exact case_a1 hs hpc hts
    case a2 => exact case_a2 hs hpc hts
    case a3 => exact case_a3 hs hpc hts
    case a4 => exact case_a4 hs hpc hts
    case a5 => exact case_a5 hs hpc hts
    case a6r => exact case_a6r hs hpc hts
    case a6c => exact case_a6c hs hpc hts
    case a7 => exact case_a7 hs hg hpc hts
    case a8 => exact case_a8 hs hpc hts
    case a9 => exact case_a9 hs hpc hts
    case a10 => exact case_a10 hs hpc hts
    case a11 => exact case_a11 hs hpc hts
    case a12 => exact case_a12 hs hpc hts
    case a13 => exact case_a13 hs hpc hts
    case a14 => exact case_a14 hs hpc hts
    case n1 => exact case_n1 hs hpc hts
    case n2 => exact case_n2 hs hpc hts
    case n3 => exact case_n3 hs hg hpc hts
    case n4 => exact case_n4 hs hpc hts
    case d1 => exact case_d1 hs hpc hts
    case d2 => exact case_d2 hs hg hpc hts
    case d3 => exact case_d3 hs hg hpc hts
    case d4 => exact case_d4 hs hpc hts
    case c0 => exact case_c0 hs hpc hts
    case c2 => exact case_c2 hs hpc hts
    case c3 => exact case_c3 hs hpc hts
    case c4 => exact case_c4 hs hpc hts
    case c5 => exact case_c5 hs hpc hts
    case c6 => exact case_c6 hs hpc hts
    case c7 => exact case_c7 hs hpc hts
    case c8 => exact case_c8 hs hpc hts
    case c9 => exact case_c9 hs hpc hts
    case c10 => exact case_c10 hs hpc hts
    case c11 => exact case_c11 hs hpc hts
    case c12 => exact case_c12 hs hpc hts
    case cend => exact case_cend hs hpc hts
    case g1 => exact case_g1 hs hpc hts
    case g2 => exact case_g2 hs hpc hts
    case g3 => exact case_g3 hs hpc hts
    case g4 => exact case_g4 hs hpc hts
    case g5 => exact case_g5 hs hpc hts
    case g6 => exact case_g6 hs hpc hts
    case g7 => exact case_g7 hs hpc hts
    case g8 => exact case_g8 hs hg hpc hts
    case g9 => exact case_g9 hs hpc hts
    case g10 => exact case_g10 hs hpc hts
    case g11 => exact case_g11 hs hpc hts
    case g12 => exact case_g12 hs hpc hts
    case g13 => exact case_g13 hs hpc hts

/-- the callers' conditions hold at every step of the schedule that is taken -/
def GuardedRun (c : Cfg) : List (Tid × Choice) → Prop
  | [] => True
  | (t, ch) :: sch =>
    match TxProg.step c t ch with
    | none => GuardedRun c sch
    | some (c', _) => Guarded c t ∧ GuardedRun c' sch

theorem run_cons_none {c : Cfg} {t : Tid} {ch : Choice} {sch : List (Tid × Choice)} (h : TxProg.step c t ch = none) :
    TxProg.run c ((t, ch) :: sch) = TxProg.run c sch := by simp [TxProg.run, h]

theorem run_cons_some {c c' : Cfg} {t : Tid} {ch : Choice} {e : Option Ev} {sch : List (Tid × Choice)}
    (h : TxProg.step c t ch = some (c', e)) :
    TxProg.run c ((t, ch) :: sch) = ((TxProg.run c' sch).1, e.toList ++ (TxProg.run c' sch).2) := by
  simp [TxProg.run, h]

/-- trace inclusion from any related pair of states -/
theorem refines_from {c : Cfg} {p : PState} (hs : Sim c p) (sch : List (Tid × Choice)) (hg : GuardedRun c sch) :
    ∃ p', runAll p (TxProg.run c sch).2 = some p' ∧ Sim (TxProg.run c sch).1 p' := by
  induction sch generalizing c p with
  | nil => exact ⟨p, rfl, hs⟩
  | cons a sch ih =>
    obtain ⟨t, ch⟩ := a
    cases hst : TxProg.step c t ch with
    | none =>
      rw [run_cons_none hst]
      simp only [GuardedRun, hst] at hg
      exact ih hs hg
    | some r =>
      obtain ⟨c', e⟩ := r
      rw [run_cons_some hst]
      simp only [GuardedRun, hst] at hg
      obtain ⟨p1, h1, hs1⟩ := sim_step hs hg.1 hst
      obtain ⟨p2, h2, hs2⟩ := ih hs1 hg.2
      refine ⟨p2, ?_, hs2⟩
      cases e with
      | none => simp only [optStep] at h1; cases h1; simpa using h2
      | some ev =>
        simp only [optStep] at h1
        simp only [Option.toList, List.cons_append, List.nil_append, runAll_cons, h1, Option.bind_some]
        exact h2

end NodisVerif.Proofs.TxProg
