import NodisVerif.Model.Handler4
import NodisVerif.Proofs.C16Table3b
/-
  C16 for `Handler4.table4` (CLIENT, CONFIG, INFO, QUIT, SAVE, GEO*): every handler writes exactly one
  RESP value for every argument vector, store, clock and choice (`table4_tableOneReply`), and only
  tokens a strict reader accepts (`table4_wire`).
-/
namespace NodisVerif.Proofs.C16Table4
open NodisVerif NodisVerif.Resp NodisVerif.Handler NodisVerif.Handler3 NodisVerif.Handler4
open NodisVerif.Proofs.C16Handlers NodisVerif.Proofs.C16Table3

/-! ## CLIENT, CONFIG, INFO, QUIT, SAVE -/

theorem one_reply_client (args : List Bytes) : OneReply (Handler4.client args) := by
  unfold Handler4.client
  split
  · exact oneReply_errReply
  · intro s now ch
    dsimp only
    split
    · exact good_done_scalar _ _ rfl
    · split <;> exact good_done_scalar _ _ rfl

theorem one_reply_config (args : List Bytes) : OneReply (Handler4.config args) := by
  unfold Handler4.config
  split
  · intro s now ch
    dsimp only
    split
    · exact good_done _ _ (oneValue_arr_scalars [.bulk _, .bulk _] (by intro t ht; simp at ht; rcases ht with rfl | rfl <;> rfl))
    · exact good_done_scalar _ _ rfl
  · exact oneReply_errReply

theorem one_reply_info : OneReply Handler4.info := fun _ _ _ => good_done_scalar _ _ rfl
theorem one_reply_quit : OneReply Handler4.quit := fun _ _ _ => good_done_scalar _ _ rfl
theorem one_reply_save : OneReply Handler4.save := fun _ _ _ => good_done_scalar _ _ rfl

/-! ## GEOADD, GEOHASH -/

theorem one_reply_geoAddH (args : List Bytes) : OneReply (Handler4.geoAddH args) := by
  unfold Handler4.geoAddH
  split
  · exact oneReply_errReply
  · split
    · exact oneReply_errReply
    · dsimp only
      apply oneReply_ite _ _ _ oneReply_errReply
      apply oneReply_ite _ _ _ oneReply_errReply
      apply oneReply_bind; intro items
      apply oneReply_pure
      intro s now ch
      apply good_call_all; intro s o
      exact good_done_scalar _ _ rfl

theorem one_reply_geoHashH (args : List Bytes) : OneReply (Handler4.geoHashH args) := by
  unfold Handler4.geoHashH
  split
  · intro s now ch
    dsimp only
    split
    · exact good_done _ _ (oneValue_arr_nonpos 0 (by omega))
    · split
      · exact good_panicOut_nil _
      · exact good_done _ _ (oneValue_bulkList _)
  · exact oneReply_errReply

/-! ## GEOPOS -/

theorem geoPosVals_length (z : ZSet) : ∀ (ms texts : List Bytes), (geoPosVals z ms texts).length = ms.length := by
  intro ms
  induction ms with
  | nil => intro texts; rfl
  | cons m rest ih =>
    intro texts
    unfold geoPosVals
    split <;> simp [ih]

theorem geoPosVals_values (z : ZSet) : ∀ (ms texts : List Bytes), ∀ v ∈ geoPosVals z ms texts, oneValue v = true := by
  intro ms
  induction ms with
  | nil => intro texts v hv; simp [geoPosVals] at hv
  | cons m rest ih =>
    intro texts v hv
    unfold geoPosVals at hv
    split at hv
    · rcases List.mem_cons.1 hv with rfl | h
      · exact oneValue_scalar _ rfl
      · exact ih _ v h
    · rcases List.mem_cons.1 hv with rfl | h
      · exact oneValue_arr_scalars [.bulk _, .bulk _] (by intro t ht; simp at ht; rcases ht with rfl | rfl <;> rfl)
      · exact ih _ v h

theorem one_reply_geoPosH (args : List Bytes) : OneReply (Handler4.geoPosH args) := by
  unfold Handler4.geoPosH
  split
  · intro s now ch
    dsimp only
    split
    · exact good_panicOut_nil _
    · split
      · exact good_panicOut_nil _
      · exact good_done _ _ (oneValue_arr_flatten' _ _ (by rw [geoPosVals_length]) (geoPosVals_values _ _ _))
  · exact oneReply_errReply

/-! ## GEODIST -/

theorem one_reply_geoDistH (args : List Bytes) : OneReply (Handler4.geoDistH args) := by
  unfold Handler4.geoDistH
  split
  · intro s now ch
    dsimp only
    split
    · exact good_done_scalar _ _ rfl
    · split
      · exact good_panicOut_nil _
      · split
        · split <;> exact good_done_scalar _ _ rfl
        · exact good_done_scalar _ _ rfl
  · exact oneReply_errReply

/-! ## the radius queries -/

theorem pair_value (a b : Bytes) : oneValue [Tok.arr 2, .bulk a, .bulk b] = true :=
  oneValue_arr_scalars [.bulk a, .bulk b] (by intro t ht; simp at ht; rcases ht with rfl | rfl <;> rfl)

set_option hygiene false in
/-- the values of one element are closed off one by one -/
macro "elem_vals" : tactic => `(tactic|
  (intro v hv
   simp only [List.mem_cons, List.not_mem_nil, or_false] at hv
   (first
     | (rcases hv with rfl)
     | (rcases hv with rfl | rfl)
     | (rcases hv with rfl | rfl | rfl)
     | (rcases hv with rfl | rfl | rfl | rfl)) <;> first | exact oneValue_scalar _ rfl | exact pair_value _ _))

theorem radiusElem_value (z : ZSet) (o : RadiusOpts) (fd : Option Bytes) (c : List Bytes) :
    oneValue (radiusElem z o fd c) = true := by
  obtain ⟨plain, dist, hash, coord⟩ := o
  unfold radiusElem
  cases plain <;> cases dist <;> cases hash <;> cases coord <;>
    simp only [Bool.false_eq_true, if_false, if_true, List.append_nil, List.cons_append, List.nil_append, Int.reduceAdd] <;>
    first
    | exact oneValue_scalar _ rfl
    | (refine oneValue_arr_flatten' _ [[_]] rfl ?_; elem_vals)
    | (refine oneValue_arr_flatten' _ [[_], [_]] rfl ?_; elem_vals)
    | (refine oneValue_arr_flatten' _ [[_], [_], [_]] rfl ?_; elem_vals)
    | (refine oneValue_arr_flatten' _ [[_], [_, _, _]] rfl ?_; elem_vals)
    | (refine oneValue_arr_flatten' _ [[_], [_], [_, _, _]] rfl ?_; elem_vals)
    | (refine oneValue_arr_flatten' _ [[_], [_], [_], [_, _, _]] rfl ?_; elem_vals)

theorem oneValue_radiusReply (z : ZSet) (o : RadiusOpts) (fd : Option Bytes) (ch : Choice) :
    oneValue (radiusReply z o fd ch) = true := by
  unfold radiusReply
  exact oneValue_arr_flatten' _ _ (by rw [List.length_map]) (by
    intro v hv
    rw [List.mem_map] at hv
    obtain ⟨c, _, rfl⟩ := hv
    exact radiusElem_value z o fd c)

theorem one_reply_geoRadiusH (args : List Bytes) : OneReply (Handler4.geoRadiusH args) := by
  unfold Handler4.geoRadiusH
  split
  · apply oneReply_bind; intro lon
    apply oneReply_bind; intro lat
    apply oneReply_bind; intro r
    apply oneReply_bind; intro cnt
    apply oneReply_pure
    intro s now ch
    dsimp only
    split
    · exact good_done _ _ (oneValue_arr_nonpos 0 (by omega))
    · split
      · exact good_done_scalar _ _ rfl
      · split
        · exact good_panicOut_nil _
        · exact good_done _ _ (oneValue_radiusReply _ _ _ _)
  · exact oneReply_errReply

theorem one_reply_geoRadiusByMemberH (args : List Bytes) : OneReply (Handler4.geoRadiusByMemberH args) := by
  unfold Handler4.geoRadiusByMemberH
  split
  · apply oneReply_bind; intro r
    apply oneReply_bind; intro cnt
    apply oneReply_pure
    intro s now ch
    dsimp only
    split
    · exact good_done _ _ (oneValue_arr_nonpos 0 (by omega))
    · split
      · exact good_panicOut_nil _
      · split
        · exact good_done_scalar _ _ rfl
        · split
          · exact good_done_scalar _ _ rfl
          · exact good_done _ _ (oneValue_radiusReply _ _ _ _)
  · exact oneReply_errReply

/-- every handler of `Handler4.table4` writes exactly one RESP value -/
theorem table4_tableOneReply : Proofs.C08Step.TableOneReply Handler4.table4 := by
  intro name args r h
  unfold Handler4.table4 at h
  split at h <;> first
    | (cases h; done)
    | (cases h
       first
       | exact one_reply_client _ | exact one_reply_config _ | exact one_reply_info | exact one_reply_quit
       | exact one_reply_save | exact one_reply_geoAddH _ | exact one_reply_geoHashH _ | exact one_reply_geoPosH _
       | exact one_reply_geoDistH _ | exact one_reply_geoRadiusH _ | exact one_reply_geoRadiusByMemberH _)

/-! ## wire level: only tokens a strict RESP reader accepts -/

open NodisVerif.Proofs.C08Step
open NodisVerif.Spec.RespReply (cleanLine)

theorem clean_clientList : cleanLine Handler4.clientListText = true := by decide +kernel

theorem wire_client (args : List Bytes) : WireRes (Handler4.client args) := by
  unfold Handler4.client
  split
  · exact wire_errReply
  · intro s now ch
    dsimp only
    split
    · exact wgood_done_tok _ _ (tokOK_simple _ clean_clientList)
    · split
      · exact wgood_done_tok _ _ tokOK_ok
      · exact wgood_done_tok _ _ rfl

theorem wire_config (args : List Bytes) : WireRes (Handler4.config args) := by
  unfold Handler4.config
  split
  · intro s now ch
    dsimp only
    split
    · exact wgood_done _ _ ((wireOK_iff _).2 (by intro t ht; simp at ht; rcases ht with rfl | rfl | rfl <;> rfl))
    · exact wgood_done_tok _ _ rfl
  · exact wire_errReply

theorem wire_info : WireRes Handler4.info := fun _ _ _ => wgood_done_tok _ _ rfl
theorem wire_quit : WireRes Handler4.quit := fun _ _ _ => wgood_done_tok _ _ tokOK_ok
theorem wire_save : WireRes Handler4.save := fun _ _ _ => wgood_done_tok _ _ tokOK_ok

theorem wire_geoAddH (args : List Bytes) : WireRes (Handler4.geoAddH args) := by
  unfold Handler4.geoAddH
  split
  · exact wire_errReply
  · split
    · exact wire_errReply
    · dsimp only
      apply wireRes_ite _ _ _ wire_errReply
      apply wireRes_ite _ _ _ wire_errReply
      apply Proofs.C16Table3.wire_bind; intro items
      apply Proofs.C16Table3.wire_pure
      intro s now ch
      apply wgood_call_all; intro s o
      exact wgood_done_tok _ _ rfl

theorem wire_geoHashH (args : List Bytes) : WireRes (Handler4.geoHashH args) := by
  unfold Handler4.geoHashH
  split
  · intro s now ch
    dsimp only
    split
    · exact wgood_done_tok _ _ (tokOK_arr 0 (by omega))
    · split
      · exact wgood_panic_nil _
      · exact wgood_done _ _ (wireOK_bulkList _)
  · exact wire_errReply

theorem geoPosVals_tok (z : ZSet) : ∀ (ms texts : List Bytes), ∀ t ∈ (geoPosVals z ms texts).flatten, tokOK t = true := by
  intro ms
  induction ms with
  | nil => intro texts t ht; simp [geoPosVals] at ht
  | cons m rest ih =>
    intro texts t ht
    unfold geoPosVals at ht
    split at ht
    · simp only [List.flatten_cons, List.mem_append, List.mem_cons, List.not_mem_nil, or_false] at ht
      rcases ht with rfl | h
      · rfl
      · exact ih _ t h
    · simp only [List.flatten_cons, List.mem_append, List.mem_cons, List.not_mem_nil, or_false] at ht
      rcases ht with (rfl | rfl | rfl) | h
      · rfl
      · rfl
      · rfl
      · exact ih _ t h

theorem wire_geoPosH (args : List Bytes) : WireRes (Handler4.geoPosH args) := by
  unfold Handler4.geoPosH
  split
  · intro s now ch
    dsimp only
    split
    · exact wgood_panic_nil _
    · split
      · exact wgood_panic_nil _
      · refine wgood_done _ _ ((wireOK_cons _ _).2 ⟨tokOK_arr _ (by omega), (wireOK_iff _).2 (geoPosVals_tok _ _ _)⟩)
  · exact wire_errReply

theorem wire_geoDistH (args : List Bytes) : WireRes (Handler4.geoDistH args) := by
  unfold Handler4.geoDistH
  split
  · intro s now ch
    dsimp only
    split
    · exact wgood_done_tok _ _ rfl
    · split
      · exact wgood_panic_nil _
      · split
        · split <;> exact wgood_done_tok _ _ rfl
        · exact wgood_done_tok _ _ rfl
  · exact wire_errReply

theorem radiusElem_tok (z : ZSet) (o : RadiusOpts) (fd : Option Bytes) (c : List Bytes) :
    ∀ t ∈ radiusElem z o fd c, tokOK t = true := by
  obtain ⟨plain, dist, hash, coord⟩ := o
  unfold radiusElem
  cases plain <;> cases dist <;> cases hash <;> cases coord <;>
    simp only [Bool.false_eq_true, if_false, if_true, List.append_nil, List.cons_append, List.nil_append, Int.reduceAdd] <;>
    (intro t ht
     simp only [List.mem_cons, List.not_mem_nil, or_false] at ht
     first
     | (rcases ht with rfl; rfl)
     | (rcases ht with rfl | rfl <;> rfl)
     | (rcases ht with rfl | rfl | rfl <;> rfl)
     | (rcases ht with rfl | rfl | rfl | rfl <;> rfl)
     | (rcases ht with rfl | rfl | rfl | rfl | rfl <;> rfl)
     | (rcases ht with rfl | rfl | rfl | rfl | rfl | rfl <;> rfl)
     | (rcases ht with rfl | rfl | rfl | rfl | rfl | rfl | rfl <;> rfl))

theorem wireOK_radiusReply (z : ZSet) (o : RadiusOpts) (fd : Option Bytes) (ch : Choice) :
    WireOK (radiusReply z o fd ch) := by
  unfold radiusReply
  refine (wireOK_cons _ _).2 ⟨tokOK_arr _ (by omega), (wireOK_iff _).2 ?_⟩
  intro t ht
  rw [List.mem_flatten] at ht
  obtain ⟨v, hv, htv⟩ := ht
  rw [List.mem_map] at hv
  obtain ⟨c, _, rfl⟩ := hv
  exact radiusElem_tok z o fd c t htv

theorem wire_geoRadiusH (args : List Bytes) : WireRes (Handler4.geoRadiusH args) := by
  unfold Handler4.geoRadiusH
  split
  · apply Proofs.C16Table3.wire_bind; intro lon
    apply Proofs.C16Table3.wire_bind; intro lat
    apply Proofs.C16Table3.wire_bind; intro r
    apply Proofs.C16Table3.wire_bind; intro cnt
    apply Proofs.C16Table3.wire_pure
    intro s now ch
    dsimp only
    split
    · exact wgood_done_tok _ _ (tokOK_arr 0 (by omega))
    · split
      · exact wgood_done_tok _ _ rfl
      · split
        · exact wgood_panic_nil _
        · exact wgood_done _ _ (wireOK_radiusReply _ _ _ _)
  · exact wire_errReply

theorem wire_geoRadiusByMemberH (args : List Bytes) : WireRes (Handler4.geoRadiusByMemberH args) := by
  unfold Handler4.geoRadiusByMemberH
  split
  · apply Proofs.C16Table3.wire_bind; intro r
    apply Proofs.C16Table3.wire_bind; intro cnt
    apply Proofs.C16Table3.wire_pure
    intro s now ch
    dsimp only
    split
    · exact wgood_done_tok _ _ (tokOK_arr 0 (by omega))
    · split
      · exact wgood_panic_nil _
      · split
        · exact wgood_done_tok _ _ rfl
        · split
          · exact wgood_done_tok _ _ rfl
          · exact wgood_done _ _ (wireOK_radiusReply _ _ _ _)
  · exact wire_errReply

/-- every handler of `Handler4.table4`: whatever it writes can be read back -/
theorem table4_wire : TableWire Handler4.table4 := by
  intro name args r h
  unfold Handler4.table4 at h
  split at h <;> first
    | (cases h; done)
    | (cases h
       first
       | exact wire_client _ | exact wire_config _ | exact wire_info | exact wire_quit
       | exact wire_save | exact wire_geoAddH _ | exact wire_geoHashH _ | exact wire_geoPosH _
       | exact wire_geoDistH _ | exact wire_geoRadiusH _ | exact wire_geoRadiusByMemberH _)

end NodisVerif.Proofs.C16Table4
