import NodisVerif.Proofs.ProtoBasic
/-
  Locking protocol: what each step requires and what it does (`step s e = some s' ↔ …`), one lemma per event.
-/
namespace NodisVerif.Proofs.Proto
open NodisVerif.Proto
variable {s s' : PState} {t : Tx} {k : Key} {r : Rec} {m : Mode}

theorem step_begin : step s (.begin t) = some s' ↔ s.tx t = none ∧ s' = s.setTx t {} := by
  simp only [step]
  cases s.tx t <;> simp [*, eq_comm (a := s')]

theorem step_look {r : Option Rec} : step s (.look t k r) = some s' ↔ ∃ st, s.tx t = some st ∧
    st.committing = false ∧ st.waiting = none ∧ s.lookup k = r ∧ s' = s := by
  simp only [step]
  cases s.tx t with
  | none => simp
  | some st =>
    cases hc : st.committing <;> cases hw : st.waiting <;> by_cases hl : s.lookup k = r <;>
      simp [*, NodisVerif.Proto.guard, eq_comm (a := s')]

theorem step_claim : step s (.claim t k r m) = some s' ↔ ∃ st, s.tx t = some st ∧ st.committing = false ∧
    st.waiting = none ∧ s.lookup k = none ∧ assoc s.names r = none ∧
    s' = ({ s with pending := put s.pending k r, names := (r, k) :: s.names } : PState).setTx t
            (st.setHold { rid := r, key := k, mode := m, valid := true }) := by
  simp only [step]
  cases s.tx t with
  | none => simp
  | some st =>
    cases hc : st.committing <;> cases hw : st.waiting <;> cases hl : s.lookup k <;>
      cases hn : assoc s.names r <;> simp [*, eq_comm (a := s')]

theorem step_wait : step s (.wait t k r m) = some s' ↔ ∃ st, s.tx t = some st ∧ st.committing = false ∧
    st.waiting = none ∧ assoc s.names r = some k ∧ st.holdOf r = none ∧ st.mayWait k = true ∧
    s' = s.setTx t { st with waiting := some (k, r, m) } := by
  simp only [step]
  cases s.tx t with
  | none => simp
  | some st =>
    cases hc : st.committing <;> cases hw : st.waiting <;> by_cases hn : assoc s.names r = some k <;>
      cases hh : st.holdOf r <;> cases hm : st.mayWait k <;> simp [*, eq_comm (a := s')]

theorem step_lock : step s (.lock t k r m) = some s' ↔ ∃ st, s.tx t = some st ∧ st.waiting = some (k, r, m) ∧
    s.free r m = true ∧
    s' = s.setTx t ({ st with waiting := none }.setHold { rid := r, key := k, mode := m, valid := false }) := by
  simp only [step]
  cases s.tx t with
  | none => simp
  | some st =>
    by_cases hw : st.waiting = some (k, r, m) <;> cases hf : s.free r m <;> simp [*, eq_comm (a := s')]

theorem step_valid {ok : Bool} : step s (.valid t k r ok) = some s' ↔ ∃ st h, s.tx t = some st ∧
    st.holdOf r = some h ∧ h.valid = false ∧ h.key = k ∧
    ((ok = false ∧ s' = s) ∨
      (ok = true ∧ s.lookup k = some r ∧ s' = s.setTx t (st.setHold { h with valid := true }))) := by
  simp only [step]
  cases s.tx t with
  | none => simp
  | some st =>
    cases hh : st.holdOf r with
    | none => simp [*]
    | some h =>
      cases hv : h.valid <;> cases ok <;> by_cases hk : h.key = k <;> by_cases hl : s.lookup k = some r <;>
        simp [*, eq_comm (a := s')]

theorem step_publish : step s (.publish t k r) = some s' ↔ ∃ st h, s.tx t = some st ∧
    st.holdOf r = some h ∧ h.valid = true ∧ h.mode = .w ∧ h.key = k ∧ st.committing = false ∧
    assoc s.pending k = some r ∧ assoc s.index k = none ∧
    s' = { s with pending := erase s.pending k, index := put s.index k r } := by
  simp only [step]
  cases s.tx t with
  | none => simp
  | some st =>
    cases hh : st.holdOf r with
    | none => simp [*]
    | some h =>
      cases hv : h.valid <;> cases hm : h.mode <;> by_cases hk : h.key = k <;> cases hc : st.committing <;>
        by_cases hp : assoc s.pending k = some r <;> cases hi : assoc s.index k <;>
        simp [*, eq_comm (a := s')]

theorem step_unlink : step s (.unlink t k r) = some s' ↔ ∃ st h, s.tx t = some st ∧
    st.holdOf r = some h ∧ h.valid = true ∧ h.mode = .w ∧ h.key = k ∧ st.committing = false ∧
    assoc s.index k = some r ∧ s' = { s with index := erase s.index k } := by
  simp only [step]
  cases s.tx t with
  | none => simp
  | some st =>
    cases hh : st.holdOf r with
    | none => simp [*]
    | some h =>
      cases hv : h.valid <;> cases hm : h.mode <;> by_cases hk : h.key = k <;> cases hc : st.committing <;>
        by_cases hp : assoc s.index k = some r <;>
        simp [*, eq_comm (a := s')]

theorem step_commit : step s (.commit t) = some s' ↔ ∃ st, s.tx t = some st ∧ st.committing = false ∧
    st.waiting = none ∧ (∀ h ∈ st.holds, h.valid = true) ∧ s' = s.setTx t { st with committing := true } := by
  simp only [step]
  cases s.tx t with
  | none => simp
  | some st =>
    cases hc : st.committing <;> cases hw : st.waiting <;> by_cases hv : (∀ h ∈ st.holds, h.valid = true) <;>
      simp [*, eq_comm (a := s')]

theorem step_trylock : step s (.trylock t k r) = some s' ↔ ∃ st, s.tx t = some st ∧ st.committing = true ∧
    assoc s.names r = some k ∧ s.free r .w = true ∧
    s' = s.setTx t (st.setHold { rid := r, key := k, mode := .w, valid := s.lookup k == some r }) := by
  simp only [step]
  cases s.tx t with
  | none => simp
  | some st =>
    cases hc : st.committing <;> by_cases hn : assoc s.names r = some k <;> cases hf : s.free r .w <;>
      simp [*, eq_comm (a := s')]

theorem step_drop : step s (.drop t k r) = some s' ↔ ∃ st h, s.tx t = some st ∧
    st.holdOf r = some h ∧ st.committing = true ∧ h.mode = .w ∧ h.key = k ∧
    assoc s.pending k = some r ∧ s' = { s with pending := erase s.pending k } := by
  simp only [step]
  cases s.tx t with
  | none => simp
  | some st =>
    cases hh : st.holdOf r with
    | none => simp [*]
    | some h =>
      cases hm : h.mode <;> by_cases hk : h.key = k <;> cases hc : st.committing <;>
        by_cases hp : assoc s.pending k = some r <;>
        simp [*, eq_comm (a := s')]

theorem step_unlock : step s (.unlock t r) = some s' ↔ ∃ st h, s.tx t = some st ∧
    st.holdOf r = some h ∧ (st.committing = true ∨ h.valid = false) ∧ s' = s.setTx t (st.delHold r) := by
  simp only [step]
  cases s.tx t with
  | none => simp
  | some st =>
    cases hh : st.holdOf r with
    | none => simp [*]
    | some h =>
      cases hv : h.valid <;> cases hc : st.committing <;> simp [*, eq_comm (a := s')]

theorem step_fin : step s (.fin t) = some s' ↔ ∃ st, s.tx t = some st ∧ st.holds = [] ∧ st.waiting = none ∧
    s' = { s with txs := erase s.txs t } := by
  simp only [step]
  cases s.tx t with
  | none => simp
  | some st =>
    cases hh : st.holds <;> cases hw : st.waiting <;> simp [*, eq_comm (a := s')]

theorem step_clear : step s .clear = some s' ↔ s' = { s with index := [] } := by
  simp [step, eq_comm (a := s')]

end NodisVerif.Proofs.Proto
