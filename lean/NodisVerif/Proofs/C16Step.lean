import NodisVerif.Proofs.C08Queues
import NodisVerif.Proofs.C16Handlers2
import NodisVerif.Proofs.C16Parse
/-
  C16 — one reply per command at the level of `step` / `run`, for an arbitrary handler table that
  satisfies `TableOneReply`; the EXEC array on the wire.
-/
namespace NodisVerif.Proofs.C08Step
open Resp Server
open NodisVerif.Proofs.C16Handlers (OneReply oneValue_scalar oneValue_arr_nonpos oneValue_arr_flatten isScalar)
open NodisVerif.Proofs.C16Parse
open NodisVerif.Spec.RespReply

theorem replyOf_eq (o : BodyOut) : replyOf o = NodisVerif.Proofs.C16Handlers.replyOf o := rfl

/-- well-formedness of a handler table for C16: whatever a handler does — reply by itself, or hand
    a closure to `execCommand` which then runs on ANY store, clock and choice, possibly panicking —
    exactly one RESP value is written -/
def TableOneReply (H : Table) : Prop := ∀ name args r, H name args = some r → OneReply r

/-- the closure writes exactly one RESP value (the recovery error token of a panic included) -/
def OneBody (b : Body) : Prop := ∀ st now ch, oneValue (replyOf (b st now ch)) = true

theorem okBody_one : OneBody okBody := by
  intro st now ch
  exact oneValue_scalar _ rfl

theorem oneValue_ok : oneValue [okTok] = true := oneValue_scalar _ rfl
theorem oneValue_queued : oneValue [queuedTok] = true := oneValue_scalar _ rfl
theorem oneValue_err (k : Nat) : oneValue [Tok.err k] = true := oneValue_scalar _ rfl
theorem oneValue_nullBulk : oneValue [Tok.nullBulk] = true := oneValue_scalar _ rfl

theorem TableOneReply.exec {H : Table} (h : TableOneReply H) (name : String) (args : List Bytes) (b : Body)
    (hb : H name args = some (.exec b)) : OneBody b := by
  intro st now ch
  exact h name args _ hb st now ch

theorem execOuts_one (now : Int) : ∀ (bs : List Body) (st : MState), (∀ b ∈ bs, OneBody b) →
    ∀ v ∈ (execOuts st now bs).map replyOf, oneValue v = true := by
  intro bs
  induction bs with
  | nil => intro st _ v hv; simp [execOuts] at hv
  | cons b rest ih =>
    intro st hb v hv
    simp only [execOuts, List.map_cons, List.mem_cons] at hv
    rcases hv with hv | hv
    · rw [hv]; exact hb b (by simp) _ _ _
    · exact ih _ (fun b' hb' => hb b' (by simp [hb'])) v hv

theorem execCommand_one (sv : Server) (id : String) (now : Int) (ch : Choice) (b : Body) (hb : OneBody b) :
    oneValue (execCommand sv id now ch b).2 = true := by
  rw [execCommand_eq]; split
  · rw [runBody_toks]; exact hb _ _ _
  · exact oneValue_queued

/-- EVERY command — known or unknown, any arguments, inside or outside MULTI, EXEC included — is
    answered by exactly one RESP value -/
theorem step_one_reply {H : Table} (hH : TableOneReply H) {sv : Server} (hq : QueuesSat OneBody sv) (c : Cmd) :
    oneValue (step H sv c).2 = true := by
  show oneValue (dispatch H sv c).2 = true
  by_cases h2 : c.name = "EXEC"
  · rw [dispatch_exec H sv c h2]
    by_cases hr : execRuns (sv.conn c.id)
    · rw [(exec_runs sv c.id c.now hr.1 hr.2.1 hr.2.2.1 hr.2.2.2).2, List.flatMap_def]
      have hl : ((execOuts sv.store c.now (sv.conn c.id).queue).map replyOf).length = (sv.conn c.id).queue.length := by
        simp [execOuts_length]
      rw [← hl]
      exact oneValue_arr_flatten _ (execOuts_one c.now _ sv.store (hq c.id))
    · rw [exec_eq]; simp only
      split; · exact oneValue_err 0
      split; · exact oneValue_err 2
      split; · exact oneValue_nullBulk
      split; · exact oneValue_arr_nonpos 0 (by omega)
      next h1 h2' h3 h4 =>
        exact absurd ⟨by simpa using h1, h2', by simpa using h4, by simpa using h3⟩ hr
  by_cases h1 : c.name = "MULTI"
  · rw [dispatch_multi H sv c h1, multi_eq]; split
    · exact oneValue_err 0
    · exact oneValue_ok
  by_cases h3 : c.name = "DISCARD"
  · rw [dispatch_discard H sv c h3, discard_eq]; exact oneValue_ok
  by_cases h4 : c.name = "WATCH"
  · rw [dispatch_watch H sv c h4, watch_eq]; split
    · exact oneValue_err 0
    · split
      · exact oneValue_err 0
      · exact oneValue_ok
  by_cases h5 : c.name = "UNWATCH"
  · rw [dispatch_unwatch H sv c h5]; exact execCommand_one _ _ _ _ _ okBody_one
  have hsp : ¬ special c.name := by
    unfold special; rintro (e | e | e | e | e) <;> contradiction
  rw [dispatch_table H sv c hsp]
  cases hH' : H c.name c.args with
  | none => exact oneValue_err 0
  | some r =>
    cases r with
    | direct ts => exact hH _ _ _ hH'
    | crash => exact oneValue_err 0
    | exec b => exact execCommand_one _ _ _ _ _ (hH.exec _ _ b hH')

/-- … hence every reply of every schedule -/
theorem run_one_reply {H : Table} (hH : TableOneReply H) : ∀ (cs : List Cmd) {sv : Server}, QueuesSat OneBody sv →
    ∀ r ∈ (run H sv cs).2, oneValue r = true := by
  intro cs; induction cs with
  | nil => intro sv _ r hr; simp [run] at hr
  | cons c rest ih =>
    intro sv hq r hr
    simp only [run, List.mem_cons] at hr
    rcases hr with hr | hr
    · rw [hr]; exact step_one_reply hH hq c
    · exact ih (hq.step okBody_one (fun n a b hb => hH.exec n a b hb) c) r hr

/-! ### the EXEC array on the wire -/

theorem seqN_parseFuel_renderAll (F : Nat) : ∀ (rs : List (List Tok)) (vs : List Value) (rest : Bytes),
    (∀ r ∈ rs, oneValue r = true ∧ ArrOK r ∧ LinesOK r) → rs.map toValue = vs.map some →
    (rs.flatMap renderAll ++ rest).length + 1 ≤ F →
    seqN (parseFuel F) rs.length (rs.flatMap renderAll ++ rest) = some (vs, rest) := by
  intro rs
  induction rs with
  | nil =>
    intro vs rest _ hvs _
    cases vs with
    | nil => simp [seqN]
    | cons _ _ => simp at hvs
  | cons r rs ih =>
    intro vs rest hok hvs hF
    cases vs with
    | nil => simp at hvs
    | cons v vs =>
      simp only [List.map_cons, List.cons.injEq] at hvs
      obtain ⟨hv, hvs⟩ := hvs
      obtain ⟨h1, hA, hS⟩ := hok r (by simp)
      have hr := render_parse_roundtrip r (rs.flatMap renderAll ++ rest) h1 hA hS v hv
      unfold parseReply at hr
      simp only [List.flatMap_cons, List.append_assoc, List.length_append] at hF
      have hr' := parseFuel_le _ F (by simp only [List.length_append]; omega) _ _ hr
      have ht := ih vs rest (fun r' hr' => hok r' (List.mem_cons_of_mem _ hr')) hvs
        (by simp only [List.length_append]; omega)
      simp only [List.flatMap_cons, List.append_assoc, List.length_cons, seqN, hr', ht]

/-- an array header followed by the renderings of n complete values is read back as the array of
    exactly those n values -/
theorem parse_array_of_values (rs : List (List Tok)) (vs : List Value) (rest : Bytes)
    (hok : ∀ r ∈ rs, oneValue r = true ∧ ArrOK r ∧ LinesOK r) (hvs : rs.map toValue = vs.map some) :
    parseReply (renderAll (Tok.arr rs.length :: rs.flatten) ++ rest) = some (.array vs, rest) := by
  have hfl : ∀ (xs : List (List Tok)), renderAll xs.flatten = xs.flatMap renderAll := by
    intro xs
    induction xs with
    | nil => rfl
    | cons x xs ih =>
      simp only [List.flatten_cons, List.flatMap_cons]
      rw [← ih]
      simp [renderAll, List.flatMap_append]
  rw [renderAll_cons, hfl rs]
  unfold parseReply
  simp only [render, crlf, List.cons_append, List.append_assoc, List.nil_append, List.length_cons]
  rw [parseFuel_succ_cons, body_array _ _ (by omega), Int.toNat_natCast]
  rw [seqN_parseFuel_renderAll _ rs vs rest hok hvs (by simp only [List.length_append, List.length_cons]; omega)]

end NodisVerif.Proofs.C08Step
