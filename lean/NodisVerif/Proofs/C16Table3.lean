import NodisVerif.Model.Handler3
import NodisVerif.Proofs.C16Handlers
/-
  C16 "exactly one well-formed RESP reply per command", handler level, for the sorted-set / scan
  table `Handler3.table3` and for `Handler3.fixtures`.

  Part 1 (this file): shape of the API results the handlers match on (the dead `| _ =>` branches),
  `one_reply_<handler>` for every handler, `table3_one_reply`, `fixtures_one_reply`.
  Part 2 (C16Table3b.lean): `wire_<handler>`, `table3_wire`, `fixtures_wire`.
-/
namespace NodisVerif.Proofs.C16Table3
open NodisVerif NodisVerif.Resp NodisVerif.Handler NodisVerif.Handler3
open NodisVerif.Proofs.C16Handlers

/-! ## shape of API results -/

/-- `Api.zread`: a panic (wrong type), the default (key absent), or `f` of the sorted set -/
theorem zread_out (f : ZSet → Out) (dflt : Out) (s : MState) (now : Int) (key : Bytes) :
    (Api.zread f dflt s now key).2 = Out.panic ∨ (Api.zread f dflt s now key).2 = dflt ∨
      ∃ z, (Api.zread f dflt s now key).2 = f z := by
  unfold Api.zread
  generalize Store.readKey s now key = r
  obtain ⟨s', okk⟩ := r
  dsimp only
  split
  · exact Or.inr (Or.inl rfl)
  · split
    · exact Or.inl rfl
    · exact Or.inr (Or.inr ⟨_, rfl⟩)

theorem sread_out (f : AList Unit → Out) (dflt : Out) (s : MState) (now : Int) (key : Bytes) :
    (Api.sread f dflt s now key).2 = Out.panic ∨ (Api.sread f dflt s now key).2 = dflt ∨
      ∃ z, (Api.sread f dflt s now key).2 = f z := by
  unfold Api.sread
  generalize Store.readKey s now key = r
  obtain ⟨s', okk⟩ := r
  dsimp only
  split
  · exact Or.inr (Or.inl rfl)
  · split
    · exact Or.inl rfl
    · exact Or.inr (Or.inr ⟨_, rfl⟩)

theorem hread_out (f : AList Bytes → Out) (dflt : Out) (s : MState) (now : Int) (key : Bytes) :
    (Api.hread f dflt s now key).2 = Out.panic ∨ (Api.hread f dflt s now key).2 = dflt ∨
      ∃ z, (Api.hread f dflt s now key).2 = f z := by
  unfold Api.hread
  generalize Store.readKey s now key = r
  obtain ⟨s', okk⟩ := r
  dsimp only
  split
  · exact Or.inr (Or.inl rfl)
  · split
    · exact Or.inl rfl
    · exact Or.inr (Or.inr ⟨_, rfl⟩)

/-- an API result whose item list (if it is one) has no nil element: the `none :: _` alternative of
    `writeItems.go` (nil dereference after the header) is not reached -/
def ItemsOK (o : Out) : Prop := ∀ xs, o = Out.ilist xs → ∃ items : List Item, xs = items.map some

theorem itemsOK_itemsOf (r : Option (List Item)) : ItemsOK (Api.itemsOf r) := by
  intro xs h
  unfold Api.itemsOf at h
  split at h
  · cases h
  · cases h; exact ⟨_, rfl⟩

theorem itemsOK_membersOf (r : Option (List Item)) : ItemsOK (Api.membersOf r) := by
  intro xs h
  unfold Api.membersOf at h
  split at h <;> cases h

theorem itemsOK_panic : ItemsOK Out.panic := by intro xs h; cases h
theorem itemsOK_slist (l : List Bytes) : ItemsOK (Out.slist l) := by intro xs h; cases h
theorem itemsOK_ilist_nil : ItemsOK (Out.ilist []) := by
  intro xs h; cases h; exact ⟨[], rfl⟩

/-- `Api.zrange` returns `.panic`, `.slist _` or `.ilist (items.map some)` -/
theorem zrange_out (desc ws : Bool) (s : MState) (now : Int) (key : Bytes) (start stop : Int) :
    ItemsOK (Api.zrange desc ws s now key start stop).2 := by
  unfold Api.zrange
  rcases zread_out (fun z =>
      let r := DsZSet.forEachByRank z start stop desc
      if ws then Api.itemsOf r else Api.membersOf r)
      (if ws then Out.ilist [] else Out.slist []) s now key with h | h | ⟨z, h⟩
  · rw [h]; exact itemsOK_panic
  · rw [h]; split
    · exact itemsOK_ilist_nil
    · exact itemsOK_slist _
  · rw [h]; dsimp only; split
    · exact itemsOK_itemsOf _
    · exact itemsOK_membersOf _

theorem zrangeByScore_out (desc ws : Bool) (s : MState) (now : Int) (key : Bytes) (min max : F64)
    (offset count mode : Int) :
    ItemsOK (Api.zrangeByScore desc ws s now key min max offset count mode).2 := by
  unfold Api.zrangeByScore
  rcases zread_out (fun z =>
      let r := some (DsZSet.rangeByScore z min max offset count desc (mode % 4).toNat)
      if ws then Api.itemsOf r else Api.membersOf r)
      (if ws then Out.ilist [] else Out.slist []) s now key with h | h | ⟨z, h⟩
  · rw [h]; exact itemsOK_panic
  · rw [h]; split
    · exact itemsOK_ilist_nil
    · exact itemsOK_slist _
  · rw [h]; dsimp only; split
    · exact itemsOK_itemsOf _
    · exact itemsOK_membersOf _

/-- `Api.zscan` returns `.panic` or `.many [.int next, .ilist (items.map some)]`: the `| _ => done s []`
    alternative of `Handler3.zScan` and the nil dereference of `writeItems` are dead -/
theorem zscan_out (s : MState) (now : Int) (key : Bytes) (cursor : Int) (pat : Bytes) (count : Int) :
    (Api.zscan s now key cursor pat count).2 = Out.panic ∨
      ∃ (next : Int) (items : List Item),
        (Api.zscan s now key cursor pat count).2 = Out.many [Out.int next, Out.ilist (items.map some)] := by
  unfold Api.zscan
  rcases zread_out (fun z => let (c, items) := DsZSet.zScan z cursor pat count
      Out.many [Out.int c, Out.ilist (items.map some)]) (Out.many [Out.int 0, Out.ilist []]) s now key
    with h | h | ⟨z, h⟩
  · exact Or.inl h
  · exact Or.inr ⟨0, [], h⟩
  · right
    rw [h]
    generalize DsZSet.zScan z cursor pat count = r
    obtain ⟨c, items⟩ := r
    exact ⟨c, items, rfl⟩

/-- `Api.sscan` returns `.panic` or `.many [.int next, .slist ks]` -/
theorem sscan_out (s : MState) (now : Int) (key : Bytes) (cursor : Int) (pat : Bytes) (count : Int) :
    (Api.sscan s now key cursor pat count).2 = Out.panic ∨
      ∃ next ks, (Api.sscan s now key cursor pat count).2 = Out.many [Out.int next, Out.slist ks] := by
  unfold Api.sscan
  rcases sread_out (fun st => let (c, ks) := DsSet.sscan st cursor pat count
      Out.many [Out.int c, Out.slist ks]) (Out.many [Out.int 0, Out.slist []]) s now key
    with h | h | ⟨z, h⟩
  · exact Or.inl h
  · exact Or.inr ⟨0, [], h⟩
  · right
    rw [h]
    generalize DsSet.sscan z cursor pat count = r
    obtain ⟨c, ks⟩ := r
    exact ⟨c, ks, rfl⟩

/-- `Api.hscan` returns `.panic` or `.many [.int next, .bmap kvs]` -/
theorem hscan_out (s : MState) (now : Int) (key : Bytes) (cursor : Int) (pat : Bytes) (count : Int) :
    (Api.hscan s now key cursor pat count).2 = Out.panic ∨
      ∃ next kvs, (Api.hscan s now key cursor pat count).2 = Out.many [Out.int next, Out.bmap kvs] := by
  unfold Api.hscan
  rcases hread_out (fun h => let (c, kv) := DsHash.hscan h cursor pat count
      Out.many [Out.int c, Out.bmap (kv.map fun (k, v) => (k, some v))]) (Out.many [Out.int 0, Out.bmap []]) s now key
    with h | h | ⟨z, h⟩
  · exact Or.inl h
  · exact Or.inr ⟨0, [], h⟩
  · right
    rw [h]
    generalize DsHash.hscan z cursor pat count = r
    obtain ⟨c, kv⟩ := r
    exact ⟨c, _, rfl⟩

/-- `Api.zstore` never returns `.hang`: the `| .hang => done s []` alternative of `Handler3.zStore`
    (a command that never replies) is dead in the model -/
theorem zstore_out (union : Bool) (s : MState) (now : Int) (dst : Bytes) (keys : List Bytes)
    (weights : List F64) (agg : Bytes) :
    (Api.zstore union s now dst keys weights agg).2 = Out.panic ∨
    (Api.zstore union s now dst keys weights agg).2 = Out.unsupported ∨
    ∃ n, (Api.zstore union s now dst keys weights agg).2 = Out.int n := by
  unfold Api.zstore
  dsimp only
  generalize (if union = true then Api.zunionCore else Api.zinterCore) s now keys weights agg = r
  obtain ⟨s', o⟩ := r
  cases o with
  | none => exact Or.inl rfl
  | some o =>
    cases o with
    | none => exact Or.inr (Or.inl rfl)
    | some items =>
      right; right
      dsimp only
      generalize Store.writeKey (Api.commit s') now dst (some (Val.zset DsZSet.empty)) = w
      obtain ⟨s2, okk⟩ := w
      dsimp only
      split
      · exact ⟨_, rfl⟩
      · generalize Store.fresh s2 = fr
        obtain ⟨oid, s3⟩ := fr
        exact ⟨_, rfl⟩

/-! ## the `Pre` monad: statements before `execCommand` -/

theorem scalar_unsupported : isScalar unsupported = true := rfl

theorem scalar_fmtScore (x : F64) : isScalar (fmtScore x) = true := by
  unfold fmtScore; split <;> rfl

/-- whatever the statements before `execCommand` do (error reply, panic, unsupported float text),
    one reply is written, provided the continuation writes one -/
theorem oneReply_bind {α : Type} (x : Pre α) (f : α → Pre HRes)
    (h : ∀ a, OneReply (Pre.run (f a))) : OneReply (Pre.run (x >>= f)) := by
  cases x with
  | ok a => exact h a
  | err => exact oneReply_errReply
  | crash => trivial
  | unsup =>
    intro s now ch
    exact oneValue_scalar _ scalar_unsupported

theorem oneReply_pure (r : HRes) (h : OneReply r) : OneReply (Pre.run (pure r)) := h

theorem oneReply_crash : OneReply (Pre.run Pre.crash) := trivial
theorem oneReply_err : OneReply (Pre.run Pre.err) := oneReply_errReply

/-! ## rendering -/

theorem good_panicOut_nil (s : MState) : Good (panicOut s) := good_panic_nil s

theorem good_writeMembers (s : MState) (o : Out) : Good (writeMembers s o) := by
  unfold writeMembers
  split
  · exact good_done _ _ (oneValue_bulkList _)
  · exact good_done_scalar _ _ scalar_unsupported
  · exact good_done _ _ (oneValue_arr_nonpos 0 (by omega))

/-- the pairs (member, score) of a score listing -/
def pairToks (items : List Item) : List Tok := items.flatMap fun it => [Tok.bulk it.2, fmtScore it.1]

theorem pairToks_length (items : List Item) : (pairToks items).length = 2 * items.length := by
  unfold pairToks
  induction items with
  | nil => rfl
  | cons it rest ih => simp only [List.flatMap_cons, List.length_append, List.length_cons, List.length_nil, ih]; omega

theorem pairToks_scalar (items : List Item) : ∀ t ∈ pairToks items, isScalar t = true := by
  intro t ht
  unfold pairToks at ht
  rw [List.mem_flatMap] at ht
  obtain ⟨it, _, h⟩ := ht
  simp only [List.mem_cons, List.mem_nil_iff, or_false] at h
  rcases h with rfl | rfl
  · rfl
  · exact scalar_fmtScore _

/-- the WITHSCORES loop on a list without nil elements: it appends one (member, score) pair per item
    and does not panic -/
theorem writeItems_go (s : MState) : ∀ (items : List Item) (acc : List Tok),
    writeItems.go s (items.map some) acc = done s (acc ++ pairToks items) := by
  intro items
  induction items with
  | nil => intro acc; simp [writeItems.go, pairToks]
  | cons it rest ih =>
    intro acc
    obtain ⟨sc, m⟩ := it
    rw [List.map_cons, writeItems.go, ih]
    simp [pairToks]

theorem writeItems_somes (s : MState) (items : List Item) :
    writeItems s (Out.ilist (items.map some)) = done s (Tok.arr (2 * items.length) :: pairToks items) := by
  unfold writeItems
  dsimp only
  rw [writeItems_go, List.length_map]
  rfl

/-- `*2n` followed by `n` (member, score) pairs -/
theorem oneValue_itemsReply (items : List Item) :
    oneValue (Tok.arr (2 * items.length) :: pairToks items) = true := by
  have := oneValue_arr_scalars (pairToks items) (pairToks_scalar items)
  rw [pairToks_length] at this
  have h2 : ((2 * items.length : Nat) : Int) = 2 * (items.length : Int) := by omega
  rw [h2] at this
  exact this

theorem good_writeItems (s : MState) (o : Out) (h : ItemsOK o) : Good (writeItems s o) := by
  cases o with
  | ilist xs =>
    obtain ⟨items, rfl⟩ := h xs rfl
    rw [writeItems_somes]
    exact good_done _ _ (oneValue_itemsReply items)
  | unsupported => exact good_done_scalar _ _ scalar_unsupported
  | _ => exact good_done _ _ (oneValue_arr_nonpos 0 (by omega))

theorem good_writeRange (ws : Bool) (s : MState) (o : Out) (h : ItemsOK o) : Good (writeRange ws s o) := by
  unfold writeRange
  split
  · exact good_writeItems s o h
  · exact good_writeMembers s o

/-! ## handlers writing one scalar -/

/-- the token `parseScores` stops with is the error reply or the marker of a float outside the model -/
theorem parseScores_error : ∀ (ps : List (Bytes × Bytes)) (t : Tok), parseScores ps = .error t → t = unsupported ∨ t = e
  | [], t, h => by rw [parseScores] at h; cases h
  | (sc, member) :: more, t, h => by
    rw [parseScores] at h
    split at h
    · cases h; exact Or.inl rfl
    · cases h; exact Or.inr rfl
    · split at h
      · cases h; exact Or.inr rfl
      · split at h
        · next t' heq => cases h; exact parseScores_error more _ heq
        · cases h

theorem good_zAddBody (args : List Bytes) (key : Bytes) (itemStart : Int) (s : MState) (now : Int) (ch : Choice) :
    Good (zAddBody args key itemStart s now ch) := by
  unfold zAddBody
  dsimp only
  split
  · exact good_done_scalar _ _ rfl
  · split
    · exact good_done_scalar _ _ rfl
    · split
      · exact good_done_scalar _ _ rfl
      · split
        · exact good_done_scalar _ _ rfl
        · split
          · next t heq =>
            rcases parseScores_error _ _ heq with rfl | rfl
            · exact good_done_scalar _ _ scalar_unsupported
            · exact good_done_scalar _ _ rfl
          · split
            · split
              · exact good_panicOut_nil _
              · apply good_call_all; intro s o
                split
                · exact good_done_scalar _ _ (scalar_fmtScore _)
                · exact good_done_scalar _ _ scalar_unsupported
            · apply good_call_all; intro s o; exact good_done_scalar _ _ rfl

theorem one_reply_zAdd (args : List Bytes) : OneReply (Handler3.zAdd args) := by
  unfold Handler3.zAdd
  split
  · exact oneReply_errReply
  · dsimp only
    split
    · exact oneReply_errReply
    · split
      · exact oneReply_errReply
      · intro s now ch
        exact good_zAddBody _ _ _ _ _ _

theorem one_reply_zCard (args : List Bytes) : OneReply (Handler3.zCard args) := by
  unfold Handler3.zCard
  split
  · exact oneReply_errReply
  · hcall

/-- `*2, :rank, $member` -/
theorem oneValue_rankReply (r : Int) (m : Bytes) : oneValue [Tok.arr 2, Tok.int r, Tok.bulk m] = true := by
  have := oneValue_arr_scalars [Tok.int r, Tok.bulk m] (by
    intro t ht
    simp only [List.mem_cons, List.mem_nil_iff, or_false] at ht
    rcases ht with rfl | rfl <;> rfl)
  exact this

theorem good_rankBody (desc : Bool) (args : List Bytes) (s : MState) (now : Int) (ch : Choice) :
    Good (rankBody desc args s now ch) := by
  unfold rankBody
  split
  · split
    · apply good_call_all; intro s o
      split
      · exact good_done _ _ (oneValue_rankReply _ _)
      · exact good_done_scalar _ _ rfl
    · apply good_call_all; intro s o
      split
      · exact good_done_scalar _ _ rfl
      · exact good_done_scalar _ _ rfl
  · exact good_panicOut_nil _

theorem one_reply_zRank (args : List Bytes) : OneReply (Handler3.zRank args) := by
  unfold Handler3.zRank
  split
  · exact oneReply_errReply
  · intro s now ch; exact good_rankBody _ _ _ _ _

theorem one_reply_zRevRank (args : List Bytes) : OneReply (Handler3.zRevRank args) := by
  unfold Handler3.zRevRank
  split
  · exact oneReply_errReply
  · intro s now ch; exact good_rankBody _ _ _ _ _

theorem one_reply_zScore (args : List Bytes) : OneReply (Handler3.zScore args) := by
  unfold Handler3.zScore
  split
  · intro s now ch
    apply good_call_all; intro s o
    split
    · exact good_done_scalar _ _ (scalar_fmtScore _)
    · exact good_done_scalar _ _ rfl
  · exact oneReply_errReply

theorem one_reply_zIncrBy (args : List Bytes) : OneReply (Handler3.zIncrBy args) := by
  unfold Handler3.zIncrBy
  split
  · apply oneReply_bind; intro score
    apply oneReply_pure
    intro s now ch
    apply good_call_all; intro s o
    split
    · exact good_done_scalar _ _ (scalar_fmtScore _)
    · exact good_done_scalar _ _ scalar_unsupported
  · exact oneReply_errReply

/-! ## the ZRANGE family -/

theorem one_reply_byScoreBody (key : Bytes) (desc ws : Bool) (min max : F64) (offset count mode : Int) :
    OneReply (byScoreBody key desc ws min max offset count mode) := by
  unfold byScoreBody
  intro s now ch
  apply good_call
  intro _
  exact good_writeRange _ _ _ (zrangeByScore_out _ _ _ _ _ _ _ _ _ _)

theorem one_reply_byRankBody (key : Bytes) (desc ws : Bool) (start stop : Int) :
    OneReply (byRankBody key desc ws start stop) := by
  unfold byRankBody
  intro s now ch
  apply good_call
  intro _
  exact good_writeRange _ _ _ (zrange_out _ _ _ _ _ _ _)

theorem oneReply_limitP (args : List Bytes) (f : Int × Int → Pre HRes)
    (h : ∀ a, OneReply (Pre.run (f a))) : OneReply (Pre.run (limitP args >>= f)) :=
  oneReply_bind _ _ h

theorem one_reply_zRange (args : List Bytes) : OneReply (Handler3.zRange args) := by
  unfold Handler3.zRange
  split
  · dsimp only
    split
    · apply oneReply_bind; intro c1
      apply oneReply_bind; intro min
      apply oneReply_bind; intro c2
      apply oneReply_bind; intro max
      apply oneReply_bind; intro oc
      exact one_reply_byScoreBody _ _ _ _ _ _ _ _
    · apply oneReply_bind; intro start
      apply oneReply_bind; intro stop
      exact one_reply_byRankBody _ _ _ _ _
  · exact oneReply_errReply

theorem one_reply_zRevRange (args : List Bytes) : OneReply (Handler3.zRevRange args) := by
  unfold Handler3.zRevRange
  split
  · apply oneReply_bind; intro start
    apply oneReply_bind; intro stop
    exact one_reply_byRankBody _ _ _ _ _
  · exact oneReply_errReply

theorem one_reply_zRangeByScore (args : List Bytes) : OneReply (Handler3.zRangeByScore args) := by
  unfold Handler3.zRangeByScore
  split
  · apply oneReply_bind; intro c1
    apply oneReply_bind; intro min
    apply oneReply_bind; intro c2
    apply oneReply_bind; intro max
    apply oneReply_bind; intro oc
    exact one_reply_byScoreBody _ _ _ _ _ _ _ _
  · exact oneReply_errReply

theorem one_reply_zRevRangeByScore (args : List Bytes) : OneReply (Handler3.zRevRangeByScore args) := by
  unfold Handler3.zRevRangeByScore
  split
  · apply oneReply_bind; intro c2
    apply oneReply_bind; intro min
    apply oneReply_bind; intro c1
    apply oneReply_bind; intro max
    apply oneReply_bind; intro oc
    exact one_reply_byScoreBody _ _ _ _ _ _ _ _
  · exact oneReply_errReply

/-! ## counting / removing -/

theorem one_reply_zCount (args : List Bytes) : OneReply (Handler3.zCount args) := by
  unfold Handler3.zCount
  split
  · apply oneReply_bind; intro c1
    apply oneReply_bind; intro min
    apply oneReply_bind; intro c2
    apply oneReply_bind; intro max
    apply oneReply_pure
    hcall
  · exact oneReply_errReply

theorem one_reply_zRem (args : List Bytes) : OneReply (Handler3.zRem args) := by
  unfold Handler3.zRem
  dsimp only
  split
  · exact oneReply_errReply
  · intro s now ch
    split
    · exact good_panicOut_nil _
    · apply good_call_all; intro s o; exact good_done_scalar _ _ rfl

theorem one_reply_zRemRangeByRank (args : List Bytes) : OneReply (Handler3.zRemRangeByRank args) := by
  unfold Handler3.zRemRangeByRank
  dsimp only
  split
  · exact oneReply_errReply
  · apply oneReply_bind; intro key
    apply oneReply_bind; intro a1
    apply oneReply_bind; intro start
    apply oneReply_bind; intro a2
    apply oneReply_bind; intro stop
    apply oneReply_pure
    hcall

theorem one_reply_zRemRangeByScore (args : List Bytes) : OneReply (Handler3.zRemRangeByScore args) := by
  unfold Handler3.zRemRangeByScore
  dsimp only
  split
  · exact oneReply_errReply
  · apply oneReply_bind; intro key
    apply oneReply_bind; intro a1
    apply oneReply_bind; intro c1
    apply oneReply_bind; intro min
    apply oneReply_bind; intro a2
    apply oneReply_bind; intro max
    apply oneReply_bind; intro c2
    apply oneReply_pure
    hcall

/-! ## ZUNIONSTORE / ZINTERSTORE -/

/-- the closure of Z*STORE: `.hang` is never returned by `Api.zstore`, so the alternative that writes
    nothing is dead; every other alternative writes one scalar -/
theorem good_zStore_body (union : Bool) (s : MState) (now : Int) (dst : Bytes) (keys : List Bytes)
    (weights : List F64) (agg : Bytes) :
    Good (call (Api.zstore union s now dst keys weights agg) fun s o =>
        match o with
        | .unsupported => done s [unsupported]
        | .hang => done s []
        | _ => call (Api.zcard (Api.commit s) now dst) fun s o => done s [.int (intOf o)]) := by
  apply good_call
  intro hne
  rcases zstore_out union s now dst keys weights agg with h | h | ⟨n, h⟩
  · exact absurd h hne
  · rw [h]; exact good_done_scalar _ _ scalar_unsupported
  · rw [h]
    apply good_call_all; intro s o; exact good_done_scalar _ _ rfl

theorem one_reply_zStore (union : Bool) (args : List Bytes) : OneReply (Handler3.zStore union args) := by
  unfold Handler3.zStore
  split
  · exact oneReply_errReply
  · apply oneReply_bind; intro dst
    apply oneReply_bind; intro a1
    apply oneReply_bind; intro numKeys
    dsimp only
    split
    · exact oneReply_crash
    · have body : ∀ (weights : List F64) (agg : Bytes), OneReply (.exec fun s now _ =>
            call (Api.zstore union s now dst
                (((args ++ List.replicate (capOf args.length - args.length) []).drop 2).take numKeys.toNat)
                weights (upper agg)) fun s o =>
              match o with
              | .unsupported => done s [unsupported]
              | .hang => done s []
              | _ => call (Api.zcard (Api.commit s) now dst) fun s o => done s [.int (intOf o)]) := by
        intro weights agg s now ch
        exact good_zStore_body _ _ _ _ _ _ _
      split
      · split
        · exact oneReply_err
        · apply oneReply_bind; intro weights
          split <;> (apply oneReply_bind; intro agg; exact body _ _)
      · apply oneReply_bind; intro weights
        split <;> (apply oneReply_bind; intro agg; exact body _ _)

theorem one_reply_zClear (args : List Bytes) : OneReply (Handler3.zClear args) := by
  unfold Handler3.zClear
  dsimp only
  split
  · exact oneReply_errReply
  · intro s now ch
    split
    · exact good_panicOut_nil _
    · apply good_call_all; intro s o; exact good_done_scalar _ _ rfl

theorem one_reply_zExists (args : List Bytes) : OneReply (Handler3.zExists args) := by
  unfold Handler3.zExists
  dsimp only
  split
  · exact oneReply_errReply
  · intro s now ch
    split
    · apply good_call_all; intro s o; exact good_done_scalar _ _ rfl
    · exact good_panicOut_nil _

/-! ## SSCAN / HSCAN / ZSCAN -/

theorem good_nextCursor (card : MState → Int → Bytes → Api.R) (s : MState) (now : Int) (key : Bytes)
    (next : Int) (k : MState → Int → BodyOut) (hk : ∀ s n, Good (k s n)) :
    Good (nextCursor card s now key next k) := by
  unfold nextCursor
  apply good_call_all; intro s o
  exact hk _ _

/-- `*2`, the cursor, and one complete value -/
theorem oneValue_cursorReply (c : Bytes) (v : List Tok) (hv : oneValue v = true) :
    oneValue ([Tok.arr 2, Tok.bulk c] ++ v) = true := by
  have := oneValue_arr_flatten [[Tok.bulk c], v] (by
    intro w hw
    simp only [List.mem_cons, List.mem_nil_iff, or_false] at hw
    rcases hw with rfl | rfl
    · exact oneValue_scalar _ rfl
    · exact hv)
  simpa using this

theorem one_reply_sScan (args : List Bytes) : OneReply (Handler3.sScan args) := by
  unfold Handler3.sScan
  split
  · exact oneReply_errReply
  · apply oneReply_bind; intro key
    apply oneReply_bind; intro a1
    apply oneReply_bind; intro cursor
    apply oneReply_bind; intro pc
    apply oneReply_pure
    intro s now ch
    apply good_call
    intro hne
    rcases sscan_out s now key cursor pc.1 pc.2 with h | ⟨next, ks, h⟩
    · exact absurd h hne
    · rw [h]
      apply good_nextCursor
      intro s n
      exact good_done _ _ (oneValue_cursorReply _ _ (oneValue_bulkList ks))

/-- the field / value listing of HSCAN -/
def kvToks (kvs : List (Bytes × Option Bytes)) : List Tok :=
  kvs.flatMap fun (k, v) => [Tok.bulk k, Tok.bulk (v.getD [])]

theorem kvToks_length (kvs : List (Bytes × Option Bytes)) : (kvToks kvs).length = 2 * kvs.length := by
  unfold kvToks
  induction kvs with
  | nil => rfl
  | cons it rest ih => simp only [List.flatMap_cons, List.length_append, List.length_cons, List.length_nil, ih]; omega

theorem kvToks_scalar (kvs : List (Bytes × Option Bytes)) : ∀ t ∈ kvToks kvs, isScalar t = true := by
  intro t ht
  unfold kvToks at ht
  rw [List.mem_flatMap] at ht
  obtain ⟨it, _, h⟩ := ht
  simp only [List.mem_cons, List.mem_nil_iff, or_false] at h
  rcases h with rfl | rfl <;> rfl

theorem oneValue_kvReply (kvs : List (Bytes × Option Bytes)) :
    oneValue (Tok.arr (2 * kvs.length) :: kvToks kvs) = true := by
  have := oneValue_arr_scalars (kvToks kvs) (kvToks_scalar kvs)
  rw [kvToks_length] at this
  have h2 : ((2 * kvs.length : Nat) : Int) = 2 * (kvs.length : Int) := by omega
  rw [h2] at this
  exact this

theorem one_reply_hScan (args : List Bytes) : OneReply (Handler3.hScan args) := by
  unfold Handler3.hScan
  split
  · exact oneReply_errReply
  · apply oneReply_bind; intro key
    apply oneReply_bind; intro a1
    apply oneReply_bind; intro pc
    apply oneReply_pure
    intro s now ch
    apply good_call
    intro hne
    rcases hscan_out s now key (parseIntGo a1).1 pc.1 pc.2 with h | ⟨next, kvs, h⟩
    · exact absurd h hne
    · rw [h]
      apply good_nextCursor
      intro s n
      exact good_done _ _ (oneValue_cursorReply _ _ (oneValue_kvReply kvs))

theorem one_reply_zScan (args : List Bytes) : OneReply (Handler3.zScan args) := by
  unfold Handler3.zScan
  split
  · exact oneReply_errReply
  · apply oneReply_bind; intro key
    apply oneReply_bind; intro a1
    apply oneReply_bind; intro cursor
    apply oneReply_bind; intro pc
    apply oneReply_pure
    intro s now ch
    apply good_call
    intro hne
    rcases zscan_out s now key cursor pc.1 pc.2 with h | ⟨next, items, h⟩
    · exact absurd h hne
    · rw [h]
      apply good_nextCursor
      intro s n
      dsimp only
      rw [writeItems_somes]
      exact good_done _ _ (oneValue_cursorReply _ _ (oneValue_itemsReply items))

/-! ## the dispatch table -/

/-- every handler of `Handler3.table3`, at full strength: one RESP value for every argument vector,
    store, clock and choice -/
theorem table3_one_reply (name : String) (args : List Bytes) (r : HRes)
    (h : Handler3.table3 name args = some r) : OneReply r := by
  unfold Handler3.table3 at h
  split at h <;> first
    | (cases h; done)
    | (cases h
       first
       | exact one_reply_zAdd _ | exact one_reply_zCard _ | exact one_reply_zRank _ | exact one_reply_zRevRank _
       | exact one_reply_zScore _ | exact one_reply_zIncrBy _ | exact one_reply_zRange _
       | exact one_reply_zRevRange _ | exact one_reply_zRangeByScore _ | exact one_reply_zRevRangeByScore _
       | exact one_reply_zCount _ | exact one_reply_zRem _ | exact one_reply_zRemRangeByRank _
       | exact one_reply_zRemRangeByScore _ | exact one_reply_zStore _ _ | exact one_reply_zClear _
       | exact one_reply_zExists _ | exact one_reply_sScan _ | exact one_reply_hScan _ | exact one_reply_zScan _)

/-! ## fixtures -/

theorem one_reply_sAddFixture (args : List Bytes) : OneReply (Handler3.sAddFixture args) := by
  unfold Handler3.sAddFixture
  split
  · hcall
  · exact oneReply_errReply

theorem one_reply_hSetFixture (args : List Bytes) : OneReply (Handler3.hSetFixture args) := by
  unfold Handler3.hSetFixture
  split
  · intro s now ch
    apply good_call_all; intro s o
    split
    · exact good_done_scalar _ _ rfl
    · apply good_call_all; intro s o2; exact good_done_scalar _ _ rfl
  · exact oneReply_errReply

theorem fixtures_one_reply (name : String) (args : List Bytes) (r : HRes)
    (h : Handler3.fixtures name args = some r) : OneReply r := by
  unfold Handler3.fixtures at h
  split at h <;> first
    | (cases h; done)
    | (cases h
       first
       | exact one_reply_sAddFixture _ | exact one_reply_hSetFixture _)

/-! ## non-vacuity: concrete replies of the array-shaped handlers (evaluated in the model) -/

/-- the tokens one command produces: the direct reply, or the closure's reply on a store -/
def tokensOf (r : HRes) (s : MState) (now : Int) (ch : Choice) : Option (List Tok) :=
  match r with
  | .direct ts => some ts
  | .exec b => some (replyOf (b s now ch))
  | .crash => none

/-- the store after `ZADD k 1 a` on the empty store -/
def zStore1 : MState := (Api.zadd {} 0 [107] [97] (0x3ff0000000000000 : F64)).1
/-- the store after `SADD s x` / `HSET h f v` on the empty store -/
def sStore1 : MState := (Api.sadd {} 0 [115] [[120]]).1
def hStore1 : MState := (Api.hset {} 0 [104] [102] [118]).1

/-- `ZRANGE k 0 -1 WITHSCORES` → `*2 $a $1` -/
example : tokensOf (Handler3.zRange [[107], [48], [45,49], [87,73,84,72,83,67,79,82,69,83]]) zStore1 0 none
    = some [Tok.arr 2, Tok.bulk [97], Tok.bulk [49]] := by decide +kernel
/-- `ZSCAN k 0` → `*2 $0 *2 $a $1` -/
example : tokensOf (Handler3.zScan [[107], [48]]) zStore1 0 none
    = some [Tok.arr 2, Tok.bulk [48], Tok.arr 2, Tok.bulk [97], Tok.bulk [49]] := by decide +kernel
/-- `SSCAN s 0` → `*2 $0 *1 $x` -/
example : tokensOf (Handler3.sScan [[115], [48]]) sStore1 0 none
    = some [Tok.arr 2, Tok.bulk [48], Tok.arr 1, Tok.bulk [120]] := by decide +kernel
/-- `HSCAN h 0` → `*2 $0 *2 $f $v` -/
example : tokensOf (Handler3.hScan [[104], [48]]) hStore1 0 none
    = some [Tok.arr 2, Tok.bulk [48], Tok.arr 2, Tok.bulk [102], Tok.bulk [118]] := by decide +kernel
/-- `ZREVRANK k` (one argument): the closure indexes `cmd.Args[1]`, panics before writing anything,
    and the recovered panic is the single reply -/
example : tokensOf (Handler3.zRevRank [[107]]) zStore1 0 none = some [Tok.err 1] := by decide +kernel
/-- `ZUNIONSTORE d 1 k` → `:1` -/
example : tokensOf (Handler3.zStore true [[100], [49], [107]]) zStore1 0 none = some [Tok.int 1] := by
  decide +kernel
/-- a wrong-typed key: `ZRANGE s 0 -1 WITHSCORES` on a set panics
    inside `Api.zrange` BEFORE the array header is written: one error, not an incomplete array -/
example : tokensOf (Handler3.zRange [[115], [48], [45,49], [87,73,84,72,83,67,79,82,69,83]]) sStore1 0 none
    = some [Tok.err 1] := by decide +kernel

/- UNPROVED: nothing. Every handler of `Handler3.table3` and both fixtures have their
   `one_reply_<handler>` theorem at full strength; no finding: the three places where the model could
   write zero tokens or an incomplete array (`| .hang => done s []` in Z*STORE, `| _ => done s []` in
   the three scans, `none :: _ => panicOut s acc` in the WITHSCORES loop) are dead, by the API shape
   facts `zstore_out`, `sscan_out`, `hscan_out`, `zscan_out`, `zrange_out`, `zrangeByScore_out`. -/

end NodisVerif.Proofs.C16Table3
