import NodisVerif.Proofs.SkiplistRun
/-
  The header node's own fields: `makeSkiplist` creates the header (heap index 0) with score 0, member "" and
  backward nil, and no operation of ds/zset/skiplist.go ever writes them. `IsChain` does not say so (it only talks
  about the header's level slots), but `getByRank 0` returns the header, so the item a caller reads from it
  (finding A-41b) depends on it. `HeaderOk` is the missing clause; it is preserved by every mutating operation.

  Score / member are kept for purely syntactic reasons (`modLevel`, `setBackward`, append never touch them). The
  backward pointer is only written by `setBackward` on (a) the freshly appended node (index = old heap length ≥ 1) and
  (b) a node that is the level-0 forward of a node of the chain, which under the invariant is itself a node of the
  chain and therefore not index 0 (`IsChain.nodup`).
-/
namespace NodisVerif.Skiplist
open NodisVerif.DsZSet (Item nodeLt)
open NodisVerif.Proofs.C04 (ILt)
open NodisVerif.Proofs.ZSetLemmas (Good)

/-- heap index 0 holds a node with the fields `makeSkiplist` gave it -/
def Hdr (h : List Node) : Prop := ∃ hd, h[0]? = some hd ∧ hd.score = 0 ∧ hd.member = [] ∧ hd.backward = none

/-- the header node still has score 0, member "" and backward nil -/
def HeaderOk (sl : SL) : Prop := ∃ hd, sl.heap[0]? = some hd ∧ hd.score = 0 ∧ hd.member = [] ∧ hd.backward = none

theorem headerOk_iff (sl : SL) : HeaderOk sl ↔ Hdr sl.heap := Iff.rfl

theorem makeSkiplist_headerOk : HeaderOk makeSkiplist :=
  ⟨newNode maxLevel 0 [], rfl, rfl, rfl, rfl⟩

namespace Header

/-! ### the heap primitives -/

theorem hdr_pos {h : List Node} (hh : Hdr h) : 0 < h.length := by
  obtain ⟨hd, h0, _⟩ := hh
  exact (List.getElem?_eq_some_iff.1 h0).1

theorem modLevel_ok {h h' : List Node} {n i : Nat} {f : Level → Level} (hr : modLevel h n i f = .ok h') :
    ∃ nd l, h[n]? = some nd ∧ nd.level[i]? = some l ∧ h' = h.set n { nd with level := nd.level.set i (f l) } := by
  unfold modLevel at hr
  cases hn : h[n]? with
  | none => simp [hn, throw, throwThe, MonadExceptOf.throw] at hr
  | some nd =>
    cases hl : nd.level[i]? with
    | none => simp [hn, hl, throw, throwThe, MonadExceptOf.throw] at hr
    | some l =>
      simp [hn, hl, pure, Except.pure] at hr
      exact ⟨nd, l, rfl, hl, hr.symm⟩

theorem setBackward_ok {h h' : List Node} {n : Nat} {b : Option Nat} (hr : setBackward h n b = .ok h') :
    ∃ nd, h[n]? = some nd ∧ h' = h.set n { nd with backward := b } := by
  unfold setBackward at hr
  cases hn : h[n]? with
  | none => simp [hn, throw, throwThe, MonadExceptOf.throw] at hr
  | some nd =>
    simp [hn, pure, Except.pure] at hr
    exact ⟨nd, rfl, hr.symm⟩

theorem modLevel_hdr {h h' : List Node} {n i : Nat} {f : Level → Level} (hr : modLevel h n i f = .ok h')
    (hh : Hdr h) : Hdr h' := by
  obtain ⟨nd, l, hn, hl, rfl⟩ := modLevel_ok hr
  obtain ⟨hd, h0, e1, e2, e3⟩ := hh
  by_cases hz : n = 0
  · subst hz
    rw [h0] at hn; cases hn
    have := (List.getElem?_eq_some_iff.1 h0).1
    exact ⟨{ nd with level := nd.level.set i (f l) }, by simp [this], e1, e2, e3⟩
  · exact ⟨hd, by simp [hz, h0], e1, e2, e3⟩

theorem modLevel_length {h h' : List Node} {n i : Nat} {f : Level → Level} (hr : modLevel h n i f = .ok h') :
    h'.length = h.length := by
  obtain ⟨nd, l, hn, hl, rfl⟩ := modLevel_ok hr
  simp

theorem setBackward_hdr {h h' : List Node} {n : Nat} {b : Option Nat} (hr : setBackward h n b = .ok h')
    (hn0 : n ≠ 0) (hh : Hdr h) : Hdr h' := by
  obtain ⟨nd, hn, rfl⟩ := setBackward_ok hr
  obtain ⟨hd, h0, e1, e2, e3⟩ := hh
  exact ⟨hd, by simp [hn0, h0], e1, e2, e3⟩

theorem setBackward_getLevel {h h' : List Node} {n : Nat} {b : Option Nat} (hr : setBackward h n b = .ok h')
    (x j : Nat) : getLevel h' x j = getLevel h x j := by
  obtain ⟨nd, hn, rfl⟩ := setBackward_ok hr
  unfold getLevel
  by_cases hx : n = x
  · subst hx
    obtain ⟨hlt, rfl⟩ := List.getElem?_eq_some_iff.1 hn
    simp [hlt]
  · simp [hx]

theorem append_hdr {h : List Node} (x : Node) (hh : Hdr h) : Hdr (h ++ [x]) := by
  obtain ⟨hd, h0, e⟩ := hh
  have := (List.getElem?_eq_some_iff.1 h0).1
  exact ⟨hd, by rw [List.getElem?_append_left this]; exact h0, e⟩

/-! ### the loops that only call `modLevel` -/

theorem extendLevels_hdr (len : Int) : ∀ (k i : Nat) (h : List Node) (u : List (Option Nat)) (r : List Int)
    (res : List Node × List (Option Nat) × List Int),
    extendLevels len k i h u r = .ok res → Hdr h → Hdr res.1 ∧ res.1.length = h.length := by
  intro k
  induction k with
  | zero =>
    intro i h u r res hr hh
    simp [extendLevels, pure, Except.pure] at hr
    subst hr
    exact ⟨hh, rfl⟩
  | succ k ih =>
    intro i h u r res hr hh
    simp only [extendLevels, bind, Except.bind] at hr
    split at hr
    · cases hr
    split at hr
    · cases hr
    split at hr
    · cases hr
    rename_i h1 hm
    obtain ⟨a, b⟩ := ih _ _ _ _ _ hr (modLevel_hdr hm hh)
    exact ⟨a, by rw [b, modLevel_length hm]⟩

theorem linkLevels_hdr (new : Nat) (update : List (Option Nat)) (rank : List Int) : ∀ (k i : Nat) (h h' : List Node),
    linkLevels new update rank k i h = .ok h' → Hdr h → Hdr h' := by
  intro k
  induction k with
  | zero =>
    intro i h h' hr hh
    simp [linkLevels, pure, Except.pure] at hr
    subst hr
    exact hh
  | succ k ih =>
    intro i h h' hr hh
    simp only [linkLevels, bind, Except.bind] at hr
    split at hr
    · cases hr
    split at hr
    · cases hr
    split at hr
    · cases hr
    split at hr
    · cases hr
    split at hr
    · cases hr
    rename_i h1 hm1
    split at hr
    · cases hr
    rename_i h2 hm2
    exact ih _ _ _ hr (modLevel_hdr hm2 (modLevel_hdr hm1 hh))

theorem bumpLevels_hdr (update : List (Option Nat)) : ∀ (k i : Nat) (h h' : List Node),
    bumpLevels update k i h = .ok h' → Hdr h → Hdr h' := by
  intro k
  induction k with
  | zero =>
    intro i h h' hr hh
    simp [bumpLevels, pure, Except.pure] at hr
    subst hr
    exact hh
  | succ k ih =>
    intro i h h' hr hh
    simp only [bumpLevels, bind, Except.bind] at hr
    split at hr
    · cases hr
    split at hr
    · cases hr
    rename_i h1 hm1
    exact ih _ _ _ hr (modLevel_hdr hm1 hh)

open Unlink in
/-- `unlinkLevels node` keeps the header fields, and every forward pointer of `node` itself (it only redirects links
    INTO `node`; were `node` its own `update[i]`, the new forward would be the old one) -/
theorem unlinkLevels_hdr (node : Nat) (update : List (Option Nat)) : ∀ (k i : Nat) (h h' : List Node),
    unlinkLevels node update k i h = .ok h' → Hdr h →
    Hdr h' ∧ ∀ j l', lvAt h' node j = some l' → ∃ l, lvAt h node j = some l ∧ l.forward = l'.forward := by
  intro k
  induction k with
  | zero =>
    intro i h h' hr hh
    simp [unlinkLevels, pure, Except.pure] at hr
    subst hr
    exact ⟨hh, fun j l' hl => ⟨l', hl, rfl⟩⟩
  | succ k ih =>
    intro i h h' hr hh
    simp only [unlinkLevels, bind, Except.bind] at hr
    split at hr
    · cases hr
    rename_i u hu
    split at hr
    · cases hr
    rename_i lu hlu
    have hlu' : lvAt h u i = some lu := (getLevel_ok_lvAt _ _ _ _).1 hlu
    split at hr
    · rename_i hf
      split at hr
      · cases hr
      rename_i ln hln
      have hln' : lvAt h node i = some ln := (getLevel_ok_lvAt _ _ _ _).1 hln
      split at hr
      · cases hr
      rename_i h1 hm1
      obtain ⟨h1', hm1', _, _, hlv⟩ :=
        Unlink.modLevel_spec (fun l => { forward := ln.forward, span := l.span + (ln.span - 1) }) hlu'
      rw [hm1] at hm1'; cases hm1'
      obtain ⟨a, b⟩ := ih _ _ _ hr (modLevel_hdr hm1 hh)
      refine ⟨a, fun j l' hl => ?_⟩
      obtain ⟨l1, hl1, e1⟩ := b j l' hl
      rw [hlv] at hl1
      by_cases hc : node = u ∧ j = i
      · rw [if_pos hc] at hl1
        cases hl1
        obtain ⟨_, rfl⟩ := hc
        exact ⟨ln, hln', e1⟩
      · rw [if_neg hc] at hl1
        exact ⟨l1, hl1, e1⟩
    · split at hr
      · cases hr
      rename_i h1 hm1
      obtain ⟨h1', hm1', _, _, hlv⟩ := Unlink.modLevel_spec (fun l => { l with span := l.span - 1 }) hlu'
      rw [hm1] at hm1'; cases hm1'
      obtain ⟨a, b⟩ := ih _ _ _ hr (modLevel_hdr hm1 hh)
      refine ⟨a, fun j l' hl => ?_⟩
      obtain ⟨l1, hl1, e1⟩ := b j l' hl
      rw [hlv] at hl1
      by_cases hc : node = u ∧ j = i
      · rw [if_pos hc] at hl1
        cases hl1
        obtain ⟨rfl, rfl⟩ := hc
        exact ⟨lu, hlu', e1⟩
      · rw [if_neg hc] at hl1
        exact ⟨l1, hl1, e1⟩

/-! ### `removeNode` -/

open Unlink in
/-- `removeNode` keeps the header fields as soon as the level-0 forward of the node removed is not the header -/
theorem removeNode_hdr {sl sl' : SL} {n : Nat} {update : List (Option Nat)}
    (hr : removeNode sl n update = .ok sl') (hh : Hdr sl.heap)
    (hf : ∀ l f, getLevel sl.heap n 0 = .ok l → l.forward = some f → f ≠ 0) : Hdr sl'.heap := by
  simp only [removeNode, bind, Except.bind] at hr
  split at hr
  · cases hr
  rename_i h1 hu
  obtain ⟨hh1, hfw1⟩ := unlinkLevels_hdr n update _ _ _ _ hu hh
  split at hr
  · cases hr
  rename_i nd hnd
  split at hr
  · cases hr
  rename_i l0 hl0
  obtain ⟨l, hl, hlf⟩ := hfw1 0 l0 ((getLevel_ok_lvAt _ _ _ _).1 hl0)
  cases hfw : l0.forward with
  | none =>
    simp only [hfw, pure, Except.pure] at hr
    split at hr
    · cases hr
    cases hr
    exact hh1
  | some f =>
    simp only [hfw, pure, Except.pure] at hr
    split at hr
    · cases hr
    rename_i h2 hs
    split at hr
    · cases hr
    cases hr
    exact setBackward_hdr hs (hf l f (getLevel_of_lvAt hl) (by rw [hlf, hfw])) hh1

/-! ### forwards of chain nodes stay inside the chain -/

theorem linked_fwd_mem {h : List Node} : ∀ (R : List Nat) (a : Nat), Linked h (a :: R) → ∀ n ∈ a :: R,
    ∀ (i : Nat) (l : Level) (f : Nat), getLevel h n i = .ok l → l.forward = some f → f ∈ R := by
  intro R
  induction R with
  | nil =>
    intro a hl n hn i l f hg hf
    simp at hn; subst hn
    have := (hl.1 i l hg).1
    rw [hf] at this
    simp at this
  | cons b R ih =>
    intro a hl n hn i l f hg hf
    rcases List.mem_cons.1 hn with rfl | hn
    · have := (hl.1 i l hg).1
      rw [hf] at this
      exact List.mem_of_find?_eq_some this.symm
    · exact List.mem_cons_of_mem _ (ih b hl.2 n hn i l f hg hf)

/-- under the invariant, no link of the header or of a node of the chain points to the header -/
theorem fwd_ne_zero {sl : SL} {c : List Nat} (hc : IsChain sl c) {n : Nat} (hn : n ∈ 0 :: c) {i : Nat} {l : Level}
    {f : Nat} (hg : getLevel sl.heap n i = .ok l) (hf : l.forward = some f) : f ∈ c ∧ f ≠ 0 := by
  have hm := linked_fwd_mem c 0 hc.linked n hn i l f hg hf
  refine ⟨hm, ?_⟩
  rintro rfl
  have := hc.nodup
  simp at this
  exact this.1 hm

theorem removeNode_headerOk {sl sl' : SL} {c : List Nat} (hc : IsChain sl c) {n : Nat} (hn : n ∈ c)
    {update : List (Option Nat)} (hh : HeaderOk sl) (hr : removeNode sl n update = .ok sl') : HeaderOk sl' :=
  removeNode_hdr hr hh (fun _ _ hg hf => (fwd_ne_zero hc (List.mem_cons_of_mem _ hn) hg hf).2)

/-! ### the two removal loops -/

theorem removeRankLoop_headerOk (stop : Int) (update : List (Option Nat)) :
    ∀ (C A : List Nat) (sl : SL) (fuel : Nat) (i : Int) (removed : List Item) (res : SL × List Item),
      IsChain sl (A ++ C) → UpdateFor sl.heap sl.level (0 :: A) update → HeaderOk sl →
      removeRankLoop stop update fuel sl C.head? i removed = .ok res → HeaderOk res.1 := by
  intro C
  induction C with
  | nil =>
    intro A sl fuel i removed res _ _ hh hr
    cases fuel with
    | zero => simp [removeRankLoop, throw, throwThe, MonadExceptOf.throw] at hr
    | succ f =>
      simp [removeRankLoop, pure, Except.pure] at hr
      subst hr; exact hh
  | cons n C ih =>
    intro A sl fuel i removed res hc hupd hh hr
    cases fuel with
    | zero => simp [removeRankLoop, throw, throwThe, MonadExceptOf.throw] at hr
    | succ f =>
      obtain ⟨nd, l0, sl1, hnd, hitem, hl0, hf, hrem, hc1, hupd1, _, _, _⟩ := remove_step hc update hupd
      have hh1 := removeNode_headerOk hc (by simp) hh hrem
      simp only [List.head?_cons, removeRankLoop] at hr
      by_cases hi : i ≤ stop
      · simp [hi, bind, Except.bind, hnd, hl0, hrem, hf] at hr
        exact ih A sl1 f (i + 1) _ res hc1 hupd1 hh1 hr
      · simp [hi, pure, Except.pure] at hr
        subst hr; exact hh

theorem removeRangeLoop_headerOk (max : F64) (limit : Int) (mode : Nat) (update : List (Option Nat)) :
    ∀ (C A : List Nat) (sl : SL) (fuel : Nat) (removed : List Item) (res : SL × List Item),
      IsChain sl (A ++ C) → UpdateFor sl.heap sl.level (0 :: A) update → HeaderOk sl →
      removeRangeLoop max limit mode update fuel sl C.head? removed = .ok res → HeaderOk res.1 := by
  intro C
  induction C with
  | nil =>
    intro A sl fuel removed res _ _ hh hr
    cases fuel with
    | zero => simp [removeRangeLoop, throw, throwThe, MonadExceptOf.throw] at hr
    | succ f =>
      simp [removeRangeLoop, pure, Except.pure] at hr
      subst hr; exact hh
  | cons n C ih =>
    intro A sl fuel removed res hc hupd hh hr
    cases fuel with
    | zero => simp [removeRangeLoop, throw, throwThe, MonadExceptOf.throw] at hr
    | succ f =>
      obtain ⟨nd, l0, sl1, hnd, hitem, hl0, hf, hrem, hc1, hupd1, _, _, _⟩ := remove_step hc update hupd
      have hh1 := removeNode_headerOk hc (by simp) hh hrem
      simp only [List.head?_cons, removeRangeLoop] at hr
      by_cases hst : maxStop max mode nd = true
      · simp [bind, Except.bind, hnd, hst, pure, Except.pure] at hr
        subst hr; exact hh
      · have hst' : maxStop max mode nd = false := by simpa using hst
        simp only [bind, Except.bind, hnd, hst', Bool.false_eq_true, if_false, hl0, hrem] at hr
        by_cases hlim : limit > 0 ∧ (((nd.item :: removed).length : Nat) : Int) = limit
        · rw [if_pos hlim] at hr
          cases hr; exact hh1
        · rw [if_neg hlim, hf] at hr
          exact ih A sl1 f _ res hc1 hupd1 hh1 hr

open Remove in
/-- the search condition of `remove` cuts the chain at some position (first half of `remove_refines`) -/
theorem remove_cond {sl : SL} {c : List Nat} (hc : IsChain sl c) (m : Bytes) (s : F64) :
    ∃ k, CondUpTo sl c (lessCond m s) k := by
  have hpw := List.pairwise_map.1 hc.sorted
  obtain ⟨C1, C2, hsp, hC1, hC2⟩ :=
    split_prefix (fun a b => ILt (itemAt sl.heap a) (itemAt sl.heap b))
      (fun y => nodeLt (itemAt sl.heap y) s m) c hpw
      (fun a ha b hb hab hlt => less_closed m s _ _ (hc.good a ha) (hc.good b hb) hab hlt)
  refine ⟨C1.length, ?_⟩
  intro q n nd hq hn h1
  have hq' : c[q - 1]? = some n := by
    rw [List.getElem?_cons] at hq
    have : ¬ q = 0 := by omega
    simpa [this] using hq
  rw [hsp, List.getElem?_append] at hq'
  show nodeLt nd.item s m = decide (q ≤ C1.length)
  rw [← itemAt_of_getElem hn]
  by_cases hlt : q - 1 < C1.length
  · rw [if_pos hlt] at hq'
    have := hC1 n (List.mem_iff_getElem?.2 ⟨_, hq'⟩)
    simp only [this]
    exact (decide_eq_true (by omega)).symm
  · rw [if_neg hlt] at hq'
    have := hC2 n (List.mem_iff_getElem?.2 ⟨_, hq'⟩)
    simp only [this]
    exact (decide_eq_false (by omega)).symm

/-! ### `insert` -/

theorem extendBranch_hdr {sl : SL} {lvl : Nat} {u : List (Option Nat)} {r : List Int}
    {t : List Node × List (Option Nat) × List Int × Nat} (hr : extendBranch sl lvl u r = .ok t) (hh : Hdr sl.heap) :
    Hdr t.1 ∧ t.1.length = sl.heap.length := by
  unfold extendBranch at hr
  by_cases hl : lvl > sl.level
  · simp only [hl, if_true, bind, Except.bind] at hr
    split at hr
    · cases hr
    rename_i v hv
    cases hr
    exact extendLevels_hdr _ _ _ _ _ _ _ hv hh
  · simp only [hl, if_false, pure, Except.pure] at hr
    cases hr
    exact ⟨hh, rfl⟩

theorem insertTail_hdr {sl sl' : SL} {m : Bytes} {s : F64} {lvl : Nat} {h : List Node} {u : List (Option Nat)}
    {r : List Int} {level : Nat} (hr : insertTail sl m s lvl h u r level = .ok sl') (hh : Hdr h)
    (hf : ∀ l f, getLevel sl'.heap h.length 0 = .ok l → l.forward = some f → f ≠ 0) : Hdr sl'.heap := by
  simp only [insertTail, bind, Except.bind] at hr
  split at hr
  · cases hr
  rename_i h1 hk1
  split at hr
  · cases hr
  rename_i h2 hk2
  split at hr
  · cases hr
  rename_i u0 hu0
  split at hr
  · cases hr
  rename_i h3 hk3
  split at hr
  · cases hr
  rename_i l0 hl0
  have hh3 : Hdr h3 :=
    setBackward_hdr hk3 (by have := hdr_pos hh; omega)
      (bumpLevels_hdr _ _ _ _ _ hk2 (linkLevels_hdr _ _ _ _ _ _ _ hk1 (append_hdr _ hh)))
  cases hfw : l0.forward with
  | none =>
    simp only [hfw, pure, Except.pure] at hr
    cases hr
    exact hh3
  | some f =>
    simp only [hfw, pure, Except.pure] at hr
    split at hr
    · cases hr
    rename_i h4 hk4
    cases hr
    refine setBackward_hdr hk4 (hf l0 f ?_ hfw) hh3
    show getLevel h4 h.length 0 = .ok l0
    rw [setBackward_getLevel hk4]
    exact hl0

theorem insert_hdr {sl sl' : SL} {m : Bytes} {s : F64} {lvl : Nat} (hr : insert sl m s lvl = .ok sl')
    (hh : Hdr sl.heap)
    (hf : ∀ l f, getLevel sl'.heap sl.heap.length 0 = .ok l → l.forward = some f → f ≠ 0) : Hdr sl'.heap := by
  rw [insert_eq] at hr
  simp only [bind, Except.bind] at hr
  split at hr
  · cases hr
  split at hr
  · cases hr
  rename_i t ht
  obtain ⟨h1, h2⟩ := extendBranch_hdr ht hh
  exact insertTail_hdr hr h1 (by rw [h2]; exact hf)

end Header

open Header

/-! ### the operations -/

theorem insert_headerOk {sl : SL} (h : Inv sl) (hh : HeaderOk sl) (m : Bytes) (s : F64) (lvl : Nat) (hl1 : 1 ≤ lvl)
    (hl2 : lvl ≤ maxLevel) (hs : F64.isNaN s = false) (hm : ∀ x ∈ abs sl, x.2 ≠ m) (sl' : SL)
    (hr : insert sl m s lvl = .ok sl') : HeaderOk sl' := by
  obtain ⟨c, hc⟩ := h
  rw [abs_eq hc] at hm
  obtain ⟨sl'', e, hc', _, _⟩ := insert_isChain hc m s lvl hl1 hl2 hs
    (fun n hn => hm _ (List.mem_map.2 ⟨n, hn, rfl⟩))
  rw [hr] at e; cases e
  exact insert_hdr hr hh (fun l f hg hf => (fwd_ne_zero hc' (by simp) hg hf).2)

theorem remove_headerOk {sl : SL} (h : Inv sl) (hh : HeaderOk sl) (m : Bytes) (s : F64) (sl' : SL) (b : Bool)
    (hr : remove sl m s = .ok (sl', b)) : HeaderOk sl' := by
  obtain ⟨c, hc⟩ := h
  obtain ⟨k, hcond⟩ := remove_cond hc m s
  obtain ⟨x, acc, update, rank, l0, hs, hupd, hacc, hl0, hf⟩ := search_split hc _ _ hcond
  simp only [remove, bind, Except.bind, hs, hl0] at hr
  cases hfw : l0.forward with
  | none =>
    simp only [hfw, pure, Except.pure] at hr
    cases hr; exact hh
  | some n =>
    have hn : n ∈ c := by
      rw [hfw] at hf
      exact List.mem_of_mem_drop (List.mem_of_mem_head? hf.symm)
    simp only [hfw] at hr
    split at hr
    · cases hr
    rename_i nd hnd
    split at hr
    · split at hr
      · cases hr
      rename_i sl1 hrem
      cases hr
      exact removeNode_headerOk hc hn hh hrem
    · cases hr; exact hh

theorem removeRangeByRank_headerOk {sl : SL} (h : Inv sl) (hh : HeaderOk sl) (start stop : Int) (sl' : SL)
    (removed : List Item) (hr : removeRangeByRank sl start stop = .ok (sl', removed)) : HeaderOk sl' := by
  obtain ⟨c, hc⟩ := h
  have hcond : CondUpTo sl c (startCond start) (start - 1).toNat := by
    intro q n nd _ _ hq
    simp only [startCond, decide_eq_decide]
    omega
  obtain ⟨x, acc, update, rank, l0, hs, hupd, hacc, hl0, hf⟩ := search_split hc _ _ hcond
  simp only [removeRangeByRank, bind, Except.bind, hs, hl0, hf] at hr
  exact removeRankLoop_headerOk stop update (c.drop (start - 1).toNat) (c.take (start - 1).toNat) sl _ _ _ _
    (by rw [List.take_append_drop]; exact hc) hupd hh hr

theorem removeRange_headerOk {sl : SL} (h : Inv sl) (hh : HeaderOk sl) (min max : F64) (limit : Int) (mode : Nat)
    (sl' : SL) (removed : List Item) (hr : removeRange sl min max limit mode = .ok (sl', removed)) :
    HeaderOk sl' := by
  obtain ⟨c, hc⟩ := h
  obtain ⟨x, acc, update, rank, l0, hs, hupd, hacc, hl0, hf⟩ := search_split hc _ _ (condUpTo_min hc min mode)
  simp only [removeRange, bind, Except.bind, hs, hl0, hf] at hr
  exact removeRangeLoop_headerOk max limit mode update (c.drop _) (c.take _) sl _ _ _
    (by rw [List.take_append_drop]; exact hc) hupd hh hr

/-! ### runs -/

theorem step_headerOk {sl : SL} (h : Inv sl) (hh : HeaderOk sl) (op : SlOp) (hok : OpOk (abs sl) op) (sl' : SL)
    (hr : stepM sl op = .ok sl') : HeaderOk sl' := by
  cases op with
  | insert m s lvl =>
    obtain ⟨h1, h2, h3, h4⟩ := hok
    exact insert_headerOk h hh m s lvl h1 h2 h3 h4 sl' hr
  | remove m s =>
    simp only [stepM, Except.map] at hr
    split at hr
    · cases hr
    rename_i v hv
    cases hr
    exact remove_headerOk h hh m s v.1 v.2 hv
  | removeRange a b mode =>
    simp only [stepM, Except.map] at hr
    split at hr
    · cases hr
    rename_i v hv
    cases hr
    exact removeRange_headerOk h hh a b 0 mode v.1 v.2 hv
  | removeRangeByRank a b =>
    simp only [stepM, Except.map] at hr
    split at hr
    · cases hr
    rename_i v hv
    cases hr
    exact removeRangeByRank_headerOk h hh a b v.1 v.2 hv

/-- every state reachable from a state with the invariant and an intact header has an intact header -/
theorem run_headerOk : ∀ (ops : List SlOp) {sl sl' : SL}, Inv sl → HeaderOk sl → OpsOk (abs sl) ops →
    runM sl ops = .ok sl' → HeaderOk sl' := by
  intro ops
  induction ops with
  | nil =>
    intro sl sl' _ hh _ hr
    simp only [runM, pure, Except.pure] at hr
    cases hr; exact hh
  | cons op ops ih =>
    intro sl sl' h hh hok hr
    obtain ⟨hop, hrest⟩ := hok
    obtain ⟨sl1, he, hi, ha⟩ := step_refines h op hop
    rw [← ha] at hrest
    simp only [runM, bind, Except.bind, he] at hr
    exact ih hi (step_headerOk h hh op hop sl1 he) hrest hr

/-- from `makeSkiplist()` -/
theorem run_headerOk_from_empty (ops : List SlOp) (hok : OpsOk [] ops) {sl : SL}
    (hr : runM makeSkiplist ops = .ok sl) : HeaderOk sl :=
  run_headerOk ops makeSkiplist_inv makeSkiplist_headerOk (by rw [abs_makeSkiplist]; exact hok) hr

/-! ### what `getByRank 0` returns -/

theorem headerOk_itemAt {sl : SL} (hh : HeaderOk sl) : itemAt sl.heap 0 = DsZSet.headerItem := by
  obtain ⟨hd, h0, e1, e2, _⟩ := hh
  simp [itemAt, h0, Node.item, e1, e2, DsZSet.headerItem]

/-- `getByRank_item` for every rank: with an intact header, the node `getByRank` returns carries the item of the list
    model's cursor also for `r = 0` (the header: score 0, empty member) -/
theorem getByRank_item_all {sl : SL} {c : List Nat} (hc : IsChain sl c) (hh : HeaderOk sl) (r : Int) :
    ∃ o, getByRank sl r = .ok o ∧ o.map (itemAt sl.heap) = (DsZSet.getByRank (abs sl) r).map (·.cur) := by
  by_cases hr : r = 0
  · subst hr
    refine ⟨_, getByRank_spec hc 0, ?_⟩
    simp [DsZSet.getByRank, headerOk_itemAt hh]
  · exact getByRank_item hc r hr

end NodisVerif.Skiplist
