import NodisVerif.Proofs.BlockProgSimB
/-
  Per-pc simulation lemmas, part C: the push (p1 ... p7); then all pcs together (`step_sim`), the local flag
  invariant, and the induction over a schedule (`reach_sim`).
-/
namespace NodisVerif.Proofs.BlockProg
open NodisVerif.Block NodisVerif.BlockProg NodisVerif.Proofs.Block

variable {σ : Sys} {bs : BState} {t : Tid} {ch : Choice} {s' : Shared} {l' : Loc} {e : Option Ev}

/-- a silent step of a push that touches neither the registry, nor its lock, nor a channel -/
theorem push_silent (hI : Inv σ bs) (hfull : s'.full = σ.sh.full) (hreg : s'.registry = σ.sh.registry)
    (hmu : s'.bmu = σ.sh.bmu) (hp : PRel (σ.sh.full t) l' none → True)
    (hnone : get bs t = none) (hP : PRel (s'.full t) l' none)
    (hW : holdsW l'.pc = holdsW (σ.thr t).pc) (hR : holdsR l'.pc = holdsR (σ.thr t).pc)
    (hK : regKeys l' = regKeys (σ.thr t)) (hT : TodoRel s' l') : SimGoal σ bs t s' l' none := by
  refine ⟨bs, rfl, frame_same hI (fun _ _ => by rw [hfull]) (fun _ _ => rfl) hreg hmu (hnone ▸ hP) ?_ ?_ hT⟩
  · have := hI.lrel t
    simpa [LRel, hmu, hW, hR] using this
  · have := hI.crel t
    intro k
    simpa [CRel, Shared.regOf, hreg, hK] using this k

theorem sim_p1 (hI : Inv σ bs) (hpc : (σ.thr t).pc = .p1)
    (h : tstep σ.sh t (σ.thr t) ch = some (s', l', e)) : SimGoal σ bs t s' l' e := by
  have hP := hI.prel t
  simp only [PRel, hpc] at hP
  simp only [tstep, hpc] at h
  split at h
  · simp at h
  split at h
  · simp only [Option.some.injEq, Prod.mk.injEq] at h
    obtain ⟨rfl, rfl, rfl⟩ := h
    exact push_silent hI rfl rfl rfl (fun _ => trivial) hP (by simp [PRel]) (by simp [hpc, holdsW])
      (by simp [hpc, holdsR]) (by simp [regKeys, hpc]) (by simp [TodoRel])
  · simp only [Option.some.injEq, Prod.mk.injEq] at h
    obtain ⟨rfl, rfl, rfl⟩ := h
    exact push_silent hI rfl rfl rfl (fun _ => trivial) hP (by simp [PRel]) (by simp [hpc, holdsW])
      (by simp [hpc, holdsR]) (by simp [regKeys, hpc]) (by simp [TodoRel])

theorem sim_p2 (hI : Inv σ bs) (hpc : (σ.thr t).pc = .p2)
    (h : tstep σ.sh t (σ.thr t) ch = some (s', l', e)) : SimGoal σ bs t s' l' e := by
  have hP := hI.prel t; have hC := hI.crel t
  simp only [PRel, hpc] at hP
  simp only [CRel, regKeys, hpc] at hC
  simp only [tstep, hpc] at h
  split at h
  · rename_i hcan
    simp only [Mu.canRLock, Option.isNone_iff_eq_none] at hcan
    simp only [Option.some.injEq, Prod.mk.injEq] at h
    obtain ⟨rfl, rfl, rfl⟩ := h
    refine ⟨bs, rfl, frame hI (fun t' _ => hI.prel t') (fun _ _ _ => rfl) (fun _ _ => Iff.rfl)
      (fun t' ht => by simp [ht]) (Or.inl fun _ _ h => h) ?_ ?_ ?_ (by simp [TodoRel]) (fun h => absurd hcan h)⟩
    · simpa [PRel] using hP
    · simp [LRel, holdsW, holdsR, hcan]
    · simpa [CRel, regKeys, Shared.regOf] using hC
  · simp at h

theorem sim_p3 (hI : Inv σ bs) (hpc : (σ.thr t).pc = .p3)
    (h : tstep σ.sh t (σ.thr t) ch = some (s', l', e)) : SimGoal σ bs t s' l' e := by
  have hP := hI.prel t
  simp only [PRel, hpc] at hP
  simp only [tstep, hpc] at h
  cases hr : σ.sh.registry (σ.thr t).key with
  | none =>
    simp only [hr, Option.some.injEq, Prod.mk.injEq] at h
    obtain ⟨rfl, rfl, rfl⟩ := h
    exact push_silent hI rfl rfl rfl (fun _ => trivial) hP (by simp [PRel]) (by simp [hpc, holdsW])
      (by simp [hpc, holdsR]) (by simp [regKeys, hpc]) (by simp [TodoRel])
  | some cl =>
    simp only [hr, Option.some.injEq, Prod.mk.injEq] at h
    obtain ⟨rfl, rfl, rfl⟩ := h
    refine push_silent hI rfl rfl rfl (fun _ => trivial) hP ?_ ?_ ?_ ?_ ?_
    · split <;> simp [PRel]
    · split <;> simp [hpc, holdsW]
    · split <;> simp [hpc, holdsR]
    · split <;> simp [regKeys, hpc]
    · intro _ c hc
      simpa [Shared.regOf, hr] using hc

theorem sim_p5 (hI : Inv σ bs) (hpc : (σ.thr t).pc = .p5)
    (h : tstep σ.sh t (σ.thr t) ch = some (s', l', e)) : SimGoal σ bs t s' l' e := by
  have hP := hI.prel t
  simp only [PRel, hpc] at hP
  simp only [tstep, hpc, Option.some.injEq, Prod.mk.injEq] at h
  obtain ⟨rfl, rfl, rfl⟩ := h
  exact push_silent hI rfl rfl rfl (fun _ => trivial) hP (by simp [PRel]) (by simp [hpc, holdsW])
    (by simp [hpc, holdsR]) (by simp [regKeys, hpc]) (by simp [TodoRel])

theorem sim_p7 (hI : Inv σ bs) (hpc : (σ.thr t).pc = .p7)
    (h : tstep σ.sh t (σ.thr t) ch = some (s', l', e)) : SimGoal σ bs t s' l' e := by
  have hP := hI.prel t
  simp only [PRel, hpc] at hP
  simp only [tstep, hpc, Option.some.injEq, Prod.mk.injEq] at h
  obtain ⟨rfl, rfl, rfl⟩ := h
  exact push_silent hI rfl rfl rfl (fun _ => trivial) hP (by simp [PRel]) (by simp [hpc, holdsW])
    (by simp [hpc, holdsR]) (by simp [regKeys, hpc]) (by simp [TodoRel])

theorem sim_p6 (hI : Inv σ bs) (hpc : (σ.thr t).pc = .p6)
    (h : tstep σ.sh t (σ.thr t) ch = some (s', l', e)) : SimGoal σ bs t s' l' e := by
  have hP := hI.prel t; have hC := hI.crel t; have hL := hI.lrel t
  simp only [PRel, hpc] at hP
  simp only [CRel, regKeys, hpc] at hC
  simp only [LRel, hpc, holdsW, holdsR] at hL
  simp only [tstep, hpc, Option.some.injEq, Prod.mk.injEq] at h
  obtain ⟨rfl, rfl, rfl⟩ := h
  refine ⟨bs, rfl, frame hI (fun t' _ => hI.prel t') (fun _ _ _ => rfl) (fun _ _ => Iff.rfl)
    (fun t' ht => by simp [List.mem_filter, ht]) (Or.inl fun _ _ h => h) ?_ ?_ ?_ (by simp [TodoRel]) ?_⟩
  · simpa [PRel] using hP
  · simp only [LRel, holdsW, holdsR]
    refine ⟨by simpa using hL.1, ?_⟩
    simp [List.mem_filter]
  · simpa [CRel, regKeys, Shared.regOf] using hC
  · intro hw
    have := hI.excl hw
    simp [this]

/-- a waiter whose channel is in a cList while somebody holds the registry lock shared is between its registration
    and its unregistration: it exists in the protocol, registered for the key -/
theorem registered_of_mem (hI : Inv σ bs) {p c : Tid} (hp : p ∈ σ.sh.bmu.readers) {k : Key}
    (hc : c ∈ σ.sh.regOf k) :
    ∃ st, get bs c = some st ∧ k ∈ st.reg ∧
      ∀ st', st'.keys = st.keys → st'.reg = st.reg → st'.phase = st.phase → st'.timed = st.timed →
        PRel st'.buf (σ.thr c) (some st') := by
  have hcnt : 0 < (regKeys (σ.thr c)).count k := by
    rw [← hI.crel c k]; exact List.count_pos_iff.2 hc
  have hk : k ∈ regKeys (σ.thr c) := List.count_pos_iff.1 hcnt
  have hnw : σ.sh.bmu.writer ≠ some c := by
    intro hw
    have := hI.excl (by simp [hw])
    simp [this] at hp
  have hW : holdsW (σ.thr c).pc ≠ true := fun h => hnw ((hI.lrel c).1.2 h)
  have hP := hI.prel c
  simp only [regKeys] at hk
  simp only [PRel] at hP ⊢
  cases hpc : (σ.thr c).pc <;> simp only [hpc, holdsW] at hk hP hW ⊢ <;> try (first | exact absurd rfl hW | simp at hk)
  all_goals
    first
    | (obtain ⟨h0, hne, st, hs, hk1, hk2, hb, hph⟩ := hP
       refine ⟨st, hs, by rw [hk2]; exact hk, fun st' e1 e2 e3 e4 => ⟨h0, hne, st', rfl, by rw [e1, hk1], by rw [e2, hk2], rfl, ?_⟩⟩
       simp only [e3, e4]; exact hph)
    | (obtain ⟨hne, st, hs, hk1, hk2, hb, hph⟩ := hP
       refine ⟨st, hs, by rw [hk2]; exact hk, fun st' e1 e2 e3 e4 => ⟨hne, st', rfl, by rw [e1, hk1], by rw [e2, hk2], rfl, ?_⟩⟩
       simp only [e3, e4]; exact hph)

theorem sim_p4 (hI : Inv σ bs) (hpc : (σ.thr t).pc = .p4)
    (h : tstep σ.sh t (σ.thr t) ch = some (s', l', e)) : SimGoal σ bs t s' l' e := by
  have hP := hI.prel t; have hT := hI.todo t hpc; have hL := hI.lrel t
  simp only [PRel, hpc] at hP
  simp only [LRel, hpc, holdsW, holdsR] at hL
  simp only [tstep, hpc] at h
  cases htd : (σ.thr t).todo with
  | nil =>
    simp only [htd, Option.some.injEq, Prod.mk.injEq] at h
    obtain ⟨rfl, rfl, rfl⟩ := h
    exact push_silent hI rfl rfl rfl (fun _ => trivial) hP (by simp [PRel]) (by simp [hpc, holdsW])
      (by simp [hpc, holdsR]) (by simp [regKeys, hpc]) (by simp [TodoRel])
  | cons c rest =>
    simp only [htd, Option.some.injEq, Prod.mk.injEq] at h
    obtain ⟨rfl, rfl, rfl⟩ := h
    rw [htd] at hT
    have hcm : c ∈ σ.sh.regOf (σ.thr t).key := hT c (by simp)
    obtain ⟨st, hs, hkr, hrel⟩ := registered_of_mem hI (hL.2.2 trivial) hcm
    have hct : c ≠ t := by
      intro hct; subst hct; rw [hP] at hs; cases hs
    have hls := (lstep_notify (o := get bs c) (w := c) (k := (σ.thr t).key)).2 ⟨st, hs, hkr, rfl⟩
    refine ⟨_, own_step (ev := .notify c (σ.thr t).key) hls, ?_⟩
    simp only [evW]
    refine frame hI (fun t' ht => ?_) (fun _ _ _ => rfl) (fun _ _ => Iff.rfl) (fun _ _ => Iff.rfl)
      (Or.inl fun _ _ h => h) ?_ ?_ ?_ ?_ hI.excl
    · by_cases htc : t' = c
      · subst htc
        rw [get_put_self]
        simp only [upd_self]
        exact hrel _ rfl rfl rfl rfl
      · rw [get_put_ne _ _ _ _ htc]
        simp only [upd_ne _ _ htc]
        exact hI.prel t'
    · rw [get_put_ne _ _ _ _ (Ne.symm hct), hP]
      split <;> simp [PRel]
    · simp only [LRel]
      split <;> simpa [holdsW, holdsR] using hL
    · have hC := hI.crel t
      simp only [CRel, regKeys, hpc] at hC
      intro k
      have := hC k
      split <;> simpa [regKeys, Shared.regOf] using this
    · intro _ c' hc'
      exact hT c' (List.mem_cons_of_mem _ hc')

/-! ## all pcs -/

theorem tstep_sim (hI : Inv σ bs) (hF : flagsOk (σ.thr t))
    (h : tstep σ.sh t (σ.thr t) ch = some (s', l', e)) : SimGoal σ bs t s' l' e := by
  cases hpc : (σ.thr t).pc
  · exact sim_idle hI hpc h
  · exact sim_r1 hI hpc h
  · exact sim_r2 hI hpc h
  · exact sim_r3 hI hpc h
  · exact sim_l0 hI hpc h
  · exact sim_l1 hI hF hpc h
  · exact sim_l2 hI hpc h
  · exact sim_w0 hI hpc h
  · exact sim_w1 hI hpc h
  · exact sim_u1 hI hpc h
  · exact sim_u2 hI hpc h
  · exact sim_u3 hI hpc h
  · exact sim_p1 hI hpc h
  · exact sim_p2 hI hpc h
  · exact sim_p3 hI hpc h
  · exact sim_p4 hI hpc h
  · exact sim_p5 hI hpc h
  · exact sim_p6 hI hpc h
  · exact sim_p7 hI hpc h

/-- the flags of `look` (local) -/
theorem flags_step {s : Shared} {l : Loc} (hF : flagsOk l) (h : tstep s t l ch = some (s', l', e)) : flagsOk l' := by
  unfold tstep at h
  cases hpc : l.pc <;> simp only [hpc] at h hF
  all_goals (try simp only [flagsOk, hpc] at hF)
  all_goals (repeat' split at h)
  all_goals (try simp only [Option.some.injEq, Prod.mk.injEq, reduceCtorEq] at h)
  all_goals (try (obtain ⟨_, rfl, _⟩ := h))
  all_goals (try simp only [loopPc])
  all_goals (try split)
  all_goals (first | (simp [flagsOk, hF]; done) | (simp [flagsOk]; done) | (simp [flagsOk, hF.1, hF.2]; done) | (simp [flagsOk, hpc]; done) | (simp_all [flagsOk]; done) | (simp_all [flagsOk]; (try intros); first | omega | grind))

theorem step_sim {σ' : Sys} (hI : Inv σ bs) (hF : ∀ t, flagsOk (σ.thr t)) (h : σ.step t ch = some (σ', e)) :
    ∃ bs', stepO bs e = some bs' ∧ Inv σ' bs' ∧ ∀ t, flagsOk (σ'.thr t) := by
  unfold Sys.step at h
  cases hs : tstep σ.sh t (σ.thr t) ch with
  | none => simp [hs] at h
  | some r =>
    obtain ⟨s', l', e'⟩ := r
    simp only [hs, Option.some.injEq, Prod.mk.injEq] at h
    obtain ⟨rfl, rfl⟩ := h
    obtain ⟨bs', h1, h2⟩ := tstep_sim hI (hF t) hs
    refine ⟨bs', h1, h2, fun t' => ?_⟩
    by_cases ht : t' = t
    · subst ht; simpa using flags_step (hF t') hs
    · simpa [upd_ne _ _ ht] using hF t'

/-- THE SIMULATION: the events of every schedule are a run of the protocol, and the final states are related -/
theorem reach_sim {σ : Sys} {es : List Ev} (h : Reach σ es) :
    ∃ bs, runAll [] es = some bs ∧ Inv σ bs ∧ ∀ t, flagsOk (σ.thr t) := by
  induction h with
  | init => exact ⟨[], rfl, inv_init, fun _ => by simp [flagsOk]⟩
  | @step σ σ' es t ch e _ hs ih =>
    obtain ⟨bs, hr, hI, hF⟩ := ih
    obtain ⟨bs', h1, h2, h3⟩ := step_sim hI hF hs
    refine ⟨bs', ?_, h2, h3⟩
    cases e with
    | none => simp only [stepO, Option.some.injEq] at h1; subst h1; simpa using hr
    | some ev =>
      simp only [stepO] at h1
      simp only [Option.toList_some]
      rw [runAll_snoc, hr]; exact h1

end NodisVerif.Proofs.BlockProg
