import NodisVerif.Proofs.C12Sched
/-
  C12: SCAN (with or without TYPE filter) across an eviction pass; C11: across a reopen.
-/
namespace NodisVerif.Proofs.C11
open NodisVerif.Store NodisVerif.Codec NodisVerif.Spec.Persist
open NodisVerif.Proofs.AListLemmas NodisVerif.Proofs.AListLemmas2 NodisVerif.Proofs.C11AList

/-- what SCAN looks at in an index record -/
def ScanRel (now : Int) (a b : Bytes × Meta) : Prop :=
  a.1 = b.1 ∧ a.2.expired now = b.2.expired now ∧ a.2.vtype = b.2.vtype

theorem scan_go_congr (now : Int) (pat : Bytes) (typ : Nat) (keyLen : Int) (f : Bytes × Meta → Bytes × Meta) :
    ∀ (e1 : List (Bytes × Meta)), (∀ p ∈ e1, ScanRel now p (f p)) →
    ∀ (s1 s2 : MState) (cursor iter count : Int) (acc : List Bytes),
      (Api.scan.go now pat typ keyLen e1 s1 cursor iter count acc).2 =
      (Api.scan.go now pat typ keyLen (e1.map f) s2 cursor iter count acc).2 := by
  intro e1
  induction e1 with
  | nil => intro _ s1 s2 cursor iter count acc; rfl
  | cons a l1 ih =>
    intro h s1 s2 cursor iter count acc
    have hab := h a (by simp)
    have ih' := ih (fun p hp => h p (by simp [hp]))
    obtain ⟨k1, m1⟩ := a
    simp only [List.map_cons]
    generalize hfb : f (k1, m1) = b at hab
    obtain ⟨k2, m2⟩ := b
    obtain ⟨hk, he, hv⟩ := hab
    simp only at hk he hv
    subst hk
    unfold Api.scan.go
    simp only [he, hv]
    split
    · exact ih' _ _ _ _ _ _
    · split
      · rfl
      · split
        · rfl
        · split
          · split
            · exact ih' _ _ _ _ _ _
            · exact ih' _ _ _ _ _ _
          · exact ih' _ _ _ _ _ _

theorem scan_congr {s1 s2 : MState} {now : Int} (f : Bytes × Meta → Bytes × Meta)
    (hmap : s2.index = s1.index.map f) (h : ∀ p ∈ s1.index, ScanRel now p (f p))
    (cursor : Int) (pat : Bytes) (count : Int) (typ : Nat) :
    (Api.scan s1 now cursor pat count typ).2 = (Api.scan s2 now cursor pat count typ).2 := by
  have hlen : s2.index.length = s1.index.length := by rw [hmap, List.length_map]
  unfold Api.scan
  simp only [hlen]
  split
  · rfl
  · split
    · rfl
    · have := scan_go_congr now pat typ (s1.index.length : Int) f _ h s1 s2 cursor 0 count []
      rw [← hmap] at this
      generalize Api.scan.go now pat typ (↑s1.index.length) s1.index s1 cursor 0 count [] = r1 at this
      generalize Api.scan.go now pat typ (↑s1.index.length) s2.index s2 cursor 0 count [] = r2 at this
      obtain ⟨a1, b1, c1⟩ := r1
      obtain ⟨a2, b2, c2⟩ := r2
      simp only [Prod.mk.injEq] at this
      simp only [this.1, this.2]

/-- one gc step on a live record keeps its deadline and its cached type -/
theorem gcStep_keeps {s : MState} {t now : Int} (h : StoreInvX s none t) {k : Bytes} {m : Meta}
    (hm : AList.get? s.index k = some m) (hal : m.expired now = false) :
    ∃ m', AList.get? (gcStep now s (k, m)).index k = some m' ∧ m'.exp = m.exp ∧ m'.vtype = m.vtype := by
  have r := h.recs k m hm
  unfold gcStep
  simp only [r.ok, Bool.not_true, Bool.or_false, hal, Bool.false_eq_true, if_false]
  by_cases hmod : m.isModified = true
  · rw [if_pos hmod]
    have hsome : m.value.isSome = true := by
      simp only [Meta.isModified, Bool.and_eq_true] at hmod; exact hmod.1
    obtain ⟨v, hv⟩ := Option.isSome_iff_exists.mp hsome
    have ps := persist_spec h hm hv
    generalize persist s k m = pr at ps
    obtain ⟨s1, m1, ok⟩ := pr
    have rc := ps.recEq
    simp only at rc
    cases ok with
    | false =>
      simp only [Bool.not_false, if_true]
      exact ⟨m1, by simp [putMeta, get?_set], by rw [rc], by rw [rc]⟩
    | true =>
      simp only [Bool.not_true, Bool.false_eq_true, if_false]
      obtain ⟨_, _, f3, _, _, f6, _⟩ := resetRec_facts m1
      exact ⟨resetRec m1, by simp [putMeta, get?_set], by rw [f3, rc], by rw [f6, rc]⟩
  · rw [if_neg hmod]
    simp only [Bool.not_true, Bool.false_eq_true, if_false]
    obtain ⟨_, _, f3, _, _, f6, _⟩ := resetRec_facts m
    exact ⟨resetRec m, by simp [putMeta, get?_set], f3, f6⟩

/-- a pass that finds no expired record keeps every record in place, with its deadline and its
    cached type -/
theorem gc_scanRel {s : MState} {t now : Int} (h : StoreInvX s none t) (ht : t ≤ now) (hnil : NilFree s)
    (hlive : ∀ k m, AList.get? s.index k = some m → m.expired now = false) :
    (gc s now).index = s.index.map (fun p => (p.1, (AList.get? (gc s now).index p.1).getD p.2)) ∧
    ∀ p ∈ s.index, ScanRel now p (p.1, (AList.get? (gc s now).index p.1).getD p.2) := by
  have hrec : ∀ k, (∀ m, AList.get? s.index k = some m →
        ∃ m', AList.get? (gc s now).index k = some m' ∧ m'.exp = m.exp ∧ m'.vtype = m.vtype) ∧
      (AList.get? s.index k = none → AList.get? (gc s now).index k = none) := by
    rw [gc_eq]
    split
    · intro k; exact ⟨fun m hm => ⟨m, hm, rfl, rfl⟩, fun a => a⟩
    · obtain ⟨nd, hget, hnone⟩ := index_pass_facts h.idxSorted
      have key := fold_pass (gcStep now)
        (fun cur => StoreInvX cur none t ∧ cur.pebble = s.pebble)
        (fun cur k => ∀ m, AList.get? s.index k = some m →
          ∃ m', AList.get? cur.index k = some m' ∧ m'.exp = m.exp ∧ m'.vtype = m.vtype)
        (fun k m => AList.get? s.index k = some m)
        (by
          intro cur k m ⟨p1, p2⟩ he hm
          have sp := gcStep_spec (now := now) p1 ht hm (fun _ => by rw [p2]; exact hnil k m he)
          refine ⟨⟨sp.inv, by rw [sp.peb, p2]⟩, ?_, sp.idx, ?_⟩
          · intro m0 hm0
            rw [he] at hm0; cases hm0
            exact gcStep_keeps p1 hm (hlive k m he)
          · intro k' hk hq m0 hm0
            rw [sp.idx k' hk]; exact hq m0 hm0)
        s.index nd (fun p hp => hget p hp) s ⟨h, rfl⟩ hget
      obtain ⟨_, q, i, _⟩ := key
      intro k
      rw [(syncShared_fields _).1]
      refine ⟨fun m hm => q (k, m) (mem_of_get? _ _ _ hm) m hm, fun hn => ?_⟩
      have hk : k ∉ s.index.map (·.1) := fun hc => by
        obtain ⟨p, hp, rfl⟩ := List.mem_map.mp hc
        rw [hget p hp] at hn; cases hn
      rw [i k hk]; exact hn
  have hsorted : AList.Sorted (gc s now).index := (gc_spec h ht hnil).inv.idxSorted
  have hmap : (gc s now).index =
      s.index.map (fun p => (p.1, (AList.get? (gc s now).index p.1).getD p.2)) := by
    apply ext_of_sorted _ _ hsorted (sorted_map (fun k m => (AList.get? (gc s now).index k).getD m) _ h.idxSorted)
    intro k
    rw [get?_map (fun k m => (AList.get? (gc s now).index k).getD m)]
    cases hm : AList.get? s.index k with
    | none => rw [(hrec k).2 hm]; rfl
    | some m =>
      obtain ⟨m', a, _⟩ := (hrec k).1 m hm
      rw [a]; rfl
  refine ⟨hmap, ?_⟩
  intro p hp
  have hm := get?_of_mem _ h.idxSorted p.1 p.2 hp
  obtain ⟨m', a, b, c⟩ := (hrec p.1).1 p.2 hm
  refine ⟨rfl, ?_, ?_⟩
  · simp only [a, Option.getD_some, Meta.expired, b]
  · simp only [a, Option.getD_some, c]

end NodisVerif.Proofs.C11
