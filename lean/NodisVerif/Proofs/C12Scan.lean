import NodisVerif.Proofs.C12Sched
/-
  C12: SCAN (with or without TYPE filter) across an eviction pass; C11: across a reopen.
-/
namespace NodisVerif.Proofs.C11
open NodisVerif.Store NodisVerif.Codec NodisVerif.Spec.Persist
open NodisVerif.Proofs.AListLemmas NodisVerif.Proofs.AListLemmas2 NodisVerif.Proofs.C11AList

/-- the type SCAN's TYPE filter sees for a record: the cached one, or — for a record that never had
    its value loaded — the type of the value in the backend -/
def effType (s : MState) (p : Bytes × Meta) : Nat :=
  if p.2.vtype = 0 ∧ p.2.value.isNone then
    match loadValue s p.1 p.2 with
    | some (v, _) => v.typeCode
    | none => p.2.vtype
  else p.2.vtype

/-- the walk of SCAN as a pure function of the entries and the types the filter sees -/
def goPure (now : Int) (pat : Bytes) (typ : Nat) (ty : Bytes × Meta → Nat) :
    List (Bytes × Meta) → Int → Int → Int → List Bytes → Int × List Bytes
  | [], _, _, _, acc => (0, acc.reverse)
  | (key, m) :: rest, cursor, iter, count, acc =>
    if wrap64 (cursor - 1) > 0 then goPure now pat typ ty rest (wrap64 (cursor - 1)) (iter + 1) count acc else
    if count = 0 then (iter + 1, acc.reverse) else
    if Glob.matched pat key && !m.expired now then
      if typ ≠ 0 ∧ ty (key, m) ≠ typ then
        goPure now pat typ ty rest (wrap64 (cursor - 1)) (iter + 1) (wrap64 (count - 1)) acc
      else goPure now pat typ ty rest (wrap64 (cursor - 1)) (iter + 1) (wrap64 (count - 1)) (key :: acc)
    else goPure now pat typ ty rest (wrap64 (cursor - 1)) (iter + 1) (wrap64 (count - 1)) acc

theorem loadValue_congr {s S : MState} (hd : s.disk = S.disk) (hp : s.pebble = S.pebble) (k : Bytes) (m : Meta) :
    loadValue s k m = loadValue S k m := by
  simp only [loadValue, diskGet, hd, hp]

theorem modMeta_fields (s : MState) (k : Bytes) (f : Meta → Meta) :
    (modMeta s k f).disk = s.disk ∧ (modMeta s k f).pebble = s.pebble := by
  unfold modMeta; cases getMeta s k <;> exact ⟨rfl, rfl⟩

theorem scan_go_pure (now : Int) (pat : Bytes) (typ : Nat) (S : MState) :
    ∀ (ents : List (Bytes × Meta)) (s : MState), s.disk = S.disk → s.pebble = S.pebble →
    ∀ (cursor iter count : Int) (acc : List Bytes),
      (Api.scan.go now pat typ ents s cursor iter count acc).2 =
        goPure now pat typ (effType S) ents cursor iter count acc := by
  intro ents
  induction ents with
  | nil => intro s _ _ cursor iter count acc; rfl
  | cons a rest ih =>
    intro s hd hp cursor iter count acc
    obtain ⟨key, m⟩ := a
    unfold Api.scan.go goPure
    simp only
    split
    · exact ih s hd hp _ _ _ _
    · split
      · rfl
      · obtain ⟨md, mp⟩ := modMeta_fields s key (fun m => { m with count := m.count + 1 })
        have hd1 := md.trans hd
        have hp1 := mp.trans hp
        split
        · -- matched and alive
          by_cases hc : typ ≠ 0 ∧ m.vtype = 0 ∧ m.value.isNone = true
          · rw [if_pos hc]
            have hl := loadValue_congr hd1 hp1 key m
            have het : effType S (key, m) = match loadValue S key m with
                | some (v, _) => v.typeCode | none => m.vtype := by
              simp only [effType, hc.2.1, hc.2.2, and_self, if_true]
            rw [het, ← hl]
            cases hload : loadValue (modMeta s key fun m => { m with count := m.count + 1 }) key m with
            | none =>
              simp only
              split
              · exact ih _ hd1 hp1 _ _ _ _
              · exact ih _ hd1 hp1 _ _ _ _
            | some q =>
              obtain ⟨v, oid⟩ := q
              simp only
              obtain ⟨md2, mp2⟩ := modMeta_fields (modMeta s key fun m => { m with count := m.count + 1 }) key
                (fun m' => ({ m' with oid := oid }.setValue v))
              split
              · exact ih _ (md2.trans hd1) (mp2.trans hp1) _ _ _ _
              · exact ih _ (md2.trans hd1) (mp2.trans hp1) _ _ _ _
          · rw [if_neg hc]
            simp only
            have het : typ ≠ 0 → effType S (key, m) = m.vtype := by
              intro ht
              simp only [effType]
              rw [if_neg]
              intro c
              exact hc ⟨ht, c.1, c.2⟩
            by_cases ht : typ ≠ 0
            · rw [het ht]
              split
              · exact ih _ hd1 hp1 _ _ _ _
              · exact ih _ hd1 hp1 _ _ _ _
            · have ht0 : typ = 0 := by simpa using ht
              subst ht0
              simp only [ne_eq, not_true_eq_false, false_and, if_false]
              exact ih _ hd1 hp1 _ _ _ _
        · exact ih _ hd1 hp1 _ _ _ _

theorem scan_reply (s : MState) (now cursor : Int) (pat : Bytes) (count : Int) (typ : Nat) :
    (Api.scan s now cursor pat count typ).2 =
      if (s.index.length : Int) = 0 then .many [.int 0, .slist []] else
      if cursor > (s.index.length : Int) then .many [.int 0, .slist []] else
      .many [.int (goPure now pat typ (effType s) s.index cursor 0 count []).1,
             .slist (goPure now pat typ (effType s) s.index cursor 0 count []).2] := by
  unfold Api.scan
  simp only
  split
  · rfl
  · split
    · rfl
    · have := scan_go_pure now pat typ s s.index s rfl rfl cursor 0 count []
      generalize Api.scan.go now pat typ s.index s cursor 0 count [] = r at this
      obtain ⟨a, b, c⟩ := r
      simp only at this
      simp only [← this]

/-- what SCAN looks at in an index record -/
def ScanRel (now : Int) (s1 s2 : MState) (a b : Bytes × Meta) : Prop :=
  a.1 = b.1 ∧ a.2.expired now = b.2.expired now ∧
  (a.2.expired now = false → effType s1 a = effType s2 b)

theorem goPure_congr (now : Int) (pat : Bytes) (typ : Nat) (s1 s2 : MState) (f : Bytes × Meta → Bytes × Meta) :
    ∀ (e1 : List (Bytes × Meta)), (∀ p ∈ e1, ScanRel now s1 s2 p (f p)) →
    ∀ (cursor iter count : Int) (acc : List Bytes),
      goPure now pat typ (effType s1) e1 cursor iter count acc =
      goPure now pat typ (effType s2) (e1.map f) cursor iter count acc := by
  intro e1
  induction e1 with
  | nil => intro _ cursor iter count acc; rfl
  | cons a l1 ih =>
    intro h cursor iter count acc
    have hab := h a (by simp)
    have ih' := ih (fun p hp => h p (by simp [hp]))
    obtain ⟨k1, m1⟩ := a
    simp only [List.map_cons]
    generalize hfb : f (k1, m1) = b at hab
    obtain ⟨k2, m2⟩ := b
    obtain ⟨hk, he, hty⟩ := hab
    simp only at hk he hty
    subst hk
    unfold goPure
    simp only [← he]
    split
    · exact ih' _ _ _ _
    · split
      · rfl
      · split
        · rename_i hmt
          have hal : m1.expired now = false := by
            simp only [Bool.and_eq_true, Bool.not_eq_true'] at hmt; exact hmt.2
          rw [← hty hal]
          split
          · exact ih' _ _ _ _
          · exact ih' _ _ _ _
        · exact ih' _ _ _ _

theorem scan_congr {s1 s2 : MState} {now : Int} (f : Bytes × Meta → Bytes × Meta)
    (hmap : s2.index = s1.index.map f) (h : ∀ p ∈ s1.index, ScanRel now s1 s2 p (f p))
    (cursor : Int) (pat : Bytes) (count : Int) (typ : Nat) :
    (Api.scan s1 now cursor pat count typ).2 = (Api.scan s2 now cursor pat count typ).2 := by
  have hlen : s2.index.length = s1.index.length := by rw [hmap, List.length_map]
  rw [scan_reply, scan_reply, hlen, hmap, ← goPure_congr now pat typ s1 s2 f _ h]

/-- the cached types are right: a hot record caches the type of its value, a cold one either
    caches nothing or the type of what is in the backend -/
def TypeOK (s : MState) : Prop :=
  ∀ k m, AList.get? s.index k = some m →
    (∀ v, m.value = some v → m.vtype = v.typeCode) ∧
    (m.value = none → ∀ v o, loadValue s k m = some (v, o) → m.vtype = 0 ∨ m.vtype = v.typeCode)

theorem typeCode_pos (v : Val) : v.typeCode ≠ 0 := by cases v <;> simp [Val.typeCode]

/-- for a record that caches no type and was never loaded, the filter sees the type of the value
    the store shows under that name -/
theorem effType_cold {s : MState} {now : Int} {k : Bytes} {m : Meta} {v : Val} {e : Int}
    (hm : AList.get? s.index k = some m) (hvt : m.vtype = 0) (hv : m.value = none)
    (hl : lookup s now k = some (v, e)) : effType s (k, m) = v.typeCode := by
  simp only [lookup, getMeta, hm, Option.bind_some, view, hv] at hl
  split at hl
  · simp only [effType, hvt, hv, Option.isNone_none, and_self, if_true]
    cases hld : loadValue s k m with
    | none => rw [hld] at hl; cases hl
    | some q =>
      rw [hld] at hl
      simp only [Option.map_some, Option.some.injEq, Prod.mk.injEq] at hl
      simp only [hl.1]
  · cases hl

/-- with correct cached types the filter always sees the type of the value the store shows -/
theorem effType_typeOK {s : MState} (hty : TypeOK s) {now : Int} {k : Bytes} {m : Meta} {v : Val} {e : Int}
    (hm : AList.get? s.index k = some m) (hl : lookup s now k = some (v, e)) :
    effType s (k, m) = v.typeCode := by
  obtain ⟨t1, t2⟩ := hty k m hm
  cases hv : m.value with
  | some w =>
    have hl' := hl
    simp only [lookup, getMeta, hm, Option.bind_some, view, hv] at hl'
    split at hl'
    · simp only [Option.some.injEq, Prod.mk.injEq] at hl'
      simp only [effType, hv, Option.isNone_some, Bool.false_eq_true, and_false, if_false]
      rw [t1 w hv, hl'.1]
    · cases hl'
  | none =>
    by_cases hvt : m.vtype = 0
    · exact effType_cold hm hvt hv hl
    · have hl' := hl
      simp only [lookup, getMeta, hm, Option.bind_some, view, hv] at hl'
      split at hl'
      · cases hld : loadValue s k m with
        | none => rw [hld] at hl'; cases hl'
        | some q =>
          rw [hld] at hl'
          simp only [Option.map_some, Option.some.injEq, Prod.mk.injEq] at hl'
          simp only [effType, hvt, false_and, if_false]
          rcases t2 hv q.1 q.2 hld with h0 | h1
          · exact absurd h0 hvt
          · rw [h1, hl'.1]
      · cases hl'

theorem effType_cached {s : MState} {p : Bytes × Meta} (h : p.2.vtype ≠ 0) : effType s p = p.2.vtype := by
  simp only [effType, h, false_and, if_false]

/-- a live record always shows something (invariant) -/
theorem lookup_live {s : MState} {t now : Int} (h : StoreInvX s none t) (ht : t ≤ now) {k : Bytes} {m : Meta}
    (hm : AList.get? s.index k = some m) (hal : m.expired now = false) :
    ∃ v e, lookup s now k = some (v, e) := by
  have := view_isSome h ht hm
  rw [hal] at this
  simp only [lookup, getMeta, hm, Option.bind_some]
  cases hv : view s now k m with
  | none => rw [hv] at this; simp at this
  | some q => exact ⟨q.1, q.2, rfl⟩

/-- one gc step on a live record keeps its deadline and its cached type -/
theorem gcStep_keeps {s : MState} {t now : Int} (h : StoreInvX s none t) {k : Bytes} {m : Meta}
    (hm : AList.get? s.index k = some m) (hal : m.expired now = false) :
    ∃ m', AList.get? (gcStep now s (k, m)).index k = some m' ∧ m'.exp = m.exp ∧ m'.vtype = m.vtype ∧
      (m.value = none → m'.value = none) := by
  have r := h.recs k m hm
  unfold gcStep
  simp only [r.ok, Bool.not_true, Bool.or_false, hal, Bool.false_eq_true, if_false]
  by_cases hmod : m.isModified = true
  · rw [if_pos hmod]
    have hsome : m.value.isSome = true := by
      simp only [Meta.isModified, Bool.and_eq_true] at hmod; exact hmod.1
    obtain ⟨v, hv⟩ := Option.isSome_iff_exists.mp hsome
    have ps := persist_spec h hm hv
    generalize persist s k m = pr at ps
    obtain ⟨s1, m1, ok⟩ := pr
    have rc := ps.recEq
    simp only at rc
    cases ok with
    | false =>
      simp only [Bool.not_false, if_true]
      exact ⟨m1, by simp [putMeta, get?_set], by rw [rc], by rw [rc], fun hn => by rw [hv] at hn; cases hn⟩
    | true =>
      simp only [Bool.not_true, Bool.false_eq_true, if_false]
      obtain ⟨_, _, f3, _, _, f6, _⟩ := resetRec_facts m1
      exact ⟨resetRec m1, by simp [putMeta, get?_set], by rw [f3, rc], by rw [f6, rc],
        fun hn => by rw [hv] at hn; cases hn⟩
  · rw [if_neg hmod]
    simp only [Bool.not_true, Bool.false_eq_true, if_false]
    obtain ⟨_, _, f3, _, _, f6, f7⟩ := resetRec_facts m
    refine ⟨resetRec m, by simp [putMeta, get?_set], f3, f6, fun hn => ?_⟩
    rcases f7 with f7 | f7
    · rw [f7, hn]
    · exact f7

/-- a pass that finds no expired record keeps every record in place, with its deadline, and the
    TYPE filter sees the same type for it as before (also when the value was dropped from memory) -/
theorem gc_scanRel {s : MState} {t now : Int} (h : StoreInvX s none t) (ht : t ≤ now) (hnil : NilFree s)
    (hty : TypeOK s) (hlive : ∀ k m, AList.get? s.index k = some m → m.expired now = false) :
    (gc s now).index = s.index.map (fun p => (p.1, (AList.get? (gc s now).index p.1).getD p.2)) ∧
    ∀ p ∈ s.index, ScanRel now s (gc s now) p (p.1, (AList.get? (gc s now).index p.1).getD p.2) := by
  have hrec : ∀ k, (∀ m, AList.get? s.index k = some m →
        ∃ m', AList.get? (gc s now).index k = some m' ∧ m'.exp = m.exp ∧ m'.vtype = m.vtype ∧
          (m.value = none → m'.value = none)) ∧
      (AList.get? s.index k = none → AList.get? (gc s now).index k = none) := by
    rw [gc_eq]
    split
    · intro k; exact ⟨fun m hm => ⟨m, hm, rfl, rfl, fun a => a⟩, fun a => a⟩
    · obtain ⟨nd, hget, hnone⟩ := index_pass_facts h.idxSorted
      have key := fold_pass (gcStep now)
        (fun cur => StoreInvX cur none t ∧ cur.pebble = s.pebble)
        (fun cur k => ∀ m, AList.get? s.index k = some m →
          ∃ m', AList.get? cur.index k = some m' ∧ m'.exp = m.exp ∧ m'.vtype = m.vtype ∧
            (m.value = none → m'.value = none))
        (fun k m => AList.get? s.index k = some m)
        (by
          intro cur k m ⟨p1, p2⟩ he hm
          have sp := gcStep_spec (now := now) p1 ht hm (fun _ => by rw [p2]; exact hnil k m he)
          refine ⟨⟨sp.inv, by rw [sp.peb, p2]⟩, ?_, sp.idx, ?_⟩
          · intro m0 hm0
            rw [he] at hm0; cases hm0
            exact gcStep_keeps p1 hm (hlive k m he)
          · intro k' hk hq m0 hm0
            rw [sp.idx k' hk]; exact hq m0 hm0)
        s.index nd (fun p hp => hget p hp) s ⟨h, rfl⟩ hget
      obtain ⟨_, q, i, _⟩ := key
      intro k
      rw [(syncShared_fields _).1]
      refine ⟨fun m hm => q (k, m) (mem_of_get? _ _ _ hm) m hm, fun hn => ?_⟩
      have hk : k ∉ s.index.map (·.1) := fun hc => by
        obtain ⟨p, hp, rfl⟩ := List.mem_map.mp hc
        rw [hget p hp] at hn; cases hn
      rw [i k hk]; exact hn
  have g := gc_spec h ht hnil
  have hsorted : AList.Sorted (gc s now).index := g.inv.idxSorted
  have hmap : (gc s now).index =
      s.index.map (fun p => (p.1, (AList.get? (gc s now).index p.1).getD p.2)) := by
    apply ext_of_sorted _ _ hsorted (sorted_map (fun k m => (AList.get? (gc s now).index k).getD m) _ h.idxSorted)
    intro k
    rw [get?_map (fun k m => (AList.get? (gc s now).index k).getD m)]
    cases hm : AList.get? s.index k with
    | none => rw [(hrec k).2 hm]; rfl
    | some m =>
      obtain ⟨m', a, _⟩ := (hrec k).1 m hm
      rw [a]; rfl
  refine ⟨hmap, ?_⟩
  intro p hp
  obtain ⟨k, m⟩ := p
  have hm := get?_of_mem _ h.idxSorted k m hp
  obtain ⟨m', a, b, c, d⟩ := (hrec k).1 m hm
  have hexp : m.expired now = m'.expired now := by simp only [Meta.expired, b]
  refine ⟨rfl, by simp only [a, Option.getD_some]; exact hexp, fun hal => ?_⟩
  simp only [a, Option.getD_some]
  simp only at hal
  obtain ⟨v, e, hl⟩ := lookup_live h ht hm hal
  rw [effType_typeOK hty hm hl]
  by_cases hvt : m.vtype = 0
  · -- nothing cached: the record is cold (a hot record caches the type of its value), and stays so
    have hv : m.value = none := by
      cases hv : m.value with
      | none => rfl
      | some w => exact absurd ((hty k m hm).1 w hv ▸ hvt) (typeCode_pos w)
    exact (effType_cold (now := now) a (by rw [c]; exact hvt) (d hv)
      (by rw [g.look now (Int.le_refl _)]; exact hl)).symm
  · rw [effType_cached (by simp only; rw [c]; exact hvt), c]
    -- the cached type is the type of the value shown
    have := effType_typeOK hty hm hl
    rw [effType_cached (by simpa using hvt)] at this
    exact this.symm

/-- `flush` / `close` never index a name that was not indexed -/
theorem flush_no_new {s : MState} {t now : Int} (h : StoreInvX s none t) (ht : t ≤ now) {k : Bytes}
    (hn : AList.get? s.index k = none) : AList.get? (flush s now).index k = none := by
  rw [flush_eq, (syncShared_fields _).1]
  obtain ⟨nd, hget, _⟩ := index_pass_facts h.idxSorted
  have key := fold_pass (flushStep now) (fun cur => StoreInvX cur none now) (fun _ _ => True) (fun _ _ => True)
    (by
      intro cur k' m p1 _ hm
      obtain ⟨sp, _⟩ := flushStep_spec p1 hm
      exact ⟨sp.inv, trivial, sp.idx, fun _ _ _ => trivial⟩)
    s.index nd (fun _ _ => trivial) s (h.mono ht) hget
  have hk : k ∉ s.index.map (·.1) := fun hc => by
    obtain ⟨p, hp, rfl⟩ := List.mem_map.mp hc
    rw [hget p hp] at hn; cases hn
  rw [key.2.2.1 k hk]; exact hn

theorem close_no_new {s : MState} {t now : Int} (h : StoreInvX s none t) (ht : t ≤ now) {k : Bytes}
    (hn : AList.get? s.index k = none) : AList.get? (close s now).index k = none := by
  have h1 : StoreInvX { s with closed := true } none t := h.congr rfl rfl rfl rfl
  exact flush_no_new (s := { s with closed := true }) h1 ht hn

/-- after a complete close and an open, with no expired record at the close, every record is
    back in place, and the TYPE filter sees for it the type of the value it had -/
theorem reopen_scanRel {s : MState} {t now : Int} (h : StoreInvX s none t) (ht : t ≤ now)
    (hf : s.failSet = 0) (hnil : NilFree s) (hty : TypeOK s)
    (hlive : ∀ k m, AList.get? s.index k = some m → m.expired now = false) :
    (reopen (close s now)).index =
      s.index.map (fun p => (p.1, (AList.get? (reopen (close s now)).index p.1).getD p.2)) ∧
    ∀ p ∈ s.index, ScanRel now s (reopen (close s now)) p
      (p.1, (AList.get? (reopen (close s now)).index p.1).getD p.2) := by
  have c := cycle_spec h ht hf hnil
  -- every record of `s` has exactly one record after the cycle: cold, nothing cached, same deadline
  have hrec : ∀ k, (∀ m, AList.get? s.index k = some m →
        ∃ m', AList.get? (reopen (close s now)).index k = some m' ∧ m'.exp = m.exp ∧ m'.vtype = 0 ∧
          m'.value = none) ∧
      (AList.get? s.index k = none → AList.get? (reopen (close s now)).index k = none) := by
    intro k
    have cl := (close_spec h ht (now := now)).1
    constructor
    · intro m hm
      obtain ⟨v, e, hl⟩ := lookup_live h ht hm (hlive k m hm)
      have hl' : lookup (reopen (close s now)) now k = some (v, e) := by
        rw [c.look now (Int.le_refl _)]; exact hl
      cases hm' : AList.get? (reopen (close s now)).index k with
      | none => simp [lookup, getMeta, hm'] at hl'
      | some m' =>
        obtain ⟨dk, ent, _, _, rfl⟩ := reopen_rec cl.inv hm'
        refine ⟨_, rfl, ?_, rfl, rfl⟩
        -- same deadline: both states show (v, e) under k
        have e1 : e = m.exp := by
          have hl2 := hl
          simp only [lookup, getMeta, hm, Option.bind_some, view] at hl2
          split at hl2
          · cases hv : m.value with
            | some w => rw [hv] at hl2; simp at hl2; exact hl2.2.symm
            | none =>
              rw [hv] at hl2
              simp only [Option.map_eq_some_iff] at hl2
              obtain ⟨q, _, hq⟩ := hl2
              exact (congrArg Prod.snd hq).symm
          · cases hl2
        have e2 : e = (coldOf ent).exp := by
          have hl2 := hl'
          simp only [lookup, getMeta, hm', Option.bind_some, view] at hl2
          split at hl2
          · have hv : (coldOf ent).value = none := rfl
            rw [hv] at hl2
            simp only [Option.map_eq_some_iff] at hl2
            obtain ⟨q, _, hq⟩ := hl2
            exact (congrArg Prod.snd hq).symm
          · cases hl2
        rw [← e2, e1]
    · intro hn
      cases hm' : AList.get? (reopen (close s now)).index k with
      | none => rfl
      | some m' =>
        exfalso
        obtain ⟨dk, ent, hent, hname, _⟩ := reopen_rec cl.inv hm'
        obtain ⟨m0, hm0, _⟩ := (cl.inv.ents dk ent hent).owner
        rw [hname] at hm0
        -- close keeps the index names: flush never adds a record
        have : AList.get? (close s now).index k = none := close_no_new h ht hn
        rw [this] at hm0; cases hm0
  have hsorted : AList.Sorted (reopen (close s now)).index := c.inv.idxSorted
  have hmap : (reopen (close s now)).index =
      s.index.map (fun p => (p.1, (AList.get? (reopen (close s now)).index p.1).getD p.2)) := by
    apply ext_of_sorted _ _ hsorted
      (sorted_map (fun k m => (AList.get? (reopen (close s now)).index k).getD m) _ h.idxSorted)
    intro k
    rw [get?_map (fun k m => (AList.get? (reopen (close s now)).index k).getD m)]
    cases hm : AList.get? s.index k with
    | none => rw [(hrec k).2 hm]; rfl
    | some m =>
      obtain ⟨m', a, _⟩ := (hrec k).1 m hm
      rw [a]; rfl
  refine ⟨hmap, ?_⟩
  intro p hp
  obtain ⟨k, m⟩ := p
  have hm := get?_of_mem _ h.idxSorted k m hp
  obtain ⟨m', a, b, cc, d⟩ := (hrec k).1 m hm
  have hexp : m.expired now = m'.expired now := by simp only [Meta.expired, b]
  refine ⟨rfl, by simp only [a, Option.getD_some]; exact hexp, fun hal => ?_⟩
  simp only [a, Option.getD_some]
  simp only at hal
  obtain ⟨v, e, hl⟩ := lookup_live h ht hm hal
  rw [effType_typeOK hty hm hl]
  exact (effType_cold (now := now) a cc d (by rw [c.look now (Int.le_refl _)]; exact hl)).symm

end NodisVerif.Proofs.C11
