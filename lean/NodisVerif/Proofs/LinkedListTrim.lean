import NodisVerif.Proofs.LinkedListUnlink
/-
  Pointer-level list (Model/LinkedList.lean): the read-only walks (size, forEach / LRange, GetValue) and the
  mutating walk of LTrim refine the sequence-level functions of Model/DsList.lean.  Core only.
-/
namespace NodisVerif.LinkedList

/-! ### the elements whose position (counted from `k`) satisfies `q` -/

/-- `xs` filtered by position: element number `j` of `xs` is kept iff `q (k + j)` -/
def keepIdx {α : Type} (q : Nat → Bool) : Nat → List α → List α
  | _, [] => []
  | k, x :: xs => if q k then x :: keepIdx q (k + 1) xs else keepIdx q (k + 1) xs

@[simp] theorem keepIdx_nil {α : Type} (q : Nat → Bool) (k : Nat) : keepIdx q k ([] : List α) = [] := rfl

theorem keepIdx_cons {α : Type} (q : Nat → Bool) (k : Nat) (x : α) (xs : List α) :
    keepIdx q k (x :: xs) = if q k then x :: keepIdx q (k + 1) xs else keepIdx q (k + 1) xs := rfl

/-- the `zipIdx` / `filter` / `map fst` pipeline of DsList.forEach and DsList.ltrim is `keepIdx` -/
theorem zipIdx_filter_keep {α : Type} (q : Nat → Bool) (xs : List α) (k : Nat) (p : α × Nat → Bool)
    (hp : ∀ a i, p (a, i) = q i) : ((xs.zipIdx k).filter p).map (·.1) = keepIdx q k xs := by
  induction xs generalizing k with
  | nil => rfl
  | cons x xs ih =>
    rw [List.zipIdx_cons, List.filter_cons, hp, keepIdx_cons]
    cases q k
    · simpa using ih (k + 1)
    · simpa using ih (k + 1)

theorem keepIdx_map {α β : Type} (q : Nat → Bool) (f : α → β) (xs : List α) (k : Nat) :
    keepIdx q k (xs.map f) = (keepIdx q k xs).map f := by
  induction xs generalizing k with
  | nil => rfl
  | cons x xs ih =>
    rw [List.map_cons, keepIdx_cons, keepIdx_cons, ih]
    cases q k <;> rfl

theorem keepIdx_length_le {α : Type} (q : Nat → Bool) (xs : List α) (k : Nat) :
    (keepIdx q k xs).length ≤ xs.length := by
  induction xs generalizing k with
  | nil => exact Nat.le_refl _
  | cons x xs ih =>
    rw [keepIdx_cons]
    have := ih (k + 1)
    cases q k
    · simp only [Bool.false_eq_true, if_false, List.length_cons]; omega
    · simp only [if_true, List.length_cons]; omega

/-- the `break` of forEach: once every later position fails the test, nothing more is kept -/
theorem keepIdx_none {α : Type} (q : Nat → Bool) (xs : List α) (k : Nat) (hq : ∀ i, k ≤ i → q i = false) :
    keepIdx q k xs = [] := by
  induction xs generalizing k with
  | nil => rfl
  | cons x xs ih =>
    rw [keepIdx_cons, hq k (Nat.le_refl _)]
    simp only [Bool.false_eq_true, if_false]
    exact ih (k + 1) (fun i hi => hq i (by omega))

/-! ### size -/

theorem sizeLoop_seg (h : Heap) (suf : List Nat) (p : Option Nat) (fuel : Nat) (len : Int)
    (hs : Seg h p suf none) (hf : suf.length ≤ fuel) :
    sizeLoop fuel h (hd suf none) len = .ok (len + suf.length) := by
  induction suf generalizing p fuel len with
  | nil => cases fuel <;> simp [sizeLoop]
  | cons x rest ih =>
    obtain ⟨n, h1, _, h3, h4⟩ := hs
    cases fuel with
    | zero => simp at hf
    | succ fuel =>
      simp only [hd_cons, sizeLoop, rd_ok h1, Res.bind_ok, h3]
      rw [ih _ fuel _ h4 (by simpa using hf)]
      simp only [List.length_cons]
      congr 1
      omega

theorem absL_size {l : PList} {c : List Nat} (hi : InvC l c) : DsList.size (absL l) = (c.length : Int) := by
  simp [DsList.size, absL, abs_eq hi]

theorem size_eq {l : PList} {c : List Nat} (hi : InvC l c) : size l = .ok (c.length : Int) := by
  unfold size
  rw [hi.head, ← hd_none, sizeLoop_seg _ c none _ 0 hi.seg (by have := hi.length_le; omega)]
  simp

theorem size_refines (l : PList) (c : List Nat) (hi : InvC l c) : size l = .ok (DsList.size (absL l)) := by
  rw [size_eq hi, absL_size hi]

/-! ### forEach / LRange / GetValue -/

theorem forEachLoop_seg (h : Heap) (start stop : Int) (suf : List Nat) (p : Option Nat) (fuel : Nat) (k : Nat)
    (acc : List Bytes) (hs : Seg h p suf none) (hf : suf.length ≤ fuel) :
    forEachLoop fuel h (hd suf none) (k : Int) start stop acc =
      .ok (acc ++ keepIdx (fun i => decide (start ≤ (i : Int) ∧ (i : Int) ≤ stop)) k (suf.map (dataAt h))) := by
  induction suf generalizing p fuel k acc with
  | nil => cases fuel <;> simp [forEachLoop]
  | cons x rest ih =>
    obtain ⟨n, h1, _, h3, h4⟩ := hs
    cases fuel with
    | zero => simp at hf
    | succ fuel =>
      simp only [hd_cons, forEachLoop, rd_ok h1, Res.bind_ok, h3, List.map_cons, dataAt_of h1]
      by_cases hgt : (k : Int) > stop
      · have hno : ¬ ((k : Int) ≥ start ∧ (k : Int) ≤ stop) := by omega
        rw [keepIdx_none _ _ k (by intro i hi; simp only [decide_eq_false_iff_not]; omega)]
        simp only [if_pos hgt, if_neg hno, List.append_nil]
      · have hk : (k : Int) + 1 = ((k + 1 : Nat) : Int) := by omega
        simp only [if_neg hgt]
        rw [hk, ih _ fuel (k + 1) _ h4 (by simpa using hf), keepIdx_cons]
        by_cases hc : (k : Int) ≥ start ∧ (k : Int) ≤ stop
        · have hd : decide (start ≤ (k : Int) ∧ (k : Int) ≤ stop) = true := decide_eq_true hc
          simp only [if_pos hc, hd, if_true, List.append_assoc, List.singleton_append]
        · have hd : decide (start ≤ (k : Int) ∧ (k : Int) ≤ stop) = false := decide_eq_false hc
          simp only [if_neg hc, hd, Bool.false_eq_true, if_false]

/-- the part of forEach after the indexes have been normalised -/
theorem forEach_core {l : PList} {c : List Nat} (hi : InvC l c) (s e : Int) :
    forEachLoop (l.heap.size + 1) l.heap l.head 0 s e [] =
      .ok (((abs l).zipIdx.filter fun (_, i) => s ≤ (i : Int) ∧ (i : Int) ≤ e).map (·.1)) := by
  have := forEachLoop_seg l.heap s e c none (l.heap.size + 1) 0 [] hi.seg (by have := hi.length_le; omega)
  rw [hi.head, ← hd_none]
  rw [zipIdx_filter_keep (fun i => decide (s ≤ (i : Int) ∧ (i : Int) ≤ e)) _ 0 _ (by intro a i; rfl),
    abs_eq hi]
  simpa using this

theorem forEach_tail {l : PList} {c : List Nat} (hi : InvC l c) (s e : Int) :
    (if s > e then Res.ok [] else forEachLoop (l.heap.size + 1) l.heap l.head 0 s e []) =
      .ok (if s > e then []
        else ((absL l).items.zipIdx.filter fun (_, i) => s ≤ (i : Int) ∧ (i : Int) ≤ e).map (·.1)) := by
  by_cases h : s > e
  · simp only [if_pos h]
  · simp only [if_neg h]; exact forEach_core hi s e

theorem forEach_refines (l : PList) (c : List Nat) (hi : InvC l c) (start stop : Int) :
    forEach l start stop = .ok (DsList.forEach (absL l) start stop) := by
  unfold forEach DsList.forEach
  simp only [size_eq hi, absL_size hi, Res.bind_ok, Res.pure_eq]
  by_cases h1 : start < 0 <;> by_cases h2 : stop < 0 <;>
    simp only [h1, h2, if_true, if_false, Int.add_comm start, Int.add_comm stop] <;>
    exact forEach_tail hi _ _

theorem lrange_refines (l : PList) (c : List Nat) (hi : InvC l c) (start stop : Int) :
    lrange l start stop = .ok (DsList.lrange (absL l) start stop) :=
  forEach_refines l c hi start stop

theorem getValue_refines (l : PList) (c : List Nat) (hi : InvC l c) :
    getValue l = .ok (Codec.encodeList (absL l)) := by
  simp only [getValue, forEach_refines l c hi, Res.bind_ok, Res.pure_eq, Codec.encodeList]

/-! ### LTrim -/

/-- the test of LTrim as a predicate on positions -/
def keptP (start stop : Int) (i : Nat) : Bool := decide (¬ ((i : Int) < start ∨ (i : Int) > stop))

/-- the loop of LTrim.  `pre` = the nodes already visited and kept, `suf` = the nodes still to visit, `k` =
    the number of nodes already visited (kept or not). -/
theorem ltrimLoop_spec (start stop : Int) (suf : List Nat) (pre : List Nat) (l : PList) (fuel : Nat) (k : Nat)
    (hi : InvC l (pre ++ suf)) (hf : suf.length ≤ fuel) :
    ∃ l', ltrimLoop fuel l (hd suf none) (k : Int) start stop = .ok l' ∧
      InvC l' (pre ++ keepIdx (keptP start stop) k suf) ∧ SameData l l' := by
  induction suf generalizing pre l fuel k with
  | nil =>
    refine ⟨l, ?_, by simpa using hi, SameData.refl l⟩
    cases fuel <;> simp [ltrimLoop]
  | cons x rest ih =>
    obtain ⟨n, hx, _, hnx⟩ := seg_mid _ pre rest x none none hi.seg
    cases fuel with
    | zero => simp at hf
    | succ fuel =>
      have hk : (k : Int) + 1 = ((k + 1 : Nat) : Int) := by omega
      have hf' : rest.length ≤ fuel := by simpa using hf
      simp only [hd_cons, ltrimLoop]
      rw [keepIdx_cons]
      by_cases hc : (k : Int) < start ∨ (k : Int) > stop
      · have hq : keptP start stop k = false := by
          unfold keptP; exact decide_eq_false (fun h => h hc)
        obtain ⟨l1, e1, hi1, hx1, sd1⟩ := unlink_spec l pre rest x hi
        obtain ⟨l', e', hi', sd'⟩ := ih pre l1 fuel (k + 1) hi1 hf'
        refine ⟨l', ?_, ?_, sd1.trans sd'⟩
        · simp only [if_pos hc, e1, Res.bind_ok, rd_ok (hx1.trans hx), hnx, hk, e']
        · simpa only [hq, Bool.false_eq_true, if_false] using hi'
      · have hq : keptP start stop k = true := by
          unfold keptP; exact decide_eq_true hc
        have hi0 : InvC l ((pre ++ [x]) ++ rest) := by
          simpa only [List.append_assoc, List.singleton_append] using hi
        obtain ⟨l', e', hi', sd'⟩ := ih (pre ++ [x]) l fuel (k + 1) hi0 hf'
        refine ⟨l', ?_, ?_, sd'⟩
        · simp only [if_neg hc, Res.bind_ok, rd_ok hx, hnx, hk, e']
        · simpa only [hq, if_true, List.append_assoc, List.singleton_append] using hi'

/-- the part of LTrim after the indexes have been normalised -/
theorem ltrim_core {l : PList} {c : List Nat} (hi : InvC l c) (s e : Int) :
    ∃ l' c', ltrimLoop (l.heap.size + 1) l l.head 0 s e = .ok l' ∧ InvC l' c' ∧
      abs l' = ((abs l).zipIdx.filter fun (_, i) => ¬ ((i : Int) < s ∨ (i : Int) > e)).map (·.1) ∧
      l'.heap.size = l.heap.size := by
  obtain ⟨l', e', hi', sd'⟩ := ltrimLoop_spec s e c [] l (l.heap.size + 1) 0 (by simpa using hi)
    (by have := hi.length_le; omega)
  refine ⟨l', _, ?_, hi', ?_, sd'.size⟩
  · rw [hi.head, ← hd_none]; exact e'
  · rw [zipIdx_filter_keep (keptP s e) _ 0 _ (by intro a i; rfl), abs_eq hi, abs_eq hi', keepIdx_map]
    simp only [List.nil_append]
    exact List.map_congr_left (fun i _ => sd'.data i)

theorem ltrim_refines (l : PList) (c : List Nat) (hi : InvC l c) (start stop : Int) :
    ∃ l' c', ltrim l start stop = .ok l' ∧ InvC l' c' ∧ absL l' = DsList.ltrim (absL l) start stop ∧
      l'.heap.size = l.heap.size := by
  have key : ∀ s e : Int, ∃ l' c', ltrimLoop (l.heap.size + 1) l l.head 0 s e = .ok l' ∧ InvC l' c' ∧
      absL l' = { items := ((abs l).zipIdx.filter fun (_, i) => ¬ ((i : Int) < s ∨ (i : Int) > e)).map (·.1),
                  length := l.length - ((abs l).length -
                    (((abs l).zipIdx.filter fun (_, i) => ¬ ((i : Int) < s ∨ (i : Int) > e)).map (·.1)).length : Nat) } ∧
      l'.heap.size = l.heap.size := by
    intro s e
    obtain ⟨l', c', e', hi', ha, hs⟩ := ltrim_core hi s e
    refine ⟨l', c', e', hi', ?_, hs⟩
    have hlen : (abs l').length = c'.length := by rw [abs_eq hi', List.length_map]
    have hlen0 : (abs l).length = c.length := by rw [abs_eq hi, List.length_map]
    have hle : c'.length ≤ c.length := by
      rw [← hlen, ← hlen0, ha, zipIdx_filter_keep (keptP s e) _ 0 _ (by intro a i; rfl)]
      exact keepIdx_length_le _ _ _
    unfold absL
    rw [← ha, hlen, hlen0, hi'.length, hi.length]
    congr 1
    omega
  unfold ltrim DsList.ltrim
  simp only [size_eq hi, absL_size hi]
  by_cases h1 : start < 0 <;> by_cases h2 : stop < 0 <;>
    simp only [h1, h2, if_true, if_false, Res.bind_ok, Res.pure_eq] <;>
    exact key _ _

end NodisVerif.LinkedList
