import NodisVerif.Proofs.C13Reopen
/-
  C13: concrete states (non-vacuity, the two-entry window made explicit, the old call order).
  Key "k" had no deadline when it was last written (`stored = some 0`), now has deadline 5 and a new
  value; key "z" is clean and cold.
-/
namespace NodisVerif.C13.Ex
open NodisVerif NodisVerif.Store NodisVerif.C13
open NodisVerif.Proofs.AListLemmas NodisVerif.Proofs.AListLemmas2 NodisVerif.Proofs.C13

def k1 : Bytes := [107]
def k2 : Bytes := [122]
def old1 : DiskEntry := { name := k1, exp := 0, val := .str [1] }
def new1 : DiskEntry := { name := k1, exp := 5, val := .str [2] }
def ent2 : DiskEntry := { name := k2, exp := 0, val := .str [9] }
/-- ok + modified, hot, deadline 5, stored under deadline 0 -/
def m1 : Meta := { exp := 5, value := some (.str [2]), state := 3, stored := some 0 }
/-- ok, clean, cold -/
def m2 : Meta := { exp := 0, value := none, state := 1, stored := some 0 }
def disk0 : AList DiskEntry := [([0, 107], old1), ([0, 122], ent2)]
def s0 : MState := { index := [(k1, m1), (k2, m2)], disk := disk0, pebble := true }

theorem enc_k1_0 : Codec.encodeKey k1 0 = [0, 107] := by
  simp [Codec.encodeKey, Varint.putVarint, Varint.zigzag, Varint.putUvarint, k1]
theorem enc_k1_5 : Codec.encodeKey k1 5 = [10, 107] := by
  simp [Codec.encodeKey, Varint.putVarint, Varint.zigzag, Varint.putUvarint, k1]
theorem enc_k2_0 : Codec.encodeKey k2 0 = [0, 122] := by
  simp [Codec.encodeKey, Varint.putVarint, Varint.zigzag, Varint.putUvarint, k2]

theorem disk0_eq : disk0 = runCalls [] [.set k1 0 old1, .set k2 0 ent2] := by
  simp [disk0, runCalls, diskAfter, enc_k1_0, enc_k2_0, AList.set, Bytes.lt]

theorem disk0_wf : DiskWF disk0 := by
  rw [disk0_eq]
  apply diskWF_run diskWF_nil (pebble := true)
  simp [DiskCall.Exact, old1, ent2]

theorem s0_agrees : StoreAgrees s0 := by
  refine ⟨disk0_wf, by simp [s0, AList.Sorted, Bytes.lt, k1, k2], ?_⟩
  intro p hp
  simp only [s0, List.mem_cons, List.not_mem_nil, or_false] at hp
  rcases hp with rfl | rfl
  · refine ⟨⟨old1, by rw [enc_k1_0]; simp [s0, disk0]⟩, ?_⟩
    intro k e hm hn
    simp only [s0, disk0, List.mem_cons, List.not_mem_nil, or_false, Prod.mk.injEq] at hm
    rcases hm with ⟨_, rfl⟩ | ⟨_, rfl⟩
    · rfl
    · rfl
  · refine ⟨⟨ent2, by rw [enc_k2_0]; simp [s0, disk0]⟩, ?_⟩
    intro k e hm hn
    simp only [s0, disk0, List.mem_cons, List.not_mem_nil, or_false, Prod.mk.injEq] at hm
    rcases hm with ⟨_, rfl⟩ | ⟨_, rfl⟩
    · rfl
    · rfl

theorem s0_k1_agrees : DiskAgrees s0 k1 m1 := s0_agrees.agrees (k1, m1) (by simp [s0])

/-- the calls of `persist` for "k": SET under deadline 5, then DELETE of the entry under deadline 0 -/
theorem persistCalls_s0 : persistCalls s0 k1 m1 = [.set k1 5 new1, .del k1 0] := rfl
theorem persistCallsOld_s0 : persistCallsOld s0 k1 m1 = [.del k1 0, .set k1 5 new1] := rfl
theorem flushCalls_s0 : flushCalls s0 1 = [.set k1 5 new1, .del k1 0] := by
  simp [flushCalls, s0, recordCalls, Meta.expired, Meta.isOk, Meta.isModified, m1, m2, persistCalls,
    setCalls, delOldCalls, mkEntry, new1]

/-- the window: a kill between the two calls leaves BOTH entries of "k" on disk -/
theorem window_disk : (applyCalls s0 ((persistCalls s0 k1 m1).take 1)).disk
    = [([0, 107], old1), ([0, 122], ent2), ([10, 107], new1)] := by
  rw [applyCalls_disk _ _ (take_subset_exact (persistCalls_exact s0 k1 m1) 1), persistCalls_s0]
  simp [runCalls, diskAfter, enc_k1_5, s0, disk0, AList.set, Bytes.lt]

theorem window_wf : DiskWF [([0, 107], old1), ([0, 122], ent2), ([10, 107], new1)] := by
  have : [([0, 107], old1), ([0, 122], ent2), ([10, 107], new1)] = runCalls disk0 [.set k1 5 new1] := by
    simp [runCalls, diskAfter, enc_k1_5, disk0, AList.set, Bytes.lt]
  rw [this]
  apply diskWF_run disk0_wf (pebble := true)
  simp [DiskCall.Exact, new1]

/-- before the step "k" is recovered with its old deadline and value -/
theorem recovered_before : recovered s0.disk k1 = some (0, .str [1]) := by
  show recovered disk0 k1 = _
  rw [recovered_eq disk0_wf]
  rfl

/-- in the window the entry scanned last is the new one (deadline 5 sorts after deadline 0) -/
theorem recovered_window : recovered (applyCalls s0 ((persistCalls s0 k1 m1).take 1)).disk k1 = some (5, .str [2]) := by
  rw [window_disk, recovered_eq window_wf]
  rfl

/-- after the whole step: only the new entry -/
theorem done_disk : (applyCalls s0 (persistCalls s0 k1 m1)).disk = [([0, 122], ent2), ([10, 107], new1)] := by
  rw [applyCalls_disk _ _ (persistCalls_exact s0 k1 m1), persistCalls_s0]
  simp [runCalls, diskAfter, enc_k1_5, enc_k1_0, s0, disk0, AList.set, AList.erase, Bytes.lt]

/-! the mirror case: the deadline is REMOVED (5 → 0); in the window the entry scanned last is the OLD one -/

def old5 : DiskEntry := { name := k1, exp := 5, val := .str [1] }
def new0 : DiskEntry := { name := k1, exp := 0, val := .str [2] }
def m1' : Meta := { exp := 0, value := some (.str [2]), state := 3, stored := some 5 }
def disk1 : AList DiskEntry := [([0, 122], ent2), ([10, 107], old5)]
def s1 : MState := { index := [(k1, m1'), (k2, m2)], disk := disk1, pebble := true }

theorem disk1_wf : DiskWF disk1 := by
  have : disk1 = runCalls [] [.set k1 5 old5, .set k2 0 ent2] := by
    simp [disk1, runCalls, diskAfter, enc_k1_5, enc_k2_0, AList.set, Bytes.lt]
  rw [this]
  apply diskWF_run diskWF_nil (pebble := true)
  simp [DiskCall.Exact, old5, ent2]

theorem window_disk' : (applyCalls s1 ((persistCalls s1 k1 m1').take 1)).disk
    = [([0, 107], new0), ([0, 122], ent2), ([10, 107], old5)] := by
  rw [applyCalls_disk _ _ (take_subset_exact (persistCalls_exact s1 k1 m1') 1)]
  have : persistCalls s1 k1 m1' = [.set k1 0 new0, .del k1 5] := rfl
  rw [this]
  simp [runCalls, diskAfter, enc_k1_0, s1, disk1, AList.set, Bytes.lt]

theorem recovered_window' :
    recovered (applyCalls s1 ((persistCalls s1 k1 m1').take 1)).disk k1 = some (5, .str [1])
      ∧ recovered s1.disk k1 = some (5, .str [1]) := by
  have hwf : DiskWF (applyCalls s1 ((persistCalls s1 k1 m1').take 1)).disk := by
    rw [applyCalls_disk _ _ (take_subset_exact (persistCalls_exact s1 k1 m1') 1)]
    exact diskWF_run disk1_wf _ (take_subset_exact (persistCalls_exact s1 k1 m1') 1)
  constructor
  · rw [recovered_eq hwf, window_disk']
    rfl
  · show recovered disk1 k1 = _
    rw [recovered_eq disk1_wf]
    rfl

/-! the order before the repair: DELETE first -/

theorem old_order_disk : (applyCalls s0 ((persistCallsOld s0 k1 m1).take 1)).disk = [([0, 122], ent2)] := by
  rw [applyCalls_disk _ _ (take_subset_exact (persistCallsOld_exact s0 k1 m1) 1), persistCallsOld_s0]
  simp [runCalls, diskAfter, enc_k1_0, s0, disk0, AList.erase]

theorem old_order_loses_key : recovered (applyCalls s0 ((persistCallsOld s0 k1 m1).take 1)).disk k1 = none := by
  have hwf : DiskWF [([0, 122], ent2)] := by
    have : [([0, 122], ent2)] = runCalls [] [.set k2 0 ent2] := by
      simp [runCalls, diskAfter, enc_k2_0, AList.set]
    rw [this]
    apply diskWF_run diskWF_nil (pebble := true)
    simp [DiskCall.Exact, ent2]
  rw [old_order_disk, recovered_eq hwf]
  rfl

/-! why `persist_crash_safe` asks for a loaded value: the model's `diskSet` writes nothing for a record
    without value, the DELETE of the earlier entry still runs (`flush` / `gc` only persist modified,
    hence loaded, records) -/

def m1c : Meta := { exp := 5, value := none, state := 1, stored := some 0 }

theorem persist_cold_loses_key : persistCalls s0 k1 m1c = [.del k1 0]
    ∧ recovered (applyCalls s0 (persistCalls s0 k1 m1c)).disk k1 = none := by
  refine ⟨rfl, ?_⟩
  have h : (applyCalls s0 (persistCalls s0 k1 m1c)).disk
      = (applyCalls s0 ((persistCallsOld s0 k1 m1).take 1)).disk := rfl
  rw [h]
  exact old_order_loses_key

end NodisVerif.C13.Ex
