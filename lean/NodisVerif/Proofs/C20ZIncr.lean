import NodisVerif.Proofs.C20SStore
/-
  C20, ZIncrBy.  The record is the increment itself.  The new score may be NaN (inf + -inf, or a NaN
  increment through the embedded API), which the sorted-set invariant does not cover: explicit region.
-/
namespace NodisVerif.Proofs.C20
open NodisVerif NodisVerif.Store NodisVerif.Spec.Persist NodisVerif.Proofs.C11

variable {now : Int} {p r : MState}

/-- two key transactions that decide alike on the content the key actually has run alike -/
theorem keyTx_congr {s : MState} (h : StoreInv s now) (write : Bool) (mk : Option Val) (miss : Out)
    (nov : MState → Api.R) (dec1 dec2 : Val → Int → Act) (key : Bytes)
    (hw : write = false → mk = none) (hmk : ∀ v, mk = some v → Good v)
    (hag1 : ∀ v e, lookup s now key = some (v, e) → dec1 v e = dec2 v e)
    (hag2 : ∀ v0, lookup s now key = none → mk = some v0 → dec1 v0 0 = dec2 v0 0) :
    keyTx write mk miss nov dec1 s now key = keyTx write mk miss nov dec2 s now key := by
  have ks : KeySpec s now now key mk (if write then writeKey s now key mk else readKey s now key) := by
    cases hwr : write with
    | true => exact writeKey_spec h (Int.le_refl _) key mk hmk
    | false => rw [hw hwr]; exact readKey_spec h (Int.le_refl _) key
  unfold keyTx
  generalize (if write then writeKey s now key mk else readKey s now key) = r0 at ks
  obtain ⟨s1, ok⟩ := r0
  simp only
  have run : ∀ (m : Meta) (v : Val), AList.get? s1.index key = some m → m.value = some v →
      valOf s1 key = some v ∧ Api.expOf s1 key = m.exp := by
    intro m v hm hv
    simp [valOf, Api.expOf, getMeta, hm, hv]
  cases hL : lookup s now key with
  | some c =>
    obtain ⟨v, e⟩ := c
    obtain ⟨_, _, m, hm, hv, he, _⟩ := ks.hit v e hL
    simp only at hm
    rw [(run m v hm hv).1, (run m v hm hv).2, he]
    simp only [hag1 v e hL]
  | none =>
    cases hmk0 : mk with
    | none =>
      obtain ⟨hok, _⟩ := ks.miss hL hmk0
      simp only at hok
      simp [hok]
    | some v0 =>
      obtain ⟨_, _, m, hm, hv, he, _⟩ := ks.make v0 hL hmk0
      simp only at hm
      rw [(run m v0 hm hv).1, (run m v0 hm hv).2, he]
      simp only [hag2 v0 hL hmk0]

def zincrSum (z : ZSet) (m : Bytes) (delta : F64) : F64 :=
  match AList.get? z.dict m with
  | some old => F64.add delta old
  | none => delta

def opZIncrBy (k m : Bytes) (delta : F64) : FeedOp := { typ := 28, key := k, args := [Bytes.toHex m, toString delta] }

/-- what the model does -/
def decZincrU (key m : Bytes) (delta : F64) (v : Val) (_ : Int) : Act :=
  match v with
  | .zset z =>
    .put (some (.zset (DsZSet.zAdd z m (zincrSum z m delta)).1)) none [opZIncrBy key m delta] (.f64 (zincrSum z m delta))
  | _ => .keep .panic

/-- the same, refusing NaN sums (never taken outside the region) -/
def decZincrG (key m : Bytes) (delta : F64) (v : Val) (e : Int) : Act :=
  match v with
  | .zset z => if F64.isNaN (zincrSum z m delta) then .keep .unsupported else decZincrU key m delta v e
  | _ => .keep .panic

def zincrF (key m : Bytes) (delta : F64) : TxForm :=
  ⟨true, some (.zset DsZSet.empty), .unit, Cmd.pan, decZincrG key m delta, key⟩

theorem zincrby_eqU (s : MState) (now : Int) (key m : Bytes) (delta : F64) :
    Api.zincrby s now key m delta =
      keyTx true (some (.zset DsZSet.empty)) .unit Cmd.pan (decZincrU key m delta) s now key := by
  refine Eq.trans ?_ (create_shape s now key _ _ _ _ (fun s1 => match Api.asZSet s1 key with
    | none => (s1, .panic)
    | some z =>
      (emit (signal (Api.setVal s1 key (.zset (DsZSet.zAdd z m (zincrSum z m delta)).1)) key) (opZIncrBy key m delta),
        .f64 (zincrSum z m delta))) ?_)
  · unfold Api.zincrby
    generalize writeKey s now key (some (.zset DsZSet.empty)) = q
    obtain ⟨s1, ok⟩ := q
    simp only
    cases Api.asZSet s1 key with
    | none => rfl
    | some z =>
      simp only [zincrSum, F64.add?]
      cases AList.get? z.dict m <;> rfl
  · intro s1; simp only [Api.asZSet]
    cases valOf s1 key with
    | none => rfl
    | some v => cases v <;> rfl

/-- region: the resulting score is NaN -/
def ZIncrByNaN (L : Option (Val × Int)) (m : Bytes) (delta : F64) : Prop :=
  match L with
  | none => F64.isNaN delta = true
  | some (.zset z, _) => F64.isNaN (zincrSum z m delta) = true
  | some _ => False

instance (L : Option (Val × Int)) (m : Bytes) (delta : F64) : Decidable (ZIncrByNaN L m delta) := by
  unfold ZIncrByNaN
  split <;> exact inferInstance

theorem zincrby_eq {s : MState} (h : StoreInv s now) (key m : Bytes) (delta : F64)
    (hreg : ¬ ZIncrByNaN (lookup s now key) m delta) :
    Api.zincrby s now key m delta = (zincrF key m delta).run s now := by
  rw [zincrby_eqU]
  refine keyTx_congr h true _ _ _ _ _ key (fun hc => nomatch hc) (fun v hv => by cases hv; exact good_emptyZSet) ?_ ?_
  · intro v e hL
    rw [hL] at hreg
    cases v with
    | zset z =>
      have : F64.isNaN (zincrSum z m delta) = false := by simpa [ZIncrByNaN] using hreg
      show decZincrU key m delta (.zset z) e = decZincrG key m delta (.zset z) e
      simp [decZincrG, this]
    | _ => rfl
  · intro v0 hL hv0
    cases hv0
    rw [hL] at hreg
    have : F64.isNaN (zincrSum DsZSet.empty m delta) = false := by
      have : zincrSum DsZSet.empty m delta = delta := by simp [zincrSum, DsZSet.empty, AList.get?]
      rw [this]; simpa [ZIncrByNaN] using hreg
    show decZincrU key m delta (.zset DsZSet.empty) 0 = decZincrG key m delta (.zset DsZSet.empty) 0
    simp [decZincrG, this]

theorem zincrF_ok (key m : Bytes) (delta : F64) (hb : m.length + 8 < 2 ^ 63) : (zincrF key m delta).OK := by
  refine ⟨(fun h => nomatch h), (fun w h => by cases h; exact good_emptyZSet), fun w e hg _ => ?_⟩
  cases w with
  | zset z =>
    show (decZincrG key m delta (.zset z) e).GoodA
    unfold decZincrG
    simp only
    split
    · trivial
    · rename_i hn
      exact ⟨(fun w hw => by cases hw; exact good_zadd z m _ hg (by simpa using hn) hb), (fun e he => by cases he)⟩
  | _ => trivial

theorem zincrF_nilSafe (key m : Bytes) (delta : F64) : (zincrF key m delta).NilSafe := by
  apply nilSafe_of
  · intro v e hv
    cases v <;> simp_all [zincrF, decZincrG, decZincrU]
  · intro v0 h0
    simp only [zincrF, Option.some.injEq] at h0
    subst h0
    simp only [zincrF, decZincrG, decZincrU]
    split <;> simp

theorem zincrby_main (hs : Same now p r) (hl : p.listeners = true) (hfd : p.feed = [])
    (c : Feed.CallInfo) (hc : plainMethod c.method = true) (k m : Bytes) (delta : F64) (hb : m.length + 8 < 2 ^ 63)
    (hreg : ¬ ZIncrByNaN (lookup p now k) m delta) :
    Replay now r c (Api.zincrby p now k m delta) ∧ (Api.zincrby p now k m delta).1.listeners = true ∧
    ∀ op ∈ (Api.zincrby p now k m delta).1.feed.reverse, op.key = k := by
  rw [zincrby_eq hs.invP k m delta hreg]
  have hok := zincrF_ok k m delta hb
  refine ⟨?_, congrArg Prod.snd (form_feed hok hs.invP hl), ?_⟩
  · refine main_form hs hl hfd (zincrF k m delta) hok (Feed.emission c)
      (fun hn e => post_nonil (zincrF_nilSafe k m delta) now _ (fun e0 => hn k e0) e) ?_
    intro r0 hi _ hK
    rw [emission_plain hc]
    have hreg0 : ¬ ZIncrByNaN (lookup r0 now k) m delta := by rw [hK k]; exact hreg
    have hap : Feed.applyOp r0 now (opZIncrBy k m delta) = some ((zincrF k m delta).run r0 now).1 := by
      simp [Feed.applyOp, opZIncrBy, pB_toHex, pF_toString, zincrby_eq hi k m delta hreg0]
    show Replays r0 now ((zincrF k m delta).ops (lookup r0 now k))
      (upd (lookup r0 now) k ((zincrF k m delta).post now (lookup r0 now k)))
    have one : Replays r0 now [opZIncrBy k m delta]
        (upd (lookup r0 now) k ((zincrF k m delta).post now (lookup r0 now k))) := Replays.one hi hok hap
    cases hL : lookup r0 now k with
    | none =>
      rw [hL] at hreg0
      have hn : F64.isNaN (zincrSum DsZSet.empty m delta) = false := by
        have : zincrSum DsZSet.empty m delta = delta := by simp [zincrSum, DsZSet.empty, AList.get?]
        rw [this]; simpa [ZIncrByNaN] using hreg0
      have : (zincrF k m delta).ops none = [opZIncrBy k m delta] := by
        simp [TxForm.ops, zincrF, decZincrG, decZincrU, hn, Act.ops]
      rw [this]; rw [hL] at one; exact one
    | some cc =>
      obtain ⟨v, e⟩ := cc
      rw [hL] at hreg0 one
      cases v with
      | zset z =>
        have hn : F64.isNaN (zincrSum z m delta) = false := by simpa [ZIncrByNaN] using hreg0
        have : (zincrF k m delta).ops (some (.zset z, e)) = [opZIncrBy k m delta] := by
          simp [TxForm.ops, zincrF, decZincrG, decZincrU, hn, Act.ops]
        rw [this]; exact one
      | _ =>
        all_goals
          rw [show (zincrF k m delta).ops (some (_, e)) = [] from rfl,
            show (zincrF k m delta).post now (some (_, e)) = some (_, e) from rfl, ← hL, upd_self]
          exact Replays.nil hi
  · intro op hop
    rw [(form_raw hok hs.invP hl hfd).1] at hop
    unfold TxForm.ops at hop
    have hk : ∀ v e, ∀ o ∈ Act.ops ((zincrF k m delta).dec v e), o.key = k := by
      intro v e o ho
      cases v with
      | zset z =>
        simp only [zincrF, decZincrG, decZincrU] at ho
        split at ho
        · cases ho
        · simp [Act.ops] at ho; subst ho; rfl
      | _ => cases ho
    split at hop
    · exact hk _ _ op hop
    · exact hk _ _ op hop
    · cases hop

end NodisVerif.Proofs.C20
