import NodisVerif.Proofs.C20Str2
/-
  C20: the generic "one record, one key transaction" lemma; the keyspace commands
  Expire* (13 forms), Persist, Del / Unlink, Rename, Clear.
-/
namespace NodisVerif.Proofs.C20
open NodisVerif NodisVerif.Store NodisVerif.Spec.Persist NodisVerif.Proofs.C11

variable {now : Int} {p r : MState}

/-! ### one record, replayed by one key transaction -/

theorem post_nonil {f : TxForm} (hns : f.NilSafe) (now : Int) (L : Option (Val × Int))
    (hL : ∀ e, L ≠ some (.strNil, e)) (e : Int) : f.post now L ≠ some (.strNil, e) := by
  unfold TxForm.post
  cases hsp : (f.spec L).2 with
  | none => exact hL e
  | some c =>
    cases c with
    | none => simp
    | some cc =>
      have := hns L (fun v e0 h hv => by subst hv; exact hL e0 h) cc hsp
      simp only [Option.bind_some]
      intro hc
      have h2 := filt_some hc
      subst h2
      exact this rfl

/-- what the primary's transaction `f` emits (after `em`) is nothing when nothing changes, or one
    record which the replica applies as a transaction `g` on the same key with the same effect -/
def OneOp (now : Int) (em : Out → List FeedOp → List FeedOp) (f : TxForm) (L : Option (Val × Int)) : Prop :=
  (em (f.spec L).1 (f.ops L) = [] ∧ f.post now L = L) ∨
  ∃ op g, em (f.spec L).1 (f.ops L) = [op] ∧ TxForm.OK g ∧ g.key = f.key ∧
    (∀ r0, Feed.applyOp r0 now op = some (g.run r0 now).1) ∧ g.post now L = f.post now L

theorem oneOp_tx (hs : Same now p r) (f : TxForm) (res : Api.R)
    (hsp : TxSpec p now now f.key (f.spec (lookup p now f.key)) res)
    (em : Out → List FeedOp → List FeedOp) (hns : f.NilSafe)
    (hop : ∀ L, Live now L → (∀ e, L ≠ some (.strNil, e)) → OneOp now em f L) :
    ∃ r', Feed.applyAll r now (em res.2 (f.ops (lookup p now f.key))) = some r' ∧ Same now res.1 r' := by
  refine main_tx hs f res hsp em (fun hn e => post_nonil hns now _ (fun e0 => hn f.key e0) e) ?_
  intro r0 h hn _
  rcases hop _ (live_lookup r0 now f.key) (fun e => hn f.key e) with ⟨h1, h2⟩ | ⟨op, g, h1, h2, h3, h4, h5⟩
  · rw [h1, h2, upd_self]; exact Replays.nil h
  · rw [h1]
    have := Replays.one h h2 (h4 r0)
    rw [h3, h5] at this
    exact this

theorem oneOp_main (hs : Same now p r) (hl : p.listeners = true) (hfd : p.feed = [])
    (c : Feed.CallInfo) (f : TxForm) (hf : f.OK) (hns : f.NilSafe)
    (hop : ∀ L, Live now L → (∀ e, L ≠ some (.strNil, e)) → OneOp now (Feed.emission c) f L) :
    Replay now r c (f.run p now) := by
  unfold Replay
  rw [(form_raw hf hs.invP hl hfd).1]
  exact oneOp_tx hs f _ (f.txspec hf hs.invP (Int.le_refl now)) (Feed.emission c) hns hop

/-! ### EXPIRE and friends -/

def expF (nov : MState → Api.R) (k : Bytes) (ts : Int) (cond : Int → Bool) : TxForm :=
  ⟨true, none, .int 0, nov, decExpire k ts cond, k⟩

theorem expF_ok (nov : MState → Api.R) (k : Bytes) (ts : Int) (cond : Int → Bool) (hts : inInt64 ts = true) :
    (expF nov k ts cond).OK :=
  ⟨(fun h => nomatch h), (fun _ h => nomatch h), fun v e _ _ => Cmd.goodA_expire k ts cond hts v e⟩

theorem expF_nilSafe (nov : MState → Api.R) (k : Bytes) (ts : Int) (cond : Int → Bool) : (expF nov k ts cond).NilSafe := by
  apply nilSafe_of
  · intro v e hv
    simp only [expF, decExpire]
    split <;> simp [hv]
  · intro v0 h0; cases h0

theorem expF_replay (hs : Same now p r) (hl : p.listeners = true) (hfd : p.feed = [])
    (c : Feed.CallInfo) (hc : plainMethod c.method = true) (nov : MState → Api.R) (k : Bytes) (ts : Int)
    (cond : Int → Bool) (hts : inInt64 ts = true) :
    Replay now r c ((expF nov k ts cond).run p now) := by
  refine oneOp_main hs hl hfd c _ (expF_ok nov k ts cond hts) (expF_nilSafe nov k ts cond) ?_
  intro L _ _
  unfold OneOp
  rw [emission_plain hc]
  cases L with
  | none => left; simp [TxForm.ops, TxForm.post, TxForm.spec, txSpec, expF]
  | some cc =>
    obtain ⟨v, e0⟩ := cc
    by_cases hcd : cond e0 = true
    · right
      refine ⟨Api.opExpire k ts, expireAtF now k ts, ?_, expireAtF_ok now k ts hts, rfl, ?_, ?_⟩
      · simp [TxForm.ops, expF, decExpire, hcd, Act.ops]
      · intro r0
        have h2 : ∀ s, Api.expireAt s now k ts = (expireAtF now k ts).run s now := fun s => expireAt_eq s now k ts
        simp [Feed.applyOp, Api.opExpire, h2]
      · rw [expireAtF_post]
        simp [TxForm.post, TxForm.spec, txSpec, expF, decExpire, hcd, Act.eff, expirePost]
    · left
      simp [TxForm.ops, TxForm.post, TxForm.spec, txSpec, expF, decExpire, hcd, Act.ops, Act.eff]

theorem expCond_replay (hs : Same now p r) (hl : p.listeners = true) (hfd : p.feed = [])
    (c : Feed.CallInfo) (hc : plainMethod c.method = true) (k : Bytes) (ts : Int)
    (cond : Int → Bool) (hts : inInt64 ts = true) :
    Replay now r c ((expireCondForm k ts cond).run p now) :=
  expF_replay hs hl hfd c hc
    (fun s1 => if cond (Api.expOf s1 k) then (Api.applyExp s1 k ts, .int 1) else (s1, .int 0)) k ts cond hts

theorem expireAt_replay (hs : Same now p r) (hl : p.listeners = true) (hfd : p.feed = [])
    (c : Feed.CallInfo) (hc : plainMethod c.method = true) (k : Bytes) (ts : Int) (hts : inInt64 ts = true) :
    Replay now r c (Api.expireAt p now k ts) := by
  rw [expireAt_eq]
  exact expF_replay hs hl hfd c hc (fun s1 => (Api.applyExp s1 k ts, .int 1)) k ts (fun _ => true) hts

theorem expireAtNX_replay (hs : Same now p r) (hl : p.listeners = true) (hfd : p.feed = [])
    (c : Feed.CallInfo) (hc : plainMethod c.method = true) (k : Bytes) (ts : Int) (hts : inInt64 ts = true) :
    Replay now r c (Api.expireAtNX p now k ts) := by
  rw [expireAtNX_eq]
  exact expCond_replay hs hl hfd c hc k ts (fun e => decide (e = 0)) hts

theorem expireAtXX_replay (hs : Same now p r) (hl : p.listeners = true) (hfd : p.feed = [])
    (c : Feed.CallInfo) (hc : plainMethod c.method = true) (k : Bytes) (ts : Int) (hts : inInt64 ts = true) :
    Replay now r c (Api.expireAtXX p now k ts) := by
  rw [expireAtXX_eq]
  exact expCond_replay hs hl hfd c hc k ts (fun e => decide (e ≠ 0)) hts

theorem expireAtLT_replay (hs : Same now p r) (hl : p.listeners = true) (hfd : p.feed = [])
    (c : Feed.CallInfo) (hc : plainMethod c.method = true) (k : Bytes) (ts : Int) (hts : inInt64 ts = true) :
    Replay now r c (Api.expireAtLT p now k ts) := by
  rw [expireAtLT_eq]
  exact expCond_replay hs hl hfd c hc k ts (fun e => decide (e ≠ 0) && decide (ts < e)) hts

theorem expireAtGT_replay (hs : Same now p r) (hl : p.listeners = true) (hfd : p.feed = [])
    (c : Feed.CallInfo) (hc : plainMethod c.method = true) (k : Bytes) (ts : Int) (hts : inInt64 ts = true) :
    Replay now r c (Api.expireAtGT p now k ts) := by
  rw [expireAtGT_eq]
  exact expCond_replay hs hl hfd c hc k ts (fun e => decide (e < ts)) hts

theorem expireNX_replay (hs : Same now p r) (hl : p.listeners = true) (hfd : p.feed = [])
    (c : Feed.CallInfo) (hc : plainMethod c.method = true) (k : Bytes) (seconds : Int) :
    Replay now r c (Api.expireNX p now k seconds) := by
  rw [expireNX_eq]
  exact expCond_replay hs hl hfd c hc k _ (fun e => decide (e = 0)) (inInt64_wrap64 _)

theorem expireXX_replay (hs : Same now p r) (hl : p.listeners = true) (hfd : p.feed = [])
    (c : Feed.CallInfo) (hc : plainMethod c.method = true) (k : Bytes) (seconds : Int) :
    Replay now r c (Api.expireXX p now k seconds) := by
  rw [expireXX_eq]
  exact expCond_replay hs hl hfd c hc k _ (fun e => decide (e ≠ 0)) (inInt64_wrap64 _)

theorem expireLT_replay (hs : Same now p r) (hl : p.listeners = true) (hfd : p.feed = [])
    (c : Feed.CallInfo) (hc : plainMethod c.method = true) (k : Bytes) (seconds : Int) :
    Replay now r c (Api.expireLT p now k seconds) := by
  rw [expireLT_eq]
  exact expCond_replay hs hl hfd c hc k _
    (fun e => decide (e ≠ 0) && decide (wrap64 (now + wrap64 (seconds * 1000)) < e)) (inInt64_wrap64 _)

theorem expireGT_replay (hs : Same now p r) (hl : p.listeners = true) (hfd : p.feed = [])
    (c : Feed.CallInfo) (hc : plainMethod c.method = true) (k : Bytes) (seconds : Int) :
    Replay now r c (Api.expireGT p now k seconds) := by
  rw [expireGT_eq]
  exact expCond_replay hs hl hfd c hc k _
    (fun e => decide (e < wrap64 (now + wrap64 (seconds * 1000)))) (inInt64_wrap64 _)

/-! ### PERSIST -/

theorem persist_replay (hs : Same now p r) (hl : p.listeners = true) (hfd : p.feed = [])
    (c : Feed.CallInfo) (hc : plainMethod c.method = true) (k : Bytes) :
    Replay now r c (Api.persist p now k) := by
  rw [apiPersist_eq]
  refine oneOp_main hs hl hfd c (persistF now k) (persistF_ok now k) (Cmd.nilSafe (.persist k) now trivial) ?_
  intro L hlive _
  unfold OneOp
  rw [emission_plain hc]
  cases L with
  | none => left; simp [TxForm.ops, TxForm.post, TxForm.spec, txSpec, persistF, Cmd.form]
  | some cc =>
    obtain ⟨v, e0⟩ := cc
    by_cases h0 : e0 = 0
    · left
      simp [TxForm.ops, TxForm.post, TxForm.spec, txSpec, persistF, Cmd.form, decPersist, h0, Act.ops, Act.eff]
    · right
      refine ⟨{ typ := 33, key := k }, persistF now k, ?_, persistF_ok now k, rfl, ?_, rfl⟩
      · simp [TxForm.ops, persistF, Cmd.form, decPersist, h0, Act.ops]
      · intro r0
        have h2 : ∀ s, Api.persist s now k = (persistF now k).run s now := fun s => apiPersist_eq s now k
        simp [Feed.applyOp, h2]

/-! ### DEL / UNLINK -/

theorem delStep_fl {s : MState} {n : Int} (h : StoreInv s now) (hl : s.listeners = true) (k : Bytes) :
    fl (delStep now (s, n) k).1 =
      ((if (lookup s now k).isSome then [({ typ := 2, key := k } : FeedOp)] else []) ++ s.feed, true) := by
  have ks := writeKey_spec h (Int.le_refl now) k none (fun _ hc => nomatch hc)
  have hfl := fl_writeKey s now k none
  unfold delStep
  simp only
  generalize writeKey s now k none = r0 at ks hfl
  obtain ⟨s1, okk⟩ := r0
  simp only at hfl ⊢
  have hl1 : s1.listeners = true := (congrArg Prod.snd hfl).trans hl
  have hf1 : s1.feed = s.feed := congrArg Prod.fst hfl
  cases hL : lookup s now k with
  | none =>
    obtain ⟨hok, _⟩ := ks.miss hL rfl
    simp only at hok
    simp [hok, fl, hl1, hf1]
  | some cc =>
    obtain ⟨v, e⟩ := cc
    obtain ⟨hok, _⟩ := ks.hit v e hL
    simp only at hok
    simp only [hok, Bool.not_true, Bool.false_eq_true, if_false, Option.isSome_some, if_true]
    have hfd : fl (delKey s1 k) = fl s1 := fl_delKey s1 k
    have hl2 : (delKey s1 k).listeners = true := (congrArg Prod.snd hfd).trans hl1
    have hf2 : (delKey s1 k).feed = s1.feed := congrArg Prod.fst hfd
    simp [emit, fl, hl2, hf2, hf1]

theorem del_step (hs : Same now p r) (hl : p.listeners = true) (n : Int) (k : Bytes) :
    ∃ ops r', fl (delStep now (p, n) k).1 = (ops.reverse ++ p.feed, true) ∧
      Feed.applyAll r now ops = some r' ∧ Same now (delStep now (p, n) k).1 r' ∧
      ∀ op ∈ ops, op.key = k := by
  obtain ⟨i1, _, _, l1⟩ := delStep_spec (acc := (p, n)) hs.invP (Int.le_refl now) k
  have hfl := delStep_fl (n := n) hs.invP hl k
  have hlook : ∀ k', lookup (delStep now (p, n) k).1 now k' = upd (lookup p now) k none k' := by
    intro k'
    rw [l1 now (Int.le_refl _) k']
    simp only [applyEff, upd]
    cases hL : lookup p now k with
    | none =>
      simp only [Option.isSome_none, Bool.false_eq_true, if_false]
      by_cases hk : k' = k
      · subst hk; simp [hL]
      · simp [hk]
    | some c => simp
  have hnn : NoNil (delStep now (p, n) k).1 now := by
    intro k' e
    rw [hlook k']
    by_cases hk : k' = k
    · simp [upd, hk]
    · rw [upd_other _ _ _ hk]; exact hs.nonil k' e
  cases hL : lookup p now k with
  | none =>
    refine ⟨[], r, ?_, rfl, ?_, fun _ h => nomatch h⟩
    · rw [hfl, hL]; rfl
    · refine Same.of_look i1 hs.invR (fun k' => ?_) hnn
      rw [hlook k', hs.look k']
      by_cases hk : k' = k
      · subst hk; simp [upd, hL]
      · rw [upd_other _ _ _ hk]
  | some cc =>
    obtain ⟨r', a, b, cL⟩ := replays_del hs.invR k
    refine ⟨[{ typ := 2, key := k }], r', ?_, a, ?_, ?_⟩
    · rw [hfl, hL]; rfl
    · refine Same.of_look i1 b (fun k' => ?_) hnn
      rw [hlook k', cL k', funext hs.look]
    · intro op hop; simp at hop; subst hop; rfl

theorem del_fold (keys : List Bytes) : ∀ (p r : MState) (n : Int), Same now p r → p.listeners = true →
    ∃ ops r', fl (keys.foldl (delStep now) (p, n)).1 = (ops.reverse ++ p.feed, true) ∧
      Feed.applyAll r now ops = some r' ∧ Same now (keys.foldl (delStep now) (p, n)).1 r' ∧
      ∀ op ∈ ops, op.key ∈ keys := by
  induction keys with
  | nil => intro p r n hs hl; exact ⟨[], r, by simp [fl, hl], rfl, hs, fun _ h => nomatch h⟩
  | cons k rest ih =>
    intro p r n hs hl
    obtain ⟨ops1, r1, f1, a1, s1, k1⟩ := del_step hs hl n k
    simp only [List.foldl_cons]
    have hl1 : (delStep now (p, n) k).1.listeners = true := congrArg Prod.snd f1
    have hf1 : (delStep now (p, n) k).1.feed = ops1.reverse ++ p.feed := congrArg Prod.fst f1
    obtain ⟨ops2, r2, f2, a2, s2, k2⟩ := ih (delStep now (p, n) k).1 r1 (delStep now (p, n) k).2 s1 hl1
    refine ⟨ops1 ++ ops2, r2, ?_, ?_, s2, ?_⟩
    · rw [show delStep now (p, n) k = ((delStep now (p, n) k).1, (delStep now (p, n) k).2) from rfl, f2, hf1]
      simp
    · rw [applyAll_append, a1]; exact a2
    · intro op hop
      rcases List.mem_append.mp hop with h | h
      · rw [k1 op h]; simp
      · exact List.mem_cons_of_mem _ (k2 op h)

theorem del_replay (hs : Same now p r) (hl : p.listeners = true) (hfd : p.feed = [])
    (c : Feed.CallInfo) (hc : plainMethod c.method = true) (keys : List Bytes) :
    Replay now r c (Api.del p now keys) := by
  unfold Replay
  rw [emission_plain hc, del_eq]
  obtain ⟨ops, r', f, a, s, _⟩ := del_fold (now := now) keys p r 0 hs hl
  simp only
  have : (keys.foldl (delStep now) (p, 0)).1.feed = ops.reverse ++ p.feed := congrArg Prod.fst f
  rw [this, hfd]
  simp only [List.append_nil, List.reverse_reverse]
  exact ⟨r', a, s⟩

theorem del_lis (hs : Same now p r) (hl : p.listeners = true) (keys : List Bytes) :
    (Api.del p now keys).1.listeners = true := by
  rw [del_eq]
  obtain ⟨ops, r', f, _, _, _⟩ := del_fold (now := now) keys p r 0 hs hl
  exact congrArg Prod.snd f

theorem form_lis {f : TxForm} (hf : f.OK) (h : StoreInv p now) (hl : p.listeners = true) :
    (f.run p now).1.listeners = true := congrArg Prod.snd (form_feed hf h hl)

/-- EXPIRE / PEXPIRE (zero = DEL) -/
theorem expire_replay (hs : Same now p r) (hl : p.listeners = true) (hfd : p.feed = [])
    (c : Feed.CallInfo) (hc : plainMethod c.method = true) (k : Bytes) (seconds : Int) :
    Replay now r c (Api.expire p now k seconds) := by
  by_cases h0 : seconds = 0
  · have : Api.expire p now k seconds = Api.del p now [k] := by unfold Api.expire; rw [if_pos h0]
    rw [this]; exact del_replay hs hl hfd c hc [k]
  · rw [expire_eq p now k seconds h0]
    exact expF_replay hs hl hfd c hc (fun s1 => (Api.applyExp s1 k (wrap64 (now + wrap64 (seconds * 1000))), .int 1))
      k _ (fun _ => true) (inInt64_wrap64 _)

theorem expirePX_replay (hs : Same now p r) (hl : p.listeners = true) (hfd : p.feed = [])
    (c : Feed.CallInfo) (hc : plainMethod c.method = true) (k : Bytes) (ms : Int) :
    Replay now r c (Api.expirePX p now k ms) := by
  by_cases h0 : ms = 0
  · have : Api.expirePX p now k ms = Api.del p now [k] := by unfold Api.expirePX; rw [if_pos h0]
    rw [this]; exact del_replay hs hl hfd c hc [k]
  · rw [expirePX_eq p now k ms h0]
    exact expF_replay hs hl hfd c hc (fun s1 => (Api.applyExp s1 k (wrap64 (now + ms)), .int 1))
      k _ (fun _ => true) (inInt64_wrap64 _)

end NodisVerif.Proofs.C20
