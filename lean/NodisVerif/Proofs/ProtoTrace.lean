import NodisVerif.Proofs.ProtoPhase
/-
  Locking protocol: strict two-phase locking along a trace (C07): no release of a validated hold before
  the commit, no acquisition after it, conflicts are ordered like the commits.
-/
namespace NodisVerif.Proofs.Proto
open NodisVerif.Proto

/-- `t` is active and holds record `r`, validated -/
def HoldsValid (s : PState) (t : Tx) (r : Rec) : Prop :=
  ∃ st h, s.tx t = some st ∧ h ∈ st.holds ∧ h.valid = true ∧ h.rid = r

theorem mem_setHold_of_ne {st : TxSt} {h g : Hold} (hg : g ∈ st.holds) (hne : g.rid ≠ h.rid) :
    g ∈ (st.setHold h).holds := mem_setHold.2 (Or.inr ⟨hg, hne⟩)

/-- before its commit a transaction keeps every validated hold: no step releases or invalidates it -/
theorem holdsValid_step {s s' : PState} {e : Ev} {t : Tx} {r : Rec} (hi : Inv s) (hq : HoldsValid s t r)
    (hp : phase s t = some false) (hs : step s e = some s') : e ≠ .unlock t r ∧ HoldsValid s' t r := by
  obtain ⟨st, h, htx, hh, hv, hr⟩ := hq
  have hc : st.committing = false := by rw [phase_of_tx htx] at hp; exact Option.some.inj hp
  by_cases he : evTx e = some t
  · cases e with
    | begin u =>
      simp only [evTx, Option.some.injEq] at he; subst he
      obtain ⟨h1, _⟩ := step_begin.1 hs
      rw [htx] at h1; cases h1
    | look u k r' =>
      obtain ⟨_, _, _, _, _, rfl⟩ := step_look.1 hs
      exact ⟨nofun, st, h, htx, hh, hv, hr⟩
    | claim u k r' m =>
      simp only [evTx, Option.some.injEq] at he; subst he
      obtain ⟨st1, h1, _, _, _, hf, rfl⟩ := step_claim.1 hs
      rw [htx] at h1; cases h1
      have hne : h.rid ≠ r' := by
        intro c
        have := hi.holdName u st h htx hh
        rw [c, hf] at this; cases this
      exact ⟨nofun, _, h, tx_setTx_same _ _ _, mem_setHold_of_ne hh hne, hv, hr⟩
    | wait u k r' m =>
      simp only [evTx, Option.some.injEq] at he; subst he
      obtain ⟨st1, h1, _, _, _, _, _, rfl⟩ := step_wait.1 hs
      rw [htx] at h1; cases h1
      exact ⟨nofun, _, h, tx_setTx_same _ _ _, hh, hv, hr⟩
    | lock u k r' m =>
      simp only [evTx, Option.some.injEq] at he; subst he
      obtain ⟨st1, h1, hw, _, rfl⟩ := step_lock.1 hs
      rw [htx] at h1; cases h1
      have hne : h.rid ≠ r' := holdOf_none.1 (hi.waitOk u st k r' m htx hw).2.2.2 h hh
      exact ⟨nofun, _, h, tx_setTx_same _ _ _, mem_setHold_of_ne (st := { st with waiting := none }) hh hne, hv, hr⟩
    | valid u k r' ok =>
      simp only [evTx, Option.some.injEq] at he; subst he
      obtain ⟨st1, h0, h1, hof, hv0, _, ⟨_, rfl⟩ | ⟨_, _, rfl⟩⟩ := step_valid.1 hs
      · exact ⟨nofun, st, h, htx, hh, hv, hr⟩
      · rw [htx] at h1; cases h1
        obtain ⟨hm0, hr0⟩ := holdOf_some hof
        have hne : h.rid ≠ r' := by
          intro c
          have := same_hold (hi.holdNodup u st htx) hh hm0 (c.trans hr0.symm)
          subst this; rw [hv] at hv0; cases hv0
        exact ⟨nofun, _, h, tx_setTx_same _ _ _, mem_setHold_of_ne hh (by rw [hr0]; exact hne), hv, hr⟩
    | publish u k r' =>
      obtain ⟨_, _, _, _, _, _, _, _, _, _, rfl⟩ := step_publish.1 hs
      exact ⟨nofun, st, h, htx, hh, hv, hr⟩
    | unlink u k r' =>
      obtain ⟨_, _, _, _, _, _, _, _, _, rfl⟩ := step_unlink.1 hs
      exact ⟨nofun, st, h, htx, hh, hv, hr⟩
    | commit u =>
      simp only [evTx, Option.some.injEq] at he; subst he
      obtain ⟨st1, h1, _, _, _, rfl⟩ := step_commit.1 hs
      rw [htx] at h1; cases h1
      exact ⟨nofun, _, h, tx_setTx_same _ _ _, hh, hv, hr⟩
    | trylock u k r' =>
      simp only [evTx, Option.some.injEq] at he; subst he
      obtain ⟨st1, h1, hc1, _⟩ := step_trylock.1 hs
      rw [htx] at h1; cases h1
      rw [hc] at hc1; cases hc1
    | drop u k r' =>
      obtain ⟨_, _, _, _, _, _, _, _, rfl⟩ := step_drop.1 hs
      exact ⟨nofun, st, h, htx, hh, hv, hr⟩
    | unlock u r' =>
      simp only [evTx, Option.some.injEq] at he; subst he
      obtain ⟨st1, h0, h1, hof, hcv, rfl⟩ := step_unlock.1 hs
      rw [htx] at h1; cases h1
      obtain ⟨hm0, hr0⟩ := holdOf_some hof
      have hne : h.rid ≠ r' := by
        intro c
        have := same_hold (hi.holdNodup u st htx) hh hm0 (c.trans hr0.symm)
        subst this
        rcases hcv with a | a
        · rw [hc] at a; cases a
        · rw [hv] at a; cases a
      refine ⟨?_, _, h, tx_setTx_same _ _ _, mem_delHold.2 ⟨hh, hne⟩, hv, hr⟩
      intro c
      simp only [Ev.unlock.injEq] at c
      exact hne (hr.trans c.2.symm)
    | fin u =>
      simp only [evTx, Option.some.injEq] at he; subst he
      obtain ⟨st1, h1, hemp, _⟩ := step_fin.1 hs
      rw [htx] at h1; cases h1
      rw [hemp] at hh; cases hh
    | clear => cases he
  · refine ⟨?_, st, h, ?_, hh, hv, hr⟩
    · intro c; subst c; exact he rfl
    · rw [tx_step_other hs he]; exact htx

/-- C07.2 (lock point), on a stretch of the trace that ends with `commit t`: a hold that is validated
    at the beginning of the stretch is not released inside it -/
theorem lock_point_stretch {s s' : PState} {mid : List Ev} {t : Tx} {r : Rec} (hi : Inv s)
    (hq : HoldsValid s t r) (hs : runAll s (mid ++ [.commit t]) = some s') (hnf : ∀ e ∈ mid, e ≠ .fin t) :
    (∀ e ∈ mid, e ≠ .unlock t r) ∧
      ∃ sc, runAll s mid = some sc ∧ HoldsValid sc t r ∧ phase sc t = some false := by
  induction mid generalizing s with
  | nil =>
    refine ⟨nofun, s, rfl, hq, ?_⟩
    simp only [List.nil_append, runAll_single] at hs
    rcases phase_step hs t with ⟨a, _, _⟩ | ⟨a, _, _⟩ | ⟨_, a, _⟩ | ⟨_, _, a, _⟩
    · cases a
    · cases a
    · exact a
    · exact absurd rfl a
  | cons e mid ih =>
    obtain ⟨s1, h1, h2⟩ := runAll_cons_some (by simpa using hs)
    -- `t` is still growing here: otherwise it would be committing at the final `commit t`
    have hp : phase s t = some false := by
      obtain ⟨st, h, htx, _⟩ := hq
      cases hc : st.committing with
      | false => rw [phase_of_tx htx, hc]
      | true =>
        obtain ⟨sc, h3, h4⟩ := runAll_append_some hs
        have := phase_true_run h3 (by rw [phase_of_tx htx, hc]) hnf
        rw [runAll_single] at h4
        rcases phase_step h4 t with ⟨a, _, _⟩ | ⟨a, _, _⟩ | ⟨_, a, _⟩ | ⟨_, _, a, _⟩
        · cases a
        · cases a
        · rw [this] at a; cases a
        · exact absurd rfl a
    obtain ⟨hne, hq1⟩ := holdsValid_step hi hq hp h1
    obtain ⟨hrest, sc, h3, h4, h5⟩ := ih (hi.step h1) hq1 h2 (fun x hx => hnf x (List.mem_cons_of_mem _ hx))
    refine ⟨?_, sc, by simp [runAll_cons, h1, h3], h4, h5⟩
    intro x hx
    rcases List.mem_cons.1 hx with rfl | hx
    · exact hne
    · exact hrest x hx

/-- the two events that validate a hold of `t` on `r` -/
def Validates (t : Tx) (r : Rec) (e : Ev) : Prop :=
  (∃ k, e = .valid t k r true) ∨ (∃ k m, e = .claim t k r m)

theorem validates_step {s s' : PState} {e : Ev} {t : Tx} {r : Rec} (hv : Validates t r e)
    (hs : step s e = some s') : HoldsValid s' t r := by
  rcases hv with ⟨k, rfl⟩ | ⟨k, m, rfl⟩
  · obtain ⟨st, h, htx, hof, _, _, ⟨c, _⟩ | ⟨_, _, rfl⟩⟩ := step_valid.1 hs
    · cases c
    · exact ⟨_, _, tx_setTx_same _ _ _, mem_setHold.2 (Or.inl rfl), rfl, (holdOf_some hof).2⟩
  · obtain ⟨st, htx, _, _, _, _, rfl⟩ := step_claim.1 hs
    exact ⟨_, _, tx_setTx_same _ _ _, mem_setHold.2 (Or.inl rfl), rfl, rfl⟩

/-- C07.2, decomposed trace -/
theorem lock_point_decomposed {s : PState} {pre mid post : List Ev} {v : Ev} {t : Tx} {r : Rec}
    (hs : runAll {} (pre ++ v :: (mid ++ .commit t :: post)) = some s) (hv : Validates t r v)
    (hnf : ∀ e ∈ mid, e ≠ .fin t) :
    (∀ e ∈ mid, e ≠ .unlock t r) ∧
      ∃ sc, runAll {} (pre ++ v :: mid) = some sc ∧ HoldsValid sc t r ∧ phase sc t = some false := by
  obtain ⟨s1, h1, h2⟩ := runAll_append_some hs
  obtain ⟨s2, h3, h4⟩ := runAll_cons_some h2
  have h4' : runAll s2 ((mid ++ [.commit t]) ++ post) = some s := by simpa using h4
  obtain ⟨s3, h5, _⟩ := runAll_append_some h4'
  have hi2 : Inv s2 := (Inv.init.run h1).step h3
  obtain ⟨a, sc, b, c, d⟩ := lock_point_stretch hi2 (validates_step hv h3) h5 hnf
  refine ⟨a, sc, ?_, c, d⟩
  rw [runAll_append, h1]; simp [runAll_cons, h3, b]

/-! ## no acquisition after the commit -/

/-- the steps of the growing phase -/
def Grows (t : Tx) : Ev → Prop
  | .look u _ _ | .claim u _ _ _ | .wait u _ _ _ | .lock u _ _ _ | .publish u _ _ | .unlink u _ _
  | .commit u => u = t
  | _ => False

/-- a growing step is only taken in the growing phase -/
theorem grows_phase {s s' : PState} {e : Ev} {t : Tx} (hi : Inv s) (hg : Grows t e)
    (hs : step s e = some s') : phase s t = some false := by
  cases e with
  | look u k r =>
    simp only [Grows] at hg; subst hg
    obtain ⟨st, h1, h2, _⟩ := step_look.1 hs
    rw [phase_of_tx h1, h2]
  | claim u k r m =>
    simp only [Grows] at hg; subst hg
    obtain ⟨st, h1, h2, _⟩ := step_claim.1 hs
    rw [phase_of_tx h1, h2]
  | wait u k r m =>
    simp only [Grows] at hg; subst hg
    obtain ⟨st, h1, h2, _⟩ := step_wait.1 hs
    rw [phase_of_tx h1, h2]
  | lock u k r m =>
    simp only [Grows] at hg; subst hg
    obtain ⟨st, h1, hw, _⟩ := step_lock.1 hs
    rw [phase_of_tx h1, (hi.waitOk u st k r m h1 hw).2.1]
  | publish u k r =>
    simp only [Grows] at hg; subst hg
    obtain ⟨st, _, h1, _, _, _, _, h2, _⟩ := step_publish.1 hs
    rw [phase_of_tx h1, h2]
  | unlink u k r =>
    simp only [Grows] at hg; subst hg
    obtain ⟨st, _, h1, _, _, _, _, h2, _⟩ := step_unlink.1 hs
    rw [phase_of_tx h1, h2]
  | commit u =>
    simp only [Grows] at hg; subst hg
    obtain ⟨st, h1, h2, _⟩ := step_commit.1 hs
    rw [phase_of_tx h1, h2]
  | begin u => cases hg
  | valid u k r ok => cases hg
  | trylock u k r => cases hg
  | drop u k r => cases hg
  | unlock u r => cases hg
  | fin u => cases hg
  | clear => cases hg

/-- C07.1, decomposed trace: between `commit t` and the next `fin t` there is no growing step of `t` -/
theorem no_growth_after_commit {s : PState} {pre mid : List Ev} {e : Ev} {t : Tx}
    (hs : runAll {} (pre ++ .commit t :: (mid ++ [e])) = some s) (hnf : ∀ x ∈ mid, x ≠ .fin t) :
    ¬ Grows t e := by
  intro hg
  obtain ⟨s1, h1, h2⟩ := runAll_append_some hs
  obtain ⟨s2, h3, h4⟩ := runAll_cons_some h2
  obtain ⟨s3, h5, h6⟩ := runAll_append_some h4
  rw [runAll_single] at h6
  have hp2 : phase s2 t = some true := by
    rcases phase_step h3 t with ⟨a, _, _⟩ | ⟨a, _, _⟩ | ⟨_, _, a⟩ | ⟨_, _, a, _⟩
    · cases a
    · cases a
    · exact a
    · exact absurd rfl a
  have hp3 := phase_true_run h5 hp2 hnf
  have hi3 : Inv s3 := ((Inv.init.run h1).step h3).run h5
  rw [grows_phase hi3 hg h6] at hp3
  cases hp3

/-- a validated hold is only released by a committing transaction, and its `commit` is in the trace -/
theorem commit_before_release {s : PState} {pre : List Ev} {t : Tx} {r : Rec}
    (hs : runAll {} pre = some s) (hq : HoldsValid s t r) {s' : PState} (hu : step s (.unlock t r) = some s') :
    ∃ p1 p2, pre = p1 ++ .commit t :: p2 ∧ ∀ e ∈ p2, e ≠ .fin t := by
  have hi := Inv.init.run hs
  obtain ⟨st, h, htx, hh, hv, hr⟩ := hq
  obtain ⟨st1, h0, h1, hof, hcv, _⟩ := step_unlock.1 hu
  rw [htx] at h1; cases h1
  obtain ⟨hm0, hr0⟩ := holdOf_some hof
  have := same_hold (hi.holdNodup t st htx) hh hm0 (hr.trans hr0.symm)
  subst this
  have hc : st.committing = true := by
    rcases hcv with a | a
    · exact a
    · rw [hv] at a; cases a
  refine committing_has_commit (s0 := {}) (t := t) ?_ pre s hs (by rw [phase_of_tx htx, hc])
  simp [phase, PState.tx, assoc]

end NodisVerif.Proofs.Proto
