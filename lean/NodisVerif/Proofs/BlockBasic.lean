import NodisVerif.Model.Block
/-
  Basic facts about the BLPOP/BRPOP wake-up protocol `Model/Block.lean`:
  `get`/`set`/`del` algebra, the per-waiter local step `lstep` (every `step` touches exactly one
  waiter), `runAll`, `Reachable`, and the invariant principles used by BlockInv / BlockTrace.
-/
namespace NodisVerif.Proofs.Block
open NodisVerif.Block

deriving instance DecidableEq for WSt

/-! ## get / set / del -/

theorem get_nil (w : W) : get [] w = none := rfl

theorem find_filter_ne (s : BState) (w w' : W) (h : w' ≠ w) :
    (s.filter (fun p => !(p.1 == w))).find? (·.1 == w') = s.find? (·.1 == w') := by
  rw [List.find?_filter]
  congr 1; funext p
  by_cases hq : p.1 = w' <;> simp [hq, h]

theorem find_filter_self (s : BState) (w : W) :
    (s.filter (fun p => !(p.1 == w))).find? (·.1 == w) = none := by
  rw [List.find?_filter]
  simp

theorem get_set_self (s : BState) (w : W) (st : WSt) : get (set s w st) w = some st := by
  simp [Block.get, Block.set]

theorem get_set_ne (s : BState) (w w' : W) (st : WSt) (h : w' ≠ w) :
    get (set s w st) w' = get s w' := by
  have : ¬ w = w' := fun e => h e.symm
  simp [Block.get, Block.set, this, find_filter_ne s w w' h]

theorem get_del_self (s : BState) (w : W) : get (del s w) w = none := by
  simp [Block.get, Block.del]

theorem get_del_ne (s : BState) (w w' : W) (h : w' ≠ w) : get (del s w) w' = get s w' := by
  simp [Block.get, Block.del, find_filter_ne s w w' h]

/-- write back an optional waiter state (`none` = the waiter leaves) -/
def put (s : BState) (w : W) : Option WSt → BState
  | some st => set s w st
  | none => del s w

theorem get_put_self (s : BState) (w : W) (o : Option WSt) : get (put s w o) w = o := by
  cases o <;> simp [put, get_set_self, get_del_self]

theorem get_put_ne (s : BState) (w w' : W) (o : Option WSt) (h : w' ≠ w) :
    get (put s w o) w' = get s w' := by
  cases o <;> simp [put, get_set_ne _ _ _ _ h, get_del_ne _ _ _ h]

/-! ## events -/

/-- the waiter an event is about -/
def evW : Ev → W
  | .reg w _ | .try_ w _ _ | .block w _ | .wake w | .timeout w | .notify w _ | .abort w | .unreg w _
  | .fin w => w

/-- the event is an action of waiter `w` itself (everything but `notify`, which is the pusher's) -/
def own (w : W) : Ev → Bool
  | .notify _ _ => false
  | e => evW e == w

/-- the scan position a phase stands for (`registering` = before the first try = position 0) -/
def pos : Phase → Option Nat
  | .registering => some 0
  | .scan i => some i
  | _ => none

/-- `step` seen from the one waiter it is about: `o` is its state (`none` = not there), the result is
    its new state (`some none` = it has left) -/
def lstep (o : Option WSt) : Ev → Option (Option WSt)
  | .reg _ k =>
    let st := o.getD {}
    if st.phase != .registering then none else
    some (some { st with keys := st.keys ++ [k], reg := st.reg ++ [k] })
  | .try_ _ k got =>
    match o with
    | none => none
    | some st =>
      match pos st.phase with
      | none => none
      | some i =>
        if st.keys[i]? != some k then none else
        if got then some (some { st with phase := .gotElem k })
        else some (some { st with phase := .scan (i + 1), seen := k :: st.seen })
  | .block _ timed =>
    match o with
    | none => none
    | some st =>
      if st.phase != .scan st.keys.length then none else
      some (some { st with phase := .blocked, timed := timed })
  | .wake _ =>
    match o with
    | none => none
    | some st =>
      if st.phase != .blocked || !st.buf then none else
      some (some { st with phase := .scan 0, buf := false, woken := st.woken + 1 })
  | .timeout _ =>
    match o with
    | none => none
    | some st =>
      if st.phase != .blocked || !st.timed then none else
      some (some { st with phase := .gotNull })
  | .notify _ k =>
    match o with
    | none => none
    | some st =>
      if !st.reg.contains k then none else
      some (some { st with buf := true, seen := st.seen.filter (· != k), notified := st.notified + 1 })
  | .abort _ =>
    match o with
    | none => none
    | some st =>
      match st.phase with
      | .registering | .scan _ => some (some { st with phase := .aborted })
      | _ => none
  | .unreg _ k =>
    match o with
    | none => none
    | some st =>
      match st.phase with
      | .gotElem _ | .gotNull | .aborted => some (some { st with reg := st.reg.filter (· != k) })
      | _ => none
  | .fin _ =>
    match o with
    | none => none
    | some st => if st.reg.isEmpty then some none else none

/-- every step reads and writes exactly the waiter it is about -/
theorem step_eq (s : BState) (e : Ev) :
    step s e = (lstep (Block.get s (evW e)) e).map (put s (evW e)) := by
  cases e with
  | reg w k =>
    simp only [step, lstep, evW]
    split <;> simp [*, put]
  | try_ w k got =>
    simp only [step, lstep, evW]
    cases Block.get s w with
    | none => rfl
    | some st =>
      simp only
      cases st.phase <;> simp only [pos, Option.map_none]
      all_goals split
      all_goals first | rfl | (split <;> simp [*, put])
  | block w t =>
    simp only [step, lstep, evW]
    cases Block.get s w with
    | none => rfl
    | some st => simp only; split <;> simp [*, put]
  | wake w =>
    simp only [step, lstep, evW]
    cases Block.get s w with
    | none => rfl
    | some st => simp only; split <;> simp [*, put]
  | timeout w =>
    simp only [step, lstep, evW]
    cases Block.get s w with
    | none => rfl
    | some st => simp only; split <;> simp [*, put]
  | notify w k =>
    simp only [step, lstep, evW]
    cases Block.get s w with
    | none => rfl
    | some st => simp only; split <;> simp [*, put]
  | abort w =>
    simp only [step, lstep, evW]
    cases Block.get s w with
    | none => rfl
    | some st => simp only; split <;> simp [*, put]
  | unreg w k =>
    simp only [step, lstep, evW]
    cases Block.get s w with
    | none => rfl
    | some st => simp only; split <;> simp [*, put]
  | fin w =>
    simp only [step, lstep, evW]
    cases Block.get s w with
    | none => rfl
    | some st => simp only; split <;> simp [*, put]

theorem step_some_iff {s s' : BState} {e : Ev} :
    step s e = some s' ↔ ∃ o, lstep (get s (evW e)) e = some o ∧ s' = put s (evW e) o := by
  rw [step_eq]
  cases lstep (get s (evW e)) e with
  | none => simp
  | some o => simp [eq_comm]

/-- a step leaves every other waiter alone -/
theorem step_frame {s s' : BState} {e : Ev} (h : step s e = some s') {w : W} (hw : w ≠ evW e) :
    get s' w = get s w := by
  obtain ⟨o, _, rfl⟩ := step_some_iff.1 h
  exact get_put_ne _ _ _ _ hw

/-- ... and moves the waiter it is about by `lstep` -/
theorem step_local {s s' : BState} {e : Ev} (h : step s e = some s') :
    lstep (get s (evW e)) e = some (get s' (evW e)) := by
  obtain ⟨o, ho, rfl⟩ := step_some_iff.1 h
  rw [get_put_self]; exact ho

/-! ## traces -/

/-- the fold of `step` over a trace: `some s'` iff every step is allowed -/
def runAll (s : BState) : List Ev → Option BState
  | [] => some s
  | e :: es => (step s e).bind (fun s' => runAll s' es)

theorem run_ok_iff (s s' : BState) (es : List Ev) (i : Nat) :
    run s es i = .ok s' ↔ runAll s es = some s' := by
  induction es generalizing s i with
  | nil => simp [run, runAll]
  | cons e es ih =>
    simp only [run, runAll]
    cases step s e with
    | none => simp
    | some s1 => simpa using ih s1 (i + 1)

theorem runAll_append (s : BState) (es fs : List Ev) :
    runAll s (es ++ fs) = (runAll s es).bind (fun s' => runAll s' fs) := by
  induction es generalizing s with
  | nil => simp [runAll]
  | cons e es ih =>
    simp only [List.cons_append, runAll]
    cases step s e with
    | none => rfl
    | some s1 => simpa using ih s1

theorem runAll_snoc (s : BState) (es : List Ev) (e : Ev) :
    runAll s (es ++ [e]) = (runAll s es).bind (fun s' => step s' e) := by
  rw [runAll_append]
  congr 1; funext s'
  simp [runAll]

/-- the states the protocol can be in: after some trace from the empty state -/
def Reachable (s : BState) : Prop := ∃ es, runAll [] es = some s

/-- induction over runs, from the end: `P` holds of (trace, state after it) -/
theorem run_induction {P : List Ev → BState → Prop} {s0 : BState} {es0 : List Ev} (h0 : P es0 s0)
    (hs : ∀ es s e s', P es s → step s e = some s' → P (es ++ [e]) s')
    {es : List Ev} {s : BState} (h : runAll s0 es = some s) : P (es0 ++ es) s := by
  induction es generalizing s0 es0 with
  | nil => simp only [runAll, Option.some.injEq] at h; subst h; simpa using h0
  | cons e es ih =>
    simp only [runAll] at h
    cases hse : step s0 e with
    | none => simp [hse] at h
    | some s1 =>
      simp only [hse, Option.bind_some] at h
      have := ih (hs _ _ _ _ h0 hse) h
      simpa using this

theorem trace_induction {P : List Ev → BState → Prop} (h0 : P [] [])
    (hs : ∀ es s e s', P es s → step s e = some s' → P (es ++ [e]) s')
    {es : List Ev} {s : BState} (h : runAll [] es = some s) : P es s := by
  simpa using run_induction (es0 := []) h0 hs h

theorem reachable_induction {P : BState → Prop} (h0 : P [])
    (hs : ∀ s e s', P s → step s e = some s' → P s') {s : BState} (h : Reachable s) : P s := by
  obtain ⟨es, h⟩ := h
  exact trace_induction (P := fun _ s => P s) h0 (fun _ s e s' => hs s e s') h

theorem Reachable.step {s s' : BState} {e : Ev} (h : Reachable s) (hs : step s e = some s') :
    Reachable s' := by
  obtain ⟨es, h⟩ := h
  exact ⟨es ++ [e], by rw [runAll_snoc, h]; exact hs⟩

/-- a predicate on single waiter states that holds of a freshly created waiter and is preserved by
    the local step holds of every waiter of every reachable state -/
theorem local_invariant {P : WSt → Prop}
    (hl : ∀ (o : Option WSt) e st', (∀ st, o = some st → P st) → lstep o e = some (some st') → P st')
    {s : BState} (h : Reachable s) {w : W} {st : WSt} (hg : get s w = some st) : P st := by
  refine reachable_induction (P := fun s => ∀ w st, get s w = some st → P st) ?_ ?_ h w st hg
  · intro w st hg; simp [get_nil] at hg
  · intro s e s' ih hse w st hg
    by_cases hw : w = evW e
    · subst hw
      have := step_local hse
      rw [hg] at this
      exact hl _ e st (fun st0 h0 => ih _ st0 h0) this
    · rw [step_frame hse hw] at hg
      exact ih w st hg

end NodisVerif.Proofs.Block
