import NodisVerif.Model.Gate
/-
  Invariants of the EXEC gate (Model/Gate.lean) over every run of the transition system.
-/
namespace NodisVerif.Gate

/-- an exclusive holder is alone; an open transaction of a client goroutine is covered by the gate -/
def Inv (s : GState) : Prop :=
  (∀ h ∈ s.holders, h.2 = .x → s.holders = [h]) ∧
  (∀ p ∈ s.active, s.isClient p.2 = true → s.holds p.2 = true)

theorem inv_init : Inv {} := by
  constructor <;> intro _ h <;> simp at h

theorem holds_iff {s : GState} {g : G} : s.holds g = true ↔ ∃ m, (g, m) ∈ s.holders := by
  unfold GState.holds
  simp only [List.any_eq_true, beq_iff_eq]
  constructor
  · rintro ⟨⟨g', m⟩, hm, rfl⟩; exact ⟨m, hm⟩
  · rintro ⟨m, hm⟩; exact ⟨(g, m), hm, rfl⟩

theorem holdsX_iff {s : GState} {g : G} : s.holdsX g = true ↔ (g, GMode.x) ∈ s.holders := by
  unfold GState.holdsX
  simp only [List.any_eq_true, Bool.and_eq_true, beq_iff_eq]
  constructor
  · rintro ⟨⟨g', m⟩, hm, rfl, rfl⟩; exact hm
  · intro hm; exact ⟨(g, .x), hm, rfl, rfl⟩

theorem holdsX_holds {s : GState} {g : G} (h : s.holdsX g = true) : s.holds g = true :=
  holds_iff.2 ⟨_, holdsX_iff.1 h⟩

end NodisVerif.Gate

namespace NodisVerif.Gate

theorem inv_step {s s' : GState} {e : Ev} (hi : Inv s) (hs : step s e = some s') : Inv s' := by
  obtain ⟨h1, h2⟩ := hi
  cases e with
  | serve g =>
    simp only [step] at hs
    split at hs
    · cases hs; exact ⟨h1, h2⟩
    · split at hs
      · cases hs
      · rename_i hc ha
        cases hs
        refine ⟨h1, ?_⟩
        intro p hp hcl
        have hne : p.2 ≠ g := by
          intro heq
          apply ha
          simp only [List.any_eq_true, beq_iff_eq]
          exact ⟨p, hp, heq⟩
        have : s.isClient p.2 = true := by
          simp only [GState.isClient, List.contains_cons, Bool.or_eq_true, beq_iff_eq] at hcl
          rcases hcl with h | h
          · exact absurd h hne
          · simpa [GState.isClient] using h
        have := h2 p hp this
        simpa [GState.holds] using this
  | gin g m =>
    simp only [step] at hs
    split at hs
    · cases hs
    · cases m with
      | x =>
        simp only at hs
        split at hs
        · rename_i hh he
          cases hs
          constructor
          · intro h hm _; simp at hm; simp [hm]
          · intro p hp hcl
            have := h2 p hp (by simpa [GState.isClient] using hcl)
            have hem : s.holders = [] := by simpa using he
            rw [holds_iff] at this
            obtain ⟨m, hm⟩ := this
            rw [hem] at hm; cases hm
        · cases hs
      | s =>
        simp only at hs
        split at hs
        · rename_i hh hall
          cases hs
          constructor
          · intro h hm hx
            simp only [List.mem_cons] at hm
            rcases hm with rfl | hm
            · cases hx
            · have := (List.all_eq_true.1 hall) h hm
              simp only [beq_iff_eq] at this
              rw [hx] at this; cases this
          · intro p hp hcl
            have := h2 p hp (by simpa [GState.isClient] using hcl)
            rw [holds_iff] at this ⊢
            obtain ⟨m, hm⟩ := this
            exact ⟨m, List.mem_cons_of_mem _ hm⟩
        · cases hs
  | gout g =>
    simp only [step] at hs
    split at hs
    · cases hs
    · split at hs
      · cases hs
      · rename_i hh ha
        cases hs
        constructor
        · intro h hm hx
          simp only [List.mem_filter] at hm
          have := h1 h hm.1 hx
          rw [this]
          rw [this] at hm
          simp only [List.filter_cons, List.filter_nil]
          simp only [List.mem_singleton, true_and] at hm
          simp [hm]
        · intro p hp hcl
          have hne : p.2 ≠ g := by
            intro heq
            apply ha
            simp only [List.any_eq_true, beq_iff_eq]
            exact ⟨p, hp, heq⟩
          have := h2 p hp (by simpa [GState.isClient] using hcl)
          rw [holds_iff] at this ⊢
          obtain ⟨m, hm⟩ := this
          refine ⟨m, ?_⟩
          simp only [List.mem_filter]
          exact ⟨hm, by simpa using hne⟩
  | txb g t =>
    simp only [step] at hs
    split at hs
    · cases hs
    · split at hs
      · cases hs
      · rename_i hal
        cases hs
        refine ⟨h1, ?_⟩
        intro p hp hcl
        simp only [List.mem_cons] at hp
        rcases hp with rfl | hp
        · simp only [GState.allowed, GState.isClient] at hal
          simp only [GState.isClient] at hcl
          rw [hcl] at hal
          simpa [GState.holds] using hal
        · have := h2 p hp (by simpa [GState.isClient] using hcl)
          simpa [GState.holds] using this
  | txe g t =>
    simp only [step] at hs
    split at hs
    · cases hs
    · cases hs
      refine ⟨h1, ?_⟩
      intro p hp hcl
      simp only [List.mem_filter] at hp
      have := h2 p hp.1 (by simpa [GState.isClient] using hcl)
      simpa [GState.holds] using this
  | sig g => simp only [step] at hs; split at hs <;> cases hs; exact ⟨h1, h2⟩
  | chk g => simp only [step] at hs; split at hs <;> cases hs; exact ⟨h1, h2⟩
  | run g => simp only [step] at hs; split at hs <;> cases hs; exact ⟨h1, h2⟩

theorem inv_run : ∀ (es : List Ev) (s s' : GState), Inv s → run s es = some s' → Inv s'
  | [], s, s', hi, h => by simp only [run] at h; cases h; exact hi
  | e :: es, s, s', hi, h => by
    simp only [run] at h
    cases hst : step s e with
    | none => rw [hst] at h; cases h
    | some s1 =>
      rw [hst] at h
      exact inv_run es s1 s' (inv_step hi hst) h

end NodisVerif.Gate

namespace NodisVerif.Gate

/-- the goroutine of a step that touches the keyspace or a connection's watch flags -/
def Ev.actor : Ev → Option G
  | .txb g _ => some g
  | .txe g _ => some g
  | .sig g => some g
  | .chk g => some g
  | .run g => some g
  | _ => none

theorem x_holder_alone {s : GState} (hi : Inv s) {g : G} (hx : s.holdsX g = true) : s.holders = [(g, .x)] :=
  hi.1 _ (holdsX_iff.1 hx) rfl

theorem holder_is_g {s : GState} (hi : Inv s) {g g' : G} (hx : s.holdsX g = true) (hh : s.holds g' = true) : g' = g := by
  have := x_holder_alone hi hx
  rw [holds_iff] at hh
  obtain ⟨m, hm⟩ := hh
  rw [this] at hm
  simp only [List.mem_singleton, Prod.mk.injEq] at hm
  exact hm.1

/-- an accepted step that touches the keyspace while g holds the gate exclusively is g's own, or comes
    from a goroutine that serves no connection -/
theorem step_inside_section {s s' : GState} {e : Ev} (hi : Inv s) {g : G} (hx : s.holdsX g = true)
    (hs : step s e = some s') {g' : G} (ha : e.actor = some g') (hc : s.isClient g' = true) : g' = g := by
  cases e with
  | serve _ => cases ha
  | gin _ _ => cases ha
  | gout _ => cases ha
  | txb g1 t =>
    cases ha
    simp only [step] at hs
    split at hs
    · cases hs
    · split at hs
      · cases hs
      · rename_i hal
        simp only [GState.allowed, hc] at hal
        exact holder_is_g hi hx (by simpa using hal)
  | txe g1 t =>
    cases ha
    simp only [step] at hs
    split at hs
    · cases hs
    · rename_i hm
      have hm' : (t, g') ∈ s.active := by simpa using hm
      exact holder_is_g hi hx (hi.2 _ hm' hc)
  | sig g1 =>
    cases ha
    simp only [step] at hs
    split at hs
    · rename_i hal
      simp only [GState.allowed, hc] at hal
      exact holder_is_g hi hx (by simpa using hal)
    · cases hs
  | chk g1 =>
    cases ha
    simp only [step] at hs
    split at hs
    · rename_i h; exact holder_is_g hi hx (holdsX_holds h)
    · cases hs
  | run g1 =>
    cases ha
    simp only [step] at hs
    split at hs
    · rename_i h; exact holder_is_g hi hx (holdsX_holds h)
    · cases hs

/-- the exclusive section lasts until its owner leaves -/
theorem section_lasts {s s' : GState} {e : Ev} (hi : Inv s) {g : G} (hx : s.holdsX g = true)
    (hs : step s e = some s') (hne : e ≠ .gout g) : s'.holdsX g = true := by
  have hal := x_holder_alone hi hx
  cases e with
  | serve g1 =>
    simp only [step] at hs
    split at hs
    · cases hs; exact hx
    · split at hs
      · cases hs
      · cases hs; simpa [GState.holdsX] using hx
  | gin g1 m =>
    simp only [step] at hs
    split at hs
    · cases hs
    · cases m with
      | x => simp only [hal] at hs; simp at hs
      | s => simp only [hal] at hs; simp at hs
  | gout g1 =>
    simp only [step] at hs
    split at hs
    · cases hs
    · split at hs
      · cases hs
      · cases hs
        have : g1 ≠ g := fun h => hne (by rw [h])
        rw [holdsX_iff]
        simp only [List.mem_filter]
        exact ⟨holdsX_iff.1 hx, by simpa using fun h => this h.symm⟩
  | txb g1 t =>
    simp only [step] at hs
    split at hs
    · cases hs
    · split at hs
      · cases hs
      · cases hs; simpa [GState.holdsX] using hx
  | txe g1 t =>
    simp only [step] at hs
    split at hs
    · cases hs
    · cases hs; simpa [GState.holdsX] using hx
  | sig g1 => simp only [step] at hs; split at hs <;> cases hs; exact hx
  | chk g1 => simp only [step] at hs; split at hs <;> cases hs; exact hx
  | run g1 => simp only [step] at hs; split at hs <;> cases hs; exact hx

/-- every accepted keyspace step of a trace segment is by `g` or by a goroutine that serves no
    connection at that moment -/
def SegOk (g : G) : GState → List Ev → Prop
  | _, [] => True
  | s, e :: es =>
    (∀ s' g', step s e = some s' → e.actor = some g' → s.isClient g' = true → g' = g) ∧
    ∀ s', step s e = some s' → SegOk g s' es

theorem segment_inside_section : ∀ (seg : List Ev) (s : GState) (g : G), Inv s → s.holdsX g = true →
    Ev.gout g ∉ seg → SegOk g s seg
  | [], _, _, _, _, _ => trivial
  | e :: es, s, g, hi, hx, hn => by
    refine ⟨fun s' g' hs ha hc => step_inside_section hi hx hs ha hc, fun s' hs => ?_⟩
    have hne : e ≠ .gout g := fun h => hn (by rw [h]; exact List.mem_cons_self)
    exact segment_inside_section es s' g (inv_step hi hs) (section_lasts hi hx hs hne)
      (fun h => hn (List.mem_cons_of_mem _ h))

end NodisVerif.Gate
