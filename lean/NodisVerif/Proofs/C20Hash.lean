import NodisVerif.Proofs.C20List
import NodisVerif.Proofs.C01Int
/-
  C20, hashes: HSet, HDel, HSetNX, HIncrBy, HMSet (HClear = Del).
-/
namespace NodisVerif.Proofs.C20
open NodisVerif NodisVerif.Store NodisVerif.Spec.Persist NodisVerif.Proofs.C11

variable {now : Int} {p r : MState}

def hsetF (now : Int) (k f v : Bytes) : TxForm := (Cmd.hset k f v).form now
def hdelF (now : Int) (k : Bytes) (fs : List Bytes) : TxForm := (Cmd.hdel k fs).form now

@[simp] theorem hsetF_key (now : Int) (k f v : Bytes) : (hsetF now k f v).key = k := rfl

def opHSet (k f v : Bytes) : FeedOp := { typ := 10, key := k, args := [Bytes.toHex f, Bytes.toHex v] }

theorem applyOp_hset (r0 : MState) (now : Int) (k f v : Bytes) :
    Feed.applyOp r0 now (opHSet k f v) = some ((hsetF now k f v).run r0 now).1 := by
  have h2 : ∀ s, Api.hset s now k f v = (hsetF now k f v).run s now := fun s => hset_eq s now k f v
  simp [Feed.applyOp, opHSet, pB_toHex, ← h2]

/-- content of a key after `HSET f v` -/
def hsetPost (f v : Bytes) : Option (Val × Int) → Option (Val × Int)
  | none => some (.hash (AList.set [] f v), 0)
  | some (.hash h, e) => some (.hash (AList.set h f v), e)
  | some c => some c

theorem hsetF_post (k f v : Bytes) {L : Option (Val × Int)} (hL : Live now L) :
    (hsetF now k f v).post now L = hsetPost f v L := by
  cases L with
  | none => simp [hsetF, TxForm.post, TxForm.spec, txSpec, Cmd.form, decHset, Act.eff, hsetPost, filt_zero, DsHash.hset]
  | some c =>
    obtain ⟨w, e0⟩ := c
    have hl := hL w e0 rfl
    cases w <;> simp [hsetF, TxForm.post, TxForm.spec, txSpec, Cmd.form, decHset, Act.eff, hsetPost, hl, DsHash.hset]

theorem hset_replay (hs : Same now p r) (hl : p.listeners = true) (hfd : p.feed = [])
    (c : Feed.CallInfo) (hc : plainMethod c.method = true) (k f v : Bytes)
    (hb : f.length + v.length + 10 < 2 ^ 63) :
    Replay now r c (Api.hset p now k f v) := by
  rw [hset_eq]
  refine selfOp_main hs hl hfd c hc (hsetF now k f v) (Cmd.ok (.hset k f v) now hb)
    (Cmd.nilSafe (.hset k f v) now trivial) ?_
  intro L _ _
  cases L with
  | none => right; exact ⟨opHSet k f v, rfl, fun r0 => applyOp_hset r0 now k f v⟩
  | some cc =>
    obtain ⟨w, e⟩ := cc
    cases w with
    | hash h => right; exact ⟨opHSet k f v, rfl, fun r0 => applyOp_hset r0 now k f v⟩
    | _ => exact selfOp_keep rfl

theorem hdel_replay (hs : Same now p r) (hl : p.listeners = true) (hfd : p.feed = [])
    (c : Feed.CallInfo) (hc : plainMethod c.method = true) (k : Bytes) (fs : List Bytes) :
    Replay now r c (Api.hdel p now k fs) := by
  rw [hdel_eq]
  have hap : ∀ r0, Feed.applyOp r0 now { typ := 6, key := k, args := fs.map Bytes.toHex } =
      some ((hdelF now k fs).run r0 now).1 := by
    intro r0
    have h2 : ∀ s, Api.hdel s now k fs = (hdelF now k fs).run s now := fun s => hdel_eq s now k fs
    simp [Feed.applyOp, ← h2]
  refine selfOp_main hs hl hfd c hc (hdelF now k fs) (Cmd.ok (.hdel k fs) now trivial)
    (Cmd.nilSafe (.hdel k fs) now trivial) ?_
  intro L _ _
  cases L with
  | none => exact selfOp_miss rfl
  | some cc =>
    obtain ⟨w, e⟩ := cc
    cases w with
    | hash h =>
      right
      refine ⟨_, ?_, hap⟩
      simp only [TxForm.ops, hdelF, Cmd.form, decHdel]
      split <;> rfl
    | _ => exact selfOp_keep rfl

/-! ### HSETNX: the record is an HSET -/

theorem hsetnx_replay (hs : Same now p r) (hl : p.listeners = true) (hfd : p.feed = [])
    (c : Feed.CallInfo) (hc : plainMethod c.method = true) (k f v : Bytes)
    (hb : f.length + v.length + 10 < 2 ^ 63) :
    Replay now r c (Api.hsetnx p now k f v) := by
  rw [hsetnx_eq]
  refine oneOp_main hs hl hfd c _ (hsetnxForm_ok k f v hb) (hsetnxForm_nilSafe k f v) ?_
  intro L hlive _
  unfold OneOp
  rw [emission_plain hc]
  have hgo : ∀ h e, (L = none ∧ h = [] ∧ e = 0) ∨ L = some (.hash h, e) → DsHash.hexists h f = false →
      ∃ op g, (hsetnxForm k f v).ops L = [op] ∧ TxForm.OK g ∧ g.key = (hsetnxForm k f v).key ∧
        (∀ r0, Feed.applyOp r0 now op = some (g.run r0 now).1) ∧ g.post now L = (hsetnxForm k f v).post now L := by
    intro h e hL hex
    refine ⟨opHSet k f v, hsetF now k f v, ?_, Cmd.ok (.hset k f v) now hb, rfl,
      fun r0 => applyOp_hset r0 now k f v, ?_⟩
    · rcases hL with ⟨rfl, rfl, rfl⟩ | rfl <;>
        simp [TxForm.ops, hsetnxForm, decHsetnx, hex, Act.ops, opHSet]
    · rw [hsetF_post k f v hlive]
      rcases hL with ⟨rfl, rfl, rfl⟩ | rfl
      · simp [TxForm.post, TxForm.spec, txSpec, hsetnxForm, decHsetnx, hex, Act.eff, hsetPost, filt_zero, DsHash.hset]
      · have hl0 := hlive _ _ rfl
        simp [TxForm.post, TxForm.spec, txSpec, hsetnxForm, decHsetnx, hex, Act.eff, hsetPost, hl0, DsHash.hset]
  cases L with
  | none => right; exact hgo [] 0 (Or.inl ⟨rfl, rfl, rfl⟩) rfl
  | some cc =>
    obtain ⟨w, e⟩ := cc
    cases w with
    | hash h =>
      by_cases hex : DsHash.hexists h f = true
      · left
        simp [TxForm.ops, TxForm.post, TxForm.spec, txSpec, hsetnxForm, decHsetnx, hex, Act.ops, Act.eff]
      · right; exact hgo h e (Or.inr rfl) (by simpa using hex)
    | _ =>
      left
      simp [TxForm.ops, TxForm.post, TxForm.spec, txSpec, hsetnxForm, decHsetnx, Act.ops, Act.eff]

/-! ### HINCRBY -/

theorem formatInt_length (x : Int) (h : inInt64 x = true) : (formatInt x).length ≤ 21 := by
  have hd : ∀ n : Nat, n < 10 ^ 20 → (natDigits n).length ≤ 20 := by
    intro n hn
    rw [Proofs.C01.natDigits_map, List.length_map]
    exact (Nat.length_toDigits_le_iff (by decide) (by decide)).mpr hn
  unfold inInt64 int64Min int64Max at h
  simp only [decide_eq_true_eq] at h
  unfold formatInt
  split
  · have := hd x.natAbs (by omega)
    simp only [List.length_cons]; omega
  · have := hd x.toNat (by omega)
    omega

def opHIncrBy (k f : Bytes) (delta : Int) : FeedOp :=
  { typ := 7, key := k, args := [Bytes.toHex f, toString delta] }

def decHincrby (key field : Bytes) (delta : Int) (v : Val) (_ : Int) : Act :=
  match v with
  | .hash h =>
    match DsHash.hincrby h field delta with
    | none => .put none none [opHIncrBy key field delta] (.many [.int 0, .err true])
    | some (h', n) => .put (some (.hash h')) none [opHIncrBy key field delta] (.many [.int n, .err false])
  | _ => .keep .panic

def hincrbyF (key field : Bytes) (delta : Int) : TxForm :=
  ⟨true, some (.hash []), .unit, Cmd.pan, decHincrby key field delta, key⟩

theorem hincrby_eq (s : MState) (now : Int) (key field : Bytes) (delta : Int) :
    Api.hincrby s now key field delta = (hincrbyF key field delta).run s now := by
  refine Eq.trans ?_ (create_shape s now key _ _ _ _ (fun s1 => match Api.asHash s1 key with
    | none => (s1, .panic)
    | some h =>
      match DsHash.hincrby h field delta with
      | none => (emit (signal s1 key) (opHIncrBy key field delta), .many [.int 0, .err true])
      | some (h', v) => (emit (signal (Api.setVal s1 key (.hash h')) key) (opHIncrBy key field delta),
          .many [.int v, .err false])) ?_)
  · rfl
  · intro s1; simp only [Api.asHash]
    cases valOf s1 key with
    | none => rfl
    | some v =>
      cases v <;> try rfl
      rename_i h
      simp only [hincrbyF, decHincrby]
      cases DsHash.hincrby h field delta with
      | none => rfl
      | some q => rfl

theorem good_hincrby {h h' : AList Bytes} {field : Bytes} {delta n : Int} (hg : Good (.hash h))
    (hd : inInt64 delta = true) (hb : field.length + 40 < 2 ^ 63)
    (hh : DsHash.hincrby h field delta = some (h', n)) : Good (.hash h') := by
  unfold DsHash.hincrby at hh
  split at hh
  · simp only [Option.some.injEq, Prod.mk.injEq] at hh
    rw [← hh.1]
    have := formatInt_length delta hd
    exact good_hset h field (formatInt delta) hg (by omega)
  · split at hh
    · cases hh
    · rename_i vi _
      simp only [Option.some.injEq, Prod.mk.injEq] at hh
      rw [← hh.1]
      have := formatInt_length (wrap64 (vi + delta)) (inInt64_wrap64 _)
      exact good_hset h field _ hg (by omega)

theorem hincrbyF_ok (key field : Bytes) (delta : Int) (hd : inInt64 delta = true) (hb : field.length + 40 < 2 ^ 63) :
    (hincrbyF key field delta).OK := by
  refine ⟨(fun h => nomatch h), (fun w h => by cases h; exact good_emptyHash), fun w e hg _ => ?_⟩
  cases w with
  | hash h =>
    show (decHincrby key field delta (.hash h) e).GoodA
    unfold decHincrby
    simp only
    cases hh : DsHash.hincrby h field delta with
    | none => exact ⟨(fun _ hw => nomatch hw), (fun _ he => nomatch he)⟩
    | some q =>
      obtain ⟨h', n⟩ := q
      exact ⟨(fun w hw => by cases hw; exact good_hincrby hg hd hb hh), (fun _ he => nomatch he)⟩
  | _ => trivial

theorem hincrbyF_nilSafe (key field : Bytes) (delta : Int) : (hincrbyF key field delta).NilSafe := by
  apply nilSafe_of
  · intro v e hv
    cases v <;> simp_all [hincrbyF, decHincrby]
    split <;> simp
  · intro v0 h0
    simp only [hincrbyF, Option.some.injEq] at h0
    subst h0
    simp only [hincrbyF, decHincrby]
    split <;> simp

theorem hincrby_replay (hs : Same now p r) (hl : p.listeners = true) (hfd : p.feed = [])
    (c : Feed.CallInfo) (hc : c.method = "HIncrBy") (k f : Bytes) (delta : Int)
    (hd : inInt64 delta = true) (hb : f.length + 40 < 2 ^ 63) :
    Replay now r c (Api.hincrby p now k f delta) := by
  rw [hincrby_eq]
  have hem1 : ∀ x raw, Feed.emission c (.many [x, .err true]) raw = [] := by
    intro x raw; unfold Feed.emission; simp [hc, Feed.keepTTLMethods]
  have hem2 : ∀ x raw, Feed.emission c (.many [x, .err false]) raw = raw := by
    intro x raw; unfold Feed.emission; simp [hc, Feed.keepTTLMethods]
  have hem3 : Feed.emission c .panic [] = [] := by
    unfold Feed.emission; simp [hc, Feed.keepTTLMethods]
  have hap : ∀ r0, Feed.applyOp r0 now (opHIncrBy k f delta) = some ((hincrbyF k f delta).run r0 now).1 := by
    intro r0
    simp [Feed.applyOp, opHIncrBy, pB_toHex, ← hincrby_eq]
  refine oneOp_main hs hl hfd c _ (hincrbyF_ok k f delta hd hb) (hincrbyF_nilSafe k f delta) ?_
  intro L hlive _
  unfold OneOp
  have hgo : ∀ h e, (L = none ∧ h = [] ∧ e = 0) ∨ L = some (.hash h, e) →
      (Feed.emission c ((hincrbyF k f delta).spec L).1 ((hincrbyF k f delta).ops L) = [] ∧
        (hincrbyF k f delta).post now L = L) ∨
      ∃ op g, Feed.emission c ((hincrbyF k f delta).spec L).1 ((hincrbyF k f delta).ops L) = [op] ∧ TxForm.OK g ∧
        g.key = (hincrbyF k f delta).key ∧ (∀ r0, Feed.applyOp r0 now op = some (g.run r0 now).1) ∧
        g.post now L = (hincrbyF k f delta).post now L := by
    intro h e hL
    cases hh : DsHash.hincrby h f delta with
    | none =>
      left
      rcases hL with ⟨rfl, rfl, rfl⟩ | rfl
      · simp [DsHash.hincrby, AList.get?] at hh
      · have hl0 := hlive _ _ rfl
        simp [TxForm.ops, TxForm.post, TxForm.spec, txSpec, hincrbyF, decHincrby, hh, Act.ops, Act.eff, Act.reply, hl0,
          hem1]
    | some q =>
      obtain ⟨h', n⟩ := q
      right
      refine ⟨opHIncrBy k f delta, hincrbyF k f delta, ?_, hincrbyF_ok k f delta hd hb, rfl, hap, rfl⟩
      rcases hL with ⟨rfl, rfl, rfl⟩ | rfl <;>
        simp [TxForm.ops, TxForm.spec, txSpec, hincrbyF, decHincrby, hh, Act.ops, Act.reply, hem2]
  cases L with
  | none => exact hgo [] 0 (Or.inl ⟨rfl, rfl, rfl⟩)
  | some cc =>
    obtain ⟨w, e⟩ := cc
    cases w with
    | hash h => exact hgo h e (Or.inr rfl)
    | _ =>
      left
      simp [TxForm.ops, TxForm.post, TxForm.spec, txSpec, hincrbyF, decHincrby, Act.ops, Act.eff, Act.reply, hem3]

end NodisVerif.Proofs.C20
