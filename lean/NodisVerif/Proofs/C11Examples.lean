import NodisVerif.Proofs.C11Main
/-
  C11 / C12: concrete states (non-vacuity of the invariant) and the witness of the nil-string finding.
-/
namespace NodisVerif.Proofs.C11
open NodisVerif.Store NodisVerif.Codec NodisVerif.Spec.Persist
open NodisVerif.Proofs.AListLemmas NodisVerif.Proofs.AListLemmas2 NodisVerif.Proofs.C11AList

/-- a store with one hot modified key "a" (never persisted), one cold key "b" with deadline 1000
    and the backend entry of "b" -/
def exState (pebble : Bool) : MState :=
  { pebble := pebble, nextId := 10,
    index := [([97], { exp := 0, value := some (.str [1]), state := 3, kid := 1, oid := 2, vtype := 1 }),
              ([98], { exp := 1000, value := none, state := 1, kid := 3, oid := 4, vtype := 1, stored := some 1000 })],
    disk := [(encodeKey [98] 1000,
              { name := [98], exp := 1000, val := .str [2], kid := if pebble then 0 else 3, oid := if pebble then 0 else 4 })] }

theorem exState_inv (pebble : Bool) (t : Int) : StoreInv (exState pebble) t := by
  have hidx : ∀ k m, AList.get? (exState pebble).index k = some m →
      (k = [97] ∧ m = { exp := 0, value := some (.str [1]), state := 3, kid := 1, oid := 2, vtype := 1 }) ∨
      (k = [98] ∧ m = { exp := 1000, value := none, state := 1, kid := 3, oid := 4, vtype := 1, stored := some 1000 }) := by
    intro k m hm
    simp only [exState, AList.get?] at hm
    split at hm
    · left; rename_i h; exact ⟨h.symm, by simpa using hm.symm⟩
    · split at hm
      · right; rename_i h; exact ⟨h.symm, by simpa using hm.symm⟩
      · cases hm
  have hdisk : ∀ dk e, AList.get? (exState pebble).disk dk = some e →
      dk = encodeKey [98] 1000 ∧
      e = { name := [98], exp := 1000, val := .str [2], kid := if pebble then 0 else 3, oid := if pebble then 0 else 4 } := by
    intro dk e he
    simp only [exState, AList.get?] at he
    split at he
    · rename_i h; exact ⟨h.symm, by simpa using he.symm⟩
    · cases he
  have hgetB : AList.get? (exState pebble).index [98] =
      some { exp := 1000, value := none, state := 1, kid := 3, oid := 4, vtype := 1, stored := some 1000 } := by
    simp [exState, AList.get?]
  have hgetD : AList.get? (exState pebble).disk (encodeKey [98] 1000) =
      some { name := [98], exp := 1000, val := .str [2], kid := if pebble then 0 else 3, oid := if pebble then 0 else 4 } := by
    simp [exState, AList.get?]
  refine ⟨by simp [exState, AList.Sorted, Bytes.lt], by simp [exState, AList.Sorted], ?_, ?_, ?_, by simp [exState]⟩
  · intro k m hm
    rcases hidx k m hm with ⟨rfl, rfl⟩ | ⟨rfl, rfl⟩
    · exact RecInv.hot (v := .str [1]) rfl (by decide) (by decide) ⟨trivial, trivial⟩
        (by intro e he; cases he) (Or.inl (by decide))
    · refine ⟨by decide, by decide, (by intro v hv; cases hv), ?_, fun _ _ => rfl, (by intro _ _ _ v hv; cases hv)⟩
      intro e he
      simp only [Option.some.injEq] at he
      subst he
      exact ⟨_, hgetD, rfl, rfl⟩
  · intro dk e he
    obtain ⟨rfl, rfl⟩ := hdisk dk e he
    exact ⟨rfl, (by show inInt64 (1000 : Int) = true; decide), ⟨trivial, trivial⟩, _, hgetB, rfl⟩
  · intro hp
    have hp' : pebble = false := hp
    subst hp'
    refine ⟨?_, ?_, ?_, ?_, ?_⟩
    · intro k m hm
      rcases hidx k m hm with ⟨rfl, rfl⟩ | ⟨rfl, rfl⟩ <;> simp [exState]
    · intro k1 m1 k2 m2 h1 h2 ho
      rcases hidx k1 m1 h1 with ⟨rfl, rfl⟩ | ⟨rfl, rfl⟩ <;>
        rcases hidx k2 m2 h2 with ⟨rfl, rfl⟩ | ⟨rfl, rfl⟩ <;> simp at ho ⊢
    · intro dk e he
      obtain ⟨rfl, rfl⟩ := hdisk dk e he
      simp [exState]
    · intro dk e k m he hm ho
      obtain ⟨rfl, rfl⟩ := hdisk dk e he
      rcases hidx k m hm with ⟨rfl, rfl⟩ | ⟨rfl, rfl⟩ <;> simp at ho ⊢
    · intro dk1 e1 dk2 e2 h1 h2 _
      obtain ⟨rfl, rfl⟩ := hdisk dk1 e1 h1
      obtain ⟨rfl, rfl⟩ := hdisk dk2 e2 h2
      rfl

theorem exState_nilfree (pebble : Bool) : NilFree (exState pebble) := by
  intro k m hm _ hv
  simp only [exState, AList.get?] at hm
  split at hm
  · simp only [Option.some.injEq] at hm; subst hm; cases hv
  · split at hm
    · simp only [Option.some.injEq] at hm; subst hm; cases hv
    · cases hm

theorem empty_inv (pebble : Bool) (t : Int) : StoreInv (empty pebble) t := by
  refine ⟨trivial, trivial, ?_, ?_, ?_, by simp [empty]⟩
  · intro k m hm; cases hm
  · intro dk e he; cases he
  · intro _
    exact ⟨(fun k m hm => by cases hm), (fun k1 m1 _ _ h1 => by cases h1), (fun dk e he => by cases he),
      (fun dk e _ _ he => by cases he), (fun dk e _ _ he => by cases he)⟩

/-! ### the nil-string finding -/

/-- a Pebble store whose key holds Go's nil slice.  Not reachable through the API any more (a fresh
    string key now starts with the empty non-nil value); it satisfies the storage invariant. -/
def nilState : MState :=
  { pebble := true, nextId := 3,
    index := [([107], { exp := 0, value := some .strNil, state := 3, kid := 1, oid := 2, vtype := 1 })] }

theorem putVarint_zero : Varint.putVarint 0 = [0] := by
  simp [Varint.putVarint, Varint.zigzag, Varint.putUvarint]

theorem nilState_logical : logical nilState 0 = [([107], .strNil, 0)] := by
  simp [nilState, logical, view, Meta.isOk, Meta.expired]

theorem nilState_gc : logical (gc nilState 0) 0 = [([107], .str [], 0)] := by
  simp [gc, nilState, Meta.expired, Meta.isOk, Meta.isModified, persist, diskSet, encodeKey, putVarint_zero,
    AList.set, putMeta, syncShared, logical, view, loadValue, diskGet, AList.get?, encodeEntry, encodeVal,
    decodeEntry, Val.typeCode]

theorem nilState_cycle : logical (reopen (close nilState 0)) 0 = [([107], .str [], 0)] := by
  simp [close, flush, reopen, nilState, Meta.expired, Meta.isOk, Meta.isModified, persist, diskSet, encodeKey,
    putVarint_zero, AList.set, putMeta, syncShared, logical, view, loadValue, diskGet, AList.get?,
    encodeEntry, encodeVal, decodeEntry, Val.typeCode]

theorem nilState_get_hot : (Api.get nilState 0 [107]).2 = .bytes none := by
  simp [Api.get, readKey, nilState, getMeta, AList.get?, lockR, putMeta, AList.set, Meta.isOk, Meta.expired,
    Api.asStr, valOf]

theorem nilState_inv (t : Int) : StoreInv nilState t := by
  have hidx : ∀ k m, AList.get? nilState.index k = some m →
      k = [107] ∧ m = { exp := 0, value := some .strNil, state := 3, kid := 1, oid := 2, vtype := 1 } := by
    intro k m hm
    simp only [nilState, AList.get?] at hm
    split at hm
    · rename_i h; exact ⟨h.symm, by simpa using hm.symm⟩
    · cases hm
  refine ⟨trivial, trivial, ?_, (by intro dk e he; cases he), (by intro hp; cases hp), by simp [nilState]⟩
  intro k m hm
  obtain ⟨rfl, rfl⟩ := hidx k m hm
  exact RecInv.hot (v := .strNil) rfl (by decide) (by decide) ⟨trivial, trivial⟩
    (by intro e he; cases he) (Or.inl (by decide))

end NodisVerif.Proofs.C11
