import NodisVerif.Proofs.C20Hash2
/-
  C20, sets: SAdd, SRem, SPop (the record is an SREM of the popped members).
-/
namespace NodisVerif.Proofs.C20
open NodisVerif NodisVerif.Store NodisVerif.Spec.Persist NodisVerif.Proofs.C11

variable {now : Int} {p r : MState}

def saddF (now : Int) (k : Bytes) (ms : List Bytes) : TxForm := (Cmd.sadd k ms).form now
def sremF (now : Int) (k : Bytes) (ms : List Bytes) : TxForm := (Cmd.srem k ms).form now

def opSAdd (k : Bytes) (ms : List Bytes) : FeedOp := { typ := 23, key := k, args := ms.map Bytes.toHex }
def opSRem (k : Bytes) (ms : List Bytes) : FeedOp := { typ := 24, key := k, args := ms.map Bytes.toHex }

theorem applyOp_sadd (r0 : MState) (now : Int) (k : Bytes) (ms : List Bytes) :
    Feed.applyOp r0 now (opSAdd k ms) = some ((saddF now k ms).run r0 now).1 := by
  have h2 : ∀ s, Api.sadd s now k ms = (saddF now k ms).run s now := fun s => sadd_eq s now k ms
  simp [Feed.applyOp, opSAdd, ← h2]

theorem applyOp_srem (r0 : MState) (now : Int) (k : Bytes) (ms : List Bytes) :
    Feed.applyOp r0 now (opSRem k ms) = some ((sremF now k ms).run r0 now).1 := by
  have h2 : ∀ s, Api.srem s now k ms = (sremF now k ms).run s now := fun s => srem_eq s now k ms
  simp [Feed.applyOp, opSRem, ← h2]

theorem saddF_selfOp (k : Bytes) (ms : List Bytes) (L : Option (Val × Int)) : SelfOp now (saddF now k ms) L := by
  cases L with
  | none => right; exact ⟨opSAdd k ms, rfl, fun r0 => applyOp_sadd r0 now k ms⟩
  | some cc =>
    obtain ⟨w, e⟩ := cc
    cases w with
    | set st => right; exact ⟨opSAdd k ms, rfl, fun r0 => applyOp_sadd r0 now k ms⟩
    | _ => exact selfOp_keep rfl

theorem sadd_replay (hs : Same now p r) (hl : p.listeners = true) (hfd : p.feed = [])
    (c : Feed.CallInfo) (hc : plainMethod c.method = true) (k : Bytes) (ms : List Bytes)
    (hb : ∀ m ∈ ms, m.length < 2 ^ 63) :
    Replay now r c (Api.sadd p now k ms) := by
  rw [sadd_eq]
  exact selfOp_main hs hl hfd c hc (saddF now k ms) (Cmd.ok (.sadd k ms) now hb)
    (Cmd.nilSafe (.sadd k ms) now trivial) (fun L _ _ => saddF_selfOp k ms L)

theorem srem_replay (hs : Same now p r) (hl : p.listeners = true) (hfd : p.feed = [])
    (c : Feed.CallInfo) (hc : plainMethod c.method = true) (k : Bytes) (ms : List Bytes) :
    Replay now r c (Api.srem p now k ms) := by
  rw [srem_eq]
  refine selfOp_main hs hl hfd c hc (sremF now k ms) (Cmd.ok (.srem k ms) now trivial)
    (Cmd.nilSafe (.srem k ms) now trivial) ?_
  intro L _ _
  cases L with
  | none => exact selfOp_miss rfl
  | some cc =>
    obtain ⟨w, e⟩ := cc
    cases w with
    | set st =>
      right
      refine ⟨opSRem k ms, ?_, fun r0 => applyOp_srem r0 now k ms⟩
      simp only [TxForm.ops, sremF, Cmd.form, decSrem]
      split <;> rfl
    | _ => exact selfOp_keep rfl

/-! ### SPOP -/

def spopValid (st : AList Unit) (count : Int) (choice : List Bytes) : Bool :=
  choice.all (DsSet.mem st) && Api.distinct choice &&
    choice.length = (if (if count = 0 then 1 else count) ≤ 0 then 0
      else min (if count = 0 then 1 else count).toNat st.length)

def decSpop (key : Bytes) (count : Int) (choice : List Bytes) (v : Val) (_ : Int) : Act :=
  match v with
  | .set st =>
    if !spopValid st count choice then .keep (.str (Bytes.ofString "INVALID-CHOICE")) else
    if DsSet.scard (DsSet.srem st choice).1 = 0 then
      .drop (.set (DsSet.srem st choice).1) [opSRem key choice] (.slist choice)
    else .put (some (.set (DsSet.srem st choice).1)) none [opSRem key choice] (.slist choice)
  | _ => .keep .panic

def spopF (key : Bytes) (count : Int) (choice : List Bytes) : TxForm :=
  ⟨true, none, .slist [], Cmd.pan, decSpop key count choice, key⟩

theorem spop_eq (s : MState) (now : Int) (key : Bytes) (count : Int) (choice : List Bytes) :
    Api.spop s now key count choice = (spopF key count choice).run s now := by
  refine Eq.trans ?_ (write_shape s now key _ _ _ (fun s0 => match Api.asSet s0 key with
     | none => (s0, .panic)
     | some st =>
       if !spopValid st count choice then (s0, .str (Bytes.ofString "INVALID-CHOICE")) else
       let s1 := Api.setVal s0 key (.set (DsSet.srem st choice).1)
       let s2 := if DsSet.scard (DsSet.srem st choice).1 = 0 then delKey s1 key else s1
       (emit (signal s2 key) (opSRem key choice), .slist choice)) ?_)
  · rfl
  · intro s1; simp only [Api.asSet]
    cases valOf s1 key with
    | none => rfl
    | some v =>
      cases v <;> try rfl
      rename_i st
      simp only [spopF, decSpop]
      cases spopValid st count choice
      · rfl
      · simp only [Bool.not_true, Bool.false_eq_true, if_false]
        by_cases hz : DsSet.scard (DsSet.srem st choice).1 = 0 <;>
          simp only [hz, if_true, if_false, runAct, emits, List.foldl_cons, List.foldl_nil, optSetVal, optSetExp]

theorem spopF_ok (key : Bytes) (count : Int) (choice : List Bytes) : (spopF key count choice).OK := by
  refine ⟨(fun h => nomatch h), (fun _ h => nomatch h), fun w e hg _ => ?_⟩
  cases w with
  | set st =>
    show (decSpop key count choice (.set st) e).GoodA
    unfold decSpop
    simp only
    split
    · trivial
    · split
      · exact good_srem choice st 0 hg
      · exact ⟨(fun w hw => by cases hw; exact good_srem choice st 0 hg), (fun e he => by cases he)⟩
  | _ => trivial

theorem spopF_nilSafe (key : Bytes) (count : Int) (choice : List Bytes) : (spopF key count choice).NilSafe := by
  apply nilSafe_of
  · intro v e hv
    cases v <;> simp_all [spopF, decSpop]
  · intro v0 h0; cases h0

theorem spop_replay (hs : Same now p r) (hl : p.listeners = true) (hfd : p.feed = [])
    (c : Feed.CallInfo) (hc : plainMethod c.method = true) (k : Bytes) (count : Int) (choice : List Bytes) :
    Replay now r c (Api.spop p now k count choice) := by
  rw [spop_eq]
  refine oneOp_main hs hl hfd c _ (spopF_ok k count choice) (spopF_nilSafe k count choice) ?_
  intro L hlive _
  unfold OneOp
  rw [emission_plain hc]
  cases L with
  | none => left; simp [TxForm.ops, TxForm.post, TxForm.spec, txSpec, spopF]
  | some cc =>
    obtain ⟨w, e⟩ := cc
    cases w with
    | set st =>
      by_cases hv : spopValid st count choice = true
      · right
        refine ⟨opSRem k choice, sremF now k choice, ?_, Cmd.ok (.srem k choice) now trivial, rfl,
          fun r0 => applyOp_srem r0 now k choice, ?_⟩
        · simp only [TxForm.ops, spopF, decSpop, hv, Bool.not_true, Bool.false_eq_true, if_false]
          split <;> rfl
        · simp only [TxForm.post, TxForm.spec, txSpec, spopF, decSpop, sremF, Cmd.form, decSrem, hv, Bool.not_true,
            Bool.false_eq_true, if_false]
          by_cases hz : DsSet.scard (DsSet.srem st choice).1 = 0 <;> simp [hz, Act.eff]
      · left
        simp [TxForm.ops, TxForm.post, TxForm.spec, txSpec, spopF, decSpop, hv, Act.ops, Act.eff]
    | _ =>
      left
      simp [TxForm.ops, TxForm.post, TxForm.spec, txSpec, spopF, decSpop, Act.ops, Act.eff]

end NodisVerif.Proofs.C20
